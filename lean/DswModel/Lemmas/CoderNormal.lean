import DswModel.Model.Spiderweb
import DswModel.Lemmas.CoderDefs
import DswModel.Lemmas.Digit
import DswModel.Props.C15
import DswModel.Props.C16
import DswModel.Props.C18
import Mathlib.Data.Fintype.Pigeonhole
import Mathlib.Data.Fintype.Card
/-! Helper lemmas for encode/decode (CoderNormal): normal (arbitrary-precision) mode.

Architecture:
* `encodeNat` — the encoder loop on natural numbers; `encodeNormalLoop_eq_encodeNat`.
* `walkValueD` — the mixed-radix value of a walk with the *decoder's* digit `arcDigit` (equal to
  `walkValue` under `DistinctKeys`, `walkValueD_eq_walkValue`).
* `cn_decode_normal` — complete characterisation of normal-mode `decode`.
* `cn_encodeNat_spec` — the strand returned by `encodeNat` is a walk of value `q`, all of whose
  non-empty suffixes have non-zero value.
* `cn_encodeNat_total` — the fuel `L * |V| + 1` suffices on `GoodFrom` graphs.
-/
namespace Dsw

/-! ## definitions -/

/-- mixed-radix value of a walk with the decoder's digit (`arcDigit`); no hypothesis on the table
is needed for the round trip in this form. -/
def walkValueD (a : Acc) (tbl : Option Tbl) : Int → List Char → Nat
  | _, [] => 0
  | v, c :: s =>
    let j := (nucIdx c).getD 0
    let rest := walkValueD a tbl (a.ent v j) s
    if a.outDeg v > 1 then arcDigit a tbl v j + a.outDeg v * rest else rest

/-- the normal-mode encoder loop on natural numbers. -/
def encodeNat (a : Acc) (tbl : Option Tbl) : Nat → Int → Nat → R (List Char)
  | 0, _, _ => .error .outOfFuel
  | f + 1, v, q =>
    if q = 0 then .ok []
    else if a.outDeg v > 1 then
      let j := selectArc a tbl v (q % a.outDeg v)
      (encodeNat a tbl f (a.ent v j) (q / a.outDeg v)).map (nucChar j :: ·)
    else if a.outDeg v = 1 then
      let j := (a.live v).getD 0 0
      (encodeNat a tbl f (a.ent v j) q).map (nucChar j :: ·)
    else .error .valueError

/-- every non-empty suffix of the walk has non-zero `walkValueD`. -/
def TightD (a : Acc) (tbl : Option Tbl) (v : Int) (s : List Char) : Prop :=
  ∀ i, i < s.length → walkValueD a tbl (walkEnd a v (s.take i)) (s.drop i) ≠ 0

/-! ## the string loop is the Nat loop -/

theorem cn_canonical_eq_zero_iff {q : Dec} (hq : q.Canonical) : q = [0] ↔ q.toNat = 0 := by
  constructor
  · intro h; subst h; rfl
  · exact hq.eq_zero_of_toNat

theorem encodeNormalLoop_eq_encodeNat (a : Acc) (tbl : Option Tbl) (f : Nat) (v : Int) (q : Dec)
    (hq : q.Canonical) : encodeNormalLoop a tbl f v q = encodeNat a tbl f v q.toNat := by
  induction f generalizing v q with
  | zero => rfl
  | succ f ih =>
    unfold encodeNormalLoop encodeNat
    by_cases h0 : q = [0]
    · subst h0
      simp [Dec.toNat]
    · have h0' : q.toNat ≠ 0 := fun h => h0 ((cn_canonical_eq_zero_iff hq).2 h)
      simp only [h0, h0', if_false, Acc.outDeg]
      have h4 := live_length_le_four a v
      by_cases h1 : (a.live v).length > 1
      · obtain ⟨c1, v1, _, v2⟩ := C15_div q (a.live v).length hq (by omega) (by omega)
        simp only [h1, if_true]
        rw [ih _ _ c1, v1, v2]
      · simp only [h1, if_false]
        by_cases h2 : (a.live v).length = 1
        · simp only [h2, if_true]
          rw [ih _ _ hq]
        · simp [h2]

/-! ## arcs, `Acc.next`, `livePos` -/

theorem cn_next_of_live {a : Acc} {v : Int} {c : Char} {j : Nat} (hc : nucIdx c = some j)
    (hj : j ∈ a.live v) : a.next v c = some (a.ent v j) := by
  have := live_ent_nonneg a v hj
  simp [Acc.next, hc, this]

theorem cn_next_some {a : Acc} {v : Int} {c : Char} {t : Int} (h : a.next v c = some t) :
    ∃ j, nucIdx c = some j ∧ j ∈ a.live v ∧ t = a.ent v j := by
  unfold Acc.next at h
  cases hc : nucIdx c with
  | none => simp [hc] at h
  | some j =>
    simp only [hc] at h
    by_cases hge : a.ent v j ≥ 0
    · simp only [hge, if_true, Option.some.injEq] at h
      exact ⟨j, rfl, (mem_live_iff a v j).2 ⟨nucIdx_lt hc, hge⟩, h.symm⟩
    · simp [hge] at h

theorem cn_next_none {a : Acc} {v : Int} {c : Char} (h : a.next v c = none) {j : Nat}
    (hc : nucIdx c = some j) : j ∉ a.live v := by
  intro hj
  rw [cn_next_of_live hc hj] at h
  cases h

theorem cn_livePos_of_live {a : Acc} {v : Int} {c : Char} {j : Nat} (hc : nucIdx c = some j)
    (hj : j ∈ a.live v) : livePos a v c = some ((a.live v).idxOf j) := by
  simp [livePos, hc, hj]

theorem cn_livePos_of_not_live {a : Acc} {v : Int} {c : Char} {j : Nat} (hc : nucIdx c = some j)
    (hj : j ∉ a.live v) : livePos a v c = none := by
  simp [livePos, hc, hj]

theorem cn_livePos_foreign {a : Acc} {v : Int} {c : Char} (hc : nucIdx c = none) :
    livePos a v c = none := by
  simp [livePos, hc]

theorem cn_live_eq_singleton {a : Acc} {v : Int} (h : (a.live v).length = 1) :
    a.live v = [(a.live v).getD 0 0] := by
  match hl : a.live v, h with
  | [x], _ => rfl

/-! ## Horner on decimal strings -/

theorem cn_hornerStr_nil : hornerStr [] = [0] := rfl

theorem cn_hornerStr_cons (dn : Nat × Nat) (rest : List (Nat × Nat)) :
    hornerStr (dn :: rest) =
      calculusAddition (calculusMultiplication (hornerStr rest) dn.1) dn.2 := by
  simp [hornerStr, List.foldl_append]

/-! ## `decodeWalk` -/

theorem cn_decodeWalk_walk (a : Acc) (tbl : Option Tbl) : ∀ (s : List Char) (v : Int),
    isWalk a v s = true → ∃ saved, decodeWalk a tbl v s = .ok saved ∧
      (hornerStr saved).Canonical ∧ (hornerStr saved).toNat = walkValueD a tbl v s := by
  intro s
  induction s with
  | nil =>
    intro v _
    exact ⟨[], rfl, Dec.canonical_zero, rfl⟩
  | cons c s ih =>
    intro v hw
    unfold isWalk at hw
    cases hn : a.next v c with
    | none => simp [hn] at hw
    | some t =>
      simp only [hn] at hw
      obtain ⟨j, hc, hj, rfl⟩ := cn_next_some hn
      obtain ⟨saved, hs, hcan, hval⟩ := ih _ hw
      have hjd : (nucIdx c).getD 0 = j := by simp [hc]
      have h4 := live_length_le_four a v
      unfold decodeWalk walkValueD
      simp only [hjd, Acc.outDeg]
      by_cases h1 : (a.live v).length > 1
      · simp only [h1, if_true, cn_livePos_of_live hc hj, hs]
        refine ⟨_, rfl, ?_⟩
        rw [cn_hornerStr_cons]
        have hd : arcDigit a tbl v j < (a.live v).length := arcDigit_lt a tbl v hj
        obtain ⟨m1, m2⟩ := C15_mul (hornerStr saved) (a.live v).length hcan (by omega)
        obtain ⟨a1, a2⟩ := C15_add _ (posToDigit tbl v (a.live v) ((a.live v).idxOf j)) m1
          (by unfold arcDigit at hd; omega)
        refine ⟨a1, ?_⟩
        rw [a2, m2, hval]
        simp only [arcDigit]
        rw [Nat.mul_comm, Nat.add_comm]
      · have hpos : 0 < (a.live v).length := List.length_pos_of_mem hj
        have h1' : (a.live v).length = 1 := by omega
        have hsing := cn_live_eq_singleton h1'
        have hjeq : (a.live v).getD 0 0 = j := by
          rw [hsing] at hj
          exact (List.mem_singleton.1 hj).symm
        simp only [h1', if_true, hjeq, nucChar_nucIdx hc]
        exact ⟨saved, hs, hcan, hval⟩

theorem cn_decodeWalk_not_walk (a : Acc) (tbl : Option Tbl) : ∀ (s : List Char) (v : Int),
    isWalk a v s = false → decodeWalk a tbl v s = .error .valueError := by
  intro s
  induction s with
  | nil => intro v h; simp [isWalk] at h
  | cons c s ih =>
    intro v hw
    unfold isWalk at hw
    unfold decodeWalk
    cases hn : a.next v c with
    | none =>
      have hlp : livePos a v c = none := by
        cases hc : nucIdx c with
        | none => exact cn_livePos_foreign hc
        | some j => exact cn_livePos_of_not_live hc (cn_next_none hn hc)
      by_cases h1 : (a.live v).length > 1
      · simp [h1, hlp]
      · simp only [h1, if_false]
        by_cases h1' : (a.live v).length = 1
        · simp only [h1', if_true]
          have hsing := cn_live_eq_singleton h1'
          have hj0 : (a.live v).getD 0 0 ∈ a.live v := by
            rw [hsing]; simp
          have hne : c ≠ nucChar ((a.live v).getD 0 0) := by
            intro he
            have hc : nucIdx c = some ((a.live v).getD 0 0) := by
              rw [he]; exact nucIdx_nucChar _ (live_lt_four a v hj0)
            exact cn_next_none hn hc hj0
          rw [if_neg hne]
        · simp [h1']
    | some t =>
      simp only [hn] at hw
      obtain ⟨j, hc, hj, rfl⟩ := cn_next_some hn
      have hjd : (nucIdx c).getD 0 = j := by simp [hc]
      have hrec := ih _ hw
      simp only [hjd, hrec, cn_livePos_of_live hc hj]
      by_cases h1 : (a.live v).length > 1
      · simp [h1, Except.map]
      · simp only [h1, if_false]
        by_cases h1' : (a.live v).length = 1
        · simp [h1']
        · simp [h1']

/-! ## `set_vt` and the check -/

theorem cn_nucValues_cases (s : List Char) :
    (∃ vs, nucValues s = .ok vs) ∨ nucValues s = .error .valueError := by
  by_cases h : ∀ c ∈ s, (nucIdx c).isSome = true
  · exact Or.inl ⟨_, nucValues_ok_cv s h⟩
  · exact Or.inr (nucValues_error s h)

theorem cn_setVt_error {s : List Char} {n : Nat} {e : PyErr} (h : setVt s n = .error e) :
    e = .valueError := by
  unfold setVt at h
  rcases cn_nucValues_cases s with ⟨vs, hv⟩ | hv
  · rw [hv] at h; cases h
  · rw [hv] at h; cases h; rfl

theorem cn_setVt_length {s c : List Char} {n : Nat} (hn : 1 ≤ n) (h : setVt s n = .ok c) :
    c.length = n := by
  unfold setVt at h
  rcases cn_nucValues_cases s with ⟨vs, hv⟩ | hv
  · rw [hv] at h
    simp only [Except.map] at h
    cases h
    have hlt : ascentSum vs 0 % 4 ^ (n - 1) < 4 ^ (n - 1) := Nat.mod_lt _ (Nat.pow_pos (by omega))
    have := (C16_number_dna _ _ hlt).1
    simp only [List.length_cons, this]
    omega
  · rw [hv] at h; cases h

theorem cn_setVt_ok_of_isDna {s : List Char} (n : Nat) (hs : ∀ c ∈ s, (nucIdx c).isSome = true) :
    ∃ c, setVt s n = .ok c := by
  unfold setVt
  rw [nucValues_ok_cv s hs]
  exact ⟨_, rfl⟩

theorem cn_vtMatches_cases (s : List Char) (chk : Option (List Char)) :
    vtMatches s chk = .ok true ∨ vtMatches s chk = .ok false ∨
      vtMatches s chk = .error .valueError := by
  cases chk with
  | none => exact Or.inl rfl
  | some c =>
    have hvm : vtMatches s (some c) = (setVt s c.length).map (· == c) := rfl
    rw [hvm]
    cases h : setVt s c.length with
    | error e =>
      have := cn_setVt_error h
      subst this
      exact Or.inr (Or.inr rfl)
    | ok c' =>
      show Except.ok (c' == c) = _ ∨ Except.ok (c' == c) = _ ∨ Except.ok (c' == c) = _
      cases (c' == c) with
      | true => exact Or.inl rfl
      | false => exact Or.inr (Or.inl rfl)

/-! ## normal-mode `decode`, characterised -/

theorem cn_decode_normal_ok (a : Acc) (tbl : Option Tbl) (v : Int) (s : List Char) (L : Nat)
    (chk : Option (List Char)) (hw : isWalk a v s = true) (hc : vtMatches s chk = .ok true) :
    decode a tbl v s L false chk = .ok (numberToBitInt (walkValueD a tbl v s) L) := by
  obtain ⟨saved, hs, hcan, hval⟩ := cn_decodeWalk_walk a tbl s v hw
  unfold decode
  simp only [hc, hs, bind, Except.bind]
  simp only [Bool.not_true, Bool.false_eq_true, if_false]
  rw [numberToBitStr_eq _ hcan, hval]

theorem cn_decode_normal_err (a : Acc) (tbl : Option Tbl) (v : Int) (s : List Char) (L : Nat)
    (chk : Option (List Char)) (h : ¬ (isWalk a v s = true ∧ vtMatches s chk = .ok true)) :
    decode a tbl v s L false chk = .error .valueError := by
  unfold decode
  rcases cn_vtMatches_cases s chk with hc | hc | hc
  · have hw : isWalk a v s = false := by
      cases hw : isWalk a v s with
      | true => exact absurd ⟨hw, hc⟩ h
      | false => rfl
    simp only [hc, cn_decodeWalk_not_walk a tbl s v hw, bind, Except.bind]
    simp
  · simp only [hc, bind, Except.bind]
    simp
  · simp only [hc, bind, Except.bind]

theorem cn_numberToBitInt_length (n L : Nat) : (numberToBitInt n L).length = L :=
  fitBits_length _ _

/-! ## what `encodeNat` returns -/

theorem cn_map_ok {α β} {x : R α} {f : α → β} {y : β} (h : x.map f = .ok y) :
    ∃ x', x = .ok x' ∧ f x' = y := by
  cases x with
  | error e => cases h
  | ok x' => exact ⟨x', rfl, by cases h; rfl⟩

theorem cn_tightD_nil (a : Acc) (tbl : Option Tbl) (v : Int) : TightD a tbl v [] := by
  intro i hi; simp at hi

theorem cn_tightD_cons_iff (a : Acc) (tbl : Option Tbl) (v : Int) (c : Char) (s : List Char) :
    TightD a tbl v (c :: s) ↔
      walkValueD a tbl v (c :: s) ≠ 0 ∧ TightD a tbl (a.ent v ((nucIdx c).getD 0)) s := by
  unfold TightD
  constructor
  · intro h
    refine ⟨by simpa [walkEnd] using h 0 (by simp), fun i hi => ?_⟩
    simpa [walkEnd] using h (i + 1) (by simpa using hi)
  · rintro ⟨h0, ht⟩ i hi
    cases i with
    | zero => simpa [walkEnd] using h0
    | succ i => simpa [walkEnd] using ht i (by simpa using hi)

theorem cn_walkValueD_cons_branch {a : Acc} {tbl : Option Tbl} {v : Int} {c : Char} {s : List Char}
    (h : a.outDeg v > 1) : walkValueD a tbl v (c :: s) =
      arcDigit a tbl v ((nucIdx c).getD 0) +
        a.outDeg v * walkValueD a tbl (a.ent v ((nucIdx c).getD 0)) s := by
  simp [walkValueD, h]

theorem cn_walkValueD_cons_forced {a : Acc} {tbl : Option Tbl} {v : Int} {c : Char} {s : List Char}
    (h : ¬ a.outDeg v > 1) : walkValueD a tbl v (c :: s) =
      walkValueD a tbl (a.ent v ((nucIdx c).getD 0)) s := by
  simp [walkValueD, h]

/-- the strand returned by the Nat-level encoder is a walk whose digit sequence has value `q`
and none of whose non-empty suffixes has value 0 (for ANY table). -/
theorem cn_encodeNat_spec (a : Acc) (tbl : Option Tbl) : ∀ (f : Nat) (v : Int) (q : Nat)
    (s : List Char), encodeNat a tbl f v q = .ok s →
      isWalk a v s = true ∧ walkValueD a tbl v s = q ∧ TightD a tbl v s := by
  intro f
  induction f with
  | zero => intro v q s h; cases h
  | succ f ih =>
    intro v q s h
    unfold encodeNat at h
    by_cases h0 : q = 0
    · simp only [h0, if_true] at h
      cases h
      exact ⟨rfl, h0.symm ▸ rfl, cn_tightD_nil a tbl v⟩
    · simp only [h0, if_false] at h
      by_cases h1 : a.outDeg v > 1
      · simp only [h1, if_true] at h
        obtain ⟨s', hs', rfl⟩ := cn_map_ok h
        obtain ⟨w1, w2, w3⟩ := ih _ _ _ hs'
        have hlt : q % a.outDeg v < a.outDeg v := Nat.mod_lt _ (by omega)
        have hj := selectArc_mem a tbl v hlt
        have hc := nucIdx_nucChar _ (live_lt_four a v hj)
        have hjd : (nucIdx (nucChar (selectArc a tbl v (q % a.outDeg v)))).getD 0 =
            selectArc a tbl v (q % a.outDeg v) := by rw [hc]; rfl
        have hval : walkValueD a tbl v (nucChar (selectArc a tbl v (q % a.outDeg v)) :: s') = q := by
          rw [cn_walkValueD_cons_branch h1, hjd, w2, arcDigit_selectArc a tbl v hlt]
          exact Nat.mod_add_div q _
        refine ⟨?_, hval, ?_⟩
        · unfold isWalk
          rw [cn_next_of_live hc hj]
          exact w1
        · rw [cn_tightD_cons_iff, hval, hjd]
          exact ⟨h0, w3⟩
      · simp only [h1, if_false] at h
        by_cases h2 : a.outDeg v = 1
        · simp only [h2, if_true] at h
          obtain ⟨s', hs', rfl⟩ := cn_map_ok h
          obtain ⟨w1, w2, w3⟩ := ih _ _ _ hs'
          have hj : (a.live v).getD 0 0 ∈ a.live v := by
            have := cn_live_eq_singleton (a := a) (v := v) h2
            rw [this]; simp
          have hc := nucIdx_nucChar _ (live_lt_four a v hj)
          have hjd : (nucIdx (nucChar ((a.live v).getD 0 0))).getD 0 = (a.live v).getD 0 0 := by
            rw [hc]; rfl
          have hval : walkValueD a tbl v (nucChar ((a.live v).getD 0 0) :: s') = q := by
            rw [cn_walkValueD_cons_forced h1, hjd, w2]
          refine ⟨?_, hval, ?_⟩
          · unfold isWalk
            rw [cn_next_of_live hc hj]
            exact w1
          · rw [cn_tightD_cons_iff, hval, hjd]
            exact ⟨h0, w3⟩
        · simp [h2] at h

/-! ## the decoder's digit vs the documented rank -/

theorem walkValueD_eq_walkValue (a : Acc) (tbl : Option Tbl) (hd : ∀ v, DistinctKeys a tbl v) :
    ∀ (s : List Char) (v : Int), isWalk a v s = true → walkValueD a tbl v s = walkValue a tbl v s := by
  intro s
  induction s with
  | nil => intro v _; rfl
  | cons c s ih =>
    intro v hw
    unfold isWalk at hw
    cases hn : a.next v c with
    | none => simp [hn] at hw
    | some t =>
      simp only [hn] at hw
      obtain ⟨j, hc, hj, rfl⟩ := cn_next_some hn
      have hjd : (nucIdx c).getD 0 = j := by simp [hc]
      unfold walkValueD walkValue
      simp only [hjd, ih _ hw, arcDigit_eq_arcRank a tbl v hj (hd v)]

theorem cn_isWalk_suffix (a : Acc) : ∀ (s : List Char) (v : Int) (i : Nat), isWalk a v s = true →
    isWalk a (walkEnd a v (s.take i)) (s.drop i) = true := by
  intro s
  induction s with
  | nil => intro v i _; simp [walkEnd, isWalk]
  | cons c s ih =>
    intro v i hw
    cases i with
    | zero => simpa [walkEnd] using hw
    | succ i =>
      unfold isWalk at hw
      cases hn : a.next v c with
      | none => simp [hn] at hw
      | some t =>
        simp only [hn] at hw
        obtain ⟨j, hc, hj, rfl⟩ := cn_next_some hn
        have hjd : (nucIdx c).getD 0 = j := by simp [hc]
        simpa [walkEnd, hjd] using ih _ i hw

/-- under `DistinctKeys` the `arcDigit` form and the `arcRank` form of the scheme coincide. -/
theorem cn_isEncoding_iff (a : Acc) (tbl : Option Tbl) (hd : ∀ v, DistinctKeys a tbl v) (v : Int)
    (val : Nat) (s : List Char) :
    IsEncoding a tbl v val s ↔
      (isWalk a v s = true ∧ walkValueD a tbl v s = val ∧ TightD a tbl v s) := by
  unfold IsEncoding TightD
  constructor
  · rintro ⟨hw, hv, ht⟩
    refine ⟨hw, by rw [walkValueD_eq_walkValue a tbl hd s v hw]; exact hv, fun i hi => ?_⟩
    rw [walkValueD_eq_walkValue a tbl hd _ _ (cn_isWalk_suffix a s v i hw)]
    exact ht i hi
  · rintro ⟨hw, hv, ht⟩
    refine ⟨hw, by rw [← walkValueD_eq_walkValue a tbl hd s v hw]; exact hv, fun i hi => ?_⟩
    rw [← walkValueD_eq_walkValue a tbl hd _ _ (cn_isWalk_suffix a s v i hw)]
    exact ht i hi

/-! ## uniqueness of the tight walk of a given value (any table) -/

theorem cn_mixed_radix_unique {r d d' x x' : Nat} (hd : d < r) (hd' : d' < r)
    (h : d + r * x = d' + r * x') : d = d' ∧ x = x' := by
  have h1 : (d + r * x) % r = d := by rw [Nat.add_mul_mod_self_left]; exact Nat.mod_eq_of_lt hd
  have h2 : (d' + r * x') % r = d' := by rw [Nat.add_mul_mod_self_left]; exact Nat.mod_eq_of_lt hd'
  have h3 : (d + r * x) / r = x := by
    rw [Nat.add_mul_div_left _ _ (by omega), Nat.div_eq_of_lt hd]; omega
  have h4 : (d' + r * x') / r = x' := by
    rw [Nat.add_mul_div_left _ _ (by omega), Nat.div_eq_of_lt hd']; omega
  rw [h] at h1 h3
  exact ⟨h1.symm.trans h2, h3.symm.trans h4⟩

/-- a tight walk is determined by its start vertex and its `walkValueD` — for ANY table. -/
theorem cn_tight_unique (a : Acc) (tbl : Option Tbl) : ∀ (s : List Char) (v : Int) (s' : List Char),
    isWalk a v s = true → TightD a tbl v s → isWalk a v s' = true → TightD a tbl v s' →
    walkValueD a tbl v s = walkValueD a tbl v s' → s = s' := by
  intro s
  induction s with
  | nil =>
    intro v s' _ _ hw' ht' hv
    cases s' with
    | nil => rfl
    | cons c' t' =>
      have := ((cn_tightD_cons_iff a tbl v c' t').1 ht').1
      exact absurd hv.symm this
  | cons c t ih =>
    intro v s' hw ht hw' ht' hv
    obtain ⟨hne, htt⟩ := (cn_tightD_cons_iff a tbl v c t).1 ht
    cases s' with
    | nil => exact absurd hv hne
    | cons c' t' =>
      obtain ⟨_, htt'⟩ := (cn_tightD_cons_iff a tbl v c' t').1 ht'
      unfold isWalk at hw hw'
      cases hn : a.next v c with
      | none => simp [hn] at hw
      | some u =>
      cases hn' : a.next v c' with
      | none => simp [hn'] at hw'
      | some u' =>
        simp only [hn] at hw
        simp only [hn'] at hw'
        obtain ⟨j, hc, hj, rfl⟩ := cn_next_some hn
        obtain ⟨j', hc', hj', rfl⟩ := cn_next_some hn'
        have hjd : (nucIdx c).getD 0 = j := by simp [hc]
        have hjd' : (nucIdx c').getD 0 = j' := by simp [hc']
        rw [hjd] at htt
        rw [hjd'] at htt'
        have key : j = j' ∧ walkValueD a tbl (a.ent v j) t = walkValueD a tbl (a.ent v j') t' := by
          by_cases h1 : a.outDeg v > 1
          · rw [cn_walkValueD_cons_branch h1, cn_walkValueD_cons_branch h1, hjd, hjd'] at hv
            obtain ⟨e1, e2⟩ := cn_mixed_radix_unique (arcDigit_lt a tbl v hj) (arcDigit_lt a tbl v hj') hv
            exact ⟨arcDigit_inj a tbl v hj hj' e1, e2⟩
          · rw [cn_walkValueD_cons_forced h1, cn_walkValueD_cons_forced h1, hjd, hjd'] at hv
            have hpos : 0 < (a.live v).length := List.length_pos_of_mem hj
            have hsing := cn_live_eq_singleton (a := a) (v := v) (by unfold Acc.outDeg at h1; omega)
            rw [hsing] at hj hj'
            exact ⟨(List.mem_singleton.1 hj).trans (List.mem_singleton.1 hj').symm, hv⟩
        obtain ⟨ej, ev⟩ := key
        subst ej
        have ec : c = c' := (nucChar_nucIdx hc).symm.trans (nucChar_nucIdx hc')
        subst ec
        rw [ih _ _ hw htt hw' htt' ev]

/-! ## `encode` in normal mode -/

theorem cn_encode_normal_eq (a : Acc) (tbl : Option Tbl) (v : Int) (bits : List Nat) (vtLen fuel : Nat)
    (hb : IsBits bits) :
    encode a tbl v bits false vtLen fuel =
      (encodeNat a tbl fuel v (bitToNumberInt bits)).bind fun s =>
        if vtLen > 0 then (setVt s vtLen).bind fun c => .ok (s, some c) else .ok (s, none) := by
  obtain ⟨hc, hv⟩ := C16_bits_paths_agree bits hb
  unfold encode
  simp only [Bool.false_eq_true, if_false]
  rw [encodeNormalLoop_eq_encodeNat a tbl fuel v _ hc, hv]
  rfl

theorem cn_encode_normal_ok {a : Acc} {tbl : Option Tbl} {v : Int} {bits : List Nat} {vtLen fuel : Nat}
    {s : List Char} {c : Option (List Char)} (hb : IsBits bits)
    (h : encode a tbl v bits false vtLen fuel = .ok (s, c)) :
    encodeNat a tbl fuel v (bitToNumberInt bits) = .ok s ∧ vtMatches s c = .ok true := by
  rw [cn_encode_normal_eq a tbl v bits vtLen fuel hb] at h
  cases he : encodeNat a tbl fuel v (bitToNumberInt bits) with
  | error e => rw [he] at h; cases h
  | ok s0 =>
    rw [he] at h
    simp only [Except.bind] at h
    by_cases hv : vtLen > 0
    · simp only [hv, if_true] at h
      cases hs : setVt s0 vtLen with
      | error e => rw [hs] at h; cases h
      | ok c0 =>
        rw [hs] at h
        cases h
        refine ⟨rfl, ?_⟩
        have hl := cn_setVt_length (by omega) hs
        unfold vtMatches
        simp only [hl, hs, Except.map, beq_self_eq_true]
    · simp only [hv, if_false] at h
      cases h
      exact ⟨rfl, rfl⟩

/-! ## totality: the fuel `L * |V| + 1` suffices on `GoodFrom` graphs -/

theorem cn_encodeNat_mono (a : Acc) (tbl : Option Tbl) : ∀ (f : Nat) (v : Int) (q : Nat)
    (s : List Char) (d : Nat), encodeNat a tbl f v q = .ok s → encodeNat a tbl (f + d) v q = .ok s := by
  intro f
  induction f with
  | zero => intro v q s d h; cases h
  | succ f ih =>
    intro v q s d h
    have hf : f + 1 + d = (f + d) + 1 := by omega
    rw [hf]
    unfold encodeNat at h ⊢
    by_cases h0 : q = 0
    · simpa [h0] using h
    · simp only [h0, if_false] at h ⊢
      by_cases h1 : a.outDeg v > 1
      · simp only [h1, if_true] at h ⊢
        obtain ⟨s', hs', rfl⟩ := cn_map_ok h
        rw [ih _ _ _ d hs']
        rfl
      · simp only [h1, if_false] at h ⊢
        by_cases h2 : a.outDeg v = 1
        · simp only [h2, if_true] at h ⊢
          obtain ⟨s', hs', rfl⟩ := cn_map_ok h
          rw [ih _ _ _ d hs']
          rfl
        · simp [h2] at h

theorem cn_reach_snoc {a : Acc} {v u : Int} {j : Nat} (h : a.Reach v u) (hj : j ∈ a.live u) :
    a.Reach v (a.ent u j) := by
  induction h with
  | refl v => exact .step v j _ hj (.refl _)
  | step v j' w hj' _ ih => exact .step v j' _ hj' (ih hj)

theorem cn_reach_trans {a : Acc} {v u w : Int} (h : a.Reach v u) (h' : a.Reach u w) :
    a.Reach v w := by
  induction h with
  | refl v => exact h'
  | step v j' w' hj' _ ih => exact .step v j' _ hj' (ih h')

/-- the successor along the first live arc (the only one at a one-arc vertex). -/
def cnForced (a : Acc) (u : Int) : Int := a.ent u ((a.live u).getD 0 0)

/-- following forced arcs from `u`, the first branching vertex is met after exactly `n` steps. -/
def cnBranchIn (a : Acc) : Nat → Int → Prop
  | 0, u => a.outDeg u ≥ 2
  | n + 1, u => a.outDeg u = 1 ∧ cnBranchIn a n (cnForced a u)

theorem cn_head_mem_live {a : Acc} {u : Int} (h : a.outDeg u ≥ 1) : (a.live u).getD 0 0 ∈ a.live u := by
  unfold Acc.outDeg at h
  match hl : a.live u, h with
  | x :: r, _ => simp

theorem cn_branchIn_of_reach {a : Acc} {u w : Int} (h : a.Reach u w) (hw : a.outDeg w ≥ 2) :
    ∃ n, cnBranchIn a n u := by
  induction h with
  | refl v => exact ⟨0, hw⟩
  | step v j w' hj _ ih =>
    by_cases hb : a.outDeg v ≥ 2
    · exact ⟨0, hb⟩
    · have hpos : 0 < (a.live v).length := List.length_pos_of_mem hj
      have h1 : a.outDeg v = 1 := by unfold Acc.outDeg at hb ⊢; omega
      have hsing := cn_live_eq_singleton (a := a) (v := v) h1
      have hjeq : j = (a.live v).getD 0 0 := by
        rw [hsing] at hj; exact List.mem_singleton.1 hj
      obtain ⟨n, hn⟩ := ih hw
      refine ⟨n + 1, h1, ?_⟩
      unfold cnForced
      rw [← hjeq]
      exact hn

theorem cn_branchIn_unique {a : Acc} : ∀ {n m : Nat} {u : Int}, cnBranchIn a n u → cnBranchIn a m u →
    n = m := by
  intro n
  induction n with
  | zero =>
    intro m u h h'
    cases m with
    | zero => rfl
    | succ m => have h1 : a.outDeg u ≥ 2 := h; have h2 := h'.1; omega
  | succ n ih =>
    intro m u h h'
    cases m with
    | zero => have h1 : a.outDeg u ≥ 2 := h'; have h2 := h.1; omega
    | succ m => rw [ih h.2 h'.2]

theorem cn_branchIn_iterate {a : Acc} : ∀ (i : Nat) {n : Nat} {u : Int}, cnBranchIn a n u → i ≤ n →
    cnBranchIn a (n - i) (Nat.iterate (cnForced a) i u) := by
  intro i
  induction i with
  | zero => intro n u h _; exact h
  | succ i ih =>
    intro n u h hi
    cases n with
    | zero => omega
    | succ n =>
      rw [Nat.succ_sub_succ]
      exact ih h.2 (by omega)

theorem cn_reach_iterate {a : Acc} {v : Int} (hdeg : ∀ w, a.Reach v w → a.outDeg w ≥ 1) :
    ∀ (i : Nat) (u : Int), a.Reach v u → a.Reach v (Nat.iterate (cnForced a) i u) := by
  intro i
  induction i with
  | zero => intro u h; exact h
  | succ i ih =>
    intro u h
    exact ih _ (cn_reach_snoc h (cn_head_mem_live (hdeg u h)))

theorem cn_pigeon (N : Nat) (g : Nat → Nat) (hg : ∀ i, i ≤ N → g i < N) :
    ∃ i j, i < j ∧ j ≤ N ∧ g i = g j := by
  obtain ⟨x, y, hxy, he⟩ := Fintype.exists_ne_map_eq_of_card_lt
    (fun i : Fin (N + 1) => (⟨g i.val, hg i.val (by omega)⟩ : Fin N)) (by simp)
  have he' : g x.val = g y.val := by simpa using congrArg Fin.val he
  rcases Nat.lt_or_gt_of_ne (fun h => hxy (Fin.ext h)) with h | h
  · exact ⟨x, y, h, by omega, he'⟩
  · exact ⟨y, x, h, by omega, he'.symm⟩

/-- the forced path from a reachable vertex meets a branching vertex within `|V| - 1` steps. -/
theorem cn_branchIn_lt {a : Acc} {v u : Int}
    (hgood : ∀ w, a.Reach v w → (0 ≤ w ∧ w < (a.size : Int)) ∧ a.outDeg w ≥ 1)
    (hu : a.Reach v u) {n : Nat} (hn : cnBranchIn a n u) : n < a.size := by
  apply Classical.byContradiction
  intro hge
  have hreach : ∀ i, a.Reach v (Nat.iterate (cnForced a) i u) :=
    fun i => cn_reach_iterate (fun w hw => (hgood w hw).2) i u hu
  obtain ⟨i, j, hij, hj, he⟩ := cn_pigeon a.size (fun i => (Nat.iterate (cnForced a) i u).toNat)
    (fun i _ => by have := (hgood _ (hreach i)).1; omega)
  have hi0 := (hgood _ (hreach i)).1
  have hj0 := (hgood _ (hreach j)).1
  have heq : Nat.iterate (cnForced a) i u = Nat.iterate (cnForced a) j u := by
    omega
  have b1 := cn_branchIn_iterate i hn (by omega)
  have b2 := cn_branchIn_iterate j hn (by omega)
  rw [heq] at b1
  have := cn_branchIn_unique b1 b2
  omega

theorem cn_encodeNat_ok_branchIn (a : Acc) (tbl : Option Tbl) (F : Nat) (v : Int) (B : Nat)
    (ih : ∀ u q, a.Reach v u → q < B → ∃ s, encodeNat a tbl F u q = .ok s) :
    ∀ (n : Nat) (u : Int) (q : Nat), cnBranchIn a n u → a.Reach v u → q ≠ 0 → q < 2 * B →
      ∃ s, encodeNat a tbl (n + 1 + F) u q = .ok s := by
  intro n
  induction n with
  | zero =>
    intro u q hb hu h0 hq
    have hb' : a.outDeg u ≥ 2 := hb
    have hf : 0 + 1 + F = F + 1 := by omega
    rw [hf]
    unfold encodeNat
    have h1 : a.outDeg u > 1 := by omega
    simp only [h0, if_false, h1, if_true]
    have hlt : q % a.outDeg u < a.outDeg u := Nat.mod_lt _ (by omega)
    have hj := selectArc_mem a tbl u hlt
    have hq' : q / a.outDeg u < B := by
      apply Nat.div_lt_of_lt_mul
      have : 2 * B ≤ a.outDeg u * B := Nat.mul_le_mul_right B hb'
      omega
    obtain ⟨s, hs⟩ := ih _ _ (cn_reach_snoc hu hj) hq'
    rw [hs]
    exact ⟨_, rfl⟩
  | succ n ihn =>
    intro u q hb hu h0 hq
    obtain ⟨h1, hb'⟩ := hb
    have hf : n + 1 + 1 + F = (n + 1 + F) + 1 := by omega
    rw [hf]
    unfold encodeNat
    simp only [h0, if_false, h1, if_true]
    have hj := cn_head_mem_live (a := a) (u := u) (by omega)
    obtain ⟨s, hs⟩ := ihn _ q hb' (cn_reach_snoc hu hj) h0 hq
    unfold cnForced at hs
    rw [hs]
    exact ⟨_, rfl⟩

/-- on a `GoodFrom` graph the Nat-level encoder returns within `L * |V| + 1` steps for every value
below `2 ^ L`, from every reachable vertex. -/
theorem cn_encodeNat_total (a : Acc) (tbl : Option Tbl) (v : Int) (hg : a.GoodFrom v) :
    ∀ (L : Nat) (u : Int) (q : Nat), a.Reach v u → q < 2 ^ L →
      ∃ s, encodeNat a tbl (L * a.size + 1) u q = .ok s := by
  intro L
  induction L with
  | zero =>
    intro u q _ hq
    have h0 : q = 0 := by simpa using hq
    subst h0
    exact ⟨[], by simp [encodeNat]⟩
  | succ L ih =>
    intro u q hu hq
    by_cases h0 : q = 0
    · subst h0
      exact ⟨[], by simp [encodeNat]⟩
    · obtain ⟨w, hr, hb⟩ := (hg u hu).2.2
      obtain ⟨n, hn⟩ := cn_branchIn_of_reach hr hb
      have hlt : n < a.size :=
        cn_branchIn_lt (fun w hw => ⟨(hg w hw).1, (hg w hw).2.1⟩) hu hn
      obtain ⟨s, hs⟩ := cn_encodeNat_ok_branchIn a tbl (L * a.size + 1) v (2 ^ L) ih n u q hn hu h0
        (by rw [Nat.pow_succ] at hq; omega)
      have hfuel : (L + 1) * a.size + 1 = (n + 1 + (L * a.size + 1)) + (a.size - (n + 1)) := by
        rw [Nat.succ_mul]; omega
      rw [hfuel]
      exact ⟨s, cn_encodeNat_mono a tbl _ _ _ _ _ hs⟩

theorem cn_bitToNumberInt_lt (bits : List Nat) (hb : IsBits bits) :
    bitToNumberInt bits < 2 ^ bits.length := by
  have key : ∀ (l : List Nat) (n0 : Nat), (∀ b ∈ l, b < 2) →
      l.foldl (fun n b => n * 2 + b) n0 + 1 ≤ (n0 + 1) * 2 ^ l.length := by
    intro l
    induction l with
    | nil => intro n0 _; simp
    | cons b t ih =>
      intro n0 hl
      have hb2 : b < 2 := hl b (by simp)
      have h1 := ih (n0 * 2 + b) (fun x hx => hl x (by simp [hx]))
      have h2 : (n0 * 2 + b + 1) * 2 ^ t.length ≤ ((n0 + 1) * 2) * 2 ^ t.length :=
        Nat.mul_le_mul_right _ (by omega)
      rw [List.foldl_cons, List.length_cons, Nat.pow_succ, Nat.mul_comm (2 ^ t.length) 2,
        ← Nat.mul_assoc]
      omega
  have := key bits 0 hb
  unfold bitToNumberInt
  omega

theorem cn_isWalk_isDna (a : Acc) : ∀ (s : List Char) (v : Int), isWalk a v s = true →
    ∀ c ∈ s, (nucIdx c).isSome = true := by
  intro s
  induction s with
  | nil => intro v _ c hc; simp at hc
  | cons c0 s ih =>
    intro v hw c hc
    unfold isWalk at hw
    cases hn : a.next v c0 with
    | none => simp [hn] at hw
    | some t =>
      simp only [hn] at hw
      obtain ⟨j, hj, _, _⟩ := cn_next_some hn
      rcases List.mem_cons.1 hc with rfl | hc
      · simp [hj]
      · exact ih _ hw c hc

/-- normal-mode `encode` returns on `GoodFrom` graphs with the fuel the driver passes. -/
theorem cn_encode_total_normal (a : Acc) (tbl : Option Tbl) (v : Int) (bits : List Nat) (vtLen : Nat)
    (hb : IsBits bits) (hg : a.GoodFrom v) :
    ∃ s c, encode a tbl v bits false vtLen (encodeFuel a bits) = .ok (s, c) := by
  obtain ⟨s, hs⟩ := cn_encodeNat_total a tbl v hg bits.length v _ (.refl v)
    (cn_bitToNumberInt_lt bits hb)
  rw [cn_encode_normal_eq a tbl v bits vtLen _ hb]
  unfold encodeFuel
  rw [hs]
  simp only [Except.bind]
  by_cases hv : vtLen > 0
  · obtain ⟨c, hc⟩ := cn_setVt_ok_of_isDna vtLen
      (cn_isWalk_isDna a s v (cn_encodeNat_spec a tbl _ _ _ _ hs).1)
    simp only [hv, if_true, hc]
    exact ⟨s, some c, rfl⟩
  · simp only [hv, if_false]
    exact ⟨s, none, rfl⟩

end Dsw
