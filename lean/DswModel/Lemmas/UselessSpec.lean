import DswModel.Model.Graphized
import DswModel.Lemmas.Defs
/-! Helper lemmas for the general specification of `remove_useless`. -/
namespace Dsw.UselessSpec

/-- same body as `LMap.SubOf` (defined downstream in `Props/C03b.lean`). -/
def Sub (m' m : LMap) : Prop :=
  (m'.map (·.1)).Sublist (m.map (·.1)) ∧
    ∀ v ls', (v, ls') ∈ m' → ∃ ls, (v, ls) ∈ m ∧ ls'.Sublist ls

/-- same body as `LMap.ClosedT`. -/
def Closed (m : LMap) (t : Nat) : Prop :=
  ∀ v ls, (v, ls) ∈ m → t ≤ ls.length ∧ ∀ w ∈ ls, w ∈ m.map (·.1)

def rem (m : LMap) (t : Nat) : List Nat := (m.filter fun p => p.2.length < t).map (·.1)
def sav (m : LMap) (t : Nat) : List Nat := (m.filter fun p => ¬ p.2.length < t).map (·.1)
def keepB (m : LMap) (t : Nat) (w : Nat) : Bool := !(rem m t).contains w && (sav m t).contains w
def kept (m : LMap) (t : Nat) : LMap := m.filter fun p => !(rem m t).contains p.1

theorem round_eq (m : LMap) (t : Nat) :
    removeUselessRound m t =
      ((kept m t).map fun p => (p.1, p.2.filter (keepB m t)),
       (kept m t).any fun p => p.2.any fun w => !keepB m t w) := rfl

theorem mem_rem {m : LMap} {t w : Nat} :
    w ∈ rem m t ↔ ∃ ls, (w, ls) ∈ m ∧ ls.length < t := by
  simp only [rem, List.mem_map, List.mem_filter, decide_eq_true_eq]
  constructor
  · rintro ⟨⟨v, ls⟩, ⟨hm, hl⟩, rfl⟩; exact ⟨ls, hm, hl⟩
  · rintro ⟨ls, hm, hl⟩; exact ⟨(w, ls), ⟨hm, hl⟩, rfl⟩

theorem mem_sav {m : LMap} {t w : Nat} :
    w ∈ sav m t ↔ ∃ ls, (w, ls) ∈ m ∧ t ≤ ls.length := by
  simp only [sav, List.mem_map, List.mem_filter, decide_eq_true_eq, Nat.not_lt]
  constructor
  · rintro ⟨⟨v, ls⟩, ⟨hm, hl⟩, rfl⟩; exact ⟨ls, hm, hl⟩
  · rintro ⟨ls, hm, hl⟩; exact ⟨(w, ls), ⟨hm, hl⟩, rfl⟩

theorem keepB_iff {m : LMap} {t w : Nat} :
    keepB m t w = true ↔ w ∉ rem m t ∧ w ∈ sav m t := by
  simp [keepB]

theorem mem_kept {m : LMap} {t : Nat} {p : Nat × List Nat} :
    p ∈ kept m t ↔ p ∈ m ∧ p.1 ∉ rem m t := by
  simp [kept]

theorem keys_kept (m : LMap) (t : Nat) :
    (kept m t).map (·.1) = (m.map (·.1)).filter fun v => !(rem m t).contains v := by
  rw [List.filter_map]; rfl

theorem keys_round (m : LMap) (t : Nat) :
    (removeUselessRound m t).1.map (·.1) = (kept m t).map (·.1) := by
  rw [round_eq]; simp [List.map_map, Function.comp_def]

/-- entries with equal keys coincide when the keys are distinct. -/
theorem entry_unique {m : LMap} (hn : (m.map (·.1)).Nodup) {v : Nat} {l₁ l₂ : List Nat}
    (h₁ : (v, l₁) ∈ m) (h₂ : (v, l₂) ∈ m) : l₁ = l₂ := by
  induction m with
  | nil => cases h₁
  | cons p m ih =>
    rw [List.map_cons, List.nodup_cons] at hn
    rcases List.mem_cons.1 h₁ with e₁ | h₁ <;> rcases List.mem_cons.1 h₂ with e₂ | h₂
    · rw [← e₁] at e₂; exact (Prod.mk.inj e₂).2.symm
    · exact absurd (List.mem_map.2 ⟨_, h₂, by rw [← e₁]⟩) hn.1
    · exact absurd (List.mem_map.2 ⟨_, h₁, by rw [← e₂]⟩) hn.1
    · exact ih hn.2 h₁ h₂

theorem Sub.refl (m : LMap) : Sub m m :=
  ⟨List.Sublist.refl _, fun _ ls h => ⟨ls, h, List.Sublist.refl _⟩⟩

theorem Sub.trans {a b c : LMap} (h₁ : Sub a b) (h₂ : Sub b c) : Sub a c := by
  refine ⟨h₁.1.trans h₂.1, fun v ls' h => ?_⟩
  obtain ⟨ls, hb, s₁⟩ := h₁.2 v ls' h
  obtain ⟨ls₂, hc, s₂⟩ := h₂.2 v ls hb
  exact ⟨ls₂, hc, s₁.trans s₂⟩

/-! ### one round -/

theorem round_sub (m : LMap) (t : Nat) : Sub (removeUselessRound m t).1 m := by
  refine ⟨?_, fun v ls' h => ?_⟩
  · rw [keys_round]
    exact List.Sublist.map _ List.filter_sublist
  · rw [round_eq] at h
    obtain ⟨⟨v', ls⟩, hk, e⟩ := List.mem_map.1 h
    obtain ⟨rfl, rfl⟩ := Prod.mk.inj e
    exact ⟨ls, (mem_kept.1 hk).1, List.filter_sublist⟩

theorem round_nodup {m : LMap} (t : Nat) (hn : (m.map (·.1)).Nodup) :
    ((removeUselessRound m t).1.map (·.1)).Nodup :=
  List.Nodup.sublist (round_sub m t).1 hn

theorem arcs_eq_sum (m : LMap) : m.arcs = (m.map fun p => p.2.length).sum := by
  rw [LMap.arcs, List.sum_eq_foldl]

theorem sum_filter_le (q : Nat × List Nat → Bool) (k : Nat → Bool) (m : LMap) :
    (((m.filter q).map fun p => (p.1, p.2.filter k)).map fun p => p.2.length).sum
      ≤ (m.map fun p => p.2.length).sum := by
  induction m with
  | nil => simp
  | cons p m ih =>
    rw [List.filter_cons]
    split
    · simp only [List.map_cons, List.sum_cons]
      exact Nat.add_le_add (List.length_filter_le _ _) ih
    · simp only [List.map_cons, List.sum_cons]
      exact Nat.le_trans ih (Nat.le_add_left _ _)

theorem sum_filter_lt (q : Nat × List Nat → Bool) (k : Nat → Bool) (m : LMap)
    (h : ((m.filter q).any fun p => p.2.any fun w => !k w) = true) :
    (((m.filter q).map fun p => (p.1, p.2.filter k)).map fun p => p.2.length).sum
      < (m.map fun p => p.2.length).sum := by
  induction m with
  | nil => simp at h
  | cons p m ih =>
    rw [List.filter_cons] at h ⊢
    split at h
    next hq =>
      rw [if_pos hq]
      simp only [List.map_cons, List.sum_cons]
      rw [List.any_cons, Bool.or_eq_true] at h
      rcases h with h | h
      · have : (p.2.filter k).length < p.2.length := by
          rw [List.length_filter_lt_length_iff_exists]
          obtain ⟨w, hw, hk⟩ := List.any_eq_true.1 h
          exact ⟨w, hw, by simpa using hk⟩
        exact Nat.add_lt_add_of_lt_of_le this (sum_filter_le q k m)
      · exact Nat.add_lt_add_of_le_of_lt (List.length_filter_le _ _) (ih h)
    next hq =>
      rw [if_neg hq]
      simp only [List.map_cons, List.sum_cons]
      exact Nat.lt_of_lt_of_le (ih h) (Nat.le_add_left _ _)

theorem round_arcs_lt (m : LMap) (t : Nat) (h : (removeUselessRound m t).2 = true) :
    (removeUselessRound m t).1.arcs < m.arcs := by
  rw [arcs_eq_sum, arcs_eq_sum]
  rw [round_eq] at h ⊢
  exact sum_filter_lt _ _ m h

theorem round_closed (m : LMap) (t : Nat) (h : (removeUselessRound m t).2 = false) :
    Closed (removeUselessRound m t).1 t := by
  intro v ls' hv
  rw [keys_round]
  rw [round_eq] at h hv
  obtain ⟨⟨v', ls⟩, hk, e⟩ := List.mem_map.1 hv
  obtain ⟨rfl, rfl⟩ := Prod.mk.inj e
  have hall : ∀ w ∈ ls, keepB m t w = true := by
    intro w hw
    cases hkw : keepB m t w with
    | true => rfl
    | false =>
      have : ((kept m t).any fun p => p.2.any fun w => !keepB m t w) = true :=
        List.any_eq_true.2 ⟨_, hk, List.any_eq_true.2 ⟨w, hw, by simp [hkw]⟩⟩
      exact absurd (h.symm.trans this) Bool.false_ne_true
  have hf : ls.filter (keepB m t) = ls := List.filter_eq_self.2 hall
  obtain ⟨hm, hr⟩ := mem_kept.1 hk
  simp only at hr ⊢
  rw [hf]
  refine ⟨?_, fun w hw => ?_⟩
  · rcases Nat.lt_or_ge ls.length t with hl | hl
    · exact absurd (mem_rem.2 ⟨ls, hm, hl⟩) hr
    · exact hl
  · obtain ⟨hnr, hs⟩ := keepB_iff.1 (hall w hw)
    obtain ⟨lw, hmw, _⟩ := mem_sav.1 hs
    exact List.mem_map.2 ⟨(w, lw), mem_kept.2 ⟨hmw, hnr⟩, rfl⟩

/-! ### closed sub-maps survive a round -/

theorem closed_key_not_rem {m c : LMap} {t : Nat} (hn : (m.map (·.1)).Nodup)
    (hs : Sub c m) (hc : Closed c t) {v : Nat} (hv : v ∈ c.map (·.1)) :
    v ∉ rem m t ∧ v ∈ sav m t := by
  obtain ⟨⟨v', ls'⟩, hmem, rfl⟩ := List.mem_map.1 hv
  obtain ⟨ls, hm, hsub⟩ := hs.2 _ _ hmem
  have hlen : t ≤ ls.length := Nat.le_trans (hc _ _ hmem).1 hsub.length_le
  refine ⟨fun hr => ?_, mem_sav.2 ⟨ls, hm, hlen⟩⟩
  obtain ⟨l₂, hm₂, hlt⟩ := mem_rem.1 hr
  rw [entry_unique hn hm₂ hm] at hlt
  exact absurd hlen (Nat.not_le.2 hlt)

theorem closed_sub_round {m c : LMap} {t : Nat} (hn : (m.map (·.1)).Nodup)
    (hs : Sub c m) (hc : Closed c t) : Sub c (removeUselessRound m t).1 := by
  refine ⟨?_, fun v ls' h => ?_⟩
  · rw [keys_round, keys_kept]
    have := List.Sublist.filter (fun v => !(rem m t).contains v) hs.1
    rwa [List.filter_eq_self.2] at this
    intro v hv
    simpa using (closed_key_not_rem hn hs hc hv).1
  · obtain ⟨ls, hm, hsub⟩ := hs.2 v ls' h
    have hv : v ∈ c.map (·.1) := List.mem_map.2 ⟨_, h, rfl⟩
    refine ⟨ls.filter (keepB m t), ?_, ?_⟩
    · rw [round_eq]
      exact List.mem_map.2 ⟨(v, ls), mem_kept.2 ⟨hm, (closed_key_not_rem hn hs hc hv).1⟩, rfl⟩
    · have := List.Sublist.filter (keepB m t) hsub
      rwa [List.filter_eq_self.2] at this
      intro w hw
      exact keepB_iff.2 (closed_key_not_rem hn hs hc ((hc _ _ h).2 w hw))

/-! ### the loop -/

theorem loop_spec (t : Nat) : ∀ (fuel : Nat) (m : LMap), (m.map (·.1)).Nodup → m.arcs < fuel →
    ∃ m', removeUselessLoop t fuel m = .ok m' ∧ Sub m' m ∧ Closed m' t ∧
      ∀ c : LMap, Sub c m → Closed c t → Sub c m'
  | 0, _, _, h => absurd h (Nat.not_lt_zero _)
  | f + 1, m, hn, h => by
    rw [removeUselessLoop]
    cases hr : (removeUselessRound m t).2 with
    | true =>
      simp only [if_true]
      have hlt := round_arcs_lt m t hr
      obtain ⟨m', e, hs, hc, hmax⟩ :=
        loop_spec t f (removeUselessRound m t).1 (round_nodup t hn) (by omega)
      exact ⟨m', e, hs.trans (round_sub m t), hc,
        fun c hcs hcc => hmax c (closed_sub_round hn hcs hcc) hcc⟩
    | false =>
      simp only [Bool.false_eq_true, if_false]
      exact ⟨_, rfl, round_sub m t, round_closed m t hr,
        fun c hcs hcc => closed_sub_round hn hcs hcc⟩

theorem removeUseless_spec (m : LMap) (t : Nat) (hn : (m.map (·.1)).Nodup) :
    ∃ m', removeUseless m t = .ok m' ∧ Sub m' m ∧ Closed m' t ∧
      ∀ c : LMap, Sub c m → Closed c t → Sub c m' :=
  loop_spec t (m.arcs + 1) m hn (Nat.lt_succ_self _)

end Dsw.UselessSpec
