import DswModel.Model.Operation
import DswModel.Lemmas.Decimal
/-! Helper lemmas for bit / number / DNA conversions (C16). -/
namespace Dsw

/-- drop leading zeros (possibly down to the empty list): the shortest rendering. -/
def dropZ : List Nat → List Nat
  | [] => []
  | 0 :: r => dropZ r
  | (d + 1) :: r => (d + 1) :: r

/-- value of a most-significant-first digit list in base `base`. -/
def valB (base : Nat) (m : List Nat) (n0 : Nat) : Nat := m.foldl (fun n d => n * base + d) n0

theorem dropZ_cons_pos (d : Nat) (r : List Nat) (hd : d ≠ 0) : dropZ (d :: r) = d :: r := by
  cases d with
  | zero => exact absurd rfl hd
  | succ d => rfl

theorem dropZ_length_le (m : List Nat) : (dropZ m).length ≤ m.length := by
  induction m with
  | nil => simp [dropZ]
  | cons d m ih =>
    cases d with
    | zero => simp only [dropZ, List.length_cons]; omega
    | succ d => simp [dropZ]

theorem dropZ_pad (m : List Nat) :
    List.replicate (m.length - (dropZ m).length) 0 ++ dropZ m = m := by
  induction m with
  | nil => simp [dropZ]
  | cons d m ih =>
    cases d with
    | zero =>
      have := dropZ_length_le m
      simp only [dropZ, List.length_cons]
      rw [show m.length + 1 - (dropZ m).length = (m.length - (dropZ m).length) + 1 by omega,
        List.replicate_succ, List.cons_append, ih]
    | succ d => simp [dropZ]

/-! ## digitsNat -/

theorem digitsNat_zero_cv (base : Nat) (acc : List Nat) : digitsNat base 0 acc = acc := by
  rw [digitsNat]; simp

theorem digitsNat_pos (base n : Nat) (acc : List Nat) (hn : n ≠ 0) (hb : 2 ≤ base) :
    digitsNat base n acc = digitsNat base (n / base) (n % base :: acc) := by
  rw [digitsNat]
  have : ¬ (n = 0 ∨ base < 2) := by omega
  simp [this]

theorem digitsNat_acc (base n : Nat) (acc : List Nat) :
    digitsNat base n acc = digitsNat base n [] ++ acc := by
  induction n using Nat.strongRecOn generalizing acc with
  | _ n ih =>
    by_cases h : n = 0 ∨ base < 2
    · rw [digitsNat.eq_1 base n acc, digitsNat.eq_1 base n []]; simp [h]
    · have hn : n ≠ 0 := by omega
      have hb : 2 ≤ base := by omega
      have hlt : n / base < n := Nat.div_lt_self (by omega) hb
      rw [digitsNat_pos base n acc hn hb, digitsNat_pos base n [] hn hb,
        ih _ hlt (n % base :: acc), ih _ hlt [n % base]]
      simp

theorem digitsNat_step (base n d : Nat) (hb : 2 ≤ base) (hd : d < base) (h : n ≠ 0 ∨ d ≠ 0) :
    digitsNat base (n * base + d) [] = digitsNat base n [] ++ [d] := by
  have hne : n * base + d ≠ 0 := by
    rcases h with h | h
    · have : 0 < n * base := Nat.mul_pos (by omega) (by omega)
      omega
    · omega
  have h1 : (n * base + d) / base = n := by
    rw [Nat.add_comm, Nat.add_mul_div_right _ _ (by omega), Nat.div_eq_of_lt hd]; omega
  have h2 : (n * base + d) % base = d := by
    rw [Nat.add_comm, Nat.add_mul_mod_self_right, Nat.mod_eq_of_lt hd]
  rw [digitsNat_pos _ _ _ hne hb, h1, h2, digitsNat_acc]

theorem digitsNat_valB (base : Nat) (hb : 2 ≤ base) (m : List Nat) (hm : ∀ d ∈ m, d < base)
    (n0 : Nat) :
    digitsNat base (valB base m n0) [] =
      if n0 = 0 then dropZ m else digitsNat base n0 [] ++ m := by
  induction m generalizing n0 with
  | nil =>
    simp only [valB, List.foldl_nil]
    split
    · rename_i h; subst h; rw [digitsNat_zero_cv]; rfl
    · simp
  | cons d m ih =>
    have hd := hm d (by simp)
    have ih' := ih (fun q hq => hm q (by simp [hq])) (n0 * base + d)
    simp only [valB, List.foldl_cons] at ih' ⊢
    rw [ih']
    by_cases h0 : n0 = 0
    · subst h0
      by_cases hd0 : d = 0
      · subst hd0; simp [dropZ]
      · have : 0 * base + d ≠ 0 := by omega
        rw [if_neg this, digitsNat_step base 0 d hb hd (Or.inr hd0), digitsNat_zero_cv,
          dropZ_cons_pos d m hd0]
        simp
    · have : n0 * base + d ≠ 0 := by
        have : 0 < n0 * base := Nat.mul_pos (by omega) (by omega)
        omega
      rw [if_neg this, if_neg h0, digitsNat_step base n0 d hb hd (Or.inl h0)]
      simp

theorem valB_digitsNat (base : Nat) (hb : 2 ≤ base) (n : Nat) (acc : List Nat) :
    valB base (digitsNat base n acc) 0 = valB base acc n := by
  induction n using Nat.strongRecOn generalizing acc with
  | _ n ih =>
    by_cases hn : n = 0
    · subst hn; rw [digitsNat_zero_cv]
    · have hlt : n / base < n := Nat.div_lt_self (by omega) hb
      rw [digitsNat_pos base n acc hn hb, ih _ hlt]
      simp only [valB, List.foldl_cons]
      rw [Nat.mul_comm, Nat.div_add_mod]

theorem digitsNat_lt (base : Nat) (hb : 2 ≤ base) (n : Nat) (acc : List Nat)
    (hacc : ∀ d ∈ acc, d < base) : ∀ d ∈ digitsNat base n acc, d < base := by
  induction n using Nat.strongRecOn generalizing acc with
  | _ n ih =>
    by_cases hn : n = 0
    · subst hn; rw [digitsNat_zero_cv]; exact hacc
    · have hlt : n / base < n := Nat.div_lt_self (by omega) hb
      rw [digitsNat_pos base n acc hn hb]
      apply ih _ hlt
      intro d hd
      simp at hd
      rcases hd with rfl | hd
      · exact Nat.mod_lt _ (by omega)
      · exact hacc d hd

theorem digitsNat_length_le_cv (base : Nat) (hb : 2 ≤ base) (L n : Nat) (h : n < base ^ L) :
    (digitsNat base n []).length ≤ L := by
  induction L generalizing n with
  | zero =>
    have : n = 0 := by simpa using h
    subst this
    rw [digitsNat_zero_cv]; simp
  | succ L ih =>
    by_cases hn : n = 0
    · subst hn; rw [digitsNat_zero_cv]; simp
    · rw [digitsNat_pos base n [] hn hb, digitsNat_acc]
      have : n / base < base ^ L := by
        apply Nat.div_lt_of_lt_mul
        rw [Nat.pow_succ, Nat.mul_comm] at h
        exact h
      have := ih _ this
      simp
      omega

theorem valB_replicate_zero (base z : Nat) (ds : List Nat) :
    valB base (List.replicate z 0 ++ ds) 0 = valB base ds 0 := by
  induction z with
  | zero => simp
  | succ z ih =>
    rw [List.replicate_succ, List.cons_append]
    simpa [valB] using ih

/-! ## the decimal-string loop -/

theorem digitsStrLoop_spec (base : Nat) (hb : 2 ≤ base) (hb' : base < 10) (f : Nat) (s : Dec)
    (acc : List Nat) (hs : s.Canonical) (h : s.toNat < 2 ^ f) :
    digitsStrLoop base (f + 1) s acc = .ok (digitsNat base s.toNat acc) := by
  induction f generalizing s acc with
  | zero =>
    have h0 : s.toNat = 0 := by simpa using h
    have := hs.eq_zero_of_toNat h0
    subst this
    rw [h0, digitsNat_zero_cv]
    simp [digitsStrLoop]
  | succ f ih =>
    rw [digitsStrLoop]
    by_cases hz : s = [0]
    · subst hz
      rw [if_pos rfl]
      have : Dec.toNat [0] = 0 := rfl
      rw [this, digitsNat_zero_cv]
    · rw [if_neg hz]
      simp only
      have hne : s.toNat ≠ 0 := fun h0 => hz (hs.eq_zero_of_toNat h0)
      obtain ⟨c1, c2, _, c4⟩ := calculusDivision_spec s base hs hb' (by omega)
      have hlt : (calculusDivision s base).1.toNat < 2 ^ f := by
        rw [c2]
        apply Nat.div_lt_of_lt_mul
        rw [Nat.pow_succ] at h
        have : 2 ^ f * 2 ≤ base * 2 ^ f := by
          rw [Nat.mul_comm]; exact Nat.mul_le_mul_right _ hb
        omega
      rw [ih _ _ c1 hlt, c2, c4, digitsNat_pos base s.toNat acc hne hb]

theorem toNat_lt_two_pow (s : Dec) (hs : ∀ d ∈ s, d < 10) : s.toNat < 2 ^ (4 * s.length) := by
  have h1 := Dec.toNat_lt s hs
  have h2 : 10 ^ s.length ≤ 16 ^ s.length := Nat.pow_le_pow_left (by omega) _
  have h3 : (2 : Nat) ^ (4 * s.length) = 16 ^ s.length := by
    rw [Nat.pow_mul]
  omega

theorem digitsStrLoop_fuel (base : Nat) (hb : 2 ≤ base) (hb' : base < 10) (s : Dec)
    (hs : s.Canonical) (acc : List Nat) :
    digitsStrLoop base (digitsFuel s) s acc = .ok (digitsNat base s.toNat acc) :=
  digitsStrLoop_spec base hb hb' (4 * s.length) s acc hs (toNat_lt_two_pow s hs.digits)

/-! ## number → string path (`calculus_multiplication` then `calculus_addition`) -/

theorem strFold_spec (k : Nat) (hk : k < 10) (vs : List Nat) (hv : ∀ v ∈ vs, v < 10) (s0 : Dec)
    (hs0 : s0.Canonical) :
    (vs.foldl (fun n v => calculusAddition (calculusMultiplication n k) v) s0).Canonical ∧
    (vs.foldl (fun n v => calculusAddition (calculusMultiplication n k) v) s0).toNat =
      valB k vs s0.toNat := by
  induction vs generalizing s0 with
  | nil => exact ⟨hs0, rfl⟩
  | cons v vs ih =>
    have hv0 := hv v (by simp)
    obtain ⟨m1, m2⟩ := calculusMultiplication_spec s0 k hs0 hk
    obtain ⟨a1, a2⟩ := calculusAddition_spec _ v m1 hv0
    have := ih (fun q hq => hv q (by simp [hq])) _ a1
    simp only [List.foldl_cons, valB] at this ⊢
    rw [a2, m2] at this
    exact this

theorem bitToNumberInt_eq (m : List Nat) : bitToNumberInt m = valB 2 m 0 := rfl

theorem bitToNumberStr_spec (m : List Nat) (hm : ∀ b ∈ m, b < 2) :
    (bitToNumberStr m).Canonical ∧ (bitToNumberStr m).toNat = bitToNumberInt m := by
  have := strFold_spec 2 (by omega) m (fun v hv => by have := hm v hv; omega) [0]
    Dec.canonical_zero
  exact this

/-! ## fitBits -/

theorem fitBits_length (one : List Nat) (L : Nat) : (fitBits one L).length = L := by
  unfold fitBits
  split
  · assumption
  · split
    · simp; omega
    · simp; omega

theorem fitBits_of_le (one : List Nat) (L : Nat) (h : one.length ≤ L) :
    fitBits one L = List.replicate (L - one.length) 0 ++ one := by
  unfold fitBits
  split
  · rename_i h1; simp [h1]
  · rw [if_pos (by omega)]

theorem fitBits_dropZ (m : List Nat) : fitBits (dropZ m) m.length = m := by
  rw [fitBits_of_le _ _ (dropZ_length_le m), dropZ_pad]

theorem numberToBitInt_bitToNumberInt (m : List Nat) (hm : ∀ b ∈ m, b < 2) :
    numberToBitInt (bitToNumberInt m) m.length = m := by
  unfold numberToBitInt
  rw [bitToNumberInt_eq, digitsNat_valB 2 (by omega) m hm 0, if_pos rfl, fitBits_dropZ]

theorem numberToBitStr_eq (s : Dec) (hs : s.Canonical) (L : Nat) :
    numberToBitStr s L = .ok (numberToBitInt s.toNat L) := by
  unfold numberToBitStr numberToBitInt
  rw [digitsStrLoop_fuel 2 (by omega) (by omega) s hs []]
  rfl

theorem numberToBitInt_spec (n L : Nat) (h : n < 2 ^ L) :
    (numberToBitInt n L).length = L ∧ (∀ b ∈ numberToBitInt n L, b < 2) ∧
    bitToNumberInt (numberToBitInt n L) = n ∧
    (∃ z, numberToBitInt n L = List.replicate z 0 ++ digitsNat 2 n []) := by
  have hl := digitsNat_length_le_cv 2 (by omega) L n h
  have he : numberToBitInt n L = List.replicate (L - (digitsNat 2 n []).length) 0 ++
      digitsNat 2 n [] := fitBits_of_le _ _ hl
  refine ⟨fitBits_length _ _, ?_, ?_, ⟨_, he⟩⟩
  · rw [he]
    intro b hb
    simp only [List.mem_append, List.mem_replicate] at hb
    rcases hb with ⟨_, rfl⟩ | hb
    · omega
    · exact digitsNat_lt 2 (by omega) n [] (by simp) b hb
  · rw [he, bitToNumberInt_eq, valB_replicate_zero, valB_digitsNat 2 (by omega)]
    rfl

/-! ## nucleotides -/

theorem nucIdx_lt_cv (c : Char) (j : Nat) (h : nucIdx c = some j) : j < 4 := by
  unfold nucIdx at h
  split at h
  · simp at h; omega
  split at h
  · simp at h; omega
  split at h
  · simp at h; omega
  split at h
  · simp at h; omega
  · simp at h

theorem nucChar_nucIdx_cv (c : Char) (j : Nat) (h : nucIdx c = some j) : nucChar j = c := by
  unfold nucIdx at h
  split at h
  · simp at h; subst h; simp [nucChar, *]
  split at h
  · simp at h; subst h; simp [nucChar, *]
  split at h
  · simp at h; subst h; simp [nucChar, *]
  split at h
  · simp at h; subst h; simp [nucChar, *]
  · simp at h

theorem nucIdx_nucChar_cv (j : Nat) (h : j < 4) : nucIdx (nucChar j) = some j := by
  have : j = 0 ∨ j = 1 ∨ j = 2 ∨ j = 3 := by omega
  rcases this with rfl | rfl | rfl | rfl <;> decide

theorem nucIdx_nucChar_isSome_cv (j : Nat) : (nucIdx (nucChar j)).isSome = true := by
  unfold nucChar
  split
  · decide
  split
  · decide
  split
  · decide
  · decide

/-- the digit values of a strand. -/
def nucVals (d : List Char) : List Nat := d.map fun c => (nucIdx c).getD 0

theorem nucVals_lt (d : List Char) : ∀ v ∈ nucVals d, v < 4 := by
  intro v hv
  simp only [nucVals, List.mem_map] at hv
  obtain ⟨c, _, rfl⟩ := hv
  cases h : nucIdx c with
  | none => simp
  | some j => simpa using nucIdx_lt_cv c j h

theorem nucVals_length (d : List Char) : (nucVals d).length = d.length := by simp [nucVals]

theorem nucValues_ok_cv (d : List Char) (hd : ∀ c ∈ d, (nucIdx c).isSome = true) :
    nucValues d = .ok (nucVals d) := by
  induction d with
  | nil => rfl
  | cons c d ih =>
    have hc := hd c (by simp)
    have := ih (fun q hq => hd q (by simp [hq]))
    cases h : nucIdx c with
    | none => simp [h] at hc
    | some j => simp [nucValues, h, this, nucVals, Except.map]

theorem nucValues_error (d : List Char) (hd : ¬ ∀ c ∈ d, (nucIdx c).isSome = true) :
    nucValues d = .error .valueError := by
  induction d with
  | nil => exact absurd (by simp) hd
  | cons c d ih =>
    cases h : nucIdx c with
    | none => simp [nucValues, h]
    | some j =>
      have : ¬ ∀ c ∈ d, (nucIdx c).isSome = true := by
        intro hall
        apply hd
        intro x hx
        simp at hx
        rcases hx with rfl | hx
        · simp [h]
        · exact hall x hx
      simp [nucValues, h, ih this, Except.map]

theorem map_nucChar_nucVals (d : List Char) (hd : ∀ c ∈ d, (nucIdx c).isSome = true) :
    (nucVals d).map nucChar = d := by
  induction d with
  | nil => rfl
  | cons c d ih =>
    have hc := hd c (by simp)
    have := ih (fun q hq => hd q (by simp [hq]))
    cases h : nucIdx c with
    | none => simp [h] at hc
    | some j =>
      simp only [nucVals, List.map_cons, h, Option.getD_some] at this ⊢
      rw [nucChar_nucIdx_cv c j h]
      simp only [List.map_map] at this ⊢
      rw [this]

theorem nucVals_map_nucChar (ds : List Nat) (h : ∀ v ∈ ds, v < 4) :
    nucVals (ds.map nucChar) = ds := by
  induction ds with
  | nil => rfl
  | cons v ds ih =>
    have := ih (fun q hq => h q (by simp [hq]))
    simp only [nucVals, List.map_cons, nucIdx_nucChar_cv v (h v (by simp)), Option.getD_some] at this ⊢
    rw [this]

theorem nucVals_replicate_A (z : Nat) : nucVals (List.replicate z 'A') = List.replicate z 0 := by
  simp only [nucVals, List.map_replicate]
  rfl

theorem nucVals_append (a b : List Char) : nucVals (a ++ b) = nucVals a ++ nucVals b := by
  simp [nucVals]

/-! ## padDna -/

theorem padDna_length (one : List Nat) (L : Nat) (h : one.length ≤ L) :
    (padDna one L).length = L := by
  simp [padDna]; omega

theorem padDna_isDna (one : List Nat) (L : Nat) :
    ∀ c ∈ padDna one L, (nucIdx c).isSome = true := by
  intro c hc
  simp only [padDna, List.mem_append, List.mem_replicate, List.mem_map] at hc
  rcases hc with ⟨_, rfl⟩ | ⟨j, _, rfl⟩
  · decide
  · exact nucIdx_nucChar_isSome_cv j

theorem padDna_dropZ (vs : List Nat) : padDna (dropZ vs) vs.length = vs.map nucChar := by
  have h : List.replicate (vs.length - (dropZ vs).length) 'A' =
      (List.replicate (vs.length - (dropZ vs).length) 0).map nucChar := by
    rw [List.map_replicate]; rfl
  unfold padDna
  rw [h, ← List.map_append, dropZ_pad]

theorem nucVals_padDna (one : List Nat) (L : Nat) (h : ∀ v ∈ one, v < 4) :
    nucVals (padDna one L) = List.replicate (L - one.length) 0 ++ one := by
  unfold padDna
  rw [nucVals_append, nucVals_replicate_A, nucVals_map_nucChar one h]

theorem dnaToNumberStr_ok (d : List Char) (hd : ∀ c ∈ d, (nucIdx c).isSome = true) :
    dnaToNumberStr d =
      .ok ((nucVals d).foldl (fun n v => calculusAddition (calculusMultiplication n 4) v) [0]) := by
  unfold dnaToNumberStr
  rw [nucValues_ok_cv d hd]
  rfl

theorem dnaToNumberInt_ok (d : List Char) (hd : ∀ c ∈ d, (nucIdx c).isSome = true) :
    dnaToNumberInt d = .ok (valB 4 (nucVals d) 0) := by
  unfold dnaToNumberInt
  rw [nucValues_ok_cv d hd]
  rfl

theorem dnaStr_spec (d : List Char) :
    ((nucVals d).foldl (fun n v => calculusAddition (calculusMultiplication n 4) v) [0]).Canonical ∧
    ((nucVals d).foldl (fun n v => calculusAddition (calculusMultiplication n 4) v) [0]).toNat =
      valB 4 (nucVals d) 0 :=
  strFold_spec 4 (by omega) (nucVals d) (fun v hv => by have := nucVals_lt d v hv; omega) [0]
    Dec.canonical_zero

theorem numberToDnaStr_eq (s : Dec) (hs : s.Canonical) (L : Nat) :
    numberToDnaStr s L = .ok (numberToDnaInt s.toNat L) := by
  unfold numberToDnaStr numberToDnaInt
  rw [digitsStrLoop_fuel 4 (by omega) (by omega) s hs []]
  rfl

theorem numberToDnaInt_valB (d : List Char) (hd : ∀ c ∈ d, (nucIdx c).isSome = true) :
    numberToDnaInt (valB 4 (nucVals d) 0) d.length = d := by
  unfold numberToDnaInt
  rw [digitsNat_valB 4 (by omega) (nucVals d) (nucVals_lt d) 0, if_pos rfl, ← nucVals_length d,
    padDna_dropZ, map_nucChar_nucVals d hd]

theorem numberToDnaInt_spec (n L : Nat) (h : n < 4 ^ L) :
    (numberToDnaInt n L).length = L ∧ (∀ c ∈ numberToDnaInt n L, (nucIdx c).isSome = true) ∧
    dnaToNumberInt (numberToDnaInt n L) = .ok n ∧
    (∃ z, numberToDnaInt n L = List.replicate z 'A' ++ (digitsNat 4 n []).map nucChar) := by
  have hl := digitsNat_length_le_cv 4 (by omega) L n h
  have hlt := digitsNat_lt 4 (by omega) n [] (by simp)
  refine ⟨padDna_length _ _ hl, padDna_isDna _ _, ?_, ⟨_, rfl⟩⟩
  unfold numberToDnaInt
  rw [dnaToNumberInt_ok _ (padDna_isDna _ _),
    nucVals_padDna _ _ hlt, valB_replicate_zero, valB_digitsNat 4 (by omega)]
  rfl

end Dsw
