import DswModel.Model.Operation
import DswModel.Lemmas.Decimal
/-! Helper lemmas for bit / number / DNA conversions (C16). -/
namespace Dsw

end Dsw
