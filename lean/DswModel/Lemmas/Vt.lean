import DswModel.Model.Spiderweb
import DswModel.Lemmas.Defs
/-! Helper lemmas for `set_vt` (C07). -/
namespace Dsw

/-! ### nucleotide symbols -/

theorem nucIdx_nucChar_vt (j : Nat) (hj : j < 4) : nucIdx (nucChar j) = some j := by
  have : j = 0 ∨ j = 1 ∨ j = 2 ∨ j = 3 := by omega
  rcases this with h | h | h | h <;> subst h <;> decide

theorem nucIdx_nucChar_isSome_vt (j : Nat) : (nucIdx (nucChar j)).isSome = true := by
  unfold nucChar
  split
  · decide
  · split
    · decide
    · split <;> decide

theorem nucChar_inj {i j : Nat} (hi : i < 4) (hj : j < 4) (h : nucChar i = nucChar j) : i = j := by
  have h1 := nucIdx_nucChar_vt i hi
  have h2 := nucIdx_nucChar_vt j hj
  rw [h] at h1
  rw [h1] at h2
  exact Option.some.inj h2

theorem nucChar_of_nucIdx {c : Char} {j : Nat} (h : nucIdx c = some j) : c = nucChar j := by
  unfold nucIdx at h
  split at h
  · cases h; subst_vars; rfl
  · split at h
    · cases h; subst_vars; rfl
    · split at h
      · cases h; subst_vars; rfl
      · split at h
        · cases h; subst_vars; rfl
        · cases h

theorem nucIdx_lt_vt {c : Char} {j : Nat} (h : nucIdx c = some j) : j < 4 := by
  unfold nucIdx at h
  split at h
  · cases h; omega
  · split at h
    · cases h; omega
    · split at h
      · cases h; omega
      · split at h
        · cases h; omega
        · cases h

theorem nucIdx_getD_lt_vt (c : Char) : (nucIdx c).getD 0 < 4 := by
  cases h : nucIdx c with
  | none => simp
  | some j => simpa using nucIdx_lt_vt h

/-- two ACGT symbols with the same value are equal. -/
theorem nucIdx_getD_inj {c d : Char} (hc : (nucIdx c).isSome = true) (hd : (nucIdx d).isSome = true)
    (h : (nucIdx c).getD 0 = (nucIdx d).getD 0) : c = d := by
  cases h1 : nucIdx c with
  | none => simp [h1] at hc
  | some i =>
    cases h2 : nucIdx d with
    | none => simp [h2] at hd
    | some j =>
      simp [h1, h2] at h
      subst h
      rw [nucChar_of_nucIdx h1, nucChar_of_nucIdx h2]

/-! ### `IsAcgt` -/

theorem isAcgt_nil : IsAcgt [] := by intro c hc; cases hc

theorem isAcgt_cons {c : Char} {s : List Char} :
    IsAcgt (c :: s) ↔ (nucIdx c).isSome = true ∧ IsAcgt s := by
  simp [IsAcgt]

theorem isAcgt_append {s t : List Char} : IsAcgt (s ++ t) ↔ IsAcgt s ∧ IsAcgt t := by
  simp only [IsAcgt, List.mem_append]
  constructor
  · intro h; exact ⟨fun c hc => h c (Or.inl hc), fun c hc => h c (Or.inr hc)⟩
  · rintro ⟨h1, h2⟩ c (hc | hc)
    · exact h1 c hc
    · exact h2 c hc

theorem isAcgt_take {s : List Char} (h : IsAcgt s) (p : Nat) : IsAcgt (s.take p) :=
  fun c hc => h c (List.mem_of_mem_take hc)

theorem isAcgt_drop {s : List Char} (h : IsAcgt s) (p : Nat) : IsAcgt (s.drop p) :=
  fun c hc => h c (List.mem_of_mem_drop hc)

theorem isAcgt_set {s : List Char} (h : IsAcgt s) (p : Nat) {x : Char}
    (hx : (nucIdx x).isSome = true) : IsAcgt (s.set p x) := by
  intro c hc
  rcases List.mem_or_eq_of_mem_set hc with h' | h'
  · exact h c h'
  · subst h'; exact hx

theorem isAcgt_eraseIdx {s : List Char} (h : IsAcgt s) (p : Nat) : IsAcgt (s.eraseIdx p) :=
  fun c hc => h c (List.mem_of_mem_eraseIdx hc)

theorem isAcgt_insert {s : List Char} (h : IsAcgt s) (p : Nat) {x : Char}
    (hx : (nucIdx x).isSome = true) : IsAcgt (s.take p ++ [x] ++ s.drop p) := by
  rw [isAcgt_append, isAcgt_append]
  refine ⟨⟨isAcgt_take h p, ?_⟩, isAcgt_drop h p⟩
  exact isAcgt_cons.2 ⟨hx, isAcgt_nil⟩

/-! ### `nucValues` -/

theorem nucValues_ok_vt {s : List Char} (hs : IsAcgt s) :
    nucValues s = .ok (s.map fun c => (nucIdx c).getD 0) := by
  induction s with
  | nil => rfl
  | cons c s ih =>
    rw [isAcgt_cons] at hs
    cases h : nucIdx c with
    | none => simp [h] at hs
    | some j => simp [nucValues, h, ih hs.2, Except.map]

theorem nucValues_err {s : List Char} (hs : ¬ IsAcgt s) : nucValues s = .error .valueError := by
  induction s with
  | nil => exact absurd isAcgt_nil hs
  | cons c s ih =>
    cases h : nucIdx c with
    | none => simp [nucValues, h]
    | some j =>
      have : ¬ IsAcgt s := fun h' => hs (isAcgt_cons.2 ⟨by simp [h], h'⟩)
      simp [nucValues, h, ih this, Except.map]

/-! ### sums of nucleotide values under single edits -/

theorem foldl_add_eq_sum (l : List Nat) (a : Nat) : l.foldl (· + ·) a = a + l.sum := by
  induction l generalizing a with
  | nil => simp
  | cons x l ih => simp [ih]; omega

theorem sum_vals_set_mod_ne (s : List Char) (p : Nat) (x : Char) (hs : IsAcgt s)
    (hp : p < s.length) (hx : (nucIdx x).isSome = true) (hne : s[p]? ≠ some x) :
    (s.map fun c => (nucIdx c).getD 0).sum % 4 ≠
      ((s.set p x).map fun c => (nucIdx c).getD 0).sum % 4 := by
  induction s generalizing p with
  | nil => simp at hp
  | cons c s ih =>
    rw [isAcgt_cons] at hs
    cases p with
    | zero =>
      have hcx : c ≠ x := by simpa using hne
      have hv : (nucIdx c).getD 0 ≠ (nucIdx x).getD 0 := fun h => hcx (nucIdx_getD_inj hs.1 hx h)
      have h1 := nucIdx_getD_lt_vt c
      have h2 := nucIdx_getD_lt_vt x
      simp only [List.set_cons_zero, List.map_cons, List.sum_cons]
      omega
    | succ p =>
      have := ih p hs.2 (by simpa using hp) (by simpa using hne)
      simp only [List.set_cons_succ, List.map_cons, List.sum_cons]
      omega

theorem sum_vals_insert (s : List Char) (p : Nat) (x : Char) :
    ((s.take p ++ [x] ++ s.drop p).map fun c => (nucIdx c).getD 0).sum =
      (s.map fun c => (nucIdx c).getD 0).sum + (nucIdx x).getD 0 := by
  have h : (s.map fun c => (nucIdx c).getD 0).sum =
      ((s.take p).map fun c => (nucIdx c).getD 0).sum +
        ((s.drop p).map fun c => (nucIdx c).getD 0).sum := by
    rw [← List.sum_append, ← List.map_append, List.take_append_drop]
  rw [h]
  simp only [List.map_append, List.sum_append, List.map_cons, List.map_nil, List.sum_cons,
    List.sum_nil]
  omega

theorem sum_vals_eraseIdx (s : List Char) (p : Nat) (y : Char) (hy : s[p]? = some y) :
    (s.map fun c => (nucIdx c).getD 0).sum =
      ((s.eraseIdx p).map fun c => (nucIdx c).getD 0).sum + (nucIdx y).getD 0 := by
  induction s generalizing p with
  | nil => simp at hy
  | cons c s ih =>
    cases p with
    | zero =>
      have : c = y := by simpa using hy
      subst this
      simp only [List.eraseIdx_cons_zero, List.map_cons, List.sum_cons]
      omega
    | succ p =>
      have := ih p (by simpa using hy)
      simp only [List.eraseIdx_cons_succ, List.map_cons, List.sum_cons]
      omega

/-! ### `ascentSum` is the declarative position sum -/

theorem ascentSum_eq_map (vals : List Nat) (i : Nat) :
    ascentSum vals i =
      (((List.range (vals.length - 1)).filter fun j => vals.getD j 0 < vals.getD (j + 1) 0).map
        (· + i)).sum := by
  induction vals generalizing i with
  | nil => simp [ascentSum]
  | cons x t ih =>
    cases t with
    | nil => simp [ascentSum]
    | cons y r =>
      rw [ascentSum, ih (i + 1)]
      have hlen : (x :: y :: r).length - 1 = ((y :: r).length - 1) + 1 := by simp
      rw [hlen, List.range_succ_eq_map, List.filter_cons, List.filter_map]
      have hf : ((fun j => decide ((x :: y :: r).getD j 0 < (x :: y :: r).getD (j + 1) 0)) ∘ Nat.succ)
          = fun j => decide ((y :: r).getD j 0 < (y :: r).getD (j + 1) 0) := by
        funext j; simp
      rw [hf]
      have hm : ∀ l : List Nat, ((l.map Nat.succ).map (· + i)).sum = (l.map (· + (i + 1))).sum := by
        intro l
        rw [List.map_map]
        congr 1
        apply List.map_congr_left
        intro a _
        simp only [Function.comp]
        omega
      by_cases hxy : x < y
      · have hd : decide ((x :: y :: r).getD 0 0 < (x :: y :: r).getD (0 + 1) 0) = true := by
          simpa using hxy
        rw [if_pos hxy, if_pos hd, List.map_cons, List.sum_cons, hm]
        omega
      · have hd : ¬ decide ((x :: y :: r).getD 0 0 < (x :: y :: r).getD (0 + 1) 0) = true := by
          simpa using hxy
        rw [if_neg hxy, if_neg hd, hm]
        omega

theorem ascentSum_zero (vals : List Nat) :
    ascentSum vals 0 =
      ((List.range (vals.length - 1)).filter fun j => vals.getD j 0 < vals.getD (j + 1) 0).sum := by
  rw [ascentSum_eq_map]
  simp

/-! ### base-4 digits -/

/-- the value accumulated by `kmerIdx` from a start value. -/
theorem kmerIdx_foldl_digitsNat (n : Nat) (acc : List Nat) :
    ((digitsNat 4 n acc).map nucChar).foldl (fun m c => m * 4 + (nucIdx c).getD 0) 0 =
      (acc.map nucChar).foldl (fun m c => m * 4 + (nucIdx c).getD 0) n := by
  induction n using Nat.strongRecOn generalizing acc with
  | _ n ih =>
    rw [digitsNat]
    by_cases h0 : n = 0
    · subst h0; simp
    · have hc : ¬ (n = 0 ∨ 4 < 2) := by omega
      rw [dif_neg hc, ih (n / 4) (by omega)]
      simp only [List.map_cons, List.foldl_cons]
      rw [nucIdx_nucChar_vt (n % 4) (by omega)]
      simp only [Option.getD_some]
      have : n / 4 * 4 + n % 4 = n := by omega
      rw [this]

theorem digitsNat_length_le_vt (w n : Nat) (acc : List Nat) (h : n < 4 ^ w) :
    (digitsNat 4 n acc).length ≤ w + acc.length := by
  induction w generalizing n acc with
  | zero =>
    have : n = 0 := by simpa using h
    subst this
    rw [digitsNat]; simp
  | succ w ih =>
    rw [digitsNat]
    by_cases h0 : n = 0
    · subst h0; simp
    · have hc : ¬ (n = 0 ∨ 4 < 2) := by omega
      rw [dif_neg hc]
      have : n / 4 < 4 ^ w := by
        rw [Nat.pow_succ] at h
        omega
      have := ih (n / 4) (n % 4 :: acc) this
      simp only [List.length_cons] at this
      omega

theorem numberToDnaInt_length (v w : Nat) (h : v < 4 ^ w) : (numberToDnaInt v w).length = w := by
  have := digitsNat_length_le_vt w v [] h
  simp only [List.length_nil] at this
  simp only [numberToDnaInt, padDna, List.length_append, List.length_replicate, List.length_map]
  omega

theorem kmerIdx_replicate_A_append (k : Nat) (l : List Char) :
    kmerIdx (List.replicate k 'A' ++ l) = kmerIdx l := by
  unfold kmerIdx
  rw [List.foldl_append]
  congr 1
  induction k with
  | zero => rfl
  | succ k ih =>
    rw [List.replicate_succ, List.foldl_cons]
    have : (0 * 4 + (nucIdx 'A').getD 0) = 0 := by decide
    rw [this, ih]

theorem kmerIdx_numberToDnaInt (v w : Nat) : kmerIdx (numberToDnaInt v w) = v := by
  unfold numberToDnaInt padDna
  rw [kmerIdx_replicate_A_append]
  unfold kmerIdx
  rw [kmerIdx_foldl_digitsNat]
  rfl

theorem isAcgt_numberToDnaInt (v w : Nat) : IsAcgt (numberToDnaInt v w) := by
  intro c hc
  simp only [numberToDnaInt, padDna, List.mem_append, List.mem_replicate, List.mem_map] at hc
  rcases hc with ⟨_, rfl⟩ | ⟨j, _, rfl⟩
  · decide
  · exact nucIdx_nucChar_isSome_vt j

/-! ### `setVt` -/

theorem setVt_ok_vt {s : List Char} (n : Nat) (hs : IsAcgt s) :
    setVt s n = .ok (nucChar ((s.map fun c => (nucIdx c).getD 0).sum % 4) ::
      numberToDnaInt
        (((List.range ((s.map fun c => (nucIdx c).getD 0).length - 1)).filter fun j =>
          (s.map fun c => (nucIdx c).getD 0).getD j 0 <
            (s.map fun c => (nucIdx c).getD 0).getD (j + 1) 0).sum % 4 ^ (n - 1)) (n - 1)) := by
  unfold setVt
  rw [nucValues_ok_vt hs]
  simp only [Except.map, foldl_add_eq_sum, Nat.zero_add, ascentSum_zero]

theorem setVt_err {s : List Char} (n : Nat) (hs : ¬ IsAcgt s) : setVt s n = .error .valueError := by
  unfold setVt
  rw [nucValues_err hs]
  rfl

/-- every check has exactly the requested length. -/
theorem setVt_length {s c : List Char} {n : Nat} (hn : 1 ≤ n) (h : setVt s n = .ok c) :
    c.length = n := by
  by_cases hs : IsAcgt s
  · rw [setVt_ok_vt n hs] at h
    cases h
    rw [List.length_cons, numberToDnaInt_length _ _ (Nat.mod_lt _ (Nat.pow_pos (by omega)))]
    omega
  · rw [setVt_err n hs] at h
    cases h

/-- if the value sums differ mod 4, the first symbols of the checks differ. -/
theorem setVt_head_ne {s s' : List Char} (n : Nat) (hs : IsAcgt s) (hs' : IsAcgt s')
    (hne : (s.map fun c => (nucIdx c).getD 0).sum % 4 ≠
      (s'.map fun c => (nucIdx c).getD 0).sum % 4) :
    ∃ c c', setVt s n = .ok c ∧ setVt s' n = .ok c' ∧ c.head? ≠ c'.head? := by
  refine ⟨_, _, setVt_ok_vt n hs, setVt_ok_vt n hs', ?_⟩
  simp only [List.head?_cons, ne_eq, Option.some.injEq]
  intro h
  exact hne (nucChar_inj (Nat.mod_lt _ (by omega)) (Nat.mod_lt _ (by omega)) h)

/-- a check whose first symbol differs from the strand's own check is rejected. -/
theorem vtMatches_false {s' c c' : List Char} {n : Nat} (hlen : c.length = n)
    (hc' : setVt s' n = .ok c') (hne : c.head? ≠ c'.head?) :
    vtMatches s' (some c) = .ok false := by
  unfold vtMatches
  simp only [hlen, hc', Except.map]
  congr 1
  rw [beq_eq_false_iff_ne]
  intro h
  exact hne (by rw [h])

end Dsw
