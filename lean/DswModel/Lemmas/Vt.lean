import DswModel.Model.Spiderweb
import DswModel.Lemmas.Defs
/-! Helper lemmas for `set_vt` (C07). -/
namespace Dsw

end Dsw
