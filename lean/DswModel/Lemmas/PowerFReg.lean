import DswModel.Lemmas.PowerFInt
import DswModel.Lemmas.PowerFLoop
/-!
# Helper lemmas for C17d: regular graphs in double precision

With the indicator vector of the vertices that have an arc, one step of `capStepF` returns the estimate `canon d`
and the (canonical) indicator vector again; the second step is literally the same, so the loop stops.
-/
namespace Dsw.PowerF
open Dsw.FloatErr Dsw.PowerStopF

/-- `1` when `v` is a vertex with an arc, else `0`. -/
def ind (a : Acc) (v : Nat) : Nat := if v < a.size ∧ a.live (v : Int) ≠ [] then 1 else 0

/-- `x` is (entry by entry, as values) the indicator vector of the vertices that have an arc. -/
def IsIndF (a : Acc) (x : VecF) : Prop := ∀ v : Nat, IsInt (x.getD v Dbl.zero) (ind a v)

/-- the canonical indicator vector. -/
def indVec (a : Acc) : VecF := ((List.range a.size).map fun (v : Nat) => canon (if a.live (v : Int) ≠ [] then 1 else 0)).toArray

theorem indVec_getD (a : Acc) (v : Nat) (hv : v < a.size) :
    (indVec a).getD v Dbl.zero = canon (if a.live (v : Int) ≠ [] then 1 else 0) := by
  unfold indVec
  apply toArray_getD
  rw [List.getElem?_map, List.getElem?_range hv]
  rfl

theorem indVec_size (a : Acc) : (indVec a).size = a.size := by simp [indVec]

theorem indVec_isInd (a : Acc) : IsIndF a (indVec a) := by
  intro v
  unfold ind
  by_cases hv : v < a.size
  · rw [indVec_getD a v hv]
    by_cases hl : a.live (v : Int) = []
    · rw [if_neg (by simp [hl]), if_neg (by simp [hl])]; exact canon_isInt 0
    · rw [if_pos hl, if_pos ⟨hv, hl⟩]; exact canon_isInt 1
  · have : (indVec a).getD v Dbl.zero = Dbl.zero := by
      have hs := indVec_size a
      simp [Array.getD, show ¬ v < (indVec a).size by omega]
    rw [this, if_neg (by omega)]
    exact isInt_zero

theorem zeroDeadF_ones_ind {k : Nat} {a : Acc} (hw : WFdB k a) :
    IsIndF a (zeroDeadF a (Array.replicate a.size ⟨1, 1⟩)) := by
  intro v
  unfold ind
  by_cases hv : v < a.size
  · rw [zeroDeadF_getD a _ v hv]
    have hr := hw.rowOK (by rw [← hw.1]; exact hv : v < 4 ^ k)
    have h1 : (Array.replicate a.size (⟨1, 1⟩ : Dbl)).getD v Dbl.zero = ⟨1, 1⟩ := by simp [Array.getD, hv]
    by_cases hl : a.live (v : Int) = []
    · rw [if_pos ((Power.rowSum_iff hr).2 ((Power.live_nil_iff a v).1 hl)), if_neg (by simp [hl])]
      exact isInt_zero
    · rw [if_neg (fun c => hl ((Power.live_nil_iff a v).2 ((Power.rowSum_iff hr).1 c))), h1, if_pos ⟨hv, hl⟩]
      exact isInt_one
  · have : (zeroDeadF a (Array.replicate a.size ⟨1, 1⟩)).getD v Dbl.zero = Dbl.zero := by
      have hs := zeroDeadF_size a (Array.replicate a.size ⟨1, 1⟩)
      simp [Array.getD, show ¬ v < (zeroDeadF a (Array.replicate a.size ⟨1, 1⟩)).size by omega]
    rw [this, if_neg (by omega)]
    exact isInt_zero

section regular
variable {k d : Nat} {a : Acc} (hw : WFdB k a) (hd : 1 ≤ d)
  (hlive : ∃ v : Nat, v < 4 ^ k ∧ a.live (v : Int) ≠ [])
  (hreg : ∀ v : Nat, v < 4 ^ k → a.live (v : Int) ≠ [] →
    ((a.liveEntries (v : Int)).filter fun (w : Nat) => decide (a.live (w : Int) ≠ [])).length = d)

include hlive hreg in
theorem d_le_four : d ≤ 4 := by
  obtain ⟨v, hv, hl⟩ := hlive
  rw [← hreg v hv hl]
  exact le_trans (List.length_filter_le _ _) (Power.liveEntries_length_le a (v : Int))

include hw hreg in
theorem rowSum_ind (x : VecF) (hx : IsIndF a x) (v : Nat) (hv : v < a.size) :
    rowSumF a x v = some (canon (if a.live (v : Int) ≠ [] then d else 0)) := by
  have hv' : v < 4 ^ k := by rw [← hw.1]; exact hv
  have hfold : rowSumF a x v = (a.liveEntries (v : Int)).foldl (PowerStopF.addStep x) (some (canon 0)) := rfl
  have hlen : ((a.liveEntries (v : Int)).filter fun (w : Nat) => decide (a.live (w : Int) ≠ [])).length ≤ 4 :=
    le_trans (List.length_filter_le _ _) (Power.liveEntries_length_le a (v : Int))
  rw [hfold, rowFold_int x (fun (w : Nat) => decide (a.live (w : Int) ≠ [])) _ 0 ?_ (by
    have : (4 : Nat) < 2 ^ 52 := by decide
    omega)]
  · rw [Nat.zero_add]
    by_cases hl : a.live (v : Int) = []
    · have : a.liveEntries (v : Int) = [] := by unfold Acc.liveEntries; rw [hl]; rfl
      rw [this, if_neg (by simp [hl])]
      rfl
    · rw [hreg v hv' hl, if_pos hl]
  · intro w hw'
    have hws : w < a.size := by
      rw [hw.liveEntries_eq hv', List.mem_map] at hw'
      obtain ⟨j, _, rfl⟩ := hw'
      rw [hw.1]; exact Nat.mod_lt _ (four_pow_pos k)
    have := hx w
    unfold ind at this
    by_cases hl : a.live (w : Int) = []
    · rw [if_neg (by simp [hl])] at this
      rw [if_neg (by simp [hl])]
      exact this
    · rw [if_pos ⟨hws, hl⟩] at this
      rw [if_pos (by simp [hl])]
      exact this

include hw hd hlive hreg in
theorem capStepF_ind (x : VecF) (hx : IsIndF a x) : capStepF a x = some (indVec a, canon d) := by
  have hd4 := d_le_four hlive hreg
  have h452 : (4 : Nat) < 2 ^ 52 := by decide
  have hcd := canon_isInt d
  have hcpos : 0 < (canon d).num := isInt_num_pos hcd (by omega)
  -- the row sums
  have hy : allSome ((List.range a.size).map fun v => rowSumF a x v) =
      some ((List.range a.size).map fun (v : Nat) => canon (if a.live (v : Int) ≠ [] then d else 0)) := by
    rw [← allSome_map_some]
    congr 1
    apply List.map_congr_left
    intro v hv
    exact rowSum_ind hw hreg x hx v (List.mem_range.1 hv)
  -- the maximum
  have hev : ((List.range a.size).map fun (v : Nat) => canon (if a.live (v : Int) ≠ [] then d else 0)).foldl
      Dbl.maxD Dbl.zero = canon d := by
    apply foldl_maxD_two _ hcpos
    · intro t ht
      obtain ⟨v, _, rfl⟩ := List.mem_map.1 ht
      by_cases hl : a.live (v : Int) = []
      · rw [if_neg (by simp [hl])]; exact Or.inl rfl
      · rw [if_pos hl]; exact Or.inr rfl
    · obtain ⟨v, hv, hl⟩ := hlive
      refine List.mem_map.2 ⟨v, List.mem_range.2 (by rw [hw.1]; exact hv), ?_⟩
      rw [if_pos hl]
  -- the normalisation
  have hzl : allSome (((List.range a.size).map fun (v : Nat) => canon (if a.live (v : Int) ≠ [] then d else 0)).map
      fun t => Dbl.div t (((List.range a.size).map fun (v : Nat) =>
        canon (if a.live (v : Int) ≠ [] then d else 0)).foldl Dbl.maxD Dbl.zero)) =
      some ((List.range a.size).map fun (v : Nat) => canon (if a.live (v : Int) ≠ [] then 1 else 0)) := by
    rw [hev, ← allSome_map_some, List.map_map]
    congr 1
    apply List.map_congr_left
    intro v _
    simp only [Function.comp]
    by_cases hl : a.live (v : Int) = []
    · rw [if_neg (by simp [hl]), if_neg (by simp [hl])]
      exact div_int _ _ 0 d 0 (canon_isInt 0) hcd (by omega) (by omega) (by omega)
    · rw [if_pos hl, if_pos hl]
      exact div_int _ _ d d 1 hcd hcd (by omega) (by omega) (by omega)
  have hlt : Dbl.lt Dbl.zero (((List.range a.size).map fun (v : Nat) =>
      canon (if a.live (v : Int) ≠ [] then d else 0)).foldl Dbl.maxD Dbl.zero) = true := by
    rw [hev]; exact (lt_zero_iff _).2 hcpos
  have := capStepF_pos a x _ _ hy hlt hzl
  rw [hev] at this
  exact this

end regular

/-! ## the settled test on identical vectors -/

theorem foldl_maxD_zero (l : List Dbl) (h : ∀ t ∈ l, t = Dbl.zero) : l.foldl Dbl.maxD Dbl.zero = Dbl.zero :=
  foldl_maxD_prop (fun t => t = Dbl.zero) l Dbl.zero rfl h

theorem maxDiffF_self (n : Nat) (z : VecF) : maxDiffF n z z = some Dbl.zero := by
  unfold maxDiffF
  have : ((List.range n).map fun v => (Dbl.sub (z.getD v Dbl.zero) (z.getD v Dbl.zero)).map Dbl.abs) =
      (List.range n).map fun _ => some Dbl.zero := by
    apply List.map_congr_left
    intro v _
    rw [sub_self']
    rfl
  rw [this, allSome_map_some, Option.map_some, foldl_maxD_zero]
  intro t ht
  obtain ⟨_, _, rfl⟩ := List.mem_map.1 ht
  rfl

theorem relLtF_self (tol c : Dbl) (hc : 0 < c.num) : relLtF tol c c = Dbl.lt Dbl.zero tol := by
  unfold relLtF
  rw [if_pos ((lt_zero_iff c).2 hc), sub_self']
  simp only [Option.map_some, Option.bind_some, abs_zero]
  rw [zero_div c hc]

theorem clamp_int (tol c : Dbl) (d : Nat) (hc : IsInt c d) (hd : 1 ≤ d) (htd : 0 < tol.den) (ht : tol.num < tol.den) :
    clampEvF tol c = c := by
  unfold clampEvF
  have : Dbl.lt tol c = true := by
    unfold Dbl.lt
    rw [decide_eq_true_iff, hc.2]
    have hcd : (0 : Int) < (c.den : Int) := by have := hc.1; omega
    have h1 : tol.num * (c.den : Int) < (tol.den : Int) * (c.den : Int) := Int.mul_lt_mul_of_pos_right ht hcd
    have h2 : (1 : Int) * ((c.den : Int) * (tol.den : Int)) ≤ (d : Int) * ((c.den : Int) * (tol.den : Int)) :=
      Int.mul_le_mul_of_nonneg_right (by omega) (Int.mul_nonneg (by omega) (by omega))
    have e1 : (tol.den : Int) * (c.den : Int) = (c.den : Int) * (tol.den : Int) := Int.mul_comm _ _
    have e2 : (d : Int) * (c.den : Int) * (tol.den : Int) = (d : Int) * ((c.den : Int) * (tol.den : Int)) :=
      Int.mul_assoc _ _ _
    rw [e2]
    omega
  rw [this]
  rfl

theorem capLoopF_regular {k d : Nat} {a : Acc} (tol : Dbl) (maxIter : Nat) (hw : WFdB k a) (hd : 1 ≤ d)
    (htol : 0 < tol.den ∧ 0 < tol.num ∧ tol.num < tol.den) (hmax : 1 ≤ maxIter)
    (hlive : ∃ v : Nat, v < 4 ^ k ∧ a.live (v : Int) ≠ [])
    (hreg : ∀ v : Nat, v < 4 ^ k → a.live (v : Int) ≠ [] →
      ((a.liveEntries (v : Int)).filter fun (w : Nat) => decide (a.live (w : Int) ≠ [])).length = d)
    (x : VecF) (hx : IsIndF a x) :
    capLoopF a tol maxIter (maxIter + 2) x none [] [] = some ⟨[canon d], [canon d, canon d]⟩ := by
  have h1 := capStepF_ind hw hd hlive hreg x hx
  have h2 := capStepF_ind hw hd hlive hreg _ (indVec_isInd a)
  have hcd := canon_isInt d
  have hcpos : 0 < (canon d).num := isInt_num_pos hcd (by omega)
  have hclamp := clamp_int tol (canon d) d hcd hd htol.1 htol.2.2
  have hzt : Dbl.lt Dbl.zero tol = true := (lt_zero_iff tol).2 htol.2.1
  have hres1 : res1F tol true Dbl.zero (canon d) = [canon d] := by
    unfold res1F
    rw [if_pos ⟨rfl, hzt⟩, hclamp]
  have hres2 : res2F tol maxIter ([] ++ [canon d]) = some [] := by
    unfold res2F
    rw [if_neg (by simp; omega)]
  rw [show maxIter + 2 = (maxIter + 1) + 1 from rfl, capLoopF_none a tol maxIter (maxIter + 1) x _ _ [] [] h1,
    capLoopF_some a tol maxIter maxIter _ _ _ (canon d) [] _ h2, relLtF_self _ _ hcpos, hzt, maxDiffF_self]
  simp only [hres2, hres1, hclamp]
  simp

end Dsw.PowerF
