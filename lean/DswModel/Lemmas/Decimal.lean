import DswModel.Model.Operation
/-!
Helper lemmas for the decimal-string arithmetic (`calculus_*`). May import single Mathlib
modules (e.g. `Mathlib.Tactic.Ring`) if needed — never `import Mathlib`.
-/
namespace Dsw

/-- digits only, non-empty, no leading zero unless the string is `"0"`. -/
def Dec.Canonical (s : Dec) : Prop :=
  (∀ d ∈ s, d < 10) ∧ s ≠ [] ∧ (s.head? = some 0 → s = [0])

instance (s : Dec) : Decidable s.Canonical := by unfold Dec.Canonical; infer_instance

/-! ## value of a digit list -/

theorem Dec.toNat_nil : Dec.toNat [] = 0 := rfl

theorem Dec.toNat_single (d : Nat) : Dec.toNat [d] = d := by simp [Dec.toNat]

theorem Dec.toNat_append_single (s : Dec) (d : Nat) :
    Dec.toNat (s ++ [d]) = Dec.toNat s * 10 + d := by
  simp [Dec.toNat, List.foldl_append]

theorem Dec.toNat_reverse_cons (x : Nat) (r : List Nat) :
    Dec.toNat (x :: r).reverse = Dec.toNat r.reverse * 10 + x := by
  rw [List.reverse_cons, Dec.toNat_append_single]

theorem Dec.foldl_shift (l : List Nat) (a : Nat) :
    l.foldl (fun n d => n * 10 + d) a = a * 10 ^ l.length + l.foldl (fun n d => n * 10 + d) 0 := by
  induction l generalizing a with
  | nil => simp
  | cons x xs ih =>
    simp only [List.foldl_cons, List.length_cons]
    rw [ih (a * 10 + x), ih (0 * 10 + x)]
    grind

theorem Dec.toNat_cons (d : Nat) (s : Dec) :
    Dec.toNat (d :: s) = d * 10 ^ s.length + Dec.toNat s := by
  simp only [Dec.toNat, List.foldl_cons]
  rw [Dec.foldl_shift]
  simp

theorem Dec.toNat_zero_cons (s : Dec) : Dec.toNat (0 :: s) = Dec.toNat s := by
  simp [Dec.toNat_cons]

theorem Dec.toNat_replicate_zero (n : Nat) : Dec.toNat (List.replicate n 0) = 0 := by
  induction n with
  | zero => rfl
  | succ n ih => rw [List.replicate_succ, Dec.toNat_zero_cons, ih]

theorem Dec.toNat_lt (s : Dec) (h : ∀ d ∈ s, d < 10) : Dec.toNat s < 10 ^ s.length := by
  induction s with
  | nil => simp [Dec.toNat]
  | cons d t ih =>
    have hd : d < 10 := h d (by simp)
    have ht := ih (fun e he => h e (by simp [he]))
    have h1 : d * 10 ^ t.length ≤ 9 * 10 ^ t.length := Nat.mul_le_mul_right _ (by omega)
    rw [Dec.toNat_cons, List.length_cons, Nat.pow_succ]
    omega

theorem Dec.le_toNat_cons (d : Nat) (t : Dec) (hd : d ≠ 0) : 10 ^ t.length ≤ Dec.toNat (d :: t) := by
  have h1 : 1 * 10 ^ t.length ≤ d * 10 ^ t.length := Nat.mul_le_mul_right _ (by omega)
  rw [Dec.toNat_cons]
  omega

/-! ## canonical strings, characterised by value -/

theorem Dec.Canonical.digits {s : Dec} (h : s.Canonical) : ∀ d ∈ s, d < 10 := h.1

theorem Dec.Canonical.ne_nil {s : Dec} (h : s.Canonical) : s ≠ [] := h.2.1

theorem Dec.Canonical.length_pos {s : Dec} (h : s.Canonical) : 0 < s.length :=
  List.length_pos_iff.mpr h.2.1

theorem Dec.Canonical.lower {s : Dec} (h : s.Canonical) (h2 : 2 ≤ s.length) :
    10 ^ (s.length - 1) ≤ Dec.toNat s := by
  obtain ⟨_, _, h0⟩ := h
  match s, h0, h2 with
  | d :: t, h0, h2 =>
    have hd : d ≠ 0 := by
      intro hd
      subst hd
      have := h0 rfl
      simp at this
      subst this
      simp at h2
    simpa using Dec.le_toNat_cons d t hd

theorem Dec.canonical_of_lower (s : Dec) (hd : ∀ d ∈ s, d < 10) (hne : s ≠ [])
    (hl : 2 ≤ s.length → 10 ^ (s.length - 1) ≤ Dec.toNat s) : s.Canonical := by
  refine ⟨hd, hne, ?_⟩
  match s, hd, hne, hl with
  | d :: t, hd, _, hl =>
    intro h0
    simp at h0
    subst h0
    cases t with
    | nil => rfl
    | cons e u =>
      exfalso
      have h1 := hl (by simp)
      have h2 := Dec.toNat_lt (e :: u) (fun x hx => hd x (by simp [hx]))
      rw [Dec.toNat_zero_cons] at h1
      simp at h1 h2
      omega

theorem Dec.canonical_single (d : Nat) (hd : d < 10) : Dec.Canonical [d] := by
  refine ⟨by simpa using hd, by simp, ?_⟩
  intro h
  simp at h
  simp [h]

theorem Dec.canonical_cons_of_ne_zero (d : Nat) (t : Dec) (hd : d ≠ 0) (h10 : d < 10)
    (ht : ∀ e ∈ t, e < 10) : Dec.Canonical (d :: t) := by
  refine ⟨?_, by simp, ?_⟩
  · intro e he
    simp at he
    rcases he with rfl | he
    · exact h10
    · exact ht e he
  · intro h
    simp at h
    exact absurd h hd

theorem Dec.eq_of_toNat_eq_of_length_eq (s t : Dec) (hs : ∀ d ∈ s, d < 10) (ht : ∀ d ∈ t, d < 10)
    (hl : s.length = t.length) (hv : Dec.toNat s = Dec.toNat t) : s = t := by
  induction s generalizing t with
  | nil =>
    cases t with
    | nil => rfl
    | cons _ _ => simp at hl
  | cons d s ih =>
    cases t with
    | nil => simp at hl
    | cons e t =>
      have hl' : s.length = t.length := by simpa using hl
      have hs' : ∀ x ∈ s, x < 10 := fun x hx => hs x (by simp [hx])
      have ht' : ∀ x ∈ t, x < 10 := fun x hx => ht x (by simp [hx])
      have b1 := Dec.toNat_lt s hs'
      have b2 := Dec.toNat_lt t ht'
      rw [Dec.toNat_cons, Dec.toNat_cons, hl'] at hv
      rw [hl'] at b1
      have hde : d = e := by
        rcases Nat.lt_trichotomy d e with h | h | h
        · exfalso
          have := Nat.mul_le_mul_right (10 ^ t.length) (show d + 1 ≤ e from h)
          rw [Nat.succ_mul] at this
          omega
        · exact h
        · exfalso
          have := Nat.mul_le_mul_right (10 ^ t.length) (show e + 1 ≤ d from h)
          rw [Nat.succ_mul] at this
          omega
      subst hde
      have : Dec.toNat s = Dec.toNat t := by omega
      rw [ih t hs' ht' hl' this]

theorem Dec.Canonical.length_le {s t : Dec} (hs : s.Canonical) (ht : t.Canonical)
    (h : Dec.toNat s = Dec.toNat t) : s.length ≤ t.length := by
  apply Classical.byContradiction
  intro hlt
  have hlt : t.length < s.length := by omega
  have h1 := hs.lower (by have := ht.length_pos; omega)
  have h2 := Dec.toNat_lt t ht.digits
  have h3 : 10 ^ t.length ≤ 10 ^ (s.length - 1) := Nat.pow_le_pow_right (by omega) (by omega)
  omega

theorem Dec.canonical_unique (s t : Dec) (hs : s.Canonical) (ht : t.Canonical)
    (h : Dec.toNat s = Dec.toNat t) : s = t :=
  Dec.eq_of_toNat_eq_of_length_eq s t hs.digits ht.digits
    (Nat.le_antisymm (hs.length_le ht h) (ht.length_le hs h.symm)) h

theorem Dec.canonical_zero : Dec.Canonical [0] := Dec.canonical_single 0 (by omega)

theorem Dec.Canonical.eq_zero_of_toNat {s : Dec} (hs : s.Canonical) (h : Dec.toNat s = 0) :
    s = [0] :=
  Dec.canonical_unique s [0] hs Dec.canonical_zero (by rw [h]; rfl)

/-! ## stripZeros -/

theorem toNat_stripZeros (s : Dec) : Dec.toNat (stripZeros s) = Dec.toNat s := by
  induction s with
  | nil => rfl
  | cons d t ih =>
    cases d with
    | zero => rw [stripZeros, ih, Dec.toNat_zero_cons]
    | succ d => simp [stripZeros]

theorem canonical_stripZeros (s : Dec) (h : ∀ d ∈ s, d < 10) : (stripZeros s).Canonical := by
  induction s with
  | nil => exact Dec.canonical_zero
  | cons d t ih =>
    have ht : ∀ e ∈ t, e < 10 := fun x hx => h x (by simp [hx])
    cases d with
    | zero => rw [stripZeros]; exact ih ht
    | succ d =>
      simp only [stripZeros]
      exact Dec.canonical_cons_of_ne_zero (d + 1) t (by omega) (h _ (by simp)) ht

/-! ## addition -/

theorem addStep_foldr_spec (ps : List (Nat × Nat)) (hp : ∀ p ∈ ps, p.1 < 10 ∧ p.2 < 10) :
    (ps.foldr addStep (0, [])).2.length = ps.length ∧
    (∀ d ∈ (ps.foldr addStep (0, [])).2, d < 10) ∧
    (ps.foldr addStep (0, [])).1 ≤ 1 ∧
    (ps.foldr addStep (0, [])).1 * 10 ^ ps.length + Dec.toNat (ps.foldr addStep (0, [])).2 =
      Dec.toNat (ps.map Prod.fst) + Dec.toNat (ps.map Prod.snd) := by
  induction ps with
  | nil => simp [Dec.toNat]
  | cons p ps ih =>
    obtain ⟨ih1, ih2, ih3, ih4⟩ := ih (fun q hq => hp q (by simp [hq]))
    have hp0 := hp p (by simp)
    simp only [List.foldr_cons, List.map_cons, List.length_cons]
    generalize ps.foldr addStep (0, []) = r at ih1 ih2 ih3 ih4
    obtain ⟨c, ds⟩ := r
    simp only at ih1 ih2 ih3 ih4
    simp only [addStep]
    refine ⟨by simp [ih1], ?_, by omega, ?_⟩
    · intro d hd
      simp at hd
      rcases hd with rfl | hd
      · omega
      · exact ih2 d hd
    · rw [Dec.toNat_cons, Dec.toNat_cons, Dec.toNat_cons, ih1, List.length_map, List.length_map,
        Nat.pow_succ]
      have hs := Nat.div_add_mod (p.1 + p.2 + c) 10
      generalize (p.1 + p.2 + c) / 10 = q at hs ⊢
      generalize (p.1 + p.2 + c) % 10 = m at hs ⊢
      grind

theorem calculusAddition_spec (s : Dec) (b : Nat) (hs : s.Canonical) (hb : b < 10) :
    (calculusAddition s b).Canonical ∧ (calculusAddition s b).toNat = s.toNat + b := by
  have hlen := hs.length_pos
  have hbl : (List.replicate (s.length - 1) 0 ++ [b]).length = s.length := by
    simp; omega
  have hbase : Dec.toNat (List.replicate (s.length - 1) 0 ++ [b]) = b := by
    rw [Dec.toNat_append_single, Dec.toNat_replicate_zero]; omega
  have hbd : ∀ d ∈ List.replicate (s.length - 1) 0 ++ [b], d < 10 := by
    intro d hd
    simp at hd
    rcases hd with ⟨_, rfl⟩ | rfl <;> omega
  have hp : ∀ p ∈ s.zip (List.replicate (s.length - 1) 0 ++ [b]), p.1 < 10 ∧ p.2 < 10 := by
    intro p hp
    obtain ⟨x, y⟩ := p
    have := List.of_mem_zip hp
    exact ⟨hs.digits _ this.1, hbd _ this.2⟩
  obtain ⟨h1, h2, h3, h4⟩ := addStep_foldr_spec _ hp
  rw [List.map_fst_zip (by omega), List.map_snd_zip (by omega), hbase] at h4
  rw [List.length_zip, hbl, Nat.min_self] at h1 h4
  unfold calculusAddition
  simp only
  generalize (s.zip (List.replicate (s.length - 1) 0 ++ [b])).foldr addStep (0, []) = r
    at h1 h2 h3 h4
  obtain ⟨c, ds⟩ := r
  simp only at h1 h2 h3 h4
  simp only [List.head?_cons, List.tail_cons, Option.some.injEq]
  have hc : c = 0 ∨ c = 1 := by omega
  rcases hc with rfl | rfl
  · simp only [if_true]
    refine ⟨Dec.canonical_of_lower ds h2 ?_ ?_, by omega⟩
    · intro h; subst h; simp at h1; omega
    · intro h2l
      rw [h1] at h2l ⊢
      have := hs.lower h2l
      omega
  · simp only [show ¬ (1 = 0) by omega, if_false]
    refine ⟨Dec.canonical_cons_of_ne_zero 1 ds (by omega) (by omega) h2, ?_⟩
    rw [Dec.toNat_cons, h1]
    omega

/-! ## multiplication -/

theorem mulStep_foldr_spec (b : Nat) (hb1 : 1 ≤ b) (s : List Nat) (hs : ∀ d ∈ s, d < 10) :
    (s.foldr (mulStep b) (0, [])).2.length = s.length ∧
    (∀ d ∈ (s.foldr (mulStep b) (0, [])).2, d < 10) ∧
    (s.foldr (mulStep b) (0, [])).1 < b ∧
    (s.foldr (mulStep b) (0, [])).1 * 10 ^ s.length + Dec.toNat (s.foldr (mulStep b) (0, [])).2 =
      Dec.toNat s * b := by
  induction s with
  | nil => simp [Dec.toNat]; omega
  | cons x s ih =>
    obtain ⟨ih1, ih2, ih3, ih4⟩ := ih (fun q hq => hs q (by simp [hq]))
    have hx := hs x (by simp)
    simp only [List.foldr_cons, List.length_cons]
    generalize s.foldr (mulStep b) (0, []) = r at ih1 ih2 ih3 ih4
    obtain ⟨c, ds⟩ := r
    simp only at ih1 ih2 ih3 ih4
    simp only [mulStep]
    have hxb : x * b ≤ 9 * b := Nat.mul_le_mul_right _ (by omega)
    refine ⟨by simp [ih1], ?_, by omega, ?_⟩
    · intro d hd
      simp at hd
      rcases hd with rfl | hd
      · omega
      · exact ih2 d hd
    · rw [Dec.toNat_cons, Dec.toNat_cons, ih1, Nat.pow_succ]
      have hs := Nat.div_add_mod (x * b + c) 10
      generalize (x * b + c) / 10 = q at hs ⊢
      generalize (x * b + c) % 10 = m at hs ⊢
      grind

theorem pushCarry_two (r : Nat) (acc : List Nat) (hr : r < 10) :
    pushCarry 2 r acc = if r > 0 then r :: acc else acc := by
  have h1 : r / 10 = 0 := by omega
  have h2 : r % 10 = r := by omega
  simp [pushCarry, h1, h2]

theorem calculusMultiplication_spec (s : Dec) (b : Nat) (hs : s.Canonical) (hb : b < 10) :
    (calculusMultiplication s b).Canonical ∧ (calculusMultiplication s b).toNat = s.toNat * b := by
  unfold calculusMultiplication
  by_cases h0 : b = 0
  · subst h0
    exact ⟨Dec.canonical_zero, rfl⟩
  by_cases h1 : b = 1
  · subst h1
    simp only [if_neg h0, if_true]
    exact ⟨hs, by omega⟩
  simp only [if_neg h0, if_neg h1]
  obtain ⟨g1, g2, g3, g4⟩ := mulStep_foldr_spec b (by omega) s hs.digits
  generalize s.foldr (mulStep b) (0, []) = r at g1 g2 g3 g4
  obtain ⟨c, ds⟩ := r
  simp only at g1 g2 g3 g4
  rw [pushCarry_two c ds (by omega)]
  by_cases hc : c > 0
  · simp only [if_pos hc]
    refine ⟨Dec.canonical_cons_of_ne_zero c ds (by omega) (by omega) g2, ?_⟩
    rw [Dec.toNat_cons, g1]
    exact g4
  · simp only [if_neg hc]
    have hc0 : c = 0 := by omega
    subst hc0
    refine ⟨Dec.canonical_of_lower ds g2 ?_ ?_, by omega⟩
    · intro h; subst h; have := hs.length_pos; simp at g1; omega
    · intro h2l
      rw [g1] at h2l ⊢
      have h5 := hs.lower h2l
      have h6 : Dec.toNat s * 1 ≤ Dec.toNat s * b := Nat.mul_le_mul_left _ (by omega)
      omega

/-! ## division -/

theorem divStep_eq (b : Nat) (st : List Nat × Nat) (x : Nat) :
    divStep b st x = ((x + st.2 * 10) / b :: st.1, (x + st.2 * 10) % b) := by
  unfold divStep
  simp only
  split
  · rw [Nat.mod_def, Nat.mul_comm b]
  · rename_i h
    have h : x + st.2 * 10 < b := by omega
    rw [Nat.div_eq_of_lt h, Nat.mod_eq_of_lt h]

theorem divStep_foldl_spec (b : Nat) (hb : 0 < b) (r : List Nat) (hr : ∀ d ∈ r, d < 10) :
    (r.reverse.foldl (divStep b) ([], 0)).1.length = r.length ∧
    (∀ d ∈ (r.reverse.foldl (divStep b) ([], 0)).1, d < 10) ∧
    (r.reverse.foldl (divStep b) ([], 0)).2 < b ∧
    Dec.toNat (r.reverse.foldl (divStep b) ([], 0)).1.reverse * b +
      (r.reverse.foldl (divStep b) ([], 0)).2 = Dec.toNat r.reverse := by
  induction r with
  | nil => simp [Dec.toNat]; exact hb
  | cons x r ih =>
    obtain ⟨ih0, ih1, ih2, ih3⟩ := ih (fun q hq => hr q (by simp [hq]))
    have hx := hr x (by simp)
    rw [Dec.toNat_reverse_cons, List.reverse_cons, List.foldl_append]
    simp only [List.foldl_cons, List.foldl_nil]
    generalize r.reverse.foldl (divStep b) ([], 0) = st at ih0 ih1 ih2 ih3
    obtain ⟨out, rem⟩ := st
    simp only at ih0 ih1 ih2 ih3
    rw [divStep_eq b]
    simp only
    have hcur : x + rem * 10 < b * 10 := by omega
    have hq : (x + rem * 10) / b < 10 := Nat.div_lt_of_lt_mul hcur
    refine ⟨by simp [ih0], ?_, Nat.mod_lt _ hb, ?_⟩
    · intro d hd
      simp at hd
      rcases hd with rfl | hd
      · exact hq
      · exact ih1 d hd
    · rw [Dec.toNat_reverse_cons]
      have hs := Nat.div_add_mod (x + rem * 10) b
      generalize (x + rem * 10) / b = q at hs ⊢
      generalize (x + rem * 10) % b = m at hs ⊢
      grind

theorem div_mod_of_eq (n b q m : Nat) (h : q * b + m = n) (hm : m < b) :
    q = n / b ∧ m = n % b := by
  have hb : 0 < b := by omega
  have := (Nat.div_mod_unique (a := n) (c := m) (d := q) hb).mpr ⟨by rw [Nat.mul_comm]; omega, hm⟩
  exact ⟨this.1.symm, this.2.symm⟩

theorem calculusDivision_spec (s : Dec) (b : Nat) (hs : s.Canonical) (hb : b < 10) (hb1 : 1 ≤ b) :
    (calculusDivision s b).1.Canonical ∧ (calculusDivision s b).1.toNat = s.toNat / b ∧
    (calculusDivision s b).2.Canonical ∧ (calculusDivision s b).2.toNat = s.toNat % b := by
  unfold calculusDivision
  have h0 : b ≠ 0 := by omega
  simp only [if_neg h0]
  by_cases h1 : b = 1
  · subst h1
    simp only [if_true]
    exact ⟨hs, by simp, Dec.canonical_zero, by simp [Dec.toNat, Nat.mod_one]⟩
  simp only [if_neg h1]
  split
  · rename_i hc
    obtain ⟨hl, hd⟩ := hc
    match s, hl, hd with
    | [d], _, hd =>
      simp only [List.headD_cons] at hd ⊢
      refine ⟨Dec.canonical_zero, ?_, Dec.canonical_single d (by omega), ?_⟩
      · rw [Dec.toNat_single, Dec.toNat_single, Nat.div_eq_of_lt hd]
      · simp [Dec.toNat, Nat.mod_eq_of_lt hd]
  · have hd : ∀ d ∈ s.reverse, d < 10 := fun d hd => hs.digits d (by simpa using hd)
    obtain ⟨_, g1, g2, g3⟩ := divStep_foldl_spec b (by omega) s.reverse hd
    rw [List.reverse_reverse] at g1 g2 g3
    generalize s.foldl (divStep b) ([], 0) = st at g1 g2 g3
    obtain ⟨out, rem⟩ := st
    simp only at g1 g2 g3 ⊢
    have hod : ∀ d ∈ out.reverse, d < 10 := fun d hd => g1 d (by simpa using hd)
    have := div_mod_of_eq _ _ _ _ g3 g2
    refine ⟨canonical_stripZeros _ hod, ?_, Dec.canonical_single rem (by omega), ?_⟩
    · rw [toNat_stripZeros]; exact this.1
    · rw [Dec.toNat_single]; exact this.2

/-! ## subtraction -/

theorem borrow_spec (r : List Nat) (hr : ∀ d ∈ r, d < 10) (hpos : 1 ≤ Dec.toNat r.reverse) :
    (∀ d ∈ borrow r, d < 10) ∧ Dec.toNat (borrow r).reverse + 1 = Dec.toNat r.reverse := by
  induction r with
  | nil => simp [Dec.toNat] at hpos
  | cons d r ih =>
    have hr' : ∀ e ∈ r, e < 10 := fun q hq => hr q (by simp [hq])
    have hd := hr d (by simp)
    cases d with
    | zero =>
      rw [Dec.toNat_reverse_cons] at hpos
      obtain ⟨i1, i2⟩ := ih hr' (by omega)
      simp only [borrow]
      refine ⟨?_, ?_⟩
      · intro e he
        simp at he
        rcases he with rfl | he
        · omega
        · exact i1 e he
      · rw [Dec.toNat_reverse_cons, Dec.toNat_reverse_cons]; omega
    | succ d =>
      simp only [borrow]
      refine ⟨?_, ?_⟩
      · intro e he
        simp at he
        rcases he with rfl | he
        · omega
        · exact hr' e he
      · rw [Dec.toNat_reverse_cons, Dec.toNat_reverse_cons]; omega

theorem calculusSubtraction_spec (s : Dec) (b : Nat) (hs : s.Canonical) (_hb : b < 10)
    (h : b ≤ s.toNat) :
    (calculusSubtraction s b).Canonical ∧ (calculusSubtraction s b).toNat = s.toNat - b := by
  have hsr : s = s.reverse.reverse := by simp
  have hd : ∀ d ∈ s.reverse, d < 10 := fun d hd => hs.digits d (by simpa using hd)
  rw [hsr] at h
  rw [show Dec.toNat s = Dec.toNat s.reverse.reverse by rw [← hsr]]
  unfold calculusSubtraction
  generalize s.reverse = r at hd h
  match r, hd, h with
  | [], _, h =>
    simp only
    exact ⟨Dec.canonical_zero, by simp [Dec.toNat]⟩
  | last :: pre, hd, h =>
    simp only
    have hl := hd last (by simp)
    have hp : ∀ e ∈ pre, e < 10 := fun q hq => hd q (by simp [hq])
    rw [Dec.toNat_reverse_cons] at h ⊢
    split
    · refine ⟨canonical_stripZeros _ ?_, ?_⟩
      · intro e he
        simp at he
        rcases he with he | rfl
        · exact hp e he
        · omega
      · rw [toNat_stripZeros, Dec.toNat_append_single]; omega
    · obtain ⟨b1, b2⟩ := borrow_spec pre hp (by omega)
      refine ⟨canonical_stripZeros _ ?_, ?_⟩
      · intro e he
        simp at he
        rcases he with he | rfl
        · exact b1 e he
        · omega
      · rw [toNat_stripZeros, Dec.toNat_append_single]; omega

/-! ## rendering of a natural number -/

theorem Dec.ofNat_lt (n : Nat) (h : n < 10) : Dec.ofNat n = [n] := by
  unfold Dec.ofNat
  rw [Nat.toDigits_of_lt_base h]
  simp [Nat.toNat_digitChar_sub_48_of_lt_ten h]

theorem Dec.ofNat_ge (n : Nat) (h : 10 ≤ n) : Dec.ofNat n = Dec.ofNat (n / 10) ++ [n % 10] := by
  unfold Dec.ofNat
  rw [Nat.toDigits_of_base_le (by omega) h]
  simp [Nat.toNat_digitChar_sub_48_of_lt_ten (Nat.mod_lt n (by omega : 0 < 10))]

theorem Dec.ofNat_spec (n : Nat) :
    (∀ d ∈ Dec.ofNat n, d < 10) ∧ Dec.toNat (Dec.ofNat n) = n ∧
    (1 ≤ n → (Dec.ofNat n).head? ≠ some 0) ∧ Dec.ofNat n ≠ [] := by
  induction n using Nat.strongRecOn with
  | _ n ih =>
    by_cases h : n < 10
    · rw [Dec.ofNat_lt n h]
      refine ⟨by simpa using h, Dec.toNat_single n, ?_, by simp⟩
      intro h1
      simp
      omega
    · have h : 10 ≤ n := by omega
      obtain ⟨i1, i2, i3, i4⟩ := ih (n / 10) (by omega)
      rw [Dec.ofNat_ge n h]
      refine ⟨?_, ?_, ?_, by simp⟩
      · intro d hd
        simp at hd
        rcases hd with hd | rfl
        · exact i1 d hd
        · omega
      · rw [Dec.toNat_append_single, i2]; omega
      · intro _
        have := i3 (by omega)
        cases hq : Dec.ofNat (n / 10) with
        | nil => exact absurd hq i4
        | cons a l => rw [hq] at this; simpa using this

theorem Dec.ofNat_canonical (n : Nat) : (Dec.ofNat n).Canonical ∧ Dec.toNat (Dec.ofNat n) = n := by
  obtain ⟨h1, h2, h3, h4⟩ := Dec.ofNat_spec n
  refine ⟨⟨h1, h4, ?_⟩, h2⟩
  intro h0
  by_cases hn : 1 ≤ n
  · exact absurd h0 (h3 hn)
  · have : n = 0 := by omega
    subst this
    rw [Dec.ofNat_lt 0 (by omega)]

end Dsw
