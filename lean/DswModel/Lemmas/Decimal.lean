import DswModel.Model.Operation
/-!
Helper lemmas for the decimal-string arithmetic (`calculus_*`). May import single Mathlib
modules (e.g. `Mathlib.Tactic.Ring`) if needed — never `import Mathlib`.
-/
namespace Dsw

/-- digits only, non-empty, no leading zero unless the string is `"0"`. -/
def Dec.Canonical (s : Dec) : Prop :=
  (∀ d ∈ s, d < 10) ∧ s ≠ [] ∧ (s.head? = some 0 → s = [0])

instance (s : Dec) : Decidable s.Canonical := by unfold Dec.Canonical; infer_instance

end Dsw
