import DswModel.Model.Float
import Mathlib.Tactic.Linarith
/-!
# Lemmas about the double-precision rounding model (`Model/Float.lean`)

What the property theorems need from `roundDouble` (round to nearest, ties to even, on exact rationals):
results are well-formed fractions, integers of magnitude ≤ 2^53 are fixed points, and rounding is monotone
with respect to such integers (a value ≥ n rounds to a double ≥ n, a value ≤ n to a double ≤ n).
(Single small Mathlib modules may be imported here if needed; the model file itself stays core-only.)

Structure: `rne` (the round-half-even step of `roundPos`) is monotone w.r.t. integers (`rne_ge`, `rne_le`);
`ratLog2_lower` (the only fact needed about the exponent: `d * 2^L ≤ n` for `L ≥ 0`); `roundPos_ge` /
`roundPos_le` (monotonicity of the positive rounding w.r.t. integers ≤ 2^53, in the cross-multiplied form
`N * magDen ≤ magNum`); `roundDouble_some` (shape of a result); then the interface lemmas.
-/
namespace Dsw

/-! ## the round-half-even step -/

/-- the rounding step of `roundPos`: `num / den` rounded to the nearest natural, ties to even. -/
def rne (num den : Nat) : Nat :=
  let m := num / den
  let r := num % den
  if 2 * r > den ∨ (2 * r = den ∧ m % 2 = 1) then m + 1 else m

theorem rne_ge {J num den : Nat} (hd : 0 < den) (h : J * den ≤ num) : J ≤ rne num den := by
  have h1 : J ≤ num / den := (Nat.le_div_iff_mul_le hd).2 h
  unfold rne
  simp only
  split <;> omega

theorem rne_le {J num den : Nat} (hd : 0 < den) (h : num ≤ J * den) : rne num den ≤ J := by
  have h1 : num / den ≤ J := by
    have : num / den * den ≤ J * den := Nat.le_trans (Nat.div_mul_le_self num den) h
    exact Nat.le_of_mul_le_mul_right this hd
  rcases Nat.lt_or_eq_of_le h1 with hlt | heq
  · unfold rne
    simp only
    split <;> omega
  · have hr : num % den = 0 := by
      have h2 := Nat.div_add_mod num den
      rw [heq, Nat.mul_comm] at h2
      omega
    unfold rne
    simp only [hr]
    split <;> omega

/-! ## the exponent -/

/-- the lower half of the specification of `ratLog2`: `2^L ≤ n/d` (for `L ≥ 0`; all that is needed below). -/
theorem ratLog2_lower {n d : Nat} (hn : 0 < n) (_hd : 0 < d) (hL : 0 ≤ ratLog2 n d) :
    d * 2 ^ (ratLog2 n d).toNat ≤ n := by
  have hn2 : 2 ^ n.log2 ≤ n := Nat.log2_self_le (by omega)
  have hd2 : d < 2 ^ (d.log2 + 1) := Nat.lt_log2_self
  unfold ratLog2 at hL ⊢
  simp only at hL ⊢
  by_cases h0 : (n.log2 : Int) - (d.log2 : Int) ≥ 0
  · simp only [h0, if_true] at hL ⊢
    by_cases h1 : n ≥ d * 2 ^ ((n.log2 : Int) - (d.log2 : Int)).toNat
    · simp only [h1, if_true] at hL ⊢
    · simp only [h1, if_false] at hL ⊢
      -- L = e0 - 1 ≥ 0
      have hab : d.log2 + 1 ≤ n.log2 := by omega
      have ht : ((n.log2 : Int) - (d.log2 : Int) - 1).toNat = n.log2 - (d.log2 + 1) := by omega
      rw [ht]
      have hp : 2 ^ (d.log2 + 1) * 2 ^ (n.log2 - (d.log2 + 1)) = 2 ^ n.log2 := by
        rw [← Nat.pow_add]; congr 1; omega
      have : d * 2 ^ (n.log2 - (d.log2 + 1)) ≤ 2 ^ (d.log2 + 1) * 2 ^ (n.log2 - (d.log2 + 1)) :=
        Nat.mul_le_mul_right _ (Nat.le_of_lt hd2)
      omega
  · simp only [h0, if_false] at hL
    split at hL <;> omega

/-! ## the positive rounding -/

theorem roundPos_eq (n d : Nat) :
    roundPos n d =
      (rne (if max (ratLog2 n d - 52) (-1074) < 0 then n * 2 ^ (-(max (ratLog2 n d - 52) (-1074))).toNat else n)
           (if max (ratLog2 n d - 52) (-1074) < 0 then d else d * 2 ^ (max (ratLog2 n d - 52) (-1074)).toNat),
       max (ratLog2 n d - 52) (-1074)) := rfl

/-- numerator of the value `m * 2^e` of a `roundPos` result, as a fraction `magNum / magDen`. -/
def magNum (p : Nat × Int) : Nat := if p.2 ≥ 0 then p.1 * 2 ^ p.2.toNat else p.1
/-- denominator of the value `m * 2^e`. -/
def magDen (p : Nat × Int) : Nat := if p.2 ≥ 0 then 1 else 2 ^ (-p.2).toNat

theorem magDen_pos (p : Nat × Int) : 0 < magDen p := by
  unfold magDen
  split
  · omega
  · exact Nat.pow_pos (by omega)

/-- for `e ≥ 1` the value is at least `2^(52+e)`: `d * 2^(e+52) ≤ n`. -/
theorem roundPos_big {n d : Nat} (hn : 0 < n) (hd : 0 < d) {e : Nat} (he : 1 ≤ e)
    (h : max (ratLog2 n d - 52) (-1074) = (e : Int)) : d * 2 ^ (e + 52) ≤ n := by
  have hL : ratLog2 n d = (e : Int) + 52 := by omega
  have := ratLog2_lower hn hd (by omega)
  rw [hL] at this
  have ht : ((e : Int) + 52).toNat = e + 52 := by omega
  rwa [ht] at this

theorem roundPos_ge {n d N : Nat} (hn : 0 < n) (hd : 0 < d) (hN : N ≤ 2 ^ 53) (h : N * d ≤ n) :
    N * magDen (roundPos n d) ≤ magNum (roundPos n d) := by
  rw [roundPos_eq]
  unfold magNum magDen
  simp only
  by_cases hneg : max (ratLog2 n d - 52) (-1074) < 0
  · have h1 : ¬ (max (ratLog2 n d - 52) (-1074) ≥ 0) := by omega
    simp only [hneg, h1, if_true, if_false]
    apply rne_ge hd
    calc N * 2 ^ (-(max (ratLog2 n d - 52) (-1074))).toNat * d
        = N * d * 2 ^ (-(max (ratLog2 n d - 52) (-1074))).toNat := by
          rw [Nat.mul_assoc, Nat.mul_comm _ d, ← Nat.mul_assoc]
      _ ≤ n * 2 ^ (-(max (ratLog2 n d - 52) (-1074))).toNat := Nat.mul_le_mul_right _ h
  · have h1 : max (ratLog2 n d - 52) (-1074) ≥ 0 := by omega
    simp only [hneg, h1, if_true, if_false]
    obtain ⟨e, he⟩ : ∃ e : Nat, max (ratLog2 n d - 52) (-1074) = (e : Int) :=
      ⟨(max (ratLog2 n d - 52) (-1074)).toNat, by omega⟩
    rw [he, Int.toNat_natCast, Nat.mul_one]
    rcases Nat.eq_zero_or_pos e with h0 | hpos
    · subst h0
      rw [Nat.pow_zero, Nat.mul_one, Nat.mul_one]
      exact rne_ge hd h
    · have hbig := roundPos_big hn hd hpos he
      have hde : 0 < d * 2 ^ e := Nat.mul_pos hd (Nat.pow_pos (by omega))
      have h52 : 2 ^ 52 ≤ rne n (d * 2 ^ e) := by
        apply rne_ge hde
        calc 2 ^ 52 * (d * 2 ^ e) = d * 2 ^ (e + 52) := by
              rw [Nat.pow_add, Nat.mul_comm (2 ^ 52), Nat.mul_assoc]
          _ ≤ n := hbig
      have h2e : 2 ≤ 2 ^ e := by
        calc 2 = 2 ^ 1 := rfl
          _ ≤ 2 ^ e := Nat.pow_le_pow_right (by omega) hpos
      calc N ≤ 2 ^ 53 := hN
        _ = 2 ^ 52 * 2 := by rfl
        _ ≤ rne n (d * 2 ^ e) * 2 ^ e := Nat.mul_le_mul h52 h2e

theorem roundPos_le {n d N : Nat} (hn : 0 < n) (hd : 0 < d) (hN : N ≤ 2 ^ 53) (h : n ≤ N * d) :
    magNum (roundPos n d) ≤ N * magDen (roundPos n d) := by
  rw [roundPos_eq]
  unfold magNum magDen
  simp only
  by_cases hneg : max (ratLog2 n d - 52) (-1074) < 0
  · have h1 : ¬ (max (ratLog2 n d - 52) (-1074) ≥ 0) := by omega
    simp only [hneg, h1, if_true, if_false]
    apply rne_le hd
    calc n * 2 ^ (-(max (ratLog2 n d - 52) (-1074))).toNat
        ≤ N * d * 2 ^ (-(max (ratLog2 n d - 52) (-1074))).toNat := Nat.mul_le_mul_right _ h
      _ = N * 2 ^ (-(max (ratLog2 n d - 52) (-1074))).toNat * d := by
          rw [Nat.mul_assoc, Nat.mul_comm d, ← Nat.mul_assoc]
  · have h1 : max (ratLog2 n d - 52) (-1074) ≥ 0 := by omega
    simp only [hneg, h1, if_true, if_false]
    obtain ⟨e, he⟩ : ∃ e : Nat, max (ratLog2 n d - 52) (-1074) = (e : Int) :=
      ⟨(max (ratLog2 n d - 52) (-1074)).toNat, by omega⟩
    rw [he, Int.toNat_natCast, Nat.mul_one]
    rcases Nat.eq_zero_or_pos e with h0 | hpos
    · subst h0
      rw [Nat.pow_zero, Nat.mul_one, Nat.mul_one]
      exact rne_le hd h
    · have hbig := roundPos_big hn hd hpos he
      -- d * 2^(e+52) ≤ n ≤ N * d ≤ 2^53 * d forces e = 1, N = 2^53
      have hNd : N * d ≤ 2 ^ 53 * d := Nat.mul_le_mul_right _ hN
      have hpw : 2 ^ (e + 52) ≤ N := by
        have : d * 2 ^ (e + 52) ≤ d * N := by rw [Nat.mul_comm d N]; omega
        exact Nat.le_of_mul_le_mul_left this hd
      have he1 : e = 1 := by
        by_contra hne
        have : 2 ^ 54 ≤ 2 ^ (e + 52) := Nat.pow_le_pow_right (by omega) (by omega)
        have h5 : (2 : Nat) ^ 53 < 2 ^ 54 := by decide
        omega
      subst he1
      have hN53 : N = 2 ^ 53 := by
        have : (2 : Nat) ^ (1 + 52) = 2 ^ 53 := rfl
        omega
      have : rne n (d * 2 ^ 1) ≤ 2 ^ 52 := by
        apply rne_le (by omega)
        calc n ≤ N * d := h
          _ = 2 ^ 52 * (d * 2 ^ 1) := by
            rw [hN53, Nat.mul_comm d, ← Nat.mul_assoc]; rfl
      rw [hN53]
      calc rne n (d * 2 ^ 1) * 2 ^ 1 ≤ 2 ^ 52 * 2 ^ 1 := Nat.mul_le_mul_right _ this
        _ = 2 ^ 53 := by rfl

/-- values of magnitude at most `2^53` get an exponent `e ≤ 1` (so they do not overflow). -/
theorem roundPos_exp_le {n d : Nat} (hn : 0 < n) (hd : 0 < d) (h : n ≤ 2 ^ 53 * d) :
    (roundPos n d).2 ≤ 1 := by
  rw [roundPos_eq]
  simp only
  by_contra hc
  have hL : 0 ≤ ratLog2 n d := by omega
  have hlow := ratLog2_lower hn hd hL
  have h54 : 2 ^ 54 ≤ 2 ^ (ratLog2 n d).toNat := Nat.pow_le_pow_right (by omega) (by omega)
  have h1 : d * 2 ^ 54 ≤ d * 2 ^ (ratLog2 n d).toNat := Nat.mul_le_mul_left _ h54
  have h2 : d * 2 ^ 54 = 2 * (2 ^ 53 * d) := by
    rw [Nat.mul_comm d, ← Nat.mul_assoc]; rfl
  omega

/-! ## `roundDouble` -/

/-- shape of a result for a non-zero value: sign times `magNum / magDen` of the positive rounding. -/
theorem roundDouble_some {num : Int} {den : Nat} {r : Dbl} (hnum : num ≠ 0) (hden : den ≠ 0)
    (h : roundDouble num den = some r) :
    r.num = (if num < 0 then -1 else 1) * (magNum (roundPos num.natAbs den) : Int) ∧
      r.den = magDen (roundPos num.natAbs den) := by
  unfold roundDouble at h
  have h0 : ¬ (num = 0 ∨ den = 0) := by omega
  simp only [h0, if_false] at h
  generalize roundPos num.natAbs den = p at h ⊢
  obtain ⟨m, e⟩ := p
  simp only at h
  unfold magNum magDen
  simp only
  split at h
  · cases h
  · split at h
    · rename_i he
      cases h
      simp only [he, if_true, and_self]
    · rename_i he
      cases h
      simp only [he, if_false, and_self]

theorem roundDouble_zero (den : Nat) : roundDouble 0 den = some ⟨0, 1⟩ := by
  unfold roundDouble
  simp only [true_or, if_true]

/-- no overflow for values of magnitude at most `2^53`. -/
theorem roundDouble_defined {num : Int} {den : Nat} (hden : 0 < den) (h : num.natAbs ≤ 2 ^ 53 * den) :
    ∃ r, roundDouble num den = some r := by
  by_cases hnum : num = 0
  · subst hnum
    exact ⟨_, roundDouble_zero den⟩
  · have he := roundPos_exp_le (n := num.natAbs) (d := den) (by omega) hden h
    unfold roundDouble
    have h0 : ¬ (num = 0 ∨ den = 0) := by omega
    simp only [h0, if_false]
    generalize roundPos num.natAbs den = p at he ⊢
    obtain ⟨m, e⟩ := p
    simp only at he ⊢
    have h1 : ¬ (e > 971 ∨ e = 971 ∧ m ≥ 2 ^ 53) := by omega
    simp only [h1, if_false]
    split <;> exact ⟨_, rfl⟩

/-- a result of `roundDouble` has a positive denominator. -/
theorem roundDouble_den_pos' {num : Int} {den : Nat} {r : Dbl} (h : roundDouble num den = some r) : 0 < r.den := by
  by_cases h0 : num = 0 ∨ den = 0
  · unfold roundDouble at h
    simp only [h0, if_true] at h
    cases h
    exact Nat.one_pos
  · have := (roundDouble_some (by omega) (by omega) h).2
    rw [this]
    exact magDen_pos _

/-- rounding is monotone with respect to an integer of magnitude ≤ 2^53: `n ≤ num/den → n ≤ fl(num/den)`. -/
theorem roundDouble_ge_int (n num : Int) (den : Nat) (r : Dbl) (hden : 0 < den) (hn : n.natAbs ≤ 2 ^ 53)
    (h : n * den ≤ num) (hr : roundDouble num den = some r) : n * r.den ≤ r.num := by
  by_cases hnum : num = 0
  · subst hnum
    rw [roundDouble_zero] at hr
    cases hr
    have hd : (0 : Int) < (den : Int) := by omega
    have : n ≤ 0 := by
      by_contra hc
      have : (0 : Int) < n * den := Int.mul_pos (by omega) hd
      omega
    simpa using this
  · obtain ⟨h1, h2⟩ := roundDouble_some hnum (by omega) hr
    have hdp := magDen_pos (roundPos num.natAbs den)
    rw [h1, h2]
    have hd : (0 : Int) < (den : Int) := by omega
    rcases Int.lt_or_gt_of_ne hnum with hneg | hpos
    · -- num < 0, so n < 0; reduce to `roundPos_le` with N = -n
      have hn0 : n < 0 := by
        by_contra hc
        have : (0 : Int) ≤ n * den := Int.mul_nonneg (by omega) (by omega)
        omega
      have hle : num.natAbs ≤ n.natAbs * den := by
        have e1 : (num.natAbs : Int) = -num := by omega
        have e2 : (n.natAbs : Int) = -n := by omega
        have : (num.natAbs : Int) ≤ (n.natAbs : Int) * (den : Int) := by
          rw [e1, e2, Int.neg_mul]; omega
        exact_mod_cast this
      have := roundPos_le (n := num.natAbs) (d := den) (N := n.natAbs) (by omega) hden hn hle
      have hc : (magNum (roundPos num.natAbs den) : Int) ≤
          (n.natAbs : Int) * (magDen (roundPos num.natAbs den) : Int) := by exact_mod_cast this
      have e2 : (n.natAbs : Int) = -n := by omega
      rw [e2, Int.neg_mul] at hc
      simp only [hneg, if_true]
      omega
    · simp only [show ¬ num < 0 by omega, if_false, Int.one_mul]
      by_cases hn0 : n ≤ 0
      · have : n * (magDen (roundPos num.natAbs den) : Int) ≤ 0 :=
          Int.mul_nonpos_of_nonpos_of_nonneg hn0 (by omega)
        omega
      · have hle : n.natAbs * den ≤ num.natAbs := by
          have e1 : (num.natAbs : Int) = num := by omega
          have e2 : (n.natAbs : Int) = n := by omega
          have : (n.natAbs : Int) * (den : Int) ≤ (num.natAbs : Int) := by
            rw [e1, e2]; exact h
          exact_mod_cast this
        have := roundPos_ge (n := num.natAbs) (d := den) (N := n.natAbs) (by omega) hden hn hle
        have hc : (n.natAbs : Int) * (magDen (roundPos num.natAbs den) : Int) ≤
            (magNum (roundPos num.natAbs den) : Int) := by exact_mod_cast this
        have e2 : (n.natAbs : Int) = n := by omega
        rwa [e2] at hc

/-- negating the value negates the result. -/
theorem roundDouble_neg {num : Int} {den : Nat} {r : Dbl} (hr : roundDouble num den = some r) :
    roundDouble (-num) den = some ⟨-r.num, r.den⟩ := by
  unfold roundDouble at hr ⊢
  by_cases h0 : num = 0 ∨ den = 0
  · have h0' : -num = 0 ∨ den = 0 := by omega
    simp only [h0, h0', if_true] at hr ⊢
    cases hr
    rfl
  · have h0' : ¬ (-num = 0 ∨ den = 0) := by omega
    simp only [h0, h0', if_false, Int.natAbs_neg] at hr ⊢
    generalize roundPos num.natAbs den = p at hr ⊢
    obtain ⟨m, e⟩ := p
    simp only at hr ⊢
    by_cases hov : e > 971 ∨ (e = 971 ∧ m ≥ 2 ^ 53)
    · simp only [hov, if_true] at hr
      cases hr
    · simp only [hov, if_false] at hr ⊢
      by_cases hneg : num < 0
      · have hneg' : ¬ (-num < 0) := by omega
        simp only [hneg, hneg', if_true, if_false] at hr ⊢
        by_cases he : e ≥ 0
        · simp only [he, if_true] at hr ⊢
          cases hr
          simp
        · simp only [he, if_false] at hr ⊢
          cases hr
          simp
      · have hneg' : -num < 0 := by omega
        simp only [hneg, hneg', if_true, if_false] at hr ⊢
        by_cases he : e ≥ 0
        · simp only [he, if_true] at hr ⊢
          cases hr
          simp
        · simp only [he, if_false] at hr ⊢
          cases hr
          simp

/-- `num/den ≤ n → fl(num/den) ≤ n`. -/
theorem roundDouble_le_int (n num : Int) (den : Nat) (r : Dbl) (hden : 0 < den) (hn : n.natAbs ≤ 2 ^ 53)
    (h : num ≤ n * den) (hr : roundDouble num den = some r) : r.num ≤ n * r.den := by
  have := roundDouble_ge_int (-n) (-num) den ⟨-r.num, r.den⟩ hden (by rw [Int.natAbs_neg]; exact hn)
    (by rw [Int.neg_mul]; omega) (roundDouble_neg hr)
  simp only [Int.neg_mul] at this
  omega

/-- integers of magnitude at most 2^53 are doubles: rounding returns their exact value. -/
theorem roundDouble_int_exact (n : Int) (hn : n.natAbs ≤ 2 ^ 53) :
    ∃ r, roundDouble n 1 = some r ∧ r.num = n * r.den ∧ 0 < r.den := by
  obtain ⟨r, hr⟩ := roundDouble_defined (num := n) (den := 1) Nat.one_pos (by omega)
  refine ⟨r, hr, ?_, roundDouble_den_pos' hr⟩
  have h1 := roundDouble_ge_int n n 1 r Nat.one_pos hn (by simp) hr
  have h2 := roundDouble_le_int n n 1 r Nat.one_pos hn (by simp) hr
  omega

end Dsw
