import DswModel.Model.Spiderweb
import DswModel.Lemmas.Defs
/-! Helper lemmas about k-mers, vertex indices and de Bruijn sub-tables (C13). -/
namespace Dsw

/-! ## nucleotides -/

theorem nucIdx_nucChar (j : Nat) (hj : j < 4) : nucIdx (nucChar j) = some j := by
  have : j = 0 ∨ j = 1 ∨ j = 2 ∨ j = 3 := by omega
  rcases this with h | h | h | h <;> subst h <;> decide

theorem nucIdx_lt {c : Char} {j : Nat} (h : nucIdx c = some j) : j < 4 := by
  unfold nucIdx at h
  split at h
  · cases h; omega
  · split at h
    · cases h; omega
    · split at h
      · cases h; omega
      · split at h
        · cases h; omega
        · cases h

theorem nucChar_nucIdx {c : Char} {j : Nat} (h : nucIdx c = some j) : nucChar j = c := by
  unfold nucIdx at h
  split at h
  · cases h; subst_vars; rfl
  · split at h
    · cases h; subst_vars; rfl
    · split at h
      · cases h; subst_vars; rfl
      · split at h
        · cases h; subst_vars; rfl
        · cases h

theorem nucIdx_getD_lt (c : Char) : (nucIdx c).getD 0 < 4 := by
  cases h : nucIdx c with
  | none => simp
  | some j => simpa using nucIdx_lt h

theorem nucChar_nucIdx_getD {c : Char} (h : (nucIdx c).isSome = true) :
    nucChar ((nucIdx c).getD 0) = c := by
  cases h' : nucIdx c with
  | none => simp [h'] at h
  | some j => simpa using nucChar_nucIdx h'

theorem acgt_map_nucIdx :
    "ACGT".toList.map (fun c => (nucIdx c).getD 0) = List.range 4 := by decide

theorem acgt_map_comp {β} (g : Nat → β) :
    "ACGT".toList.map (fun c => g ((nucIdx c).getD 0)) = (List.range 4).map g := by
  rw [← acgt_map_nucIdx, List.map_map]; rfl

/-! ## powers of four -/

theorem four_pow_pos (k : Nat) : 0 < 4 ^ k := Nat.pow_pos (by omega)

theorem four_pow_succ (k : Nat) : 4 ^ (k + 1) = 4 * 4 ^ k := by
  rw [Nat.pow_succ, Nat.mul_comm]

/-- the `j`-th shift successor, split at the leading digit. -/
theorem shift_mod (P v j : Nat) (hj : j < 4) : (v * 4 + j) % (4 * P) = (v % P) * 4 + j := by
  rw [Nat.mod_mul]
  have h1 : (v * 4 + j) % 4 = j := by omega
  have h2 : (v * 4 + j) / 4 = v := by omega
  rw [h1, h2]; omega

theorem log4_four_pow (k : Nat) : log4 (4 ^ k) = k := by
  unfold log4
  have : (4 : Nat) ^ k = 2 ^ (2 * k) := by
    rw [Nat.pow_mul]
  rw [this, Nat.log2_two_pow]
  omega

/-! ## `kmerIdx` -/

theorem kmerIdx_nil : kmerIdx [] = 0 := rfl

theorem kmerIdx_foldl (s : List Char) (a : Nat) :
    s.foldl (fun n c => n * 4 + (nucIdx c).getD 0) a = a * 4 ^ s.length + kmerIdx s := by
  unfold kmerIdx
  induction s generalizing a with
  | nil => simp
  | cons x xs ih =>
    simp only [List.foldl_cons, List.length_cons]
    rw [ih (a * 4 + _), ih (0 * 4 + _)]
    simp [Nat.pow_succ, Nat.add_mul, Nat.mul_assoc, Nat.mul_comm 4, Nat.add_assoc]

theorem kmerIdx_append (s t : List Char) :
    kmerIdx (s ++ t) = kmerIdx s * 4 ^ t.length + kmerIdx t := by
  conv => lhs; unfold kmerIdx
  rw [List.foldl_append, kmerIdx_foldl]
  rfl

theorem kmerIdx_snoc (s : List Char) (c : Char) :
    kmerIdx (s ++ [c]) = kmerIdx s * 4 + (nucIdx c).getD 0 := by
  rw [kmerIdx_append]; simp [kmerIdx]

theorem kmerIdx_cons (c : Char) (s : List Char) :
    kmerIdx (c :: s) = (nucIdx c).getD 0 * 4 ^ s.length + kmerIdx s := by
  have := kmerIdx_append [c] s
  simpa [kmerIdx] using this

theorem kmerIdx_lt (s : List Char) : kmerIdx s < 4 ^ s.length := by
  induction s with
  | nil => simp [kmerIdx]
  | cons c s ih =>
    rw [kmerIdx_cons]
    have hc := nucIdx_getD_lt c
    have : (nucIdx c).getD 0 * 4 ^ s.length ≤ 3 * 4 ^ s.length := Nat.mul_le_mul_right _ (by omega)
    simp only [List.length_cons, four_pow_succ]
    omega

theorem kmerIdx_replicate_A (n : Nat) : kmerIdx (List.replicate n 'A') = 0 := by
  induction n with
  | zero => rfl
  | succ n ih =>
    rw [List.replicate_succ, kmerIdx_cons, ih]
    simp [nucIdx]

/-! ## `digitsNat`, `padDna`, `kmerOf` -/

theorem digitsNat_zero (b : Nat) (acc : List Nat) : digitsNat b 0 acc = acc := by
  rw [digitsNat]; simp

theorem digitsNat_four_pos (n : Nat) (hn : n ≠ 0) (acc : List Nat) :
    digitsNat 4 n acc = digitsNat 4 (n / 4) (n % 4 :: acc) := by
  rw [digitsNat]; simp [hn]

theorem digitsNat_four_acc (n : Nat) (acc : List Nat) :
    digitsNat 4 n acc = digitsNat 4 n [] ++ acc := by
  induction n using Nat.strongRecOn generalizing acc with
  | _ n ih =>
    by_cases hn : n = 0
    · subst hn; simp [digitsNat_zero]
    · rw [digitsNat_four_pos n hn, digitsNat_four_pos n hn []]
      rw [ih (n / 4) (by omega) (n % 4 :: acc), ih (n / 4) (by omega) [n % 4]]
      simp

theorem digitsNat_four_step (v d : Nat) (hd : d < 4) (h : v * 4 + d ≠ 0) :
    digitsNat 4 (v * 4 + d) [] = digitsNat 4 v [] ++ [d] := by
  rw [digitsNat_four_pos _ h]
  have h1 : (v * 4 + d) / 4 = v := by omega
  have h2 : (v * 4 + d) % 4 = d := by omega
  rw [h1, h2, digitsNat_four_acc]

theorem digitsNat_four_length_le (k v : Nat) (h : v < 4 ^ k) : (digitsNat 4 v []).length ≤ k := by
  induction k generalizing v with
  | zero =>
    have : v = 0 := by simpa using h
    subst this; simp [digitsNat_zero]
  | succ k ih =>
    by_cases hv : v = 0
    · subst hv; simp [digitsNat_zero]
    · have hv' : v = (v / 4) * 4 + v % 4 := by omega
      rw [hv', digitsNat_four_step _ _ (by omega) (by omega)]
      rw [four_pow_succ] at h
      have := ih (v / 4) (by omega)
      simp; omega

theorem kmerOf_zero (k : Nat) : kmerOf k 0 = List.replicate k 'A' := by
  simp [kmerOf, numberToDnaInt, padDna, digitsNat_zero]

/-- the key recursion: appending a base-4 digit appends a nucleotide. -/
theorem kmerOf_succ (k v d : Nat) (hd : d < 4) (hv : v < 4 ^ k) :
    kmerOf (k + 1) (v * 4 + d) = kmerOf k v ++ [nucChar d] := by
  by_cases h : v * 4 + d = 0
  · have hv0 : v = 0 := by omega
    have hd0 : d = 0 := by omega
    subst hv0 hd0
    simp only [Nat.zero_mul, Nat.add_zero, kmerOf_zero]
    rw [List.replicate_succ']; rfl
  · have hl := digitsNat_four_length_le k v hv
    simp only [kmerOf, numberToDnaInt, padDna]
    rw [digitsNat_four_step v d hd h]
    simp only [List.length_append, List.length_singleton, List.map_append, List.map_cons,
      List.map_nil, List.append_assoc]
    congr 2
    omega

theorem kmerOf_succ' (k v : Nat) (hv : v < 4 ^ (k + 1)) :
    kmerOf (k + 1) v = kmerOf k (v / 4) ++ [nucChar (v % 4)] := by
  rw [four_pow_succ] at hv
  have h := kmerOf_succ k (v / 4) (v % 4) (by omega) (by omega)
  have hv' : (v / 4) * 4 + v % 4 = v := by omega
  rwa [hv'] at h

theorem kmerOf_length (k v : Nat) (h : v < 4 ^ k) : (kmerOf k v).length = k := by
  induction k generalizing v with
  | zero =>
    have : v = 0 := by simpa using h
    subst this; simp [kmerOf_zero]
  | succ k ih =>
    rw [kmerOf_succ' k v h]
    rw [four_pow_succ] at h
    simp [ih (v / 4) (by omega)]

theorem kmerOf_acgt (k v : Nat) (h : v < 4 ^ k) : IsAcgt (kmerOf k v) := by
  induction k generalizing v with
  | zero =>
    have : v = 0 := by simpa using h
    subst this; simp [kmerOf_zero, IsAcgt]
  | succ k ih =>
    rw [kmerOf_succ' k v h]
    rw [four_pow_succ] at h
    intro c hc
    rcases List.mem_append.1 hc with hc | hc
    · exact ih (v / 4) (by omega) c hc
    · have : c = nucChar (v % 4) := by simpa using hc
      subst this
      rw [nucIdx_nucChar _ (by omega)]; rfl

theorem kmerIdx_kmerOf (k v : Nat) (h : v < 4 ^ k) : kmerIdx (kmerOf k v) = v := by
  induction k generalizing v with
  | zero =>
    have : v = 0 := by simpa using h
    subst this; simp [kmerOf_zero, kmerIdx]
  | succ k ih =>
    rw [kmerOf_succ' k v h, kmerIdx_snoc]
    rw [four_pow_succ] at h
    rw [ih (v / 4) (by omega), nucIdx_nucChar _ (by omega)]
    simp; omega

theorem kmerOf_kmerIdx_aux (n : Nat) :
    ∀ s : List Char, s.length = n → IsAcgt s → kmerOf s.length (kmerIdx s) = s := by
  induction n with
  | zero =>
    intro s hl _
    have : s = [] := List.eq_nil_of_length_eq_zero hl
    subst this; simp [kmerIdx, kmerOf_zero]
  | succ n ih =>
    intro s hl hs
    rcases List.eq_nil_or_concat s with h | ⟨s', c, h⟩
    · subst h; simp at hl
    · rw [List.concat_eq_append] at h
      subst h
      have hl' : s'.length = n := by simpa using hl
      have hs' : IsAcgt s' := fun x hx => hs x (by simp [hx])
      have hc : (nucIdx c).isSome = true := hs c (by simp)
      rw [kmerIdx_snoc, List.length_append, List.length_singleton,
        kmerOf_succ _ _ _ (nucIdx_getD_lt c) (kmerIdx_lt s'), ih s' hl' hs', nucChar_nucIdx_getD hc]

theorem kmerOf_kmerIdx (s : List Char) (hs : IsAcgt s) : kmerOf s.length (kmerIdx s) = s :=
  kmerOf_kmerIdx_aux s.length s rfl hs

theorem nucValues_acgt (s : List Char) (hs : IsAcgt s) :
    nucValues s = .ok (s.map fun c => (nucIdx c).getD 0) := by
  induction s with
  | nil => rfl
  | cons c s ih =>
    have hc : (nucIdx c).isSome = true := hs c (by simp)
    have hs' : IsAcgt s := fun x hx => hs x (by simp [hx])
    cases h' : nucIdx c with
    | none => simp [h'] at hc
    | some j => simp [nucValues, h', ih hs', Except.map]

theorem dnaToNumberInt_acgt (s : List Char) (hs : IsAcgt s) :
    dnaToNumberInt s = .ok (kmerIdx s) := by
  simp [dnaToNumberInt, nucValues_acgt s hs, Except.map, kmerIdx, List.foldl_map]

/-- leading-digit split of a k-mer. -/
theorem kmerIdx_tail_kmerOf (k v : Nat) (h : v < 4 ^ (k + 1)) :
    kmerIdx (kmerOf (k + 1) v).tail = v % 4 ^ k := by
  have hl := kmerOf_length (k + 1) v h
  have hi := kmerIdx_kmerOf (k + 1) v h
  match hm : kmerOf (k + 1) v with
  | [] => rw [hm] at hl; simp at hl
  | c :: t =>
    rw [hm] at hl hi
    have hlt : t.length = k := by simpa using hl
    rw [kmerIdx_cons, hlt] at hi
    have := kmerIdx_lt t
    rw [hlt] at this
    simp only [List.tail_cons]
    rw [← hi, Nat.mul_add_mod_self_right, Nat.mod_eq_of_lt this]

theorem dropLast_kmerOf (k v : Nat) (h : v < 4 ^ (k + 1)) :
    (kmerOf (k + 1) v).dropLast = kmerOf k (v / 4) := by
  rw [kmerOf_succ' k v h]; simp

/-! ## reading accessors ("read-after-build") -/

theorem Acc.row_natCast (a : Acc) (v : Nat) : a.row (v : Int) = a.getD v #[] := by
  unfold Acc.row
  have h1 : ¬ ((v : Int) < 0) := by omega
  by_cases h : v < a.size
  · have h2 : (0 : Int) ≤ (v : Int) ∧ (v : Int) < (a.size : Int) := by omega
    simp [h1, h2]
  · have h2 : ¬ ((0 : Int) ≤ (v : Int) ∧ (v : Int) < (a.size : Int)) := by omega
    simp [h1, Array.getD, h]

theorem Acc.ent_natCast (a : Acc) (v j : Nat) :
    a.ent (v : Int) j = (a.getD v #[]).getD j (-1) := by
  unfold Acc.ent; rw [Acc.row_natCast]

theorem getD_range_map {α} (n : Nat) (f : Nat → α) (v : Nat) (d : α) (h : v < n) :
    ((Array.range n).map f).getD v d = f v := by
  simp [Array.getD, h]

theorem Acc.ent_range_map (n : Nat) (f : Nat → Array Int) (v j : Nat) (h : v < n) :
    Acc.ent ((Array.range n).map f) (v : Int) j = (f v).getD j (-1) := by
  rw [Acc.ent_natCast, getD_range_map n f v #[] h]

theorem Acc.row_range_map (n : Nat) (f : Nat → Array Int) (v : Nat) (h : v < n) :
    Acc.row ((Array.range n).map f) (v : Int) = f v := by
  rw [Acc.row_natCast, getD_range_map n f v #[] h]

theorem Acc.size_setEnt (a : Acc) (v j : Nat) (x : Int) : (a.setEnt v j x).size = a.size := by
  simp [Acc.setEnt]

theorem getD_setIfInBounds_self {α} (a : Array α) (v : Nat) (x d : α) (h : v < a.size) :
    (a.setIfInBounds v x).getD v d = x := by
  simp [Array.getD, h]

theorem getD_setIfInBounds_ne {α} (a : Array α) (v u : Nat) (x d : α) (h : v ≠ u) :
    (a.setIfInBounds v x).getD u d = a.getD u d := by
  by_cases hu : u < a.size
  · simp [Array.getD, hu, h]
  · simp [Array.getD, hu]

theorem getD_setIfInBounds_oob {α} (a : Array α) (v u : Nat) (x d : α) (h : a.size ≤ v) :
    (a.setIfInBounds v x).getD u d = a.getD u d := by
  rw [Array.setIfInBounds_eq_of_size_le h]

/-- row `u` after `setEnt v j x`. -/
theorem Acc.getD_setEnt (a : Acc) (v j u : Nat) (x : Int) :
    (a.setEnt v j x).getD u #[] =
      if u = v then (a.getD v #[]).setIfInBounds j x else a.getD u #[] := by
  unfold Acc.setEnt
  by_cases huv : u = v
  · subst huv
    by_cases h : u < a.size
    · simp [getD_setIfInBounds_self _ _ _ _ h]
    · rw [getD_setIfInBounds_oob _ _ _ _ _ (by omega)]
      have : a.getD u #[] = #[] := by simp [Array.getD, h]
      simp [this]
  · rw [getD_setIfInBounds_ne _ _ _ _ _ (Ne.symm huv)]
    simp [huv]

/-- same cell. -/
theorem Acc.ent_setEnt_self (a : Acc) (v j : Nat) (x : Int)
    (hj : j < (a.getD v #[]).size) : (a.setEnt v j x).ent (v : Int) j = x := by
  rw [Acc.ent_natCast, Acc.getD_setEnt, if_pos rfl]
  exact getD_setIfInBounds_self _ _ _ _ hj

/-- other cell. -/
theorem Acc.ent_setEnt_ne (a : Acc) (v j u i : Nat) (x : Int) (h : u ≠ v ∨ i ≠ j) :
    (a.setEnt v j x).ent (u : Int) i = a.ent (u : Int) i := by
  rw [Acc.ent_natCast, Acc.ent_natCast, Acc.getD_setEnt]
  by_cases huv : u = v
  · subst huv
    have hij : i ≠ j := by
      rcases h with h | h
      · exact absurd rfl h
      · exact h
    simp [getD_setIfInBounds_ne _ _ _ _ _ (Ne.symm hij)]
  · simp [huv]

/-! ## de Bruijn sub-tables -/

/-- row `v` of an order-`k` de Bruijn sub-table. -/
def RowOK (k v : Nat) (r : Array Int) : Prop :=
  r.size = 4 ∧ ∀ j : Nat, j < 4 → r.getD j (-1) = -1 ∨ r.getD j (-1) = ((v * 4 + j) % 4 ^ k : Nat)

theorem wfdb_iff_rowOK (k : Nat) (a : Acc) :
    WFdB k a ↔ a.size = 4 ^ k ∧ ∀ v : Nat, v < 4 ^ k → RowOK k v (a.getD v #[]) := by
  unfold WFdB RowOK
  simp only [Acc.ent_natCast]

theorem rowOK_replicate (k v : Nat) : RowOK k v (Array.replicate 4 (-1)) := by
  refine ⟨by simp, fun j hj => Or.inl ?_⟩
  simp [Array.getD, hj]

theorem rowOK_setIfInBounds (k v j : Nat) (r : Array Int) (x : Int) (hr : RowOK k v r)
    (hx : x = -1 ∨ x = ((v * 4 + j) % 4 ^ k : Nat)) : RowOK k v (r.setIfInBounds j x) := by
  refine ⟨by simpa using hr.1, fun i hi => ?_⟩
  by_cases hij : j = i
  · subst hij
    rw [getD_setIfInBounds_self _ _ _ _ (by rw [hr.1]; exact hi)]
    exact hx
  · rw [getD_setIfInBounds_ne _ _ _ _ _ hij]
    exact hr.2 i hi

theorem obtainLatters_length (k v : Nat) : (obtainLatters k v).length = 4 := by
  simp [obtainLatters]

theorem obtainLatters_getElem (k v j : Nat) (hj : j < (obtainLatters k v).length) :
    (obtainLatters k v)[j] = (v * 4 + j) % 4 ^ k := by
  simp [obtainLatters]

theorem mem_obtainLatters (k v w : Nat) :
    w ∈ obtainLatters k v ↔ ∃ j, j < 4 ∧ w = (v * 4 + j) % 4 ^ k := by
  simp only [obtainLatters, List.mem_map, List.mem_range]
  constructor
  · rintro ⟨j, hj, rfl⟩; exact ⟨j, hj, rfl⟩
  · rintro ⟨j, hj, rfl⟩; exact ⟨j, hj, rfl⟩

theorem mem_obtainFormers (k v u : Nat) :
    u ∈ obtainFormers k v ↔ ∃ j, j < 4 ∧ u = v / 4 + j * 4 ^ (k - 1) := by
  simp only [obtainFormers, List.mem_map, List.mem_range]
  constructor
  · rintro ⟨j, hj, rfl⟩; exact ⟨j, hj, rfl⟩
  · rintro ⟨j, hj, rfl⟩; exact ⟨j, hj, rfl⟩

theorem getD_map_toArray {α β} (l : List α) (f : α → β) (j : Nat) (d : β) (hj : j < l.length) :
    (l.map f).toArray.getD j d = f l[j] := by
  simp [Array.getD, hj]

/-- a row built from the successor list by keeping some of the successors. -/
theorem rowOK_latters (k v : Nat) (p : Nat → Bool) :
    RowOK k v ((obtainLatters k v).map fun w => if p w then Int.ofNat w else -1).toArray := by
  refine ⟨by simp [obtainLatters], fun j hj => ?_⟩
  have hj' : j < (obtainLatters k v).length := by rw [obtainLatters_length]; exact hj
  rw [getD_map_toArray _ _ _ _ hj', obtainLatters_getElem]
  by_cases hp : p ((v * 4 + j) % 4 ^ k) = true
  · right; rw [if_pos hp]; rfl
  · left; rw [if_neg hp]

theorem rowOK_latters_all (k v : Nat) :
    RowOK k v ((obtainLatters k v).map Int.ofNat).toArray := by
  have := rowOK_latters k v (fun _ => true)
  simpa only [reduceIte] using this

theorem wfdb_range_map (k : Nat) (f : Nat → Array Int)
    (h : ∀ v : Nat, v < 4 ^ k → RowOK k v (f v)) : WFdB k ((Array.range (4 ^ k)).map f) := by
  rw [wfdb_iff_rowOK]
  refine ⟨by simp, fun v hv => ?_⟩
  rw [getD_range_map _ _ _ _ hv]
  exact h v hv

/-- replacing a whole row by a legal row. -/
theorem wfdb_setIfInBounds_row (k : Nat) (a : Acc) (v : Nat) (r : Array Int)
    (h : WFdB k a) (hr : RowOK k v r) : WFdB k (a.setIfInBounds v r) := by
  rw [wfdb_iff_rowOK] at h ⊢
  refine ⟨by simpa using h.1, fun u hu => ?_⟩
  by_cases hvu : v = u
  · subst hvu
    rw [getD_setIfInBounds_self _ _ _ _ (by rw [h.1]; exact hu)]
    exact hr
  · rw [getD_setIfInBounds_ne _ _ _ _ _ hvu]
    exact h.2 u hu

/-- writing `-1` or the `j`-th successor into cell `(v, j)`. -/
theorem wfdb_setEnt (k : Nat) (a : Acc) (v j : Nat) (x : Int) (h : WFdB k a)
    (hx : x = -1 ∨ x = ((v * 4 + j) % 4 ^ k : Nat)) : WFdB k (a.setEnt v j x) := by
  by_cases hv : v < 4 ^ k
  · unfold Acc.setEnt
    apply wfdb_setIfInBounds_row k a v _ h
    exact rowOK_setIfInBounds k v j _ x (((wfdb_iff_rowOK k a).1 h).2 v hv) hx
  · unfold Acc.setEnt
    rw [Array.setIfInBounds_eq_of_size_le (by rw [h.1]; omega)]
    exact h

theorem wfdb_replicate (k : Nat) : WFdB k (Array.replicate (4 ^ k) (Array.replicate 4 (-1))) := by
  rw [wfdb_iff_rowOK]
  refine ⟨by simp, fun v hv => ?_⟩
  have : (Array.replicate (4 ^ k) (Array.replicate 4 (-1 : Int))).getD v #[] =
      Array.replicate 4 (-1) := by simp [Array.getD, hv]
  rw [this]; exact rowOK_replicate k v

theorem wfdb_complete (k : Nat) : WFdB k (getCompleteAccessor k) :=
  wfdb_range_map k _ fun v _ => rowOK_latters_all k v

theorem wfdb_induced (k : Nat) (m : Mask) : WFdB k (inducedAccessor k m) := by
  apply wfdb_range_map
  intro v _
  split
  · exact rowOK_latters k v (fun w => m.getD w false)
  · exact rowOK_replicate k v

/-! ## loops preserve the invariant -/

theorem foldl_invariant {σ α} (P : σ → Prop) (g : σ → α → σ) (l : List α)
    (hg : ∀ s, ∀ x ∈ l, P s → P (g s x)) (s : σ) (hs : P s) : P (l.foldl g s) := by
  induction l generalizing s with
  | nil => exact hs
  | cons x xs ih =>
    rw [List.foldl_cons]
    exact ih (fun s y hy => hg s y (by simp [hy])) _ (hg s x (by simp) hs)

theorem wfdb_cascade (k f : Nat) (pairs : List (Nat × Nat)) (a : Acc) (h : WFdB k a) :
    WFdB k (cascade k f pairs a) := by
  induction f generalizing pairs a with
  | zero => simpa [cascade] using h
  | succ f ih =>
    rw [cascade]
    split
    · exact h
    · apply ih
      apply foldl_invariant (fun st : Acc × List (Nat × Nat) => WFdB k st.1)
      · intro st fl _ hst
        exact wfdb_setEnt k _ _ _ _ hst (Or.inl rfl)
      · exact h

theorem wfdb_removeVertex (k : Nat) (a : Acc) (u : Nat) (h : WFdB k a) :
    WFdB k (removeVertex k a u) := by
  unfold removeVertex
  exact wfdb_cascade k _ _ _ (wfdb_setIfInBounds_row k a u _ h (rowOK_replicate k u))

theorem wfdb_thresholdOneLoop (k f : Nat) (a : Acc) (r : List Nat × Acc) (h : WFdB k a)
    (hr : thresholdOneLoop k f a = .ok r) : WFdB k r.2 := by
  induction f generalizing a with
  | zero => simp [thresholdOneLoop] at hr
  | succ f ih =>
    rw [thresholdOneLoop] at hr
    simp only at hr
    split at hr
    · cases hr
    · split at hr
      · cases hr; exact h
      · refine ih _ ?_ hr
        exact foldl_invariant (WFdB k) _ _ (fun s u _ hs => wfdb_removeVertex k s u hs) a h

theorem wfdb_connectCodingGraph (k : Nat) (m : Mask) (t : Nat) (r : List Nat × Acc)
    (h : connectCodingGraph k m t = .ok r) : WFdB k r.2 := by
  unfold connectCodingGraph at h
  cases hm : trimLoop k t (4 ^ k + 1) m with
  | error e => simp [hm, bind, Except.bind] at h
  | ok m' =>
    simp only [hm, bind, Except.bind] at h
    split at h
    · exact wfdb_thresholdOneLoop k _ _ r (wfdb_induced k m') h
    · cases h; exact wfdb_induced k m'

theorem wfdb_removeNastyArc (k : Nat) (a : Acc) (lm : LMap) (ins del : Bool) (r : RemoveResult)
    (hw : WFdB k a) (h : removeNastyArc a lm ins del = .ok r) : WFdB k r.acc := by
  unfold removeNastyArc at h
  simp only at h
  split at h
  · cases h
  · split at h
    · cases h
    · split at h
      · split at h
        · cases h
        · cases h; exact wfdb_setEnt k _ _ _ _ hw (Or.inl rfl)
      · cases h

/-- a shift successor sits in the column given by its last digit. -/
theorem latter_column (k v w : Nat) (h : w ∈ obtainLatters k v) :
    (v * 4 + w % 4) % 4 ^ k = w := by
  rcases (mem_obtainLatters k v w).1 h with ⟨j, hj, rfl⟩
  cases k with
  | zero => simp [Nat.mod_one]
  | succ k =>
    rw [four_pow_succ, shift_mod _ _ _ hj]
    have : ((v % 4 ^ k) * 4 + j) % 4 = j := by omega
    rw [this, shift_mod _ _ _ hj]

theorem wfdb_latterMap_fold (k : Nat) (lm : LMap)
    (hl : ∀ p ∈ lm, ∀ w ∈ p.2, w ∈ obtainLatters k p.1) (a : Acc) (h : WFdB k a) :
    WFdB k (lm.foldl (fun acc p => p.2.foldl (fun acc w => acc.setEnt p.1 (w % 4) w) acc) a) := by
  apply foldl_invariant (WFdB k) _ _ _ a h
  intro s p hp hs
  apply foldl_invariant (WFdB k) _ _ _ s hs
  intro s' w hw hs'
  apply wfdb_setEnt k _ _ _ _ hs'
  right
  rw [latter_column k p.1 w (hl p hp w hw)]

theorem wfdb_latterMapToAccessor (k : Nat) (lm : LMap) (a : Acc)
    (hl : ∀ p ∈ lm, ∀ w ∈ p.2, w ∈ obtainLatters k p.1)
    (h : latterMapToAccessor lm k none = .ok a) : WFdB k a := by
  unfold latterMapToAccessor at h
  simp only [bind, Except.bind, pure, Except.pure] at h
  split at h
  · cases h
  · cases h
    exact wfdb_latterMap_fold k lm hl _ (wfdb_replicate k)

/-- a `foldlM` that pushes one row per element (or fails) returns the mapped list. -/
theorem foldlM_push_eq {ε α β} (c : α → Bool) (g : α → β) (e : ε) (l : List α) (acc a : Array β)
    (h : l.foldlM (fun acc v => if c v then Except.ok (acc.push (g v)) else Except.error e) acc
      = .ok a) : a = acc ++ (l.map g).toArray := by
  induction l generalizing acc with
  | nil =>
    simp only [List.foldlM_nil, pure, Except.pure] at h
    cases h; simp
  | cons x xs ih =>
    simp only [List.foldlM_cons, bind, Except.bind] at h
    by_cases hc : c x = true
    · simp only [hc, if_true] at h
      rw [ih _ h]; simp
    · simp only [hc] at h
      cases h

theorem wfdb_adjacencyMatrixToAccessor (k : Nat) (mx : Matrix) (a : Acc) (hs : mx.size = 4 ^ k)
    (h : adjacencyMatrixToAccessor mx = .ok a) : WFdB k a := by
  unfold adjacencyMatrixToAccessor at h
  simp only [hs, log4_four_pow] at h
  have := foldlM_push_eq _ _ _ _ _ _ h
  subst this
  rw [wfdb_iff_rowOK]
  refine ⟨by simp, fun v hv => ?_⟩
  have : ∀ g : Nat → Array Int,
      ((#[] : Acc) ++ ((List.range (4 ^ k)).map g).toArray).getD v #[] = g v := by
    intro g; simp [Array.getD, hv]
  rw [this]
  exact rowOK_latters k v _

end Dsw
