import DswModel.Model.Spiderweb
import DswModel.Lemmas.Defs
/-! Helper lemmas about k-mers, vertex indices and de Bruijn sub-tables (C13). -/
namespace Dsw

end Dsw
