import DswModel.Model.Spiderweb
import DswModel.Lemmas.Defs
/-!
Shared declarative definitions for the coder properties (C01, C04, C05, C06, C18). Stable.
-/
namespace Dsw

/-- sort key of column `j` at vertex `v`: the column itself (A<C<G<T) without a table, the table
entry with one. -/
def arcKey (tbl : Option Tbl) (v : Int) (j : Nat) : Int :=
  match tbl with
  | none => (j : Int)
  | some t => (Acc.row t v).getD j 0

/-- the documented digit of a live arc: its rank among the live arcs of the vertex, i.e. the
number of live arcs with a strictly smaller key. -/
def arcRank (a : Acc) (tbl : Option Tbl) (v : Int) (j : Nat) : Nat :=
  ((a.live v).filter fun j' => decide (arcKey tbl v j' < arcKey tbl v j)).length

/-- the digit the decoder computes for column `j` at vertex `v`. -/
def arcDigit (a : Acc) (tbl : Option Tbl) (v : Int) (j : Nat) : Nat :=
  posToDigit tbl v (a.live v) ((a.live v).idxOf j)

/-- row `v` of the table restricted to the live columns has pairwise distinct entries (true for
every row that is a permutation of 0..3). -/
def DistinctKeys (a : Acc) (tbl : Option Tbl) (v : Int) : Prop :=
  ((a.live v).map (arcKey tbl v)).Nodup

/-- every row of the table is a permutation of 0, 1, 2, 3. -/
def Tbl.PermRows (t : Tbl) : Prop :=
  ∀ r ∈ t.toList, r.toList.Perm [0, 1, 2, 3]

/-- out-degree of the vertex. -/
def Acc.outDeg (a : Acc) (v : Int) : Nat := (a.live v).length

/-- mixed-radix value of a walk, little-endian in the out-degrees met; vertices with one arc
contribute no digit. -/
def walkValue (a : Acc) (tbl : Option Tbl) : Int → List Char → Nat
  | _, [] => 0
  | v, c :: s =>
    let j := (nucIdx c).getD 0
    let rest := walkValue a tbl (a.ent v j) s
    if a.outDeg v > 1 then arcRank a tbl v j + a.outDeg v * rest else rest

/-- bits carried by a walk in fast mode: two per 4-way vertex (most significant first), one per
2-way vertex, none at a 1-way vertex. -/
def walkBits (a : Acc) (tbl : Option Tbl) : Int → List Char → List Nat
  | _, [] => []
  | v, c :: s =>
    let j := (nucIdx c).getD 0
    let d := arcRank a tbl v j
    (if a.outDeg v = 4 then [d / 2, d % 2] else if a.outDeg v = 2 then [d] else []) ++
      walkBits a tbl (a.ent v j) s

/-- the published normal-mode scheme, declaratively: `s` is a walk from `v`, its digit sequence
has value `val`, and no proper suffix is superfluous (every non-empty suffix has non-zero value —
this forces the empty strand for 0 and an information-carrying last nucleotide). -/
def IsEncoding (a : Acc) (tbl : Option Tbl) (v : Int) (val : Nat) (s : List Char) : Prop :=
  isWalk a v s = true ∧ walkValue a tbl v s = val ∧
  ∀ i, i < s.length → walkValue a tbl (walkEnd a v (s.take i)) (s.drop i) ≠ 0

/-- vertices reachable from `v` along arcs. -/
inductive Acc.Reach (a : Acc) : Int → Int → Prop
  | refl (v : Int) : Acc.Reach a v v
  | step (v : Int) (j : Nat) (w : Int) : j ∈ a.live v → Acc.Reach a (a.ent v j) w → Acc.Reach a v w

/-- the well-formedness the encoder needs from `v`: every reachable vertex is a row index, has an
arc, and can reach a branching vertex. -/
def Acc.GoodFrom (a : Acc) (v : Int) : Prop :=
  ∀ u, a.Reach v u → (0 ≤ u ∧ u < (a.size : Int)) ∧ a.outDeg u ≥ 1 ∧
    ∃ w, a.Reach u w ∧ a.outDeg w ≥ 2

/-- no reachable vertex has out-degree 3 (precondition of the fast mode). -/
def Acc.NoDeg3From (a : Acc) (v : Int) : Prop := ∀ u, a.Reach v u → a.outDeg u ≠ 3

end Dsw
