import DswModel.Model.Spiderweb
import DswModel.Lemmas.CoderDefs
import DswModel.Lemmas.CoderNormal
import DswModel.Lemmas.CoderFast
/-! Helper lemmas for C04 (step bound and tightness of the strand). -/
namespace Dsw.Tight

/-! ### every emitted nucleotide costs one unit of fuel, the final test one more -/

theorem encodeNat_length (a : Acc) (tbl : Option Tbl) : ∀ (f : Nat) (v : Int) (q : Nat)
    (s : List Char), encodeNat a tbl f v q = .ok s → s.length + 1 ≤ f := by
  intro f
  induction f with
  | zero => intro v q s h; cases h
  | succ f ih =>
    intro v q s h
    unfold encodeNat at h
    by_cases h0 : q = 0
    · simp only [h0, if_true] at h
      cases h
      simp
    · simp only [h0, if_false] at h
      by_cases h1 : a.outDeg v > 1
      · simp only [h1, if_true] at h
        obtain ⟨s', hs', rfl⟩ := cn_map_ok h
        have := ih _ _ _ hs'
        simp only [List.length_cons]
        omega
      · simp only [h1, if_false] at h
        by_cases h2 : a.outDeg v = 1
        · simp only [h2, if_true] at h
          obtain ⟨s', hs', rfl⟩ := cn_map_ok h
          have := ih _ _ _ hs'
          simp only [List.length_cons]
          omega
        · simp [h2] at h

theorem encodeFast_length (a : Acc) (tbl : Option Tbl) : ∀ (f : Nat) (v : Int) (bits : List Nat)
    (s : List Char), encodeFastLoop a tbl f v bits = .ok s → s.length + 1 ≤ f := by
  intro f
  induction f with
  | zero => intro v bits s h; simp [encodeFastLoop] at h
  | succ f ih =>
    intro v bits s h
    cases bits with
    | nil =>
      rw [cf_encode_nil h]
      simp
    | cons b0 rest =>
      rcases cf_encode_cons h with ⟨_, s', rfl, hs'⟩ | ⟨_, s', rfl, hs'⟩ | ⟨_, s', rfl, hs'⟩ <;>
      · have := ih _ _ _ hs'
        simp only [List.length_cons]
        omega

/-! ### tightness in normal mode -/

/-- out-degrees met along a walk (the same recursion as `radices` of C04). -/
def radicesT (a : Acc) : Int → List Char → List Nat
  | _, [] => []
  | v, c :: s => a.outDeg v :: radicesT a (a.ent v ((nucIdx c).getD 0)) s

theorem tight_last (a : Acc) (tbl : Option Tbl) : ∀ (s : List Char) (v : Int), s ≠ [] →
    TightD a tbl v s → 2 ≤ a.outDeg (walkEnd a v s.dropLast) := by
  intro s
  induction s with
  | nil => intro v h; exact absurd rfl h
  | cons c s ih =>
    intro v _ ht
    obtain ⟨hne, htt⟩ := (cn_tightD_cons_iff a tbl v c s).1 ht
    cases s with
    | nil =>
      simp only [List.dropLast, walkEnd]
      by_cases h1 : a.outDeg v > 1
      · omega
      · rw [cn_walkValueD_cons_forced h1] at hne
        exact absurd rfl hne
    | cons c' t =>
      have := ih _ (by simp) htt
      simpa [List.dropLast, walkEnd] using this

theorem foldl_mul (l : List Nat) (x : Nat) :
    l.foldl (· * ·) x = x * l.foldl (· * ·) 1 := by
  induction l generalizing x with
  | nil => simp
  | cons y l ih =>
    simp only [List.foldl_cons]
    rw [ih (x * y), ih (1 * y)]
    simp [Nat.mul_assoc]

theorem tight_prod (a : Acc) (tbl : Option Tbl) : ∀ (s : List Char) (v : Int), s ≠ [] →
    TightD a tbl v s →
    ((radicesT a v s.dropLast).filter (· > 1)).foldl (· * ·) 1 ≤ walkValueD a tbl v s := by
  intro s
  induction s with
  | nil => intro v h; exact absurd rfl h
  | cons c s ih =>
    intro v _ ht
    obtain ⟨hne, htt⟩ := (cn_tightD_cons_iff a tbl v c s).1 ht
    cases s with
    | nil =>
      simp only [List.dropLast, radicesT, List.filter_nil, List.foldl_nil]
      omega
    | cons c' t =>
      have hrec := ih _ (by simp) htt
      have hd : (c :: c' :: t).dropLast = c :: (c' :: t).dropLast := by simp [List.dropLast]
      rw [hd]
      simp only [radicesT]
      by_cases h1 : a.outDeg v > 1
      · rw [cn_walkValueD_cons_branch h1, List.filter_cons_of_pos (by simpa using h1),
          List.foldl_cons, foldl_mul, Nat.one_mul]
        have := Nat.mul_le_mul_left (a.outDeg v) hrec
        omega
      · rw [cn_walkValueD_cons_forced h1, List.filter_cons_of_neg (by simpa using h1)]
        exact hrec

/-- when every vertex met has at least `k ≥ 2` arcs, a tight walk of `n + 1` nucleotides has value
at least `k ^ n`. -/
theorem tight_pow (a : Acc) (tbl : Option Tbl) (k : Nat) (hk : 2 ≤ k) : ∀ (s : List Char) (v : Int),
    s ≠ [] → TightD a tbl v s →
    (∀ i, i < s.length → k ≤ a.outDeg (walkEnd a v (s.take i))) →
    k ^ (s.length - 1) ≤ walkValueD a tbl v s := by
  intro s
  induction s with
  | nil => intro v h; exact absurd rfl h
  | cons c s ih =>
    intro v _ ht hdeg
    obtain ⟨hne, htt⟩ := (cn_tightD_cons_iff a tbl v c s).1 ht
    cases s with
    | nil =>
      simp only [List.length_cons, List.length_nil, Nat.zero_add, Nat.sub_self, Nat.pow_zero]
      omega
    | cons c' t =>
      have h0 : k ≤ a.outDeg v := by simpa [walkEnd] using hdeg 0 (by simp)
      have hrec := ih _ (by simp) htt (fun i hi => by
        have := hdeg (i + 1) (by simpa using hi)
        simpa [walkEnd] using this)
      have h1 : a.outDeg v > 1 := by omega
      rw [cn_walkValueD_cons_branch h1]
      simp only [List.length_cons, Nat.add_sub_cancel] at hrec ⊢
      rw [Nat.pow_succ, Nat.mul_comm]
      have := Nat.mul_le_mul h0 hrec
      omega

/-! ### tightness in fast mode -/

theorem fast_nonempty {a : Acc} {tbl : Option Tbl} {f : Nat} {v : Int} {b0 : Nat} {rest : List Nat}
    {s : List Char} (h : encodeFastLoop a tbl f v (b0 :: rest) = .ok s) : s ≠ [] := by
  cases f with
  | zero => simp [encodeFastLoop] at h
  | succ f =>
    rcases cf_encode_cons h with ⟨_, s', rfl, _⟩ | ⟨_, s', rfl, _⟩ | ⟨_, s', rfl, _⟩ <;> simp

theorem walkEnd_dropLast_cons (a : Acc) (v : Int) {j : Nat} (hj : j < 4) (c' : Char) (t : List Char) :
    walkEnd a v (nucChar j :: c' :: t).dropLast = walkEnd a (a.ent v j) (c' :: t).dropLast := by
  have hd : (nucChar j :: c' :: t).dropLast = nucChar j :: (c' :: t).dropLast := by
    simp [List.dropLast]
  rw [hd]
  simp only [walkEnd, nucIdx_nucChar j hj, Option.getD_some]

theorem fast_last (a : Acc) (tbl : Option Tbl) : ∀ (f : Nat) (v : Int) (bits : List Nat)
    (s : List Char), IsBits bits → encodeFastLoop a tbl f v bits = .ok s → s ≠ [] →
    (a.outDeg (walkEnd a v s.dropLast) = 2 ∨ a.outDeg (walkEnd a v s.dropLast) = 4) := by
  intro f
  induction f with
  | zero => intro v bits s _ h; simp [encodeFastLoop] at h
  | succ f ih =>
    intro v bits s hb h hs
    cases bits with
    | nil => exact absurd (cf_encode_nil h) hs
    | cons b0 rest =>
      obtain ⟨hb0, hrest⟩ := cf_isBits_cons hb
      have hr0 := cf_headD_lt hrest
      rcases cf_encode_cons h with ⟨h4, s', rfl, hs'⟩ | ⟨h2, s', rfl, hs'⟩ | ⟨h1, s', rfl, hs'⟩
      · cases s' with
        | nil => right; simpa [List.dropLast, walkEnd] using h4
        | cons c' t =>
          have hd : b0 * 2 + rest.headD 0 < a.outDeg v := by omega
          have hj := live_lt_four a v (selectArc_mem a tbl v hd)
          rw [walkEnd_dropLast_cons a v hj]
          exact ih _ _ _ (cf_isBits_drop hrest 1) hs' (by simp)
      · cases s' with
        | nil => left; simpa [List.dropLast, walkEnd] using h2
        | cons c' t =>
          have hd : b0 < a.outDeg v := by omega
          have hj := live_lt_four a v (selectArc_mem a tbl v hd)
          rw [walkEnd_dropLast_cons a v hj]
          exact ih _ _ _ hrest hs' (by simp)
      · have hne := fast_nonempty hs'
        cases s' with
        | nil => exact absurd rfl hne
        | cons c' t =>
          have hj := live_lt_four a v (cf_forced_mem h1)
          rw [walkEnd_dropLast_cons a v hj]
          exact ih _ _ _ hb hs' (by simp)

end Dsw.Tight
