import DswModel.Model.Spiderweb
import DswModel.Lemmas.Defs
import DswModel.Lemmas.DeBruijn
import DswModel.Lemmas.Trim
/-! Helper lemmas for the threshold-1 phase of `connect_coding_graph` and for `remove_useless` (C03). -/
namespace Dsw

end Dsw
