import DswModel.Model.Spiderweb
import DswModel.Lemmas.Defs
import DswModel.Lemmas.DeBruijn
import DswModel.Lemmas.Trim
import DswModel.Lemmas.Convert3
import DswModel.Lemmas.CoderDefs
/-! Helper lemmas for the threshold-1 phase of `connect_coding_graph` and for `remove_useless` (C03).

Everything lives in the namespace `Dsw.TrimOne`. -/
namespace Dsw.TrimOne
open Trim

/-! ### de Bruijn arithmetic (kept local so that this file does not depend on a property file) -/

theorem formers_lt {k v : Nat} (hk : 1 ≤ k) (h : v < 4 ^ k) :
    ∀ u ∈ obtainFormers k v, u < 4 ^ k := by
  obtain ⟨k, rfl⟩ : ∃ k', k = k' + 1 := ⟨k - 1, by omega⟩
  intro u hu
  rcases (mem_obtainFormers _ v u).1 hu with ⟨j, hj, rfl⟩
  simp only [Nat.add_sub_cancel]
  rw [four_pow_succ] at h ⊢
  have : j * 4 ^ k ≤ 3 * 4 ^ k := Nat.mul_le_mul_right _ (by omega)
  omega

theorem former_iff_latter {k u v : Nat} (hk : 1 ≤ k) (hu : u < 4 ^ k) (hv : v < 4 ^ k) :
    u ∈ obtainFormers k v ↔ v ∈ obtainLatters k u := by
  obtain ⟨k, rfl⟩ : ∃ k', k = k' + 1 := ⟨k - 1, by omega⟩
  rw [mem_obtainFormers, mem_obtainLatters]
  simp only [Nat.add_sub_cancel]
  rw [four_pow_succ] at hu hv ⊢
  constructor
  · rintro ⟨j, hj, rfl⟩
    refine ⟨v % 4, by omega, ?_⟩
    have e : (v / 4 + j * 4 ^ k) * 4 + v % 4 = v + j * (4 * 4 ^ k) := by
      rw [Nat.add_mul, Nat.mul_assoc, Nat.mul_comm (4 ^ k) 4]; omega
    rw [e, Nat.add_mul_mod_self_right, Nat.mod_eq_of_lt hv]
  · rintro ⟨j, hj, rfl⟩
    rw [shift_mod _ _ _ hj]
    refine ⟨u / 4 ^ k, ?_, ?_⟩
    · exact Nat.div_lt_of_lt_mul (by rw [Nat.mul_comm]; exact hu)
    · have h1 : (u % 4 ^ k * 4 + j) / 4 = u % 4 ^ k := by omega
      rw [h1, Nat.add_comm, Nat.div_add_mod']

theorem shift_lt (k u j : Nat) : (u * 4 + j) % 4 ^ k < 4 ^ k := Nat.mod_lt _ (four_pow_pos k)

theorem shift_mem (k u j : Nat) (hj : j < 4) : (u * 4 + j) % 4 ^ k ∈ obtainLatters k u :=
  (mem_obtainLatters k u _).2 ⟨j, hj, rfl⟩

/-- the column of a successor determines it. -/
theorem shift_inj {k u j j' : Nat} (hk : 1 ≤ k) (hj : j < 4) (hj' : j' < 4)
    (h : (u * 4 + j) % 4 ^ k = (u * 4 + j') % 4 ^ k) : j = j' := by
  have h1 := shift_column_cv3 k u j hk hj
  have h2 := shift_column_cv3 k u j' hk hj'
  rw [h] at h1; omega

/-! ### counting -/

theorem filter_length_lt {α} (p q : α → Bool) (hpq : ∀ x, p x = true → q x = true) :
    ∀ (l : List α) (x : α), x ∈ l → q x = true → p x = false →
      (l.filter p).length < (l.filter q).length := by
  intro l
  induction l with
  | nil => intro x hx; cases hx
  | cons y ys ih =>
    intro x hx hq hp
    simp only [List.filter_cons]
    rcases List.mem_cons.1 hx with rfl | hx
    · have := filter_length_mono p q hpq ys
      simp [hq, hp]; omega
    · have := ih x hx hq hp
      cases hpy : p y
      · cases hqy : q y <;> simp <;> omega
      · simp [hpq y hpy]; omega

/-! ### out-degrees -/

theorem deg_pos_iff (a : Acc) (v : Nat) : 0 < a.deg v ↔ ∃ j, j < 4 ∧ 0 ≤ a.ent (v : Int) j := by
  unfold Acc.deg
  rw [List.length_pos_iff_exists_mem]
  constructor
  · rintro ⟨j, hj⟩; exact ⟨j, (Acc.mem_live _ _ _).1 hj⟩
  · rintro ⟨j, hj⟩; exact ⟨j, (Acc.mem_live _ _ _).2 hj⟩

theorem deg_eq_zero_iff (a : Acc) (v : Nat) :
    a.deg v = 0 ↔ ∀ j, j < 4 → a.ent (v : Int) j < 0 := by
  constructor
  · intro h j hj
    apply Classical.byContradiction
    intro hn
    have : 0 < a.deg v := (deg_pos_iff a v).2 ⟨j, hj, by omega⟩
    omega
  · intro h
    apply Classical.byContradiction
    intro hn
    obtain ⟨j, hj, he⟩ := (deg_pos_iff a v).1 (by omega)
    have := h j hj; omega

/-- `b` has no arc that `a` does not have. -/
def ArcLe (b a : Acc) : Prop := ∀ x i : Nat, 0 ≤ b.ent (x : Int) i → 0 ≤ a.ent (x : Int) i

theorem ArcLe.deg_pos {a b : Acc} (h : ArcLe b a) {v : Nat} (hv : 0 < b.deg v) : 0 < a.deg v := by
  obtain ⟨j, hj, he⟩ := (deg_pos_iff b v).1 hv
  exact (deg_pos_iff a v).2 ⟨j, hj, h v j he⟩

theorem ArcLe.deg_zero {a b : Acc} (h : ArcLe b a) {v : Nat} (hv : a.deg v = 0) : b.deg v = 0 := by
  apply Classical.byContradiction
  intro hn
  have := h.deg_pos (v := v) (by omega); omega

theorem deg_congr {a b : Acc} {v : Nat} (h : ∀ i, b.ent (v : Int) i = a.ent (v : Int) i) :
    b.deg v = a.deg v := by
  unfold Acc.deg Acc.live
  simp only [h]

/-- number of vertices with an arc. -/
def liveCount (k : Nat) (a : Acc) : Nat :=
  ((List.range (4 ^ k)).filter fun v => decide (0 < a.deg v)).length

theorem liveCount_le (k : Nat) (a : Acc) : liveCount k a ≤ 4 ^ k := by
  unfold liveCount
  have := List.length_filter_le (fun v => decide (0 < a.deg v)) (List.range (4 ^ k))
  simpa using this

theorem ArcLe.liveCount_le {a b : Acc} (h : ArcLe b a) (k : Nat) : liveCount k b ≤ liveCount k a := by
  unfold liveCount
  apply filter_length_mono
  intro v hv
  simp only [decide_eq_true_eq] at hv ⊢
  exact h.deg_pos hv

theorem ArcLe.liveCount_lt {a b : Acc} (h : ArcLe b a) (k : Nat) {v : Nat} (hv : v < 4 ^ k)
    (ha : 0 < a.deg v) (hb : b.deg v = 0) : liveCount k b < liveCount k a := by
  unfold liveCount
  apply filter_length_lt _ _ _ _ v (List.mem_range.2 hv)
  · simpa using ha
  · simp [hb]
  · intro x hx
    simp only [decide_eq_true_eq] at hx ⊢
    exact h.deg_pos hx

/-! ### clearing one cell, clearing one row -/

theorem ent_clear {k : Nat} {a : Acc} (h : WFdB k a) {f c : Nat} (hf : f < 4 ^ k) (hc : c < 4)
    (x i : Nat) :
    (a.setEnt f c (-1)).ent (x : Int) i = if x = f ∧ i = c then -1 else a.ent (x : Int) i := by
  by_cases hx : x = f ∧ i = c
  · rw [if_pos hx]
    obtain ⟨rfl, rfl⟩ := hx
    apply Acc.ent_setEnt_self
    rw [(h.2 x hf).1]; exact hc
  · rw [if_neg hx]
    apply Acc.ent_setEnt_ne
    by_cases h1 : x = f
    · right; intro h2; exact hx ⟨h1, h2⟩
    · left; exact h1

theorem ent_clearRow {a : Acc} {u : Nat} (hu : u < a.size) (x i : Nat) :
    Acc.ent (a.setIfInBounds u (Array.replicate 4 (-1))) (x : Int) i =
      if x = u then -1 else a.ent (x : Int) i := by
  rw [Acc.ent_natCast, Acc.ent_natCast]
  by_cases hx : x = u
  · subst hx
    rw [if_pos rfl, getD_setIfInBounds_self _ _ _ _ hu]
    by_cases hi : i < 4
    · simp [Array.getD, hi]
    · simp [Array.getD, hi]
  · rw [if_neg hx, getD_setIfInBounds_ne _ _ _ _ _ (Ne.symm hx)]

/-! ### the cascade invariant -/

/-- the invariant of the predecessor cascade, for a closed reference set `C` (which must survive)
and a bounding set `M`: `a` is a de Bruijn sub-table that contains every de Bruijn arc between two
of its vertices with arcs, every arc into a vertex without arcs is listed in `P`, every pair of `P`
points to a vertex without arcs, all arcs inside `C` are present, all vertices with arcs are in
`M`. -/
structure CInv (k : Nat) (C M : Mask) (a : Acc) (P : List (Nat × Nat)) : Prop where
  wf : WFdB k a
  ind : ∀ u j : Nat, u < 4 ^ k → j < 4 → 0 < a.deg u → 0 < a.deg ((u * 4 + j) % 4 ^ k) →
    0 ≤ a.ent (u : Int) j
  good : ∀ p ∈ P, p.2 < 4 ^ k ∧ a.deg p.2 = 0 ∧ p.1 ∈ obtainFormers k p.2
  pend : ∀ u j : Nat, u < 4 ^ k → j < 4 → 0 ≤ a.ent (u : Int) j → a.deg ((u * 4 + j) % 4 ^ k) = 0 →
    (u, (u * 4 + j) % 4 ^ k) ∈ P
  carcs : ∀ u j : Nat, u < 4 ^ k → j < 4 → C.getD u false = true →
    C.getD ((u * 4 + j) % 4 ^ k) false = true → 0 ≤ a.ent (u : Int) j
  sub : ∀ u : Nat, u < 4 ^ k → 0 < a.deg u → M.getD u false = true

theorem CInv.congr {k : Nat} {C M : Mask} {a : Acc} {P P' : List (Nat × Nat)}
    (h : CInv k C M a P) (hP : ∀ p, p ∈ P ↔ p ∈ P') : CInv k C M a P' :=
  ⟨h.wf, h.ind, fun p hp => h.good p ((hP p).2 hp),
    fun u j hu hj he hd => (hP _).1 (h.pend u j hu hj he hd), h.carcs, h.sub⟩

/-- a marked vertex of a closed set has a marked successor. -/
theorem closed_succ {k : Nat} {C : Mask} (hC : TrimClosed k 1 C) {v : Nat}
    (hv : C.getD v false = true) :
    ∃ j, j < 4 ∧ C.getD ((v * 4 + j) % 4 ^ k) false = true := by
  have h := hC v hv
  unfold succCount at h
  obtain ⟨w, hw⟩ := List.exists_mem_of_length_pos (Nat.lt_of_lt_of_le Nat.zero_lt_one h)
  rw [List.mem_filter] at hw
  obtain ⟨j, hj, rfl⟩ := (mem_obtainLatters k v w).1 hw.1
  exact ⟨j, hj, hw.2⟩

/-- the vertices of the reference set keep an arc. -/
theorem CInv.c_live {k : Nat} {C M : Mask} {a : Acc} {P : List (Nat × Nat)}
    (h : CInv k C M a P) (hC : TrimClosed k 1 C) (hCs : C.size = 4 ^ k) {v : Nat}
    (hv : C.getD v false = true) : 0 < a.deg v := by
  obtain ⟨j, hj, hw⟩ := closed_succ hC hv
  have hvn : v < 4 ^ k := by rw [← hCs]; exact Mask.lt_size_of_getD hv
  exact (deg_pos_iff a v).2 ⟨j, hj, h.carcs v j hvn hj hv hw⟩

/-- one step of the inner loop of `cascade`. -/
def cstep (k : Nat) (st : Acc × List (Nat × Nat)) (fl : Nat × Nat) : Acc × List (Nat × Nat) :=
  let previous := st.1.deg fl.1
  let a' := st.1.setEnt fl.1 (fl.2 % 4) (-1)
  let current := a'.deg fl.1
  (a', if previous > current ∧ current = 0 then
         st.2 ++ (obtainFormers k fl.1).map fun i => (i, fl.1) else st.2)

theorem cascade_succ (k f : Nat) (pairs : List (Nat × Nat)) (a : Acc) :
    cascade k (f + 1) pairs a =
      if pairs.isEmpty then a else
        cascade k f (pairs.foldl (cstep k) (a, [])).2 (pairs.foldl (cstep k) (a, [])).1 := rfl

/-- facts about a pair that satisfies `good`. -/
theorem good_pair {k : Nat} (hk : 1 ≤ k) {f l : Nat} (hl : l < 4 ^ k) (hf : f ∈ obtainFormers k l) :
    f < 4 ^ k ∧ l % 4 < 4 ∧ (f * 4 + l % 4) % 4 ^ k = l := by
  have hfn := formers_lt hk hl f hf
  have := (former_iff_latter hk hfn hl).1 hf
  exact ⟨hfn, by omega, latter_column k f l this⟩

/-- the invariant is kept by one step of the inner loop. -/
theorem cstep_inv {k : Nat} {C M : Mask} (hk : 1 ≤ k) (hC : TrimClosed k 1 C) (hCs : C.size = 4 ^ k)
    {a : Acc} {fl : Nat × Nat} {L new : List (Nat × Nat)} (h : CInv k C M a (fl :: L ++ new)) :
    CInv k C M (cstep k (a, new) fl).1 (L ++ (cstep k (a, new) fl).2) ∧
    ArcLe (cstep k (a, new) fl).1 a ∧
    ((cstep k (a, new) fl).2 = new ∨ liveCount k (cstep k (a, new) fl).1 < liveCount k a) := by
  obtain ⟨f, l⟩ := fl
  obtain ⟨hl, hdl, hfl⟩ := h.good (f, l) (by simp)
  simp only at hl hdl hfl
  obtain ⟨hf, hc, hsh⟩ := good_pair hk hl hfl
  have hent : ∀ x i : Nat, (a.setEnt f (l % 4) (-1)).ent (x : Int) i =
      if x = f ∧ i = l % 4 then -1 else a.ent (x : Int) i := ent_clear h.wf hf hc
  have hle : ArcLe (a.setEnt f (l % 4) (-1)) a := by
    intro x i hx
    rw [hent] at hx
    split at hx
    · omega
    · exact hx
  have hdeg : ∀ x, x ≠ f → (a.setEnt f (l % 4) (-1)).deg x = a.deg x := by
    intro x hx
    apply deg_congr
    intro i
    rw [hent, if_neg (fun hh => hx hh.1)]
  have hwf : WFdB k (a.setEnt f (l % 4) (-1)) := wfdb_setEnt k _ _ _ _ h.wf (Or.inl rfl)
  -- the new pair list, up to membership
  have key : ∀ (E : List (Nat × Nat)),
      (∀ p ∈ E, p.2 < 4 ^ k ∧ (a.setEnt f (l % 4) (-1)).deg p.2 = 0 ∧ p.1 ∈ obtainFormers k p.2) →
      (∀ u, u < 4 ^ k → f ∈ obtainLatters k u → 0 < a.deg f → (a.setEnt f (l % 4) (-1)).deg f = 0 →
        (u, f) ∈ E) →
      CInv k C M (a.setEnt f (l % 4) (-1)) (L ++ (new ++ E)) := by
    intro E hE1 hE2
    refine ⟨hwf, ?_, ?_, ?_, ?_, ?_⟩
    · intro u j hu hj h1 h2
      have h3 := h.ind u j hu hj (hle.deg_pos h1) (hle.deg_pos h2)
      rw [hent]
      split
      · rename_i hh
        obtain ⟨rfl, rfl⟩ := hh
        rw [hsh] at h2
        have := hle.deg_pos h2
        omega
      · exact h3
    · intro p hp
      rcases List.mem_append.1 hp with hp | hp
      · obtain ⟨h1, h2, h3⟩ := h.good p (by simp [hp])
        exact ⟨h1, hle.deg_zero h2, h3⟩
      · rcases List.mem_append.1 hp with hp | hp
        · obtain ⟨h1, h2, h3⟩ := h.good p (by simp [hp])
          exact ⟨h1, hle.deg_zero h2, h3⟩
        · exact hE1 p hp
    · intro u j hu hj he hd
      rw [hent] at he
      split at he
      · omega
      · rename_i hne
        by_cases hda : a.deg ((u * 4 + j) % 4 ^ k) = 0
        · have := h.pend u j hu hj he hda
          rcases List.mem_cons.1 this with heq | hmem
          · exfalso
            simp only [Prod.mk.injEq] at heq
            obtain ⟨rfl, h2⟩ := heq
            apply hne
            refine ⟨rfl, ?_⟩
            have := shift_column_cv3 k u j hk hj
            rw [h2] at this
            exact this.symm
          · rcases List.mem_append.1 hmem with hm | hm
            · exact List.mem_append.2 (Or.inl hm)
            · exact List.mem_append.2 (Or.inr (List.mem_append.2 (Or.inl hm)))
        · have hwf' : (u * 4 + j) % 4 ^ k = f := by
            apply Classical.byContradiction
            intro hx
            rw [hdeg _ hx] at hd
            exact hda hd
          rw [hwf'] at hd hda ⊢
          apply List.mem_append.2 (Or.inr (List.mem_append.2 (Or.inr ?_)))
          apply hE2 u hu _ (by omega) hd
          rw [← hwf']
          exact shift_mem k u j hj
    · intro u j hu hj h1 h2
      have h3 := h.carcs u j hu hj h1 h2
      rw [hent]
      split
      · rename_i hh
        obtain ⟨rfl, rfl⟩ := hh
        rw [hsh] at h2
        have := h.c_live hC hCs h2
        omega
      · exact h3
    · intro u hu h1
      exact h.sub u hu (hle.deg_pos h1)
  unfold cstep
  simp only
  by_cases hcond : a.deg f > (a.setEnt f (l % 4) (-1)).deg f ∧ (a.setEnt f (l % 4) (-1)).deg f = 0
  · rw [if_pos hcond]
    refine ⟨?_, hle, Or.inr (hle.liveCount_lt k hf (by omega) hcond.2)⟩
    apply key
    · intro p hp
      rw [List.mem_map] at hp
      obtain ⟨i, hi, rfl⟩ := hp
      exact ⟨hf, hcond.2, hi⟩
    · intro u hu hfu _ _
      rw [List.mem_map]
      exact ⟨u, (former_iff_latter hk hu hf).2 hfu, rfl⟩
  · rw [if_neg hcond]
    refine ⟨?_, hle, Or.inl rfl⟩
    have := key [] (by intro p hp; cases hp) (by
      intro u _ _ h1 h2
      exact absurd ⟨by omega, h2⟩ hcond)
    simpa using this

theorem ArcLe.refl (a : Acc) : ArcLe a a := fun _ _ h => h
theorem ArcLe.trans {a b c : Acc} (h1 : ArcLe a b) (h2 : ArcLe b c) : ArcLe a c :=
  fun x i h => h2 x i (h1 x i h)

/-- the invariant is kept by one wave. -/
theorem cfold_inv {k : Nat} {C M : Mask} (hk : 1 ≤ k) (hC : TrimClosed k 1 C) (hCs : C.size = 4 ^ k) :
    ∀ (pairs : List (Nat × Nat)) (a : Acc) (new : List (Nat × Nat)),
      CInv k C M a (pairs ++ new) →
      CInv k C M (pairs.foldl (cstep k) (a, new)).1 (pairs.foldl (cstep k) (a, new)).2 ∧
      ArcLe (pairs.foldl (cstep k) (a, new)).1 a ∧
      ((pairs.foldl (cstep k) (a, new)).2 = new ∨
        liveCount k (pairs.foldl (cstep k) (a, new)).1 < liveCount k a) := by
  intro pairs
  induction pairs with
  | nil => intro a new h; exact ⟨by simpa using h, ArcLe.refl a, Or.inl rfl⟩
  | cons fl rest ih =>
    intro a new h
    obtain ⟨h1, h2, h3⟩ := cstep_inv hk hC hCs (fl := fl) (L := rest) (new := new) (by simpa using h)
    rw [List.foldl_cons]
    have e : cstep k (a, new) fl = ((cstep k (a, new) fl).1, (cstep k (a, new) fl).2) := rfl
    rw [e]
    obtain ⟨i1, i2, i3⟩ := ih _ _ h1
    refine ⟨i1, i2.trans h2, ?_⟩
    have hmono := i2.liveCount_le k
    rcases i3 with i3 | i3
    · rcases h3 with h3 | h3
      · left; rw [i3, h3]
      · right; omega
    · right
      have := h2.liveCount_le k
      omega

/-- the whole cascade: it ends with no arc into a vertex without arcs. -/
theorem cascade_inv {k : Nat} {C M : Mask} (hk : 1 ≤ k) (hC : TrimClosed k 1 C) (hCs : C.size = 4 ^ k) :
    ∀ (f : Nat) (pairs : List (Nat × Nat)) (a : Acc), CInv k C M a pairs →
      (pairs ≠ [] → liveCount k a < f) →
      CInv k C M (cascade k f pairs a) [] ∧ ArcLe (cascade k f pairs a) a := by
  intro f
  induction f with
  | zero =>
    intro pairs a h hf
    have : pairs = [] := by
      apply Classical.byContradiction
      intro hne; have := hf hne; omega
    subst this
    exact ⟨h, ArcLe.refl a⟩
  | succ f ih =>
    intro pairs a h hf
    rw [cascade_succ]
    cases pairs with
    | nil => exact ⟨h, ArcLe.refl a⟩
    | cons p ps =>
      simp only [List.isEmpty_cons, Bool.false_eq_true, if_false]
      have hlt := hf (by simp)
      obtain ⟨h1, h2, h3⟩ := cfold_inv hk hC hCs (p :: ps) a [] (by simpa using h)
      obtain ⟨i1, i2⟩ := ih _ _ h1 (by
        intro hne
        rcases h3 with h3 | h3
        · exact absurd h3 hne
        · omega)
      exact ⟨i1, i2.trans h2⟩

/-! ### removing one vertex, removing a list of vertices -/

theorem removeVertex_inv {k : Nat} {C M : Mask} (hk : 1 ≤ k) (hC : TrimClosed k 1 C)
    (hCs : C.size = 4 ^ k) {a : Acc} {u : Nat} (h : CInv k C M a []) (hu : u < 4 ^ k)
    (hCu : ¬ C.getD u false = true) :
    CInv k C M (removeVertex k a u) [] ∧ ArcLe (removeVertex k a u) a ∧
      (0 < a.deg u → liveCount k (removeVertex k a u) < liveCount k a) := by
  have hus : u < a.size := by rw [h.wf.1]; exact hu
  have hent : ∀ x i : Nat, Acc.ent (a.setIfInBounds u (Array.replicate 4 (-1))) (x : Int) i =
      if x = u then -1 else a.ent (x : Int) i := ent_clearRow hus
  have hle : ArcLe (a.setIfInBounds u (Array.replicate 4 (-1))) a := by
    intro x i hx
    rw [hent] at hx
    split at hx
    · omega
    · exact hx
  have hdeg : ∀ x, x ≠ u → Acc.deg (a.setIfInBounds u (Array.replicate 4 (-1))) x = a.deg x := by
    intro x hx
    apply deg_congr
    intro i
    rw [hent, if_neg hx]
  have hdu : Acc.deg (a.setIfInBounds u (Array.replicate 4 (-1))) u = 0 := by
    rw [deg_eq_zero_iff]
    intro j _
    rw [hent, if_pos rfl]; omega
  have hwf : WFdB k (a.setIfInBounds u (Array.replicate 4 (-1))) :=
    wfdb_setIfInBounds_row k a u _ h.wf (rowOK_replicate k u)
  have h1 : CInv k C M (a.setIfInBounds u (Array.replicate 4 (-1)))
      ((obtainFormers k u).map fun i => (i, u)) := by
    refine ⟨hwf, ?_, ?_, ?_, ?_, ?_⟩
    · intro x j hx hj d1 d2
      have := h.ind x j hx hj (hle.deg_pos d1) (hle.deg_pos d2)
      rw [hent]
      split
      · rename_i hxu; subst hxu; omega
      · exact this
    · intro p hp
      rw [List.mem_map] at hp
      obtain ⟨i, hi, rfl⟩ := hp
      exact ⟨hu, hdu, hi⟩
    · intro x j hx hj he hd
      rw [hent] at he
      split at he
      · omega
      · by_cases hda : a.deg ((x * 4 + j) % 4 ^ k) = 0
        · have := h.pend x j hx hj he hda
          cases this
        · have hw : (x * 4 + j) % 4 ^ k = u := by
            apply Classical.byContradiction
            intro hne
            rw [hdeg _ hne] at hd
            exact hda hd
          rw [hw, List.mem_map]
          refine ⟨x, (former_iff_latter hk hx hu).2 ?_, rfl⟩
          rw [← hw]; exact shift_mem k x j hj
    · intro x j hx hj c1 c2
      have := h.carcs x j hx hj c1 c2
      rw [hent]
      split
      · rename_i hxu; subst hxu; exact absurd c1 hCu
      · exact this
    · intro x hx d
      exact h.sub x hx (hle.deg_pos d)
  have hfuel : liveCount k (a.setIfInBounds u (Array.replicate 4 (-1))) < a.size + 1 := by
    have := liveCount_le k (a.setIfInBounds u (Array.replicate 4 (-1)))
    rw [h.wf.1]; omega
  obtain ⟨c1, c2⟩ := cascade_inv hk hC hCs (a.size + 1) _ _ h1 (fun _ => hfuel)
  refine ⟨c1, c2.trans hle, fun hpos => ?_⟩
  have l1 := c2.liveCount_le k
  have l2 := hle.liveCount_lt k hu hpos hdu
  have e : removeVertex k a u = cascade k (a.size + 1) ((obtainFormers k u).map fun i => (i, u))
      (a.setIfInBounds u (Array.replicate 4 (-1))) := rfl
  rw [e]
  omega

theorem removeAll_inv {k : Nat} {C M : Mask} (hk : 1 ≤ k) (hC : TrimClosed k 1 C)
    (hCs : C.size = 4 ^ k) : ∀ (us : List Nat) (a : Acc), CInv k C M a [] →
      (∀ u ∈ us, u < 4 ^ k ∧ ¬ C.getD u false = true) →
      CInv k C M (us.foldl (removeVertex k) a) [] ∧ ArcLe (us.foldl (removeVertex k) a) a := by
  intro us
  induction us with
  | nil => intro a h _; exact ⟨h, ArcLe.refl a⟩
  | cons u us ih =>
    intro a h hus
    obtain ⟨hu1, hu2⟩ := hus u (by simp)
    obtain ⟨r1, r2, _⟩ := removeVertex_inv hk hC hCs h hu1 hu2
    obtain ⟨i1, i2⟩ := ih _ r1 (fun x hx => hus x (by simp [hx]))
    exact ⟨i1, i2.trans r2⟩

theorem removeAll_lt {k : Nat} {C M : Mask} (hk : 1 ≤ k) (hC : TrimClosed k 1 C)
    (hCs : C.size = 4 ^ k) (u : Nat) (us : List Nat) (a : Acc) (h : CInv k C M a [])
    (hus : ∀ x ∈ u :: us, x < 4 ^ k ∧ ¬ C.getD x false = true) (hu : 0 < a.deg u) :
    liveCount k ((u :: us).foldl (removeVertex k) a) < liveCount k a := by
  obtain ⟨hu1, hu2⟩ := hus u (by simp)
  obtain ⟨r1, _, r3⟩ := removeVertex_inv hk hC hCs h hu1 hu2
  obtain ⟨_, i2⟩ := removeAll_inv hk hC hCs us _ r1 (fun x hx => hus x (by simp [hx]))
  have := i2.liveCount_le k
  have := r3 hu
  rw [List.foldl_cons]
  omega

/-! ### the backward closure `usefulLoop` -/

def ustep (a : Acc) (useful : Array Bool) (ex : Array Bool) (v : Nat) : Array Bool :=
  if useful.getD v false then ex
  else ex.setIfInBounds v ((a.liveEntries (v : Int)).any fun w => useful.getD w false)

theorem usefulStep_eq (a : Acc) (vs : List Nat) (useful : Array Bool) :
    usefulStep a vs useful = vs.foldl (ustep a useful) useful := rfl

theorem ustep_size (a : Acc) (u ex : Array Bool) (v : Nat) : (ustep a u ex v).size = ex.size := by
  unfold ustep; split <;> simp

theorem ufold_size (a : Acc) (u : Array Bool) : ∀ (l : List Nat) (ex : Array Bool),
    (l.foldl (ustep a u) ex).size = ex.size := by
  intro l
  induction l with
  | nil => intro ex; rfl
  | cons x xs ih => intro ex; rw [List.foldl_cons, ih, ustep_size]

theorem ufold_getD (a : Acc) (u : Array Bool) : ∀ (l : List Nat) (ex : Array Bool) (v : Nat),
    (l.foldl (ustep a u) ex).getD v false =
      if v ∈ l ∧ u.getD v false = false ∧ v < ex.size then
        (a.liveEntries (v : Int)).any fun w => u.getD w false
      else ex.getD v false := by
  intro l
  induction l with
  | nil => intro ex v; simp
  | cons x xs ih =>
    intro ex v
    rw [List.foldl_cons, ih, ustep_size]
    by_cases hvx : v = x
    · subst hvx
      by_cases hu : u.getD v false = true
      · have : ustep a u ex v = ex := by unfold ustep; rw [if_pos hu]
        simp [this, hu]
      · have hu' : u.getD v false = false := by simpa using hu
        have : ustep a u ex v = ex.setIfInBounds v
            ((a.liveEntries (v : Int)).any fun w => u.getD w false) := by
          unfold ustep; rw [if_neg hu]
        rw [this]
        by_cases hs : v < ex.size
        · simp [hu', hs, getD_setIfInBounds_self _ _ _ _ hs]
        · simp [hs]
    · have : (ustep a u ex x).getD v false = ex.getD v false := by
        unfold ustep
        split
        · rfl
        · exact getD_setIfInBounds_ne _ _ _ _ _ (Ne.symm hvx)
      rw [this]
      simp [hvx]

theorem usefulStep_size (a : Acc) (vs : List Nat) (u : Array Bool) :
    (usefulStep a vs u).size = u.size := by
  rw [usefulStep_eq, ufold_size]

theorem usefulStep_getD (a : Acc) (vs : List Nat) (u : Array Bool) (v : Nat) :
    (usefulStep a vs u).getD v false =
      if v ∈ vs ∧ u.getD v false = false ∧ v < u.size then
        (a.liveEntries (v : Int)).any fun w => u.getD w false
      else u.getD v false := by
  rw [usefulStep_eq, ufold_getD]

theorem usefulStep_le (a : Acc) (vs : List Nat) (u : Array Bool) :
    Mask.Le u (usefulStep a vs u) := by
  intro v hv
  rw [usefulStep_getD, if_neg]
  · exact hv
  · rintro ⟨_, h, _⟩; rw [hv] at h; cases h

theorem usefulStep_sound {a : Acc} {vs : List Nat} {u : Array Bool} {v : Nat}
    (h : (usefulStep a vs u).getD v false = true) :
    u.getD v false = true ∨
      (v ∈ vs ∧ ∃ w, w ∈ a.liveEntries (v : Int) ∧ u.getD w false = true) := by
  rw [usefulStep_getD] at h
  split at h
  · rename_i hc
    right
    rw [List.any_eq_true] at h
    exact ⟨hc.1, h⟩
  · exact Or.inl h

theorem usefulStep_closed {a : Acc} {vs : List Nat} {u : Array Bool} {v w : Nat}
    (hv : v ∈ vs) (hs : v < u.size) (hw : w ∈ a.liveEntries (v : Int))
    (hu : u.getD w false = true) : (usefulStep a vs u).getD v false = true := by
  rw [usefulStep_getD]
  by_cases h : u.getD v false = true
  · rw [if_neg]
    · exact h
    · rintro ⟨_, h', _⟩; rw [h] at h'; cases h'
  · rw [if_pos ⟨hv, by simpa using h, hs⟩, List.any_eq_true]
    exact ⟨w, hw, hu⟩

theorem usefulLoop_spec (a : Acc) (vs : List Nat) : ∀ (f : Nat) (u : Array Bool),
    u.size < f + Mask.count u →
    Mask.Le u (usefulLoop a vs f u) ∧ (usefulLoop a vs f u).size = u.size ∧
    usefulStep a vs (usefulLoop a vs f u) = usefulLoop a vs f u ∧
    (∀ P : Nat → Prop, (∀ v, u.getD v false = true → P v) →
      (∀ v w, v ∈ vs → w ∈ a.liveEntries (v : Int) → P w → P v) →
      ∀ v, (usefulLoop a vs f u).getD v false = true → P v) := by
  intro f
  induction f with
  | zero =>
    intro u h
    have := Mask.count_le_size u
    omega
  | succ f ih =>
    intro u h
    rw [usefulLoop]
    have hle := usefulStep_le a vs u
    have hsz := usefulStep_size a vs u
    split
    · rename_i hc
      have heq : u = usefulStep a vs u := Mask.eq_of_le_of_count hsz.symm hle hc
      exact ⟨Mask.Le.refl u, rfl, heq.symm, fun P h0 _ v hv => h0 v hv⟩
    · rename_i hc
      have hcl := Mask.count_le_of_le hsz.symm hle
      obtain ⟨i1, i2, i3, i4⟩ := ih (usefulStep a vs u) (by rw [hsz]; omega)
      refine ⟨hle.trans i1, by rw [i2, hsz], i3, fun P h0 hs v hv => ?_⟩
      apply i4 P _ hs v hv
      intro x hx
      rcases usefulStep_sound hx with h1 | ⟨h1, w, h2, h3⟩
      · exact h0 x h1
      · exact hs x w h1 h2 (h0 w h3)

/-- `v` reaches, along arcs of `a`, a vertex with two or more arcs. -/
inductive ARB (a : Acc) : Nat → Prop
  | here (v : Nat) : 2 ≤ a.deg v → ARB a v
  | step (v w : Nat) : w ∈ a.liveEntries (v : Int) → ARB a w → ARB a v


/-! ### the loop of the threshold-1 phase -/

/-- `v` reaches, inside `s`, a vertex with two or more successors in `s` (the `ReachesBranching`
of the property file). -/
inductive RB (k : Nat) (s : Mask) : Nat → Prop
  | here (v : Nat) : s.getD v false = true → 2 ≤ succCount k s v → RB k s v
  | step (v w : Nat) : s.getD v false = true → w ∈ obtainLatters k v → s.getD w false = true →
      RB k s w → RB k s v

/-- the `Closed1` of the property file. -/
def ClosedOne (k : Nat) (s : Mask) : Prop :=
  ∀ v, s.getD v false = true → 1 ≤ succCount k s v ∧ RB k s v

theorem ClosedOne.trimClosed {k : Nat} {s : Mask} (h : ClosedOne k s) : TrimClosed k 1 s :=
  fun v hv => (h v hv).1

theorem filter_length_mono_mem {α} (p q : α → Bool) :
    ∀ l : List α, (∀ x ∈ l, p x = true → q x = true) → (l.filter p).length ≤ (l.filter q).length := by
  intro l
  induction l with
  | nil => simp
  | cons x xs ih =>
    intro h
    have := ih (fun y hy => h y (by simp [hy]))
    simp only [List.filter_cons]
    cases hp : p x
    · cases hq : q x <;> simp <;> omega
    · simp [h x (by simp) hp]; omega

theorem succCount_eq (k : Nat) (s : Mask) (v : Nat) :
    succCount k s v = ((List.range 4).filter fun j => s.getD ((v * 4 + j) % 4 ^ k) false).length := by
  unfold succCount obtainLatters
  rw [List.filter_map, List.length_map]
  rfl

theorem deg_eq (a : Acc) (v : Nat) :
    a.deg v = ((List.range 4).filter fun j => decide (a.ent (v : Int) j ≥ 0)).length := rfl

/-- the useful vertices of a round. -/
def usefulOf (a : Acc) : Array Bool :=
  usefulLoop a (obtainVertices a) (a.size + 1) ((Array.range a.size).map fun v => decide (a.deg v > 1))

theorem thresholdOneLoop_succ (k f : Nat) (a : Acc) :
    thresholdOneLoop k (f + 1) a =
      if (obtainVertices a).isEmpty then .error .valueError else
      if ((obtainVertices a).filter fun v => !(usefulOf a).getD v false).isEmpty then
        .ok (obtainVertices a, a)
      else thresholdOneLoop k f
        (((obtainVertices a).filter fun v => !(usefulOf a).getD v false).foldl (removeVertex k) a) := rfl

theorem u0_getD (a : Acc) (v : Nat) :
    ((Array.range a.size).map fun v => decide (a.deg v > 1)).getD v false = true ↔
      v < a.size ∧ 1 < a.deg v := by
  by_cases hv : v < a.size
  · rw [getD_range_map _ _ _ _ hv]; simp [hv]
  · simp [Array.getD, hv]

theorem mem_vs {k : Nat} {a : Acc} (h : WFdB k a) (v : Nat) :
    v ∈ obtainVertices a ↔ v < 4 ^ k ∧ 0 < a.deg v := by
  rw [h.mem_obtainVertices]
  unfold Acc.deg
  rw [List.length_pos_iff]

theorem usefulOf_spec (a : Acc) :
    Mask.Le ((Array.range a.size).map fun v => decide (a.deg v > 1)) (usefulOf a) ∧
    (usefulOf a).size = a.size ∧
    usefulStep a (obtainVertices a) (usefulOf a) = usefulOf a ∧
    ∀ v, (usefulOf a).getD v false = true → ARB a v := by
  obtain ⟨h1, h2, h3, h4⟩ := usefulLoop_spec a (obtainVertices a) (a.size + 1)
    ((Array.range a.size).map fun v => decide (a.deg v > 1)) (by simp; omega)
  refine ⟨h1, by rw [usefulOf, h2]; simp, h3, ?_⟩
  apply h4 (ARB a)
  · intro v hv
    exact ARB.here v ((u0_getD a v).1 hv).2
  · intro v w _ hw hp
    exact ARB.step v w hw hp

/-- a vertex of a closed reference set is never useless. -/
theorem usefulOf_closed {k : Nat} {C M : Mask} {a : Acc} (hC : ClosedOne k C) (hCs : C.size = 4 ^ k)
    (h : CInv k C M a []) {v : Nat} (hv : C.getD v false = true) :
    (usefulOf a).getD v false = true := by
  obtain ⟨s1, s2, s3, _⟩ := usefulOf_spec a
  have hlt : ∀ x, C.getD x false = true → x < 4 ^ k := fun x hx => by
    rw [← hCs]; exact Mask.lt_size_of_getD hx
  induction (hC v hv).2 with
  | here v hv h2 =>
    apply s1
    rw [u0_getD, h.wf.1]
    refine ⟨hlt v hv, ?_⟩
    rw [succCount_eq] at h2
    rw [deg_eq]
    refine Nat.lt_of_lt_of_le h2 (filter_length_mono_mem _ _ _ ?_)
    intro j hj hc
    simp only [List.mem_range] at hj
    simpa using h.carcs v j (hlt v hv) hj hv hc
  | step v w hv hw hcw _ ih =>
    have hr := ih hcw
    obtain ⟨j, hj, rfl⟩ := (mem_obtainLatters k v w).1 hw
    have hvn := hlt v hv
    have he := h.carcs v j hvn hj hv hcw
    have he' := (h.wf.ent_nonneg_iff hvn hj).1 he
    rw [← s3]
    apply usefulStep_closed (w := (v * 4 + j) % 4 ^ k)
    · rw [mem_vs h.wf]
      exact ⟨hvn, h.c_live hC.trimClosed hCs hv⟩
    · rw [s2, h.wf.1]; exact hvn
    · rw [Acc.mem_liveEntries]; exact ⟨j, hj, he'⟩
    · exact hr

theorem loop_spec {k : Nat} {C M : Mask} (hk : 1 ≤ k) (hC : ClosedOne k C) (hCs : C.size = 4 ^ k) :
    ∀ (f : Nat) (a : Acc), CInv k C M a [] → liveCount k a < f →
      (∀ vs r, thresholdOneLoop k f a = .ok (vs, r) →
        CInv k C M r [] ∧ vs = obtainVertices r ∧ vs ≠ [] ∧ ∀ v ∈ vs, ARB r v) ∧
      (∀ e, thresholdOneLoop k f a = .error e →
        e = .valueError ∧ ∀ v, ¬ C.getD v false = true) := by
  intro f
  induction f with
  | zero => intro a _ h; omega
  | succ f ih =>
    intro a h hf
    rw [thresholdOneLoop_succ]
    by_cases hvs : (obtainVertices a).isEmpty = true
    · rw [if_pos hvs]
      refine ⟨fun vs r hr => (by cases hr), fun e he => ?_⟩
      cases he
      refine ⟨rfl, fun v hv => ?_⟩
      have hlive := h.c_live hC.trimClosed hCs hv
      have hvn : v < 4 ^ k := by rw [← hCs]; exact Mask.lt_size_of_getD hv
      have : v ∈ obtainVertices a := (mem_vs h.wf v).2 ⟨hvn, hlive⟩
      rw [List.isEmpty_iff] at hvs
      rw [hvs] at this; cases this
    · rw [if_neg hvs]
      by_cases hul : ((obtainVertices a).filter fun v => !(usefulOf a).getD v false).isEmpty = true
      · rw [if_pos hul]
        refine ⟨fun vs r hr => ?_, fun e he => by cases he⟩
        cases hr
        refine ⟨h, rfl, fun hnil => hvs (by rw [hnil]; rfl), fun v hv => ?_⟩
        apply (usefulOf_spec a).2.2.2
        rw [List.isEmpty_iff, List.filter_eq_nil_iff] at hul
        have := hul v hv
        simpa using this
      · rw [if_neg hul]
        cases hus : (obtainVertices a).filter fun v => !(usefulOf a).getD v false with
        | nil => rw [hus] at hul; exact absurd rfl hul
        | cons u us =>
          have hall : ∀ x ∈ u :: us, x < 4 ^ k ∧ 0 < a.deg x ∧ ¬ C.getD x false = true := by
            intro x hx
            rw [← hus, List.mem_filter] at hx
            obtain ⟨hx1, hx2⟩ := hx
            have := (mem_vs h.wf x).1 hx1
            refine ⟨this.1, this.2, fun hc => ?_⟩
            rw [usefulOf_closed hC hCs h hc] at hx2
            cases hx2
          have hall' : ∀ x ∈ u :: us, x < 4 ^ k ∧ ¬ C.getD x false = true :=
            fun x hx => ⟨(hall x hx).1, (hall x hx).2.2⟩
          obtain ⟨r1, _⟩ := removeAll_inv hk hC.trimClosed hCs (u :: us) a h hall'
          have r2 := removeAll_lt hk hC.trimClosed hCs u us a h hall' (hall u (by simp)).2.1
          exact ih _ r1 (by omega)


/-! ### the first accessor, the last accessor -/

theorem induced_deg_pos {k : Nat} {s : Mask} {v : Nat} (hv : v < 4 ^ k)
    (h : 0 < (inducedAccessor k s).deg v) : s.getD v false = true := by
  obtain ⟨j, hj, he⟩ := (deg_pos_iff _ v).1 h
  rw [inducedAccessor_ent_trim k s v j hv hj] at he
  split at he
  · rename_i hc; exact hc.1
  · omega

theorem induced_deg_pos_of_closed {k : Nat} {s : Mask} (hs : TrimClosed k 1 s) {v : Nat}
    (hv : v < 4 ^ k) (h : s.getD v false = true) : 0 < (inducedAccessor k s).deg v := by
  obtain ⟨j, hj, hw⟩ := closed_succ hs h
  refine (deg_pos_iff _ v).2 ⟨j, hj, ?_⟩
  rw [inducedAccessor_ent_trim k s v j hv hj, if_pos ⟨h, hw⟩]
  omega

/-- the invariant holds for the graph induced on a mask closed for threshold 1. -/
theorem init_inv {k : Nat} {C s : Mask} (hs : TrimClosed k 1 s) (hCs : Mask.Le C s) :
    CInv k C s (inducedAccessor k s) [] := by
  refine ⟨inducedAccessor_wfdb k s, ?_, ?_, ?_, ?_, ?_⟩
  · intro u j hu hj h1 h2
    have := induced_deg_pos hu h1
    have := induced_deg_pos (shift_lt k u j) h2
    rw [inducedAccessor_ent_trim k s u j hu hj, if_pos ⟨by assumption, by assumption⟩]
    omega
  · intro p hp; cases hp
  · intro u j hu hj he hd
    exfalso
    rw [inducedAccessor_ent_trim k s u j hu hj] at he
    split at he
    · rename_i hc
      have := induced_deg_pos_of_closed hs (shift_lt k u j) hc.2
      omega
    · omega
  · intro u j hu hj h1 h2
    rw [inducedAccessor_ent_trim k s u j hu hj, if_pos ⟨hCs _ h1, hCs _ h2⟩]
    omega
  · intro u hu h; exact induced_deg_pos hu h

/-- the vertices with arcs, as a mask. -/
def liveMask (k : Nat) (a : Acc) : Mask := (Array.range (4 ^ k)).map fun v => decide (0 < a.deg v)

theorem liveMask_size (k : Nat) (a : Acc) : (liveMask k a).size = 4 ^ k := by simp [liveMask]

theorem liveMask_getD (k : Nat) (a : Acc) (v : Nat) :
    (liveMask k a).getD v false = true ↔ v < 4 ^ k ∧ 0 < a.deg v := by
  unfold liveMask
  by_cases hv : v < 4 ^ k
  · rw [getD_range_map _ _ _ _ hv]; simp [hv]
  · simp [Array.getD, hv]

/-- no arc into a vertex without arcs. -/
theorem CInv.target_live {k : Nat} {C M : Mask} {a : Acc} (h : CInv k C M a []) {u j : Nat}
    (hu : u < 4 ^ k) (hj : j < 4) (he : 0 ≤ a.ent (u : Int) j) :
    0 < a.deg ((u * 4 + j) % 4 ^ k) := by
  apply Classical.byContradiction
  intro hn
  have := h.pend u j hu hj he (by omega)
  cases this

theorem final_induced {k : Nat} {C M : Mask} {a : Acc} (h : CInv k C M a []) :
    a = inducedAccessor k (liveMask k a) := by
  apply wfdb_ext h.wf (inducedAccessor_wfdb k _)
  intro v j hv hj
  rw [inducedAccessor_ent_trim k _ v j hv hj]
  by_cases he : 0 ≤ a.ent (v : Int) j
  · rw [if_pos]
    · exact (h.wf.ent_nonneg_iff hv hj).1 he
    · exact ⟨(liveMask_getD k a v).2 ⟨hv, (deg_pos_iff a v).2 ⟨j, hj, he⟩⟩,
        (liveMask_getD k a _).2 ⟨shift_lt k v j, h.target_live hv hj he⟩⟩
  · rw [if_neg]
    · exact h.wf.ent_neg hv hj he
    · rintro ⟨h1, h2⟩
      exact he (h.ind v j hv hj ((liveMask_getD k a v).1 h1).2 ((liveMask_getD k a _).1 h2).2)

theorem deg_le_succCount {k : Nat} {C M : Mask} {a : Acc} (h : CInv k C M a []) {v : Nat}
    (hv : v < 4 ^ k) : a.deg v ≤ succCount k (liveMask k a) v := by
  rw [succCount_eq, deg_eq]
  apply filter_length_mono_mem
  intro j hj he
  simp only [List.mem_range] at hj
  simp only [ge_iff_le, decide_eq_true_eq] at he
  exact (liveMask_getD k a _).2 ⟨shift_lt k v j, h.target_live hv hj he⟩

theorem deg_pos_lt {k : Nat} {a : Acc} (h : WFdB k a) {v : Nat} (hv : 0 < a.deg v) : v < 4 ^ k := by
  apply Classical.byContradiction
  intro hn
  have := Acc.live_oob a v (by rw [h.1]; omega)
  unfold Acc.deg at hv
  rw [this] at hv
  cases hv

theorem arb_rb {k : Nat} {C M : Mask} {a : Acc} (h : CInv k C M a []) {v : Nat} (hv : ARB a v) :
    RB k (liveMask k a) v := by
  induction hv with
  | here v h2 =>
    have hvn := deg_pos_lt h.wf (by omega : 0 < a.deg v)
    exact RB.here v ((liveMask_getD k a v).2 ⟨hvn, by omega⟩)
      (Nat.le_trans h2 (deg_le_succCount h hvn))
  | step v w hw _ ih =>
    obtain ⟨j, hj, he⟩ := (Acc.mem_liveEntries a _ w).1 hw
    have hpos : 0 < a.deg v := (deg_pos_iff a v).2 ⟨j, hj, by omega⟩
    have hvn := deg_pos_lt h.wf hpos
    have hw' : ((v * 4 + j) % 4 ^ k : Nat) = w := by
      have := (h.wf.ent_nonneg_iff hvn hj).1 (by omega)
      omega
    have hlw := h.target_live hvn hj (by omega)
    rw [hw'] at hlw
    refine RB.step v w ((liveMask_getD k a v).2 ⟨hvn, hpos⟩) ?_
      ((liveMask_getD k a w).2 ⟨by rw [← hw']; exact shift_lt k v j, hlw⟩) ih
    rw [← hw']; exact shift_mem k v j hj

theorem final_closed {k : Nat} {C M : Mask} {a : Acc} (h : CInv k C M a [])
    (harb : ∀ v ∈ obtainVertices a, ARB a v) : ClosedOne k (liveMask k a) := by
  intro v hv
  obtain ⟨hvn, hpos⟩ := (liveMask_getD k a v).1 hv
  refine ⟨Nat.le_trans hpos (deg_le_succCount h hvn), arb_rb h (harb v ?_)⟩
  exact (mem_vs h.wf v).2 ⟨hvn, hpos⟩

theorem final_indices {k : Nat} {a : Acc} (h : WFdB k a) :
    obtainVertices a = (liveMask k a).indices := by
  rw [h.obtainVertices_eq]
  unfold Mask.indices
  rw [liveMask_size]
  apply List.filter_congr
  intro v hv
  rw [List.mem_range] at hv
  rw [Bool.eq_iff_iff, liveMask_getD]
  simp only [decide_eq_true_eq]
  unfold Acc.deg
  rw [List.length_pos_iff]
  exact ⟨fun h => ⟨hv, h⟩, fun h => h.2⟩

theorem closedOne_empty (k : Nat) : ClosedOne k (Array.replicate (4 ^ k) false) := by
  intro v hv
  exfalso
  by_cases h : v < 4 ^ k
  · simp [Array.getD, h] at hv
  · simp [Array.getD, h] at hv

/-- the threshold-1 phase on the output of the trimming loop. -/
theorem thresholdOne_main {k : Nat} {s0 : Mask} (hk : 1 ≤ k) (hcl : TrimClosed k 1 s0) :
    (∀ vs a, thresholdOneLoop k (4 ^ k + 1) (inducedAccessor k s0) = .ok (vs, a) →
      ∃ s : Mask, s.size = 4 ^ k ∧ Mask.Le s s0 ∧ ClosedOne k s ∧
        (∀ c : Mask, c.size = 4 ^ k → Mask.Le c s0 → ClosedOne k c → Mask.Le c s) ∧
        a = inducedAccessor k s ∧ vs = s.indices ∧ vs = obtainVertices a ∧ vs ≠ []) ∧
    (∀ e, thresholdOneLoop k (4 ^ k + 1) (inducedAccessor k s0) = .error e →
      e = .valueError ∧
      ∀ c : Mask, c.size = 4 ^ k → Mask.Le c s0 → ClosedOne k c → ∀ v, ¬ c.getD v false = true) := by
  have hfuel : liveCount k (inducedAccessor k s0) < 4 ^ k + 1 := by
    have := liveCount_le k (inducedAccessor k s0); omega
  have hempty : Mask.Le (Array.replicate (4 ^ k) false) s0 := by
    intro v hv
    exfalso
    by_cases h : v < 4 ^ k
    · simp [Array.getD, h] at hv
    · simp [Array.getD, h] at hv
  refine ⟨fun vs a hr => ?_, fun e he => ?_⟩
  · obtain ⟨h1, h2, h3, h4⟩ := (loop_spec (M := s0) hk (closedOne_empty k) (by simp) _ _
      (init_inv hcl hempty) hfuel).1 vs a hr
    refine ⟨liveMask k a, liveMask_size k a, ?_, final_closed h1 (h2 ▸ h4), ?_, final_induced h1,
      ?_, h2, h3⟩
    · intro v hv
      obtain ⟨hvn, hpos⟩ := (liveMask_getD k a v).1 hv
      exact h1.sub v hvn hpos
    · intro c hcs hc0 hcc v hv
      obtain ⟨g1, _⟩ := (loop_spec (M := s0) hk hcc hcs _ _ (init_inv hcl hc0) hfuel).1 vs a hr
      exact (liveMask_getD k a v).2
        ⟨by rw [← hcs]; exact Mask.lt_size_of_getD hv, g1.c_live hcc.trimClosed hcs hv⟩
    · rw [h2]; exact final_indices h1.wf
  · have e1 := ((loop_spec (M := s0) hk (closedOne_empty k) (by simp) _ _
      (init_inv hcl hempty) hfuel).2 e he).1
    refine ⟨e1, fun c hcs hc0 hcc => ?_⟩
    exact ((loop_spec (M := s0) hk hcc hcs _ _ (init_inv hcl hc0) hfuel).2 e he).2

theorem connectCodingGraph_one (k : Nat) (m : Mask) :
    connectCodingGraph k m 1 =
      match trimLoop k 1 (4 ^ k + 1) m with
      | .error e => .error e
      | .ok s => thresholdOneLoop k (4 ^ k + 1) (inducedAccessor k s) := by
  unfold connectCodingGraph
  cases trimLoop k 1 (4 ^ k + 1) m with
  | error e => rfl
  | ok s => simp [bind, Except.bind]



/-! ### `remove_useless` -/

theorem mask_ext {a b : Mask} (hs : a.size = b.size) (h : ∀ v, a.getD v false = b.getD v false) :
    a = b := by
  apply Array.ext hs
  intro i h1 h2
  have := h i
  simpa [Array.getD, h1, h2] using this

/-- the latter map with keys `K` whose lists are the successors inside `T`. -/
def lmOf (k : Nat) (K T : Mask) : LMap :=
  K.indices.map fun v => (v, (obtainLatters k v).filter fun w => T.getD w false)

/-- keys of the next round. -/
def nextKeys (k t : Nat) (K T : Mask) : Mask :=
  (Array.range (4 ^ k)).map fun v => K.getD v false && decide (t ≤ succCount k T v)

theorem nextKeys_size (k t : Nat) (K T : Mask) : (nextKeys k t K T).size = 4 ^ k := by
  simp [nextKeys]

theorem nextKeys_getD (k t : Nat) (K T : Mask) (hK : K.size = 4 ^ k) (v : Nat) :
    (nextKeys k t K T).getD v false = (K.getD v false && decide (t ≤ succCount k T v)) := by
  unfold nextKeys
  by_cases hv : v < 4 ^ k
  · rw [getD_range_map _ _ _ _ hv]
  · have : K.getD v false = false := by
      cases h : K.getD v false with
      | false => rfl
      | true => have := Mask.lt_size_of_getD h; omega
    rw [this]
    simp [Array.getD, hv]

theorem mem_lmOf {k : Nat} {K T : Mask} {p : Nat × List Nat} :
    p ∈ lmOf k K T ↔ K.getD p.1 false = true ∧
      p.2 = (obtainLatters k p.1).filter fun w => T.getD w false := by
  unfold lmOf
  rw [List.mem_map]
  constructor
  · rintro ⟨v, hv, rfl⟩
    exact ⟨Mask.mem_indices.1 hv, rfl⟩
  · rintro ⟨h1, h2⟩
    refine ⟨p.1, Mask.mem_indices.2 h1, ?_⟩
    rw [← h2]

theorem succCount_def (k : Nat) (T : Mask) (v : Nat) :
    ((obtainLatters k v).filter fun w => T.getD w false).length = succCount k T v := rfl

def rmKeys (m : LMap) (t : Nat) : List Nat := (m.filter fun p => p.2.length < t).map (·.1)
def svKeys (m : LMap) (t : Nat) : List Nat := (m.filter fun p => ¬ p.2.length < t).map (·.1)
def keepB (m : LMap) (t : Nat) (w : Nat) : Bool := !(rmKeys m t).contains w && (svKeys m t).contains w

theorem round_eq (m : LMap) (t : Nat) : removeUselessRound m t =
    (((m.filter fun p => !(rmKeys m t).contains p.1).map fun p => (p.1, p.2.filter (keepB m t))),
     (m.filter fun p => !(rmKeys m t).contains p.1).any fun p => p.2.any fun w => !keepB m t w) := rfl

theorem mem_rmKeys {k t : Nat} {K T : Mask} {w : Nat} :
    w ∈ rmKeys (lmOf k K T) t ↔ K.getD w false = true ∧ succCount k T w < t := by
  unfold rmKeys
  simp only [List.mem_map, List.mem_filter, mem_lmOf, decide_eq_true_eq]
  constructor
  · rintro ⟨p, ⟨⟨h1, h2⟩, h3⟩, rfl⟩
    rw [h2, succCount_def] at h3
    exact ⟨h1, h3⟩
  · rintro ⟨h1, h2⟩
    exact ⟨(w, (obtainLatters k w).filter fun x => T.getD x false), ⟨⟨h1, rfl⟩, h2⟩, rfl⟩

theorem mem_svKeys {k t : Nat} {K T : Mask} {w : Nat} :
    w ∈ svKeys (lmOf k K T) t ↔ K.getD w false = true ∧ t ≤ succCount k T w := by
  unfold svKeys
  simp only [List.mem_map, List.mem_filter, mem_lmOf, decide_eq_true_eq]
  constructor
  · rintro ⟨p, ⟨⟨h1, h2⟩, h3⟩, rfl⟩
    rw [h2, succCount_def] at h3
    exact ⟨h1, by omega⟩
  · rintro ⟨h1, h2⟩
    exact ⟨(w, (obtainLatters k w).filter fun x => T.getD x false), ⟨⟨h1, rfl⟩, by
      simp only [succCount_def]; omega⟩, rfl⟩

/-- the keys that survive a round. -/
theorem keepB_lmOf {k t : Nat} {K T : Mask} (hK : K.size = 4 ^ k) (w : Nat) :
    keepB (lmOf k K T) t w = (nextKeys k t K T).getD w false := by
  rw [nextKeys_getD k t K T hK, Bool.eq_iff_iff]
  unfold keepB
  simp only [Bool.and_eq_true, Bool.not_eq_true', List.contains_eq_mem, decide_eq_false_iff_not,
    decide_eq_true_eq, mem_rmKeys, mem_svKeys]
  constructor
  · rintro ⟨_, h⟩; exact h
  · rintro h; exact ⟨fun h' => by omega, h⟩

theorem nextKeys_le (k t : Nat) (K T : Mask) (hK : K.size = 4 ^ k) : Mask.Le (nextKeys k t K T) K := by
  intro v hv
  rw [nextKeys_getD k t K T hK] at hv
  simp only [Bool.and_eq_true] at hv
  exact hv.1

theorem indices_nextKeys {k t : Nat} {K T : Mask} (hK : K.size = 4 ^ k) :
    K.indices.filter (fun v => !(rmKeys (lmOf k K T) t).contains v) = (nextKeys k t K T).indices := by
  unfold Mask.indices
  rw [List.filter_filter, nextKeys_size, hK]
  apply List.filter_congr
  intro v _
  rw [nextKeys_getD k t K T hK, Bool.eq_iff_iff]
  simp only [Bool.and_eq_true, Bool.not_eq_true', List.contains_eq_mem, decide_eq_false_iff_not,
    decide_eq_true_eq, mem_rmKeys]
  constructor
  · rintro ⟨h1, h2⟩
    refine ⟨h2, ?_⟩
    apply Classical.byContradiction
    intro hn
    exact h1 ⟨h2, by omega⟩
  · rintro ⟨h1, h2⟩
    exact ⟨fun h => by omega, h1⟩

/-- one round on a map of the shape `lmOf`. -/
theorem round_lmOf {k t : Nat} {K T : Mask} (hK : K.size = 4 ^ k) (hKT : Mask.Le K T) :
    (removeUselessRound (lmOf k K T) t).1 = lmOf k (nextKeys k t K T) (nextKeys k t K T) := by
  rw [round_eq]
  simp only
  have e : (lmOf k K T).filter (fun p => !(rmKeys (lmOf k K T) t).contains p.1) =
      (nextKeys k t K T).indices.map fun v => (v, (obtainLatters k v).filter fun w => T.getD w false) := by
    rw [← indices_nextKeys hK]
    unfold lmOf
    rw [List.filter_map]
    rfl
  rw [e, List.map_map]
  show _ = (nextKeys k t K T).indices.map fun v =>
    (v, (obtainLatters k v).filter fun w => (nextKeys k t K T).getD w false)
  apply List.map_congr_left
  intro v _
  simp only [Function.comp]
  congr 1
  rw [List.filter_filter]
  apply List.filter_congr
  intro w _
  rw [keepB_lmOf hK]
  cases h : (nextKeys k t K T).getD w false with
  | false => rfl
  | true => rw [hKT w (nextKeys_le k t K T hK w h)]; rfl

theorem round_flag_false {k t : Nat} {K T : Mask} (hK : K.size = 4 ^ k)
    (h : (removeUselessRound (lmOf k K T) t).2 = false) : TrimClosed k t (nextKeys k t K T) := by
  rw [round_eq] at h
  simp only at h
  rw [List.any_eq_false] at h
  intro v hv
  have hv' := hv
  rw [nextKeys_getD k t K T hK] at hv'
  simp only [Bool.and_eq_true, decide_eq_true_eq] at hv'
  have hmem : (v, (obtainLatters k v).filter fun w => T.getD w false) ∈
      (lmOf k K T).filter (fun p => !(rmKeys (lmOf k K T) t).contains p.1) := by
    rw [List.mem_filter]
    refine ⟨mem_lmOf.2 ⟨hv'.1, rfl⟩, ?_⟩
    simp only [Bool.not_eq_true', List.contains_eq_mem, decide_eq_false_iff_not, mem_rmKeys]
    intro hh; omega
  have h2 := h _ hmem
  simp only [Bool.not_eq_true, List.any_eq_false, Bool.not_eq_true', Bool.not_eq_false] at h2
  refine Nat.le_trans hv'.2 ?_
  unfold succCount
  apply filter_length_mono_mem
  intro w hw hT
  have := h2 w (List.mem_filter.2 ⟨hw, hT⟩)
  rw [keepB_lmOf hK] at this
  exact this

/-! arcs -/

theorem foldl_add (l : List Nat) (a : Nat) : l.foldl (· + ·) a = a + l.foldl (· + ·) 0 := by
  induction l generalizing a with
  | nil => simp
  | cons x xs ih => rw [List.foldl_cons, List.foldl_cons, ih (a + x), ih (0 + x)]; omega

theorem arcs_nil : LMap.arcs [] = 0 := rfl

theorem arcs_cons (p : Nat × List Nat) (m : LMap) : LMap.arcs (p :: m) = p.2.length + LMap.arcs m := by
  unfold LMap.arcs
  rw [List.map_cons, List.foldl_cons, foldl_add]
  omega

theorem arcs_filter_map (P : Nat × List Nat → Bool) (q : Nat → Bool) (m : LMap) :
    LMap.arcs ((m.filter P).map fun p => (p.1, p.2.filter q)) ≤ LMap.arcs m ∧
    ((m.filter P).any (fun p => p.2.any fun w => !q w) = true →
      LMap.arcs ((m.filter P).map fun p => (p.1, p.2.filter q)) < LMap.arcs m) := by
  induction m with
  | nil => simp [arcs_nil]
  | cons p ps ih =>
    obtain ⟨i1, i2⟩ := ih
    rw [List.filter_cons]
    by_cases hP : P p = true
    · rw [if_pos hP, List.map_cons, arcs_cons, arcs_cons, List.any_cons]
      have hl := List.length_filter_le q p.2
      refine ⟨by simp only; omega, fun h => ?_⟩
      simp only
      rcases Bool.or_eq_true_iff.1 h with h | h
      · have : (p.2.filter q).length < p.2.length := by
          rw [List.length_filter_lt_length_iff_exists]
          rw [List.any_eq_true] at h
          obtain ⟨w, hw, hq⟩ := h
          exact ⟨w, hw, by simpa using hq⟩
        omega
      · have := i2 h; omega
    · rw [if_neg hP, arcs_cons]
      exact ⟨by omega, fun h => by have := i2 h; omega⟩

theorem round_arcs_lt (m : LMap) (t : Nat) (h : (removeUselessRound m t).2 = true) :
    (removeUselessRound m t).1.arcs < m.arcs := by
  rw [round_eq] at h ⊢
  exact (arcs_filter_map _ _ m).2 h


theorem removeUselessLoop_spec {k t : Nat} {m s : Mask} (hs1 : s.size = 4 ^ k)
    (hs3 : TrimClosed k t s)
    (hmax : ∀ c : Mask, Mask.Le c m → TrimClosed k t c → Mask.Le c s) :
    ∀ (fuel : Nat) (K T : Mask), K.size = 4 ^ k → Mask.Le K T → Mask.Le T m → Mask.Le s K →
      (lmOf k K T).arcs < fuel → removeUselessLoop t fuel (lmOf k K T) = .ok (lmOf k s s) := by
  intro fuel
  induction fuel with
  | zero => intro K T _ _ _ _ h; omega
  | succ f ih =>
    intro K T hK hKT hTm hsK harcs
    have hsK' : Mask.Le s (nextKeys k t K T) := by
      intro v hv
      rw [nextKeys_getD k t K T hK]
      simp only [Bool.and_eq_true, decide_eq_true_eq]
      exact ⟨hsK v hv, Nat.le_trans (hs3 v hv) (succCount_mono (hsK.trans hKT) v)⟩
    have hK'm : Mask.Le (nextKeys k t K T) m := (nextKeys_le k t K T hK).trans (hKT.trans hTm)
    rw [removeUselessLoop]
    by_cases hflag : (removeUselessRound (lmOf k K T) t).2 = true
    · rw [if_pos hflag]
      have := round_arcs_lt _ _ hflag
      rw [round_lmOf hK hKT] at this ⊢
      exact ih _ _ (nextKeys_size k t K T) (Mask.Le.refl _) hK'm hsK' (by omega)
    · rw [if_neg hflag, round_lmOf hK hKT]
      have hcl := round_flag_false hK (by simpa using hflag)
      have hle := hmax _ hK'm hcl
      have : nextKeys k t K T = s := by
        apply mask_ext (by rw [nextKeys_size, hs1])
        intro v
        rw [Bool.eq_iff_iff]
        exact ⟨hle v, hsK' v⟩
      rw [this]

theorem trimStep_one_of_closed {k : Nat} {s : Mask} (hs : s.size = 4 ^ k) (hc : TrimClosed k 1 s) :
    trimStep k 1 s = s := by
  apply mask_ext (by rw [trimStep_size, hs])
  intro v
  rw [trimStep_getD, Bool.eq_iff_iff]
  simp only [Bool.and_eq_true, decide_eq_true_eq]
  constructor
  · rintro ⟨_, h, _⟩; exact h
  · intro h
    exact ⟨by rw [← hs]; exact Mask.lt_size_of_getD h, h, hc v h⟩

/-- the latter map of an induced accessor. -/
theorem accessorToLatterMap_induced (k : Nat) (m : Mask) :
    accessorToLatterMap (inducedAccessor k m) = lmOf k (trimStep k 1 m) m := by
  have hv : obtainVertices (inducedAccessor k m) = (trimStep k 1 m).indices := by
    unfold obtainVertices Mask.indices
    rw [inducedAccessor_size_trim, trimStep_size]
    apply List.filter_congr
    intro v hv
    rw [List.mem_range] at hv
    rw [inducedAccessor_row_any k m v hv, trimStep_getD]
    simp [hv]
  unfold accessorToLatterMap lmOf
  rw [hv]
  apply List.map_congr_left
  intro v hvm
  have hvm' := Mask.mem_indices.1 hvm
  rw [trimStep_getD] at hvm'
  simp only [Bool.and_eq_true, decide_eq_true_eq] at hvm'
  obtain ⟨hvn, hmv, _⟩ := hvm'
  congr 1
  rw [(inducedAccessor_wfdb k m).liveEntries_eq hvn]
  unfold obtainLatters Acc.live
  rw [List.filter_map]
  congr 1
  apply List.filter_congr
  intro j hj
  rw [List.mem_range] at hj
  simp only [Function.comp]
  rw [inducedAccessor_ent_trim k m v j hvn hj, Bool.eq_iff_iff]
  simp only [ge_iff_le, decide_eq_true_eq]
  constructor
  · intro h
    split at h
    · rename_i hc; exact hc.2
    · omega
  · intro h
    rw [if_pos ⟨hmv, h⟩]; omega

theorem latterMapToAccessor_some (lm lm' : LMap) (k t : Nat) (h : removeUseless lm t = .ok lm') :
    latterMapToAccessor lm k (some t) = latterMapToAccessor lm' k none := by
  unfold latterMapToAccessor
  simp only [h, bind, Except.bind, pure, Except.pure]

/-- trimming the latter map of the induced graph to threshold `t` gives the graph induced on the
result of the trimming loop. -/
theorem latterMap_trim {k t f : Nat} {m s : Mask} (hk : 1 ≤ k) (ht : 1 ≤ t) (hm : m.size = 4 ^ k)
    (hl : trimLoop k t f m = .ok s) :
    latterMapToAccessor (accessorToLatterMap (inducedAccessor k m)) k (some t) =
      .ok (inducedAccessor k s) := by
  obtain ⟨h1, h2, h3, h4, _⟩ := trimLoop_ok k t f m s hm hl
  have hc1 : TrimClosed k 1 s := fun v hv => Nat.le_trans ht (h3 v hv)
  have hloop : removeUseless (accessorToLatterMap (inducedAccessor k m)) t =
      .ok (accessorToLatterMap (inducedAccessor k s)) := by
    rw [accessorToLatterMap_induced k s, trimStep_one_of_closed h1 hc1, accessorToLatterMap_induced k m]
    unfold removeUseless
    exact removeUselessLoop_spec h1 h3 h4 _ _ _ (trimStep_size k 1 m) (trimStep_le k 1 m)
      (Mask.Le.refl m) (trimStep_closed_le hm h2 hc1) (by omega)
  rw [latterMapToAccessor_some _ _ k t hloop]
  exact latterMap_roundtrip k _ hk (inducedAccessor_wfdb k s)



/-! ### what the encoder needs from the generated graph -/

theorem trimClosed_closedOne {k t : Nat} {s : Mask} (ht : 2 ≤ t) (h : TrimClosed k t s) :
    ClosedOne k s := fun v hv =>
  ⟨Nat.le_trans (by omega) (h v hv), RB.here v hv (Nat.le_trans ht (h v hv))⟩

theorem succCount_le_induced_deg {k : Nat} {s : Mask} {v : Nat} (hvn : v < 4 ^ k)
    (hv : s.getD v false = true) : succCount k s v ≤ (inducedAccessor k s).deg v := by
  rw [succCount_eq, deg_eq]
  apply filter_length_mono_mem
  intro j hj hc
  rw [List.mem_range] at hj
  rw [inducedAccessor_ent_trim k s v j hvn hj, if_pos ⟨hv, hc⟩]
  exact decide_eq_true (Int.natCast_nonneg _)

/-- an arc of an induced accessor leads from a marked vertex to a marked vertex. -/
theorem induced_arc {k : Nat} {s : Mask} {v j : Nat} (hvn : v < 4 ^ k)
    (hj : j ∈ (inducedAccessor k s).live (v : Int)) :
    (inducedAccessor k s).ent (v : Int) j = (((v * 4 + j) % 4 ^ k : Nat) : Int) ∧
      s.getD ((v * 4 + j) % 4 ^ k) false = true := by
  rw [Acc.mem_live] at hj
  obtain ⟨hj4, he⟩ := hj
  rw [inducedAccessor_ent_trim k s v j hvn hj4] at he ⊢
  split at he
  · rename_i hc
    rw [if_pos hc]; exact ⟨rfl, hc.2⟩
  · omega

theorem induced_reach_marked {k : Nat} {s : Mask} (hs : s.size = 4 ^ k) {x u : Int}
    (h : (inducedAccessor k s).Reach x u) :
    ∀ v : Nat, x = (v : Int) → s.getD v false = true →
      ∃ u0 : Nat, u = (u0 : Int) ∧ s.getD u0 false = true := by
  induction h with
  | refl x => intro v hx hv; exact ⟨v, hx, hv⟩
  | step x j w hj _ ih =>
    intro v hx hv
    subst hx
    have hvn : v < 4 ^ k := by rw [← hs]; exact Mask.lt_size_of_getD hv
    obtain ⟨e1, e2⟩ := induced_arc hvn hj
    exact ih _ e1 e2

theorem induced_rb_reach {k : Nat} {s : Mask} (hs : s.size = 4 ^ k) {v : Nat} (h : RB k s v) :
    ∃ w : Int, (inducedAccessor k s).Reach (v : Int) w ∧ (inducedAccessor k s).outDeg w ≥ 2 := by
  induction h with
  | here v hv h2 =>
    have hvn : v < 4 ^ k := by rw [← hs]; exact Mask.lt_size_of_getD hv
    exact ⟨(v : Int), Acc.Reach.refl _, Nat.le_trans h2 (succCount_le_induced_deg hvn hv)⟩
  | step v w hv hw hsw _ ih =>
    have hvn : v < 4 ^ k := by rw [← hs]; exact Mask.lt_size_of_getD hv
    obtain ⟨x, hx1, hx2⟩ := ih
    obtain ⟨j, hj, rfl⟩ := (mem_obtainLatters k v w).1 hw
    have he : (inducedAccessor k s).ent (v : Int) j = (((v * 4 + j) % 4 ^ k : Nat) : Int) := by
      rw [inducedAccessor_ent_trim k s v j hvn hj, if_pos ⟨hv, hsw⟩]
    refine ⟨x, Acc.Reach.step _ j x ((Acc.mem_live _ _ _).2 ⟨hj, by rw [he]; omega⟩) ?_, hx2⟩
    rw [he]; exact hx1

/-- on the graph induced on a `ClosedOne` mask every marked vertex is a good start for the
encoder. -/
theorem induced_goodFrom {k : Nat} {s : Mask} (hs : s.size = 4 ^ k) (hc : ClosedOne k s) {v : Nat}
    (hv : s.getD v false = true) : (inducedAccessor k s).GoodFrom (v : Int) := by
  intro u hu
  obtain ⟨u0, rfl, hu0⟩ := induced_reach_marked hs hu v rfl hv
  have hun : u0 < 4 ^ k := by rw [← hs]; exact Mask.lt_size_of_getD hu0
  refine ⟨⟨by omega, ?_⟩, ?_, induced_rb_reach hs (hc u0 hu0).2⟩
  · rw [inducedAccessor_size_trim]; exact_mod_cast hun
  · exact induced_deg_pos_of_closed hc.trimClosed hun hu0


end Dsw.TrimOne
