import DswModel.Lemmas.PowerStopFStep
/-!
# The rational arithmetic of the double-precision certificate (for C17c)
-/
namespace Dsw.PowerStopF
open Dsw.FloatErr

/-- the arithmetic core, with all constants abstract. -/
theorem cert_core (s Y E Z X T δ θ η κ u ε ζ : Rat)
    (hθ : 0 < θ) (hE : θ ≤ E) (hη0 : 0 ≤ η) (hηθ : 2 * η ≤ θ) (hκ0 : 0 ≤ κ) (hκ : 4 * κ ≤ θ * θ)
    (hu0 : 0 ≤ u) (hu1 : u ≤ 1) (hε0 : 0 ≤ ε) (hε1 : ε ≤ 1) (hζ1 : ζ ≤ 1)
    (F1 : 1 ≤ (1 + ζ) * ((1 - ε) * (1 - u))) (F2 : (1 - ζ) * ((1 + ε) * (1 + u)) ≤ 1)
    (hs0 : 0 ≤ s) (hY0 : 0 ≤ Y) (hY1 : Y ≤ s * (1 + ε) + κ) (hY2 : s * (1 - ε) - κ ≤ Y)
    (hZ : |Z - Y / E| ≤ u * |Y / E| + η) (hZX : |Z - X| < T)
    (hδ : 0 < δ) (hX : δ ≤ X) :
    E * (1 - (T + θ) / δ) * (1 - ζ) * X ≤ s ∧ s ≤ E * (1 + (T + θ) / δ) * (1 + ζ) * X := by
  have hEpos : 0 < E := lt_of_lt_of_le hθ hE
  have hT : 0 ≤ T := le_of_lt (lt_of_le_of_lt (abs_nonneg _) hZX)
  obtain ⟨W, hW⟩ : ∃ W, W = Y / E := ⟨_, rfl⟩
  have hYW : Y = W * E := by rw [hW]; field_simp
  have hW0 : 0 ≤ W := by rw [hW]; exact div_nonneg hY0 (le_of_lt hEpos)
  rw [← hW, abs_of_nonneg hW0, abs_le] at hZ
  rw [abs_lt] at hZX
  obtain ⟨hZ1, hZ2⟩ := hZ
  obtain ⟨hZX1, hZX2⟩ := hZX
  -- Q = (T + θ)/δ · X ≥ T + θ
  obtain ⟨Q, hQ⟩ : ∃ Q, Q = (T + θ) / δ * X := ⟨_, rfl⟩
  have hQge : T + θ ≤ Q := by
    rw [hQ, div_mul_eq_mul_div, le_div_iff₀ hδ]
    exact mul_le_mul_of_nonneg_left hX (by linarith)
  -- the junk is dominated by E·θ
  have hjunk : E * η + 2 * κ ≤ E * θ := by
    have h1 : E * (θ - 2 * η) ≥ 0 := mul_nonneg (le_of_lt hEpos) (by linarith)
    have h2 : θ * θ ≤ E * θ := mul_le_mul_of_nonneg_right hE (le_of_lt hθ)
    nlinarith
  constructor
  · -- lower
    have b2 : E * Z - E * η ≤ W * E * (1 + u) := by
      have := mul_le_mul_of_nonneg_left hZ2 (le_of_lt hEpos)
      nlinarith
    have b3 : E * (X - T) ≤ E * Z := mul_le_mul_of_nonneg_left (by linarith) (le_of_lt hEpos)
    have b4 : (W * E - κ) * (1 + u) ≤ s * (1 + ε) * (1 + u) :=
      mul_le_mul_of_nonneg_right (by linarith) (by linarith)
    have b5 : κ * u ≤ κ := mul_le_of_le_one_right hκ0 hu1
    have b6 : E * (X - Q) ≤ E * (X - T - θ) := mul_le_mul_of_nonneg_left (by linarith) (le_of_lt hEpos)
    have hM : E * (X - Q) ≤ s * ((1 + ε) * (1 + u)) := by nlinarith
    have b7 : (1 - ζ) * (E * (X - Q)) ≤ (1 - ζ) * (s * ((1 + ε) * (1 + u))) :=
      mul_le_mul_of_nonneg_left hM (by linarith)
    have b8 : s * ((1 - ζ) * ((1 + ε) * (1 + u))) ≤ s * 1 := mul_le_mul_of_nonneg_left F2 hs0
    have e : E * (1 - (T + θ) / δ) * (1 - ζ) * X = (1 - ζ) * (E * (X - Q)) := by rw [hQ]; ring
    rw [e]
    nlinarith
  · -- upper
    have a2 : W * E * (1 - u) ≤ E * Z + E * η := by
      have := mul_le_mul_of_nonneg_left hZ1 (le_of_lt hEpos)
      nlinarith
    have a3 : E * Z ≤ E * (X + T) := mul_le_mul_of_nonneg_left (by linarith) (le_of_lt hEpos)
    have a4 : s * (1 - ε) * (1 - u) ≤ (W * E + κ) * (1 - u) :=
      mul_le_mul_of_nonneg_right (by linarith) (by linarith)
    have a5 : 0 ≤ κ * u := mul_nonneg hκ0 hu0
    have a6 : E * (X + T + θ) ≤ E * (X + Q) := mul_le_mul_of_nonneg_left (by linarith) (le_of_lt hEpos)
    have hM : s * ((1 - ε) * (1 - u)) ≤ E * (X + Q) := by nlinarith
    have hζ0 : 0 ≤ 1 + ζ := by
      by_contra hc
      have h1 : (1 - ε) * (1 - u) ≥ 0 := mul_nonneg (by linarith) (by linarith)
      nlinarith
    have a7 : (1 + ζ) * (s * ((1 - ε) * (1 - u))) ≤ (1 + ζ) * (E * (X + Q)) :=
      mul_le_mul_of_nonneg_left hM hζ0
    have a8 : s * 1 ≤ s * ((1 + ζ) * ((1 - ε) * (1 - u))) := mul_le_mul_of_nonneg_left F1 hs0
    have e : E * (1 + (T + θ) / δ) * (1 + ζ) * X = (1 + ζ) * (E * (X + Q)) := by rw [hQ]; ring
    rw [e]
    nlinarith

end Dsw.PowerStopF
