import DswModel.Lemmas.PowerStopFStep
/-!
# The rational arithmetic of the double-precision certificate (for C17c)
-/
namespace Dsw.PowerStopF
open Dsw.FloatErr

/-- the arithmetic core, with all constants abstract. -/
theorem cert_core (s Y E Z X T δ θ η κ u ε ζ : Rat)
    (hθ : 0 < θ) (hE : θ ≤ E) (hηθ : 2 * η ≤ θ) (hκ0 : 0 ≤ κ) (hκ : 4 * κ ≤ θ * θ)
    (hu0 : 0 ≤ u) (hu1 : u ≤ 1) (hζ0' : 0 ≤ ζ) (hζ1 : ζ ≤ 1)
    (F1 : 1 ≤ (1 + ζ) * ((1 - ε) * (1 - u))) (F2 : (1 - ζ) * ((1 + ε) * (1 + u)) ≤ 1)
    (hs0 : 0 ≤ s) (hY0 : 0 ≤ Y) (hY1 : Y ≤ s * (1 + ε) + κ) (hY2 : s * (1 - ε) - κ ≤ Y)
    (hZ : |Z - Y / E| ≤ u * |Y / E| + η) (hZX : |Z - X| < T)
    (hδ : 0 < δ) (hX : δ ≤ X) :
    E * (1 - (T + θ) / δ) * (1 - ζ) * X ≤ s ∧ s ≤ E * (1 + (T + θ) / δ) * (1 + ζ) * X := by
  have hEpos : 0 < E := lt_of_lt_of_le hθ hE
  have hT : 0 ≤ T := le_of_lt (lt_of_le_of_lt (abs_nonneg _) hZX)
  obtain ⟨W, hW⟩ : ∃ W, W = Y / E := ⟨_, rfl⟩
  have hYW : Y = W * E := by rw [hW]; field_simp
  have hW0 : 0 ≤ W := by rw [hW]; exact div_nonneg hY0 (le_of_lt hEpos)
  rw [← hW, abs_of_nonneg hW0, abs_le] at hZ
  rw [abs_lt] at hZX
  obtain ⟨hZ1, hZ2⟩ := hZ
  obtain ⟨hZX1, hZX2⟩ := hZX
  -- Q = (T + θ)/δ · X ≥ T + θ
  obtain ⟨Q, hQ⟩ : ∃ Q, Q = (T + θ) / δ * X := ⟨_, rfl⟩
  have hQge : T + θ ≤ Q := by
    rw [hQ, div_mul_eq_mul_div, le_div_iff₀ hδ]
    exact mul_le_mul_of_nonneg_left hX (by linarith)
  -- the junk is dominated by E·θ
  have hjunk : E * η + 2 * κ ≤ E * θ := by
    have h1 : E * (θ - 2 * η) ≥ 0 := mul_nonneg (le_of_lt hEpos) (by linarith)
    have h2 : θ * θ ≤ E * θ := mul_le_mul_of_nonneg_right hE (le_of_lt hθ)
    linarith
  constructor
  · -- lower
    have b2 : E * Z - E * η ≤ W * E * (1 + u) := by
      have := mul_le_mul_of_nonneg_left hZ2 (le_of_lt hEpos)
      linarith
    have b3 : E * (X - T) ≤ E * Z := mul_le_mul_of_nonneg_left (by linarith) (le_of_lt hEpos)
    have b4 : (W * E - κ) * (1 + u) ≤ s * (1 + ε) * (1 + u) :=
      mul_le_mul_of_nonneg_right (by linarith) (by linarith)
    have b5 : κ * u ≤ κ := mul_le_of_le_one_right hκ0 hu1
    have b6 : E * (X - Q) ≤ E * (X - T - θ) := mul_le_mul_of_nonneg_left (by linarith) (le_of_lt hEpos)
    have hM : E * (X - Q) ≤ s * ((1 + ε) * (1 + u)) := by linarith
    have b7 : (1 - ζ) * (E * (X - Q)) ≤ (1 - ζ) * (s * ((1 + ε) * (1 + u))) :=
      mul_le_mul_of_nonneg_left hM (by linarith)
    have b8 : s * ((1 - ζ) * ((1 + ε) * (1 + u))) ≤ s * 1 := mul_le_mul_of_nonneg_left F2 hs0
    have e : E * (1 - (T + θ) / δ) * (1 - ζ) * X = (1 - ζ) * (E * (X - Q)) := by rw [hQ]; ring
    rw [e]
    linarith
  · -- upper
    have a2 : W * E * (1 - u) ≤ E * Z + E * η := by
      have := mul_le_mul_of_nonneg_left hZ1 (le_of_lt hEpos)
      linarith
    have a3 : E * Z ≤ E * (X + T) := mul_le_mul_of_nonneg_left (by linarith) (le_of_lt hEpos)
    have a4 : s * (1 - ε) * (1 - u) ≤ (W * E + κ) * (1 - u) :=
      mul_le_mul_of_nonneg_right (by linarith) (by linarith)
    have a5 : 0 ≤ κ * u := mul_nonneg hκ0 hu0
    have a6 : E * (X + T + θ) ≤ E * (X + Q) := mul_le_mul_of_nonneg_left (by linarith) (le_of_lt hEpos)
    have hM : s * ((1 - ε) * (1 - u)) ≤ E * (X + Q) := by linarith
    have hζ0 : 0 ≤ 1 + ζ := by linarith
    have a7 : (1 + ζ) * (s * ((1 - ε) * (1 - u))) ≤ (1 + ζ) * (E * (X + Q)) :=
      mul_le_mul_of_nonneg_left hM hζ0
    have a8 : s * 1 ≤ s * ((1 + ζ) * ((1 - ε) * (1 - u))) := mul_le_mul_of_nonneg_left F1 hs0
    have e : E * (1 + (T + θ) / δ) * (1 + ζ) * X = (1 + ζ) * (E * (X + Q)) := by rw [hQ]; ring
    rw [e]
    linarith

theorem eta_theta : 2 * (2 : Rat)⁻¹ ^ 1075 ≤ (2 : Rat)⁻¹ ^ 500 := by
  have e : (2 : Rat)⁻¹ ^ 1075 = (2 : Rat)⁻¹ ^ 500 * (2 : Rat)⁻¹ ^ 575 := by rw [← pow_add]
  have h1 : (2 : Rat)⁻¹ ^ 575 ≤ (2 : Rat)⁻¹ ^ 1 := pow_le_pow_of_le_one (by norm_num) (by norm_num) (by norm_num)
  have hp : (0 : Rat) ≤ (2 : Rat)⁻¹ ^ 500 := by positivity
  rw [e]
  have := mul_le_mul_of_nonneg_left h1 hp
  generalize (2 : Rat)⁻¹ ^ 500 = K at *
  generalize (2 : Rat)⁻¹ ^ 575 = L at *
  norm_num at this
  linarith

theorem kappa_theta : 4 * (2 : Rat)⁻¹ ^ 1070 ≤ (2 : Rat)⁻¹ ^ 500 * (2 : Rat)⁻¹ ^ 500 := by
  have e : (2 : Rat)⁻¹ ^ 1070 = (2 : Rat)⁻¹ ^ 500 * (2 : Rat)⁻¹ ^ 500 * (2 : Rat)⁻¹ ^ 70 := by
    rw [← pow_add, ← pow_add]
  have h1 : (2 : Rat)⁻¹ ^ 70 ≤ (2 : Rat)⁻¹ ^ 2 := pow_le_pow_of_le_one (by norm_num) (by norm_num) (by norm_num)
  have hp : (0 : Rat) ≤ (2 : Rat)⁻¹ ^ 500 * (2 : Rat)⁻¹ ^ 500 := by positivity
  rw [e]
  have := mul_le_mul_of_nonneg_left h1 hp
  generalize (2 : Rat)⁻¹ ^ 500 * (2 : Rat)⁻¹ ^ 500 = K at *
  generalize (2 : Rat)⁻¹ ^ 70 = L at *
  norm_num at this
  linarith

theorem F1_const : (1 : Rat) ≤ (1 + (2 : Rat)⁻¹ ^ 50) * ((1 - (2 : Rat)⁻¹ ^ 51) * (1 - (2 : Rat)⁻¹ ^ 53)) := by
  norm_num

theorem F2_const : (1 - (2 : Rat)⁻¹ ^ 50) * ((1 + (2 : Rat)⁻¹ ^ 51) * (1 + (2 : Rat)⁻¹ ^ 53)) ≤ (1 : Rat) := by
  norm_num

/-- the certificate, in terms of `val`. -/
theorem stop_certificate (a : Acc) (x z : VecF) (ev tol md : Dbl) (δ : Rat) (S : Nat → Prop)
    (hx : ∀ w, w < a.size → IsB64 (x.getD w Dbl.zero).num (x.getD w Dbl.zero).den ∧ 0 ≤ (x.getD w Dbl.zero).num)
    (ha : ∀ v, v < a.size → ∀ w ∈ a.liveEntries (v : Int), w < a.size)
    (hstep : capStepF a x = some (z, ev)) (hev : (2 : Rat)⁻¹ ^ 500 ≤ val ev)
    (htol : IsB64 tol.num tol.den ∧ 0 ≤ tol.num)
    (hmd : maxDiffF a.size z x = some md) (hset : Dbl.lt md tol = true)
    (hδ : (2 : Rat)⁻¹ ^ 500 ≤ δ) (hS : ∀ v, S v → v < a.size ∧ δ ≤ val (x.getD v Dbl.zero)) :
    ∀ v, S v →
      val ev * (1 - (val tol + (2 : Rat)⁻¹ ^ 500) / δ) * (1 - (2 : Rat)⁻¹ ^ 50) * (x.map val).getD v 0
        ≤ applyRow a (x.map val) v ∧
      applyRow a (x.map val) v
        ≤ val ev * (1 + (val tol + (2 : Rat)⁻¹ ^ 500) / δ) * (1 + (2 : Rat)⁻¹ ^ 50) * (x.map val).getD v 0 := by
  intro v hSv
  obtain ⟨hv, hXδ⟩ := hS v hSv
  have hθ : (0 : Rat) < (2 : Rat)⁻¹ ^ 500 := by positivity
  obtain ⟨_, hevB, _, hrows⟩ := step_data a x z ev hx ha hstep
  have hevnum : 0 < ev.num := num_pos_of_val_pos (lt_of_lt_of_le hθ hev)
  have hden : ∀ w, w < a.size → 0 < (z.getD w Dbl.zero).den ∧ 0 < (x.getD w Dbl.zero).den := by
    intro w hw
    obtain ⟨_, _, hzB, _, _⟩ := hrows w hw
    exact ⟨hzB.1, (hx w hw).1.1⟩
  have hsettled := settled_entry a.size z x md tol hmd hden htol hset v hv
  obtain ⟨y, hy, _, _, hdiv⟩ := hrows v hv
  obtain ⟨hY2, hY1, hyB, hy0, hs0⟩ := rowSum_bound a x v y hx (ha v hv) hy
  have hZ := div_err y ev _ hyB.1 hevB.1 hevnum (hdiv hevnum)
  rw [map_val_getD]
  exact cert_core _ (val y) (val ev) (val (z.getD v Dbl.zero)) (val (x.getD v Dbl.zero)) (val tol) δ
    ((2 : Rat)⁻¹ ^ 500) ((2 : Rat)⁻¹ ^ 1075) ((2 : Rat)⁻¹ ^ 1070) ((2 : Rat)⁻¹ ^ 53) ((2 : Rat)⁻¹ ^ 51)
    ((2 : Rat)⁻¹ ^ 50) hθ hev eta_theta (by positivity) kappa_theta (by positivity) (by norm_num)
    (by positivity) (by norm_num) F1_const F2_const hs0 (val_nonneg hy0) hY1 hY2 hZ hsettled
    (lt_of_lt_of_le hθ hδ) hXδ

end Dsw.PowerStopF
