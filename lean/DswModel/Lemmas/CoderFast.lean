import DswModel.Model.Spiderweb
import DswModel.Lemmas.CoderDefs
import DswModel.Lemmas.Digit
import DswModel.Lemmas.Vt
import DswModel.Props.C15
import DswModel.Props.C16
import DswModel.Props.C18
/-! Helper lemmas for encode/decode (CoderFast). -/
namespace Dsw

/-! ### arcs, `next`, `livePos` -/

theorem cf_next_some {a : Acc} {v : Int} {c : Char} {t : Int} (h : a.next v c = some t) :
    ∃ j, nucIdx c = some j ∧ j ∈ a.live v ∧ t = a.ent v j := by
  unfold Acc.next at h
  cases hc : nucIdx c with
  | none => simp [hc] at h
  | some j =>
    simp only [hc] at h
    split at h
    · rename_i hge
      refine ⟨j, rfl, (mem_live_iff a v j).2 ⟨nucIdx_lt hc, hge⟩, ?_⟩
      simpa using h.symm
    · simp at h

theorem cf_next_of_live {a : Acc} {v : Int} {c : Char} {j : Nat} (hc : nucIdx c = some j)
    (hj : j ∈ a.live v) : a.next v c = some (a.ent v j) := by
  unfold Acc.next
  simp [hc, live_ent_nonneg a v hj]

theorem cf_livePos_of_live {a : Acc} {v : Int} {c : Char} {j : Nat} (hc : nucIdx c = some j)
    (hj : j ∈ a.live v) : livePos a v c = some ((a.live v).idxOf j) := by
  unfold livePos
  simp [hc, hj]

theorem cf_livePos_of_next_none {a : Acc} {v : Int} {c : Char} (h : a.next v c = none) :
    livePos a v c = none := by
  unfold livePos
  cases hc : nucIdx c with
  | none => rfl
  | some j =>
    simp only
    have hnot : j ∉ a.live v := by
      intro hj
      rw [cf_next_of_live hc hj] at h
      cases h
    simp [hnot]

theorem cf_outDeg_pos {a : Acc} {v : Int} {j : Nat} (hj : j ∈ a.live v) : 1 ≤ a.outDeg v := by
  unfold Acc.outDeg
  exact List.length_pos_of_mem hj

/-- the only arc of an out-degree-1 vertex. -/
theorem cf_forced_mem {a : Acc} {v : Int} (h : a.outDeg v = 1) : (a.live v).getD 0 0 ∈ a.live v := by
  unfold Acc.outDeg at h
  have h0 : 0 < (a.live v).length := by omega
  rw [list_getD_eq_getElem _ _ h0]
  exact List.getElem_mem h0

theorem cf_forced_unique {a : Acc} {v : Int} (h : a.outDeg v = 1) {j : Nat} (hj : j ∈ a.live v) :
    j = (a.live v).getD 0 0 := by
  unfold Acc.outDeg at h
  match hl : a.live v, h, hj with
  | [x], _, hj => simpa using hj

/-! ### one step of the decoder / encoder -/

theorem cf_decode_step (a : Acc) (tbl : Option Tbl) (L : Nat) (v : Int) (c : Char) (s : List Char)
    (ml : Nat) {j : Nat} (hc : nucIdx c = some j) (hj : j ∈ a.live v) :
    decodeFastLoop a tbl L v (c :: s) ml =
      if a.outDeg v = 4 then
        if ml ≥ L then .error .indexError
        else (decodeFastLoop a tbl L (a.ent v j) s (ml + 2)).map
          ((if ml + 1 < L then [arcDigit a tbl v j / 2, arcDigit a tbl v j % 2]
            else [arcDigit a tbl v j / 2]) ++ ·)
      else if a.outDeg v = 2 then
        if ml ≥ L then .error .indexError
        else (decodeFastLoop a tbl L (a.ent v j) s (ml + 1)).map (arcDigit a tbl v j % 2 :: ·)
      else if a.outDeg v = 1 then decodeFastLoop a tbl L (a.ent v j) s ml
      else .error .valueError := by
  rw [decodeFastLoop]
  simp only [cf_livePos_of_live hc hj, hc, Option.getD_some, arcDigit, Acc.outDeg]
  rfl

theorem cf_decode_step_none (a : Acc) (tbl : Option Tbl) (L : Nat) (v : Int) (c : Char) (s : List Char)
    (ml : Nat) (h : a.next v c = none) :
    decodeFastLoop a tbl L v (c :: s) ml = .error .valueError := by
  rw [decodeFastLoop]
  simp only [cf_livePos_of_next_none h]

theorem cf_map_ok {α β} {f : α → β} {x : R α} {y : β} (h : x.map f = .ok y) :
    ∃ x', x = .ok x' ∧ y = f x' := by
  cases x with
  | error e => cases h
  | ok x' =>
    refine ⟨x', rfl, ?_⟩
    simpa [Except.map] using h.symm

/-- inversion of one encoder step. -/
theorem cf_encode_cons {a : Acc} {tbl : Option Tbl} {f : Nat} {v : Int} {b0 : Nat} {rest : List Nat}
    {s : List Char} (h : encodeFastLoop a tbl (f + 1) v (b0 :: rest) = .ok s) :
    (a.outDeg v = 4 ∧ ∃ s', s = nucChar (selectArc a tbl v (b0 * 2 + rest.headD 0)) :: s' ∧
      encodeFastLoop a tbl f (a.ent v (selectArc a tbl v (b0 * 2 + rest.headD 0))) (rest.drop 1) = .ok s') ∨
    (a.outDeg v = 2 ∧ ∃ s', s = nucChar (selectArc a tbl v b0) :: s' ∧
      encodeFastLoop a tbl f (a.ent v (selectArc a tbl v b0)) rest = .ok s') ∨
    (a.outDeg v = 1 ∧ ∃ s', s = nucChar ((a.live v).getD 0 0) :: s' ∧
      encodeFastLoop a tbl f (a.ent v ((a.live v).getD 0 0)) (b0 :: rest) = .ok s') := by
  rw [encodeFastLoop] at h
  simp only at h
  by_cases h4 : (a.live v).length = 4
  · rw [if_pos h4] at h
    obtain ⟨s', hs', rfl⟩ := cf_map_ok h
    exact Or.inl ⟨h4, s', rfl, hs'⟩
  · rw [if_neg h4] at h
    by_cases h2 : (a.live v).length = 2
    · rw [if_pos h2] at h
      obtain ⟨s', hs', rfl⟩ := cf_map_ok h
      exact Or.inr (Or.inl ⟨h2, s', rfl, hs'⟩)
    · rw [if_neg h2] at h
      by_cases h1 : (a.live v).length = 1
      · rw [if_pos h1] at h
        obtain ⟨s', hs', rfl⟩ := cf_map_ok h
        exact Or.inr (Or.inr ⟨h1, s', rfl, hs'⟩)
      · rw [if_neg h1] at h
        cases h

theorem cf_encode_nil {a : Acc} {tbl : Option Tbl} {f : Nat} {v : Int} {s : List Char}
    (h : encodeFastLoop a tbl f v [] = .ok s) : s = [] := by
  cases f with
  | zero => simp [encodeFastLoop] at h
  | succ f => simpa [encodeFastLoop] using h.symm

theorem cf_isBits_cons {b : Nat} {r : List Nat} (h : IsBits (b :: r)) : b < 2 ∧ IsBits r :=
  ⟨h b (by simp), fun x hx => h x (by simp [hx])⟩

theorem cf_isBits_drop {r : List Nat} (h : IsBits r) (n : Nat) : IsBits (r.drop n) :=
  fun x hx => h x (List.mem_of_mem_drop hx)

theorem cf_headD_lt {r : List Nat} (h : IsBits r) : r.headD 0 < 2 := by
  cases r with
  | nil => simp
  | cons x r => exact h x (by simp)

/-! ### round trip (C01) -/

/-- decoding what the encoder emitted for `bits`, starting at message position `ml` with
`ml + bits.length = L`, writes exactly `bits`. Any graph, any table, any fuel. -/
theorem cf_decode_encode (a : Acc) (tbl : Option Tbl) (L : Nat) :
    ∀ (f : Nat) (v : Int) (bits : List Nat) (ml : Nat) (s : List Char), IsBits bits →
      encodeFastLoop a tbl f v bits = .ok s → ml + bits.length = L →
      decodeFastLoop a tbl L v s ml = .ok bits := by
  intro f
  induction f with
  | zero => intro v bits ml s _ h; simp [encodeFastLoop] at h
  | succ f ih =>
    intro v bits ml s hb h hl
    cases bits with
    | nil =>
      rw [cf_encode_nil h]
      simp [decodeFastLoop]
    | cons b0 rest =>
      obtain ⟨hb0, hrest⟩ := cf_isBits_cons hb
      have hr0 := cf_headD_lt hrest
      simp only [List.length_cons] at hl
      rcases cf_encode_cons h with ⟨h4, s', rfl, hs'⟩ | ⟨h2, s', rfl, hs'⟩ | ⟨h1, s', rfl, hs'⟩
      · have hd : b0 * 2 + rest.headD 0 < a.outDeg v := by omega
        have hj := selectArc_mem a tbl v hd
        rw [cf_decode_step a tbl L v _ s' ml (nucIdx_nucChar _ (live_lt_four a v hj)) hj,
          if_pos h4, if_neg (by omega), arcDigit_selectArc a tbl v hd]
        cases rest with
        | nil =>
          rw [cf_encode_nil hs']
          simp only [List.length_nil] at hl
          simp [decodeFastLoop, Except.map, show ¬ (ml + 1 < L) by omega]
        | cons b1 r =>
          simp only [List.length_cons] at hl
          have hb1 : b1 < 2 := hrest b1 (by simp)
          rw [ih _ _ (ml + 2) s' (cf_isBits_drop hrest 1) hs' (by simp; omega)]
          simp only [Except.map, List.headD_cons, if_pos (show ml + 1 < L by omega), List.drop_one,
            List.tail_cons, List.cons_append, List.nil_append]
          have e1 : (b0 * 2 + b1) / 2 = b0 := by omega
          have e2 : (b0 * 2 + b1) % 2 = b1 := by omega
          rw [e1, e2]
      · have hd : b0 < a.outDeg v := by omega
        have hj := selectArc_mem a tbl v hd
        rw [cf_decode_step a tbl L v _ s' ml (nucIdx_nucChar _ (live_lt_four a v hj)) hj,
          if_neg (by omega), if_pos h2, if_neg (by omega), arcDigit_selectArc a tbl v hd,
          ih _ _ (ml + 1) s' hrest hs' (by omega)]
        simp only [Except.map]
        rw [Nat.mod_eq_of_lt hb0]
      · have hj := cf_forced_mem h1
        rw [cf_decode_step a tbl L v _ s' ml (nucIdx_nucChar _ (live_lt_four a v hj)) hj,
          if_neg (by omega), if_neg (by omega), if_pos h1]
        exact ih _ _ ml s' hb hs' (by simp; omega)

theorem cf_vtMatches_setVt {s c : List Char} {n : Nat} (hn : n > 0) (h : setVt s n = .ok c) :
    vtMatches s (some c) = .ok true := by
  unfold vtMatches
  simp only [setVt_length hn h, h, Except.map, beq_self_eq_true]

/-- an `.ok` fast-mode `encode` is an `.ok` loop plus a matching check. -/
theorem cf_encode_fast_ok {a : Acc} {tbl : Option Tbl} {v : Int} {bits : List Nat} {vtLen fuel : Nat}
    {s : List Char} {c : Option (List Char)}
    (h : encode a tbl v bits true vtLen fuel = .ok (s, c)) :
    encodeFastLoop a tbl fuel v bits = .ok s ∧ vtMatches s c = .ok true := by
  unfold encode at h
  simp only [if_true, bind, Except.bind, pure, Except.pure] at h
  cases hs : encodeFastLoop a tbl fuel v bits with
  | error e => rw [hs] at h; cases h
  | ok s0 =>
    rw [hs] at h
    simp only at h
    by_cases hv : vtLen > 0
    · rw [if_pos hv] at h
      cases hc : setVt s0 vtLen with
      | error e => rw [hc] at h; cases h
      | ok c0 =>
        rw [hc] at h
        simp only [Except.ok.injEq, Prod.mk.injEq] at h
        obtain ⟨rfl, rfl⟩ := h
        exact ⟨rfl, cf_vtMatches_setVt hv hc⟩
    · rw [if_neg hv] at h
      simp only [Except.ok.injEq, Prod.mk.injEq] at h
      obtain ⟨rfl, rfl⟩ := h
      exact ⟨rfl, rfl⟩

theorem cf_decode_fast_eq {a : Acc} {tbl : Option Tbl} {v : Int} {s : List Char} {L : Nat}
    {chk : Option (List Char)} (hc : vtMatches s chk = .ok true) :
    decode a tbl v s L true chk =
      (decodeFastLoop a tbl L v s 0).map fun bits => bits ++ List.replicate (L - bits.length) 0 := by
  unfold decode
  simp only [hc, bind, Except.bind, pure, Except.pure, Bool.not_true, if_true]
  cases decodeFastLoop a tbl L v s 0 <;> rfl

theorem cf_C01_fast (a : Acc) (tbl : Option Tbl) (v : Int) (bits : List Nat) (vtLen fuel : Nat)
    (s : List Char) (c : Option (List Char)) (hb : IsBits bits)
    (h : encode a tbl v bits true vtLen fuel = .ok (s, c)) :
    decode a tbl v s bits.length true c = .ok bits := by
  obtain ⟨hs, hc⟩ := cf_encode_fast_ok h
  rw [cf_decode_fast_eq hc, cf_decode_encode a tbl bits.length fuel v bits 0 s hb hs (by simp)]
  simp [Except.map]

/-! ### the bits carried by a walk, with the decoder's digit -/

/-- `walkBits` with the decoder's `arcDigit` in place of the documented `arcRank` (equal under
`DistinctKeys`, see `cf_walkBitsD_eq`). -/
def walkBitsD (a : Acc) (tbl : Option Tbl) : Int → List Char → List Nat
  | _, [] => []
  | v, c :: s =>
    let j := (nucIdx c).getD 0
    let d := arcDigit a tbl v j
    (if a.outDeg v = 4 then [d / 2, d % 2] else if a.outDeg v = 2 then [d] else []) ++
      walkBitsD a tbl (a.ent v j) s

theorem cf_walkBitsD_length (a : Acc) (tbl : Option Tbl) (v : Int) (s : List Char) :
    (walkBitsD a tbl v s).length = (walkBits a tbl v s).length := by
  induction s generalizing v with
  | nil => rfl
  | cons c s ih =>
    simp only [walkBitsD, walkBits, List.length_append, ih]
    congr 1
    split
    · rfl
    · split <;> rfl

theorem cf_isWalk_cons {a : Acc} {v : Int} {c : Char} {s : List Char} (h : isWalk a v (c :: s) = true) :
    ∃ j, nucIdx c = some j ∧ j ∈ a.live v ∧ isWalk a (a.ent v j) s = true := by
  rw [isWalk] at h
  cases hn : a.next v c with
  | none => simp [hn] at h
  | some t =>
    obtain ⟨j, hc, hj, rfl⟩ := cf_next_some hn
    simp only [hn] at h
    exact ⟨j, hc, hj, h⟩

theorem cf_isWalk_cons_of_live {a : Acc} {v : Int} {c : Char} {j : Nat} (s : List Char)
    (hc : nucIdx c = some j) (hj : j ∈ a.live v) : isWalk a v (c :: s) = isWalk a (a.ent v j) s := by
  rw [isWalk]
  simp only [cf_next_of_live hc hj]

theorem cf_walkBitsD_eq (a : Acc) (tbl : Option Tbl) (hd : ∀ v, DistinctKeys a tbl v) (v : Int)
    (s : List Char) (hw : isWalk a v s = true) : walkBitsD a tbl v s = walkBits a tbl v s := by
  induction s generalizing v with
  | nil => rfl
  | cons c s ih =>
    obtain ⟨j, hc, hj, hw'⟩ := cf_isWalk_cons hw
    simp only [walkBitsD, walkBits, hc, Option.getD_some, ih _ hw', arcDigit_eq_arcRank a tbl v hj (hd v)]

/-- longest prefix of `s` that is a walk from `v` (same recursion as `walkablePrefix` of C06). -/
def cfWalkablePrefix (a : Acc) : Int → List Char → List Char
  | _, [] => []
  | v, c :: s => match a.next v c with
    | some t => c :: cfWalkablePrefix a t s
    | none => []

theorem cf_walkablePrefix_of_isWalk (a : Acc) (v : Int) (s : List Char) (hw : isWalk a v s = true) :
    cfWalkablePrefix a v s = s := by
  induction s generalizing v with
  | nil => rfl
  | cons c s ih =>
    obtain ⟨j, hc, hj, hw'⟩ := cf_isWalk_cons hw
    simp only [cfWalkablePrefix, cf_next_of_live hc hj, ih _ hw']

theorem cf_isWalk_walkablePrefix (a : Acc) (v : Int) (s : List Char) :
    isWalk a v (cfWalkablePrefix a v s) = true := by
  induction s generalizing v with
  | nil => rfl
  | cons c s ih =>
    simp only [cfWalkablePrefix]
    cases hn : a.next v c with
    | none => rfl
    | some t =>
      simp only [isWalk, hn]
      exact ih t

/-- every vertex along a walk is reachable. -/
theorem cf_reach_walkEnd_take (a : Acc) (v : Int) (p : List Char) (i : Nat)
    (hw : isWalk a v p = true) : a.Reach v (walkEnd a v (p.take i)) := by
  induction p generalizing v i with
  | nil => simpa [walkEnd] using Acc.Reach.refl (a := a) v
  | cons c p ih =>
    cases i with
    | zero => exact Acc.Reach.refl v
    | succ i =>
      obtain ⟨j, hc, hj, hw'⟩ := cf_isWalk_cons hw
      simp only [List.take_succ_cons, walkEnd, hc, Option.getD_some]
      exact Acc.Reach.step v j _ hj (ih _ i hw')

/-! ### the decoder on an arbitrary string -/

/-- the fast-mode decoder loop on ANY string: if no vertex on the walkable prefix has out-degree 3
and the bits carried by the walkable prefix fit below `L`, the loop returns the carried bits on a
walk and `ValueError` on a non-walk. -/
theorem cf_decode_general (a : Acc) (tbl : Option Tbl) (L : Nat) :
    ∀ (s : List Char) (v : Int) (ml : Nat),
      (∀ i, i < (cfWalkablePrefix a v s).length →
        a.outDeg (walkEnd a v ((cfWalkablePrefix a v s).take i)) ≠ 3) →
      ml + (walkBitsD a tbl v (cfWalkablePrefix a v s)).length ≤ L →
      decodeFastLoop a tbl L v s ml =
        if isWalk a v s = true then .ok (walkBitsD a tbl v s) else .error .valueError := by
  intro s
  induction s with
  | nil => intro v ml _ _; simp [decodeFastLoop, isWalk, walkBitsD]
  | cons c s ih =>
    intro v ml h3 hL
    cases hn : a.next v c with
    | none =>
      rw [cf_decode_step_none a tbl L v c s ml hn]
      simp [isWalk, hn]
    | some t =>
      obtain ⟨j, hc, hj, rfl⟩ := cf_next_some hn
      have hwp : cfWalkablePrefix a v (c :: s) = c :: cfWalkablePrefix a (a.ent v j) s := by
        simp only [cfWalkablePrefix, hn]
      rw [hwp] at h3 hL
      have h30 : a.outDeg v ≠ 3 := by simpa [walkEnd] using h3 0 (by simp)
      have h3' : ∀ i, i < (cfWalkablePrefix a (a.ent v j) s).length →
          a.outDeg (walkEnd a (a.ent v j) ((cfWalkablePrefix a (a.ent v j) s).take i)) ≠ 3 := by
        intro i hi
        have := h3 (i + 1) (by simpa using hi)
        simpa [walkEnd, hc] using this
      have hpos := cf_outDeg_pos hj
      have hle := outDeg_le_four a v
      have hdl := arcDigit_lt a tbl v hj
      simp only [walkBitsD, hc, Option.getD_some, List.length_append] at hL
      rw [cf_decode_step a tbl L v c s ml hc hj, cf_isWalk_cons_of_live s hc hj]
      simp only [walkBitsD, hc, Option.getD_some]
      by_cases h4 : a.outDeg v = 4
      · simp only [if_pos h4, List.length_cons, List.length_nil] at hL ⊢
        rw [if_neg (by omega), if_pos (by omega), ih _ (ml + 2) h3' (by omega)]
        split <;> rfl
      · by_cases h2 : a.outDeg v = 2
        · simp only [if_neg h4, if_pos h2, List.length_cons, List.length_nil] at hL ⊢
          rw [if_neg (by omega), ih _ (ml + 1) h3' (by omega), Nat.mod_eq_of_lt (by omega)]
          split <;> rfl
        · have h1 : a.outDeg v = 1 := by omega
          simp only [if_neg h4, if_neg h2, if_pos h1, List.length_nil] at hL ⊢
          rw [ih _ ml h3' (by omega)]
          rfl

/-! ### what the encoder emits (C05) -/

theorem cf_walkBitsD_cons_live (a : Acc) (tbl : Option Tbl) (v : Int) {j : Nat} (hj : j < 4)
    (s : List Char) :
    walkBitsD a tbl v (nucChar j :: s) =
      (if a.outDeg v = 4 then [arcDigit a tbl v j / 2, arcDigit a tbl v j % 2]
        else if a.outDeg v = 2 then [arcDigit a tbl v j] else []) ++ walkBitsD a tbl (a.ent v j) s := by
  simp only [walkBitsD, nucIdx_nucChar j hj, Option.getD_some]

/-- the strand emitted by the fast encoder (any fuel, any table) is a walk, meets no vertex of
out-degree 3, and carries the message followed by at most one padding zero. -/
theorem cf_encode_walkBitsD (a : Acc) (tbl : Option Tbl) :
    ∀ (f : Nat) (v : Int) (bits : List Nat) (s : List Char), IsBits bits →
      encodeFastLoop a tbl f v bits = .ok s →
      isWalk a v s = true ∧
      (∀ i, i < s.length → a.outDeg (walkEnd a v (s.take i)) ≠ 3) ∧
      (walkBitsD a tbl v s = bits ∨ walkBitsD a tbl v s = bits ++ [0]) := by
  intro f
  induction f with
  | zero => intro v bits s _ h; simp [encodeFastLoop] at h
  | succ f ih =>
    intro v bits s hb h
    cases bits with
    | nil =>
      rw [cf_encode_nil h]
      simp [isWalk, walkBitsD]
    | cons b0 rest =>
      obtain ⟨hb0, hrest⟩ := cf_isBits_cons hb
      have hr0 := cf_headD_lt hrest
      have key : ∀ (j : Nat) (s' : List Char) (bits' : List Nat), j ∈ a.live v → a.outDeg v ≠ 3 →
          IsBits bits' → encodeFastLoop a tbl f (a.ent v j) bits' = .ok s' →
          isWalk a v (nucChar j :: s') = true ∧
          (∀ i, i < (nucChar j :: s').length →
            a.outDeg (walkEnd a v ((nucChar j :: s').take i)) ≠ 3) ∧
          (walkBitsD a tbl (a.ent v j) s' = bits' ∨ walkBitsD a tbl (a.ent v j) s' = bits' ++ [0]) := by
        intro j s' bits' hj hn3 hb' hs'
        obtain ⟨hw, h3, hbits⟩ := ih _ _ s' hb' hs'
        have hc := nucIdx_nucChar j (live_lt_four a v hj)
        refine ⟨by rw [cf_isWalk_cons_of_live s' hc hj]; exact hw, ?_, hbits⟩
        intro i hi
        cases i with
        | zero => simpa [walkEnd] using hn3
        | succ i =>
          simp only [List.take_succ_cons, walkEnd, hc, Option.getD_some]
          exact h3 i (by simpa using hi)
      rcases cf_encode_cons h with ⟨h4, s', rfl, hs'⟩ | ⟨h2, s', rfl, hs'⟩ | ⟨h1, s', rfl, hs'⟩
      · have hd : b0 * 2 + rest.headD 0 < a.outDeg v := by omega
        have hj := selectArc_mem a tbl v hd
        obtain ⟨hw, h3, hbits⟩ := key _ s' _ hj (by omega) (cf_isBits_drop hrest 1) hs'
        refine ⟨hw, h3, ?_⟩
        rw [cf_walkBitsD_cons_live a tbl v (live_lt_four a v hj), if_pos h4,
          arcDigit_selectArc a tbl v hd]
        cases rest with
        | nil =>
          right
          rw [cf_encode_nil hs']
          simp only [List.headD_nil, walkBitsD]
          simp
        | cons b1 r =>
          have hb1 : b1 < 2 := hrest b1 (by simp)
          have e1 : (b0 * 2 + b1) / 2 = b0 := by omega
          have e2 : (b0 * 2 + b1) % 2 = b1 := by omega
          simp only [List.headD_cons, e1, e2, List.drop_one, List.tail_cons] at hbits ⊢
          rcases hbits with hbits | hbits
          · left; rw [hbits]; rfl
          · right; rw [hbits]; rfl
      · have hd : b0 < a.outDeg v := by omega
        have hj := selectArc_mem a tbl v hd
        obtain ⟨hw, h3, hbits⟩ := key _ s' _ hj (by omega) hrest hs'
        refine ⟨hw, h3, ?_⟩
        rw [cf_walkBitsD_cons_live a tbl v (live_lt_four a v hj), if_neg (by omega), if_pos h2,
          arcDigit_selectArc a tbl v hd]
        rcases hbits with hbits | hbits
        · left; rw [hbits]; rfl
        · right; rw [hbits]; rfl
      · have hj := cf_forced_mem h1
        obtain ⟨hw, h3, hbits⟩ := key _ s' _ hj (by omega) hb hs'
        refine ⟨hw, h3, ?_⟩
        rw [cf_walkBitsD_cons_live a tbl v (live_lt_four a v hj), if_neg (by omega), if_neg (by omega)]
        simpa using hbits

theorem cf_C05_fast_meets_spec (a : Acc) (tbl : Option Tbl) (v : Int) (bits : List Nat)
    (vtLen fuel : Nat) (s : List Char) (c : Option (List Char)) (hb : IsBits bits)
    (hd : ∀ v, DistinctKeys a tbl v) (h : encode a tbl v bits true vtLen fuel = .ok (s, c)) :
    isWalk a v s = true ∧ (walkBits a tbl v s = bits ∨ walkBits a tbl v s = bits ++ [0]) := by
  obtain ⟨hw, _, hbits⟩ := cf_encode_walkBitsD a tbl fuel v bits s hb (cf_encode_fast_ok h).1
  rw [cf_walkBitsD_eq a tbl hd v s hw] at hbits
  exact ⟨hw, hbits⟩

/-- decoding a walk without out-degree-3 vertices whose bits fit: the carried bits (decoder's
digits), zero-padded to `L`. Any table. -/
theorem cf_decode_walk (a : Acc) (tbl : Option Tbl) (v : Int) (s : List Char) (L : Nat)
    (chk : Option (List Char)) (hc : vtMatches s chk = .ok true) (hw : isWalk a v s = true)
    (h3 : ∀ i, i < s.length → a.outDeg (walkEnd a v (s.take i)) ≠ 3)
    (hL : (walkBitsD a tbl v s).length ≤ L) :
    decode a tbl v s L true chk =
      .ok (walkBitsD a tbl v s ++ List.replicate (L - (walkBitsD a tbl v s).length) 0) := by
  have hp := cf_walkablePrefix_of_isWalk a v s hw
  rw [cf_decode_fast_eq hc, cf_decode_general a tbl L s v 0 (by rw [hp]; exact h3)
    (by rw [hp]; omega), if_pos hw]
  rfl

theorem cf_C05_fast_decode_value (a : Acc) (tbl : Option Tbl) (v : Int) (s : List Char) (L : Nat)
    (hd : ∀ v, DistinctKeys a tbl v) (hw : isWalk a v s = true)
    (h3 : ∀ i, i < s.length → a.outDeg (walkEnd a v (s.take i)) ≠ 3)
    (hL : (walkBits a tbl v s).length ≤ L) :
    decode a tbl v s L true none =
      .ok (walkBits a tbl v s ++ List.replicate (L - (walkBits a tbl v s).length) 0) := by
  rw [← cf_walkBitsD_eq a tbl hd v s hw] at hL ⊢
  exact cf_decode_walk a tbl v s L none rfl hw h3 hL

/-! ### acceptance (C06) -/

/-- a failing check is a `ValueError`, whatever the mode. -/
theorem cf_decode_check_fail (a : Acc) (tbl : Option Tbl) (v : Int) (s : List Char) (L : Nat)
    (fast : Bool) (chk : Option (List Char)) (hc : vtMatches s chk ≠ .ok true) :
    decode a tbl v s L fast chk = .error .valueError := by
  unfold decode
  cases chk with
  | none => exact absurd rfl hc
  | some c =>
    by_cases hs : IsAcgt s
    · have h1 : vtMatches s (some c) = .ok (nucChar ((s.map fun c => (nucIdx c).getD 0).sum % 4) ::
        numberToDnaInt
          (((List.range ((s.map fun c => (nucIdx c).getD 0).length - 1)).filter fun j =>
            (s.map fun c => (nucIdx c).getD 0).getD j 0 <
              (s.map fun c => (nucIdx c).getD 0).getD (j + 1) 0).sum % 4 ^ (c.length - 1))
          (c.length - 1) == c) := by
        unfold vtMatches
        simp only [setVt_ok_vt c.length hs, Except.map]
      rw [h1] at hc ⊢
      generalize (_ == c) = b at hc ⊢
      cases b with
      | true => exact absurd rfl hc
      | false => rfl
    · have h1 : vtMatches s (some c) = .error .valueError := by
        unfold vtMatches
        simp only [setVt_err c.length hs, Except.map]
      rw [h1]
      rfl

theorem cf_C06_fast (a : Acc) (tbl : Option Tbl) (v : Int) (s : List Char) (L : Nat)
    (chk : Option (List Char)) (h3 : a.NoDeg3From v)
    (hL : (walkBits a tbl v (cfWalkablePrefix a v s)).length ≤ L) :
    (isWalk a v s = true ∧ vtMatches s chk = .ok true →
        ∃ bits, decode a tbl v s L true chk = .ok bits ∧ bits.length = L) ∧
    (¬ (isWalk a v s = true ∧ vtMatches s chk = .ok true) →
        decode a tbl v s L true chk = .error .valueError) := by
  rw [← cf_walkBitsD_length] at hL
  have hgen := cf_decode_general a tbl L s v 0
    (fun i _ => h3 _ (cf_reach_walkEnd_take a v _ i (cf_isWalk_walkablePrefix a v s))) (by omega)
  constructor
  · rintro ⟨hw, hc⟩
    rw [cf_walkablePrefix_of_isWalk a v s hw] at hL
    rw [cf_decode_fast_eq hc, hgen, if_pos hw]
    refine ⟨_, rfl, ?_⟩
    simp only [List.length_append, List.length_replicate]
    omega
  · intro hn
    by_cases hc : vtMatches s chk = .ok true
    · have hw : ¬ isWalk a v s = true := fun hw => hn ⟨hw, hc⟩
      rw [cf_decode_fast_eq hc, hgen, if_neg hw]
      rfl
    · exact cf_decode_check_fail a tbl v s L true chk hc

/-! ### totality of the fast encoder (C01_total) -/

theorem cf_reach_trans {a : Acc} {u v w : Int} (h1 : a.Reach v u) (h2 : a.Reach u w) : a.Reach v w := by
  induction h1 with
  | refl => exact h2
  | step v j _ hj _ ih => exact Acc.Reach.step v j _ hj (ih h2)

theorem cf_goodFrom_reach {a : Acc} {v u : Int} (hg : a.GoodFrom v) (h : a.Reach v u) : a.GoodFrom u :=
  fun w hw => hg w (cf_reach_trans h hw)

theorem cf_noDeg3_reach {a : Acc} {v u : Int} (hg : a.NoDeg3From v) (h : a.Reach v u) : a.NoDeg3From u :=
  fun w hw => hg w (cf_reach_trans h hw)

theorem cf_reach_arc {a : Acc} {v : Int} {j : Nat} (hj : j ∈ a.live v) : a.Reach v (a.ent v j) :=
  Acc.Reach.step v j _ hj (Acc.Reach.refl _)

/-- the forced successor (the only one at an out-degree-1 vertex). -/
def cfNext (a : Acc) (u : Int) : Int := a.ent u ((a.live u).getD 0 0)

/-- `n` forced steps. -/
def cfIter (a : Acc) : Nat → Int → Int
  | 0, u => u
  | n + 1, u => cfIter a n (cfNext a u)

theorem cfIter_add (a : Acc) (m k : Nat) (u : Int) : cfIter a (m + k) u = cfIter a k (cfIter a m u) := by
  induction m generalizing u with
  | zero => simp [cfIter]
  | succ m ih =>
    rw [show m + 1 + k = (m + k) + 1 by omega]
    simp only [cfIter]
    exact ih _

/-- from a vertex that reaches a branching vertex, the forced path reaches a vertex of out-degree
`≠ 1` after `n` steps through out-degree-1 vertices. -/
theorem cf_forced_dist {a : Acc} {u w : Int} (h : a.Reach u w) (hw : a.outDeg w ≥ 2) :
    ∃ n, a.outDeg (cfIter a n u) ≠ 1 ∧ ∀ m, m < n → a.outDeg (cfIter a m u) = 1 := by
  induction h with
  | refl => exact ⟨0, by simp only [cfIter]; omega, fun m hm => by omega⟩
  | step u j w hj _ ih =>
    by_cases h1 : a.outDeg u = 1
    · obtain ⟨n, hn, hm⟩ := ih hw
      have hju : a.ent u j = cfNext a u := by rw [cfNext, ← cf_forced_unique h1 hj]
      rw [hju] at hn hm
      refine ⟨n + 1, hn, ?_⟩
      intro m hlt
      cases m with
      | zero => exact h1
      | succ m => exact hm m (by omega)
    · exact ⟨0, h1, fun m hm => by omega⟩

theorem cf_reach_iter {a : Acc} (n : Nat) (u : Int) (h : ∀ m, m < n → a.outDeg (cfIter a m u) = 1) :
    a.Reach u (cfIter a n u) := by
  induction n generalizing u with
  | zero => exact Acc.Reach.refl u
  | succ n ih =>
    have h0 : a.outDeg u = 1 := h 0 (by omega)
    simp only [cfIter]
    refine cf_reach_trans (cf_reach_arc (cf_forced_mem h0)) (ih _ ?_)
    intro m hm
    exact h (m + 1) (by omega)

/-- pigeonhole: a forced path through out-degree-1 vertices inside `[0, N)` that ends in a vertex of
another out-degree has fewer than `N` steps. -/
theorem cf_forced_bound {a : Acc} {N n : Nat} {u : Int}
    (hr : ∀ m, m ≤ n → 0 ≤ cfIter a m u ∧ cfIter a m u < (N : Int))
    (hn : a.outDeg (cfIter a n u) ≠ 1) (hm : ∀ m, m < n → a.outDeg (cfIter a m u) = 1) : n < N := by
  have hinj : ∀ i j, i < j → j ≤ n → cfIter a i u ≠ cfIter a j u := by
    intro i j hij hjn he
    have h1 : cfIter a (i + (n - j)) u = cfIter a n u := by
      rw [cfIter_add, he, ← cfIter_add]
      congr 1
      omega
    exact hn (h1 ▸ hm (i + (n - j)) (by omega))
  have hnd : ((List.range (n + 1)).map fun m => (cfIter a m u).toNat).Nodup := by
    rw [List.Nodup, List.pairwise_map]
    refine (List.pairwise_lt_range (n := n + 1)).imp_of_mem ?_
    intro i j hi hj hij he
    rw [List.mem_range] at hi hj
    have := hr i (by omega)
    have := hr j (by omega)
    exact hinj i j hij (by omega) (by omega)
  have hsub : ((List.range (n + 1)).map fun m => (cfIter a m u).toNat) ⊆ List.range N := by
    intro x hx
    rw [List.mem_map] at hx
    obtain ⟨m, hm', rfl⟩ := hx
    rw [List.mem_range] at hm' ⊢
    have := hr m (by omega)
    omega
  have := hnd.length_le_of_subset hsub
  simp only [List.length_map, List.length_range] at this
  omega

theorem cf_map_isOk {α β} {f : α → β} {x : R α} (h : ∃ s, x = .ok s) : ∃ s, x.map f = .ok s := by
  obtain ⟨s, rfl⟩ := h
  exact ⟨f s, rfl⟩

/-- `n` forced steps cost `n` units of fuel and no bits. -/
theorem cf_encode_forced (a : Acc) (tbl : Option Tbl) (b0 : Nat) (rest : List Nat) :
    ∀ (n : Nat) (u : Int) (f : Nat), (∀ m, m < n → a.outDeg (cfIter a m u) = 1) →
      (∃ s, encodeFastLoop a tbl f (cfIter a n u) (b0 :: rest) = .ok s) →
      ∃ s, encodeFastLoop a tbl (n + f) u (b0 :: rest) = .ok s := by
  intro n
  induction n with
  | zero => intro u f _ h; simpa [cfIter] using h
  | succ n ih =>
    intro u f hm h
    have h0 : a.outDeg u = 1 := hm 0 (by omega)
    have h0' : (a.live u).length = 1 := h0
    rw [show n + 1 + f = (n + f) + 1 by omega, encodeFastLoop]
    simp only [h0', if_neg (show ¬ (1 = 4) by omega), if_neg (show ¬ (1 = 2) by omega), if_true]
    apply cf_map_isOk
    exact ih (cfNext a u) f (fun m hm' => hm (m + 1) (by omega)) h

/-- the fast encoder loop returns with fuel `L·|V| + 1` on a good graph without out-degree 3. -/
theorem cf_encode_total (a : Acc) (tbl : Option Tbl) :
    ∀ (L : Nat) (bits : List Nat) (u : Int) (fuel : Nat), bits.length ≤ L → IsBits bits →
      a.GoodFrom u → a.NoDeg3From u → L * a.size + 1 ≤ fuel →
      ∃ s, encodeFastLoop a tbl fuel u bits = .ok s := by
  intro L
  induction L with
  | zero =>
    intro bits u fuel hl _ _ _ hf
    have : bits = [] := List.eq_nil_of_length_eq_zero (by omega)
    subst this
    obtain ⟨f, rfl⟩ : ∃ f, fuel = f + 1 := ⟨fuel - 1, by omega⟩
    exact ⟨[], by simp [encodeFastLoop]⟩
  | succ L ih =>
    intro bits u fuel hl hb hg h3 hf
    cases bits with
    | nil =>
      obtain ⟨f, rfl⟩ : ∃ f, fuel = f + 1 := ⟨fuel - 1, by omega⟩
      exact ⟨[], by simp [encodeFastLoop]⟩
    | cons b0 rest =>
      obtain ⟨hb0, hrest⟩ := cf_isBits_cons hb
      have hr0 := cf_headD_lt hrest
      simp only [List.length_cons] at hl
      obtain ⟨w, hw, hwd⟩ := (hg u (Acc.Reach.refl u)).2.2
      obtain ⟨n, hn, hm⟩ := cf_forced_dist hw hwd
      have hreach : ∀ m, m ≤ n → a.Reach u (cfIter a m u) :=
        fun m hmn => cf_reach_iter m u (fun k hk => hm k (by omega))
      have hnN : n < a.size :=
        cf_forced_bound (fun m hmn => (hg _ (hreach m hmn)).1) hn hm
      have hmul : (L + 1) * a.size = L * a.size + a.size := Nat.succ_mul L a.size
      obtain ⟨f, rfl⟩ : ∃ f, fuel = n + (f + 1) := ⟨fuel - n - 1, by omega⟩
      have hf' : L * a.size + 1 ≤ f := by omega
      apply cf_encode_forced a tbl b0 rest n u (f + 1) hm
      have hrw := hreach n (Nat.le_refl n)
      generalize cfIter a n u = x at hn hrw
      have hgx := cf_goodFrom_reach hg hrw
      have h3x := cf_noDeg3_reach h3 hrw
      have hx1 : a.outDeg x ≥ 1 := (hg x hrw).2.1
      have hx3 : a.outDeg x ≠ 3 := h3 x hrw
      have hx4 := outDeg_le_four a x
      rw [encodeFastLoop]
      simp only
      by_cases h4 : (a.live x).length = 4
      · rw [if_pos h4]
        have hd : b0 * 2 + rest.headD 0 < a.outDeg x := by rw [Acc.outDeg]; omega
        have hj := cf_reach_arc (selectArc_mem a tbl x hd)
        apply cf_map_isOk
        exact ih _ _ f (by simp; omega) (cf_isBits_drop hrest 1) (cf_goodFrom_reach hgx hj)
          (cf_noDeg3_reach h3x hj) hf'
      · have h2 : (a.live x).length = 2 := by rw [Acc.outDeg] at hx1 hx3 hx4 hn; omega
        rw [if_neg h4, if_pos h2]
        have hd : b0 < a.outDeg x := by rw [Acc.outDeg]; omega
        have hj := cf_reach_arc (selectArc_mem a tbl x hd)
        apply cf_map_isOk
        exact ih _ _ f (by omega) hrest (cf_goodFrom_reach hgx hj) (cf_noDeg3_reach h3x hj) hf'

theorem cf_isAcgt_of_isWalk (a : Acc) (v : Int) (s : List Char) (hw : isWalk a v s = true) :
    IsAcgt s := by
  induction s generalizing v with
  | nil => intro c hc; cases hc
  | cons c s ih =>
    obtain ⟨j, hc, _, hw'⟩ := cf_isWalk_cons hw
    intro x hx
    rcases List.mem_cons.1 hx with rfl | hx
    · simp [hc]
    · exact ih _ hw' x hx

theorem cf_C01_total_fast (a : Acc) (tbl : Option Tbl) (v : Int) (bits : List Nat) (vtLen : Nat)
    (hb : IsBits bits) (hg : a.GoodFrom v) (h3 : a.NoDeg3From v) :
    ∃ s c, encode a tbl v bits true vtLen (encodeFuel a bits) = .ok (s, c) := by
  obtain ⟨s, hs⟩ := cf_encode_total a tbl bits.length bits v (encodeFuel a bits) (Nat.le_refl _) hb hg h3
    (Nat.le_refl _)
  have hw := (cf_encode_walkBitsD a tbl _ v bits s hb hs).1
  unfold encode
  simp only [if_true, hs, bind, Except.bind, pure, Except.pure]
  by_cases hv : vtLen > 0
  · rw [if_pos hv, setVt_ok_vt vtLen (cf_isAcgt_of_isWalk a v s hw)]
    exact ⟨_, _, rfl⟩
  · rw [if_neg hv]
    exact ⟨_, _, rfl⟩

end Dsw
