import DswModel.Model.Spiderweb
import DswModel.Lemmas.CoderDefs
import DswModel.Lemmas.Digit
import DswModel.Props.C15
import DswModel.Props.C16
import DswModel.Props.C18
/-! Helper lemmas for encode/decode (CoderFast). -/
namespace Dsw

end Dsw
