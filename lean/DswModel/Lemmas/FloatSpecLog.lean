import DswModel.Model.Float
import DswModel.Lemmas.FloatRound
import Mathlib.Tactic.Linarith
/-!
# `ratLog2` is the floor of the binary logarithm; change of scale for power-of-two comparisons

`ratLog2_spec'` is the sign-split statement of `Props/FloatSpec.lean`. `scale_le` / `scale_lt` turn a sign-split
comparison with `2^L` (`L : Int`) into a comparison of naturals after multiplying by `2^O` (`O` an offset).
-/
namespace Dsw

theorem two_pow_pos' (k : Nat) : 0 < 2 ^ k := Nat.pow_pos (by omega)

theorem ratLog2_spec' (n d : Nat) (hn : 0 < n) (hd : 0 < d) :
    (if ratLog2 n d ≥ 0 then d * 2 ^ (ratLog2 n d).toNat ≤ n else d ≤ n * 2 ^ (-(ratLog2 n d)).toNat) ∧
    (if ratLog2 n d + 1 ≥ 0 then n < d * 2 ^ (ratLog2 n d + 1).toNat
      else n * 2 ^ (-(ratLog2 n d + 1)).toNat < d) := by
  have hn1 : 2 ^ n.log2 ≤ n := Nat.log2_self_le (by omega)
  have hn2 : n < 2 ^ (n.log2 + 1) := Nat.lt_log2_self
  have hd1 : 2 ^ d.log2 ≤ d := Nat.log2_self_le (by omega)
  have hd2 : d < 2 ^ (d.log2 + 1) := Nat.lt_log2_self
  unfold ratLog2
  simp only
  generalize n.log2 = a at *
  generalize d.log2 = b at *
  by_cases h0 : (a : Int) - (b : Int) ≥ 0
  · simp only [h0, if_true]
    obtain ⟨c, rfl⟩ : ∃ c, a = b + c := ⟨a - b, by omega⟩
    have ht : ((b + c : Nat) : Int) - (b : Int) = (c : Int) := by omega
    rw [ht, Int.toNat_natCast]
    have hbc : 2 ^ (b + c) = 2 ^ b * 2 ^ c := Nat.pow_add 2 b c
    have hbc1 : 2 ^ (b + c + 1) = 2 ^ b * 2 ^ (c + 1) := by
      rw [Nat.add_assoc, Nat.pow_add]
    by_cases h2 : n ≥ d * 2 ^ c
    · simp only [h2, if_true]
      have hc0 : (c : Int) ≥ 0 := by omega
      have hc1 : (c : Int) + 1 ≥ 0 := by omega
      have ht1 : ((c : Int) + 1).toNat = c + 1 := by omega
      simp only [hc0, hc1, if_true, Int.toNat_natCast, ht1]
      refine ⟨h2, ?_⟩
      have : 2 ^ b * 2 ^ (c + 1) ≤ d * 2 ^ (c + 1) := Nat.mul_le_mul_right _ hd1
      omega
    · simp only [h2, if_false]
      have hc1 : (c : Int) - 1 + 1 ≥ 0 := by omega
      have ht1 : ((c : Int) - 1 + 1).toNat = c := by omega
      simp only [hc1, if_true, ht1]
      refine ⟨?_, by omega⟩
      rcases Nat.eq_zero_or_pos c with hc | hc
      · subst hc
        have hneg : ¬ ((0 : Nat) : Int) - 1 ≥ 0 := by omega
        have ht2 : (-(((0 : Nat) : Int) - 1)).toNat = 1 := by omega
        simp only [hneg, if_false, ht2]
        simp only [Nat.add_zero] at hn1 hd2
        have : 2 ^ (b + 1) = 2 ^ b * 2 := Nat.pow_succ 2 b
        omega
      · have hpos : (c : Int) - 1 ≥ 0 := by omega
        obtain ⟨c', rfl⟩ : ∃ c', c = c' + 1 := ⟨c - 1, by omega⟩
        have ht2 : (((c' + 1 : Nat) : Int) - 1).toNat = c' := by omega
        simp only [hpos, if_true, ht2]
        have e1 : 2 ^ (b + (c' + 1)) = 2 ^ (b + 1) * 2 ^ c' := by
          rw [← Nat.pow_add]; congr 1; omega
        have : d * 2 ^ c' ≤ 2 ^ (b + 1) * 2 ^ c' := Nat.mul_le_mul_right _ (Nat.le_of_lt hd2)
        omega
  · simp only [h0, if_false]
    -- b = a + c, c > 0
    obtain ⟨c, rfl⟩ : ∃ c, b = a + (c + 1) := ⟨b - a - 1, by omega⟩
    have ht : (-((a : Int) - ((a + (c + 1) : Nat) : Int))).toNat = c + 1 := by omega
    rw [ht]
    have hb : 2 ^ (a + (c + 1)) = 2 ^ a * 2 ^ (c + 1) := Nat.pow_add 2 a (c + 1)
    have hb' : 2 ^ (a + (c + 1)) = 2 ^ (a + 1) * 2 ^ c := by
      rw [← Nat.pow_add]; congr 1; omega
    have hb1 : 2 ^ (a + (c + 1) + 1) = 2 ^ a * 2 ^ (c + 2) := by
      rw [← Nat.pow_add]; congr 1
    by_cases h2 : n * 2 ^ (c + 1) ≥ d
    · simp only [h2, if_true]
      have hneg : ¬ ((a : Int) - ((a + (c + 1) : Nat) : Int) ≥ 0) := by omega
      simp only [hneg, if_false, ht]
      refine ⟨h2, ?_⟩
      rcases Nat.eq_zero_or_pos c with hc | hc
      · subst hc
        have hp : (a : Int) - ((a + (0 + 1) : Nat) : Int) + 1 ≥ 0 := by omega
        have ht3 : ((a : Int) - ((a + (0 + 1) : Nat) : Int) + 1).toNat = 0 := by omega
        simp only [hp, if_true, ht3]
        simp only [Nat.pow_zero, Nat.mul_one] at hb' ⊢
        omega
      · have hp : ¬ ((a : Int) - ((a + (c + 1) : Nat) : Int) + 1 ≥ 0) := by omega
        have ht3 : (-((a : Int) - ((a + (c + 1) : Nat) : Int) + 1)).toNat = c := by omega
        simp only [hp, if_false, ht3]
        have : n * 2 ^ c < 2 ^ (a + 1) * 2 ^ c := Nat.mul_lt_mul_of_pos_right hn2 (two_pow_pos' c)
        omega
    · simp only [h2, if_false]
      have hneg : ¬ ((a : Int) - ((a + (c + 1) : Nat) : Int) - 1 ≥ 0) := by omega
      have hneg1 : ¬ ((a : Int) - ((a + (c + 1) : Nat) : Int) - 1 + 1 ≥ 0) := by omega
      have ht3 : (-((a : Int) - ((a + (c + 1) : Nat) : Int) - 1)).toNat = c + 2 := by omega
      have ht4 : (-((a : Int) - ((a + (c + 1) : Nat) : Int) - 1 + 1)).toNat = c + 1 := by omega
      simp only [hneg, hneg1, if_false, ht3, ht4]
      refine ⟨?_, by omega⟩
      have : 2 ^ a * 2 ^ (c + 2) ≤ n * 2 ^ (c + 2) := Nat.mul_le_mul_right _ hn1
      omega

/-! ## change of scale -/

/-- `2^L ≤ n/d` (sign-split) gives `d * 2^(L+O) ≤ n * 2^O` when `L + O ≥ 0`. -/
theorem scale_le {n d : Nat} {L : Int} (O : Nat) (hLO : 0 ≤ L + O)
    (h : if L ≥ 0 then d * 2 ^ L.toNat ≤ n else d ≤ n * 2 ^ (-L).toNat) :
    d * 2 ^ (L + O).toNat ≤ n * 2 ^ O := by
  by_cases hL : L ≥ 0
  · simp only [hL, if_true] at h
    have ht : (L + O).toNat = L.toNat + O := by omega
    rw [ht, Nat.pow_add, ← Nat.mul_assoc]
    exact Nat.mul_le_mul_right _ h
  · simp only [hL, if_false] at h
    have ht : O = (-L).toNat + (L + O).toNat := by omega
    have : n * 2 ^ O = n * 2 ^ (-L).toNat * 2 ^ (L + O).toNat := by
      rw [Nat.mul_assoc, ← Nat.pow_add, ← ht]
    rw [this]
    exact Nat.mul_le_mul_right _ h

/-- `n/d < 2^L` (sign-split) gives `n * 2^O < d * 2^(L+O)` (with `2^(L+O)` read as `1` when `L + O < 0`). -/
theorem scale_lt {n d : Nat} {L : Int} (O : Nat)
    (h : if L ≥ 0 then n < d * 2 ^ L.toNat else n * 2 ^ (-L).toNat < d) :
    n * 2 ^ O < d * 2 ^ (L + O).toNat := by
  by_cases hL : L ≥ 0
  · simp only [hL, if_true] at h
    have ht : (L + O).toNat = L.toNat + O := by omega
    rw [ht, Nat.pow_add, ← Nat.mul_assoc]
    exact Nat.mul_lt_mul_of_pos_right h (two_pow_pos' O)
  · simp only [hL, if_false] at h
    by_cases hLO : 0 ≤ L + O
    · have ht : O = (-L).toNat + (L + O).toNat := by omega
      have : n * 2 ^ O = n * 2 ^ (-L).toNat * 2 ^ (L + O).toNat := by
        rw [Nat.mul_assoc, ← Nat.pow_add, ← ht]
      rw [this]
      exact Nat.mul_lt_mul_of_pos_right h (two_pow_pos' _)
    · have ht : (L + O).toNat = 0 := by omega
      rw [ht, Nat.pow_zero, Nat.mul_one]
      have hle : 2 ^ O ≤ 2 ^ (-L).toNat := Nat.pow_le_pow_right (by omega) (by omega)
      have : n * 2 ^ O ≤ n * 2 ^ (-L).toNat := Nat.mul_le_mul_left _ hle
      omega

end Dsw
