import DswModel.Tie.SwRemove
import DswModel.Tie.GraphCorollaries
import DswModel.Props.C19
/-!
# DswModel.Tie.RemoveCorollaries — C19 restated on the generated `remove_nasty_arc`

`Gen.remove_nasty_arc` is regenerated from `dsw/spiderweb.py` on every run; `tie_remove_nasty_arc` proves that it
computes the model's `removeNastyArc`. Composed with `C19_step` / `C19_history`: one returning call of the generated code
removes exactly one existing arc, that arc has the maximum intersection score of the graph before the call, no other
cell changes, and the two views it hands back describe the same graph; over any sequence of returning calls the views
stay in step and each call removes one arc.
-/
namespace Dsw.Tie
open Dsw Dsw.Py
open SwCor RepCor GraphCor

/-- what a returning call of the generated code returned, in model terms. -/
theorem gen_C19_returns (k : Nat) (a : Acc) (lm : LMap) (ins del vb : Bool) (fuel it : Nat) (v : PV)
    (hc : Consistent k a lm)
    (h : Gen.remove_nasty_arc fuel (accPV a) (lmapPV lm) (.int (it : Int)) (.bool ins) (.bool del) (.bool vb) = .ok v) :
    ∃ r, removeNastyArc a lm ins del = .ok r ∧ v = removeResultPV r := by
  obtain ⟨hw, rfl⟩ := hc
  rw [tie_remove_nasty_arc a _ k fuel it ins del vb (wf_of_wfdb hw) hw.1 (keysNodup_latterMap a) (keys_lt_latterMap hw.1)] at h
  cases hr : removeNastyArc a (accessorToLatterMap a) ins del with
  | error e => rw [hr] at h; cases h
  | ok r => rw [hr] at h; exact ⟨r, rfl, by injection h with h; exact h.symm⟩

/-- C19 on the generated code, one call: it removes exactly one arc that existed, that arc has the maximum intersection
score of the graph before the call, no other cell changes, the accessor and the latter map handed back describe the same
graph, and the graph has one arc less. -/
theorem gen_C19_step (k : Nat) (a : Acc) (lm : LMap) (ins del vb : Bool) (fuel it : Nat) (v : PV) (hk : 1 ≤ k)
    (hc : Consistent k a lm)
    (h : Gen.remove_nasty_arc fuel (accPV a) (lmapPV lm) (.int (it : Int)) (.bool ins) (.bool del) (.bool vb) = .ok v) :
    ∃ r, v = removeResultPV r ∧ r.former < 4 ^ k ∧
      ∃ j, j < 4 ∧ a.ent (r.former : Int) j = (r.latter : Int) ∧
        r.acc = a.setEnt r.former j (-1) ∧
        (∀ u j' : Nat, u < 4 ^ k → j' < 4 →
          scoreAt (calculateIntersectionScore lm k ins del) u j' ≤
            scoreAt (calculateIntersectionScore lm k ins del) r.former j) ∧
        Consistent k r.acc r.lmap ∧ r.acc.arcCount + 1 = a.arcCount := by
  obtain ⟨r, hr, rfl⟩ := gen_C19_returns k a lm ins del vb fuel it v hc h
  exact ⟨r, rfl, C19_step k a lm ins del r hk hc hr⟩

/-- a sequence of calls of the generated code, each fed with the views the previous one returned. -/
def genRemoveSeq (fuel : Nat) : PV → PV → List (Bool × Bool) → R (PV × PV)
  | a, lm, [] => .ok (a, lm)
  | a, lm, f :: fs =>
    match Gen.remove_nasty_arc fuel a lm (.int 0) (.bool f.1) (.bool f.2) (.bool false) with
    | .ok (.tup [a', lm', _, _]) => genRemoveSeq fuel a' lm' fs
    | .ok _ => .error .other
    | .error e => .error e

/-- C19 on the generated code, any history: over any sequence of returning calls the two views stay in step and each
call removes exactly one arc. -/
theorem gen_C19_history (k : Nat) (a : Acc) (lm : LMap) (flags : List (Bool × Bool)) (fuel : Nat) (va vl : PV)
    (hk : 1 ≤ k) (hc : Consistent k a lm)
    (h : genRemoveSeq fuel (accPV a) (lmapPV lm) flags = .ok (va, vl)) :
    ∃ a' lm', va = accPV a' ∧ vl = lmapPV lm' ∧ Consistent k a' lm' ∧ a'.arcCount + flags.length = a.arcCount := by
  induction flags generalizing a lm with
  | nil =>
    simp only [genRemoveSeq, Except.ok.injEq, Prod.mk.injEq] at h
    exact ⟨a, lm, h.1.symm, h.2.symm, hc, rfl⟩
  | cons f fs ih =>
    rw [genRemoveSeq] at h
    cases hcall : Gen.remove_nasty_arc fuel (accPV a) (lmapPV lm) (.int 0) (.bool f.1) (.bool f.2) (.bool false) with
    | error e => rw [hcall] at h; cases h
    | ok v =>
      obtain ⟨r, rfl, _, j, _, _, _, _, hc', hcnt⟩ := gen_C19_step k a lm f.1 f.2 false fuel 0 v hk hc hcall
      rw [hcall] at h
      simp only [removeResultPV] at h
      obtain ⟨a', lm', h1, h2, h3, h4⟩ := ih r.acc r.lmap hc' h
      refine ⟨a', lm', h1, h2, h3, ?_⟩
      simp only [List.length_cons]
      omega

end Dsw.Tie
