import DswModel.Tie.SwDecodeNp
import DswModel.Tie.Corollaries
import DswModel.Tie.OpBits
/-!
# Translation tie — `decode` (dsw/spiderweb.py): normal mode

The walk loop (`decode.for1_body`, model `decodeWalk`), the Horner loop (`decode.for2_body`, model
`hornerStr`) and the final `number_to_bit` (`decode.k4`).
-/
namespace Dsw.Tie.DecodeTie
open Dsw Dsw.Py Dsw.Tie

/-! ## model side -/

theorem ent_inR {a : Acc} (ha : a.WF) {v : Int} (h : InR a v) {j : Nat} (hj : j ∈ a.live v) :
    InR a (a.ent v j) := by
  obtain ⟨hj4, hge⟩ := (mem_live_iff a v j).1 hj
  have := (wf_row ha h).2 j hj4
  change a.ent v j = -1 ∨ (0 ≤ a.ent v j ∧ a.ent v j < a.size) at this
  rcases this with h1 | h1
  · omega
  · exact h1

theorem live_eq_singleton {a : Acc} {v : Int} (h : (a.live v).length = 1) :
    a.live v = [(a.live v).getD 0 0] := by
  match hl : a.live v, h with
  | [x], _ => rfl

/-- one step of `decodeWalk`: the recorded pair (if any) and the next vertex. -/
def walkStep (a : Acc) (tbl : Option Tbl) (v : Int) (c : Char) : R (List (Nat × Nat) × Int) :=
  if (a.live v).length > 1 then
    match livePos a v c with
    | Option.none => .error .valueError
    | some p => .ok ([((a.live v).length, posToDigit tbl v (a.live v) p)], a.ent v ((nucIdx c).getD 0))
  else if (a.live v).length = 1 then
    if c = nucChar ((a.live v).getD 0 0) then .ok ([], a.ent v ((nucIdx c).getD 0)) else .error .valueError
  else .error .valueError

theorem decodeWalk_cons (a : Acc) (tbl : Option Tbl) (v : Int) (c : Char) (s : List Char) :
    decodeWalk a tbl v (c :: s) =
      match walkStep a tbl v c with
      | .error err => .error err
      | .ok (l, v') => (decodeWalk a tbl v' s).map (l ++ ·) := by
  unfold walkStep
  rw [decodeWalk]
  by_cases h1 : (a.live v).length > 1
  · simp only [h1, if_true]
    cases livePos a v c with
    | none => rfl
    | some p => rfl
  · simp only [h1, if_false]
    by_cases h2 : (a.live v).length = 1
    · simp only [h2, if_true]
      by_cases h3 : c = nucChar ((a.live v).getD 0 0)
      · simp only [h3, if_true]
        cases decodeWalk a tbl (a.ent v ((nucIdx (nucChar ((a.live v).getD 0 0))).getD 0)) s <;> rfl
      · simp only [h3, if_false]
    · simp only [h2, if_false]

/-- what a successful step yields. -/
theorem walkStep_ok {a : Acc} (ha : a.WF) {tbl : Option Tbl} {v : Int} (h : InR a v) {c : Char}
    {l : List (Nat × Nat)} {v' : Int} (hs : walkStep a tbl v c = .ok (l, v')) :
    InR a v' ∧ l.length ≤ 1 ∧ ∀ p ∈ l, 1 ≤ p.1 ∧ p.1 ≤ 4 ∧ p.2 < p.1 := by
  unfold walkStep at hs
  by_cases h1 : (a.live v).length > 1
  · simp only [h1, if_true] at hs
    cases hp : livePos a v c with
    | none => rw [hp] at hs; cases hs
    | some p =>
      rw [hp] at hs
      injection hs with hs
      injection hs with hl hv
      obtain ⟨j, hc, hj, _, hlt⟩ := livePos_spec hp
      subst hl hv
      refine ⟨by rw [hc]; exact ent_inR ha h hj, by simp, ?_⟩
      intro q hq
      simp only [List.mem_singleton] at hq
      subst hq
      exact ⟨by simp only; omega, live_length_le_four a v, posToDigit_lt tbl v _ hlt⟩
  · simp only [h1, if_false] at hs
    by_cases h2 : (a.live v).length = 1
    · simp only [h2, if_true] at hs
      by_cases h3 : c = nucChar ((a.live v).getD 0 0)
      · rw [if_pos h3] at hs
        injection hs with hs
        injection hs with hl hv
        subst hl hv
        have hsing := live_eq_singleton h2
        have hmem : (a.live v).getD 0 0 ∈ a.live v := by rw [hsing]; simp
        have hc : nucIdx c = some ((a.live v).getD 0 0) := by
          rw [h3]; exact nucIdx_nucChar _ (live_lt_four a v hmem)
        refine ⟨by rw [hc]; exact ent_inR ha h hmem, by simp, by simp⟩
      · rw [if_neg h3] at hs; cases hs
    · simp only [h2, if_false] at hs; cases hs

theorem decodeWalk_bounds {a : Acc} (ha : a.WF) (tbl : Option Tbl) :
    ∀ (s : List Char) (v : Int), InR a v → ∀ saved, decodeWalk a tbl v s = .ok saved →
      saved.length ≤ s.length ∧ ∀ p ∈ saved, 1 ≤ p.1 ∧ p.1 ≤ 4 ∧ p.2 < p.1 := by
  intro s
  induction s with
  | nil =>
    intro v _ saved h
    rw [decodeWalk] at h
    injection h with h
    subst h
    simp
  | cons c s ih =>
    intro v hv saved h
    rw [decodeWalk_cons] at h
    cases hs : walkStep a tbl v c with
    | error err => rw [hs] at h; cases h
    | ok r =>
      obtain ⟨l, v'⟩ := r
      rw [hs] at h
      simp only at h
      obtain ⟨hv', hl1, hl⟩ := walkStep_ok ha hv hs
      cases hd : decodeWalk a tbl v' s with
      | error err => rw [hd] at h; cases h
      | ok rest =>
        rw [hd] at h
        injection h with h
        subst h
        obtain ⟨i1, i2⟩ := ih v' hv' rest hd
        refine ⟨by simp only [List.length_append, List.length_cons]; omega, ?_⟩
        intro p hp
        rcases List.mem_append.mp hp with hp | hp
        · exact hl p hp
        · exact i2 p hp

theorem hornerStr_cons (dn : Nat × Nat) (rest : List (Nat × Nat)) :
    hornerStr (dn :: rest) = calculusAddition (calculusMultiplication (hornerStr rest) dn.1) dn.2 := by
  simp [hornerStr, List.foldl_append]

theorem hornerStr_spec (saved : List (Nat × Nat)) (h : ∀ p ∈ saved, 1 ≤ p.1 ∧ p.1 ≤ 4 ∧ p.2 < p.1) :
    (hornerStr saved).Canonical ∧ (hornerStr saved).toNat < 4 ^ saved.length := by
  induction saved with
  | nil => exact ⟨Dec.canonical_zero, by decide⟩
  | cons dn rest ih =>
    obtain ⟨hc, hv⟩ := ih (fun p hp => h p (by simp [hp]))
    obtain ⟨h1, h4, h2⟩ := h dn (by simp)
    obtain ⟨m1, m2⟩ := calculusMultiplication_spec (hornerStr rest) dn.1 hc (by omega)
    obtain ⟨a1, a2⟩ := calculusAddition_spec _ dn.2 m1 (by omega)
    rw [hornerStr_cons]
    refine ⟨a1, ?_⟩
    rw [a2, m2, List.length_cons, Nat.pow_succ]
    have e1 : (hornerStr rest).toNat * dn.1 + dn.1 ≤ 4 ^ rest.length * dn.1 := by
      have := Nat.mul_le_mul_right dn.1 (show (hornerStr rest).toNat + 1 ≤ 4 ^ rest.length from hv)
      rw [Nat.add_mul, Nat.one_mul] at this
      exact this
    have e2 : 4 ^ rest.length * dn.1 ≤ 4 ^ rest.length * 4 := Nat.mul_le_mul_left _ h4
    omega

/-! ## the walk loop -/

/-- `saved_values`. -/
def savedPV (l : List (Nat × Nat)) : PV := .list (l.map fun p => PV.tup [.int (p.1 : Int), .int (p.2 : Int)])

/-- relation between the model state (current vertex, pairs recorded so far) and the environment. -/
def WalkRel (a : Acc) (tbl : Option Tbl) (verbose : Bool) (L : Nat) (v : Int) (acc : List (Nat × Nat))
    (e : Gen.decode.Env) : Prop :=
  e.accessor = accPV a ∧ e.vertex_index = .int v ∧ e.nucleotides = .str ['A', 'C', 'G', 'T'] ∧
    e.shuffles = tblPV tbl ∧ e.verbose = .bool verbose ∧ e.saved_values = savedPV acc ∧
    e.quotient = .str ['0'] ∧ e.bit_length = .int (L : Int)

/-- closes a `WalkRel` goal about an environment literal: every field is `rfl` or a hypothesis. -/
macro "walk_rel" : tactic =>
  `(tactic| (refine ⟨?_, ?_, ?_, ?_, ?_, ?_, ?_, ?_⟩ <;> first | rfl | assumption))

/-- glue: a statement known to end normally in a state satisfying `Q`, followed by a continuation
that ends normally in a state satisfying `Q'`. -/
theorem seq_norm_exists {ε : Type} {m : R (Flow ε)} {k : ε → R (Flow ε)} {Q Q' : ε → Prop}
    (hm : ∃ e1, m = .ok (.norm e1) ∧ Q e1) (hk : ∀ e1, Q e1 → ∃ e2, k e1 = .ok (.norm e2) ∧ Q' e2) :
    ∃ e2, seq m k = .ok (.norm e2) ∧ Q' e2 := by
  obtain ⟨e1, rfl, hq⟩ := hm
  exact hk e1 hq

theorem k3_spec (fuel : Nat) (e : Gen.decode.Env) (b : Bool) (h : e.verbose = .bool b) :
    Gen.decode.k3 fuel e = .ok (.norm e) := by
  simp only [Gen.decode.k3, h, truthy_bool, bnd_ok]
  cases b <;> rfl

theorem savedPV_append (acc : List (Nat × Nat)) (d n : Nat) :
    PV.list ((acc.map fun p => PV.tup [.int (p.1 : Int), .int (p.2 : Int)]) ++ [.tup [.int (d : Int), .int (n : Int)]]) =
      savedPV (acc ++ [(d, n)]) := by
  simp [savedPV]

/-- `accessor[vertex_index][nucleotides.index(nucleotide)]`, the way the generated code spells it. -/
theorem next_vertex_spec {a : Acc} (ha : a.WF) {v : Int} (hv : InR a v) {c : Char} {j : Nat}
    (hc : nucIdx c = some j) :
    (bnd (pyIndex (accPV a) (.int v)) fun t => bnd (pyIndexOf (.str ['A', 'C', 'G', 'T']) (.str [c])) fun u =>
      pyIndex t u) = .ok (.int (a.ent v j)) := by
  simp only [pyIndex_accPV hv, bnd_ok, pyIndexOf_str, pyStrIndex_ACGT_of_some hc,
    pyIndex_ent ha hv (Dsw.Tie.nucIdx_lt hc)]

theorem k1_spec (fuel : Nat) {a : Acc} (ha : a.WF) {tbl : Option Tbl} (verbose : Bool) (L : Nat) {v : Int}
    (hv : InR a v) (acc : List (Nat × Nat)) (e : Gen.decode.Env) (hr : WalkRel a tbl verbose L v acc e)
    (used : List Nat) (d : Nat) {c : Char} {j : Nat} (hc : nucIdx c = some j)
    (h1 : e.used_indices = idxPV used) (h2 : e.remainder = .int (d : Int)) (h3 : e.nucleotide = .str [c]) :
    ∃ e', Gen.decode.k1 fuel e = .ok (.norm e') ∧
      WalkRel a tbl verbose L (a.ent v j) (acc ++ [(used.length, d)]) e' := by
  obtain ⟨hacc, hvi, hnuc, hsh, hverb, hsaved, hquo, hbl⟩ := hr
  simp only [Gen.decode.k1, h1, h2, h3, hacc, hvi, hnuc, hsaved, pyLen_idxPV, bnd_ok, savedPV,
    pyAppend_list, savedPV_append, next_vertex_spec ha hv hc]
  refine ⟨_, rfl, ?_, ?_, ?_, ?_, ?_, ?_, ?_, ?_⟩ <;> first | rfl | assumption

theorem k2_spec (fuel : Nat) {a : Acc} (ha : a.WF) {tbl : Option Tbl} (ht : TblOK tbl a) (verbose : Bool) (L : Nat)
    {v : Int} (hv : InR a v) (acc : List (Nat × Nat)) (e : Gen.decode.Env)
    (hr : WalkRel a tbl verbose L v acc e) {p : Nat} (hp : p < (a.live v).length) {c : Char} {j : Nat}
    (hc : nucIdx c = some j)
    (h1 : e.used_indices = idxPV (a.live v)) (h2 : e.remainder = .int (p : Int)) (h3 : e.nucleotide = .str [c]) :
    ∃ e', Gen.decode.k2 fuel e = .ok (.norm e') ∧
      WalkRel a tbl verbose L (a.ent v j)
        (acc ++ [((a.live v).length, posToDigit tbl v (a.live v) p)]) e' := by
  have hr' := hr
  obtain ⟨hacc, hvi, hnuc, hsh, hverb, hsaved, hquo, hbl⟩ := hr
  cases tbl with
  | none =>
    simp only [Gen.decode.k2, hsh, tblPV_none, pyIsNone_none, Bool.not_true, bnd_ok, Bool.false_eq_true, if_false,
      seq_norm]
    exact k1_spec fuel ha verbose L hv acc e hr' _ p hc h1 h2 h3
  | some t =>
    obtain ⟨hsz, h4⟩ := ht t rfl
    have hvt := tbl_inR hsz hv
    simp only [Gen.decode.k2, hsh, tblPV_some, pyIsNone_accPV, Bool.not_false, bnd_ok, if_true, hvi, h1, h2,
      lookup_spec hvt (tbl_row_size h4 hvt) (fun j hj => live_lt_four a v hj) hp, bnd_ok, seq_norm]
    refine k1_spec fuel ha verbose L hv acc _ ?_ _ _ hc (by rfl) (by rfl) (by exact h3)
    walk_rel

theorem for1_body_many_ok (fuel : Nat) {a : Acc} (ha : a.WF) {tbl : Option Tbl} (ht : TblOK tbl a)
    (verbose : Bool) (L : Nat) {v : Int} (hv : InR a v) (acc : List (Nat × Nat)) (e : Gen.decode.Env)
    (hr : WalkRel a tbl verbose L v acc e) (i : Nat) (c : Char) (h1 : (a.live v).length > 1) {p : Nat}
    (hp : livePos a v c = some p) :
    ∃ e', Gen.decode.for1_body fuel (.tup [.int (i : Int), .str [c]]) e = .ok (.norm e') ∧
      WalkRel a tbl verbose L (a.ent v ((nucIdx c).getD 0))
        (acc ++ [((a.live v).length, posToDigit tbl v (a.live v) p)]) e' := by
  obtain ⟨hacc, hvi, hnuc, hsh, hverb, hsaved, hquo, hbl⟩ := hr
  obtain ⟨j, hc, hj, _, hlt⟩ := livePos_spec hp
  have hu4 : ∀ j ∈ a.live v, j < 4 := fun j hj => live_lt_four a v hj
  have h1' : (1 : Int) < ((a.live v).length : Int) := by omega
  simp only [Gen.decode.for1_body, pyUnpack_two_tup, bnd_ok, getD_cons_zero', getD_cons_one', hacc, hvi,
    used_spec ha hv, pyLen_idxPV, pyGt_int, h1', decide_true, if_true, hnuc, pyMap_nucs hu4, bnd_ok, pyIn_nucs, hp, Option.isSome_some, if_true, pyIndexOf_nucs hp,
    seq_norm, hc, Option.getD_some]
  refine seq_norm_exists (Q := WalkRel a tbl verbose L (a.ent v j) _)
    (k2_spec fuel ha ht verbose L hv acc _ ?_ hlt hc (by rfl) (by rfl) (by rfl))
    (fun e1 h1 => ⟨e1, k3_spec fuel e1 verbose h1.2.2.2.2.1, h1⟩)
  walk_rel

theorem for1_body_many_err (fuel : Nat) {a : Acc} (ha : a.WF) {tbl : Option Tbl}
    (verbose : Bool) (L : Nat) {v : Int} (hv : InR a v) (acc : List (Nat × Nat)) (e : Gen.decode.Env)
    (hr : WalkRel a tbl verbose L v acc e) (i : Nat) (c : Char) (h1 : (a.live v).length > 1)
    (hp : livePos a v c = Option.none) :
    Gen.decode.for1_body fuel (.tup [.int (i : Int), .str [c]]) e = .error .valueError := by
  obtain ⟨hacc, hvi, hnuc, hsh, hverb, hsaved, hquo, hbl⟩ := hr
  have hu4 : ∀ j ∈ a.live v, j < 4 := fun j hj => live_lt_four a v hj
  have h1' : (1 : Int) < ((a.live v).length : Int) := by omega
  simp only [Gen.decode.for1_body, pyUnpack_two_tup, bnd_ok, getD_cons_zero', getD_cons_one', hacc, hvi,
    used_spec ha hv, pyLen_idxPV, pyGt_int, h1', decide_true, if_true, hnuc, pyMap_nucs hu4,
    pyIn_nucs, hp, Option.isSome_none, Bool.false_eq_true, if_false, seq_error]

theorem for1_body_one_ok (fuel : Nat) {a : Acc} (ha : a.WF) {tbl : Option Tbl}
    (verbose : Bool) (L : Nat) {v : Int} (hv : InR a v) (acc : List (Nat × Nat)) (e : Gen.decode.Env)
    (hr : WalkRel a tbl verbose L v acc e) (i : Nat) (j0 : Nat) (h1 : a.live v = [j0]) :
    ∃ e', Gen.decode.for1_body fuel (.tup [.int (i : Int), .str [nucChar j0]]) e = .ok (.norm e') ∧
      WalkRel a tbl verbose L (a.ent v j0) acc e' := by
  obtain ⟨hacc, hvi, hnuc, hsh, hverb, hsaved, hquo, hbl⟩ := hr
  have hj0 : j0 < 4 := live_lt_four a v (by rw [h1]; simp)
  have hc : nucIdx (nucChar j0) = some j0 := nucIdx_nucChar j0 hj0
  have c1 : ((1 : Nat) : Int) = 1 := rfl
  have hlt : ¬ (1 : Int) < 1 := by omega
  simp only [Gen.decode.for1_body, pyUnpack_two_tup, bnd_ok, getD_cons_zero', getD_cons_one', hacc, hvi,
    used_spec ha hv, h1, pyLen_idxPV, List.length_singleton, pyGt_int, c1, hlt, decide_false,
    Bool.false_eq_true, if_false, pyEq_def, eqb_int, beq_self_eq_true, if_true, pyIndex_idxPV_cons_zero, hnuc,
    pyIndex_ACGT hj0, eqb_str, next_vertex_spec ha hv hc, seq_norm]
  exact ⟨_, k3_spec fuel _ verbose (by exact hverb), by walk_rel⟩

theorem for1_body_one_err (fuel : Nat) {a : Acc} (ha : a.WF) {tbl : Option Tbl}
    (verbose : Bool) (L : Nat) {v : Int} (hv : InR a v) (acc : List (Nat × Nat)) (e : Gen.decode.Env)
    (hr : WalkRel a tbl verbose L v acc e) (i : Nat) (c : Char) (j0 : Nat) (h1 : a.live v = [j0])
    (hne : c ≠ nucChar j0) :
    Gen.decode.for1_body fuel (.tup [.int (i : Int), .str [c]]) e = .error .valueError := by
  obtain ⟨hacc, hvi, hnuc, hsh, hverb, hsaved, hquo, hbl⟩ := hr
  have hj0 : j0 < 4 := live_lt_four a v (by rw [h1]; simp)
  have hb : ([c] == [nucChar j0]) = false := by simp [hne]
  have c1 : ((1 : Nat) : Int) = 1 := rfl
  have hlt : ¬ (1 : Int) < 1 := by omega
  simp only [Gen.decode.for1_body, pyUnpack_two_tup, bnd_ok, getD_cons_zero', getD_cons_one', hacc, hvi,
    used_spec ha hv, h1, pyLen_idxPV, List.length_singleton, pyGt_int, c1, hlt, decide_false,
    Bool.false_eq_true, if_false, pyEq_def, eqb_int, beq_self_eq_true, if_true, pyIndex_idxPV_cons_zero, hnuc,
    pyIndex_ACGT hj0, eqb_str, hb, seq_error]

theorem for1_body_zero (fuel : Nat) {a : Acc} (ha : a.WF) {tbl : Option Tbl}
    (verbose : Bool) (L : Nat) {v : Int} (hv : InR a v) (acc : List (Nat × Nat)) (e : Gen.decode.Env)
    (hr : WalkRel a tbl verbose L v acc e) (i : Nat) (c : Char) (h1 : ¬ (a.live v).length > 1)
    (h2 : ¬ (a.live v).length = 1) :
    Gen.decode.for1_body fuel (.tup [.int (i : Int), .str [c]]) e = .error .valueError := by
  obtain ⟨hacc, hvi, hnuc, hsh, hverb, hsaved, hquo, hbl⟩ := hr
  have h1' : ¬ (1 : Int) < ((a.live v).length : Int) := by omega
  have h2' : (((a.live v).length : Int) == 1) = false := by
    simp only [beq_eq_false_iff_ne, ne_eq]; omega
  simp only [Gen.decode.for1_body, pyUnpack_two_tup, bnd_ok, hacc, hvi,
    used_spec ha hv, pyLen_idxPV, pyGt_int, h1', decide_false, Bool.false_eq_true, if_false, pyEq_def, eqb_int,
    h2', seq_error]

theorem for1_body_spec (fuel : Nat) {a : Acc} (ha : a.WF) {tbl : Option Tbl} (ht : TblOK tbl a)
    (verbose : Bool) (L : Nat) {v : Int} (hv : InR a v) (acc : List (Nat × Nat)) (e : Gen.decode.Env)
    (hr : WalkRel a tbl verbose L v acc e) (i : Nat) (c : Char) :
    match walkStep a tbl v c with
    | .error err => Gen.decode.for1_body fuel (.tup [.int (i : Int), .str [c]]) e = .error err
    | .ok (l, v') => ∃ e', Gen.decode.for1_body fuel (.tup [.int (i : Int), .str [c]]) e = .ok (.norm e') ∧
        WalkRel a tbl verbose L v' (acc ++ l) e' := by
  unfold walkStep
  by_cases h1 : (a.live v).length > 1
  · rw [if_pos h1]
    cases hp : livePos a v c with
    | none => exact for1_body_many_err fuel ha verbose L hv acc e hr i c h1 hp
    | some p => exact for1_body_many_ok fuel ha ht verbose L hv acc e hr i c h1 hp
  · rw [if_neg h1]
    by_cases h2 : (a.live v).length = 1
    · rw [if_pos h2]
      have hsing := live_eq_singleton h2
      by_cases h3 : c = nucChar ((a.live v).getD 0 0)
      · rw [if_pos h3]
        have hmem : (a.live v).getD 0 0 ∈ a.live v := by rw [hsing]; simp
        have hc : nucIdx c = some ((a.live v).getD 0 0) := by
          rw [h3]; exact nucIdx_nucChar _ (live_lt_four a v hmem)
        have := for1_body_one_ok fuel ha verbose L hv acc e hr i _ hsing
        rw [← h3] at this
        simpa only [List.append_nil, hc, Option.getD_some] using this
      · rw [if_neg h3]
        exact for1_body_one_err fuel ha verbose L hv acc e hr i c _ hsing h3
    · rw [if_neg h2]
      exact for1_body_zero fuel ha verbose L hv acc e hr i c h1 h2

theorem for1_loop (fuel : Nat) {a : Acc} (ha : a.WF) {tbl : Option Tbl} (ht : TblOK tbl a)
    (verbose : Bool) (L : Nat) : ∀ (s : List Char) (n : Nat) (v : Int), InR a v →
      ∀ (acc : List (Nat × Nat)) (e : Gen.decode.Env), WalkRel a tbl verbose L v acc e →
      match decodeWalk a tbl v s with
      | .error err =>
        forLoop (Gen.decode.for1_body fuel) (enumFrom n (s.map fun c => PV.str [c])) e = .error err
      | .ok saved => ∃ e' v', forLoop (Gen.decode.for1_body fuel) (enumFrom n (s.map fun c => PV.str [c])) e =
          .ok (.norm e') ∧ WalkRel a tbl verbose L v' (acc ++ saved) e' := by
  intro s
  induction s with
  | nil =>
    intro n v _ acc e hr
    rw [decodeWalk]
    exact ⟨e, v, rfl, by simpa using hr⟩
  | cons c s ih =>
    intro n v hv acc e hr
    rw [decodeWalk_cons]
    have hb := for1_body_spec fuel ha ht verbose L hv acc e hr n c
    cases hs : walkStep a tbl v c with
    | error err =>
      rw [hs] at hb
      exact forLoop_cons_error hb _
    | ok r =>
      obtain ⟨l, v'⟩ := r
      rw [hs] at hb
      obtain ⟨e1, hb1, hr1⟩ := hb
      have hv' := (walkStep_ok ha hv hs).1
      have := ih (n + 1) v' hv' (acc ++ l) e1 hr1
      simp only [List.map_cons, enumFrom_cons, forLoop_cons_norm hb1]
      cases hd : decodeWalk a tbl v' s with
      | error err => rw [hd] at this; exact this
      | ok rest =>
        rw [hd] at this
        simpa only [R_map_ok, List.append_assoc] using this

/-! ## the Horner loop and `number_to_bit` -/

def HornerRel (L : Nat) (q : Dec) (e : Gen.decode.Env) : Prop :=
  e.quotient = dstr q ∧ e.bit_length = .int (L : Int) ∧ Digits q

theorem for2_body_spec (fuel : Nat) (hf : 3 ≤ fuel) (L i : Nat) (dn : Nat × Nat) (hd : dn.1 < 10) (hn : dn.2 < 10)
    (q : Dec) (e : Gen.decode.Env) (hr : HornerRel L q e) :
    ∃ e', Gen.decode.for2_body fuel (.tup [.int (i : Int), .tup [.int (dn.1 : Int), .int (dn.2 : Int)]]) e =
        .ok (.norm e') ∧ HornerRel L (calculusAddition (calculusMultiplication q dn.1) dn.2) e' := by
  obtain ⟨hquo, hbl, hdig⟩ := hr
  have hm : Digits (calculusMultiplication q dn.1) := BitsTie.Digits_calculusMultiplication hdig hd
  have hmul : Gen.calculus_multiplication fuel (dstr q) (.str [digitChar dn.1]) =
      .ok (dstr (calculusMultiplication q dn.1)) := tie_calculus_multiplication q dn.1 fuel hdig hd (by omega)
  have hadd : Gen.calculus_addition fuel (dstr (calculusMultiplication q dn.1)) (.str [digitChar dn.2]) =
      .ok (dstr (calculusAddition (calculusMultiplication q dn.1) dn.2)) :=
    tie_calculus_addition _ dn.2 fuel hm hn hf
  simp only [Gen.decode.for2_body, pyUnpack_two_tup, bnd_ok, getD_cons_zero', getD_cons_one', hquo,
    pyStr_digit hd, hmul, pyStr_digit hn, hadd]
  exact ⟨_, rfl, rfl, hbl, BitsTie.Digits_calculusAddition hm hn⟩

theorem for2_loop (fuel : Nat) (hf : 3 ≤ fuel) (L : Nat) (saved : List (Nat × Nat))
    (hs : ∀ p ∈ saved, p.1 < 10 ∧ p.2 < 10) (q : Dec) (e : Gen.decode.Env) (h0 : HornerRel L q e) :
    ∃ e', forLoop (Gen.decode.for2_body fuel)
        (enumFrom 0 (saved.map fun p => PV.tup [.int (p.1 : Int), .int (p.2 : Int)])) e = .ok (.norm e') ∧
      HornerRel L (saved.foldl (fun q dn => calculusAddition (calculusMultiplication q dn.1) dn.2) q) e' :=
  forLoop_rel_enum (HornerRel L) (fun q dn => calculusAddition (calculusMultiplication q dn.1) dn.2)
    (fun p => PV.tup [.int (p.1 : Int), .int (p.2 : Int)]) 0
    (fun i p hp q e hr => for2_body_spec fuel hf L i p (hs p hp).1 (hs p hp).2 q e hr) h0

/-- `k4`: `binary_message = array(number_to_bit(quotient, bit_length))`. -/
theorem k4_spec (fuel L : Nat) (q : Dec) (hq : q.Canonical) (hfuel : digitsFuel q + 1 ≤ fuel)
    (e : Gen.decode.Env) (hquo : e.quotient = dstr q) (hbl : e.bit_length = .int (L : Int)) :
    ∃ e', Gen.decode.k4 fuel e = .ok (.norm e') ∧ e'.binary_message = bitsPV (numberToBitInt q.toNat L) := by
  simp only [Gen.decode.k4, hquo, hbl,
    tie_number_to_bit_str q L fuel _ hq.digits (numberToBitStr_eq q hq L) hfuel, bnd_ok, npArray_natsPV]
  exact ⟨_, rfl, rfl⟩

/-- `k5`: the Horner loop over `saved_values[::-1]`, then `k4`. -/
theorem k5_spec (fuel : Nat) (hf : 3 ≤ fuel) (L : Nat) (saved : List (Nat × Nat))
    (hs : ∀ p ∈ saved, p.1 < 10 ∧ p.2 < 10) (hcan : (hornerStr saved).Canonical)
    (hfuel : digitsFuel (hornerStr saved) + 1 ≤ fuel)
    (e : Gen.decode.Env) (hsv : e.saved_values = savedPV saved) (hquo : e.quotient = .str ['0'])
    (hbl : e.bit_length = .int (L : Int)) :
    ∃ e', Gen.decode.k5 fuel e = .ok (.norm e') ∧
      e'.binary_message = bitsPV (numberToBitInt (hornerStr saved).toNat L) := by
  simp only [Gen.decode.k5, hsv, savedPV, pyReverse_list, bnd_ok, pyEnumerate_list, pyIter_list,
    ← List.map_reverse]
  refine seq_norm_exists (for2_loop fuel hf L saved.reverse
    (fun p hp => hs p (List.mem_reverse.mp hp)) [0] e ⟨by rw [hquo, str_lit_zero], hbl, by simp⟩) ?_
  intro e1 h1
  exact k4_spec fuel L _ hcan hfuel e1 h1.1 h1.2.1

end Dsw.Tie.DecodeTie
