import DswModel.Tie.SpiderwebDefs
/-!
# DswModel.Tie.RepairDefs — how the results of `path_matching` / `repair_dna` are embedded as Python values
-/
namespace Dsw.Tie
open Dsw Dsw.Py

def kindChar : EditKind → Char
  | .S => 'S'
  | .I => 'I'
  | .D => 'D'

/-- one record of `path_matching`: `((kind, location, nucleotide), repaired fragment)`. -/
def infoPV (i : RepairInfo) : PV :=
  .tup [.tup [.str [kindChar i.kind], .int (i.loc : Int), .str [i.nuc]], .str i.fragment]

/-- the value `path_matching` returns: `(records, visited count)`. -/
def pmResultPV (r : List RepairInfo × Nat) : PV :=
  .tup [.list (r.1.map infoPV), .int (r.2 : Int)]

/-- the value `repair_dna` returns: `(candidates, (detected, flag, count, visited))`. -/
def repResultPV (r : List (List Char) × RepairStats) : PV :=
  .tup [.list (r.1.map fun s => .str s),
        .tup [.int (r.2.detected : Int), .bool r.2.flag, .int (r.2.count : Int), .int (r.2.visited : Int)]]

end Dsw.Tie
