import DswModel.Tie.GzScore
import DswModel.Tie.GzViews
import DswModel.Tie.SpiderwebDefs
import DswModel.Tie.SwRemoveLib
/-!
# DswModel.Tie.SwRemove — `dsw/spiderweb.py` `remove_nasty_arc` : generated code = model

`remove_nasty_arc` updates its two arguments IN PLACE and returns them; the generated definition returns the updated
values (that the caller's own references see the update too is Python aliasing, observed by the harness, not modelled).
`int(log(n) / log(4))` is the primitive `pyIntLogRatio` (exact integer logarithm; the hand-written model uses `log4`).
-/
namespace Dsw.Tie
open Dsw Dsw.Py

/-- what the call returns: `(accessor, latter_map, (former, latter), scores)`. -/
def removeResultPV (r : RemoveResult) : PV :=
  .tup [accPV r.acc, lmapPV r.lmap, .tup [.int (r.former : Int), .int (r.latter : Int)],
        .list (r.scores.map fun (s : Nat) => .int (s : Int))]

namespace SwR

abbrev REnv := Gen.remove_nasty_arc.Env

/-- the tail of the function: the positive scores, the histogram (which only decides whether `IndexError` is raised),
the returned tuple. -/
theorem k2_spec (fuel : Nat) (e : REnv) (sc : Array (Array Nat)) (verbose : Bool)
    (hs : e.scores = scoresPV sc) (hv : e.verbose = .bool verbose) :
    Gen.remove_nasty_arc.k2 fuel e =
      if ((sc.toList.flatMap (·.toList)).filter (· > 0)).isEmpty then .error .indexError
      else .ok (.ret (.tup [e.accessor, e.latter_map, .tup [e.former, e.latter],
        natsPV ((sc.toList.flatMap (·.toList)).filter (· > 0))])) := by
  simp only [Gen.remove_nasty_arc.k2, hs, scoresPV_eq, npFlatten_matN, bnd_ok, positive_expr, List.flatMap_def]
  by_cases hp : ((sc.toList.map Array.toList).flatten.filter (· > 0)) = []
  · simp only [hp, record_expr_nil, bnd_ok, pyIndex_arr_nil, bnd_error, List.isEmpty_nil, if_true]
  · obtain ⟨K, c, hrec⟩ := record_expr hp
    obtain ⟨v, hsort⟩ := sort_expr K c
    have hne : ((sc.toList.map Array.toList).flatten.filter (· > 0)).isEmpty = false := by
      simpa [List.isEmpty_iff] using hp
    simp only [hrec, bnd_ok, hsort, hv, truthy_bool, ite_self, seq_norm, Gen.remove_nasty_arc.k1, hne,
      Bool.false_eq_true, if_false]

theorem k3_spec (a : Acc) (m : LMap) (k fuel : Nat) (ins del verbose : Bool) (hwf : a.WF) (hsz : a.size = 4 ^ k)
    (hm : LMap.KeysNodup m) (hk : ∀ p ∈ m, p.1 < 4 ^ k) (e : REnv)
    (h1 : e.accessor = accPV a) (h2 : e.latter_map = lmapPV m) (h3 : e.observed_length = .int (k : Int))
    (h4 : e.has_insertion = .bool ins) (h5 : e.has_deletion = .bool del) (h6 : e.verbose = .bool verbose)
    (h7 : e.nucleotides = .str ['A', 'C', 'G', 'T']) :
    Gen.remove_nasty_arc.k3 fuel e =
      match removeNastyArc a m ins del with
      | .ok r => .ok (.ret (removeResultPV r))
      | .error err => .error err := by
  have htie := tie_calculate_intersection_score m k fuel ins del verbose hm hk
  have hsh := shape_calc m k ins del
  unfold removeNastyArc
  simp only [hsz, log4_four_pow]
  generalize calculateIntersectionScore m k ins del = sc at htie hsh
  have hpos : 0 < 4 ^ k := Nat.pow_pos (by omega)
  have hflat : (sc.toList.map Array.toList).flatten ≠ [] := by
    have h0 : 0 < sc.size := by rw [hsh.1]; exact hpos
    have hr := hsh.2 0 hpos
    intro he
    have hmem : (sc.getD 0 #[]).toList ∈ sc.toList.map Array.toList := by
      apply List.mem_map_of_mem
      simp [Array.getD_eq_getD_getElem?, h0]
    have hnil := List.flatten_eq_nil_iff.mp he _ hmem
    have := congrArg List.length hnil
    rw [Array.length_toList, hr] at this; cases this
  rw [mx_eq]
  have hint := npIntersect1d_sorted (sorted_obtainVertices a)
    (rowIdx (· == (sc.toList.map Array.toList).flatten.foldl max 0) (sc.toList.map Array.toList) 0)
    (fun v => ((List.range sc.size).filter fun v => (sc.getD v #[]).any
      (· == (sc.toList.map Array.toList).flatten.foldl max 0)).contains v)
    (fun v _ => rows_iff sc _ v)
  simp only [Gen.remove_nasty_arc.k3, h1, h2, h3, h4, h5, h6, h7, htie, bnd_ok, vertex_expr sc hflat,
    tie_obtain_vertices a fuel hwf, hint]
  cases hF : List.filter (fun v => ((List.range sc.size).filter fun v => (sc.getD v #[]).any
      (· == (sc.toList.map Array.toList).flatten.foldl max 0)).contains v) (obtainVertices a) with
  | nil => simp only [idxArrPV, List.map_nil, pyIndex_arr_nil, bnd_error]
  | cons former rest =>
    have hmem : former ∈ obtainVertices a :=
      (List.mem_filter.mp (hF ▸ List.mem_cons_self : former ∈ List.filter _ (obtainVertices a))).1
    have hfa : former < a.size := GzV.mem_obtainVertices hmem
    have hfs : former < sc.size := by rw [hsh.1, ← hsz]; exact hfa
    have hrow4 : (sc.getD former #[]).size = 4 := hsh.2 former (by rw [← hsz]; exact hfa)
    have hrne : (sc.getD former #[]).toList ≠ [] := by
      intro he
      have := congrArg List.length he
      rw [Array.length_toList, hrow4] at this; cases this
    have hlv : argmax (sc.getD former #[]).toList < 4 := by
      have := argmax_lt hrne
      rwa [Array.length_toList, hrow4] at this
    have hlv' : argmax (sc.getD former #[]).toList < (a.getD former #[]).size := by
      rw [(hwf former hfa).1]; exact hlv
    have hcast : ((former : Int) * 4 + ((argmax (sc.getD former #[]).toList : Nat) : Int)) =
        ((former * 4 + argmax (sc.getD former #[]).toList : Nat) : Int) := by omega
    simp only [idxArrPV, List.map_cons, pyIndex_arr_cons_zero, bnd_ok, GzS.pyLen_ACGT4, pyMod_nat_four,
      pyIndex_scoresPV hfs, npArgmax_nats hrne, npMul_int, npAdd_int, hcast, pyPow_four_nat,
      pyMod_nat (Nat.ne_of_gt hpos), pyInt_int, GzV.npSetItem2_accPV hfa hlv' (-1)]
    cases hg : m.get? former with
    | none => simp only [pyIndex_lmapPV_none hg, bnd_error]
    | some ls =>
      simp only [GzV.pyIndex_lmapPV hg, bnd_ok, pyIndexOf_natsPV]
      by_cases hc : ls.contains ((former * 4 + argmax (sc.getD former #[]).toList) % 4 ^ k) = true
      · have hidx : ls.idxOf ((former * 4 + argmax (sc.getD former #[]).toList) % 4 ^ k) < ls.length :=
          List.idxOf_lt_length_of_mem (List.contains_iff_mem.mp hc)
        simp only [hc, if_true, bnd_ok, pyDelItem_natsPV hidx, pySetItem_lmapPV_old hg,
          GzV.pyIndex_lmapPV (get?_setFirst hg _), pyLen_natsPV, pyEq_def, eqb_int]
        have hlen : ∀ l : List Nat, (((l.length : Nat) : Int) == 0) = l.isEmpty := fun l => by cases l <;> rfl
        rw [erase1_eq hm hg, hlen]
        by_cases hemp : (ls.eraseIdx (ls.idxOf ((former * 4 + argmax (sc.getD former #[]).toList) % 4 ^ k))).isEmpty = true
        · simp only [hemp, if_true, pyDelItem_lmapPV (get?_setFirst hg _), delFirst_setFirst, bnd_ok, seq_norm]
          rw [k2_spec fuel _ sc verbose rfl rfl]
          by_cases hp : ((sc.toList.flatMap (·.toList)).filter (· > 0)).isEmpty = true
          · simp only [hp, if_true]
          · simp only [hp, Bool.false_eq_true, if_false, removeResultPV]; rfl
        · simp only [hemp, Bool.false_eq_true, if_false, seq_norm]
          rw [k2_spec fuel _ sc verbose rfl rfl]
          by_cases hp : ((sc.toList.flatMap (·.toList)).filter (· > 0)).isEmpty = true
          · simp only [hp, if_true]
          · simp only [hp, Bool.false_eq_true, if_false, removeResultPV]; rfl
      · simp only [hc, Bool.false_eq_true, if_false, bnd_error]

end SwR

/-- for every well-formed accessor of order `k`, every latter map with distinct keys below `4^k` (consistent with the
accessor or not), both flags, any `iteration`, both `verbose` settings: the generated code returns what the model returns,
and raises what the model raises (`IndexError` when no arc-bearing row holds the maximum or no score is positive,
`KeyError` = `other` when the map lacks the chosen vertex, `ValueError` when the map lacks the chosen arc). -/
theorem tie_remove_nasty_arc (a : Acc) (m : LMap) (k fuel iteration : Nat) (ins del verbose : Bool)
    (hwf : a.WF) (hsz : a.size = 4 ^ k) (hm : LMap.KeysNodup m) (hk : ∀ p ∈ m, p.1 < 4 ^ k) :
    Gen.remove_nasty_arc fuel (accPV a) (lmapPV m) (.int (iteration : Int)) (.bool ins) (.bool del) (.bool verbose) =
      (removeNastyArc a m ins del).map removeResultPV := by
  simp only [Gen.remove_nasty_arc, Gen.remove_nasty_arc.body, pyLen_accPV, hsz, bnd_ok, GzS.pyLen_ACGT4,
    SwR.pyIntLogRatio_four_pow, truthy_bool, pyGt_nat_zero, ite_self, seq_norm]
  rw [SwR.k3_spec a m k fuel ins del verbose hwf hsz hm hk _ rfl rfl rfl rfl rfl rfl rfl]
  cases removeNastyArc a m ins del <;> rfl

end Dsw.Tie
