import DswModel.Tie.GzScore
import DswModel.Tie.GzViews
import DswModel.Tie.SpiderwebDefs
/-!
# DswModel.Tie.SwRemove — `dsw/spiderweb.py` `remove_nasty_arc` : generated code = model

`remove_nasty_arc` updates its two arguments IN PLACE and returns them; the generated definition returns the updated
values (that the caller's own references see the update too is Python aliasing, observed by the harness, not modelled).
`int(log(n) / log(4))` is the primitive `pyIntLogRatio` (exact integer logarithm; the hand-written model uses `log4`).
-/
namespace Dsw.Tie
open Dsw Dsw.Py

/-- what the call returns: `(accessor, latter_map, (former, latter), scores)`. -/
def removeResultPV (r : RemoveResult) : PV :=
  .tup [accPV r.acc, lmapPV r.lmap, .tup [.int (r.former : Int), .int (r.latter : Int)],
        .list (r.scores.map fun (s : Nat) => .int (s : Int))]

/-- for every well-formed accessor of order `k`, every latter map with distinct keys below `4^k` (consistent with the
accessor or not), both flags, any `iteration`, both `verbose` settings: the generated code returns what the model returns,
and raises what the model raises (`IndexError` when no arc-bearing row holds the maximum or no score is positive,
`KeyError` = `other` when the map lacks the chosen vertex, `ValueError` when the map lacks the chosen arc). -/
theorem tie_remove_nasty_arc (a : Acc) (m : LMap) (k fuel iteration : Nat) (ins del verbose : Bool)
    (hwf : a.WF) (hsz : a.size = 4 ^ k) (hm : LMap.KeysNodup m) (hk : ∀ p ∈ m, p.1 < 4 ^ k) :
    Gen.remove_nasty_arc fuel (accPV a) (lmapPV m) (.int (iteration : Int)) (.bool ins) (.bool del) (.bool verbose) =
      (removeNastyArc a m ins del).map removeResultPV := by
  sorry

end Dsw.Tie
