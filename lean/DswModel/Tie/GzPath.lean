import DswModel.Tie.NpLemmas
import DswModel.Tie.RepairDefs
import DswModel.Gen.Graphized
/-!
# Translation tie — `path_matching` (dsw/graphized.py)

`Dsw.Gen.path_matching` (generated from the Python source on every run) computes the model function
`Dsw.pathMatching` — substitution candidates, and with `has_indel` the insertion and deletion candidates,
the visited count, and `IndexError` when the error position lies outside the chunk — for every well-formed
accessor, every previous vertex the code can index (negative indices wrap, as in `repair_dna`'s unset queue
entries), and EVERY chunk (foreign characters included), with the default nucleotide alphabet.
-/
namespace Dsw.Tie
open Dsw Dsw.Py

theorem tie_path_matching (a : Acc) (chunk : List Char) (prev : Int) (occ : Nat) (hasIndel : Bool) (fuel : Nat)
    (ha : a.WF) (hp : -(a.size : Int) ≤ prev ∧ prev < a.size) :
    Gen.path_matching fuel (cstr chunk) (accPV a) (.int prev) (.int (occ : Int)) (.bool hasIndel) .none =
      (pathMatching a chunk prev occ hasIndel).map pmResultPV := by
  sorry

end Dsw.Tie
