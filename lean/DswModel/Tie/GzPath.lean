import DswModel.Tie.NpLemmas
import DswModel.Tie.RepairDefs
import DswModel.Gen.Graphized
/-!
# Translation tie — `path_matching` (dsw/graphized.py)

`Dsw.Gen.path_matching` (generated from the Python source on every run) computes the model function
`Dsw.pathMatching` — substitution candidates, and with `has_indel` the insertion and deletion candidates,
the visited count, and `IndexError` when the error position lies outside the chunk — for every well-formed
accessor, every previous vertex the code can index (negative indices wrap, as in `repair_dna`'s unset queue
entries), and EVERY chunk (foreign characters included), with the default nucleotide alphabet.

Structure: §1 rows reached through a wrapped index; §2 model-side facts (`walkCount`, `Acc.next`);
§3 computation lemmas for the primitives that had none (`filterM'`, `pyDelItem`, list surgery on the
characters of a string); §4 the relation `WRel` between the model state and the environment, the three
inner walks (one generic loop lemma `walk_loop`, three body lemmas each); §5 the continuations, last to first.
-/
namespace Dsw.Tie.PathTie
open Dsw Dsw.Py Dsw.Tie

/-! ## §1 rows reached through a wrapped index -/

/-- a row index the code can use: negative indices wrap once. -/
def InW (a : Acc) (v : Int) : Prop := -(a.size : Int) ≤ v ∧ v < a.size

def wrapIdx (a : Acc) (v : Int) : Int := if v < 0 then v + a.size else v

theorem wrap_range {a : Acc} {v : Int} (h : InW a v) : 0 ≤ wrapIdx a v ∧ wrapIdx a v < a.size := by
  unfold wrapIdx; unfold InW at h; split <;> omega

theorem row_wrap {a : Acc} {v : Int} (h : InW a v) : a.row v = a.row (wrapIdx a v) := by
  unfold wrapIdx
  by_cases hv : v < 0
  · have h2 : ¬ (v + (a.size : Int) < 0) := by unfold InW at h; omega
    simp only [Acc.row, hv, if_true, h2, if_false]
  · simp only [hv, if_false]

theorem ent_wrap {a : Acc} {v : Int} (h : InW a v) (j : Nat) : a.ent v j = a.ent (wrapIdx a v) j := by
  unfold Acc.ent; rw [row_wrap h]

theorem live_wrap {a : Acc} {v : Int} (h : InW a v) : a.live v = a.live (wrapIdx a v) := by
  unfold Acc.live; congr 1; funext j; rw [ent_wrap h]

theorem pyIndex_wrap {a : Acc} {v : Int} (h : InW a v) :
    pyIndex (accPV a) (.int v) = pyIndex (accPV a) (.int (wrapIdx a v)) := by
  have hw := wrap_range h
  rw [pyIndex_accPV, pyIndex_accPV, if_pos (show -(a.size : Int) ≤ v ∧ v < a.size from h),
    if_pos (show -(a.size : Int) ≤ wrapIdx a v ∧ wrapIdx a v < a.size by omega), row_wrap h]

/-- the idiom `where(accessor[v] >= 0)[0]` for a wrapped index. -/
theorem used_w {a : Acc} (ha : a.WF) {v : Int} (h : InW a v) :
    (bnd (bnd (bnd (pyIndex (accPV a) (.int v)) fun t => npCmp pyGe t (.int 0)) fun t => npWhere t)
        fun t => pyIndex t (.int 0)) = .ok (.arr ((a.live v).map fun (j : Nat) => .int (j : Int))) := by
  have hw := wrap_range h
  rw [pyIndex_wrap h, where_row_ge_zero ha hw.1 hw.2, ← live_wrap h]

/-- the idiom `accessor[v][nucleotides.index(c)]` for a wrapped index. -/
theorem ent_w {a : Acc} (ha : a.WF) {v : Int} (h : InW a v) {c : Char} {j : Nat} (hc : nucIdx c = some j) :
    (bnd (pyIndex (accPV a) (.int v)) fun r => bnd (pyIndexOf (.str ['A', 'C', 'G', 'T']) (.str [c])) fun k =>
        pyIndex r k) = .ok (.int (a.ent v j)) := by
  have hw := wrap_range h
  rw [pyIndex_wrap h, acc_index_nuc ha hw.1 hw.2 hc, hc, Option.getD_some, ← ent_wrap h]

theorem ent_of_live_w {a : Acc} (ha : a.WF) {v : Int} (h : InW a v) {j : Nat} (hj : j ∈ a.live v) :
    InW a (a.ent v j) := by
  have hw := wrap_range h
  rw [live_wrap h] at hj
  rw [ent_wrap h]
  have := ha.ent_of_live hw.1 hw.2 hj
  exact ⟨by omega, this.2⟩

/-! ## §2 model side -/

theorem walkCount_nil (a : Acc) (v : Int) (n : Nat) : walkCount a v [] n = (true, n) := by
  simp [walkCount]
theorem walkCount_cons_some {a : Acc} {v : Int} {c : Char} {t : Int} (h : a.next v c = some t)
    (s : List Char) (n : Nat) : walkCount a v (c :: s) n = walkCount a t s (n + 1) := by
  simp [walkCount, h]
theorem walkCount_cons_none {a : Acc} {v : Int} {c : Char} (h : a.next v c = Option.none)
    (s : List Char) (n : Nat) : walkCount a v (c :: s) n = (false, n) := by
  simp [walkCount, h]

/-- the counter is an accumulator. -/
theorem walkCount_acc (a : Acc) (s : List Char) : ∀ (v : Int) (n : Nat),
    walkCount a v s n = ((walkCount a v s 0).1, n + (walkCount a v s 0).2) := by
  induction s with
  | nil => intro v n; simp [walkCount_nil]
  | cons c s ih =>
    intro v n
    cases h : a.next v c with
    | none => simp [walkCount_cons_none h]
    | some t =>
      rw [walkCount_cons_some h, walkCount_cons_some h, ih t (n + 1), ih t (0 + 1)]
      simp only [Prod.mk.injEq, true_and]; omega

theorem next_some {a : Acc} {v : Int} {c : Char} {t : Int} (h : a.next v c = some t) :
    ∃ j, nucIdx c = some j ∧ j ∈ a.live v ∧ t = a.ent v j := by
  unfold Acc.next at h
  cases hc : nucIdx c with
  | none => rw [hc] at h; cases h
  | some j =>
    rw [hc] at h
    by_cases hge : a.ent v j ≥ 0
    · simp only [hge, if_true, Option.some.injEq] at h
      exact ⟨j, rfl, (mem_live_iff a v j).2 ⟨nucIdx_lt hc, hge⟩, h.symm⟩
    · simp only [hge, if_false] at h; cases h

theorem livePos_of_mem {a : Acc} {v : Int} {c : Char} {j : Nat} (hc : nucIdx c = some j) (hj : j ∈ a.live v) :
    livePos a v c = some ((a.live v).idxOf j) := by
  have : (a.live v).contains j = true := by simpa using hj
  simp only [livePos, hc, this, if_true]

theorem next_none {a : Acc} {v : Int} {c : Char} (h : a.next v c = Option.none) :
    livePos a v c = Option.none := by
  unfold Acc.next at h
  unfold livePos
  cases hc : nucIdx c with
  | none => rfl
  | some j =>
    rw [hc] at h
    by_cases hge : a.ent v j ≥ 0
    · simp only [hge, if_true] at h; cases h
    · have : ¬ j ∈ a.live v := fun hm => hge ((mem_live_iff a v j).1 hm).2
      have hb : (a.live v).contains j = false := by simpa using this
      simp only [hb, Bool.false_eq_true, if_false]

/-! ## §3 primitives without lemmas so far -/

/-- `filter(f, items)` over an embedded list, `f` total. -/
theorem filterM'_map {α} {f : PV → R Bool} {emb : α → PV} {g : α → Bool} {l : List α}
    (h : ∀ x ∈ l, f (emb x) = .ok (g x)) : filterM' f (l.map emb) = .ok ((l.filter g).map emb) := by
  induction l with
  | nil => rfl
  | cons x xs ih =>
    have ih' := ih (fun y hy => h y (by simp [hy]))
    simp only [List.map_cons, filterM', h x (by simp), ih', List.filter_cons]
    cases g x <;> rfl

/-- `filter(lambda n: n != original, used_nucleotides)`. -/
theorem filter_ne_orig (l : List Nat) (orig : Char) :
    filterM' (fun it_n => pyNe it_n (.str [orig])) (l.map fun j => .str [nucChar j]) =
      .ok ((l.filter fun j => !decide (nucChar j = orig)).map fun j => .str [nucChar j]) :=
  filterM'_map (fun j _ => by simp only [pyNe_def, eqb_char_str])

@[simp] theorem pyFilter_list (f : PV → R Bool) (l : List PV) :
    pyFilter f (.list l) = (filterM' f l).map .list := rfl

theorem pyDelItem_list_nat {l : List PV} {i : Nat} (h : i < l.length) :
    pyDelItem (.list l) (.int i) = .ok (.list (l.eraseIdx i)) := by
  simp [pyDelItem, normIndex_natCast h]

/-- `l = list(dna); l[i] = x`. -/
theorem setItem_chars {s : List Char} {i : Nat} (h : i < s.length) (x : Char) :
    pySetItem (.list (s.map fun c => .str [c])) (.int i) (.str [x]) =
      .ok (.list ((s.set i x).map fun c => .str [c])) := by
  rw [pySetItem_list_nat (by simpa using h), List.map_set]
/-- `l = list(dna); l.insert(i, x)`. -/
theorem insert_chars (s : List Char) (i : Nat) (x : Char) :
    pyInsert (.list (s.map fun c => .str [c])) (.int i) (.str [x]) =
      .ok (.list ((s.take i ++ [x] ++ s.drop i).map fun c => .str [c])) := by
  rw [pyInsert_list_nat]; simp
/-- `l = list(dna); del l[i]`. -/
theorem delItem_chars {s : List Char} {i : Nat} (h : i < s.length) :
    pyDelItem (.list (s.map fun c => .str [c])) (.int i) =
      .ok (.list ((s.take i ++ s.drop (i + 1)).map fun c => .str [c])) := by
  rw [pyDelItem_list_nat (by simpa using h), List.eraseIdx_eq_take_drop_succ]; simp
/-- `''.join(l)` for a list of one-letter strings. -/
theorem join_chars (s : List Char) : pyJoin (.str []) (.list (s.map fun c => .str [c])) = .ok (.str s) := by
  have := pyJoin_empty_chars (fun c : Char => c) s
  simpa using this

/-! ## §4 the environment relation and the inner walks -/

/-- the fixed data of one call (`orig` is `dna[occ]`). -/
structure Ctx where
  a : Acc
  chunk : List Char
  prev : Int
  occ : Nat
  hasIndel : Bool
  orig : Char

abbrev Env := Gen.path_matching.Env

/-- the environment during the loops: the arguments, `original`, `used_indices`, the records so far, the
three candidate nucleotides (whatever they hold), the walking vertex, `reliable`, `visited_count`. -/
def WRel (C : Ctx) (rn an dn vi : PV) (infos : List RepairInfo) (rl : PV) (n : Nat) (e : Env) : Prop :=
  e.dna_sequence = .str C.chunk ∧ e.accessor = accPV C.a ∧ e.previous_index = .int C.prev ∧
    e.occur_location = .int (C.occ : Int) ∧ e.has_indel = .bool C.hasIndel ∧
    e.nucleotides = .str ['A', 'C', 'G', 'T'] ∧ e.original = .str [C.orig] ∧
    e.used_indices = .arr ((C.a.live C.prev).map fun (j : Nat) => .int (j : Int)) ∧
    e.repair_info = .list (infos.map infoPV) ∧ e.r_nucleotide = rn ∧ e.a_nucleotide = an ∧
    e.d_nucleotide = dn ∧ e.vertex_index = vi ∧ e.reliable = rl ∧ e.visited_count = .int (n : Int)

/-- closes a `WRel` goal about an environment literal: every field is `rfl` or a hypothesis. -/
macro "w_rel" : tactic =>
  `(tactic| (refine ⟨?_, ?_, ?_, ?_, ?_, ?_, ?_, ?_, ?_, ?_, ?_, ?_, ?_, ?_, ?_⟩ <;> first | rfl | assumption))

theorem seq_norm_exists {ε : Type} {m : R (Flow ε)} {k : ε → R (Flow ε)} {Q Q' : ε → Prop}
    (hm : ∃ e1, m = .ok (.norm e1) ∧ Q e1) (hk : ∀ e1, Q e1 → ∃ e2, k e1 = .ok (.norm e2) ∧ Q' e2) :
    ∃ e2, seq m k = .ok (.norm e2) ∧ Q' e2 := by
  obtain ⟨e1, rfl, hq⟩ := hm
  exact hk e1 hq

/-- the items of an inner walk: the letters of a string, possibly with their positions. -/
def embList (emb : Nat → Char → PV) : Nat → List Char → List PV
  | _, [] => []
  | i, c :: s => emb i c :: embList emb (i + 1) s

theorem enum_eq_embList (s : List Char) (i : Nat) :
    enumFrom i (s.map fun c => .str [c]) = embList (fun i c => .tup [.int (i : Int), .str [c]]) i s := by
  induction s generalizing i with
  | nil => rfl
  | cons c s ih => simp only [List.map_cons, enumFrom_cons, embList, ih]
theorem map_eq_embList (s : List Char) (i : Nat) :
    (s.map fun c => PV.str [c]) = embList (fun _ c => .str [c]) i s := by
  induction s generalizing i with
  | nil => rfl
  | cons c s ih => simp only [List.map_cons, embList, ← ih]

/-- **the inner walk**: a loop whose body follows the arc labelled by the item (counting it) or breaks with
`reliable = False` computes `walkCount`. -/
theorem walk_loop {C : Ctx} (ha : C.a.WF) {body : PV → Env → R (Flow Env)} {emb : Nat → Char → PV}
    {rn an dn : PV} {infos : List RepairInfo}
    (hok : ∀ (e : Env) (n : Nat) (v : Int), WRel C rn an dn (.int v) infos (.bool true) n e → InW C.a v →
      ∀ (i : Nat) (c : Char) (t : Int), C.a.next v c = some t →
        ∃ e', body (emb i c) e = .ok (.norm e') ∧ WRel C rn an dn (.int t) infos (.bool true) (n + 1) e')
    (hbrk : ∀ (e : Env) (n : Nat) (v : Int), WRel C rn an dn (.int v) infos (.bool true) n e → InW C.a v →
      ∀ (i : Nat) (c : Char), C.a.next v c = Option.none →
        ∃ e', body (emb i c) e = .ok (.brk e') ∧ WRel C rn an dn (.int v) infos (.bool false) n e') :
    ∀ (s : List Char) (i : Nat) (v : Int) (n : Nat) (e : Env), WRel C rn an dn (.int v) infos (.bool true) n e →
      InW C.a v →
      ∃ e', forLoop body (embList emb i s) e = .ok (.norm e') ∧
        ∃ vi, WRel C rn an dn vi infos (.bool (walkCount C.a v s 0).1) (n + (walkCount C.a v s 0).2) e' := by
  intro s
  induction s with
  | nil =>
    intro i v n e hr _
    exact ⟨e, rfl, .int v, by rw [walkCount_nil]; exact hr⟩
  | cons c s ih =>
    intro i v n e hr hv
    cases hn : C.a.next v c with
    | none =>
      obtain ⟨e1, hb, hr1⟩ := hbrk e n v hr hv i c hn
      exact ⟨e1, forLoop_cons_brk hb _, .int v, by rw [walkCount_cons_none hn]; exact hr1⟩
    | some t =>
      obtain ⟨e1, hb, hr1⟩ := hok e n v hr hv i c t hn
      obtain ⟨j, _, hj, rfl⟩ := next_some hn
      obtain ⟨e2, hl, vi, hr2⟩ := ih (i + 1) _ (n + 1) e1 hr1 (ent_of_live_w ha hv hj)
      refine ⟨e2, ?_, vi, ?_⟩
      · show forLoop body (emb i c :: embList emb (i + 1) s) e = _
        rw [forLoop_cons_norm hb, hl]
      · rw [walkCount_cons_some hn, walkCount_acc]
        have : n + (0 + 1 + (walkCount C.a (C.a.ent v j) s 0).2) = n + 1 + (walkCount C.a (C.a.ent v j) s 0).2 := by
          omega
        simp only [this]
        exact hr2

/-! ### the three bodies -/

theorem for2_ok (fuel : Nat) {C : Ctx} (ha : C.a.WF) {rn an dn : PV} {infos : List RepairInfo}
    (e : Env) (n : Nat) (v : Int) (hr : WRel C rn an dn (.int v) infos (.bool true) n e) (hv : InW C.a v)
    (i : Nat) (c : Char) (t : Int) (hn : C.a.next v c = some t) :
    ∃ e', Gen.path_matching.for2_body fuel (.tup [.int (i : Int), .str [c]]) e = .ok (.norm e') ∧
      WRel C rn an dn (.int t) infos (.bool true) (n + 1) e' := by
  obtain ⟨j, hc, hj, rfl⟩ := next_some hn
  obtain ⟨h1, hacc, h3, h4, h5, hnuc, h7, h8, h9, h10, h11, h12, hvi, hrel, hcnt⟩ := hr
  simp only [Gen.path_matching.for2_body, pyUnpack_two_tup, bnd_ok, getD_cons_zero', getD_cons_one', hacc, hvi,
    hnuc, used_w ha hv, pyMap_nucs (fun j hj => live_lt_four C.a v hj), pyIn_live, livePos_of_mem hc hj,
    Option.isSome_some, if_true, ent_w ha hv hc, hcnt, npAdd_nat_one]
  refine ⟨_, rfl, ?_⟩
  w_rel

theorem for2_brk (fuel : Nat) {C : Ctx} (ha : C.a.WF) {rn an dn : PV} {infos : List RepairInfo}
    (e : Env) (n : Nat) (v : Int) (hr : WRel C rn an dn (.int v) infos (.bool true) n e) (hv : InW C.a v)
    (i : Nat) (c : Char) (hn : C.a.next v c = Option.none) :
    ∃ e', Gen.path_matching.for2_body fuel (.tup [.int (i : Int), .str [c]]) e = .ok (.brk e') ∧
      WRel C rn an dn (.int v) infos (.bool false) n e' := by
  obtain ⟨h1, hacc, h3, h4, h5, hnuc, h7, h8, h9, h10, h11, h12, hvi, hrel, hcnt⟩ := hr
  simp only [Gen.path_matching.for2_body, pyUnpack_two_tup, bnd_ok, getD_cons_zero', getD_cons_one', hacc, hvi,
    hnuc, used_w ha hv, pyMap_nucs (fun j hj => live_lt_four C.a v hj), pyIn_live, next_none hn,
    Option.isSome_none, Bool.false_eq_true, if_false]
  refine ⟨_, rfl, ?_⟩
  w_rel

theorem for5_ok (fuel : Nat) {C : Ctx} (ha : C.a.WF) {rn an dn : PV} {infos : List RepairInfo}
    (e : Env) (n : Nat) (v : Int) (hr : WRel C rn an dn (.int v) infos (.bool true) n e) (hv : InW C.a v)
    (i : Nat) (c : Char) (t : Int) (hn : C.a.next v c = some t) :
    ∃ e', Gen.path_matching.for5_body fuel (.tup [.int (i : Int), .str [c]]) e = .ok (.norm e') ∧
      WRel C rn an dn (.int t) infos (.bool true) (n + 1) e' := by
  obtain ⟨j, hc, hj, rfl⟩ := next_some hn
  obtain ⟨h1, hacc, h3, h4, h5, hnuc, h7, h8, h9, h10, h11, h12, hvi, hrel, hcnt⟩ := hr
  simp only [Gen.path_matching.for5_body, pyUnpack_two_tup, bnd_ok, getD_cons_zero', getD_cons_one', hacc, hvi,
    hnuc, used_w ha hv, pyMap_nucs (fun j hj => live_lt_four C.a v hj), pyIn_live, livePos_of_mem hc hj,
    Option.isSome_some, if_true, ent_w ha hv hc, hcnt, npAdd_nat_one]
  refine ⟨_, rfl, ?_⟩
  w_rel

theorem for5_brk (fuel : Nat) {C : Ctx} (ha : C.a.WF) {rn an dn : PV} {infos : List RepairInfo}
    (e : Env) (n : Nat) (v : Int) (hr : WRel C rn an dn (.int v) infos (.bool true) n e) (hv : InW C.a v)
    (i : Nat) (c : Char) (hn : C.a.next v c = Option.none) :
    ∃ e', Gen.path_matching.for5_body fuel (.tup [.int (i : Int), .str [c]]) e = .ok (.brk e') ∧
      WRel C rn an dn (.int v) infos (.bool false) n e' := by
  obtain ⟨h1, hacc, h3, h4, h5, hnuc, h7, h8, h9, h10, h11, h12, hvi, hrel, hcnt⟩ := hr
  simp only [Gen.path_matching.for5_body, pyUnpack_two_tup, bnd_ok, getD_cons_zero', getD_cons_one', hacc, hvi,
    hnuc, used_w ha hv, pyMap_nucs (fun j hj => live_lt_four C.a v hj), pyIn_live, next_none hn,
    Option.isSome_none, Bool.false_eq_true, if_false]
  refine ⟨_, rfl, ?_⟩
  w_rel

theorem for4_ok (fuel : Nat) {C : Ctx} (ha : C.a.WF) {rn an dn : PV} {infos : List RepairInfo}
    (e : Env) (n : Nat) (v : Int) (hr : WRel C rn an dn (.int v) infos (.bool true) n e) (hv : InW C.a v)
    (_i : Nat) (c : Char) (t : Int) (hn : C.a.next v c = some t) :
    ∃ e', Gen.path_matching.for4_body fuel (.str [c]) e = .ok (.norm e') ∧
      WRel C rn an dn (.int t) infos (.bool true) (n + 1) e' := by
  obtain ⟨j, hc, hj, rfl⟩ := next_some hn
  obtain ⟨h1, hacc, h3, h4, h5, hnuc, h7, h8, h9, h10, h11, h12, hvi, hrel, hcnt⟩ := hr
  simp only [Gen.path_matching.for4_body, bnd_ok, hacc, hvi,
    hnuc, used_w ha hv, pyMap_nucs (fun j hj => live_lt_four C.a v hj), pyIn_live, livePos_of_mem hc hj,
    Option.isSome_some, if_true, ent_w ha hv hc, hcnt, npAdd_nat_one]
  refine ⟨_, rfl, ?_⟩
  w_rel

theorem for4_brk (fuel : Nat) {C : Ctx} (ha : C.a.WF) {rn an dn : PV} {infos : List RepairInfo}
    (e : Env) (n : Nat) (v : Int) (hr : WRel C rn an dn (.int v) infos (.bool true) n e) (hv : InW C.a v)
    (_i : Nat) (c : Char) (hn : C.a.next v c = Option.none) :
    ∃ e', Gen.path_matching.for4_body fuel (.str [c]) e = .ok (.brk e') ∧
      WRel C rn an dn (.int v) infos (.bool false) n e' := by
  obtain ⟨h1, hacc, h3, h4, h5, hnuc, h7, h8, h9, h10, h11, h12, hvi, hrel, hcnt⟩ := hr
  simp only [Gen.path_matching.for4_body, bnd_ok, hacc, hvi,
    hnuc, used_w ha hv, pyMap_nucs (fun j hj => live_lt_four C.a v hj), pyIn_live, next_none hn,
    Option.isSome_none, Bool.false_eq_true, if_false]
  refine ⟨_, rfl, ?_⟩
  w_rel

/-! ## §5 the continuations -/

theorem info_append (infos : List RepairInfo) (k : EditKind) (occ : Nat) (x : Char) (frag : List Char) :
    PV.list (infos.map infoPV ++ [.tup [.tup [.str [kindChar k], .int (occ : Int), .str [x]], .str frag]]) =
      .list ((infos ++ [(⟨k, occ, x, frag⟩ : RepairInfo)]).map infoPV) := by
  simp [infoPV]

/-- after the substitution walk: record the candidate when the walk was reliable. -/
theorem k1_spec (fuel : Nat) {C : Ctx} (hocc : C.occ < C.chunk.length) {x : Char} {an dn vi : PV}
    {infos : List RepairInfo} {rel : Bool} {n : Nat} (e : Env)
    (hr : WRel C (.str [x]) an dn vi infos (.bool rel) n e) :
    ∃ e', Gen.path_matching.k1 fuel e = .ok (.norm e') ∧
      WRel C (.str [x]) an dn vi
        (if rel then infos ++ [⟨.S, C.occ, x, C.chunk.set C.occ x⟩] else infos) (.bool rel) n e' := by
  obtain ⟨hdna, hacc, h3, hoc, h5, hnuc, h7, h8, hri, hrn, h11, h12, hvi, hrel, hcnt⟩ := hr
  cases rel with
  | false =>
    simp only [Gen.path_matching.k1, hrel, truthy_bool, bnd_ok, Bool.false_eq_true, if_false]
    refine ⟨e, rfl, ?_⟩
    w_rel
  | true =>
    simp only [Gen.path_matching.k1, hrel, truthy_bool, bnd_ok, if_true, hdna, pyList_str, hoc, hrn,
      setItem_chars hocc, join_chars, hri, pyAppend_list]
    refine ⟨_, rfl, ?_⟩
    have := info_append infos .S C.occ x (C.chunk.set C.occ x)
    w_rel

/-- after the insertion walk. -/
theorem k2_spec (fuel : Nat) {C : Ctx} {x : Char} {rn dn vi : PV}
    {infos : List RepairInfo} {rel : Bool} {n : Nat} (e : Env)
    (hr : WRel C rn (.str [x]) dn vi infos (.bool rel) n e) :
    ∃ e', Gen.path_matching.k2 fuel e = .ok (.norm e') ∧
      WRel C rn (.str [x]) dn vi
        (if rel then infos ++ [⟨.I, C.occ, x, C.chunk.take C.occ ++ [x] ++ C.chunk.drop C.occ⟩] else infos)
        (.bool rel) n e' := by
  obtain ⟨hdna, hacc, h3, hoc, h5, hnuc, h7, h8, hri, h10, han, h12, hvi, hrel, hcnt⟩ := hr
  cases rel with
  | false =>
    simp only [Gen.path_matching.k2, hrel, truthy_bool, bnd_ok, Bool.false_eq_true, if_false]
    refine ⟨e, rfl, ?_⟩
    w_rel
  | true =>
    simp only [Gen.path_matching.k2, hrel, truthy_bool, bnd_ok, if_true, hdna, pyList_str, hoc, han,
      insert_chars, join_chars, hri, pyAppend_list]
    refine ⟨_, rfl, ?_⟩
    have := info_append infos .I C.occ x (C.chunk.take C.occ ++ [x] ++ C.chunk.drop C.occ)
    w_rel

/-- after the deletion walk. -/
theorem k3_spec (fuel : Nat) {C : Ctx} (hocc : C.occ < C.chunk.length) {rn an vi : PV}
    {infos : List RepairInfo} {rel : Bool} {n : Nat} (e : Env)
    (hr : WRel C rn an (.str [C.orig]) vi infos (.bool rel) n e) :
    ∃ e', Gen.path_matching.k3 fuel e = .ok (.norm e') ∧
      WRel C rn an (.str [C.orig]) vi
        (if rel then infos ++ [⟨.D, C.occ, C.orig, C.chunk.take C.occ ++ C.chunk.drop (C.occ + 1)⟩] else infos)
        (.bool rel) n e' := by
  obtain ⟨hdna, hacc, h3, hoc, h5, hnuc, h7, h8, hri, h10, h11, hdn, hvi, hrel, hcnt⟩ := hr
  cases rel with
  | false =>
    simp only [Gen.path_matching.k3, hrel, truthy_bool, bnd_ok, Bool.false_eq_true, if_false]
    refine ⟨e, rfl, ?_⟩
    w_rel
  | true =>
    simp only [Gen.path_matching.k3, hrel, truthy_bool, bnd_ok, if_true, hdna, pyList_str, hoc, hdn,
      delItem_chars hocc, join_chars, hri, pyAppend_list]
    refine ⟨_, rfl, ?_⟩
    have := info_append infos .D C.occ C.orig (C.chunk.take C.occ ++ C.chunk.drop (C.occ + 1))
    w_rel

/-- the state of the outer loops: the records and the visited count. -/
def ORel (C : Ctx) (st : List RepairInfo × Nat) (e : Env) : Prop :=
  ∃ rn an dn vi rl, WRel C rn an dn vi st.1 rl st.2 e

theorem ORel.mk {C : Ctx} {rn an dn vi : PV} {infos : List RepairInfo} {rl : PV} {n : Nat} {e : Env}
    (h : WRel C rn an dn vi infos rl n e) : ORel C (infos, n) e := ⟨rn, an, dn, vi, rl, h⟩

/-- one substitution candidate. -/
def subStep (C : Ctx) (acc : List RepairInfo × Nat) (x : Char) : List RepairInfo × Nat :=
  let w := walkCount C.a (C.a.ent C.prev ((nucIdx x).getD 0)) (C.chunk.drop (C.occ + 1)) 0
  (if w.1 then acc.1 ++ [⟨.S, C.occ, x, C.chunk.set C.occ x⟩] else acc.1, acc.2 + w.2)
/-- one insertion candidate. -/
def insStep (C : Ctx) (acc : List RepairInfo × Nat) (x : Char) : List RepairInfo × Nat :=
  let w := walkCount C.a (C.a.ent C.prev ((nucIdx x).getD 0)) (C.chunk.drop C.occ) 0
  (if w.1 then acc.1 ++ [⟨.I, C.occ, x, C.chunk.take C.occ ++ [x] ++ C.chunk.drop C.occ⟩] else acc.1, acc.2 + w.2)
/-- the deletion candidate. -/
def delStep (C : Ctx) (acc : List RepairInfo × Nat) : List RepairInfo × Nat :=
  let w := walkCount C.a C.prev (C.chunk.drop (C.occ + 1)) 0
  (if w.1 then acc.1 ++ [⟨.D, C.occ, C.orig, C.chunk.take C.occ ++ C.chunk.drop (C.occ + 1)⟩] else acc.1, acc.2 + w.2)

theorem for1_spec (fuel : Nat) {C : Ctx} (ha : C.a.WF) (hp : InW C.a C.prev) (hocc : C.occ < C.chunk.length)
    {x : Char} {j : Nat} (hc : nucIdx x = some j) (hj : j ∈ C.a.live C.prev) (st : List RepairInfo × Nat)
    (e : Env) (hr : ORel C st e) :
    ∃ e', Gen.path_matching.for1_body fuel (.str [x]) e = .ok (.norm e') ∧ ORel C (subStep C st x) e' := by
  obtain ⟨rn, an, dn, vi, rel, hr⟩ := hr
  obtain ⟨hdna, hacc, hprev, hoc, h5, hnuc, h7, h8, hri, h10, h11, h12, hvi, hrel, hcnt⟩ := hr
  simp only [Gen.path_matching.for1_body, hacc, hprev, hnuc, ent_w ha hp hc, bnd_ok, hoc, npAdd_nat_one, hdna,
    pySliceV_str_from, pyEnumerate_str, pyIter_list, enum_eq_embList]
  refine seq_norm_exists (Q := fun e1 => ∃ vi, WRel C (.str [x]) an dn vi st.1
      (.bool (walkCount C.a (C.a.ent C.prev j) (C.chunk.drop (C.occ + 1)) 0).1)
      (st.2 + (walkCount C.a (C.a.ent C.prev j) (C.chunk.drop (C.occ + 1)) 0).2) e1) ?_ ?_
  · exact walk_loop ha (for2_ok fuel ha) (for2_brk fuel ha) _ 0 _ st.2 _ (by w_rel) (ent_of_live_w ha hp hj)
  · rintro e1 ⟨vi1, hr1⟩
    obtain ⟨e2, hk, hr2⟩ := k1_spec fuel hocc e1 hr1
    refine ⟨e2, hk, ?_⟩
    simp only [subStep, hc, Option.getD_some]
    exact ORel.mk hr2

theorem for3_spec (fuel : Nat) {C : Ctx} (ha : C.a.WF) (hp : InW C.a C.prev)
    {x : Char} {j : Nat} (hc : nucIdx x = some j) (hj : j ∈ C.a.live C.prev) (st : List RepairInfo × Nat)
    (e : Env) (hr : ORel C st e) :
    ∃ e', Gen.path_matching.for3_body fuel (.str [x]) e = .ok (.norm e') ∧ ORel C (insStep C st x) e' := by
  obtain ⟨rn, an, dn, vi, rel, hr⟩ := hr
  obtain ⟨hdna, hacc, hprev, hoc, h5, hnuc, h7, h8, hri, h10, h11, h12, hvi, hrel, hcnt⟩ := hr
  simp only [Gen.path_matching.for3_body, hacc, hprev, hnuc, ent_w ha hp hc, bnd_ok, hoc, hdna,
    pySliceV_str_from, pyIter_str, map_eq_embList (C.chunk.drop C.occ) 0]
  refine seq_norm_exists (Q := fun e1 => ∃ vi, WRel C rn (.str [x]) dn vi st.1
      (.bool (walkCount C.a (C.a.ent C.prev j) (C.chunk.drop C.occ) 0).1)
      (st.2 + (walkCount C.a (C.a.ent C.prev j) (C.chunk.drop C.occ) 0).2) e1) ?_ ?_
  · exact walk_loop ha (for4_ok fuel ha) (for4_brk fuel ha) _ 0 _ st.2 _ (by w_rel) (ent_of_live_w ha hp hj)
  · rintro e1 ⟨vi1, hr1⟩
    obtain ⟨e2, hk, hr2⟩ := k2_spec fuel e1 hr1
    refine ⟨e2, hk, ?_⟩
    simp only [insStep, hc, Option.getD_some]
    exact ORel.mk hr2

theorem k4_spec (fuel : Nat) {C : Ctx} (ha : C.a.WF) (hp : InW C.a C.prev) (hocc : C.occ < C.chunk.length)
    (st : List RepairInfo × Nat) (e : Env) (hr : ORel C st e) :
    ∃ e', Gen.path_matching.k4 fuel e = .ok (.norm e') ∧ ORel C (delStep C st) e' := by
  obtain ⟨rn, an, dn, vi, rel, hr⟩ := hr
  obtain ⟨hdna, hacc, hprev, hoc, h5, hnuc, h7, h8, hri, h10, h11, h12, hvi, hrel, hcnt⟩ := hr
  simp only [Gen.path_matching.k4, bnd_ok, hoc, npAdd_nat_one, hdna,
    pySliceV_str_from, pyEnumerate_str, pyIter_list, enum_eq_embList]
  refine seq_norm_exists (Q := fun e1 => ∃ vi, WRel C rn an (.str [C.orig]) vi st.1
      (.bool (walkCount C.a C.prev (C.chunk.drop (C.occ + 1)) 0).1)
      (st.2 + (walkCount C.a C.prev (C.chunk.drop (C.occ + 1)) 0).2) e1) ?_ ?_
  · exact walk_loop ha (for5_ok fuel ha) (for5_brk fuel ha) _ 0 _ st.2 _ (by w_rel) hp
  · rintro e1 ⟨vi1, hr1⟩
    obtain ⟨e2, hk, hr2⟩ := k3_spec fuel hocc e1 hr1
    exact ⟨e2, hk, ORel.mk hr2⟩

theorem k5_spec (fuel : Nat) {C : Ctx} (st : List RepairInfo × Nat) (e : Env) (hr : ORel C st e) :
    Gen.path_matching.k5 fuel e = .ok (.ret (pmResultPV st)) := by
  obtain ⟨rn, an, dn, vi, rel, hr⟩ := hr
  obtain ⟨hdna, hacc, hprev, hoc, h5, hnuc, h7, h8, hri, h10, h11, h12, hvi, hrel, hcnt⟩ := hr
  simp only [Gen.path_matching.k5, hri, hcnt]
  rfl

theorem nucIdx_nucChar_live {a : Acc} {v : Int} {j : Nat} (hj : j ∈ a.live v) : nucIdx (nucChar j) = some j :=
  nucIdx_nucChar (live_lt_four a v hj)

theorem k6_spec (fuel : Nat) {C : Ctx} (ha : C.a.WF) (hp : InW C.a C.prev) (hocc : C.occ < C.chunk.length)
    (st : List RepairInfo × Nat) (e : Env) (hr : ORel C st e) :
    Gen.path_matching.k6 fuel e = .ok (.ret (pmResultPV
      (if !C.hasIndel then st
       else delStep C ((C.a.live C.prev).foldl (fun st j => insStep C st (nucChar j)) st)))) := by
  have hr' := hr
  obtain ⟨rn, an, dn, vi, rel, hr⟩ := hr
  obtain ⟨hdna, hacc, hprev, hoc, h5, hnuc, h7, h8, hri, h10, h11, h12, hvi, hrel, hcnt⟩ := hr
  cases hI : C.hasIndel with
  | false =>
    simp only [Gen.path_matching.k6, h5, hI, truthy_bool, bnd_ok, Bool.false_eq_true, if_false, seq_norm,
      Bool.not_false, if_true]
    exact k5_spec fuel st e hr'
  | true =>
    simp only [Gen.path_matching.k6, h5, hI, truthy_bool, bnd_ok, if_true, h8, hnuc,
      pyMap_nucs (fun j hj => live_lt_four C.a C.prev hj), pyIter_list, Bool.not_true, Bool.false_eq_true, if_false]
    apply seq_eq_of_norm (ORel C (delStep C ((C.a.live C.prev).foldl (fun st j => insStep C st (nucChar j)) st)))
    · apply seq_norm_exists (Q := ORel C ((C.a.live C.prev).foldl (fun st j => insStep C st (nucChar j)) st))
      · exact forLoop_rel_map (ORel C) (fun st j => insStep C st (nucChar j)) (fun j => PV.str [nucChar j])
          (fun j hj st e hr => for3_spec fuel ha hp (nucIdx_nucChar_live hj) hj st e hr) hr'
      · intro e1 h1
        exact k4_spec fuel ha hp hocc _ e1 h1
    · intro e1 h1
      exact k5_spec fuel _ e1 h1

/-- the model, with the nucleotide loops running over the live columns. -/
def pmModel (C : Ctx) : List RepairInfo × Nat :=
  if !C.hasIndel then
    ((C.a.live C.prev).filter fun j => !decide (nucChar j = C.orig)).foldl (fun st j => subStep C st (nucChar j)) ([], 0)
  else
    delStep C ((C.a.live C.prev).foldl (fun st j => insStep C st (nucChar j))
      (((C.a.live C.prev).filter fun j => !decide (nucChar j = C.orig)).foldl
        (fun st j => subStep C st (nucChar j)) ([], 0)))

theorem pathMatching_eq (C : Ctx) (h : C.chunk[C.occ]? = some C.orig) :
    pathMatching C.a C.chunk C.prev C.occ C.hasIndel = .ok (pmModel C) := by
  simp only [pathMatching, h, pmModel, List.filter_map, List.foldl_map]
  cases C.hasIndel <;> simp [subStep, insStep, delStep, Function.comp_def]

end Dsw.Tie.PathTie

namespace Dsw.Tie
open Dsw Dsw.Py

theorem tie_path_matching (a : Acc) (chunk : List Char) (prev : Int) (occ : Nat) (hasIndel : Bool) (fuel : Nat)
    (ha : a.WF) (hp : -(a.size : Int) ≤ prev ∧ prev < a.size) :
    Gen.path_matching fuel (cstr chunk) (accPV a) (.int prev) (.int (occ : Int)) (.bool hasIndel) .none =
      (pathMatching a chunk prev occ hasIndel).map pmResultPV := by
  by_cases hocc : occ < chunk.length
  · let C : PathTie.Ctx := ⟨a, chunk, prev, occ, hasIndel, chunk[occ]⟩
    have hget : C.chunk[C.occ]? = some C.orig := List.getElem?_eq_getElem hocc
    have hpm := PathTie.pathMatching_eq C hget
    have hpw : PathTie.InW C.a C.prev := hp
    rw [show pathMatching a chunk prev occ hasIndel = pathMatching C.a C.chunk C.prev C.occ C.hasIndel from rfl,
      hpm, R_map_ok]
    simp only [Gen.path_matching, Gen.path_matching.body, pyIsNone_none, bnd_ok, if_true, seq_norm,
      Gen.path_matching.k7, cstr, pyIndex_str_nat hocc, PathTie.used_w ha hp,
      pyMap_nucs (fun j hj => live_lt_four a prev hj), PathTie.pyFilter_list,
      PathTie.filter_ne_orig,
      R_map_ok, pyList_list, pyIter_list]
    apply callResult_seq_of_norm (PathTie.ORel C
      (((C.a.live C.prev).filter fun j => !decide (nucChar j = C.orig)).foldl
        (fun st j => PathTie.subStep C st (nucChar j)) ([], 0)))
    · refine forLoop_rel_map (PathTie.ORel C) (fun st j => PathTie.subStep C st (nucChar j))
        (fun j => PV.str [nucChar j])
        (fun j hj st e hr => PathTie.for1_spec fuel ha hpw hocc
          (PathTie.nucIdx_nucChar_live (List.mem_filter.mp hj).1) (List.mem_filter.mp hj).1 st e hr)
        (PathTie.ORel.mk (rn := .unbound) (an := .unbound) (dn := .unbound) (vi := .unbound) (rl := .unbound) ?_)
      refine ⟨?_, ?_, ?_, ?_, ?_, ?_, ?_, ?_, ?_, ?_, ?_, ?_, ?_, ?_, ?_⟩ <;> rfl
    · intro e1 h1
      rw [PathTie.k6_spec fuel ha hpw hocc _ e1 h1]
      simp only [callResult_ret, PathTie.pmModel]
  · have hnone : chunk[occ]? = Option.none := List.getElem?_eq_none (by omega)
    have hge : (chunk.length : Int) ≤ (occ : Int) := by omega
    simp only [pathMatching, hnone, R_map_error, Gen.path_matching, Gen.path_matching.body, pyIsNone_none, bnd_ok,
      if_true, seq_norm, Gen.path_matching.k7, cstr, pyIndex_str_of_ge hge, bnd_error, callResult_error]

end Dsw.Tie
