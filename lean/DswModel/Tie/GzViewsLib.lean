import DswModel.Tie.NpLemmas
import DswModel.Tie.ViewDefs
import DswModel.Tie.GzArith
/-!
# DswModel.Tie.GzViewsLib — lemmas for the graph views of dsw/graphized.py

* a `for … in enumerate(…)` rule whose relation sees the prefix already processed;
* dicts (`lmapPV`): `pyIn`, `pyIndex`, `pySetItem` on a fresh key, `pyDictItems`, `pyLen`;
* lists of naturals: `pyIn`;
* two-dimensional integer arrays: `accessor + 1`, `astype`, `sum(axis=1)`, masks, `tolist`,
  `accessor[v, j] = x`; the idioms `where(sum((accessor + 1).astype(bool), axis=1)… )[0]` and
  `vertex[vertex >= 0].tolist()`.
-/
namespace Dsw.Tie.GzV
open Dsw Dsw.Py Dsw.Tie

/-! ## loops -/

section Loops
variable {ε α : Type}

theorem forLoop_enum_prefix_aux {body : PV → ε → R (Flow ε)} (Rel : List α → ε → Prop) (emb : α → PV)
    (as : List α)
    (h : ∀ (i : Nat) (pre : List α) (x : α) (suf : List α), as = pre ++ x :: suf → ∀ e, Rel pre e →
      ∃ e', body (.tup [.int (i : Int), emb x]) e = .ok (.norm e') ∧ Rel (pre ++ [x]) e') :
    ∀ (suf pre : List α) (n : Nat) (e : ε), as = pre ++ suf → Rel pre e →
      ∃ e', forLoop body (enumFrom n (suf.map emb)) e = .ok (.norm e') ∧ Rel as e' := by
  intro suf
  induction suf with
  | nil =>
    intro pre n e has h0
    rw [has, List.append_nil]
    exact ⟨e, rfl, h0⟩
  | cons x xs ih =>
    intro pre n e has h0
    obtain ⟨e1, hb, h1⟩ := h n pre x xs has e h0
    obtain ⟨e2, hl, h2⟩ := ih (pre ++ [x]) (n + 1) e1 (by rw [has]; simp) h1
    exact ⟨e2, by rw [List.map_cons, enumFrom_cons, forLoop_cons_norm hb, hl], h2⟩

/-- `for i, x in enumerate(as)`: the relation is indexed by the prefix already processed, and the step
knows where in `as` it stands (needed when the step relies on the items being distinct). -/
theorem forLoop_enum_prefix {body : PV → ε → R (Flow ε)} (Rel : List α → ε → Prop) (emb : α → PV)
    (as : List α)
    (h : ∀ (i : Nat) (pre : List α) (x : α) (suf : List α), as = pre ++ x :: suf → ∀ e, Rel pre e →
      ∃ e', body (.tup [.int (i : Int), emb x]) e = .ok (.norm e') ∧ Rel (pre ++ [x]) e')
    {e : ε} (h0 : Rel [] e) :
    ∃ e', forLoop body (enumFrom 0 (as.map emb)) e = .ok (.norm e') ∧ Rel as e' :=
  forLoop_enum_prefix_aux Rel emb as h as [] 0 e rfl h0

/-- a statement that ends normally, followed by a continuation that ends normally. -/
theorem seq_exists {m : R (Flow ε)} {k : ε → R (Flow ε)} (Q P : ε → Prop)
    (hm : ∃ e1, m = .ok (.norm e1) ∧ Q e1) (hk : ∀ e1, Q e1 → ∃ e', k e1 = .ok (.norm e') ∧ P e') :
    ∃ e', seq m k = .ok (.norm e') ∧ P e' := by
  obtain ⟨e1, rfl, hq⟩ := hm
  exact hk e1 hq

end Loops

theorem ite_ok_and (c d : Bool) : (if c then (Except.ok d : R Bool) else .ok false) = .ok (c && d) := by
  cases c <;> rfl

theorem foldl_append_flatMap {α β} (f : α → List β) (l : List α) (init : List β) :
    l.foldl (fun acc x => acc ++ f x) init = init ++ l.flatMap f := by
  induction l generalizing init with
  | nil => simp
  | cons x xs ih => rw [List.foldl_cons, ih, List.flatMap_cons, List.append_assoc]

theorem foldl_const_iterate {α β} (f : β → β) (l : List α) (s : β) (g : Nat → β → β)
    (h0 : ∀ s, g 0 s = s) (hs : ∀ n s, g (n + 1) s = g n (f s)) :
    l.foldl (fun s _ => f s) s = g l.length s := by
  induction l generalizing s with
  | nil => exact (h0 s).symm
  | cons x xs ih => rw [List.foldl_cons, ih, List.length_cons, hs]

/-! ## lists of naturals -/

theorem findIdxEq_nats_isSome (l : List Nat) (w i : Nat) :
    (findIdxEq (.int (w : Int)) (l.map fun (n : Nat) => PV.int (n : Int)) i).isSome = l.contains w := by
  induction l generalizing i with
  | nil => rfl
  | cons x xs ih =>
    rw [List.map_cons, findIdxEq_cons, eqb_int, natCast_beq, List.contains_cons, BEq.comm (a := w)]
    cases h : (x == w)
    · simp only [Bool.false_eq_true, if_false, Bool.false_or]; exact ih (i + 1)
    · simp

/-- `w in vertices` for a Python list of naturals. -/
theorem pyIn_natsPV (w : Nat) (l : List Nat) : pyIn (.int (w : Int)) (natsPV l) = .ok (l.contains w) := by
  simp only [pyIn, natsPV, findIdxEq_nats_isSome]

theorem npAdd_natsPV (s t : List Nat) : npAdd (natsPV s) (natsPV t) = .ok (natsPV (s ++ t)) := by
  simp only [natsPV, npAdd_list, List.map_append]

/-! ## dicts -/

theorem lmapPV_cons (p : Nat × List Nat) (m : LMap) :
    lmapPV (p :: m) = .dict (.int (p.1 : Int) :: m.map fun p => PV.int (p.1 : Int))
      (natsPV p.2 :: m.map fun p => natsPV p.2) := rfl

theorem lmapPV_nil : lmapPV [] = .dict [] [] := rfl

theorem lmapPV_append_singleton (m : LMap) (v : Nat) (l : List Nat) :
    lmapPV (m ++ [(v, l)]) = .dict ((m.map fun p => PV.int (p.1 : Int)) ++ [.int (v : Int)])
      ((m.map fun p => natsPV p.2) ++ [natsPV l]) := by
  simp [lmapPV]

@[simp] theorem pyIsNone_lmapPV (m : LMap) : pyIsNone (lmapPV m) = false := rfl

theorem get?_nil (v : Nat) : LMap.get? [] v = Option.none := rfl

theorem get?_cons (p : Nat × List Nat) (m : LMap) (v : Nat) :
    LMap.get? (p :: m) v = if p.1 == v then some p.2 else LMap.get? m v := by
  unfold LMap.get?
  rw [List.find?_cons]
  cases h : (p.1 == v) <;> simp

theorem findIdxEq_succ (x : PV) (l : List PV) (i : Nat) :
    findIdxEq x l (i + 1) = (findIdxEq x l i).map (· + 1) := by
  induction l generalizing i with
  | nil => rfl
  | cons y ys ih =>
    rw [findIdxEq_cons, findIdxEq_cons]
    by_cases h : PV.eqb y x = true
    · simp [h]
    · simp only [h]; exact ih (i + 1)

theorem findIdxEq_keys_isSome (m : LMap) (v i : Nat) :
    (findIdxEq (.int (v : Int)) (m.map fun p => PV.int (p.1 : Int)) i).isSome = (LMap.get? m v).isSome := by
  induction m generalizing i with
  | nil => rfl
  | cons p m ih =>
    rw [List.map_cons, findIdxEq_cons, eqb_int, natCast_beq, get?_cons]
    cases h : (p.1 == v)
    · simp only [Bool.false_eq_true, if_false]; exact ih (i + 1)
    · simp

theorem findIdxEq_keys_none {m : LMap} {v : Nat} (h : v ∉ m.map (·.1)) (i : Nat) :
    findIdxEq (.int (v : Int)) (m.map fun p => PV.int (p.1 : Int)) i = Option.none := by
  induction m generalizing i with
  | nil => rfl
  | cons p m ih =>
    rw [List.map_cons] at h
    have hp : ¬ p.1 = v := fun e => h (by rw [e]; exact List.mem_cons_self)
    have hb : ((p.1 : Int) == (v : Int)) = false := by rw [natCast_beq]; simpa using hp
    rw [List.map_cons, findIdxEq_cons, eqb_int, hb]
    simp only [Bool.false_eq_true, if_false]
    exact ih (fun hm => h (List.mem_cons_of_mem _ hm)) (i + 1)

/-- `v in latter_map`. -/
theorem pyIn_lmapPV (m : LMap) (v : Nat) : pyIn (.int (v : Int)) (lmapPV m) = .ok (LMap.get? m v).isSome := by
  simp only [pyIn, lmapPV, findIdxEq_keys_isSome]

theorem pyIndex_dict_cons (k x key : PV) (ks xs : List PV) :
    pyIndex (.dict (k :: ks) (x :: xs)) key =
      if PV.eqb k key then .ok x else pyIndex (.dict ks xs) key := by
  simp only [pyIndex, findIdxEq_cons]
  by_cases h : PV.eqb k key = true
  · simp [h]
  · simp only [h, Nat.zero_add, findIdxEq_succ key ks 0]
    cases findIdxEq key ks 0 with
    | none => rfl
    | some j => rfl

/-- `latter_map[v]` for a key that is there. -/
theorem pyIndex_lmapPV {m : LMap} {v : Nat} {l : List Nat} (h : LMap.get? m v = some l) :
    pyIndex (lmapPV m) (.int (v : Int)) = .ok (natsPV l) := by
  induction m with
  | nil => cases h
  | cons p m ih =>
    rw [get?_cons] at h
    rw [lmapPV_cons, pyIndex_dict_cons, eqb_int, natCast_beq]
    cases hb : (p.1 == v)
    · rw [hb] at h
      simp only [Bool.false_eq_true, if_false] at h ⊢
      exact ih h
    · rw [hb] at h
      simp only [if_true, Option.some.injEq] at h ⊢
      rw [h]

/-- `latter_map[v] = l` for a key that is not there yet: appended. -/
theorem pySetItem_lmapPV_new {m : LMap} {v : Nat} (h : v ∉ m.map (·.1)) (l : List Nat) :
    pySetItem (lmapPV m) (.int (v : Int)) (natsPV l) = .ok (lmapPV (m ++ [(v, l)])) := by
  rw [lmapPV_append_singleton]
  simp only [pySetItem, lmapPV, findIdxEq_keys_none h]

theorem zipPairs_lmap (m : LMap) :
    zipPairs (m.map fun p => PV.int (p.1 : Int)) (m.map fun p => natsPV p.2) =
      m.map fun p => PV.tup [.int (p.1 : Int), natsPV p.2] := by
  induction m with
  | nil => rfl
  | cons p m ih => simp only [List.map_cons, zipPairs, ih]

/-- the item a loop over `latter_map.items()` sees. -/
def itemPV (p : Nat × List Nat) : PV := .tup [.int (p.1 : Int), natsPV p.2]

theorem pyDictItems_lmapPV (m : LMap) : pyDictItems (lmapPV m) = .ok (.list (m.map itemPV)) := by
  simp only [pyDictItems, lmapPV, zipPairs_lmap]; rfl

theorem pyLen_lmapPV (m : LMap) : pyLen (lmapPV m) = .ok (.int (m.length : Int)) := by
  simp [pyLen, lmapPV]

/-! ## two-dimensional integer arrays -/

/-- a list of rows as a two-dimensional integer array. -/
def mat (rows : List (List Int)) : PV := .arr (rows.map fun r => .arr (r.map .int))

theorem accPV_eq_mat (a : Acc) : accPV a = mat (a.toList.map Array.toList) := by
  simp only [accPV, mat, List.map_map]; rfl

/-- `accessor + 1`. -/
theorem npAdd_mat_int (rows : List (List Int)) (b : Int) :
    npAdd (mat rows) (.int b) = .ok (mat (rows.map fun r => r.map (· + b))) := by
  simp only [mat, npAdd, arrBroadcast_arr_int]
  rw [mapM'_map (g := fun (r : List Int) => PV.arr ((r.map (· + b)).map .int))]
  · simp only [R_map_ok, List.map_map, Function.comp_def]
  · intro r _
    simp only [addItem]
    rw [arrBroadcast_map_int (g := fun a => PV.int (a + b)) (fun _ => rfl), List.map_map]; rfl

/-- `.astype(bool)` on a two-dimensional integer array. -/
theorem npAstypeBool_mat (rows : List (List Int)) :
    npAstypeBool (mat rows) = .ok (.arr (rows.map fun r => .arr ((r.map fun x => x != 0).map .bool))) := by
  simp only [npAstypeBool, npAstype, mat, List.map_map, Function.comp_def]
  rfl

/-- the number of `true`s. -/
def cntI (bs : List Bool) : Int := (bs.map fun b => if b then (1 : Int) else 0).foldl (· + ·) 0

theorem cntI_nil : cntI [] = 0 := rfl
theorem cntI_cons (b : Bool) (bs : List Bool) : cntI (b :: bs) = (if b then 1 else 0) + cntI bs := by
  unfold cntI
  rw [List.map_cons, List.foldl_cons, foldl_add_shift]; omega

theorem cntI_nonneg (bs : List Bool) : 0 ≤ cntI bs := by
  induction bs with
  | nil => exact Int.le_refl 0
  | cons b bs ih => rw [cntI_cons]; cases b <;> simp <;> omega

theorem cntI_pos_iff (bs : List Bool) : 0 < cntI bs ↔ bs.any id = true := by
  induction bs with
  | nil => simp [cntI_nil]
  | cons b bs ih =>
    have := cntI_nonneg bs
    rw [cntI_cons, List.any_cons]
    cases b
    · simp only [Bool.false_eq_true, if_false, Int.zero_add, id, Bool.false_or]; exact ih
    · simp only [if_true, id, Bool.true_or, iff_true]; omega

theorem cntI_ne_zero_iff (bs : List Bool) : cntI bs ≠ 0 ↔ bs.any id = true := by
  rw [← cntI_pos_iff]
  have := cntI_nonneg bs
  omega

/-- `sum(axis=1)` of a two-dimensional boolean array. -/
theorem npSumAxis1_bools (rows : List (List Bool)) :
    npSumAxis1 (.arr (rows.map fun r => .arr (r.map .bool))) = .ok (.arr ((rows.map cntI).map .int)) := by
  simp only [npSumAxis1]
  rw [mapM'_map (g := fun (r : List Bool) => PV.int (cntI r))]
  · simp only [R_map_ok, List.map_map]; rfl
  · intro r _
    simp only [npSum, mapM_asInt?_bools]; rfl

theorem npAstypeBool_ints (xs : List Int) :
    npAstypeBool (.arr (xs.map .int)) = .ok (.arr ((xs.map fun x => x != 0).map .bool)) := by
  simp only [npAstypeBool, npAstype, List.map_map]
  congr 2

theorem npAstypeInt_ints (xs : List Int) : npAstypeInt (.arr (xs.map .int)) = .ok (.arr (xs.map .int)) := by
  simp only [npAstypeInt, npAstype, List.map_map]
  congr 2

theorem npAstypeInt_nats (xs : List Nat) :
    npAstypeInt (.arr (xs.map fun (n : Nat) => PV.int (n : Int))) =
      .ok (.arr (xs.map fun (n : Nat) => PV.int (n : Int))) := by
  rw [← map_natCast_int, npAstypeInt_ints]

/-- `bools == 1`. -/
theorem npCmp_pyEq_bools_one (bs : List Bool) :
    npCmp pyEq (.arr (bs.map .bool)) (.int 1) = .ok (.arr (bs.map .bool)) := by
  rw [npCmp, arrBroadcast_map_int (g := fun b => PV.bool b)]
  intro b
  cases b <;> rfl

/-- the row flags `sum((accessor + 1).astype(bool), axis=1)`. -/
theorem row_sums (rows : List (List Int)) :
    (bnd (bnd (npAdd (mat rows) (.int 1)) fun t => npAstypeBool t) fun t => npSumAxis1 t) =
      .ok (.arr ((rows.map fun r => cntI (r.map fun x => x + 1 != 0)).map .int)) := by
  rw [npAdd_mat_int, bnd_ok, npAstypeBool_mat, bnd_ok]
  have := npSumAxis1_bools ((rows.map fun r => r.map (· + 1)).map fun r => r.map fun x => x != 0)
  simp only [List.map_map, Function.comp_def] at this ⊢
  exact this

/-- the rows that have an entry different from `-1`, as positions. -/
def liveRows (rows : List (List Int)) : List Nat :=
  (List.range rows.length).filter fun j => (rows.getD j []).any fun x => x + 1 != 0

theorem where_flags (rows : List (List Int)) (p : Int → Bool)
    (hp : ∀ r : List Int, p (cntI (r.map fun x => x + 1 != 0)) = r.any fun x => x + 1 != 0) :
    (bnd (npWhere (.arr (rows.map fun r => .bool (p (cntI (r.map fun x => x + 1 != 0))))))
        fun t => pyIndex t (.int 0)) = .ok (idxArrPV (liveRows rows)) := by
  refine Eq.trans (npWhere_map_bool (fun r => p (cntI (r.map fun x => x + 1 != 0))) rows []) ?_
  simp only [hp]; rfl

theorem liveRows_acc (a : Acc) : liveRows (a.toList.map Array.toList) = obtainVertices a := by
  unfold liveRows obtainVertices
  rw [List.length_map, Array.length_toList]
  apply List.filter_congr
  intro v hv
  have hlt : v < a.size := List.mem_range.mp hv
  simp only [List.getD_eq_getElem?_getD, List.getElem?_map, Array.getElem?_toList,
    Array.getD_eq_getD_getElem?, Array.getElem?_eq_getElem hlt, Option.map_some, Option.getD_some,
    Array.any_toList]

theorem mem_obtainVertices {a : Acc} {v : Nat} (h : v ∈ obtainVertices a) : v < a.size := by
  unfold obtainVertices at h
  exact List.mem_range.mp (List.mem_filter.mp h).1

theorem nodup_obtainVertices (a : Acc) : (obtainVertices a).Nodup :=
  List.Nodup.sublist List.filter_sublist List.nodup_range

/-- `where(sum((accessor + 1).astype(bool), axis=1).astype(bool) == 1)[0].astype(int)`. -/
theorem vertices_expr (a : Acc) :
    (bnd (bnd (bnd (bnd (bnd (bnd (bnd (npAdd (accPV a) (.int 1)) fun t => npAstypeBool t)
        fun t => npSumAxis1 t) fun t => npAstypeBool t) fun t => npCmp pyEq t (.int 1))
        fun t => npWhere t) fun t => pyIndex t (.int 0)) fun t => npAstypeInt t) =
      .ok (idxArrPV (obtainVertices a)) := by
  rw [accPV_eq_mat, row_sums, bnd_ok, npAstypeBool_ints, bnd_ok, npCmp_pyEq_bools_one, bnd_ok, List.map_map]
  have h := where_flags (a.toList.map Array.toList) (fun c => c != 0)
    (fun r => by
      rw [Bool.eq_iff_iff]
      simp only [bne_iff_ne]
      rw [cntI_ne_zero_iff, List.any_map]; rfl)
  simp only [List.map_map, Function.comp_def] at h ⊢
  rw [h, bnd_ok, liveRows_acc, idxArrPV, npAstypeInt_nats]

/-- `where(sum((accessor + 1).astype(bool), axis=1).astype(int) > 0)[0]`. -/
theorem locations_expr (a : Acc) :
    (bnd (bnd (bnd (bnd (bnd (bnd (npAdd (accPV a) (.int 1)) fun t => npAstypeBool t)
        fun t => npSumAxis1 t) fun t => npAstypeInt t) fun t => npCmp pyGt t (.int 0))
        fun t => npWhere t) fun t => pyIndex t (.int 0)) =
      .ok (idxArrPV (obtainVertices a)) := by
  rw [accPV_eq_mat, row_sums, bnd_ok, npAstypeInt_ints, bnd_ok, npCmp_pyGt_ints_int, bnd_ok]
  have h := where_flags (a.toList.map Array.toList) (fun c => decide (0 < c))
    (fun r => by
      rw [Bool.eq_iff_iff]
      simp only [decide_eq_true_eq]
      rw [cntI_pos_iff, List.any_map]; rfl)
  simp only [List.map_map, Function.comp_def] at h ⊢
  rw [h, liveRows_acc]

/-! ## masks, `tolist` -/

theorem maskSelect_map {α} (ea : α → PV) (p : α → Bool) (xs : List α) :
    maskSelect (xs.map ea) (xs.map fun x => .bool (p x)) = .ok ((xs.filter p).map ea) := by
  induction xs with
  | nil => rfl
  | cons x xs ih =>
    simp only [List.map_cons, maskSelect, ih, truthy_bool, List.filter_cons]
    cases p x <;> rfl

theorem npToList_ints (l : List Int) : npToList (.arr (l.map .int)) = .ok (.list (l.map .int)) := by
  simp only [npToList, List.map_map]
  congr 2

/-- `row[row >= 0].tolist()`. -/
theorem row_live_tolist (r : List Int) :
    (bnd (bnd (npCmp pyGe (.arr (r.map .int)) (.int 0)) fun t => npMaskIndex (.arr (r.map .int)) t)
        fun t => npToList t) = .ok (.list ((r.filter fun x => decide (0 ≤ x)).map .int)) := by
  rw [npCmp_pyGe_ints_int, bnd_ok]
  simp only [npMaskIndex, maskSelect_map PV.int (fun x => decide ((0 : Int) ≤ x)) r, R_map_ok, bnd_ok,
    npToList_ints]

theorem liveEntries_eq {a : Acc} (ha : a.WF) {v : Int} (h0 : 0 ≤ v) (hv : v < a.size) :
    ((a.row v).toList.filter fun x => decide (0 ≤ x)).map PV.int =
      (a.liveEntries v).map fun (n : Nat) => PV.int (n : Int) := by
  have hrow : (a.row v).toList = (List.range 4).map fun j => a.ent v j := by
    rw [ha.row_toList h0 hv]; rfl
  rw [hrow, List.filter_map, List.map_map, Acc.liveEntries, Acc.live, List.map_map]
  apply List.map_congr_left
  intro j hj
  have hge : 0 ≤ a.ent v j := by simpa using (List.mem_filter.mp hj).2
  simp only [Function.comp]
  congr 1
  omega

/-- the idiom `vertex = accessor[v]; vertex[vertex >= 0].tolist()`: the live entries of row `v`. -/
theorem acc_live_tolist {a : Acc} (ha : a.WF) {v : Nat} (hv : v < a.size) :
    (bnd (bnd (npCmp pyGe (rowPV (a.row (v : Int))) (.int 0)) fun t => npMaskIndex (rowPV (a.row (v : Int))) t)
        fun t => npToList t) = .ok (natsPV (a.liveEntries (v : Int))) := by
  rw [rowPV, row_live_tolist, liveEntries_eq ha (by omega) (by omega)]; rfl

theorem liveEntries_lt {a : Acc} (ha : a.WF) {v : Nat} (hv : v < a.size) {w : Nat}
    (hw : w ∈ a.liveEntries (v : Int)) : w < a.size := by
  unfold Acc.liveEntries at hw
  obtain ⟨j, hj, rfl⟩ := List.mem_map.mp hw
  have := ha.ent_of_live (v := (v : Int)) (by omega) (by omega) hj
  omega

/-! ## `accessor[v, j] = x` -/

/-- all rows have four entries. -/
def Shape (n : Nat) (a : Acc) : Prop := a.size = n ∧ ∀ i, i < n → (a.getD i #[]).size = 4

theorem Shape_init (n : Nat) : Shape n (Array.replicate n (Array.replicate 4 (-1))) := by
  refine ⟨by simp, fun i hi => ?_⟩
  simp [Array.getD_eq_getD_getElem?, hi]

theorem Shape.setEnt {n : Nat} {a : Acc} (h : Shape n a) (v j : Nat) (x : Int) : Shape n (a.setEnt v j x) := by
  refine ⟨by simp [Acc.setEnt, h.1], fun i hi => ?_⟩
  have hi' : i < a.size := by rw [h.1]; exact hi
  have := h.2 i hi
  unfold Acc.setEnt
  by_cases hiv : v = i
  · subst hiv
    simpa [Array.getD_eq_getD_getElem?, hi', Array.getElem?_setIfInBounds] using this
  · simpa [Array.getD_eq_getD_getElem?, hi', Array.getElem?_setIfInBounds, hiv] using this

theorem npSetItem2_accPV {a : Acc} {v j : Nat} (hv : v < a.size) (hj : j < (a.getD v #[]).size) (x : Int) :
    npSetItem2 (accPV a) (.int (v : Int)) (.int (j : Int)) (.int x) = .ok (accPV (a.setEnt v j x)) := by
  have hr : (a.toList.map fun r => PV.arr (r.toList.map fun (x : Int) => PV.int x))[v]? =
      some (.arr ((a.getD v #[]).toList.map fun (x : Int) => PV.int x)) := by
    simp [Array.getD_eq_getD_getElem?, hv]
  have hk : ((a.getD v #[]).toList.map fun (x : Int) => PV.int x)[j]? = some (.int ((a.getD v #[])[j]'hj)) := by
    simp
  rw [accPV, GzTie.npSetItem2_nat hr hk]
  simp only [accPV, Acc.setEnt, Array.toList_setIfInBounds, List.map_set]

theorem accPV_init (n : Nat) :
    accPV (Array.replicate n (Array.replicate 4 (-1))) = .arr (List.replicate n GzTie.negRow) := by
  simp [accPV, GzTie.negRow]

/-- `-ones((n, 4))`. -/
theorem neg_ones_expr (n : Nat) :
    (bnd (npOnes (.tup [.int (n : Int), .int ((4 : Nat) : Int)])) fun t => npNeg t) =
      .ok (accPV (Array.replicate n (Array.replicate 4 (-1)))) := by
  rw [show PV.int ((4 : Nat) : Int) = PV.int 4 from rfl, GzTie.npOnes_nat_four, bnd_ok, npNeg,
    GzTie.npNegList_ones, accPV_init]; rfl

end Dsw.Tie.GzV
