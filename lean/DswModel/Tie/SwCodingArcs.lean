import DswModel.Tie.SwCodingTrim
/-!
# Translation tie — `connect_coding_graph`: the arc materialisation (`accessor[v, position] = latter`)
-/
namespace Dsw.Tie.Ccg
open Dsw Dsw.Py Dsw.Tie Dsw.Trim

/-! ### `for position, x in enumerate(xs)` with the position known -/

theorem forLoop_enum_len_aux {ε α : Type} {body : PV → ε → R (Flow ε)} (Rel : List α → ε → Prop) (emb : α → PV)
    (as : List α)
    (h : ∀ (pre : List α) (x : α) (suf : List α), as = pre ++ x :: suf → ∀ e, Rel pre e →
      ∃ e', body (.tup [.int (pre.length : Int), emb x]) e = .ok (.norm e') ∧ Rel (pre ++ [x]) e') :
    ∀ (suf pre : List α) (e : ε), as = pre ++ suf → Rel pre e →
      ∃ e', forLoop body (enumFrom pre.length (suf.map emb)) e = .ok (.norm e') ∧ Rel as e' := by
  intro suf
  induction suf with
  | nil =>
    intro pre e has h0
    rw [has, List.append_nil]
    exact ⟨e, rfl, h0⟩
  | cons x xs ih =>
    intro pre e has h0
    obtain ⟨e1, hb, h1⟩ := h pre x xs has e h0
    obtain ⟨e2, hl, h2⟩ := ih (pre ++ [x]) e1 (by rw [has]; simp) h1
    refine ⟨e2, ?_, h2⟩
    rw [List.map_cons, enumFrom_cons, forLoop_cons_norm hb]
    simpa using hl

theorem forLoop_enum_len {ε α : Type} {body : PV → ε → R (Flow ε)} (Rel : List α → ε → Prop) (emb : α → PV)
    (as : List α)
    (h : ∀ (pre : List α) (x : α) (suf : List α), as = pre ++ x :: suf → ∀ e, Rel pre e →
      ∃ e', body (.tup [.int (pre.length : Int), emb x]) e = .ok (.norm e') ∧ Rel (pre ++ [x]) e')
    {e : ε} (h0 : Rel [] e) :
    ∃ e', forLoop body (enumFrom 0 (as.map emb)) e = .ok (.norm e') ∧ Rel as e' :=
  forLoop_enum_len_aux Rel emb as h as [] e rfl h0

/-- weakening of the post-condition of a statement that ends normally. -/
theorem post_mono {ε : Type} {r : R (Flow ε)} (Q P : ε → Prop) (h : ∃ e1, r = .ok (.norm e1) ∧ Q e1)
    (hq : ∀ e1, Q e1 → P e1) : ∃ e1, r = .ok (.norm e1) ∧ P e1 := by
  obtain ⟨e1, h1, h2⟩ := h
  exact ⟨e1, h1, hq e1 h2⟩

/-! ### rows -/

/-- the entry written for successor `w`. -/
def cellOf (m : Mask) (w : Nat) : PV := .int (if m.getD w false then (w : Int) else -1)

/-- row `v` while its successors are being written: the entries of the prefix, then `-1`s. -/
def rp (m : Mask) (pre : List Nat) (n : Nat) : List PV :=
  pre.map (cellOf m) ++ List.replicate (n - pre.length) (.int (-1))

theorem rp_getElem? (m : Mask) {pre : List Nat} {n : Nat} (h : pre.length < n) :
    (rp m pre n)[pre.length]? = some (.int (-1)) := by
  unfold rp
  rw [List.getElem?_append_right (by simp)]
  simp only [List.length_map, Nat.sub_self]
  rw [List.getElem?_replicate]
  simp; omega

theorem rp_snoc (m : Mask) {pre : List Nat} {n : Nat} (h : pre.length < n) (w : Nat) :
    rp m (pre ++ [w]) n = (rp m pre n).set pre.length (cellOf m w) := by
  unfold rp
  rw [List.set_append_right _ _ (by simp)]
  simp only [List.length_map, Nat.sub_self, List.map_append, List.map_cons, List.map_nil, List.length_append,
    List.length_cons, List.length_nil, List.append_assoc]
  congr 1
  obtain ⟨d, hd⟩ : ∃ d, n - pre.length = d + 1 := ⟨n - pre.length - 1, by omega⟩
  have hd' : n - (pre.length + (0 + 1)) = d := by omega
  rw [hd, hd', List.replicate_succ]
  rfl

theorem rp_nil (m : Mask) : PV.arr (rp m [] 4) = GzTie.negRow := rfl

/-- the finished row of vertex `v`. -/
def rowF (k : Nat) (m : Mask) (v : Nat) : PV :=
  if m.getD v false then .arr ((obtainLatters k v).map (cellOf m)) else GzTie.negRow

theorem rp_full (k : Nat) (m : Mask) (v : Nat) : rp m (obtainLatters k v) 4 = (obtainLatters k v).map (cellOf m) := by
  unfold rp
  rw [obtainLatters_length]
  simp

/-- the accessor after `i` iterations of the outer loop. -/
def rowsUpTo (F : Nat → PV) (n i : Nat) : List PV :=
  (List.range n).map fun v => if v < i then F v else GzTie.negRow

theorem rowsUpTo_length (F : Nat → PV) (n i : Nat) : (rowsUpTo F n i).length = n := by simp [rowsUpTo]

theorem rowsUpTo_getElem? {F : Nat → PV} {n i v : Nat} (h : v < n) :
    (rowsUpTo F n i)[v]? = some (if v < i then F v else GzTie.negRow) := by
  simp [rowsUpTo, h]

theorem rowsUpTo_set (F : Nat → PV) (n i : Nat) : (rowsUpTo F n i).set i (F i) = rowsUpTo F n (i + 1) := by
  apply List.ext_getElem?
  intro j
  rw [List.getElem?_set]
  by_cases hj : j < n
  · rw [rowsUpTo_getElem? hj, rowsUpTo_getElem? hj]
    by_cases hij : i = j
    · subst hij; simp [rowsUpTo_length, hj]
    · have h1 : (j < i + 1) = (j < i) := by apply propext; omega
      simp only [hij, if_false, h1]
  · have h1 : (rowsUpTo F n i)[j]? = Option.none := List.getElem?_eq_none (by rw [rowsUpTo_length]; omega)
    have h2 : (rowsUpTo F n (i + 1))[j]? = Option.none := List.getElem?_eq_none (by rw [rowsUpTo_length]; omega)
    rw [h1, h2]
    split
    · next hij =>
      split
      · next hlt => rw [rowsUpTo_length] at hlt; omega
      · rfl
    · rfl

theorem rowsUpTo_zero (F : Nat → PV) (n : Nat) :
    PV.arr (rowsUpTo F n 0) = accPV (Array.replicate n (Array.replicate 4 (-1))) := by
  rw [GzV.accPV_init]
  simp [rowsUpTo, List.map_const']

theorem rowsUpTo_full (k : Nat) (m : Mask) :
    PV.arr (rowsUpTo (rowF k m) (4 ^ k) (4 ^ k)) = accPV (inducedAccessor k m) := by
  simp only [accPV, inducedAccessor, rowsUpTo, PV.arr.injEq]
  simp only [Array.toList_map, Array.toList_range, List.map_map]
  apply List.map_congr_left
  intro v hv
  have : v < 4 ^ k := List.mem_range.mp hv
  simp only [this, if_true, rowF, Function.comp]
  by_cases hmv : m.getD v false = true
  · simp only [hmv, if_true, List.map_map, PV.arr.injEq]
    apply List.map_congr_left
    intro w _
    simp only [cellOf, Function.comp]
    split <;> rfl
  · simp only [hmv, Bool.false_eq_true, if_false]
    simp [GzTie.negRow]

/-! ### the inner loop -/

def ArcIn (k : Nat) (ai : Bool) (m : Mask) (T : PV) (rows : List PV) (v : Nat) (pre : List Nat) (e : CEnv) : Prop :=
  e.observed_length = .int (k : Int) ∧ e.vertices = maskPV ai m ∧ e.threshold = T ∧
    e.vertex_index = .int (v : Int) ∧ e.accessor = .arr (rows.set v (.arr (rp m pre 4)))

theorem for4_spec (k fuel : Nat) (ai : Bool) (m : Mask) (hm : m.size = 4 ^ k) (T : PV) (rows : List PV) (v : Nat)
    (hv : v < rows.length) (pre : List Nat) (hpre : pre.length < 4) (w : Nat) (hw : w < 4 ^ k) (e : CEnv)
    (h : ArcIn k ai m T rows v pre e) :
    ∃ e', Gen.connect_coding_graph.for4_body fuel (.tup [.int (pre.length : Int), .int (w : Int)]) e =
        .ok (.norm e') ∧ ArcIn k ai m T rows v (pre ++ [w]) e' := by
  obtain ⟨h1, h2, h3, h4, h5⟩ := h
  have hw' : w < m.toList.length := by rw [Array.length_toList, hm]; exact hw
  simp only [Gen.connect_coding_graph.for4_body, pyUnpack_two_tup, bnd_ok, List.getD_cons_zero,
    List.getD_cons_succ, h2, maskPV_eq, pyIndex_bmask ai hw', truthy_cellPV, getD_toList]
  by_cases hmw : m.getD w false = true
  · have hr : (rows.set v (.arr (rp m pre 4)))[v]? = some (.arr (rp m pre 4)) := by
      rw [List.getElem?_set_self hv]
    simp only [hmw, if_true, h5, h4, GzTie.npSetItem2_nat hr (rp_getElem? m hpre), bnd_ok]
    refine ⟨_, rfl, by first | rfl | exact h1, by first | rfl | (rw [← maskPV_eq]; exact h2) | exact h2,
      by first | rfl | exact h3, by first | rfl | exact h4, ?_⟩
    show PV.arr _ = PV.arr _
    rw [List.set_set, rp_snoc m hpre, cellOf, hmw]
    rfl
  · simp only [hmw, Bool.false_eq_true, if_false]
    refine ⟨_, rfl, by first | rfl | exact h1, by first | rfl | (rw [← maskPV_eq]; exact h2) | exact h2,
      by first | rfl | exact h3, by first | rfl | exact h4, ?_⟩
    rw [h5, rp_snoc m hpre]
    have hc : cellOf m w = .int (-1) := by
      have : m.getD w false = false := by simpa using hmw
      simp [cellOf, this]
    rw [hc, GzTie.set_self_of_getElem? (rp_getElem? m hpre)]

/-! ### the outer loop -/

def ArcSt (k : Nat) (ai : Bool) (m : Mask) (T : PV) (i : Nat) (e : CEnv) : Prop :=
  e.observed_length = .int (k : Int) ∧ e.vertices = maskPV ai m ∧ e.threshold = T ∧
    e.accessor = .arr (rowsUpTo (rowF k m) (4 ^ k) i)

theorem for3_spec (k fuel : Nat) (ai : Bool) (m : Mask) (hm : m.size = 4 ^ k) (T : PV) (i : Nat) (hi : i < 4 ^ k)
    (e : CEnv) (h : ArcSt k ai m T i e) :
    ∃ e', Gen.connect_coding_graph.for3_body fuel (.int (i : Int)) e = .ok (.norm e') ∧ ArcSt k ai m T (i + 1) e' := by
  obtain ⟨h1, h2, h3, h4⟩ := h
  have hi' : i < m.toList.length := by rw [Array.length_toList, hm]; exact hi
  simp only [Gen.connect_coding_graph.for3_body, h2, maskPV_eq, pyIndex_bmask ai hi', bnd_ok, truthy_cellPV,
    getD_toList]
  refine GzV.seq_exists (ArcSt k ai m T (i + 1)) _ ?_ ?_
  · by_cases hmi : m.getD i false = true
    · simp only [hmi, if_true, h1, tie_obtain_latters, bnd_ok, pyEnumerate_natsPV, pyIter_list]
      have hlen : (rowsUpTo (rowF k m) (4 ^ k) i).length = 4 ^ k := rowsUpTo_length _ _ _
      refine post_mono (ArcIn k ai m T (rowsUpTo (rowF k m) (4 ^ k) i) i (obtainLatters k i)) _ ?_ ?_
      · refine forLoop_enum_len (body := Gen.connect_coding_graph.for4_body fuel)
          (ArcIn k ai m T (rowsUpTo (rowF k m) (4 ^ k) i) i) (fun (n : Nat) => PV.int (n : Int)) (obtainLatters k i)
          (fun pre x suf has e he => ?_) ?_
        · have hl4 : (obtainLatters k i).length = 4 := obtainLatters_length k i
          rw [has] at hl4
          simp only [List.length_append, List.length_cons] at hl4
          have hx : x ∈ obtainLatters k i := by rw [has]; simp
          obtain ⟨j, _, rfl⟩ := (mem_obtainLatters k i x).1 hx
          exact for4_spec k fuel ai m hm T _ i (by rw [hlen]; exact hi) pre (by omega) _
            (Nat.mod_lt _ (four_pow_pos k)) e he
        · refine ⟨by first | rfl | exact h1, by first | rfl | (rw [maskPV_eq]) | exact h2,
            by first | rfl | exact h3, rfl, ?_⟩
          show e.accessor = _
          rw [h4, rp_nil, GzTie.set_self_of_getElem?]
          rw [rowsUpTo_getElem? hi]; simp
      · intro e1 g
        refine ⟨g.1, g.2.1, g.2.2.1, ?_⟩
        rw [g.2.2.2.2, rp_full, ← rowsUpTo_set]
        simp [rowF, hmi]
    · simp only [hmi, Bool.false_eq_true, if_false]
      refine ⟨_, rfl, by first | rfl | exact h1, by first | rfl | (rw [← maskPV_eq]; exact h2) | exact h2,
        by first | rfl | exact h3, ?_⟩
      show e.accessor = _
      rw [h4, ← rowsUpTo_set]
      have hF : rowF k m i = GzTie.negRow := by
        have : m.getD i false = false := by simpa using hmi
        simp [rowF, this]
      rw [hF, GzTie.set_self_of_getElem?]
      rw [rowsUpTo_getElem? hi]; simp
  · intro e1 g
    simp only [Gen.connect_coding_graph.k6, bnd_ok, ite_self]
    exact ⟨_, rfl, g⟩

/-- the whole materialisation loop. -/
theorem arcs_loop (k fuel : Nat) (ai : Bool) (m : Mask) (hm : m.size = 4 ^ k) (T : PV) (e : CEnv)
    (h1 : e.observed_length = .int (k : Int)) (h2 : e.vertices = maskPV ai m) (h3 : e.threshold = T)
    (h4 : e.accessor = accPV (Array.replicate (4 ^ k) (Array.replicate 4 (-1)))) :
    ∃ e', forLoop (Gen.connect_coding_graph.for3_body fuel)
        ((List.range (4 ^ k)).map fun (i : Nat) => PV.int (i : Int)) e = .ok (.norm e') ∧
      e'.observed_length = .int (k : Int) ∧ e'.vertices = maskPV ai m ∧ e'.threshold = T ∧
      e'.accessor = accPV (inducedAccessor k m) := by
  obtain ⟨e', hl, g1, g2, g3, g4⟩ := GzTie.forLoop_range_inv (body := Gen.connect_coding_graph.for3_body fuel)
    (ArcSt k ai m T) (4 ^ k) (fun i hi e he => for3_spec k fuel ai m hm T i hi e he)
    (e := e) ⟨h1, h2, h3, by rw [h4, rowsUpTo_zero]⟩
  exact ⟨e', hl, g1, g2, g3, by rw [g4, rowsUpTo_full]⟩

end Dsw.Tie.Ccg
