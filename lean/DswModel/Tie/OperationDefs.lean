import DswModel.Model.Operation
import DswModel.Gen.Operation
/-!
# DswModel.Tie.OperationDefs — how model-level arguments are embedded as Python values
-/
namespace Dsw.Tie
open Dsw Dsw.Py

/-- a decimal string as the Python `str` the code receives. -/
def dstr (s : Dec) : PV := .str (s.map digitChar)

/-- a list of naturals (bits, digits) as a Python list of ints. -/
def natsPV (l : List Nat) : PV := .list (l.map fun (n : Nat) => .int (n : Int))

/-- a character string as a Python `str`. -/
def cstr (s : List Char) : PV := .str s

/-- every entry is a decimal digit. -/
def Digits (s : Dec) : Prop := ∀ d ∈ s, d < 10

instance (s : Dec) : Decidable (Digits s) := by unfold Digits; infer_instance

end Dsw.Tie
