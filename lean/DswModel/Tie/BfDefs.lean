import DswModel.Gen.Biofilter
import DswModel.Model.Biofilter
/-!
# DswModel.Tie.BfDefs — how the arguments of `LocalBioFilter` are embedded into the Python fragment

A filter object is the `.dict` of its attributes in the order `__init__` assigns them. The GC bounds are the two doubles
the caller passes (`Dbl`, exact fractions); the model's integer thresholds are DERIVED from them by `floatGcRule`.
-/
namespace Dsw.Tie
open Dsw Dsw.Py

def optNatPV : Option Nat → PV
  | none => .none
  | some r => .int r

def motifsPV : Option (List (List Char)) → PV
  | none => .none
  | some ms => .list (ms.map PV.str)

def dblPV (x : Dbl) : PV := .rat x.num x.den

def gcPV : Option (Dbl × Dbl) → PV
  | none => .none
  | some (lo, hi) => .list [dblPV lo, dblPV hi]

/-- the object `LocalBioFilter(k, run, gc, motifs)` builds. -/
def bfObj (k : Nat) (run : Option Nat) (gc : Option (Dbl × Dbl)) (motifs : Option (List (List Char))) : PV :=
  .dict [.str "screen_name".toList, .str "observed_length".toList, .str "max_homopolymer_runs".toList,
         .str "gc_range".toList, .str "undesired_motifs".toList]
        [.str "Local".toList, .int k, optNatPV run, gcPV gc, motifsPV motifs]

/-- the model configuration of the same filter: the GC thresholds are what the code's float expressions produce.
`none` when a product `bound * k` would be infinite (outside the model). -/
def bfCfg (k : Nat) (run : Option Nat) (gc : Option (Dbl × Dbl)) (motifs : Option (List (List Char))) : Option FilterCfg :=
  match gc with
  | none => some { k := k, run := run, motifs := motifs, gc := none }
  | some (lo, hi) => (floatGcRule lo hi k).map fun g => { k := k, run := run, motifs := motifs, gc := some g }

/-- the constructor's own validation does not look at the GC bounds. -/
def bfAccepted (k : Nat) (run : Option Nat) (motifs : Option (List (List Char))) : Bool :=
  ({ k := k, run := run, motifs := motifs, gc := none } : FilterCfg).accepted

/-- motif characters for which the code's reverse complement (`replace` ×4, reverse, `upper`) is the model's `revComp`:
ASCII and not a lower-case letter. -/
def MotifChar (c : Char) : Prop := c.toNat < 128 ∧ c.toUpper = c

end Dsw.Tie
