import DswModel.Tie.NpLemmas
import DswModel.Tie.BuildDefs
import DswModel.Tie.GzArith
/-!
# Translation tie — `connect_valid_graph` (dsw/spiderweb.py)

`Dsw.Gen.connect_valid_graph` (generated from the Python source on every run) computes the model function
`Dsw.connectValidGraph`: the shift sub-graph induced by the mask (boolean or 0/1 integer array of `4^k` cells),
`ValueError` for the empty mask and for `None`.
-/
namespace Dsw.Tie
open Dsw Dsw.Py

namespace SwValid
open GzTie

/-! ### mask cells -/

/-- one cell of a mask array. -/
def cellPV (asInt b : Bool) : PV := if asInt then .int (if b then 1 else 0) else .bool b

theorem maskPV_eq (asInt : Bool) (m : Mask) : maskPV asInt m = .arr (m.toList.map (cellPV asInt)) := rfl

theorem truthy_cellPV (asInt b : Bool) : (cellPV asInt b).truthy = b := by
  cases asInt <;> cases b <;> rfl

theorem asInt?_cellPV (asInt b : Bool) : (cellPV asInt b).asInt? = some (if b then 1 else 0) := by
  cases asInt <;> cases b <;> rfl

/-- `vertices[w]` for a cell inside the mask. -/
theorem pyIndex_maskPV (asInt : Bool) {m : Mask} {w : Nat} (h : w < m.size) :
    pyIndex (maskPV asInt m) (.int (w : Int)) = .ok (cellPV asInt (m.getD w false)) := by
  rw [maskPV_eq, pyIndex_arr_getD (by simpa using h)]
  simp [List.getD_eq_getElem?_getD, Array.getD_eq_getD_getElem?, h]

theorem mapM_asInt?_cells (asInt : Bool) (l : List Bool) :
    (l.map (cellPV asInt)).mapM PV.asInt? = some (l.map fun b => if b then 1 else 0) := by
  induction l with
  | nil => rfl
  | cons x xs ih => simp [List.mapM_cons, ih, asInt?_cellPV]

theorem cnt_eq_count (l : List Bool) :
    (l.map fun b => if b then (1 : Int) else 0).foldl (· + ·) 0 = ((l.filter id).length : Int) := by
  induction l with
  | nil => rfl
  | cons b bs ih =>
    rw [List.map_cons, List.foldl_cons, foldl_add_shift, ih]
    cases b <;> simp <;> omega

/-- `sum(vertices)`. -/
theorem npSum_maskPV (asInt : Bool) (m : Mask) : npSum (maskPV asInt m) = .ok (.int (m.count : Int)) := by
  simp only [maskPV_eq, npSum, mapM_asInt?_cells, cnt_eq_count, Mask.count]

theorem pyLen_maskPV (asInt : Bool) (m : Mask) : pyLen (maskPV asInt m) = .ok (.int (m.size : Int)) := by
  simp [maskPV_eq]

/-! ### true division -/

theorem pyTrueDiv_nat_pos (a : Nat) {b : Nat} (hb : 0 < b) :
    pyTrueDiv (.int (a : Int)) (.int (b : Int)) = .ok (.rat (a : Int) (b : Int)) := by
  have h1 : ¬ ((b : Int) = 0) := by omega
  have h2 : (b : Int) > 0 := by omega
  simp only [pyTrueDiv, asInt?_int, h1, h2, if_false, if_true]

theorem pyGt_rat_zero (n d : Int) : pyGt (.rat n d) (.int 0) = .ok (decide (0 < n)) := by
  simp [pyGt, pyLt, PV.asInt?]

/-! ### rows -/

/-- an entry of the induced accessor. -/
def cellI (m : Mask) (w : Nat) : Int := if m.getD w false then (w : Int) else -1

/-- the row of vertex `v` in the induced accessor. -/
def indRow (k : Nat) (m : Mask) (v : Nat) : PV :=
  if m.getD v false then .arr ((obtainLatters k v).map fun w => .int (cellI m w)) else negRow

/-- the accessor after `i` iterations of the outer loop. -/
def rowsV (k : Nat) (m : Mask) (n i : Nat) : List PV :=
  (List.range n).map fun v => if v < i then indRow k m v else negRow

theorem rowsV_zero (k : Nat) (m : Mask) (n : Nat) : rowsV k m n 0 = List.replicate n negRow := by
  simp [rowsV, List.map_const']

theorem rowsV_getElem? {k : Nat} {m : Mask} {n i v : Nat} (h : v < n) :
    (rowsV k m n i)[v]? = some (if v < i then indRow k m v else negRow) := by
  simp [rowsV, h]

theorem rowsV_length (k : Nat) (m : Mask) (n i : Nat) : (rowsV k m n i).length = n := by simp [rowsV]

theorem rowsV_set (k : Nat) (m : Mask) (n i : Nat) :
    (rowsV k m n i).set i (indRow k m i) = rowsV k m n (i + 1) := by
  apply List.ext_getElem?
  intro j
  rw [List.getElem?_set]
  by_cases hj : j < n
  · rw [rowsV_getElem? hj, rowsV_getElem? hj]
    by_cases hij : i = j
    · subst hij; simp [rowsV_length, hj]
    · have h1 : (j < i + 1) = (j < i) := by apply propext; omega
      simp only [hij, if_false, h1]
  · have h1 : (rowsV k m n i)[j]? = Option.none := List.getElem?_eq_none (by rw [rowsV_length]; omega)
    have h2 : (rowsV k m n (i + 1))[j]? = Option.none := List.getElem?_eq_none (by rw [rowsV_length]; omega)
    rw [h1, h2]
    split
    · next hij =>
      split
      · next hlt => rw [rowsV_length] at hlt; omega
      · rfl
    · rfl

/-- a row that is not touched. -/
theorem rowsV_skip (k : Nat) (m : Mask) (n i : Nat) (h : m.getD i false = false) :
    rowsV k m n i = rowsV k m n (i + 1) := by
  rw [← rowsV_set]
  by_cases hi : i < n
  · symm
    apply set_self_of_getElem?
    rw [rowsV_getElem? hi]
    simp [indRow, h]
  · rw [List.set_eq_of_length_le (by rw [rowsV_length]; omega)]

theorem obtainLatters_lt (k v : Nat) {w : Nat} (h : w ∈ obtainLatters k v) : w < 4 ^ k := by
  unfold obtainLatters at h
  obtain ⟨j, _, rfl⟩ := List.mem_map.mp h
  exact Nat.mod_lt _ (Nat.pow_pos (by omega))

theorem rowsV_full (k : Nat) (m : Mask) : PV.arr (rowsV k m (4 ^ k) (4 ^ k)) = accPV (inducedAccessor k m) := by
  simp only [accPV, inducedAccessor, rowsV, PV.arr.injEq]
  simp only [Array.toList_map, Array.toList_range, List.map_map]
  apply List.map_congr_left
  intro v hv
  have : v < 4 ^ k := List.mem_range.mp hv
  simp only [this, if_true, Function.comp, indRow]
  by_cases hmv : m.getD v false = true
  · simp [hmv, cellI, List.map_map, Function.comp_def]
  · simp [hmv, negRow]

/-! ### the inner loop -/

/-- the inner loop `for position, w in enumerate(latters): if vertices[w]: accessor[v][position] = w`
overwrites the tail `suf` (still all `-1`) of row `v`. -/
theorem setrow_loop (fuel v : Nat) (asInt : Bool) (m : Mask) (xs : List Nat) (hxs : ∀ x ∈ xs, x < m.size) :
    ∀ (n : Nat) (pre rows : List PV) (e : Gen.connect_valid_graph.Env),
      n = pre.length → e.accessor = .arr rows → e.vertex_index = .int (v : Int) →
      e.vertices = maskPV asInt m →
      rows[v]? = some (.arr (pre ++ List.replicate xs.length (.int (-1)))) →
      ∃ e', forLoop (Gen.connect_valid_graph.for2_body fuel)
          (enumFrom n (xs.map fun (x : Nat) => PV.int (x : Int))) e = .ok (.norm e') ∧
        e'.accessor = .arr (rows.set v (.arr (pre ++ xs.map fun w => PV.int (cellI m w)))) ∧
        e'.vertices = maskPV asInt m ∧ e'.observed_length = e.observed_length := by
  induction xs with
  | nil =>
    intro n pre rows e _ ha _ hm hr
    simp only [List.length_nil, List.replicate_zero] at hr
    exact ⟨e, rfl, by rw [ha, List.map_nil, set_self_of_getElem? hr], hm, rfl⟩
  | cons x xs ih =>
    intro n pre rows e hn ha hv hm hr
    have hx : x < m.size := hxs x (by simp)
    have hvl : v < rows.length := by
      rcases Nat.lt_or_ge v rows.length with h | h
      · exact h
      · rw [List.getElem?_eq_none h] at hr; cases hr
    have hj : (pre ++ List.replicate (x :: xs).length (PV.int (-1)))[n]? = some (.int (-1)) := by
      subst hn; simp [List.replicate_succ]
    have hset : ∀ y : Int, (pre ++ List.replicate (x :: xs).length (PV.int (-1))).set n (.int y) =
        (pre ++ [.int y]) ++ List.replicate xs.length (PV.int (-1)) := by
      intro y; subst hn; simp [List.replicate_succ]
    obtain ⟨e1, hb, ha1, hv1, hm1, ho1⟩ : ∃ e1,
        Gen.connect_valid_graph.for2_body fuel (.tup [.int (n : Int), .int (x : Int)]) e =
          .ok (.norm e1) ∧
        e1.accessor = .arr (rows.set v (.arr ((pre ++ [.int (cellI m x)]) ++
          List.replicate xs.length (PV.int (-1))))) ∧
        e1.vertex_index = .int (v : Int) ∧ e1.vertices = maskPV asInt m ∧
        e1.observed_length = e.observed_length := by
      simp only [Gen.connect_valid_graph.for2_body, pyUnpack_two_tup, bnd_ok, ha, hv, hm,
        List.getD_cons_zero, List.getD_cons_succ, pyIndex_maskPV asInt hx, truthy_cellPV]
      by_cases hc : m.getD x false = true
      · simp only [hc, if_true, npSetItem2_nat hr hj, bnd_ok, hset, cellI]
        exact ⟨_, rfl, rfl, by first | rfl | exact hv, by first | rfl | exact hm, rfl⟩
      · have hc' : m.getD x false = false := by simpa using hc
        simp only [hc', Bool.false_eq_true, if_false, cellI]
        refine ⟨_, rfl, ?_, by first | rfl | exact hv, by first | rfl | exact hm, rfl⟩
        show PV.arr rows = _
        rw [← hset (-1), set_self_of_getElem? hj, set_self_of_getElem? hr]
    obtain ⟨e', hl, ha', hm', ho'⟩ := ih (fun y hy => hxs y (by simp [hy])) (n + 1)
      (pre ++ [.int (cellI m x)])
      (rows.set v (.arr ((pre ++ [.int (cellI m x)]) ++ List.replicate xs.length (PV.int (-1))))) e1
      (by simp [hn]) ha1 hv1 hm1 (by rw [List.getElem?_set_self hvl])
    refine ⟨e', ?_, ?_, hm', ho'.trans ho1⟩
    · rw [List.map_cons, enumFrom_cons, forLoop_cons_norm hb, hl]
    · rw [ha', List.set_set, List.map_cons, List.append_assoc]; rfl

def AccInv (k : Nat) (asInt : Bool) (m : Mask) (i : Nat) (e : Gen.connect_valid_graph.Env) : Prop :=
  e.observed_length = .int (k : Int) ∧ e.vertices = maskPV asInt m ∧
    e.accessor = .arr (rowsV k m (4 ^ k) i)

/-- the inner loop on the state reached after `i` iterations of the outer loop. -/
theorem setrow_rowsV (k fuel i : Nat) (asInt : Bool) (m : Mask) (hm : m.size = 4 ^ k) (hi : i < 4 ^ k)
    (hmi : m.getD i false = true) (e : Gen.connect_valid_graph.Env)
    (h2 : e.accessor = .arr (rowsV k m (4 ^ k) i)) (hv : e.vertex_index = .int (i : Int))
    (h3 : e.vertices = maskPV asInt m) (h1 : e.observed_length = .int (k : Int)) :
    ∃ e1, forLoop (Gen.connect_valid_graph.for2_body fuel)
        (enumFrom 0 ((obtainLatters k i).map fun (x : Nat) => PV.int (x : Int))) e = .ok (.norm e1) ∧
      AccInv k asInt m (i + 1) e1 := by
  obtain ⟨e', hl, ha', hm', ho'⟩ := setrow_loop fuel i asInt m (obtainLatters k i)
    (fun x hx => by rw [hm]; exact obtainLatters_lt k i hx) 0 [] (rowsV k m (4 ^ k) i) e rfl h2 hv h3
    (by rw [rowsV_getElem? hi]; simp [negRow, obtainLatters])
  refine ⟨e', hl, ho'.trans h1, hm', ?_⟩
  rw [ha', List.nil_append, ← rowsV_set]
  simp only [indRow, hmi, if_true]

/-! ### the outer loop -/

theorem accessor_body (k fuel i : Nat) (asInt : Bool) (m : Mask) (hm : m.size = 4 ^ k) (hi : i < 4 ^ k)
    (e : Gen.connect_valid_graph.Env) (h : AccInv k asInt m i e) :
    ∃ e', Gen.connect_valid_graph.for1_body fuel (.int (i : Int)) e = .ok (.norm e') ∧
      AccInv k asInt m (i + 1) e' := by
  obtain ⟨h1, h3, h2⟩ := h
  have him : i < m.size := by rw [hm]; exact hi
  simp only [Gen.connect_valid_graph.for1_body, h1, h3, pyIndex_maskPV asInt him, truthy_cellPV, bnd_ok]
  apply seq_exists_of_norm (AccInv k asInt m (i + 1))
  · by_cases hc : m.getD i false = true
    · simp only [hc, if_true, tie_obtain_latters, bnd_ok, pyEnumerate_natsPV, pyIter_list]
      exact setrow_rowsV k fuel i asInt m hm hi hc _ (by exact h2) (by rfl)
        (by first | rfl | exact h3) (by first | rfl | exact h1)
    · have hc' : m.getD i false = false := by simpa using hc
      simp only [hc', Bool.false_eq_true, if_false]
      refine ⟨_, rfl, by first | rfl | exact h1, by first | rfl | exact h3, ?_⟩
      show e.accessor = _
      rw [h2, rowsV_skip k m _ i hc']
  · intro e1 h
    exact ⟨e1, by simp only [Gen.connect_valid_graph.k1, bnd_ok, ite_self], h⟩

/-! ### the function -/

theorem npOnes_nat_four' (n : Nat) :
    npOnes (.tup [.int (n : Int), .int ((4 : Nat) : Int)]) =
      .ok (.arr (List.replicate n (.arr (List.replicate 4 (.int 1))))) := npOnes_nat_four n

theorem npNeg_ones' (k : Nat) (m : Mask) (n : Nat) :
    npNeg (.arr (List.replicate n (.arr (List.replicate 4 (.int 1))))) = .ok (.arr (rowsV k m n 0)) := by
  rw [rowsV_zero, npNeg, npNegList_ones]
  rfl

theorem k3_spec (fuel : Nat) (e : Gen.connect_valid_graph.Env) :
    Gen.connect_valid_graph.k3 fuel e = .ok (.ret e.accessor) := by
  simp only [Gen.connect_valid_graph.k3, bnd_ok, ite_self, seq_norm, Gen.connect_valid_graph.k2]

theorem k4_spec (k fuel : Nat) (asInt : Bool) (m : Mask) (hm : m.size = 4 ^ k)
    (e : Gen.connect_valid_graph.Env) (h1 : e.observed_length = .int (k : Int))
    (h3 : e.vertices = maskPV asInt m) (hn : e.nucleotides = .str ['A', 'C', 'G', 'T']) :
    callResult (Gen.connect_valid_graph.k4 fuel e) = (connectValidGraph k (some m)).map accPV := by
  have hpos : 0 < m.size := by rw [hm]; exact Nat.pow_pos (by omega)
  simp only [Gen.connect_valid_graph.k4, h1, h3, hn, npSum_maskPV, pyLen_maskPV, bnd_ok,
    pyTrueDiv_nat_pos _ hpos, pyGt_rat_zero, connectValidGraph]
  by_cases hc : m.count > 0
  · have hc' : (0 : Int) < (m.count : Int) := by omega
    simp only [hc, hc', decide_true, if_true, pyLen_ACGT, bnd_ok, pyPow_nat, pyInt_int, npOnes_nat_four',
      npNeg_ones' k m, pyRange1_nat, pyIter_list, R_map_ok]
    apply callResult_seq_of_norm (AccInv k asInt m (4 ^ k))
    · exact forLoop_range_inv (AccInv k asInt m) _
        (fun i hi e he => accessor_body k fuel i asInt m hm hi e he)
        ⟨by first | rfl | exact h1, by first | rfl | exact h3, rfl⟩
    · intro e' h
      rw [k3_spec, callResult_ret, h.2.2, rowsV_full]
  · have hc' : ¬ (0 : Int) < (m.count : Int) := by omega
    simp only [hc, hc', decide_false, Bool.false_eq_true, if_false, callResult_error]
    rfl

end SwValid

open SwValid GzTie

theorem tie_connect_valid_graph (k : Nat) (m : Mask) (asInt : Bool) (fuel : Nat) (verbose : Bool) (hm : m.size = 4 ^ k) :
    Gen.connect_valid_graph fuel (.int (k : Int)) (maskPV asInt m) (.bool verbose) =
      (connectValidGraph k (some m)).map accPV := by
  have hnone : pyIsNone (maskPV asInt m) = false := rfl
  simp only [Gen.connect_valid_graph, Gen.connect_valid_graph.body, hnone, bnd_ok, Bool.false_eq_true,
    if_false, seq_norm, Gen.connect_valid_graph.k5, ite_self]
  exact k4_spec k fuel asInt m hm _ rfl rfl rfl

theorem tie_connect_valid_graph_none (k fuel : Nat) (verbose : Bool) :
    Gen.connect_valid_graph fuel (.int (k : Int)) .none (.bool verbose) = .error .valueError := by
  rfl

end Dsw.Tie
