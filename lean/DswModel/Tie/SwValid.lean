import DswModel.Tie.NpLemmas
import DswModel.Tie.BuildDefs
import DswModel.Tie.GzArith
/-!
# Translation tie — `connect_valid_graph` (dsw/spiderweb.py)

`Dsw.Gen.connect_valid_graph` (generated from the Python source on every run) computes the model function
`Dsw.connectValidGraph`: the shift sub-graph induced by the mask (boolean or 0/1 integer array of `4^k` cells),
`ValueError` for the empty mask and for `None`.
-/
namespace Dsw.Tie
open Dsw Dsw.Py

theorem tie_connect_valid_graph (k : Nat) (m : Mask) (asInt : Bool) (fuel : Nat) (verbose : Bool) (hm : m.size = 4 ^ k) :
    Gen.connect_valid_graph fuel (.int (k : Int)) (maskPV asInt m) (.bool verbose) =
      (connectValidGraph k (some m)).map accPV := by
  sorry

theorem tie_connect_valid_graph_none (k fuel : Nat) (verbose : Bool) :
    Gen.connect_valid_graph fuel (.int (k : Int)) .none (.bool verbose) = .error .valueError := by
  sorry

end Dsw.Tie
