import DswModel.Tie.SwRepairLib
/-!
# Translation tie — `repair_dna`: the fragment collection

`for index, (chuck_sequence, index_marker) in enumerate(zip(...))` (model `fragFold` / `fragStep`), its look-back
loop `for recall, vertex_index in enumerate(index_marker[::-1])` (model `collectFragments` / `collectStep`) and the
innermost `for _, fragment in record` (model `addFragments`).
-/
namespace Dsw.Tie.Repair
open Dsw Dsw.Py Dsw.Tie

/-- a finished fragment set: `list(repaired_fragment_set[index])`. -/
def donePV (fs : List (List Char)) : PV := .list (fs.map .str)

/-- a look-back window as the slice of `index_queue` the code stored. -/
def markerPV (m : List Int) : PV := .arr (m.map .int)

/-- the environment inside the loops over one detection: `A` holds the finished sets, `B` the untouched ones;
`inner` is the state of `collectFragments`, `base` the look-ups counted before this detection. -/
def InnerRel (P : Params) (K : PV × PV × PV) (A B : List PV) (chunk : List Char) (base : Nat)
    (inner : List (List Char) × Nat) (e : Env) : Prop :=
  Const P e ∧ Keep K e ∧ e.index = .int (A.length : Int) ∧ e.chuck_sequence = .str chunk ∧
    e.repaired_fragment_set = .list (A ++ .set (inner.1.map .str) :: B) ∧
    e.visited_times = .int ((base + inner.2 : Nat) : Int)

/-- closes an `InnerRel` goal about an environment literal. -/
macro "inner_rel" : tactic =>
  `(tactic| (refine ⟨⟨?_, ?_, ?_, ?_, ?_, ?_, ?_⟩, ⟨?_, ?_, ?_⟩, ?_, ?_, ?_, ?_⟩ <;> first | rfl | assumption))

/-- one record: the set update of `collectFragments`. -/
def addFragment (dna : List Char) (set : List (List Char)) (info : RepairInfo) : List (List Char) :=
  if set.contains dna then set else if set.contains info.fragment then set else set ++ [info.fragment]

theorem addFragments_eq (dna : List Char) (set : List (List Char)) (infos : List RepairInfo) :
    addFragments dna set infos = infos.foldl (addFragment dna) set := rfl

theorem for4_spec (fuel : Nat) {P : Params} {K : PV × PV × PV} {A B : List PV} {chunk : List Char} {base cnt : Nat}
    (info : RepairInfo) (set : List (List Char)) (e : Env) (h : InnerRel P K A B chunk base (set, cnt) e) :
    ∃ e', Gen.repair_dna.for4_body fuel (infoPV info) e = .ok (.norm e') ∧
      InnerRel P K A B chunk base (addFragment P.dna set info, cnt) e' := by
  obtain ⟨⟨hdna, hacc, hk, hchk, hind, hheap, hnuc⟩, ⟨hk1, hk2, hk3⟩, hidx, hchunk, hrfs, hvis⟩ := h
  simp only at hrfs hvis
  unfold addFragment
  cases hcd : set.contains P.dna with
  | true =>
    simp only [Gen.repair_dna.for4_body, infoPV, pyUnpack_two_tup, bnd_ok, getD_cons_zero', getD_cons_one', hidx,
      hrfs, hdna, pyIndex_list_mid, pyIn_set_strs, hcd, Bool.not_true, Bool.false_eq_true, if_false, if_true]
    refine ⟨_, rfl, ?_⟩
    inner_rel
  | false =>
    simp only [Gen.repair_dna.for4_body, infoPV, pyUnpack_two_tup, bnd_ok, getD_cons_zero', getD_cons_one', hidx,
      hrfs, hdna, pyIndex_list_mid, pyIn_set_strs, hcd, Bool.not_false, if_true, pySetAdd_strs,
      pySetItem_list_mid, Bool.false_eq_true, if_false]
    refine ⟨_, rfl, ?_⟩
    inner_rel

theorem for4_loop (fuel : Nat) {P : Params} {K : PV × PV × PV} {A B : List PV} {chunk : List Char} {base cnt : Nat}
    (infos : List RepairInfo) (set : List (List Char)) (e : Env) (h : InnerRel P K A B chunk base (set, cnt) e) :
    ∃ e', forLoop (Gen.repair_dna.for4_body fuel) (infos.map infoPV) e = .ok (.norm e') ∧
      InnerRel P K A B chunk base (addFragments P.dna set infos, cnt) e' := by
  rw [addFragments_eq]
  exact forLoop_rel_map (fun set e => InnerRel P K A B chunk base (set, cnt) e) (addFragment P.dna) infoPV
    (fun info _ set e hr => for4_spec fuel info set e hr) h

/-- one look-back position. -/
theorem for3_spec (fuel : Nat) {P : Params} (ha : P.a.WF) {K : PV × PV × PV} {A B : List PV} {chunk : List Char}
    {base : Nat} (j : Nat) (p : Int) (hj : j < P.k) (hp : -(P.a.size : Int) ≤ p ∧ p < P.a.size)
    (inner : List (List Char) × Nat) (e : Env) (h : InnerRel P K A B chunk base inner e) :
    Sim (InnerRel P K A B chunk base) (collectStep P.a P.k P.dna chunk P.hasIndel inner (p, j))
      (Gen.repair_dna.for3_body fuel (.tup [.int (j : Int), .int p]) e) := by
  obtain ⟨⟨hdna, hacc, hk, hchk, hind, hheap, hnuc⟩, ⟨hk1, hk2, hk3⟩, hidx, hchunk, hrfs, hvis⟩ := h
  have hocc : ((P.k : Int) - (j : Int) - 1) = ((P.k - j - 1 : Nat) : Int) := by omega
  unfold collectStep
  simp only [Gen.repair_dna.for3_body, pyUnpack_two_tup, bnd_ok, getD_cons_zero', getD_cons_one', hk, npSub_int,
    hocc, hchunk, hacc, hind, path_matching_spec fuel ha chunk hp]
  cases hpm : pathMatching P.a chunk p (P.k - j - 1) P.hasIndel with
  | error err => exact Sim.error rfl
  | ok r =>
    simp only [R_map_ok, bnd_ok, pmResultPV, pyUnpack_two_tup, getD_cons_zero', getD_cons_one', hvis, npAdd_nat,
      pyIter_list]
    have hA : ∀ e0, InnerRel P K A B chunk base (inner.1, inner.2 + r.2) e0 →
        Sim (InnerRel P K A B chunk base) (.ok (addFragments P.dna inner.1 r.1, inner.2 + r.2))
          (forLoop (Gen.repair_dna.for4_body fuel) (r.1.map infoPV) e0) := fun e0 h0 => by
      obtain ⟨e', he', hr'⟩ := for4_loop fuel r.1 inner.1 e0 h0
      exact Sim.ok he' hr'
    apply hA
    refine ⟨⟨?_, ?_, ?_, ?_, ?_, ?_, ?_⟩, ⟨?_, ?_, ?_⟩, ?_, ?_, ?_, ?_⟩ <;>
      first | rfl | assumption | (simp only [Nat.add_assoc])

/-- the look-back loop of one detection computes `collectFragments`. -/
theorem for3_loop (fuel : Nat) {P : Params} (ha : P.a.WF) {K : PV × PV × PV} {A B : List PV} {chunk : List Char}
    {base : Nat} (marker : List Int) (hml : marker.length ≤ P.k)
    (hm : ∀ x ∈ marker, -(P.a.size : Int) ≤ x ∧ x < P.a.size) (e : Env)
    (h : InnerRel P K A B chunk base ([], 0) e) :
    Sim (InnerRel P K A B chunk base) (collectFragments P.a P.k P.dna chunk marker P.hasIndel)
      (forLoop (Gen.repair_dna.for3_body fuel) (enumFrom 0 (marker.map PV.int).reverse) e) := by
  rw [← List.map_reverse, ← itemsFrom_enum, collectFragments_eq, ← foldIdxM_zipIdx]
  exact forLoop_sim (fun _ => InnerRel P K A B chunk base)
    (fun j s p => collectStep P.a P.k P.dna chunk P.hasIndel s (p, j))
    (fun i a => PV.tup [.int (i : Int), .int a]) marker.reverse 0 ([], 0) e
    (fun j p inner e' hp _ hj hr =>
      for3_spec fuel ha j p (by simp only [List.length_reverse] at hj; omega) (hm p (List.mem_reverse.mp hp))
        inner e' hr) h

/-- post-processing the state of a simulated loop. -/
theorem Sim.map {ε σ τ : Type} {Rel₁ : σ → ε → Prop} {Rel₂ : τ → ε → Prop} {m : R σ} {r : R (Flow ε)} {f : σ → τ}
    (h : Sim Rel₁ m r) (hf : ∀ s e, Rel₁ s e → Rel₂ (f s) e) : Sim Rel₂ (m.bind fun s => .ok (f s)) r := by
  cases m with
  | error err => exact h
  | ok s =>
    obtain ⟨e', he', hr'⟩ := h
    exact ⟨e', he', hf s e' hr'⟩

/-- `repaired_fragment_set[index] = list(repaired_fragment_set[index])`. -/
theorem k1_spec (fuel : Nat) {P : Params} {K : PV × PV × PV} {A B : List PV} {chunk : List Char} {base : Nat}
    (r : List (List Char) × Nat) (e : Env) (h : InnerRel P K A B chunk base r e) :
    ∃ e', Gen.repair_dna.k1 fuel e = .ok (.norm e') ∧ Const P e' ∧ Keep K e' ∧
      e'.repaired_fragment_set = .list (A ++ donePV r.1 :: B) ∧
      e'.visited_times = .int ((base + r.2 : Nat) : Int) := by
  obtain ⟨⟨hdna, hacc, hk, hchk, hind, hheap, hnuc⟩, ⟨hk1, hk2, hk3⟩, hidx, hchunk, hrfs, hvis⟩ := h
  simp only [Gen.repair_dna.k1, hidx, hrfs, pyIndex_list_mid, pyList_set, bnd_ok, pySetItem_list_mid]
  exact ⟨_, rfl, ⟨hdna, hacc, hk, hchk, hind, hheap, hnuc⟩, ⟨hk1, hk2, hk3⟩, rfl, hvis⟩

/-- the look-back loop followed by the conversion of the set into a list. -/
theorem for2_tail (fuel : Nat) {P : Params} (ha : P.a.WF) {K : PV × PV × PV} {A B : List PV} {chunk : List Char}
    {base : Nat} (marker : List Int) (hml : marker.length ≤ P.k)
    (hm : ∀ x ∈ marker, -(P.a.size : Int) ≤ x ∧ x < P.a.size) (e : Env)
    (h : InnerRel P K A B chunk base ([], 0) e) :
    Sim (fun (r : List (List Char) × Nat) e' => Const P e' ∧ Keep K e' ∧
          e'.repaired_fragment_set = .list (A ++ donePV r.1 :: B) ∧
          e'.visited_times = .int ((base + r.2 : Nat) : Int))
      (collectFragments P.a P.k P.dna chunk marker P.hasIndel)
      (seq (forLoop (Gen.repair_dna.for3_body fuel) (enumFrom 0 (marker.map PV.int).reverse) e)
        (Gen.repair_dna.k1 fuel)) := by
  have h3 := for3_loop fuel ha marker hml hm e h
  cases hcf : collectFragments P.a P.k P.dna chunk marker P.hasIndel with
  | error err =>
    rw [hcf] at h3
    rw [show forLoop _ _ e = .error err from h3]
    exact Sim.error rfl
  | ok r =>
    rw [hcf] at h3
    obtain ⟨e1, he1, hr1⟩ := h3
    rw [he1, seq_norm]
    obtain ⟨e2, he2, hr2⟩ := k1_spec fuel r e1 hr1
    exact Sim.ok he2 hr2

/-- the environment between two detections: the first `i` sets are finished lists, the others still empty sets. -/
def OuterRel (P : Params) (K : PV × PV × PV) (n i : Nat) (acc : List (List (List Char)) × Nat) (e : Env) : Prop :=
  Const P e ∧ Keep K e ∧ acc.1.length = i ∧
    e.repaired_fragment_set = .list (acc.1.map donePV ++ List.replicate (n - i) (.set [])) ∧
    e.visited_times = .int (acc.2 : Int)

/-- a detection as the loop sees it: `(chuck_sequence, index_marker)`. -/
def cmPV (cm : List Char × List Int) : PV := .tup [.str cm.1, markerPV cm.2]

/-- one detection. -/
theorem for2_spec (fuel : Nat) {P : Params} (ha : P.a.WF) {K : PV × PV × PV} {n i : Nat} (hi : i < n)
    (cm : List Char × List Int) (hml : cm.2.length ≤ P.k) (hm : ∀ x ∈ cm.2, -(P.a.size : Int) ≤ x ∧ x < P.a.size)
    (acc : List (List (List Char)) × Nat) (e : Env) (h : OuterRel P K n i acc e) :
    Sim (OuterRel P K n (i + 1)) (fragStep P.a P.k P.dna P.hasIndel acc cm)
      (Gen.repair_dna.for2_body fuel (.tup [.int (i : Int), cmPV cm]) e) := by
  obtain ⟨⟨hdna, hacc, hk, hchk, hind, hheap, hnuc⟩, ⟨hk1, hk2, hk3⟩, hlen, hrfs, hvis⟩ := h
  subst hlen
  have hrep : List.replicate (n - acc.1.length) (PV.set []) =
      .set [] :: List.replicate (n - acc.1.length - 1) (.set []) := by
    obtain ⟨m, hm⟩ : ∃ m, n - acc.1.length = m + 1 := ⟨n - acc.1.length - 1, by omega⟩
    rw [hm, List.replicate_succ]; rfl
  rw [hrep] at hrfs
  have hA : ∀ e0, InnerRel P K (acc.1.map donePV) (List.replicate (n - acc.1.length - 1) (.set [])) cm.1 acc.2
        ([], 0) e0 →
      Sim (OuterRel P K n (acc.1.length + 1)) (fragStep P.a P.k P.dna P.hasIndel acc cm)
        (seq (forLoop (Gen.repair_dna.for3_body fuel) (enumFrom 0 (cm.2.map PV.int).reverse) e0)
          (Gen.repair_dna.k1 fuel)) := fun e0 h0 => by
    unfold fragStep
    refine Sim.map (for2_tail fuel ha cm.2 hml hm e0 h0) ?_
    rintro r e' ⟨h1, h2, h3, h4⟩
    refine ⟨h1, h2, by simp, ?_, h4⟩
    rw [h3]
    simp only [List.map_append, List.map_cons, List.map_nil, List.append_assoc, List.singleton_append,
      Nat.sub_sub]
  simp only [Gen.repair_dna.for2_body, cmPV, markerPV, pyUnpack_two_tup, bnd_ok, getD_cons_zero', getD_cons_one',
    pyReverse_arr, pyEnumerate_arr, pyIter_list]
  apply hA
  refine ⟨⟨?_, ?_, ?_, ?_, ?_, ?_, ?_⟩, ⟨?_, ?_, ?_⟩, ?_, ?_, ?_, ?_⟩ <;>
    first | rfl | assumption | (simp only [List.length_map]) | (simp only [Nat.add_zero]; assumption)

/-- the loop over the detections computes the fragment fold. -/
theorem for2_loop (fuel : Nat) {P : Params} (ha : P.a.WF) {K : PV × PV × PV} (cms : List (List Char × List Int))
    (hcm : ∀ cm ∈ cms, cm.2.length ≤ P.k ∧ ∀ x ∈ cm.2, -(P.a.size : Int) ≤ x ∧ x < P.a.size)
    (v0 : Nat) (e : Env) (h : OuterRel P K cms.length 0 ([], v0) e) :
    Sim (OuterRel P K cms.length cms.length) (cms.foldlM (fragStep P.a P.k P.dna P.hasIndel) ([], v0))
      (forLoop (Gen.repair_dna.for2_body fuel) (enumFrom 0 (cms.map cmPV)) e) := by
  rw [← itemsFrom_enum, ← foldIdxM_const _ 0]
  have := forLoop_sim (OuterRel P K cms.length) (fun _ => fragStep P.a P.k P.dna P.hasIndel)
    (fun i cm => PV.tup [.int (i : Int), cmPV cm]) cms 0 ([], v0) e
    (fun i cm acc e' hmem _ hi hr =>
      for2_spec fuel ha (by omega) cm (hcm cm hmem).1 (hcm cm hmem).2 acc e' hr) h
  rw [Nat.zero_add] at this
  exact this

end Dsw.Tie.Repair
