import DswModel.Tie.PyLemmas
/-!
# Translation tie — `calculus_addition`

The definition `Dsw.Gen.calculus_addition` is generated from the Python source by
`harness/py2lean.py` on every run; this theorem states that on the function's contract
(a string of decimal digits and a one-digit operand) it computes exactly the model function
`Dsw.calculusAddition` the property theorems (C15, C16, C01 …) are about.

Proof plan: the column loop (`for1`, over `range(n-1, -1, -1)`) is tied to the model's
`foldr addStep` by induction on the number of columns still to do, with the invariant
`result = zeros(k) ++ [carry] ++ digits` (`AddInv`), `(carry, digits)` being the fold over the
columns `k … n-1` (`addSt`).  The inner `while sum_value > 0` loop (`while2`) runs exactly two
iterations (the column sum is in `10 … 19`), hence the fuel bound `3`.
-/
namespace Dsw.Tie
open Dsw Dsw.Py

namespace AddTie

/-! ### embedding of `list(number)`: a Python list of one-character strings -/

def charsPV (s : Dec) : PV := .list (s.map fun d => .str [digitChar d])

theorem pyList_dstr' (s : Dec) : pyList (dstr s) = .ok (charsPV s) := pyList_dstr s
theorem pyLen_charsPV (s : Dec) : pyLen (charsPV s) = .ok (.int s.length) := by simp [charsPV]
theorem pyIndex_charsPV {s : Dec} {i : Nat} (h : i < s.length) :
    pyIndex (charsPV s) (.int i) = .ok (.str [digitChar s[i]]) := by
  rw [charsPV, pyIndex_list_nat (by simpa using h)]; simp

/-- `[0 for _ in range(m)]`. -/
theorem pyMap_const_zero (m : Nat) :
    pyMap (fun _ => .ok (.int 0)) (.list ((List.range m).map fun (i : Nat) => PV.int (i : Int))) =
      .ok (natsPV (List.replicate m 0)) := by
  rw [pyMap_list_map (g := fun _ => PV.int 0) (by intros; rfl)]
  simp [natsPV, List.map_const']

/-! ### the shape of `result`: `zeros ++ [carry] ++ digits` -/

theorem pyIndex_result (k c : Nat) (ds : List Nat) :
    pyIndex (natsPV (List.replicate (k + 1) 0 ++ c :: ds)) (.int ((k + 1 : Nat) : Int)) = .ok (.int (c : Int)) := by
  rw [pyIndex_natsPV (by simp)]
  simp [List.getElem_append_right]

theorem set_result (k c v : Nat) (ds : List Nat) :
    (List.replicate (k + 1) 0 ++ c :: ds).set (k + 1) v = List.replicate k 0 ++ 0 :: v :: ds := by
  rw [List.set_append_right _ _ (by simp)]
  simp [List.replicate_succ']

theorem set_set_result (k c v w : Nat) (ds : List Nat) :
    ((List.replicate (k + 1) 0 ++ c :: ds).set (k + 1) v).set k w = List.replicate k 0 ++ w :: v :: ds := by
  rw [set_result, List.set_append_right _ _ (by simp)]
  simp

/-! ### model side -/

/-- the model state after the columns `k … n-1`. -/
def addSt (l : List (Nat × Nat)) (k : Nat) : Nat × List Nat := (l.drop k).foldr addStep (0, [])

theorem addSt_step {l : List (Nat × Nat)} {k : Nat} (h : k < l.length) :
    addSt l k = addStep l[k] (addSt l (k + 1)) := by
  unfold addSt; rw [List.drop_eq_getElem_cons h]; rfl

theorem addSt_length (l : List (Nat × Nat)) : addSt l l.length = (0, []) := by
  unfold addSt; rw [List.drop_length]; rfl

theorem addSt_zero (l : List (Nat × Nat)) : addSt l 0 = l.foldr addStep (0, []) := rfl

theorem foldr_addStep_bound (l : List (Nat × Nat)) (hl : ∀ p ∈ l, p.1 < 10 ∧ p.2 < 10) :
    (l.foldr addStep (0, [])).1 ≤ 1 ∧ Digits (l.foldr addStep (0, [])).2 := by
  induction l with
  | nil => simp
  | cons p r ih =>
    obtain ⟨h1, h2⟩ := ih (fun q hq => hl q (by simp [hq]))
    obtain ⟨hp1, hp2⟩ := hl p (by simp)
    simp only [List.foldr_cons, addStep, Digits_cons]
    exact ⟨by omega, by omega, h2⟩

theorem zip_digits {s bs : Dec} (hs : Digits s) (hbs : Digits bs) :
    ∀ p ∈ s.zip bs, p.1 < 10 ∧ p.2 < 10 := by
  intro p hp
  have := List.of_mem_zip (a := p.1) (b := p.2) hp
  exact ⟨hs _ this.1, hbs _ this.2⟩

theorem addSt_bound {s bs : Dec} (hs : Digits s) (hbs : Digits bs) (k : Nat) :
    (addSt (s.zip bs) k).1 ≤ 1 ∧ Digits (addSt (s.zip bs) k).2 :=
  foldr_addStep_bound _ fun p hp => zip_digits hs hbs p (List.mem_of_mem_drop hp)

/-! ### the inner `while` loop -/

theorem while2_body_spec (fuel : Nat) (e : Gen.calculus_addition.Env) (k f v : Nat) (L : List Nat)
    (hidx : e.index = .int (k : Int)) (hflag : e.flag = .int (f : Int))
    (hsum : e.sum_value = .int (v : Int)) (hres : e.result = natsPV L)
    (hf : f ≤ k + 1) (hL : k + 1 - f < L.length) :
    ∃ e', Gen.calculus_addition.while2_body fuel e = .ok (.norm e') ∧
      e'.number = e.number ∧ e'.base = e.base ∧ e'.index = .int (k : Int) ∧
      e'.flag = .int ((f + 1 : Nat) : Int) ∧ e'.sum_value = .int ((v / 10 : Nat) : Int) ∧
      e'.result = natsPV (L.set (k + 1 - f) (v % 10)) := by
  have hi : ((k : Int) + 1 - (f : Int)) = ((k + 1 - f : Nat) : Int) := by omega
  have hf1 : ((f : Int) + 1) = ((f + 1 : Nat) : Int) := by push_cast; rfl
  simp only [Gen.calculus_addition.while2_body, hidx, hflag, hsum, hres, pyMod_nat_ten, pyAdd_int, pySub_int,
    hi, pySetItem_natsPV hL, pyFloorDiv_nat_ten, bnd_ok, hf1]
  exact ⟨_, rfl, rfl, rfl, rfl, rfl, rfl, rfl⟩

theorem while2_cond_spec (fuel : Nat) (e : Gen.calculus_addition.Env) (v : Nat)
    (hsum : e.sum_value = .int (v : Int)) :
    Gen.calculus_addition.while2_cond fuel e = .ok (decide (0 < v)) := by
  simp only [Gen.calculus_addition.while2_cond, hsum, pyGt_nat_zero]

theorem while2_loop (fuel : Nat) (hfuel : 3 ≤ fuel) (e : Gen.calculus_addition.Env) (k v : Nat) (L : List Nat)
    (hidx : e.index = .int (k : Int)) (hflag : e.flag = .int 0)
    (hsum : e.sum_value = .int (v : Int)) (hres : e.result = natsPV L)
    (hv1 : 10 ≤ v) (hv2 : v < 20) (hL : k + 1 < L.length) (Q : Gen.calculus_addition.Env → Prop)
    (hQ : ∀ e', e'.number = e.number → e'.base = e.base →
      e'.result = natsPV ((L.set (k + 1) (v % 10)).set k 1) → Q e') :
    ∃ e', whileLoop (Gen.calculus_addition.while2_cond fuel) (Gen.calculus_addition.while2_body fuel) fuel e =
        .ok (.norm e') ∧ Q e' := by
  obtain ⟨g, rfl⟩ : ∃ g, fuel = g + 3 := ⟨fuel - 3, by omega⟩
  obtain ⟨e1, hb1, hn1, hbs1, hi1, hf1, hs1, hr1⟩ :=
    while2_body_spec (g + 3) e k 0 v L hidx hflag hsum hres (by omega) (by simpa using hL)
  obtain ⟨e2, hb2, hn2, hbs2, hi2, hf2, hs2, hr2⟩ :=
    while2_body_spec (g + 3) e1 k (0 + 1) (v / 10) _ hi1 hf1 hs1 hr1 (by omega) (by simp; omega)
  have hc1 : Gen.calculus_addition.while2_cond (g + 3) e = .ok true := by
    rw [while2_cond_spec _ e v hsum]; simp; omega
  have hc2 : Gen.calculus_addition.while2_cond (g + 3) e1 = .ok true := by
    rw [while2_cond_spec _ e1 _ hs1]; simp; omega
  have hc3 : Gen.calculus_addition.while2_cond (g + 3) e2 = .ok false := by
    rw [while2_cond_spec _ e2 _ hs2]; simp; omega
  refine ⟨e2, ?_, hQ e2 (by rw [hn2, hn1]) (by rw [hbs2, hbs1]) ?_⟩
  · rw [whileLoop_true_norm hc1 hb1, whileLoop_true_norm hc2 hb2, whileLoop_false hc3]
  · have h10 : v / 10 % 10 = 1 := by omega
    rw [hr2, h10]; rfl

/-! ### the column loop -/

/-- invariant before the column `k - 1` (columns `k … n-1` done). -/
def AddInv (s bs : Dec) (k : Nat) (e : Gen.calculus_addition.Env) : Prop :=
  e.number = charsPV s ∧ e.base = charsPV bs ∧
    e.result = natsPV (List.replicate k 0 ++ (addSt (s.zip bs) k).1 :: (addSt (s.zip bs) k).2)

theorem for1_body_spec (fuel : Nat) (hfuel : 3 ≤ fuel) (s bs : Dec) (hs : Digits s) (hbs : Digits bs)
    (hlen : s.length ≤ bs.length) (k : Nat) (hk : k < s.length) (e : Gen.calculus_addition.Env)
    (h : AddInv s bs (k + 1) e) :
    ∃ e', Gen.calculus_addition.for1_body fuel (.int (k : Int)) e = .ok (.norm e') ∧ AddInv s bs k e' := by
  obtain ⟨hnum, hbase, hres⟩ := h
  have hk' : k < bs.length := by omega
  have hkz : k < (s.zip bs).length := by simp; omega
  have hstep : addSt (s.zip bs) k = addStep (s[k], bs[k]) (addSt (s.zip bs) (k + 1)) := by
    rw [addSt_step hkz, List.getElem_zip]
  obtain ⟨hc, _⟩ := addSt_bound hs hbs (k + 1)
  generalize addSt (s.zip bs) (k + 1) = st at hres hstep hc
  obtain ⟨c, ds⟩ := st
  have hx : s[k] < 10 := hs.getElem k hk
  have hy : bs[k] < 10 := hbs.getElem k hk'
  have hk1 : ((k : Int) + 1) = ((k + 1 : Nat) : Int) := by push_cast; rfl
  have hcast : ((s[k] : Int) + (bs[k] : Int) + (c : Int)) = ((s[k] + bs[k] + c : Nat) : Int) := by
    push_cast; rfl
  simp only [Gen.calculus_addition.for1_body, hnum, hbase, hres, pyIndex_charsPV hk, pyIndex_charsPV hk',
    pyInt_digit hx, pyInt_digit hy, bnd_ok, pyAdd_int, hk1, pyIndex_result, pyInt_int, hcast, pyLt_nat_ten]
  simp only [AddInv, hstep, addStep]
  by_cases hlt : s[k] + bs[k] + c < 10
  · have hL : k + 1 < (List.replicate (k + 1) 0 ++ c :: ds).length := by simp
    simp only [hlt, decide_true, if_true, pySetItem_natsPV hL, bnd_ok, set_result]
    refine ⟨_, rfl, rfl, rfl, ?_⟩
    have h1 : (s[k] + bs[k] + c) / 10 = 0 := by omega
    have h2 : (s[k] + bs[k] + c) % 10 = s[k] + bs[k] + c := by omega
    rw [h1, h2]
  · simp only [hlt, decide_false, Bool.false_eq_true, if_false]
    have hc' : c ≤ 1 := hc
    refine while2_loop fuel hfuel _ k (s[k] + bs[k] + c) (List.replicate (k + 1) 0 ++ c :: ds)
      (by rfl) (by rfl) (by rfl) (by rfl) (by omega) (by omega) (by simp) _ ?_
    intro e' hn' hb' hr'
    have h1 : (s[k] + bs[k] + c) / 10 = 1 := by omega
    exact ⟨hn', hb', by rw [hr', set_set_result, h1]⟩

theorem for1_loop (fuel : Nat) (hfuel : 3 ≤ fuel) (s bs : Dec) (hs : Digits s) (hbs : Digits bs)
    (hlen : s.length ≤ bs.length) (k : Nat) (hk : k ≤ s.length) (e : Gen.calculus_addition.Env)
    (h : AddInv s bs k e) :
    ∃ e', forLoop (Gen.calculus_addition.for1_body fuel)
        ((List.range k).reverse.map fun (i : Nat) => PV.int (i : Int)) e = .ok (.norm e') ∧
      AddInv s bs 0 e' := by
  induction k generalizing e with
  | zero => exact ⟨e, rfl, h⟩
  | succ k ih =>
    obtain ⟨e1, hb, h1⟩ := for1_body_spec fuel hfuel s bs hs hbs hlen k (by omega) e h
    obtain ⟨e2, hl, h2⟩ := ih (by omega) e1 h1
    refine ⟨e2, ?_, h2⟩
    rw [List.range_succ, List.reverse_append, List.reverse_singleton, List.singleton_append, List.map_cons,
      forLoop_cons_norm hb, hl]

/-! ### the continuations -/

/-- `k1`: join the digits, drop one leading zero. -/
theorem k1_spec (fuel : Nat) (e : Gen.calculus_addition.Env) (c : Nat) (ds : List Nat) (hc : c < 10)
    (hds : Digits ds) (hres : e.result = natsPV (c :: ds)) :
    Gen.calculus_addition.k1 fuel e =
      .ok (.ret (dstr (if (c :: ds).head? = some 0 then (c :: ds).tail else c :: ds))) := by
  have hd : Digits (c :: ds) := Digits_cons.mpr ⟨hc, hds⟩
  simp only [Gen.calculus_addition.k1, hres, join_map_str_natsPV hd, bnd_ok, pyIndex_dstr_cons_zero, pyNe_def,
    eqb_digit_lit_zero hc, pySliceV_dstr_from_one]
  by_cases h0 : c = 0
  · simp [h0]
  · simp [h0]

theorem body_spec (fuel : Nat) (hfuel : 3 ≤ fuel) (s : Dec) (b : Nat) (hs : Digits s) (hb : b < 10)
    (e : Gen.calculus_addition.Env) (hnum : e.number = dstr s) (hbase : e.base = dstr [b]) :
    Gen.calculus_addition.body fuel e = .ok (.ret (dstr (calculusAddition s b))) := by
  have hbd : Digits [b] := Digits_singleton.mpr hb
  have hbs : Digits (List.replicate (s.length - 1) 0 ++ [b]) :=
    Digits_append.mpr ⟨Digits_replicate (by omega), hbd⟩
  have hlen : s.length ≤ (List.replicate (s.length - 1) 0 ++ [b]).length := by simp; omega
  have hn1 : ((s.length : Int) + 1) = ((s.length + 1 : Nat) : Int) := by push_cast; rfl
  simp only [Gen.calculus_addition.body, hnum, hbase, pyList_dstr', pyLen_dstr, pyZfill_dstr hbd, bnd_ok,
    List.length_singleton, pyLen_charsPV, pyAdd_int, hn1, pyRange1_nat, pyMap_const_zero, pySub_int,
    pyRange3_down, pyIter_list]
  apply seq_eq_of_norm (AddInv s (List.replicate (s.length - 1) 0 ++ [b]) 0)
  · refine for1_loop fuel hfuel s _ hs hbs hlen s.length (Nat.le_refl _) _ ⟨rfl, rfl, ?_⟩
    have hz : ((s.zip (List.replicate (s.length - 1) 0 ++ [b])).length) = s.length := by simp; omega
    have := addSt_length (s.zip (List.replicate (s.length - 1) 0 ++ [b]))
    rw [hz] at this
    rw [this]
    show natsPV (List.replicate (s.length + 1) 0) = _
    rw [List.replicate_succ']
  · intro e1 ⟨_, _, hres⟩
    obtain ⟨hc, hds⟩ := addSt_bound hs hbs 0
    rw [k1_spec fuel e1 (addSt (s.zip (List.replicate (s.length - 1) 0 ++ [b])) 0).1 _ (by omega) hds (by exact hres)]
    rfl

end AddTie

open AddTie in
theorem tie_calculus_addition (s : Dec) (b fuel : Nat) (hs : Digits s) (hb : b < 10) (hf : 3 ≤ fuel) :
    Gen.calculus_addition fuel (dstr s) (dstr [b]) = .ok (dstr (calculusAddition s b)) := by
  rw [Gen.calculus_addition, body_spec fuel hf s b hs hb _ rfl rfl]; rfl

end Dsw.Tie
