import DswModel.Tie.NpLemmas
import DswModel.Tie.ViewDefs
import DswModel.Tie.GzViewsVert
import DswModel.Tie.GzViewsTrim
import DswModel.Tie.GzViewsLeaf
/-!
# Translation tie — the graph views of dsw/graphized.py
`obtain_vertices`, `accessor_to_latter_map`, `remove_useless`, `latter_map_to_accessor`, `obtain_leaf_vertices`

The generated definitions compute the model functions `obtainVertices`, `accessorToLatterMap`, `removeUseless`,
`latterMapToAccessor`, `obtainLeafVertices` (dicts are insertion-ordered lists of distinct keys on both sides).

The proofs are in `GzViewsLib` (dict / NumPy lemmas), `GzViewsVert` (`obtain_vertices`,
`accessor_to_latter_map`), `GzViewsTrim` (`remove_useless`, `latter_map_to_accessor`), `GzViewsLeaf`
(`obtain_leaf_vertices`).
-/
namespace Dsw.Tie
open Dsw Dsw.Py

theorem tie_obtain_vertices (a : Acc) (fuel : Nat) (ha : a.WF) :
    Gen.obtain_vertices fuel (accPV a) = .ok (idxArrPV (obtainVertices a)) := by
  have _ := ha  -- (well-formedness is not needed: the expression only counts the entries different from `-1`)
  exact GzV.obtain_vertices_tie a fuel

theorem tie_accessor_to_latter_map (a : Acc) (fuel : Nat) (verbose : Bool) (ha : a.WF) :
    Gen.accessor_to_latter_map fuel (accPV a) (.bool verbose) = .ok (lmapPV (accessorToLatterMap a)) :=
  GzV.accessor_to_latter_map_tie a fuel verbose ha

theorem tie_remove_useless (m r : LMap) (t fuel : Nat) (verbose : Bool) (hm : LMap.KeysNodup m)
    (h : removeUseless m t = .ok r) (hf : m.arcs + 2 ≤ fuel) :
    Gen.remove_useless fuel (lmapPV m) (.int (t : Int)) (.bool verbose) = .ok (lmapPV r) :=
  GzV.remove_useless_tie m r t fuel (.bool verbose) hm h hf

theorem tie_latter_map_to_accessor_plain (m : LMap) (k fuel : Nat) (verbose : Bool) (hm : LMap.KeysNodup m)
    (hk : ∀ p ∈ m, p.1 < 4 ^ k) :
    Gen.latter_map_to_accessor fuel (lmapPV m) (.int (k : Int)) .none (.bool verbose) =
      (latterMapToAccessor m k Option.none).map accPV := by
  have _ := hm  -- (distinct keys are not needed when the map is only read)
  exact GzV.lma_plain_tie m k fuel (.bool verbose) hk

theorem tie_latter_map_to_accessor_trim (m : LMap) (k t fuel : Nat) (verbose : Bool) (hm : LMap.KeysNodup m)
    (hk : ∀ p ∈ m, p.1 < 4 ^ k) (hf : m.arcs + 2 ≤ fuel) :
    Gen.latter_map_to_accessor fuel (lmapPV m) (.int (k : Int)) (.int (t : Int)) (.bool verbose) =
      (latterMapToAccessor m k (some t)).map accPV :=
  GzV.lma_trim_tie m k t fuel (.bool verbose) hm hk hf

theorem tie_obtain_leaf_vertices_acc (a : Acc) (v depth fuel : Nat) (ha : a.WF) (hv : v < a.size) :
    Gen.obtain_leaf_vertices fuel (.int (v : Int)) (.int (depth : Int)) (accPV a) .none =
      (obtainLeafVertices v depth (some a) Option.none).map idxArrPV :=
  GzV.leaf_acc_tie a v depth fuel ha hv

theorem tie_obtain_leaf_vertices_map (m : LMap) (v depth fuel : Nat) (hm : LMap.KeysNodup m) :
    Gen.obtain_leaf_vertices fuel (.int (v : Int)) (.int (depth : Int)) .none (lmapPV m) =
      (obtainLeafVertices v depth Option.none (some m)).map idxArrPV := by
  have _ := hm  -- (distinct keys are not needed when the map is only read)
  exact GzV.leaf_map_tie m v depth fuel

theorem tie_obtain_leaf_vertices_bad (a : Acc) (m : LMap) (v depth fuel : Nat) :
    Gen.obtain_leaf_vertices fuel (.int (v : Int)) (.int (depth : Int)) (accPV a) (lmapPV m) = .error .valueError ∧
    Gen.obtain_leaf_vertices fuel (.int (v : Int)) (.int (depth : Int)) .none .none = .error .valueError :=
  GzV.leaf_bad a m v depth fuel

end Dsw.Tie
