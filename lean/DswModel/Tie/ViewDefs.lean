import DswModel.Tie.SpiderwebDefs
import DswModel.Gen.Graphized
/-!
# DswModel.Tie.ViewDefs — latter maps and vertex lists as the Python values the code handles
-/
namespace Dsw.Tie
open Dsw Dsw.Py

/-- a latter map as the insertion-ordered `dict` from vertex to successor list. -/
def lmapPV (m : LMap) : PV :=
  .dict (m.map fun p => .int (p.1 : Int)) (m.map fun p => natsPV p.2)

/-- a list of vertex indices as a one-dimensional NumPy integer array. -/
def idxArrPV (l : List Nat) : PV := .arr (l.map fun (v : Nat) => .int (v : Int))

/-- `None` or an accessor / a latter map (keyword arguments of `obtain_leaf_vertices`). -/
def optAccPV : Option Acc → PV
  | Option.none => .none
  | some a => accPV a

def optLmapPV : Option LMap → PV
  | Option.none => .none
  | some m => lmapPV m

/-- the keys of a latter map are distinct (it is a `dict`). -/
def LMap.KeysNodup (m : LMap) : Prop := (m.map (·.1)).Nodup

end Dsw.Tie

namespace Dsw.Tie
open Dsw Dsw.Py

/-- a score table as the two-dimensional NumPy integer array the code returns. -/
def scoresPV (sc : Array (Array Nat)) : PV :=
  .arr (sc.toList.map fun r => .arr (r.toList.map fun (x : Nat) => .int (x : Int)))

end Dsw.Tie
