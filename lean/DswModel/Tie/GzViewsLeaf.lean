import DswModel.Tie.GzViewsLib
/-!
# Translation tie — `obtain_leaf_vertices` (dsw/graphized.py)
-/
namespace Dsw.Tie.GzV
open Dsw Dsw.Py Dsw.Tie

abbrev LEnv := Gen.obtain_leaf_vertices.Env

theorem foldl_append_singleton {α} (l init : List α) :
    l.foldl (fun acc x => acc ++ [x]) init = init ++ l := by
  rw [foldl_append_flatMap (fun x => [x])]; simp

/-! ### through an accessor -/

def LevRel (a : Acc) (lv : List Nat) (e : LEnv) : Prop := e.accessor = accPV a ∧ e.level = natsPV lv

theorem leaf_for2_body {a : Acc} (ha : a.WF) (fuel : Nat) (x : Nat) (hx : x < a.size) (lv : List Nat) (e : LEnv)
    (h : LevRel a lv e) :
    ∃ e', Gen.obtain_leaf_vertices.for2_body fuel (.int (x : Int)) e = .ok (.norm e') ∧
      LevRel a (lv ++ a.liveEntries (x : Int)) e' := by
  obtain ⟨h1, h2⟩ := h
  simp only [Gen.obtain_leaf_vertices.for2_body, h1, pyIndex_accPV_nat hx, bnd_ok, acc_live_tolist ha hx, h2,
    npAdd_natsPV]
  exact ⟨_, rfl, by first | rfl | exact h1, rfl⟩

def BrRel (a : Acc) (br : List Nat) (e : LEnv) : Prop :=
  e.accessor = accPV a ∧ e.branch = natsPV br ∧ ∀ v ∈ br, v < a.size

theorem leaf_for1_body {a : Acc} (ha : a.WF) (fuel : Nat) (x : PV) (br : List Nat) (e : LEnv)
    (h : BrRel a br e) :
    ∃ e', Gen.obtain_leaf_vertices.for1_body fuel x e = .ok (.norm e') ∧
      BrRel a (br.flatMap fun (v : Nat) => a.liveEntries (v : Int)) e' := by
  obtain ⟨h1, h2, h3⟩ := h
  simp only [Gen.obtain_leaf_vertices.for1_body, h2, pyIter_natsPV, bnd_ok]
  apply seq_exists (LevRel a (br.foldl (fun lv (x : Nat) => lv ++ a.liveEntries (x : Int)) []))
  · exact forLoop_rel_map (LevRel a) _ (fun (v : Nat) => PV.int (v : Int))
      (fun x hx st e he => leaf_for2_body ha fuel x (h3 x hx) st e he) ⟨by exact h1, rfl⟩
  · intro e1 h
    rw [foldl_append_flatMap, List.nil_append] at h
    refine ⟨_, rfl, h.1, h.2, ?_⟩
    intro w hw
    obtain ⟨v, hv, hwv⟩ := List.mem_flatMap.mp hw
    exact liveEntries_lt ha (h3 v hv) hwv

theorem leaf_acc_tie (a : Acc) (v depth fuel : Nat) (ha : a.WF) (hv : v < a.size) :
    Gen.obtain_leaf_vertices fuel (.int (v : Int)) (.int (depth : Int)) (accPV a) .none =
      .ok (idxArrPV (leafAcc a depth [v])) := by
  have hconv : leafAcc a depth [v] = (List.range depth).foldl
      (fun br (_ : Nat) => br.flatMap fun (v : Nat) => a.liveEntries (v : Int)) [v] := by
    rw [foldl_const_iterate (fun br => br.flatMap fun (v : Nat) => a.liveEntries (v : Int)) (List.range depth) [v]
      (fun n s => leafAcc a n s) (fun _ => rfl) (fun _ _ => rfl), List.length_range]
  rw [hconv]
  simp only [Gen.obtain_leaf_vertices, Gen.obtain_leaf_vertices.body, Gen.obtain_leaf_vertices.k4,
    pyIsNone_accPV, pyIsNone_none, Bool.not_false, Bool.not_true, bnd_ok, ↓reduceIte, Bool.false_eq_true,
    seq_norm, pyRange1_nat, pyIter_list]
  apply callResult_seq_of_norm (BrRel a ((List.range depth).foldl
      (fun br (_ : Nat) => br.flatMap fun (v : Nat) => a.liveEntries (v : Int)) [v]))
  · exact forLoop_rel_map (BrRel a) _ (fun (i : Nat) => PV.int (i : Int))
      (fun i _ st e he => leaf_for1_body ha fuel _ st e he)
      ⟨rfl, rfl, fun w hw => by rw [List.mem_singleton.mp hw]; exact hv⟩
  · intro e' h
    simp only [Gen.obtain_leaf_vertices.k3, h.2.1, npArray_natsPV, bnd_ok, callResult_ret]
    rfl

/-! ### through a latter map -/

def MLevRel (m : LMap) (lv : List Nat) (e : LEnv) : Prop := e.latter_map = lmapPV m ∧ e.level = natsPV lv

theorem leaf_for5_body (m : LMap) (fuel : Nat) (w : Nat) (lv : List Nat) (e : LEnv) (h : MLevRel m lv e) :
    ∃ e', Gen.obtain_leaf_vertices.for5_body fuel (.int (w : Int)) e = .ok (.norm e') ∧
      MLevRel m (lv ++ [w]) e' := by
  obtain ⟨h1, h2⟩ := h
  simp only [Gen.obtain_leaf_vertices.for5_body, h2, pyAppend_natsPV, bnd_ok]
  exact ⟨_, rfl, h1, rfl⟩

theorem leaf_for4_body (m : LMap) (fuel : Nat) (x : Nat) (lv : List Nat) (e : LEnv) (h : MLevRel m lv e) :
    ∃ e', Gen.obtain_leaf_vertices.for4_body fuel (.int (x : Int)) e = .ok (.norm e') ∧
      MLevRel m (lv ++ (LMap.get? m x).getD []) e' := by
  obtain ⟨h1, h2⟩ := h
  simp only [Gen.obtain_leaf_vertices.for4_body, h1, pyIn_lmapPV, bnd_ok]
  cases hg : LMap.get? m x with
  | none =>
    simp only [Option.isSome_none, Bool.false_eq_true, ↓reduceIte, Option.getD_none, List.append_nil]
    exact ⟨_, rfl, by first | rfl | exact h1, by first | rfl | exact h2⟩
  | some l =>
    simp only [Option.isSome_some, ↓reduceIte, pyIndex_lmapPV hg, bnd_ok, pyIter_natsPV, Option.getD_some]
    rw [← foldl_append_singleton l lv]
    exact forLoop_rel_map (MLevRel m) _ (fun (v : Nat) => PV.int (v : Int))
      (fun w _ st e he => leaf_for5_body m fuel w st e he)
      ⟨by first | rfl | exact h1, by first | rfl | exact h2⟩

def MBrRel (m : LMap) (br : List Nat) (e : LEnv) : Prop := e.latter_map = lmapPV m ∧ e.branch = natsPV br

theorem leaf_for3_body (m : LMap) (fuel : Nat) (x : PV) (br : List Nat) (e : LEnv) (h : MBrRel m br e) :
    ∃ e', Gen.obtain_leaf_vertices.for3_body fuel x e = .ok (.norm e') ∧
      MBrRel m (br.flatMap fun v => (LMap.get? m v).getD []) e' := by
  obtain ⟨h1, h2⟩ := h
  simp only [Gen.obtain_leaf_vertices.for3_body, h2, pyIter_natsPV, bnd_ok]
  apply seq_exists (MLevRel m (br.foldl (fun lv (x : Nat) => lv ++ (LMap.get? m x).getD []) []))
  · exact forLoop_rel_map (MLevRel m) _ (fun (v : Nat) => PV.int (v : Int))
      (fun x _ st e he => leaf_for4_body m fuel x st e he) ⟨by exact h1, rfl⟩
  · intro e1 h
    rw [foldl_append_flatMap, List.nil_append] at h
    exact ⟨_, rfl, h.1, h.2⟩

theorem leaf_map_tie (m : LMap) (v depth fuel : Nat) :
    Gen.obtain_leaf_vertices fuel (.int (v : Int)) (.int (depth : Int)) .none (lmapPV m) =
      .ok (idxArrPV (leafMap m depth [v])) := by
  have hconv : leafMap m depth [v] = (List.range depth).foldl
      (fun br (_ : Nat) => br.flatMap fun v => (LMap.get? m v).getD []) [v] := by
    rw [foldl_const_iterate (fun br => br.flatMap fun v => (LMap.get? m v).getD []) (List.range depth) [v]
      (fun n s => leafMap m n s) (fun _ => rfl) (fun _ _ => rfl), List.length_range]
  rw [hconv]
  simp only [Gen.obtain_leaf_vertices, Gen.obtain_leaf_vertices.body, Gen.obtain_leaf_vertices.k4,
    pyIsNone_lmapPV, pyIsNone_none, Bool.not_false, Bool.not_true, bnd_ok, ↓reduceIte, Bool.false_eq_true,
    seq_norm, pyRange1_nat, pyIter_list]
  apply callResult_seq_of_norm (MBrRel m ((List.range depth).foldl
      (fun br (_ : Nat) => br.flatMap fun v => (LMap.get? m v).getD []) [v]))
  · exact forLoop_rel_map (MBrRel m) _ (fun (i : Nat) => PV.int (i : Int))
      (fun i _ st e he => leaf_for3_body m fuel _ st e he) ⟨rfl, rfl⟩
  · intro e' h
    simp only [Gen.obtain_leaf_vertices.k3, h.2, npArray_natsPV, bnd_ok, callResult_ret]
    rfl

theorem leaf_bad (a : Acc) (m : LMap) (v depth fuel : Nat) :
    Gen.obtain_leaf_vertices fuel (.int (v : Int)) (.int (depth : Int)) (accPV a) (lmapPV m) = .error .valueError ∧
    Gen.obtain_leaf_vertices fuel (.int (v : Int)) (.int (depth : Int)) .none .none = .error .valueError := by
  constructor <;> rfl

end Dsw.Tie.GzV
