import DswModel.Tie.NpLemmas
import DswModel.Tie.RepairDefs
import DswModel.Tie.SwVt
import DswModel.Tie.OpDna
import DswModel.Gen.Graphized
/-!
TEMPORARY development stub (removed before the library is finished): the statement of the `path_matching` tie.
-/
namespace Dsw.Tie.Stub
open Dsw Dsw.Py Dsw.Tie

theorem tie_path_matching (a : Acc) (chunk : List Char) (prev : Int) (occ : Nat) (hasIndel : Bool) (fuel : Nat)
    (ha : a.WF) (hp : -(a.size : Int) ≤ prev ∧ prev < a.size) :
    Gen.path_matching fuel (cstr chunk) (accPV a) (.int prev) (.int (occ : Int)) (.bool hasIndel) .none =
      (pathMatching a chunk prev occ hasIndel).map pmResultPV := by
  sorry

end Dsw.Tie.Stub
