import DswModel.Tie.GzScore
import DswModel.Tie.GzViews
import DswModel.Tie.SpiderwebDefs
import DswModel.Lemmas.Removal
import DswModel.Lemmas.Digit
/-!
# DswModel.Tie.SwRemoveLib — computation lemmas for the NumPy / `collections` idioms of `remove_nasty_arc`
-/
namespace Dsw.Tie.SwR
open Dsw Dsw.Py Dsw.Tie

/-! ## the integer logarithm -/

theorem natLogFuel_four_pow (k : Nat) : ∀ f, k < f → natLogFuel 4 f (4 ^ k) = k := by
  induction k with
  | zero =>
    intro f hf
    obtain ⟨f', rfl⟩ : ∃ f', f = f' + 1 := ⟨f - 1, by omega⟩
    simp [natLogFuel]
  | succ k ih =>
    intro f hf
    obtain ⟨f', rfl⟩ : ∃ f', f = f' + 1 := ⟨f - 1, by omega⟩
    have h4 : ¬ 4 ^ (k + 1) < 4 := by
      have : 0 < 4 ^ k := Nat.pow_pos (by omega)
      rw [Nat.pow_succ]; omega
    have hd : 4 ^ (k + 1) / 4 = 4 ^ k := by rw [Nat.pow_succ]; omega
    simp only [natLogFuel, h4, if_false, hd, ih f' (by omega)]
    omega

theorem log4_four_pow (k : Nat) : log4 (4 ^ k) = k := by
  have h : (4 : Nat) ^ k = 2 ^ (2 * k) := by rw [Nat.pow_mul]
  unfold log4
  rw [h, Nat.log2_two_pow]; omega

theorem pyIntLogRatio_four_pow (k : Nat) :
    pyIntLogRatio (.int ((4 ^ k : Nat) : Int)) (.int 4) = .ok (.int (k : Int)) := by
  have hpos : 0 < 4 ^ k := Nat.pow_pos (by omega)
  have hlt : k < 4 ^ k := Nat.lt_pow_self (by omega)
  have hc : ¬ (((4 ^ k : Nat) : Int) ≤ 0 ∨ (4 : Int) ≤ 1) := by omega
  simp only [pyIntLogRatio, asInt?_int, hc, if_false, Int.toNat_natCast]
  rw [show (4 : Int).toNat = 4 from rfl, natLogFuel_four_pow k _ hlt]

/-! ## the score table as a list of rows -/

/-- a two-dimensional array of naturals. -/
def matN (rows : List (List Nat)) : PV := .arr (rows.map fun r => .arr (r.map fun (x : Nat) => .int (x : Int)))

theorem scoresPV_eq (sc : Array (Array Nat)) : scoresPV sc = matN (sc.toList.map Array.toList) := by
  simp only [scoresPV, matN, List.map_map, Function.comp_def]

theorem foldl_max_cast (xs : List Nat) (x : Nat) :
    (xs.map fun (n : Nat) => (n : Int)).foldl max (x : Int) = ((xs.foldl max x : Nat) : Int) := by
  induction xs generalizing x with
  | nil => rfl
  | cons y ys ih =>
    rw [List.map_cons, List.foldl_cons, List.foldl_cons, ← ih]
    congr 1; omega

theorem mapM_rows (f : PV → Option (List Int))
    (hf : ∀ r : List Nat, f (.arr (r.map fun (x : Nat) => PV.int (x : Int))) = some (r.map fun (n : Nat) => (n : Int)))
    (rows : List (List Nat)) :
    (rows.map fun r => PV.arr (r.map fun (x : Nat) => PV.int (x : Int))).mapM f =
      some (rows.map fun r => r.map fun (n : Nat) => (n : Int)) := by
  induction rows with
  | nil => rfl
  | cons r rs ih => rw [List.map_cons, List.mapM_cons, hf, ih]; rfl

theorem flattenInts_matN (rows : List (List Nat)) :
    flattenInts (matN rows) = some (rows.flatten.map fun (n : Nat) => (n : Int)) := by
  simp only [flattenInts, matN]
  rw [mapM_rows _ (fun r => mapM_asInt?_nats r), Option.map_some, List.map_flatten]

/-- `max(scores)`. -/
theorem npMax_matN {rows : List (List Nat)} (h : rows.flatten ≠ []) :
    npMax (matN rows) = .ok (.int ((rows.flatten.foldl max 0 : Nat) : Int)) := by
  rw [npMax, flattenInts_matN]
  cases hf : rows.flatten with
  | nil => exact absurd hf h
  | cons x xs =>
    simp only [List.map_cons, List.foldl_cons, foldl_max_cast, Nat.zero_max]

/-- `scores == mx`. -/
theorem npCmp_matN (c : PV → PV → R Bool) (b : Int) (p : Nat → Bool)
    (h : ∀ x : Nat, c (.int x) (.int b) = .ok (p x)) (rows : List (List Nat)) :
    npCmp c (matN rows) (.int b) = .ok (.arr (rows.map fun r => .arr (r.map fun x => .bool (p x)))) := by
  rw [matN, npCmp, arrBroadcast_map_int (g := fun (r : List Nat) => PV.arr (r.map fun x => .bool (p x)))]
  intro r
  show arrBroadcast (liftCmp c) (.arr (r.map fun (x : Nat) => .int (x : Int))) (.int b) = _
  rw [arrBroadcast_map_int (g := fun x => PV.bool (p x))]
  intro x; rw [liftCmp_def, h]; rfl

/-! ## `where` on a two-dimensional array of bools -/

/-- the row index of every cell that satisfies `p`, row-major. -/
def rowIdx (p : Nat → Bool) : List (List Nat) → Nat → List Nat
  | [], _ => []
  | r :: rs, i => List.replicate (r.filter p).length i ++ rowIdx p rs (i + 1)

theorem length_trueIdx_map_bool (p : Nat → Bool) (r : List Nat) (j : Nat) :
    (trueIdx (r.map fun x => .bool (p x)) j).length = (r.filter p).length := by
  induction r generalizing j with
  | nil => rfl
  | cons x xs ih =>
    rw [List.map_cons, trueIdx_cons_bool, List.filter_cons]
    cases p x <;> simp [ih]

theorem trueIdx2_bools (p : Nat → Bool) (rows : List (List Nat)) (i : Nat) :
    (trueIdx2 (rows.map fun r => .arr (r.map fun x => .bool (p x))) i).1 =
      (rowIdx p rows i).map fun (n : Nat) => PV.int (n : Int) := by
  induction rows generalizing i with
  | nil => rfl
  | cons r rs ih =>
    simp only [List.map_cons, trueIdx2, rowIdx, ih, List.map_append, List.map_replicate]
    rw [List.map_const', length_trueIdx_map_bool]

theorem mem_rowIdx (p : Nat → Bool) (rows : List (List Nat)) (i v : Nat) :
    v ∈ rowIdx p rows i ↔ i ≤ v ∧ ∃ r, rows[v - i]? = some r ∧ r.any p = true := by
  induction rows generalizing i with
  | nil => simp [rowIdx]
  | cons r rs ih =>
    simp only [rowIdx, List.mem_append, List.mem_replicate, ih]
    constructor
    · rintro (⟨hn, rfl⟩ | ⟨hle, r', hr', hp⟩)
      · refine ⟨Nat.le_refl _, r, by simp, ?_⟩
        rw [List.any_eq_true]
        have : 0 < (r.filter p).length := Nat.pos_of_ne_zero hn
        obtain ⟨x, hx⟩ := List.exists_mem_of_length_pos this
        exact ⟨x, (List.mem_filter.mp hx).1, (List.mem_filter.mp hx).2⟩
      · refine ⟨by omega, r', ?_, hp⟩
        have : v - i = (v - (i + 1)) + 1 := by omega
        rw [this, List.getElem?_cons_succ]; exact hr'
    · rintro ⟨hle, r', hr', hp⟩
      by_cases hv : v = i
      · subst hv
        left
        rw [Nat.sub_self, List.getElem?_cons_zero, Option.some.injEq] at hr'
        subst hr'
        refine ⟨?_, rfl⟩
        rw [List.any_eq_true] at hp
        obtain ⟨x, hx, hpx⟩ := hp
        have : x ∈ r.filter p := List.mem_filter.mpr ⟨hx, hpx⟩
        exact List.length_pos_iff.mpr (List.ne_nil_of_mem this) |> Nat.ne_of_gt
      · right
        refine ⟨by omega, r', ?_, hp⟩
        have : v - i = (v - (i + 1)) + 1 := by omega
        rw [this, List.getElem?_cons_succ] at hr'; exact hr'

/-- `where(scores == mx)[0]`. -/
theorem npWhere_rows (p : Nat → Bool) {rows : List (List Nat)} (h : rows ≠ []) :
    (bnd (npWhere (.arr (rows.map fun r => .arr (r.map fun x => .bool (p x))))) fun t => pyIndex t (.int 0)) =
      .ok (.arr ((rowIdx p rows 0).map fun (n : Nat) => PV.int (n : Int))) := by
  have ha : (rows.map fun r => PV.arr (r.map fun x => PV.bool (p x))).any PV.isArr = true := by
    cases rows with
    | nil => exact absurd rfl h
    | cons r rs => simp [PV.isArr]
  simp only [npWhere, ha, if_true, bnd_ok, pyIndex_tup_cons_zero, trueIdx2_bools]

/-! ## `unique`, `intersect1d` -/

theorem mem_foldr_insertInt (z : Int) (l : List Int) : z ∈ l.foldr insertInt [] ↔ z ∈ l := by
  induction l with
  | nil => simp
  | cons x xs ih => rw [List.foldr_cons, GzS.mem_insertInt, ih, List.mem_cons]

theorem foldr_insertInt_sorted {l : List Int} (h : l.Pairwise (· < ·)) : l.foldr insertInt [] = l := by
  induction l with
  | nil => rfl
  | cons x xs ih =>
    rw [List.pairwise_cons] at h
    rw [List.foldr_cons, ih h.2]
    cases xs with
    | nil => rfl
    | cons y ys =>
      have : x < y := h.1 y (by simp)
      simp [insertInt, this]

theorem npUnique_nats (l : List Nat) :
    npUnique (.arr (l.map fun (n : Nat) => PV.int (n : Int))) =
      .ok (.arr (((l.map fun (n : Nat) => (n : Int)).foldr insertInt []).map PV.int)) := by
  simp only [npUnique, mapM_asInt?_nats]

theorem sorted_obtainVertices (a : Acc) : ((obtainVertices a).map fun (n : Nat) => (n : Int)).Pairwise (· < ·) := by
  unfold obtainVertices
  have h := List.Pairwise.filter (fun v => (a.getD v #[]).any (fun e => e + 1 != 0))
    (List.pairwise_lt_range (n := a.size))
  exact List.Pairwise.map _ (fun _ _ hxy => by omega) h

/-- `intersect1d(vertices, unique(rows))` for an ascending `vertices`: the vertices that are among the rows. -/
theorem npIntersect1d_sorted {ov : List Nat} (hs : (ov.map fun (n : Nat) => (n : Int)).Pairwise (· < ·))
    (R : List Nat) (q : Nat → Bool) (hq : ∀ v ∈ ov, q v = true ↔ v ∈ R) :
    npIntersect1d (idxArrPV ov) (.arr (((R.map fun (n : Nat) => (n : Int)).foldr insertInt []).map PV.int)) =
      .ok (idxArrPV (ov.filter q)) := by
  simp only [npIntersect1d, idxArrPV, mapM_asInt?_nats, mapM_asInt?_ints, foldr_insertInt_sorted hs]
  rw [List.filter_map, List.map_map]
  congr 3
  apply List.filter_congr
  intro v hv
  rw [Bool.eq_iff_iff, Function.comp_apply, List.contains_iff_mem, mem_foldr_insertInt, hq v hv, List.mem_map]
  constructor
  · rintro ⟨w, hw, he⟩
    have : w = v := by omega
    subst this; exact hw
  · intro h; exact ⟨v, h, rfl⟩

/-! ## `argmax` of one row -/

theorem idxOf_map_cast (l : List Nat) (x : Nat) :
    (l.map fun (n : Nat) => (n : Int)).idxOf (x : Int) = l.idxOf x := by
  induction l with
  | nil => rfl
  | cons y ys ih =>
    rw [List.map_cons, List.idxOf_cons, List.idxOf_cons, ih, natCast_beq]

/-- `argmax(scores[former])`. -/
theorem npArgmax_nats {l : List Nat} (h : l ≠ []) :
    npArgmax (.arr (l.map fun (n : Nat) => PV.int (n : Int))) = .ok (.int ((argmax l : Nat) : Int)) := by
  simp only [npArgmax, mapM_asInt?_nats]
  cases l with
  | nil => exact absurd rfl h
  | cons k ks =>
    simp only [List.map_cons, List.foldl_cons, Int.max_self, foldl_max_cast, argmax, Nat.zero_max]
    rw [← List.map_cons (f := fun (n : Nat) => (n : Int)), idxOf_map_cast]

theorem foldl_max_mem (l : List Nat) (k : Nat) : l.foldl max k ∈ k :: l := by
  induction l generalizing k with
  | nil => simp
  | cons y ys ih =>
    rw [List.foldl_cons]
    rcases List.mem_cons.mp (ih (max k y)) with he | hm
    · rw [he]
      rcases Nat.le_total k y with hky | hky
      · rw [Nat.max_eq_right hky]; simp
      · rw [Nat.max_eq_left hky]; simp
    · simp [hm]

theorem argmax_lt {l : List Nat} (h : l ≠ []) : argmax l < l.length := by
  unfold argmax
  apply List.idxOf_lt_length_of_mem
  cases l with
  | nil => exact absurd rfl h
  | cons k ks =>
    rw [List.foldl_cons, Nat.zero_max]
    exact foldl_max_mem ks k

/-! ## the tail: `reshape(-1)`, the positive scores, the histogram -/

theorem npFlatten_matN (rows : List (List Nat)) :
    npFlatten (matN rows) = .ok (.arr (rows.flatten.map fun (n : Nat) => PV.int (n : Int))) := by
  simp only [npFlatten, matN, List.flatMap_def, List.map_map, List.map_flatten]
  rfl

theorem npToList_nats (l : List Nat) :
    npToList (.arr (l.map fun (n : Nat) => PV.int (n : Int))) = .ok (natsPV l) := by
  simp only [npToList, List.map_map, natsPV]
  congr 2

/-- `scores[scores > 0].tolist()`. -/
theorem positive_expr (fl : List Nat) :
    (bnd (bnd (npCmp pyGt (.arr (fl.map fun (n : Nat) => PV.int (n : Int))) (.int 0))
        fun t => npMaskIndex (.arr (fl.map fun (n : Nat) => PV.int (n : Int))) t) fun t => npToList t) =
      .ok (natsPV (fl.filter (· > 0))) := by
  rw [npCmp_nats_int (p := fun x => decide (x > 0)) (fun x => pyGt_nat_zero x)]
  simp only [bnd_ok, npMaskIndex, GzV.maskSelect_map, R_map_ok, npToList_nats]

/-- the keys a `Counter` collects are items of the list. -/
theorem counter_keys_spec (items : List PV) (ks0 : List PV) :
    (∀ x ∈ items.foldl (fun ks x => if (findIdxEq x ks 0).isSome then ks else ks ++ [x]) ks0,
        x ∈ ks0 ∨ x ∈ items) ∧
      ((ks0 ≠ [] ∨ items ≠ []) →
        items.foldl (fun ks x => if (findIdxEq x ks 0).isSome then ks else ks ++ [x]) ks0 ≠ []) := by
  induction items generalizing ks0 with
  | nil => exact ⟨fun x hx => Or.inl hx, fun h => h.elim id (fun h => absurd rfl h)⟩
  | cons y ys ih =>
    rw [List.foldl_cons]
    obtain ⟨h1, h2⟩ := ih (if (findIdxEq y ks0 0).isSome then ks0 else ks0 ++ [y])
    refine ⟨fun x hx => ?_, fun _ => h2 (Or.inl ?_)⟩
    · rcases h1 x hx with h | h
      · split at h
        · exact Or.inl h
        · rcases List.mem_append.mp h with h | h
          · exact Or.inl h
          · right; rw [List.mem_singleton.mp h]; exact List.mem_cons_self
      · exact Or.inr (List.mem_cons_of_mem _ h)
    · split
      · next hs =>
        intro he; rw [he] at hs; simp at hs
      · simp

theorem exists_ints_of_forall {l : List PV} (h : ∀ x ∈ l, ∃ i : Int, x = .int i) : ∃ K : List Int, l = K.map PV.int := by
  induction l with
  | nil => exact ⟨[], rfl⟩
  | cons x xs ih =>
    obtain ⟨i, rfl⟩ := h x List.mem_cons_self
    obtain ⟨K, rfl⟩ := ih (fun y hy => h y (List.mem_cons_of_mem _ hy))
    exact ⟨i :: K, rfl⟩

theorem zipPairs_map (K : List Int) (F : PV → PV) :
    zipPairs (K.map PV.int) ((K.map PV.int).map F) = K.map fun k => PV.tup [.int k, F (.int k)] := by
  induction K with
  | nil => rfl
  | cons k ks ih => simp only [List.map_cons, zipPairs, ih]

/-- the two-row histogram `array(list(Counter(scores).items())).T`. -/
def recordPV (K : List Int) (F : PV → PV) : PV :=
  .arr [.arr (K.map PV.int), .arr (K.map fun k => F (.int k))]

/-- `array(list(Counter(scores).items())).T` when some score is positive: two rows (values, counts). -/
theorem record_expr {pos : List Nat} (h : pos ≠ []) :
    ∃ (K : List Int) (c : Int → Int), 
      (bnd (bnd (bnd (bnd (pyCounter (natsPV pos)) fun t => pyDictItems t) fun t => pyList t) fun t => npArray t)
        fun t => npT t) = .ok (.arr [.arr (K.map PV.int), .arr (K.map fun k => PV.int (c k))]) := by
  obtain ⟨h1, h2⟩ := counter_keys_spec (pos.map fun (n : Nat) => PV.int (n : Int)) []
  have hne := h2 (Or.inr (by simpa using h))
  obtain ⟨K, hK⟩ := exists_ints_of_forall (l := (pos.map fun (n : Nat) => PV.int (n : Int)).foldl
      (fun ks x => if (findIdxEq x ks 0).isSome then ks else ks ++ [x]) []) (fun x hx => by
    rcases h1 x hx with h | h
    · cases h
    · obtain ⟨n, _, rfl⟩ := List.mem_map.mp h
      exact ⟨_, rfl⟩)
  refine ⟨K, fun k => (((pos.map fun (n : Nat) => PV.int (n : Int)).filter fun x => PV.eqb x (.int k)).length : Nat), ?_⟩
  simp only [pyCounter, natsPV, pyIter_list, hK, bnd_ok, pyDictItems]
  rw [zipPairs_map K (fun k => PV.int (((pos.map fun (n : Nat) => PV.int (n : Int)).filter
    fun x => PV.eqb x k).length : Nat))]
  simp only [pyList_list, bnd_ok, npArray]
  rw [mapM'_map (f := npArrayItem) (emb := fun k => PV.tup [.int k, _]) (g := fun k => PV.arr [.int k, _])
    (fun _ _ => rfl)]
  cases K with
  | nil => rw [hK] at hne; exact absurd rfl hne
  | cons k ks =>
    simp only [R_map_ok, bnd_ok, List.map_cons, npT, List.length_cons, List.length_nil]
    simp [List.range_succ, List.map_map, Function.comp_def]

theorem record_expr_nil :
    (bnd (bnd (bnd (bnd (pyCounter (natsPV [])) fun t => pyDictItems t) fun t => pyList t) fun t => npArray t)
        fun t => npT t) = .ok (.arr []) := rfl

/-- `score_record[:, argsort(score_record[0])[::-1]]` succeeds on a two-row record. -/
theorem sort_expr (K : List Int) (c : Int → Int) :
    ∃ v, (bnd (bnd (bnd (pyIndex (.arr [.arr (K.map PV.int), .arr (K.map fun k => PV.int (c k))]) (.int 0))
        fun t => npArgsort t) fun t => pyReverse t)
        fun t => npIndexCols (.arr [.arr (K.map PV.int), .arr (K.map fun k => PV.int (c k))]) t) = .ok v := by
  simp only [pyIndex_arr_cons_zero, bnd_ok, npArgsort_ints, pyReverse_arr, npIndexCols]
  have hrow : ∀ (A : List PV), A.length = K.length →
      mapM' (fun k => pyIndex (.arr A) k) ((Dsw.argsort K).map fun (i : Nat) => PV.int (i : Int)).reverse =
        .ok (((Dsw.argsort K).map fun (i : Nat) => PV.int (i : Int)).reverse.map fun k =>
          match k with
          | .int i => A.getD i.toNat .none
          | _ => .none) := by
    intro A hA
    apply mapM'_eq_map
    intro x hx
    rw [List.mem_reverse, List.mem_map] at hx
    obtain ⟨i, hi, rfl⟩ := hx
    have hlt : i < A.length := by rw [hA]; exact (mem_argsort K i).mp hi
    rw [pyIndex_arr_getD hlt]; simp
  simp only [mapM'_cons, hrow _ (List.length_map _), R_map_ok, mapM'_nil]
  exact ⟨_, rfl⟩

/-! ## the latter map: `latter_map[former].index(latter)`, `del`, update, `del latter_map[former]` -/

theorem findIdxEq_nats (l : List Nat) (w : Nat) :
    findIdxEq (.int (w : Int)) (l.map fun (n : Nat) => PV.int (n : Int)) 0 =
      if l.contains w then some (l.idxOf w) else Option.none := by
  induction l with
  | nil => rfl
  | cons x xs ih =>
    rw [List.map_cons, findIdxEq_cons, eqb_int, natCast_beq, Nat.zero_add, GzV.findIdxEq_succ, ih,
      List.contains_cons, List.idxOf_cons, BEq.comm (a := w)]
    cases h : (x == w)
    · cases xs.contains w <;> simp
    · simp

/-- `latter_map[former].index(latter)`. -/
theorem pyIndexOf_natsPV (l : List Nat) (w : Nat) :
    pyIndexOf (natsPV l) (.int (w : Int)) =
      if l.contains w then .ok (.int ((l.idxOf w : Nat) : Int)) else .error .valueError := by
  simp only [pyIndexOf, natsPV, findIdxEq_nats]
  cases l.contains w <;> rfl

theorem map_eraseIdx' {α β} (f : α → β) (l : List α) (i : Nat) : (l.map f).eraseIdx i = (l.eraseIdx i).map f := by
  induction l generalizing i with
  | nil => rfl
  | cons x xs ih =>
    cases i with
    | zero => rfl
    | succ i => simp [ih]

/-- `del l[i]`. -/
theorem pyDelItem_natsPV {l : List Nat} {i : Nat} (h : i < l.length) :
    pyDelItem (natsPV l) (.int (i : Int)) = .ok (natsPV (l.eraseIdx i)) := by
  simp [pyDelItem, natsPV, normIndex_natCast (n := l.length) h, map_eraseIdx']

/-- one more entry in front of a dict. -/
def consDict (k x : PV) : PV → PV
  | .dict ks xs => .dict (k :: ks) (x :: xs)
  | d => d

theorem pySetItem_dict_cons (k x key v : PV) (ks xs : List PV) :
    pySetItem (.dict (k :: ks) (x :: xs)) key v =
      if PV.eqb k key then .ok (.dict (k :: ks) (v :: xs)) else (pySetItem (.dict ks xs) key v).map (consDict k x) := by
  simp only [pySetItem, findIdxEq_cons]
  by_cases h : PV.eqb k key = true
  · simp [h]
  · simp only [h, Nat.zero_add, GzV.findIdxEq_succ key ks 0]
    cases findIdxEq key ks 0 with
    | none => rfl
    | some j => rfl

theorem pyDelItem_dict_cons (k x key : PV) (ks xs : List PV) :
    pyDelItem (.dict (k :: ks) (x :: xs)) key =
      if PV.eqb k key then .ok (.dict ks xs) else (pyDelItem (.dict ks xs) key).map (consDict k x) := by
  simp only [pyDelItem, findIdxEq_cons]
  by_cases h : PV.eqb k key = true
  · simp [h]
  · simp only [h, Nat.zero_add, GzV.findIdxEq_succ key ks 0]
    cases findIdxEq key ks 0 with
    | none => rfl
    | some j => rfl

theorem consDict_lmapPV (p : Nat × List Nat) (m : LMap) :
    consDict (.int (p.1 : Int)) (natsPV p.2) (lmapPV m) = lmapPV (p :: m) := rfl

/-- the first entry with key `v` gets the value `l`. -/
def setFirst (v : Nat) (l : List Nat) : LMap → LMap
  | [] => []
  | p :: m => if p.1 == v then (p.1, l) :: m else p :: setFirst v l m

/-- the first entry with key `v` goes. -/
def delFirst (v : Nat) : LMap → LMap
  | [] => []
  | p :: m => if p.1 == v then m else p :: delFirst v m

/-- `latter_map[v] = l` for a key that is there. -/
theorem pySetItem_lmapPV_old {m : LMap} {v : Nat} {l0 : List Nat} (h : LMap.get? m v = some l0) (l : List Nat) :
    pySetItem (lmapPV m) (.int (v : Int)) (natsPV l) = .ok (lmapPV (setFirst v l m)) := by
  induction m with
  | nil => cases h
  | cons p m ih =>
    rw [GzV.get?_cons] at h
    rw [GzV.lmapPV_cons, pySetItem_dict_cons, eqb_int, natCast_beq, setFirst]
    cases hb : (p.1 == v)
    · rw [hb] at h
      simp only [Bool.false_eq_true, if_false] at h ⊢
      have ih' := ih h
      unfold lmapPV at ih'
      rw [ih', R_map_ok]; rfl
    · simp only [if_true]; rfl

/-- `del latter_map[v]` for a key that is there. -/
theorem pyDelItem_lmapPV {m : LMap} {v : Nat} {l0 : List Nat} (h : LMap.get? m v = some l0) :
    pyDelItem (lmapPV m) (.int (v : Int)) = .ok (lmapPV (delFirst v m)) := by
  induction m with
  | nil => cases h
  | cons p m ih =>
    rw [GzV.get?_cons] at h
    rw [GzV.lmapPV_cons, pyDelItem_dict_cons, eqb_int, natCast_beq, delFirst]
    cases hb : (p.1 == v)
    · rw [hb] at h
      simp only [Bool.false_eq_true, if_false] at h ⊢
      have ih' := ih h
      unfold lmapPV at ih'
      rw [ih', R_map_ok]; rfl
    · simp only [if_true]; rfl

theorem get?_setFirst {m : LMap} {v : Nat} {l0 : List Nat} (h : LMap.get? m v = some l0) (l : List Nat) :
    LMap.get? (setFirst v l m) v = some l := by
  induction m with
  | nil => cases h
  | cons p m ih =>
    rw [GzV.get?_cons] at h
    rw [setFirst]
    cases hb : (p.1 == v)
    · rw [hb] at h
      simp only [Bool.false_eq_true, if_false] at h ⊢
      rw [GzV.get?_cons, hb]; exact ih h
    · simp only [if_true]; rw [GzV.get?_cons]; simp [hb]

theorem delFirst_setFirst (m : LMap) (v : Nat) (l : List Nat) : delFirst v (setFirst v l m) = delFirst v m := by
  induction m with
  | nil => rfl
  | cons p m ih =>
    rw [setFirst, delFirst]
    cases hb : (p.1 == v)
    · simp only [Bool.false_eq_true, if_false]; rw [delFirst, hb]; simp [ih]
    · simp only [if_true]; rw [delFirst]; simp [hb]

/-- a key that is not there: `latter_map[v]` is `KeyError`. -/
theorem pyIndex_lmapPV_none {m : LMap} {v : Nat} (h : LMap.get? m v = Option.none) :
    pyIndex (lmapPV m) (.int (v : Int)) = .error .other := by
  induction m with
  | nil => rfl
  | cons p m ih =>
    rw [GzV.get?_cons] at h
    rw [GzV.lmapPV_cons, GzV.pyIndex_dict_cons, eqb_int, natCast_beq]
    cases hb : (p.1 == v)
    · rw [hb] at h
      simp only [Bool.false_eq_true, if_false] at h ⊢
      exact ih h
    · rw [hb] at h; simp at h

theorem erase1_of_not_mem {m : LMap} {v : Nat} (h : v ∉ m.map (·.1)) (w : Nat) : LMap.erase1 m v w = m := by
  induction m with
  | nil => rfl
  | cons p m ih =>
    rw [List.map_cons, List.mem_cons, not_or] at h
    have hp : ¬ p.1 = v := fun e => h.1 e.symm
    unfold LMap.erase1 at ih ⊢
    rw [List.filterMap_cons]
    simp only [hp, if_false]
    rw [ih h.2]

/-- the model's `erase1` is the update / deletion of the one entry of the key. -/
theorem erase1_eq {m : LMap} (hm : LMap.KeysNodup m) {v : Nat} {l0 : List Nat} (h : LMap.get? m v = some l0) (w : Nat) :
    LMap.erase1 m v w =
      if (l0.eraseIdx (l0.idxOf w)).isEmpty then delFirst v m else setFirst v (l0.eraseIdx (l0.idxOf w)) m := by
  induction m with
  | nil => cases h
  | cons p m ih =>
    rw [GzV.get?_cons] at h
    unfold LMap.KeysNodup at hm
    rw [List.map_cons, List.nodup_cons] at hm
    rw [setFirst, delFirst]
    cases hb : (p.1 == v)
    · rw [hb] at h
      simp only [Bool.false_eq_true, if_false] at h ⊢
      have hp : ¬ p.1 = v := by simpa using hb
      have := ih hm.2 h
      unfold LMap.erase1 at this ⊢
      rw [List.filterMap_cons]
      simp only [hp, if_false]
      rw [this]
      split <;> rfl
    · rw [hb] at h
      simp only [if_true, Option.some.injEq] at h ⊢
      have hp : p.1 = v := by simpa using hb
      have hnot : v ∉ m.map (·.1) := hp ▸ hm.1
      have := erase1_of_not_mem hnot w
      unfold LMap.erase1 at this ⊢
      rw [List.filterMap_cons]
      simp only [hp, if_true, h]
      rw [this]
      split <;> simp_all

/-! ## the score table of the model -/

theorem shape_calc (m : LMap) (k : Nat) (ins del : Bool) :
    GzS.ShapeS (4 ^ k) (calculateIntersectionScore m k ins del) := by
  obtain ⟨h1, h2, _⟩ := scoreInv_calc k m ins del (fun _ _ => True) (fun _ _ _ _ => trivial)
  exact ⟨h1, h2⟩

theorem foldl_rows_max (l : List (Array Nat)) (x : Nat) :
    l.foldl (fun x r => r.foldl max x) x = (l.map Array.toList).flatten.foldl max x := by
  induction l generalizing x with
  | nil => rfl
  | cons r rs ih =>
    rw [List.foldl_cons, ih, List.map_cons, List.flatten_cons, List.foldl_append, ← Array.foldl_toList]

/-- the model's global maximum. -/
theorem mx_eq (sc : Array (Array Nat)) :
    sc.foldl (fun x r => r.foldl max x) 0 = (sc.toList.map Array.toList).flatten.foldl max 0 := by
  rw [← Array.foldl_toList, foldl_rows_max]

/-- the model's "row holds the maximum" is membership among the `where` rows. -/
theorem rows_iff (sc : Array (Array Nat)) (mx v : Nat) :
    (((List.range sc.size).filter fun v => (sc.getD v #[]).any (· == mx)).contains v) = true ↔
      v ∈ rowIdx (· == mx) (sc.toList.map Array.toList) 0 := by
  rw [List.contains_iff_mem, List.mem_filter, List.mem_range, mem_rowIdx]
  simp only [Nat.zero_le, true_and, Nat.sub_zero, List.getElem?_map, Array.getElem?_toList]
  constructor
  · rintro ⟨hv, hany⟩
    refine ⟨(sc.getD v #[]).toList, ?_, ?_⟩
    · simp [Array.getD_eq_getD_getElem?, hv]
    · rw [Array.any_toList]; exact hany
  · rintro ⟨r, hr, hany⟩
    by_cases hv : v < sc.size
    · refine ⟨hv, ?_⟩
      simp only [Array.getElem?_eq_getElem hv, Option.map_some, Option.some.injEq] at hr
      subst hr
      rw [Array.any_toList] at hany
      simpa [Array.getD_eq_getD_getElem?, hv] using hany
    · rw [Array.getElem?_eq_none (by omega)] at hr; cases hr

/-- `scores[former]`. -/
theorem pyIndex_scoresPV {sc : Array (Array Nat)} {v : Nat} (hv : v < sc.size) :
    pyIndex (scoresPV sc) (.int (v : Int)) =
      .ok (.arr ((sc.getD v #[]).toList.map fun (x : Nat) => PV.int (x : Int))) := by
  have hlen : v < (sc.toList.map fun r => PV.arr (r.toList.map fun (x : Nat) => PV.int (x : Int))).length := by
    simpa using hv
  rw [scoresPV, pyIndex_arr_getD hlen, List.getD_eq_getElem?_getD, GzS.scores_row hv]; rfl

/-- `unique(where(scores == max(scores))[0])`. -/
theorem vertex_expr (sc : Array (Array Nat)) (h : (sc.toList.map Array.toList).flatten ≠ []) :
    (bnd (bnd (bnd (bnd (npMax (scoresPV sc)) fun t => npCmp pyEq (scoresPV sc) t) fun t => npWhere t)
        fun t => pyIndex t (.int 0)) fun t => npUnique t) =
      .ok (.arr ((((rowIdx (· == (sc.toList.map Array.toList).flatten.foldl max 0)
        (sc.toList.map Array.toList) 0).map fun (n : Nat) => (n : Int)).foldr insertInt []).map PV.int)) := by
  have hrne : sc.toList.map Array.toList ≠ [] := fun he => h (by rw [he]; rfl)
  rw [scoresPV_eq, npMax_matN h, bnd_ok,
    npCmp_matN pyEq _ (· == (sc.toList.map Array.toList).flatten.foldl max 0)
      (fun x => by rw [pyEq_def, eqb_int, natCast_beq])]
  simp only [bnd_ok]
  rw [npWhere_rows _ hrne, bnd_ok, npUnique_nats]

end Dsw.Tie.SwR
