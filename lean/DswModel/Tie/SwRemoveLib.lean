import DswModel.Tie.GzScore
import DswModel.Tie.GzViews
import DswModel.Tie.SpiderwebDefs
import DswModel.Lemmas.Removal
import DswModel.Lemmas.Digit
/-!
# DswModel.Tie.SwRemoveLib — computation lemmas for the NumPy / `collections` idioms of `remove_nasty_arc`
-/
namespace Dsw.Tie.SwR
open Dsw Dsw.Py Dsw.Tie

/-! ## the integer logarithm -/

theorem natLogFuel_four_pow (k : Nat) : ∀ f, k < f → natLogFuel 4 f (4 ^ k) = k := by
  induction k with
  | zero =>
    intro f hf
    obtain ⟨f', rfl⟩ : ∃ f', f = f' + 1 := ⟨f - 1, by omega⟩
    simp [natLogFuel]
  | succ k ih =>
    intro f hf
    obtain ⟨f', rfl⟩ : ∃ f', f = f' + 1 := ⟨f - 1, by omega⟩
    have h4 : ¬ 4 ^ (k + 1) < 4 := by
      have : 0 < 4 ^ k := Nat.pow_pos (by omega)
      rw [Nat.pow_succ]; omega
    have hd : 4 ^ (k + 1) / 4 = 4 ^ k := by rw [Nat.pow_succ]; omega
    simp only [natLogFuel, h4, if_false, hd, ih f' (by omega)]
    omega

theorem log4_four_pow (k : Nat) : log4 (4 ^ k) = k := by
  have h : (4 : Nat) ^ k = 2 ^ (2 * k) := by rw [Nat.pow_mul]
  unfold log4
  rw [h, Nat.log2_two_pow]; omega

theorem pyIntLogRatio_four_pow (k : Nat) :
    pyIntLogRatio (.int ((4 ^ k : Nat) : Int)) (.int 4) = .ok (.int (k : Int)) := by
  have hpos : 0 < 4 ^ k := Nat.pow_pos (by omega)
  have hlt : k < 4 ^ k := Nat.lt_pow_self (by omega)
  have hc : ¬ (((4 ^ k : Nat) : Int) ≤ 0 ∨ (4 : Int) ≤ 1) := by omega
  simp only [pyIntLogRatio, asInt?_int, hc, if_false, Int.toNat_natCast]
  rw [show (4 : Int).toNat = 4 from rfl, natLogFuel_four_pow k _ hlt]

end Dsw.Tie.SwR
