import DswModel.Tie.BfValid
import DswModel.Props.C12
import DswModel.Props.C02
/-!
# DswModel.Tie.BfCorollaries — C12 (and the constructor clause of C02) restated on the generated code

`Gen.LocalBioFilter.__init__` / `Gen.LocalBioFilter.valid` are the definitions `harness/py2lean.py` regenerates from
`dsw/biofilter.py` on every run. The theorems below are the property theorems of `Props/C12.lean` / `Props/C02.lean`
composed with the tie theorems of `Tie/BfValid.lean`: they speak about the translated code directly, with the GC
thresholds DERIVED from the two double-precision bounds the caller passes (`floatGcRule`).

`BfOk k run gc motifs c`: the arguments are inside the tie's contract.
-/
namespace Dsw.Tie
open Dsw Dsw.Py Dsw.Gen

/-- the contract of `tie_LocalBioFilter_valid`. -/
structure BfOk (k : Nat) (run : Option Nat) (gc : Option (Dbl × Dbl)) (motifs : Option (List (List Char)))
    (c : FilterCfg) : Prop where
  cfg : bfCfg k run gc motifs = some c
  den : ∀ lo hi, gc = some (lo, hi) → 0 < lo.den ∧ 0 < hi.den
  chars : ∀ ms, motifs = some ms → ∀ m ∈ ms, ∀ ch ∈ m, MotifChar ch

theorem BfOk.k_eq {k run gc motifs c} (h : BfOk k run gc motifs c) : c.k = k ∧ c.run = run ∧ c.motifs = motifs := by
  have := h.cfg
  unfold bfCfg at this
  cases gc with
  | none => cases this; exact ⟨rfl, rfl, rfl⟩
  | some p =>
    obtain ⟨lo, hi⟩ := p
    simp only [Option.map_eq_some_iff] at this
    obtain ⟨g, _, hg⟩ := this
    cases hg; exact ⟨rfl, rfl, rfl⟩

/-- the verdict of the generated `valid` as a `Bool` (`false` also for an exception; `gen_C12_total`: there is none). -/
def genValid (fuel : Nat) (obj : PV) (s : List Char) (ol : Bool) : Bool :=
  match LocalBioFilter.valid fuel obj (.str s) (.bool ol) with
  | .ok (.bool true) => true
  | _ => false

/-- the generated `valid` never raises and always returns a bool. -/
theorem gen_C12_total {k run gc motifs c} (h : BfOk k run gc motifs c) (fuel : Nat) (s : List Char) (ol : Bool) :
    ∃ b, LocalBioFilter.valid fuel (bfObj k run gc motifs) (.str s) (.bool ol) = .ok (.bool b) :=
  ⟨_, tie_LocalBioFilter_valid fuel k run gc motifs c s ol h.cfg h.den h.chars⟩

/-- C12, main clause, on the code: the whole-sequence verdict is exactly the documented predicate. -/
theorem gen_C12_valid_all {k run gc motifs c} (h : BfOk k run gc motifs c) (fuel : Nat) (s : List Char) :
    LocalBioFilter.valid fuel (bfObj k run gc motifs) (.str s) (.bool false) = .ok (.bool true) ↔ DocumentedValid c s := by
  rw [tie_LocalBioFilter_valid fuel k run gc motifs c s false h.cfg h.den h.chars, ← C12_valid_all]
  constructor
  · intro e; injection e with e; injection e
  · intro e; rw [e]

/-- C12 on the code: the last-window verdict is the whole-sequence verdict of the final window. -/
theorem gen_C12_last {k run gc motifs c} (h : BfOk k run gc motifs c) (fuel : Nat) (s : List Char) (hk : 1 ≤ k) :
    LocalBioFilter.valid fuel (bfObj k run gc motifs) (.str s) (.bool true) =
      LocalBioFilter.valid fuel (bfObj k run gc motifs) (.str (s.drop (s.length - k))) (.bool false) := by
  rw [tie_LocalBioFilter_valid fuel k run gc motifs c s true h.cfg h.den h.chars,
    tie_LocalBioFilter_valid fuel k run gc motifs c _ false h.cfg h.den h.chars,
    C12_last c s (by rw [h.k_eq.1]; exact hk), h.k_eq.1]

/-- C12 on the code: for window-decidable configurations and strings of at least one window, the whole-sequence
verdict is the conjunction of the verdicts of all windows. -/
theorem gen_C12_window_conj {k run gc motifs c} (h : BfOk k run gc motifs c) (fuel : Nat) (s : List Char)
    (hc : c.WindowDecidable) (hs : k ≤ s.length) :
    LocalBioFilter.valid fuel (bfObj k run gc motifs) (.str s) (.bool false) =
      .ok (.bool ((windows k s).all fun w => genValid fuel (bfObj k run gc motifs) w false)) := by
  rw [tie_LocalBioFilter_valid fuel k run gc motifs c s false h.cfg h.den h.chars,
    C12_window_conj c s hc (by rw [h.k_eq.1]; exact hs), h.k_eq.1]
  congr 2
  apply List.all_congr rfl
  intro w
  simp only [genValid, tie_LocalBioFilter_valid fuel k run gc motifs c w false h.cfg h.den h.chars]
  cases c.valid w false <;> rfl

/-- C12 on the code: any character outside ACGT makes the verdict false. -/
theorem gen_C12_foreign {k run gc motifs c} (h : BfOk k run gc motifs c) (fuel : Nat) (s : List Char) (ch : Char)
    (hin : ch ∈ s) (hf : nucIdx ch = none) :
    LocalBioFilter.valid fuel (bfObj k run gc motifs) (.str s) (.bool false) = .ok (.bool false) := by
  rw [tie_LocalBioFilter_valid fuel k run gc motifs c s false h.cfg h.den h.chars, C12_foreign c s ch hin hf]

/-- C12 on the code: a strand and its reverse complement get the same verdict (ACGT strands, ACGT motifs). -/
theorem gen_C12_revcomp {k run gc motifs c} (h : BfOk k run gc motifs c) (fuel : Nat) (s : List Char)
    (hs : ∀ ch ∈ s, (nucIdx ch).isSome = true)
    (hm : ∀ ms, c.motifs = some ms → ∀ m ∈ ms, ∀ ch ∈ m, (nucIdx ch).isSome = true) :
    LocalBioFilter.valid fuel (bfObj k run gc motifs) (.str (revComp s)) (.bool false) =
      LocalBioFilter.valid fuel (bfObj k run gc motifs) (.str s) (.bool false) := by
  rw [tie_LocalBioFilter_valid fuel k run gc motifs c _ false h.cfg h.den h.chars,
    tie_LocalBioFilter_valid fuel k run gc motifs c s false h.cfg h.den h.chars, C12_revcomp c s hs hm]

/-- C12 on the code: the constructor accepts exactly run limit ≤ window and motifs no longer than the window
(`ValueError` otherwise) — for EVERY argument combination, no contract needed. -/
theorem gen_C12_accepted (fuel k : Nat) (run : Option Nat) (gc : Option (Dbl × Dbl)) (motifs : Option (List (List Char))) :
    (LocalBioFilter.__init__ fuel (.dict [] []) (.int k) (optNatPV run) (gcPV gc) (motifsPV motifs) = .ok (bfObj k run gc motifs)
      ↔ (∀ r, run = some r → r ≤ k) ∧ (∀ ms, motifs = some ms → ∀ m ∈ ms, m.length ≤ k)) ∧
    (LocalBioFilter.__init__ fuel (.dict [] []) (.int k) (optNatPV run) (gcPV gc) (motifsPV motifs) = .error .valueError
      ↔ ¬ ((∀ r, run = some r → r ≤ k) ∧ (∀ ms, motifs = some ms → ∀ m ∈ ms, m.length ≤ k))) := by
  have hacc := C12_accepted ({ k := k, run := run, motifs := motifs, gc := none } : FilterCfg)
  rw [tie_LocalBioFilter_init]
  change (bfAccepted k run motifs = true ↔ _) at hacc
  by_cases hb : bfAccepted k run motifs = true
  · rw [if_pos hb]
    exact ⟨⟨fun _ => hacc.1 hb, fun _ => rfl⟩, ⟨fun e => (by cases e), fun hn => absurd (hacc.1 hb) hn⟩⟩
  · rw [if_neg hb]
    exact ⟨⟨fun e => (by cases e), fun hp => absurd (hacc.2 hp) hb⟩, ⟨fun _ hp => hb (hacc.2 hp), fun _ => rfl⟩⟩

/-- C02, constructor clause, on the code: whatever the generated constructor accepts is window-decidable, except a run
limit equal to the window (known finding K1, `C02_ctor_counterexample`). -/
theorem gen_C02_ctor_partial {k run gc motifs c} (h : BfOk k run gc motifs c) (fuel : Nat) (hk : 1 ≤ k)
    (hok : LocalBioFilter.__init__ fuel (.dict [] []) (.int k) (optNatPV run) (gcPV gc) (motifsPV motifs)
      = .ok (bfObj k run gc motifs))
    (hr : run ≠ some k) : c.WindowDecidable := by
  obtain ⟨hk', hrun, hmot⟩ := h.k_eq
  have hacc := ((gen_C12_accepted fuel k run gc motifs).1.1 hok)
  apply C02_ctor_partial c (by rw [hk']; exact hk)
  · rw [C12_accepted, hk', hrun, hmot]; exact hacc
  · rw [hrun, hk']; exact hr

/-- non-vacuity: the documented example filter `LocalBioFilter(8, 2, [0.4, 0.6], ["GC"])` is inside the contract, its
derived thresholds are 4 / 4 / 4 (`0.4*8 = 3.2`, `0.6*8 = 4.8` in doubles), and the generated code gives the documented
verdicts. -/
example : BfOk 8 (some 2) (some (⟨3602879701896397, 9007199254740992⟩, ⟨5404319552844595, 9007199254740992⟩))
    (some ["GC".toList]) { k := 8, run := some 2, motifs := some ["GC".toList], gc := some ⟨4, 4, 4⟩ } := by
  refine ⟨by rfl, ?_, ?_⟩
  · intro lo hi e; cases e; exact ⟨by decide, by decide⟩
  · intro ms e m hm ch hch
    cases e
    have hm' : m = ['G', 'C'] := by simpa using hm
    subst hm'
    have : ch = 'G' ∨ ch = 'C' := by simpa using hch
    rcases this with rfl | rfl <;> exact ⟨by decide, by decide⟩

end Dsw.Tie
