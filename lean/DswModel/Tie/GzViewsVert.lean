import DswModel.Tie.GzViewsLib
/-!
# Translation tie — `obtain_vertices`, `accessor_to_latter_map` (dsw/graphized.py)
-/
namespace Dsw.Tie.GzV
open Dsw Dsw.Py Dsw.Tie

theorem obtain_vertices_tie (a : Acc) (fuel : Nat) :
    Gen.obtain_vertices fuel (accPV a) = .ok (idxArrPV (obtainVertices a)) := by
  simp only [Gen.obtain_vertices, Gen.obtain_vertices.body, vertices_expr, bnd_ok, callResult_ret]

/-! ### `accessor_to_latter_map` -/

/-- the latter map after the vertices `pre` have been entered. -/
def FillRel (a : Acc) (verbose : Bool) (pre : List Nat) (e : Gen.accessor_to_latter_map.Env) : Prop :=
  e.accessor = accPV a ∧ e.verbose = .bool verbose ∧
    e.latter_map = lmapPV (pre.map fun (v : Nat) => (v, a.liveEntries (v : Int)))

theorem fill_body {a : Acc} (ha : a.WF) (fuel : Nat) (verbose : Bool) (i : Nat) (pre : List Nat) (x : Nat)
    (hx : x < a.size) (hnot : x ∉ pre) (e : Gen.accessor_to_latter_map.Env) (h : FillRel a verbose pre e) :
    ∃ e', Gen.accessor_to_latter_map.for1_body fuel (.tup [.int (i : Int), .int (x : Int)]) e = .ok (.norm e') ∧
      FillRel a verbose (pre ++ [x]) e' := by
  obtain ⟨h1, h2, h3⟩ := h
  have hnot' : x ∉ (pre.map fun (v : Nat) => (v, a.liveEntries (v : Int))).map (·.1) := by
    simpa [List.map_map, Function.comp_def] using hnot
  simp only [Gen.accessor_to_latter_map.for1_body, pyUnpack_two_tup, bnd_ok, List.getD_cons_zero,
    List.getD_cons_succ, h1, pyIndex_accPV_nat hx, acc_live_tolist ha hx, h3,
    pySetItem_lmapPV_new hnot', h2, truthy_bool, ite_self]
  refine ⟨_, rfl, by first | rfl | exact h1, by first | rfl | exact h2, ?_⟩
  simp only [List.map_append, List.map_cons, List.map_nil]

theorem accessor_to_latter_map_tie (a : Acc) (fuel : Nat) (verbose : Bool) (ha : a.WF) :
    Gen.accessor_to_latter_map fuel (accPV a) (.bool verbose) = .ok (lmapPV (accessorToLatterMap a)) := by
  simp only [Gen.accessor_to_latter_map, Gen.accessor_to_latter_map.body, pyLen_accPV, bnd_ok, locations_expr,
    idxArrPV, pyEnumerate_arr, pyIter_list]
  apply callResult_seq_of_norm (FillRel a verbose (obtainVertices a))
  · refine forLoop_enum_prefix (FillRel a verbose) (fun (v : Nat) => PV.int (v : Int)) (obtainVertices a)
      (fun i pre x suf has e he => ?_) ⟨rfl, rfl, rfl⟩
    have hnd := nodup_obtainVertices a
    rw [has] at hnd
    have hx : x < a.size := mem_obtainVertices (by rw [has]; simp)
    have hnot : x ∉ pre := fun hm => by
      have := (List.nodup_append.mp hnd).2.2 x hm x (by simp)
      exact this rfl
    exact fill_body ha fuel verbose i pre x hx hnot e he
  · intro e' h
    simp only [Gen.accessor_to_latter_map.k1, h.2.2, callResult_ret, accessorToLatterMap]

end Dsw.Tie.GzV
