import DswModel.Tie.NpLemmas
import DswModel.Tie.BuildDefs
import DswModel.Tie.GzArith
import DswModel.Tie.GzViews
import DswModel.Lemmas.TrimOne
/-!
# Translation tie — `connect_coding_graph`: lemma library

Computation lemmas for the primitives that first appear in `connect_coding_graph`
(`pyTrueDiv` / `PV.rat`, boolean arrays, the gather arm of `pyIndex`, the boolean-preserving and row-filling
arms of `pySetItem`, comparison of a two-dimensional array with a scalar), masks as arrays (`bmask`),
and a few list / array facts.
-/
namespace Dsw.Tie.Ccg
open Dsw Dsw.Py Dsw.Tie

/-! ## true division -/

theorem pyTrueDiv_nat_pos (c : Int) {n : Nat} (hn : 0 < n) :
    pyTrueDiv (.int c) (.int (n : Int)) = .ok (.rat c n) := by
  have h1 : ¬ ((n : Int) = 0) := by omega
  have h2 : (n : Int) > 0 := by omega
  simp only [pyTrueDiv, asInt?_int, h1, if_false, h2, if_true]

theorem pyGt_rat_zero (c d : Int) : pyGt (.rat c d) (.int 0) = .ok (decide (0 < c)) := by
  simp [pyGt, pyLt, PV.asInt?]

/-! ## masks as arrays -/

/-- one cell of a mask: a NumPy bool, or a 0/1 integer. -/
def cellPV (asInt : Bool) (b : Bool) : PV := if asInt then .int (if b then 1 else 0) else .bool b

/-- a list of booleans as a one-dimensional array. -/
def bmask (asInt : Bool) (l : List Bool) : PV := .arr (l.map (cellPV asInt))

theorem maskPV_eq (ai : Bool) (m : Mask) : maskPV ai m = bmask ai m.toList := rfl

theorem bmask_false (l : List Bool) : bmask false l = .arr (l.map .bool) := rfl

@[simp] theorem asInt?_cellPV (ai b : Bool) : (cellPV ai b).asInt? = some (if b then 1 else 0) := by
  cases ai <;> rfl

@[simp] theorem truthy_cellPV (ai b : Bool) : (cellPV ai b).truthy = b := by
  cases ai <;> cases b <;> rfl

/-- number of `true` entries. -/
def cnt (l : List Bool) : Nat := (l.filter id).length

theorem cnt_nil : cnt [] = 0 := rfl
theorem cnt_cons (b : Bool) (l : List Bool) : cnt (b :: l) = (if b then 1 else 0) + cnt l := by
  cases b <;> simp [cnt] <;> omega

theorem count_eq_cnt (m : Mask) : m.count = cnt m.toList := rfl

theorem cntI_eq_cnt (l : List Bool) : GzV.cntI l = (cnt l : Int) := by
  induction l with
  | nil => rfl
  | cons b l ih => rw [GzV.cntI_cons, ih, cnt_cons]; cases b <;> simp

theorem mapM_asInt?_cells (ai : Bool) (l : List Bool) :
    (l.map (cellPV ai)).mapM PV.asInt? = some (l.map fun b => if b then (1 : Int) else 0) := by
  induction l with
  | nil => rfl
  | cons x xs ih => simp [List.mapM_cons, ih]

theorem npSum_bmask (ai : Bool) (l : List Bool) : npSum (bmask ai l) = .ok (.int (cnt l : Int)) := by
  simp only [npSum, bmask, mapM_asInt?_cells]
  exact congrArg (fun z => Except.ok (PV.int z)) (cntI_eq_cnt l)

theorem pyLen_bmask (ai : Bool) (l : List Bool) : pyLen (bmask ai l) = .ok (.int (l.length : Int)) := by
  simp [bmask]

/-- `vertices != 0`. -/
theorem npCmp_ne_zero_bmask (ai : Bool) (l : List Bool) :
    npCmp pyNe (bmask ai l) (.int 0) = .ok (bmask false l) := by
  rw [bmask, npCmp, arrBroadcast_map_int (g := fun b => PV.bool b)]
  · rfl
  · intro b; cases ai <;> cases b <;> rfl

/-- the indices of the `true` entries. -/
def idxs (l : List Bool) : List Nat := (List.range l.length).filter fun j => l.getD j false

theorem indices_eq_idxs (m : Mask) : m.indices = idxs m.toList := by
  unfold Mask.indices idxs
  rw [Array.length_toList]
  apply List.filter_congr
  intro v _
  rw [← Trim.Mask.getD_toList]

/-- `where(bools)[0]`. -/
theorem where_bmask (l : List Bool) :
    (bnd (npWhere (bmask false l)) fun t => pyIndex t (.int 0)) = .ok (idxArrPV (idxs l)) := by
  have := npWhere_map_bool (fun b : Bool => b) l false
  simpa [bmask_false, idxArrPV, idxs] using this

theorem mem_idxs {l : List Bool} {v : Nat} : v ∈ idxs l ↔ l.getD v false = true := by
  unfold idxs
  rw [List.mem_filter, List.mem_range]
  constructor
  · exact fun h => h.2
  · intro h
    refine ⟨?_, h⟩
    rcases Nat.lt_or_ge v l.length with h1 | h1
    · exact h1
    · rw [List.getD_eq_getElem?_getD, List.getElem?_eq_none h1] at h; cases h

theorem lt_of_getD_true {l : List Bool} {v : Nat} (h : l.getD v false = true) : v < l.length := by
  rcases Nat.lt_or_ge v l.length with h1 | h1
  · exact h1
  · rw [List.getD_eq_getElem?_getD, List.getElem?_eq_none h1] at h; cases h

/-- one cell. -/
theorem pyIndexSeq_bmask (ai : Bool) {l : List Bool} {w : Nat} (hw : w < l.length) :
    pyIndexSeq (bmask ai l) (.int (w : Int)) = .ok (cellPV ai (l.getD w false)) := by
  have hw' : w < (l.map (cellPV ai)).length := by simpa using hw
  simp only [pyIndexSeq, bmask, asInt?_int, normIndex_natCast hw', List.getD_eq_getElem?_getD, List.getElem?_map,
    List.getElem?_eq_getElem hw, Option.map_some, Option.getD_some]

theorem pyIndex_bmask (ai : Bool) {l : List Bool} {w : Nat} (hw : w < l.length) :
    pyIndex (bmask ai l) (.int (w : Int)) = .ok (cellPV ai (l.getD w false)) :=
  pyIndexSeq_bmask ai hw

/-- gather by a list of indices. -/
theorem pyIndex_bmask_list (ai : Bool) {l : List Bool} {ws : List Nat} (h : ∀ w ∈ ws, w < l.length) :
    pyIndex (bmask ai l) (natsPV ws) = .ok (bmask ai (ws.map fun w => l.getD w false)) := by
  show (mapM' (fun k => pyIndexSeq (bmask ai l) k) (ws.map fun (n : Nat) => PV.int (n : Int))).map PV.arr = _
  rw [mapM'_map (g := fun w => cellPV ai (l.getD w false)) (fun w hw => pyIndexSeq_bmask ai (h w hw))]
  simp [bmask, List.map_map, Function.comp_def]

/-- gather by an index array. -/
theorem pyIndex_bmask_arr (ai : Bool) {l : List Bool} {ws : List Nat} (h : ∀ w ∈ ws, w < l.length) :
    pyIndex (bmask ai l) (idxArrPV ws) = .ok (bmask ai (ws.map fun w => l.getD w false)) := by
  show (mapM' (fun k => pyIndexSeq (bmask ai l) k) (ws.map fun (n : Nat) => PV.int (n : Int))).map PV.arr = _
  rw [mapM'_map (g := fun w => cellPV ai (l.getD w false)) (fun w hw => pyIndexSeq_bmask ai (h w hw))]
  simp [bmask, List.map_map, Function.comp_def]

/-- `bools[v] = b` keeps the array boolean. -/
theorem pySetItem_bmask {l : List Bool} {v : Nat} (hv : v < l.length) (b : Bool) :
    pySetItem (bmask false l) (.int (v : Int)) (.bool b) = .ok (bmask false (l.set v b)) := by
  have hv' : v < (l.map (cellPV false)).length := by simpa using hv
  have hg : (l.map (cellPV false)).getD v .none = .bool (l[v]) := by
    simp [List.getD_eq_getElem?_getD, List.getElem?_eq_getElem hv, cellPV]
  simp only [pySetItem, bmask, asInt?_int, asInt?_bool, normIndex_natCast hv', hg, List.map_set]
  cases b <;> rfl

theorem npZerosBool_nat (n : Nat) :
    npZerosBool (.tup [.int (n : Int)]) = .ok (bmask false (List.replicate n false)) := by
  have h : ¬ ((n : Int) < 0) := by omega
  simp [npZerosBool, npFullBool, h, bmask, cellPV]

/-- count of the `true` entries among the gathered cells. -/
theorem cnt_map_getD (l : List Bool) (ws : List Nat) :
    cnt (ws.map fun w => l.getD w false) = (ws.filter fun w => l.getD w false).length := by
  induction ws with
  | nil => rfl
  | cons w ws ih =>
    rw [List.map_cons, cnt_cons, ih, List.filter_cons]
    cases l.getD w false <;> simp <;> omega

theorem cnt_pos_iff_any (l : List Bool) : 0 < cnt l ↔ l.any id = true := by
  induction l with
  | nil => simp [cnt]
  | cons b l ih =>
    rw [cnt_cons]
    cases b
    · simp [ih]
    · simp; omega

/-! ## lists, filters -/

theorem filterM'_map {α} {f : PV → R Bool} {emb : α → PV} {g : α → Bool} {l : List α}
    (h : ∀ x ∈ l, f (emb x) = .ok (g x)) : filterM' f (l.map emb) = .ok ((l.filter g).map emb) := by
  induction l with
  | nil => rfl
  | cons x xs ih =>
    have ih' := ih (fun y hy => h y (by simp [hy]))
    simp only [List.map_cons, filterM', h x (by simp), ih', List.filter_cons]
    cases g x <;> rfl

theorem pyFilter_arr (f : PV → R Bool) (l : List PV) : pyFilter f (.arr l) = (filterM' f l).map .list := rfl

/-- `foldl` of point updates of an array of booleans, read at one index. -/
theorem foldl_set_getD (f : Nat → Bool) (l : List Nat) (init : Array Bool) (v : Nat) :
    (l.foldl (fun acc w => acc.setIfInBounds w (f w)) init).getD v false =
      if v ∈ l ∧ v < init.size then f v else init.getD v false := by
  induction l generalizing init with
  | nil => simp
  | cons x xs ih =>
    rw [List.foldl_cons, ih, Array.size_setIfInBounds]
    by_cases hvx : v = x
    · subst hvx
      by_cases hs : v < init.size
      · simp [hs, getD_setIfInBounds_self _ _ _ _ hs]
      · simp [hs, Array.getD, Array.setIfInBounds]
    · rw [getD_setIfInBounds_ne _ _ _ _ _ (Ne.symm hvx)]
      simp [hvx]

theorem foldl_set_size (f : Nat → Bool) (l : List Nat) (init : Array Bool) :
    (l.foldl (fun acc w => acc.setIfInBounds w (f w)) init).size = init.size := by
  induction l generalizing init with
  | nil => rfl
  | cons x xs ih => rw [List.foldl_cons, ih, Array.size_setIfInBounds]

theorem toList_setIfInBounds {α} (a : Array α) (v : Nat) (x : α) :
    (a.setIfInBounds v x).toList = a.toList.set v x := by simp

theorem getD_toList (m : Array Bool) (i : Nat) : m.toList.getD i false = m.getD i false :=
  Trim.Mask.getD_toList m i

/-! ## accessors -/

theorem wf_of_wfdb {k : Nat} {a : Acc} (h : WFdB k a) : a.WF := by
  intro v hv
  have hv' : v < 4 ^ k := by rw [← h.1]; exact hv
  obtain ⟨h1, h2⟩ := h.2 v hv'
  refine ⟨h1, fun j hj => ?_⟩
  have := h2 j hj
  rw [Acc.ent_natCast] at this
  rcases this with h3 | h3
  · exact Or.inl h3
  · right
    rw [h3, h.1]
    have := Nat.mod_lt (v * 4 + j) (four_pow_pos k)
    omega

theorem shape_of_wfdb {k : Nat} {a : Acc} (h : WFdB k a) : GzV.Shape (4 ^ k) a :=
  ⟨h.1, fun i hi => (h.2 i hi).1⟩

end Dsw.Tie.Ccg
