import DswModel.Tie.SwStubs
/-!
# Translation tie — `decode` (dsw/spiderweb.py)

`Dsw.Gen.decode` (generated from the Python source on every run) computes the model function
`Dsw.decode` — both modes, with and without a shuffle table, with and without a (non-empty) check,
including every error outcome — for every well-formed accessor, every start vertex of it, every
table the code can index, and EVERY string (foreign characters included).
-/
namespace Dsw.Tie
open Dsw Dsw.Py Dsw.Tie.Stub

theorem tie_decode (a : Acc) (tbl : Option Tbl) (v : Nat) (s : List Char) (L : Nat) (fast : Bool)
    (chk : Option (List Char)) (fuel : Nat) (verbose : Bool)
    (ha : a.WF) (hv : v < a.size) (ht : TblOK tbl a) (hc : ∀ c, chk = some c → c ≠ [])
    (hf : 4 * s.length + 2 * (chk.map List.length).getD 0 + 10 ≤ fuel) :
    Gen.decode fuel (cstr s) (.int (L : Int)) (accPV a) (.int (v : Int)) (.bool fast) (chkPV chk) (tblPV tbl)
        (.bool verbose) =
      (Dsw.decode a tbl v s L fast chk).map bitsPV := by
  sorry

end Dsw.Tie
