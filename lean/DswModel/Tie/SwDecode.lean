import DswModel.Tie.SwVt
import DswModel.Tie.Corollaries
import DswModel.Tie.OpBits
import DswModel.Tie.SwDecodeFast
/-!
# Translation tie — `decode` (dsw/spiderweb.py)

`Dsw.Gen.decode` (generated from the Python source on every run) computes the model function
`Dsw.decode` — both modes, with and without a shuffle table, with and without a (non-empty) check,
including every error outcome — for every well-formed accessor, every start vertex of it, every
table the code can index, and EVERY string (foreign characters included).

Lemma structure: `SwDecodeNp.lean` (NumPy primitives on the embeddings), `SwDecodeNormal.lean`
(walk loop = `decodeWalk`, Horner loop = `hornerStr`, `number_to_bit`), `SwDecodeFast.lean`
(fast loop = `decodeFastLoop`); here the two modes are put together (`k10`) behind the check
comparison (`set_vt`, model `vtMatches`).
-/
namespace Dsw.Tie
open Dsw Dsw.Py

namespace DecodeTie

/-- what `decode` does after the check comparison. -/
def decodeTail (a : Acc) (tbl : Option Tbl) (v : Int) (s : List Char) (L : Nat) (fast : Bool) : R (List Nat) :=
  if fast then do
    let bits ← decodeFastLoop a tbl L v s 0
    pure (bits ++ List.replicate (L - bits.length) 0)
  else do
    let saved ← decodeWalk a tbl v s
    numberToBitStr (hornerStr saved) L

theorem decode_eq (a : Acc) (tbl : Option Tbl) (v : Int) (s : List Char) (L : Nat) (fast : Bool)
    (chk : Option (List Char)) :
    Dsw.decode a tbl v s L fast chk =
      (vtMatches s chk >>= fun okc => if !okc then .error .valueError else decodeTail a tbl v s L fast) := rfl

/-- normal mode: the walk loop, `k5` (Horner, `number_to_bit`), `k9`. -/
theorem normal_spec (fuel : Nat) {a : Acc} (ha : a.WF) {tbl : Option Tbl} (ht : TblOK tbl a) (verbose : Bool)
    (L : Nat) {v : Int} (hv : InR a v) (s : List Char) (hf : 4 * s.length + 6 ≤ fuel) (e : Gen.decode.Env)
    (hr : WalkRel a tbl verbose L v [] e) :
    callResult (seq (seq (forLoop (Gen.decode.for1_body fuel) (enumFrom 0 (s.map fun c => PV.str [c])) e)
      (Gen.decode.k5 fuel)) (Gen.decode.k9 fuel)) = (decodeTail a tbl v s L false).map bitsPV := by
  have hl := for1_loop fuel ha ht verbose L s 0 v hv [] e hr
  simp only [decodeTail, Bool.false_eq_true, if_false]
  cases hd : decodeWalk a tbl v s with
  | error err =>
    rw [hd] at hl
    rw [hl]
    rfl
  | ok saved =>
    rw [hd] at hl
    obtain ⟨e1, v', hl1, hr1⟩ := hl
    obtain ⟨hlen, hb⟩ := decodeWalk_bounds ha tbl s v hv saved hd
    obtain ⟨hcan, hval⟩ := hornerStr_spec saved hb
    have hlt : (hornerStr saved).toNat < 10 ^ s.length := by
      have h1 : 4 ^ saved.length ≤ 4 ^ s.length := Nat.pow_le_pow_right (by omega) hlen
      have h2 := four_pow_le_ten_pow s.length
      omega
    have hfuel := digitsFuel_le hcan hlt
    obtain ⟨e2, h2, hbm⟩ := k5_spec fuel (by omega) L saved
      (fun p hp => by have := hb p hp; omega) hcan (by omega) e1 hr1.2.2.2.2.2.1 hr1.2.2.2.2.2.2.1
      hr1.2.2.2.2.2.2.2
    rw [hl1, seq_norm, h2, seq_norm]
    simp only [Gen.decode.k9, hbm, callResult_ret]
    show _ = (numberToBitStr (hornerStr saved) L).map bitsPV
    rw [numberToBitStr_eq _ hcan]
    rfl

/-- fast mode: the loop, `k9`. -/
theorem fast_spec (fuel : Nat) {a : Acc} (ha : a.WF) {tbl : Option Tbl} (ht : TblOK tbl a)
    (L : Nat) {v : Int} (hv : InR a v) (s : List Char) (e : Gen.decode.Env)
    (hr : FastRel a tbl L v 0 (List.replicate L 0) e) :
    callResult (seq (forLoop (Gen.decode.for3_body fuel) (enumFrom 0 (s.map fun c => PV.str [c])) e)
      (Gen.decode.k9 fuel)) = (decodeTail a tbl v s L true).map bitsPV := by
  have hl := for3_loop fuel ha ht L s 0 v hv 0 (List.replicate L 0) e hr
  simp only [decodeTail, if_true]
  cases hd : decodeFastLoop a tbl L v s 0 with
  | error err =>
    rw [hd] at hl
    rw [hl]
    rfl
  | ok bits =>
    rw [hd] at hl
    obtain ⟨e1, hl1, hbm⟩ := hl
    have hlen := decodeFastLoop_length ha tbl L s v 0 hv bits hd
    have hw := writeBits_zeros [] bits L (by omega)
    simp only [List.nil_append, List.length_nil] at hw
    rw [hl1, seq_norm]
    simp only [Gen.decode.k9, hbm, callResult_ret, hw]
    rfl

/-- `k10`: the two modes. -/
theorem k10_spec (fuel : Nat) {a : Acc} (ha : a.WF) {tbl : Option Tbl} (ht : TblOK tbl a) (verbose : Bool)
    (L : Nat) {v : Int} (hv : InR a v) (s : List Char) (fast : Bool) (hf : 4 * s.length + 6 ≤ fuel)
    (e : Gen.decode.Env) (h1 : e.dna_sequence = .str s) (h2 : e.bit_length = .int (L : Int))
    (h3 : e.accessor = accPV a) (h4 : e.vertex_index = .int v) (h5 : e.is_faster = .bool fast)
    (h6 : e.shuffles = tblPV tbl) (h7 : e.verbose = .bool verbose)
    (h8 : e.nucleotides = .str ['A', 'C', 'G', 'T']) :
    callResult (Gen.decode.k10 fuel e) = (decodeTail a tbl v s L fast).map bitsPV := by
  cases fast with
  | false =>
    simp only [Gen.decode.k10, h5, truthy_bool, bnd_ok, Bool.not_false, if_true, h1, pyEnumerate_str, pyIter_list]
    refine normal_spec fuel ha ht verbose L hv s hf _ ?_
    walk_rel
  | true =>
    simp only [Gen.decode.k10, h5, truthy_bool, bnd_ok, Bool.not_true, Bool.false_eq_true, if_false, h1, h2,
      npZeros_nat, pyEnumerate_str, pyIter_list]
    refine fast_spec fuel ha ht L hv s _ ?_
    have : (List.replicate L 0).length = L := by simp
    fast_rel

end DecodeTie

open DecodeTie in
theorem tie_decode (a : Acc) (tbl : Option Tbl) (v : Nat) (s : List Char) (L : Nat) (fast : Bool)
    (chk : Option (List Char)) (fuel : Nat) (verbose : Bool)
    (ha : a.WF) (hv : v < a.size) (ht : TblOK tbl a) (hc : ∀ c, chk = some c → c ≠ [])
    (hf : 4 * s.length + 2 * (chk.map List.length).getD 0 + 10 ≤ fuel) :
    Gen.decode fuel (cstr s) (.int (L : Int)) (accPV a) (.int (v : Int)) (.bool fast) (chkPV chk) (tblPV tbl)
        (.bool verbose) =
      (Dsw.decode a tbl v s L fast chk).map bitsPV := by
  have hvR : InR a (v : Int) := inR_natCast hv
  have hfs : 4 * s.length + 6 ≤ fuel := by omega
  have hk10 : ∀ e : Gen.decode.Env, e.dna_sequence = .str s → e.bit_length = .int (L : Int) →
      e.accessor = accPV a → e.vertex_index = .int (v : Int) → e.is_faster = .bool fast →
      e.shuffles = tblPV tbl → e.verbose = .bool verbose → e.nucleotides = .str ['A', 'C', 'G', 'T'] →
      callResult (Gen.decode.k10 fuel e) = (decodeTail a tbl v s L fast).map bitsPV :=
    fun e => k10_spec fuel ha ht verbose L hvR s fast hfs e
  rw [decode_eq]
  cases chk with
  | none =>
    simp only [Gen.decode, Gen.decode.body, chkPV, pyIsNone_none, Bool.not_true, bnd_ok, Bool.false_eq_true,
      if_false, seq_norm]
    rw [hk10 _ rfl rfl rfl rfl rfl rfl rfl rfl]
    rfl
  | some c =>
    have hc1 : 1 ≤ c.length := by
      have := hc c rfl
      cases c with
      | nil => exact absurd rfl this
      | cons x xs => simp
    have hvt := tie_set_vt s c.length fuel hc1 (by simp only [Option.map_some, Option.getD_some] at hf; omega)
    simp only [Gen.decode, Gen.decode.body, chkPV, pyIsNone_str, Bool.not_false, bnd_ok, if_true, pyLen_str, hvt,
      vtMatches]
    cases hsv : setVt s c.length with
    | error err => rfl
    | ok r =>
      simp only [R_map_ok, cstr, bnd_ok, pyNe_def, eqb_str]
      by_cases hcr : c = r
      · subst hcr
        simp only [beq_self_eq_true, Bool.not_true, Bool.false_eq_true, if_false, seq_norm]
        rw [hk10 _ rfl rfl rfl rfl rfl rfl rfl rfl]
        simp [bind, Except.bind]
      · have h1 : (c == r) = false := by simp [hcr]
        have hrc : ¬ r = c := fun h => hcr h.symm
        have h2 : (r == c) = false := by simp [hrc]
        simp only [h1, Bool.not_false, if_true, seq_error, callResult_error]
        simp [bind, Except.bind, h2]

end Dsw.Tie
