import DswModel.Tie.SwCodingLib
/-!
# Translation tie — `connect_coding_graph`: the trimming rounds (`while True` … `break`)
-/
namespace Dsw.Tie.Ccg
open Dsw Dsw.Py Dsw.Tie Dsw.Trim

abbrev CEnv := Gen.connect_coding_graph.Env

/-- the value the code writes into cell `v` of `new_vertices`. -/
def keepCell (k t : Nat) (m : Mask) (v : Nat) : Bool := decide (t ≤ succCount k m v)

/-- `new_vertices` after the `for` loop over the marked indices. -/
def newMask (k t : Nat) (m : Mask) : Mask :=
  m.indices.foldl (fun acc w => acc.setIfInBounds w (keepCell k t m w)) (Array.replicate (4 ^ k) false)

theorem getD_replicate_false (n v : Nat) : (Array.replicate n false).getD v false = false := by
  simp [Array.getD]

theorem newMask_eq {k t : Nat} {m : Mask} : newMask k t m = trimStep k t m := by
  apply TrimOne.mask_ext
  · rw [newMask, foldl_set_size, trimStep_size]; simp
  · intro v
    rw [newMask, foldl_set_getD, trimStep_getD]
    simp only [Array.size_replicate, Mask.mem_indices, getD_replicate_false]
    by_cases hv : v < 4 ^ k
    · by_cases hmv : m.getD v false = true
      · simp [hv, hmv, keepCell]
      · have : m.getD v false = false := by simpa using hmv
        simp [hv, this]
    · simp [hv]

def TrimIn (k t : Nat) (ai : Bool) (m : Mask) (Tm : PV) (nm : Mask) (e : CEnv) : Prop :=
  e.observed_length = .int (k : Int) ∧ e.threshold = .int (t : Int) ∧ e.vertices = maskPV ai m ∧
    e.new_vertices = maskPV false nm ∧ nm.size = 4 ^ k ∧ e.nucleotides = .str ['A', 'C', 'G', 'T'] ∧ e.times = Tm

theorem for2_spec (k t fuel : Nat) (ai : Bool) (m : Mask) (hm : m.size = 4 ^ k) (Tm : PV) (i v : Nat)
    (hv : v < 4 ^ k) (nm : Mask) (e : CEnv) (h : TrimIn k t ai m Tm nm e) :
    ∃ e', Gen.connect_coding_graph.for2_body fuel (.tup [.int (i : Int), .int (v : Int)]) e = .ok (.norm e') ∧
      TrimIn k t ai m Tm (nm.setIfInBounds v (keepCell k t m v)) e' := by
  obtain ⟨h1, h2, h3, h4, h5, h6, h7⟩ := h
  have hl : ∀ w ∈ obtainLatters k v, w < m.toList.length := by
    intro w hw
    obtain ⟨j, _, rfl⟩ := (mem_obtainLatters k v w).1 hw
    rw [Array.length_toList, hm]
    exact Nat.mod_lt _ (four_pow_pos k)
  have hv' : v < nm.toList.length := by rw [Array.length_toList, h5]; exact hv
  have hcast : decide ((t : Int) ≤ ((cnt ((obtainLatters k v).map fun w => m.toList.getD w false) : Nat) : Int)) =
      keepCell k t m v := by
    rw [cnt_map_getD, keepCell, succCount]
    simp only [getD_toList, Int.ofNat_le]
  simp only [Gen.connect_coding_graph.for2_body, pyUnpack_two_tup, bnd_ok, List.getD_cons_zero,
    List.getD_cons_succ, h1, tie_obtain_latters, h3, maskPV_eq, pyIndex_bmask_list ai hl, npSum_bmask, h2,
    npCmp_int_int, pyGe_int, R_map_ok, hcast, h4, pySetItem_bmask hv', ite_self]
  refine ⟨_, rfl, by first | rfl | exact h1, by first | rfl | exact h2, by first | rfl | exact h3, ?_, ?_,
    by first | rfl | exact h6, by first | rfl | exact h7⟩
  · show bmask false _ = _
    rw [maskPV_eq, toList_setIfInBounds]
  · rw [Array.size_setIfInBounds]; exact h5

/-- the state between two rounds. -/
def TrimSt (k t : Nat) (ai : Bool) (m : Mask) (n : Int) (e : CEnv) : Prop :=
  e.observed_length = .int (k : Int) ∧ e.threshold = .int (t : Int) ∧ e.vertices = maskPV ai m ∧
    e.nucleotides = .str ['A', 'C', 'G', 'T'] ∧ e.times = .int n

/-- the outcome of one round. -/
def RoundPost (k t : Nat) (ai : Bool) (m : Mask) (n : Int) (r : R (Flow CEnv)) : Prop :=
  if (trimStep k t m).count < 1 then r = .error .valueError
  else if m.count = (trimStep k t m).count then ∃ e', r = .ok (.brk e') ∧ TrimSt k t ai m n e'
  else ∃ e', r = .ok (.norm e') ∧ TrimSt k t false (trimStep k t m) (n + 1) e'

theorem k4_spec (k t fuel : Nat) (ai : Bool) (m : Mask) (n : Int) (e : CEnv)
    (h : TrimIn k t ai m (.int n) (trimStep k t m) e) :
    RoundPost k t ai m n (Gen.connect_coding_graph.k4 fuel e) := by
  obtain ⟨h1, h2, h3, h4, h5, h6, h7⟩ := h
  simp only [Gen.connect_coding_graph.k4, h3, h4, maskPV_eq, npSum_bmask, bnd_ok, npSub_int, ite_self, seq_norm,
    Gen.connect_coding_graph.k3, pyLt_int, ← count_eq_cnt]
  unfold RoundPost
  by_cases hz : (trimStep k t m).count < 1
  · have hz' : ((trimStep k t m).count : Int) < 1 := by omega
    simp only [hz, hz', decide_true, ↓reduceIte, seq_error]
  · have hz' : ¬ ((trimStep k t m).count : Int) < 1 := by omega
    simp only [hz, hz', decide_false, Bool.false_eq_true, ↓reduceIte, seq_norm, Gen.connect_coding_graph.k2,
      truthy_int, bnd_ok]
    by_cases hc : m.count = (trimStep k t m).count
    · have hc' : ((m.count : Int) - ((trimStep k t m).count : Int) != 0) = false := by
        rw [hc]; simp
      rw [if_pos hc]
      simp only [hc', Bool.not_false, ↓reduceIte, seq_brk]
      exact ⟨_, rfl, by first | rfl | exact h1, by first | rfl | exact h2,
        by first | rfl | (rw [← maskPV_eq]; exact h3) | exact h3, by first | rfl | exact h6,
        by first | rfl | exact h7⟩
    · have hc' : ((m.count : Int) - ((trimStep k t m).count : Int) != 0) = true := by
        simp only [bne_iff_ne, ne_eq]; omega
      rw [if_neg hc]
      simp only [hc', Bool.not_true, Bool.false_eq_true, ↓reduceIte, seq_norm,
        Gen.connect_coding_graph.k1, h7, npAdd_int, bnd_ok]
      exact ⟨_, rfl, by first | rfl | exact h1, by first | rfl | exact h2,
        by first | rfl | exact h4, by first | rfl | exact h6, rfl⟩

theorem round_spec (k t fuel : Nat) (ai : Bool) (m : Mask) (hm : m.size = 4 ^ k) (n : Int) (e : CEnv)
    (h : TrimSt k t ai m n e) :
    RoundPost k t ai m n (Gen.connect_coding_graph.while1_body fuel e) := by
  obtain ⟨h1, h2, h3, h4, h5⟩ := h
  simp only [Gen.connect_coding_graph.while1_body, bnd_ok, ite_self, seq_norm, Gen.connect_coding_graph.k5, h4,
    GzTie.pyLen_ACGT, h1, pyPow_nat, pyInt_int, npZerosBool_nat, h3, maskPV_eq, npCmp_ne_zero_bmask, where_bmask,
    idxArrPV, pyEnumerate_arr, pyIter_list]
  refine GzV.seq_pred (TrimIn k t ai m (.int n) (trimStep k t m)) _ ?_ (fun e1 g => k4_spec k t fuel ai m n e1 g)
  rw [← newMask_eq, newMask, indices_eq_idxs]
  refine forLoop_rel_enum (TrimIn k t ai m (.int n))
    (fun (nm : Mask) (v : Nat) => nm.setIfInBounds v (keepCell k t m v)) (fun (v : Nat) => PV.int (v : Int)) 0
    (fun i v hv st e he => for2_spec k t fuel ai m hm _ i v ?_ st e he) ?_
  · have := lt_of_getD_true (mem_idxs.1 hv)
    rwa [Array.length_toList, hm] at this
  · exact ⟨by first | rfl | exact h1, by first | rfl | exact h2, by first | rfl | (rw [maskPV_eq]) | exact h3,
      by simp [maskPV_eq], by simp, by first | rfl | exact h4, by first | rfl | exact h5⟩

/-- the loop: it mirrors `trimLoop` as long as the model does not run out of fuel. -/
theorem trim_while (k t fuel : Nat) :
    ∀ (f : Nat) (ai : Bool) (m : Mask) (n : Int) (W : Nat) (e : CEnv), m.size = 4 ^ k → TrimSt k t ai m n e →
      f ≤ W →
      (∀ s, trimLoop k t f m = .ok s →
        ∃ e' ai' n', whileLoop (Gen.connect_coding_graph.while1_cond fuel)
            (Gen.connect_coding_graph.while1_body fuel) W e = .ok (.norm e') ∧ TrimSt k t ai' s n' e') ∧
      (trimLoop k t f m = .error .valueError →
        whileLoop (Gen.connect_coding_graph.while1_cond fuel)
            (Gen.connect_coding_graph.while1_body fuel) W e = .error .valueError) := by
  intro f
  induction f with
  | zero =>
    intro ai m n W e _ _ _
    exact ⟨fun s h => (by cases h), fun h => (by cases h)⟩
  | succ f ih =>
    intro ai m n W e hm hst hW
    obtain ⟨W', rfl⟩ : ∃ W', W = W' + 1 := ⟨W - 1, by omega⟩
    have hr := round_spec k t fuel ai m hm n e hst
    unfold RoundPost at hr
    simp only [trimLoop]
    by_cases hz : (trimStep k t m).count < 1
    · rw [if_pos hz] at hr
      simp only [hz, ↓reduceIte]
      refine ⟨fun s h => (by cases h), fun _ => ?_⟩
      exact whileLoop_true_error (cond := Gen.connect_coding_graph.while1_cond fuel) (e := e) rfl hr W'
    · rw [if_neg hz] at hr
      simp only [hz, ↓reduceIte]
      by_cases hc : m.count = (trimStep k t m).count
      · rw [if_pos hc] at hr
        obtain ⟨e1, hb, h1⟩ := hr
        simp only [hc, ↓reduceIte]
        refine ⟨fun s h => ?_, fun h => (by cases h)⟩
        cases h
        exact ⟨e1, ai, n, whileLoop_true_brk (cond := Gen.connect_coding_graph.while1_cond fuel) (e := e) rfl hb W',
          h1⟩
      · rw [if_neg hc] at hr
        obtain ⟨e1, hb, h1⟩ := hr
        simp only [hc, ↓reduceIte]
        rw [whileLoop_true_norm (cond := Gen.connect_coding_graph.while1_cond fuel) (e := e) rfl hb W']
        exact ih false _ (n + 1) W' e1 (trimStep_size k t m) h1 (by omega)

end Dsw.Tie.Ccg
