import DswModel.Tie.SwVt
import DswModel.Tie.Corollaries
import DswModel.Tie.OpBits
import DswModel.Tie.SwEncodeNp
/-!
# Translation tie — `encode` (dsw/spiderweb.py)

`Dsw.Gen.encode` (generated from the Python source on every run) computes the model function
`Dsw.encode` — both modes, with and without a shuffle table, with and without a check, including
the error outcomes and running out of fuel at the same iteration — for every well-formed accessor
(`Acc.WF`: four entries per row, each `-1` or a row index), every start vertex of it, every table
the code can index (`TblOK`) and every 0/1 message (`need_path=False`; `verbose` has no influence).

Proof plan (`Tie/SwEncodeNp.lean` has the array lemmas): `St` collects the fields of the environment
the loops read; every continuation gets a spec `∃ e', kN fuel e = .ok (.norm e') ∧ …` chained with
`seq_norm_spec`; the two `while` loops follow `encodeNormalLoop` / `encodeFastLoop` iteration by
iteration (induction on the shared fuel, `LoopPost`), generalised over the strand already emitted
and, in fast mode, over the position (`bits.drop location`); `k9`/`k8` are `tail`.
-/
namespace Dsw.Tie
open Dsw Dsw.Py EncNp BitsTie

namespace EncTie

theorem bit_to_number_arr (bits : List Nat) (fuel : Nat) (verbose : Bool) (hb : ∀ x ∈ bits, x ≤ 1)
    (hf : 3 ≤ fuel) :
    Gen.bit_to_number fuel (bitsPV bits) (.bool true) (.bool verbose) = .ok (dstr (bitToNumberStr bits)) := by
  have h : pyEnumerate (bitsPV bits) = .ok (.list (enumFrom 0 (bits.map fun (n : Nat) => .int (n : Int)))) := rfl
  simp only [Gen.bit_to_number, Gen.bit_to_number.body, truthy_bool, bnd_ok, if_true, h, pyIter_list]
  apply callResult_seq_of_norm (StrRel verbose (bitToNumberStr bits))
  · exact for1_loop fuel hf verbose bits hb [0] _ ⟨str_lit_zero, rfl, Digits_singleton.mpr (by omega)⟩
  · intro e' h
    simp only [Gen.bit_to_number.k1, h.1, callResult_ret]

theorem Digits_bitToNumberStr (bits : List Nat) (hb : ∀ x ∈ bits, x ≤ 1) : Digits (bitToNumberStr bits) := by
  unfold bitToNumberStr
  have : ∀ (st : Dec), Digits st →
      Digits (bits.foldl (fun n b => calculusAddition (calculusMultiplication n 2) b) st) := by
    induction bits with
    | nil => intro st h; exact h
    | cons b r ih =>
      intro st h
      have hb1 := hb b (by simp)
      exact ih (fun x hx => hb x (by simp [hx])) _
        (Digits_calculusAddition (Digits_calculusMultiplication h (by omega)) (by omega))
  exact this [0] (Digits_singleton.mpr (by omega))

/-- the part of the environment the loops read: the parameters (never assigned), the current vertex,
the strand emitted so far, and the mode-specific counters. -/
structure St (a : Acc) (tbl : Option Tbl) (bits : List Nat) (vtLen : Nat) (verbose : Bool)
    (w : Nat) (pre : List Char) (qv lv : PV) (e : Gen.encode.Env) : Prop where
  acc : e.accessor = accPV a
  shf : e.shuffles = tblPV tbl
  np : e.need_path = .bool false
  vb : e.verbose = .bool verbose
  nuc : e.nucleotides = .str ['A', 'C', 'G', 'T']
  msg : e.binary_message = bitsPV bits
  vt : e.vt_length = .int (vtLen : Int)
  vi : e.vertex_index = .int (w : Int)
  dna : e.dna_sequence = .str pre
  qu : e.quotient = qv
  loc : e.location = lv

/-- close a goal `St … e'` where `e'` is an update of `e` and `h : St … e`. -/
macro "st_close " h:ident : tactic =>
  `(tactic| (constructor <;> first
    | rfl
    | simp only [($h).acc, ($h).shf, ($h).np, ($h).vb, ($h).nuc, ($h).msg, ($h).vt, ($h).vi, ($h).dna, ($h).qu,
        ($h).loc]))

theorem seq_norm_spec {ε} {m : R (Flow ε)} {k : ε → R (Flow ε)} (Q P : ε → Prop)
    (hm : ∃ e1, m = .ok (.norm e1) ∧ Q e1) (hk : ∀ e1, Q e1 → ∃ e2, k e1 = .ok (.norm e2) ∧ P e2) :
    ∃ e2, seq m k = .ok (.norm e2) ∧ P e2 := by
  obtain ⟨e1, rfl, hq⟩ := hm; exact hk e1 hq

/-- what one iteration of either loop establishes: the next vertex is `a.ent w j`, nucleotide `j` was
emitted. -/
def StepPost (a : Acc) (tbl : Option Tbl) (bits : List Nat) (vtLen : Nat) (verbose : Bool) (w : Nat)
    (pre : List Char) (j : Nat) (qv lv : PV) (e' : Gen.encode.Env) : Prop :=
  ∃ w' : Nat, a.ent w j = (w' : Int) ∧ w' < a.size ∧
    St a tbl bits vtLen verbose w' (pre ++ [nucChar j]) qv lv e'

section
variable {a : Acc} {tbl : Option Tbl} {bits : List Nat} {vtLen : Nat} {verbose : Bool}

/-- the statement `if shuffles is not None: remainder = argsort(shuffles[v, used])[remainder]`. -/
theorem shuffle_stmt {ε} (ht : TblOK tbl a) {w : Nat} (hw : w < a.size) {d : Nat}
    (hd : d < (a.live w).length) {S V U Rm : PV} {e : ε} {upd : PV → ε}
    (hS : S = tblPV tbl) (hV : V = .int (w : Int)) (hU : U = idxPV (a.live w)) (hR : Rm = .int (d : Int)) :
    ∃ e1, ((bnd (.ok (!pyIsNone S)) fun c =>
        if c then
          bnd (bnd (bnd (npIndex2 S V U) fun t1 => npArgsort t1) fun t2 => pyIndex t2 Rm) fun t3 =>
          .ok (.norm (upd t3))
        else .ok (.norm e)) : R (Flow ε)) = .ok (.norm e1) ∧
      ((tbl = Option.none ∧ e1 = e) ∨ e1 = upd (.int ((digitToPos tbl w (a.live w) d : Nat) : Int))) := by
  subst hS hV hU hR
  cases tbl with
  | none => exact ⟨e, rfl, Or.inl ⟨rfl, rfl⟩⟩
  | some t =>
    obtain ⟨hv, h4⟩ := tblOK_row ht rfl hw
    refine ⟨_, ?_, Or.inr rfl⟩
    simp only [tblPV, pyIsNone_accPV, Bool.not_false, bnd_ok, if_true,
      shuffle_spec t hv h4 (fun j hj => live_lt_four a w hj) hd]

/-- `k1`: pick the column (normal mode). -/
theorem k1_spec (F : Nat) {w : Nat} {pre : List Char} {qv lv : PV} {e : Gen.encode.Env}
    (h : St a tbl bits vtLen verbose w pre qv lv e) {used : List Nat} (hu : e.used_indices = idxPV used)
    {p : Nat} (hr : e.remainder = .int (p : Int)) (hp : p < used.length) :
    ∃ e', Gen.encode.k1 F e = .ok (.norm e') ∧ St a tbl bits vtLen verbose w pre qv lv e' ∧
      e'.value = .int ((used.getD p 0 : Nat) : Int) := by
  simp only [Gen.encode.k1, hu, hr, pyIndex_idxPV hp, bnd_ok, h.np, truthy_bool, Bool.false_eq_true, if_false]
  exact ⟨_, rfl, by st_close h, rfl⟩

/-- `k2`: emit the nucleotide and move on (normal mode). -/
theorem k2_spec (ha : a.WF) (F : Nat) {w : Nat} (hw : w < a.size) {pre : List Char} {qv lv : PV}
    {e : Gen.encode.Env}
    (h : St a tbl bits vtLen verbose w pre qv lv e) {j : Nat} (hval : e.value = .int (j : Int))
    (hj : j ∈ a.live w) :
    ∃ e', Gen.encode.k2 F e = .ok (.norm e') ∧ StepPost a tbl bits vtLen verbose w pre j qv lv e' := by
  obtain ⟨w', hent, hw'⟩ := ent_live a ha hw hj
  have h4 := live_lt_four a w hj
  simp only [Gen.encode.k2, h.nuc, hval, pyIndex_ACGT h4, bnd_ok, h.acc, h.vi, ent_spec a ha hw h4, h.dna,
    npAdd_str, h.vb, truthy_bool, pyNe_def, ite_self, hent]
  exact ⟨_, rfl, w', hent, hw', by st_close h⟩

theorem selectArc_eq (a : Acc) (tbl : Option Tbl) (w : Int) (d : Nat) :
    (a.live w).getD (digitToPos tbl w (a.live w) d) 0 = selectArc a tbl w d := rfl

/-- one iteration of the normal-mode loop at a branching vertex. -/
theorem while1_body_branch (ha : a.WF) (ht : TblOK tbl a) (F : Nat) {w : Nat} (hw : w < a.size)
    {pre : List Char} {q : Dec} {lv : PV} {e : Gen.encode.Env}
    (h : St a tbl bits vtLen verbose w pre (dstr q) lv e) (hq : Digits q) (hlen : 1 < (a.live w).length) :
    ∃ e', Gen.encode.while1_body F e = .ok (.norm e') ∧
      StepPost a tbl bits vtLen verbose w pre
        (selectArc a tbl w (calculusDivision q (a.live w).length).2.toNat)
        (dstr (calculusDivision q (a.live w).length).1) lv e' := by
  have hle := live_length_le_four a w
  have hn10 : (a.live w).length < 10 := by omega
  obtain ⟨hq', r, hr, hsnd⟩ := calculusDivision_digits hq (b := (a.live w).length) (by omega) hn10
  have hr10 : r < 10 := by omega
  have hgt : pyGt (.int ((a.live w).length : Int)) (.int 1) = .ok true := by
    rw [pyGt_int]; simp; omega
  have hdiv := tie_calculus_division q (a.live w).length F hq hn10
  rw [dstr_singleton] at hdiv
  simp only [Gen.encode.while1_body, h.acc, h.vi, used_spec a ha hw, bnd_ok, pyLen_idxPV, hgt, if_true,
    pyStr_digit hn10, h.qu, hdiv, pyUnpack_two_tup, getD_cons_zero', getD_cons_one', hsnd, dstr_singleton,
    pyInt_digit hr10, Dec.toNat_single]
  apply seq_norm_spec (fun e2 => St a tbl bits vtLen verbose w pre
      (dstr (calculusDivision q (a.live w).length).1) lv e2 ∧
      e2.value = .int ((selectArc a tbl w r : Nat) : Int))
  · apply seq_norm_spec (fun e1 => St a tbl bits vtLen verbose w pre
        (dstr (calculusDivision q (a.live w).length).1) lv e1 ∧ e1.used_indices = idxPV (a.live w) ∧
        e1.remainder = .int ((digitToPos tbl w (a.live w) r : Nat) : Int))
    · obtain ⟨e1, h1, hc⟩ := shuffle_stmt ht hw (d := r) (by omega) (by exact h.shf) (by rfl) (by rfl) (by rfl)
      refine ⟨e1, h1, ?_⟩
      rcases hc with ⟨rfl, rfl⟩ | rfl
      · exact ⟨by st_close h, rfl, rfl⟩
      · exact ⟨by st_close h, rfl, rfl⟩
    · intro e1 ⟨hs1, hu1, hr1⟩
      have := k1_spec F hs1 hu1 hr1 (digitToPos_lt tbl w (a.live w) (by omega))
      rwa [selectArc_eq] at this
  · intro e2 ⟨hs2, hv2⟩
    exact k2_spec ha F hw hs2 hv2 (selectArc_mem a tbl w (by unfold Acc.outDeg; omega))

/-- one iteration of the normal-mode loop at a vertex with one arc. -/
theorem while1_body_single (ha : a.WF) (F : Nat) {w : Nat} (hw : w < a.size)
    {pre : List Char} {qv lv : PV} {e : Gen.encode.Env}
    (h : St a tbl bits vtLen verbose w pre qv lv e) (hlen : (a.live w).length = 1) :
    ∃ e', Gen.encode.while1_body F e = .ok (.norm e') ∧
      StepPost a tbl bits vtLen verbose w pre ((a.live w).getD 0 0) qv lv e' := by
  have hgt : pyGt (.int ((a.live w).length : Int)) (.int 1) = .ok false := by
    rw [pyGt_int]; simp; omega
  have hmem : (a.live w).getD 0 0 ∈ a.live w := by
    rw [list_getD_eq_getElem _ _ (by omega : 0 < (a.live w).length)]; exact List.getElem_mem _
  have heq : (((a.live w).length : Int) == 1) = true := by simp; omega
  simp only [Gen.encode.while1_body, h.acc, h.vi, used_spec a ha hw, bnd_ok, pyLen_idxPV, hgt,
    Bool.false_eq_true, if_false, pyEq_def, eqb_int, heq, if_true,
    pyIndex_idxPV_zero (by omega : 0 < (a.live w).length), h.np, truthy_bool, seq_norm]
  exact k2_spec ha F hw (by st_close h) rfl hmem

/-- the normal-mode loop at a vertex without arcs. -/
theorem while1_body_dead (ha : a.WF) (F : Nat) {w : Nat} (hw : w < a.size)
    {pre : List Char} {qv lv : PV} {e : Gen.encode.Env}
    (h : St a tbl bits vtLen verbose w pre qv lv e) (hlen : (a.live w).length = 0) :
    Gen.encode.while1_body F e = .error .valueError := by
  have hgt : pyGt (.int ((a.live w).length : Int)) (.int 1) = .ok false := by
    rw [pyGt_int]; simp; omega
  have heq : (((a.live w).length : Int) == 1) = false := by simp; omega
  simp only [Gen.encode.while1_body, h.acc, h.vi, used_spec a ha hw, bnd_ok, pyLen_idxPV, hgt,
    Bool.false_eq_true, if_false, pyEq_def, eqb_int, heq, seq_error]

theorem while1_cond_spec (F : Nat) {w : Nat} {pre : List Char} {q : Dec} {lv : PV} {e : Gen.encode.Env}
    (h : St a tbl bits vtLen verbose w pre (dstr q) lv e) (hq : Digits q) :
    Gen.encode.while1_cond F e = .ok (!decide (q = [0])) := by
  have h0 : Digits [0] := Digits_singleton.mpr (by omega)
  simp only [Gen.encode.while1_cond, h.qu, pyNe_def, str_lit_zero, eqb_dstr hq h0]

/-- how a loop of the code follows a loop of the model: same error, or a normal end in a state
described by the model's result. -/
def LoopPost (P : List Char → Gen.encode.Env → Prop) (r : R (List Char)) (m : R (Flow Gen.encode.Env)) : Prop :=
  match r with
  | .ok s => ∃ e', m = .ok (.norm e') ∧ P s e'
  | .error err => m = .error err

theorem LoopPost.cons {P P' : List Char → Gen.encode.Env → Prop} {r : R (List Char)}
    {m : R (Flow Gen.encode.Env)} (c : Char) (h : LoopPost P' r m) (hp : ∀ s e', P' s e' → P (c :: s) e') :
    LoopPost P (r.map (c :: ·)) m := by
  cases r with
  | error err => exact h
  | ok s => obtain ⟨e', h1, h2⟩ := h; exact ⟨e', h1, hp s e' h2⟩

/-- the state after either loop: the strand is the prefix plus the model's output. -/
def Done (a : Acc) (tbl : Option Tbl) (bits : List Nat) (vtLen : Nat) (verbose : Bool) (pre : List Char)
    (s : List Char) (e' : Gen.encode.Env) : Prop :=
  ∃ (w' : Nat) (qv' lv' : PV), St a tbl bits vtLen verbose w' (pre ++ s) qv' lv' e'

theorem Done.cons {pre : List Char} {c : Char} {s : List Char} {e' : Gen.encode.Env}
    (h : Done a tbl bits vtLen verbose (pre ++ [c]) s e') : Done a tbl bits vtLen verbose pre (c :: s) e' := by
  obtain ⟨w', qv', lv', h⟩ := h
  refine ⟨w', qv', lv', ?_⟩
  simpa using h

/-- the normal-mode loop follows `encodeNormalLoop` iteration by iteration. -/
theorem while1_loop (ha : a.WF) (ht : TblOK tbl a) (F : Nat) (lv : PV) :
    ∀ (f w : Nat) (q : Dec) (pre : List Char) (e : Gen.encode.Env), w < a.size →
      St a tbl bits vtLen verbose w pre (dstr q) lv e → Digits q →
      LoopPost (Done a tbl bits vtLen verbose pre) (encodeNormalLoop a tbl f w q)
        (whileLoop (Gen.encode.while1_cond F) (Gen.encode.while1_body F) f e) := by
  intro f
  induction f with
  | zero => intro w q pre e _ _ _; exact rfl
  | succ f ih =>
    intro w q pre e hw h hq
    rw [encodeNormalLoop]
    by_cases hz : q = [0]
    · have hc : Gen.encode.while1_cond F e = .ok false := by
        rw [while1_cond_spec F h hq]; simp [hz]
      rw [if_pos hz, whileLoop_false hc]
      exact ⟨e, rfl, w, _, _, by simpa using h⟩
    · have hc : Gen.encode.while1_cond F e = .ok true := by
        rw [while1_cond_spec F h hq]; simp [hz]
      rw [if_neg hz]
      by_cases h1 : (a.live w).length > 1
      · simp only [h1, if_true]
        obtain ⟨e1, hb, w', hent, hw', hs1⟩ := while1_body_branch ha ht F hw h hq h1
        rw [whileLoop_true_norm hc hb, hent]
        have hq' := (calculusDivision_digits hq (b := (a.live w).length) (by omega)
          (by have := live_length_le_four a w; omega)).1
        exact (ih w' _ _ e1 hw' hs1 hq').cons _ (fun s e' hd => hd.cons)
      · simp only [h1, if_false]
        by_cases h2 : (a.live w).length = 1
        · simp only [h2, if_true]
          obtain ⟨e1, hb, w', hent, hw', hs1⟩ := while1_body_single ha F hw h h2
          rw [whileLoop_true_norm hc hb, hent]
          exact (ih w' _ _ e1 hw' hs1 hq).cons _ (fun s e' hd => hd.cons)
        · simp only [h2, if_false]
          rw [whileLoop_true_error hc (while1_body_dead ha F hw h (by omega))]
          exact rfl

/-! ### fast mode -/

theorem k3_spec (F : Nat) {w : Nat} {pre : List Char} {qv : PV} {loc : Nat} {e : Gen.encode.Env}
    (h : St a tbl bits vtLen verbose w pre qv (.int (loc : Int)) e) {used : List Nat}
    (hu : e.used_indices = idxPV used) {p : Nat} (hr : e.remainder = .int (p : Int)) (hp : p < used.length) :
    ∃ e', Gen.encode.k3 F e = .ok (.norm e') ∧
      St a tbl bits vtLen verbose w pre qv (.int ((loc + 2 : Nat) : Int)) e' ∧
      e'.value = .int ((used.getD p 0 : Nat) : Int) := by
  have hc : (loc : Int) + 2 = ((loc + 2 : Nat) : Int) := by push_cast; rfl
  simp only [Gen.encode.k3, hu, hr, pyIndex_idxPV hp, bnd_ok, h.loc, npAdd_int, hc]
  exact ⟨_, rfl, by st_close h, rfl⟩

theorem k5_spec (F : Nat) {w : Nat} {pre : List Char} {qv : PV} {loc : Nat} {e : Gen.encode.Env}
    (h : St a tbl bits vtLen verbose w pre qv (.int (loc : Int)) e) {used : List Nat}
    (hu : e.used_indices = idxPV used) {p : Nat} (hr : e.remainder = .int (p : Int)) (hp : p < used.length) :
    ∃ e', Gen.encode.k5 F e = .ok (.norm e') ∧
      St a tbl bits vtLen verbose w pre qv (.int ((loc + 1 : Nat) : Int)) e' ∧
      e'.value = .int ((used.getD p 0 : Nat) : Int) := by
  have hc : (loc : Int) + 1 = ((loc + 1 : Nat) : Int) := by push_cast; rfl
  simp only [Gen.encode.k5, hu, hr, pyIndex_idxPV hp, bnd_ok, h.loc, npAdd_int, hc]
  exact ⟨_, rfl, by st_close h, rfl⟩

theorem k4_spec (ht : TblOK tbl a) (F : Nat) {w : Nat} (hw : w < a.size) {pre : List Char} {qv : PV}
    {loc : Nat} {e : Gen.encode.Env}
    (h : St a tbl bits vtLen verbose w pre qv (.int (loc : Int)) e)
    (hu : e.used_indices = idxPV (a.live w)) {d : Nat} (hr : e.remainder = .int (d : Int))
    (hd : d < (a.live w).length) :
    ∃ e', Gen.encode.k4 F e = .ok (.norm e') ∧
      St a tbl bits vtLen verbose w pre qv (.int ((loc + 2 : Nat) : Int)) e' ∧
      e'.value = .int ((selectArc a tbl w d : Nat) : Int) := by
  simp only [Gen.encode.k4]
  apply seq_norm_spec (fun e1 => St a tbl bits vtLen verbose w pre qv (.int (loc : Int)) e1 ∧
      e1.used_indices = idxPV (a.live w) ∧ e1.remainder = .int ((digitToPos tbl w (a.live w) d : Nat) : Int))
  · obtain ⟨e1, h1, hc⟩ := shuffle_stmt ht hw hd (by exact h.shf) (by exact h.vi) (by exact hu) (by exact hr)
    refine ⟨e1, h1, ?_⟩
    rcases hc with ⟨rfl, rfl⟩ | rfl
    · exact ⟨h, hu, hr⟩
    · exact ⟨by st_close h, hu, rfl⟩
  · intro e1 ⟨hs1, hu1, hr1⟩
    have := k3_spec F hs1 hu1 hr1 (digitToPos_lt tbl w (a.live w) hd)
    rwa [selectArc_eq] at this

/-- `k7`: emit the nucleotide and move on (fast mode). -/
theorem k7_spec (ha : a.WF) (F : Nat) {w : Nat} (hw : w < a.size) {pre : List Char} {qv lv : PV}
    {e : Gen.encode.Env}
    (h : St a tbl bits vtLen verbose w pre qv lv e) {j : Nat} (hval : e.value = .int (j : Int))
    (hj : j ∈ a.live w) :
    ∃ e', Gen.encode.k7 F e = .ok (.norm e') ∧ StepPost a tbl bits vtLen verbose w pre j qv lv e' := by
  obtain ⟨w', hent, hw'⟩ := ent_live a ha hw hj
  have h4 := live_lt_four a w hj
  simp only [Gen.encode.k7, h.nuc, hval, pyIndex_ACGT h4, bnd_ok, h.acc, h.vi, ent_spec a ha hw h4, h.dna,
    npAdd_str, h.np, truthy_bool, Bool.false_eq_true, if_false, seq_norm, Gen.encode.k6, h.vb, ite_self, hent]
  exact ⟨_, rfl, w', hent, hw', by st_close h⟩

theorem while2_cond_spec (F : Nat) {w : Nat} {pre : List Char} {qv : PV} {loc : Nat} {e : Gen.encode.Env}
    (h : St a tbl bits vtLen verbose w pre qv (.int (loc : Int)) e) :
    Gen.encode.while2_cond F e = .ok (decide (loc < bits.length)) := by
  simp only [Gen.encode.while2_cond, h.msg, h.loc, pyLen_bitsPV, bnd_ok, pyLt_nat]

theorem getD_le_one {bits : List Nat} (hb : ∀ x ∈ bits, x ≤ 1) (i : Nat) : bits.getD i 0 ≤ 1 := by
  by_cases h : i < bits.length
  · rw [list_getD_eq_getElem _ _ h]; exact hb _ (List.getElem_mem h)
  · simp [List.getD_eq_getElem?_getD, List.getElem?_eq_none (by omega : bits.length ≤ i)]

/-- one iteration of the fast loop at a vertex with four arcs. -/
theorem while2_body_four (ha : a.WF) (ht : TblOK tbl a) (hb : ∀ x ∈ bits, x ≤ 1) (F : Nat) {w : Nat}
    (hw : w < a.size) {pre : List Char} {qv : PV} {loc : Nat} {e : Gen.encode.Env}
    (h : St a tbl bits vtLen verbose w pre qv (.int (loc : Int)) e) (hloc : loc < bits.length)
    (hlen : (a.live w).length = 4) :
    ∃ e', Gen.encode.while2_body F e = .ok (.norm e') ∧
      StepPost a tbl bits vtLen verbose w pre
        (selectArc a tbl w (bits.getD loc 0 * 2 + bits.getD (loc + 1) 0)) qv (.int ((loc + 2 : Nat) : Int)) e' := by
  have heq : (((a.live w).length : Int) == 4) = true := by simp; omega
  have hc1 : (loc : Int) + 1 = ((loc + 1 : Nat) : Int) := by push_cast; rfl
  have h0 := getD_le_one hb loc
  have h1 := getD_le_one hb (loc + 1)
  simp only [Gen.encode.while2_body, h.acc, h.vi, used_spec a ha hw, bnd_ok, pyLen_idxPV, pyEq_def, eqb_int,
    heq, if_true, h.msg, h.loc, pyIndex_bitsPV hloc, npMul_int, npAdd_int, hc1, pyLen_bitsPV, pyLt_nat]
  apply seq_norm_spec (fun e2 => St a tbl bits vtLen verbose w pre qv (.int ((loc + 2 : Nat) : Int)) e2 ∧
      e2.value = .int ((selectArc a tbl w (bits.getD loc 0 * 2 + bits.getD (loc + 1) 0) : Nat) : Int))
  · by_cases hn : loc + 1 < bits.length
    · simp only [hn, decide_true, if_true, pyIndex_bitsPV hn, bnd_ok, npAdd_int, seq_norm]
      exact k4_spec ht F hw (by st_close h) rfl (by push_cast; rfl) (by omega)
    · have hz : bits.getD (loc + 1) 0 = 0 := by
        simp [List.getD_eq_getElem?_getD, List.getElem?_eq_none (by omega : bits.length ≤ loc + 1)]
      simp only [hn, decide_false, Bool.false_eq_true, if_false, seq_norm, hz, Nat.add_zero]
      exact k4_spec ht F hw (by st_close h) rfl (by push_cast; rfl) (by omega)
  · intro e2 ⟨hs2, hv2⟩
    exact k7_spec ha F hw hs2 hv2 (selectArc_mem a tbl w (by unfold Acc.outDeg; omega))

/-- one iteration of the fast loop at a vertex with two arcs. -/
theorem while2_body_two (ha : a.WF) (ht : TblOK tbl a) (hb : ∀ x ∈ bits, x ≤ 1) (F : Nat) {w : Nat}
    (hw : w < a.size) {pre : List Char} {qv : PV} {loc : Nat} {e : Gen.encode.Env}
    (h : St a tbl bits vtLen verbose w pre qv (.int (loc : Int)) e) (hloc : loc < bits.length)
    (hlen : (a.live w).length = 2) :
    ∃ e', Gen.encode.while2_body F e = .ok (.norm e') ∧
      StepPost a tbl bits vtLen verbose w pre
        (selectArc a tbl w (bits.getD loc 0)) qv (.int ((loc + 1 : Nat) : Int)) e' := by
  have heq4 : (((a.live w).length : Int) == 4) = false := by simp; omega
  have heq2 : (((a.live w).length : Int) == 2) = true := by simp; omega
  have h0 := getD_le_one hb loc
  simp only [Gen.encode.while2_body, h.acc, h.vi, used_spec a ha hw, bnd_ok, pyLen_idxPV, pyEq_def, eqb_int,
    heq4, heq2, Bool.false_eq_true, if_false, if_true, h.msg, h.loc, pyIndex_bitsPV hloc]
  apply seq_norm_spec (fun e2 => St a tbl bits vtLen verbose w pre qv (.int ((loc + 1 : Nat) : Int)) e2 ∧
      e2.value = .int ((selectArc a tbl w (bits.getD loc 0) : Nat) : Int))
  · apply seq_norm_spec (fun e1 => St a tbl bits vtLen verbose w pre qv (.int (loc : Int)) e1 ∧
        e1.used_indices = idxPV (a.live w) ∧
        e1.remainder = .int ((digitToPos tbl w (a.live w) (bits.getD loc 0) : Nat) : Int))
    · obtain ⟨e1, h1, hc⟩ := shuffle_stmt ht hw (d := bits.getD loc 0) (by omega) (by exact h.shf) (by rfl)
        (by rfl) (by rfl)
      refine ⟨e1, h1, ?_⟩
      rcases hc with ⟨rfl, rfl⟩ | rfl
      · exact ⟨by st_close h, rfl, rfl⟩
      · exact ⟨by st_close h, rfl, rfl⟩
    · intro e1 ⟨hs1, hu1, hr1⟩
      have := k5_spec F hs1 hu1 hr1 (digitToPos_lt tbl w (a.live w) (by omega))
      rwa [selectArc_eq] at this
  · intro e2 ⟨hs2, hv2⟩
    exact k7_spec ha F hw hs2 hv2 (selectArc_mem a tbl w (by unfold Acc.outDeg; omega))

/-- one iteration of the fast loop at a vertex with one arc. -/
theorem while2_body_one (ha : a.WF) (F : Nat) {w : Nat}
    (hw : w < a.size) {pre : List Char} {qv lv : PV} {e : Gen.encode.Env}
    (h : St a tbl bits vtLen verbose w pre qv lv e) (hlen : (a.live w).length = 1) :
    ∃ e', Gen.encode.while2_body F e = .ok (.norm e') ∧
      StepPost a tbl bits vtLen verbose w pre ((a.live w).getD 0 0) qv lv e' := by
  have heq4 : (((a.live w).length : Int) == 4) = false := by simp; omega
  have heq2 : (((a.live w).length : Int) == 2) = false := by simp; omega
  have heq1 : (((a.live w).length : Int) == 1) = true := by simp; omega
  have hmem : (a.live w).getD 0 0 ∈ a.live w := by
    rw [list_getD_eq_getElem _ _ (by omega : 0 < (a.live w).length)]; exact List.getElem_mem _
  simp only [Gen.encode.while2_body, h.acc, h.vi, used_spec a ha hw, bnd_ok, pyLen_idxPV, pyEq_def, eqb_int,
    heq4, heq2, heq1, Bool.false_eq_true, if_false, if_true,
    pyIndex_idxPV_zero (by omega : 0 < (a.live w).length), seq_norm]
  exact k7_spec ha F hw (by st_close h) rfl hmem

/-- the fast loop at a vertex with three arcs or none. -/
theorem while2_body_other (ha : a.WF) (F : Nat) {w : Nat}
    (hw : w < a.size) {pre : List Char} {qv lv : PV} {e : Gen.encode.Env}
    (h : St a tbl bits vtLen verbose w pre qv lv e) (h4 : (a.live w).length ≠ 4)
    (h2 : (a.live w).length ≠ 2) (h1 : (a.live w).length ≠ 1) :
    Gen.encode.while2_body F e = .error .valueError := by
  have heq4 : (((a.live w).length : Int) == 4) = false := by simp; omega
  have heq2 : (((a.live w).length : Int) == 2) = false := by simp; omega
  have heq1 : (((a.live w).length : Int) == 1) = false := by simp; omega
  simp only [Gen.encode.while2_body, h.acc, h.vi, used_spec a ha hw, bnd_ok, pyLen_idxPV, pyEq_def, eqb_int,
    heq4, heq2, heq1, Bool.false_eq_true, if_false, ite_self, seq_error]

/-- the model loop on a suffix of the message, in terms of positions. -/
theorem encodeFastLoop_drop (a : Acc) (tbl : Option Tbl) (bits : List Nat) (f : Nat) (v : Int) {loc : Nat}
    (hloc : loc < bits.length) :
    encodeFastLoop a tbl (f + 1) v (bits.drop loc) =
      if (a.live v).length = 4 then
        (encodeFastLoop a tbl f
          (a.ent v (selectArc a tbl v (bits.getD loc 0 * 2 + bits.getD (loc + 1) 0))) (bits.drop (loc + 2))).map
          (nucChar (selectArc a tbl v (bits.getD loc 0 * 2 + bits.getD (loc + 1) 0)) :: ·)
      else if (a.live v).length = 2 then
        (encodeFastLoop a tbl f (a.ent v (selectArc a tbl v (bits.getD loc 0))) (bits.drop (loc + 1))).map
          (nucChar (selectArc a tbl v (bits.getD loc 0)) :: ·)
      else if (a.live v).length = 1 then
        (encodeFastLoop a tbl f (a.ent v ((a.live v).getD 0 0)) (bits.drop loc)).map
          (nucChar ((a.live v).getD 0 0) :: ·)
      else .error .valueError := by
  have h0 : bits.getD loc 0 = bits[loc] := list_getD_eq_getElem _ _ hloc
  have h1 : bits.getD (loc + 1) 0 = (bits.drop (loc + 1)).headD 0 := by
    simp [List.getD_eq_getElem?_getD, List.headD_eq_head?_getD, List.head?_drop]
  have h2 : (bits.drop (loc + 1)).drop 1 = bits.drop (loc + 2) := by simp [List.drop_drop]
  rw [h0, h1, ← h2]
  conv => lhs; rw [List.drop_eq_getElem_cons hloc, encodeFastLoop]
  conv => rhs; rw [List.drop_eq_getElem_cons hloc]

/-- the fast loop follows `encodeFastLoop` iteration by iteration. -/
theorem while2_loop (ha : a.WF) (ht : TblOK tbl a) (hb : ∀ x ∈ bits, x ≤ 1) (F : Nat) (qv : PV) :
    ∀ (f w loc : Nat) (pre : List Char) (e : Gen.encode.Env), w < a.size →
      St a tbl bits vtLen verbose w pre qv (.int (loc : Int)) e →
      LoopPost (Done a tbl bits vtLen verbose pre) (encodeFastLoop a tbl f w (bits.drop loc))
        (whileLoop (Gen.encode.while2_cond F) (Gen.encode.while2_body F) f e) := by
  intro f
  induction f with
  | zero => intro w loc pre e _ _; exact rfl
  | succ f ih =>
    intro w loc pre e hw h
    by_cases hloc : loc < bits.length
    · have hc : Gen.encode.while2_cond F e = .ok true := by
        rw [while2_cond_spec F h]; simp [hloc]
      rw [encodeFastLoop_drop a tbl bits f w hloc]
      by_cases h4 : (a.live w).length = 4
      · rw [if_pos h4]
        obtain ⟨e1, hbd, w', hent, hw', hs1⟩ := while2_body_four ha ht hb F hw h hloc h4
        rw [whileLoop_true_norm hc hbd, hent]
        exact (ih w' _ _ e1 hw' hs1).cons _ (fun s e' hd => hd.cons)
      · rw [if_neg h4]
        by_cases h2 : (a.live w).length = 2
        · rw [if_pos h2]
          obtain ⟨e1, hbd, w', hent, hw', hs1⟩ := while2_body_two ha ht hb F hw h hloc h2
          rw [whileLoop_true_norm hc hbd, hent]
          exact (ih w' _ _ e1 hw' hs1).cons _ (fun s e' hd => hd.cons)
        · rw [if_neg h2]
          by_cases h1 : (a.live w).length = 1
          · rw [if_pos h1]
            obtain ⟨e1, hbd, w', hent, hw', hs1⟩ := while2_body_one ha F hw h h1
            rw [whileLoop_true_norm hc hbd, hent]
            exact (ih w' _ _ e1 hw' hs1).cons _ (fun s e' hd => hd.cons)
          · rw [if_neg h1, whileLoop_true_error hc (while2_body_other ha F hw h h4 h2 h1)]
            exact rfl
    · have hc : Gen.encode.while2_cond F e = .ok false := by
        rw [while2_cond_spec F h]; simp [hloc]
      rw [List.drop_eq_nil_of_le (by omega), whileLoop_false hc]
      have : encodeFastLoop a tbl (f + 1) w [] = .ok [] := by rw [encodeFastLoop]
      rw [this]
      exact ⟨e, rfl, w, _, _, by simpa using h⟩

/-! ### after the loops -/

/-- what `encode` does with the strand. -/
def tail (vtLen : Nat) (s : List Char) : R (List Char × Option (List Char)) :=
  if vtLen > 0 then (setVt s vtLen).bind fun c => pure (s, some c) else pure (s, Option.none)

theorem k9_spec (F : Nat) (hf : 2 * vtLen + 2 ≤ F) {s : List Char} {e : Gen.encode.Env}
    (h : Done a tbl bits vtLen verbose [] s e) :
    callResult (Gen.encode.k9 F e) = (tail vtLen s).map encResultPV := by
  obtain ⟨w', qv', lv', h⟩ := h
  have hdna : e.dna_sequence = cstr s := h.dna
  simp only [Gen.encode.k9, h.np, truthy_bool, Bool.false_eq_true, if_false, bnd_ok, seq_norm, Gen.encode.k8,
    h.vt, pyGt_nat_zero, hdna, tail]
  by_cases hv : 0 < vtLen
  · simp only [hv, decide_true, if_true, tie_set_vt s vtLen F hv hf]
    cases setVt s vtLen with
    | error err => rfl
    | ok c => rfl
  · simp only [hv, decide_false, Bool.false_eq_true, if_false]
    rfl

theorem tail_spec (F : Nat) (hf : 2 * vtLen + 2 ≤ F) {r : R (List Char)} {m : R (Flow Gen.encode.Env)}
    (h : LoopPost (Done a tbl bits vtLen verbose []) r m) :
    callResult (seq m (Gen.encode.k9 F)) = (r.bind (tail vtLen)).map encResultPV := by
  cases r with
  | error err => have : m = .error err := h; rw [this]; rfl
  | ok s =>
    obtain ⟨e', rfl, hd⟩ := h
    exact k9_spec F hf hd

theorem encode_eq (a : Acc) (tbl : Option Tbl) (v : Int) (bits : List Nat) (fast : Bool) (vtLen fuel : Nat) :
    Dsw.encode a tbl v bits fast vtLen fuel =
      (if fast then encodeFastLoop a tbl fuel v bits
        else encodeNormalLoop a tbl fuel v (bitToNumberStr bits)).bind (tail vtLen) := by
  unfold Dsw.encode tail
  cases fast <;> rfl

end
end EncTie

open EncTie

theorem tie_encode (a : Acc) (tbl : Option Tbl) (v : Nat) (bits : List Nat) (fast : Bool)
    (vtLen fuel : Nat) (verbose : Bool)
    (ha : a.WF) (hv : v < a.size) (ht : TblOK tbl a) (hb : ∀ x ∈ bits, x ≤ 1) (hf : 2 * vtLen + 3 ≤ fuel) :
    Gen.encode fuel (bitsPV bits) (accPV a) (.int (v : Int)) (.bool fast) (.int (vtLen : Int)) (tblPV tbl)
        (.bool false) (.bool verbose) =
      (Dsw.encode a tbl v bits fast vtLen fuel).map encResultPV := by
  rw [encode_eq]
  cases fast with
  | false =>
    simp only [Gen.encode, Gen.encode.body, truthy_bool, bnd_ok, Bool.not_false, if_true,
      bit_to_number_arr bits fuel verbose hb (by omega), pyLen_dstr, Bool.false_eq_true, if_false]
    exact tail_spec fuel (by omega)
      (while1_loop ha ht fuel _ fuel v _ [] _ hv (by constructor <;> rfl) (Digits_bitToNumberStr bits hb))
  | true =>
    simp only [Gen.encode, Gen.encode.body, truthy_bool, bnd_ok, Bool.not_true, Bool.false_eq_true, if_false,
      if_true]
    exact tail_spec fuel (by omega)
      (while2_loop ha ht hb fuel _ fuel v 0 [] _ hv (by constructor <;> rfl))

end Dsw.Tie
