import DswModel.Tie.SwStubs
/-!
# Translation tie — `encode` (dsw/spiderweb.py)

`Dsw.Gen.encode` (generated from the Python source on every run) computes the model function
`Dsw.encode` — both modes, with and without a shuffle table, with and without a check, including
the error outcomes and running out of fuel at the same iteration — for every well-formed accessor
(`Acc.WF`: four entries per row, each `-1` or a row index), every start vertex of it, every table
the code can index (`TblOK`) and every 0/1 message (`need_path=False`; `verbose` has no influence).
-/
namespace Dsw.Tie
open Dsw Dsw.Py Dsw.Tie.Stub

theorem tie_encode (a : Acc) (tbl : Option Tbl) (v : Nat) (bits : List Nat) (fast : Bool)
    (vtLen fuel : Nat) (verbose : Bool)
    (ha : a.WF) (hv : v < a.size) (ht : TblOK tbl a) (hb : ∀ x ∈ bits, x ≤ 1) (hf : 2 * vtLen + 3 ≤ fuel) :
    Gen.encode fuel (bitsPV bits) (accPV a) (.int (v : Int)) (.bool fast) (.int (vtLen : Int)) (tblPV tbl)
        (.bool false) (.bool verbose) =
      (Dsw.encode a tbl v bits fast vtLen fuel).map encResultPV := by
  sorry

end Dsw.Tie
