import DswModel.Tie.BfDefs
import DswModel.Tie.PyLemmas
import DswModel.Tie.BfLib
/-!
# DswModel.Tie.BfValid — `dsw/biofilter.py` (`LocalBioFilter`) : generated code = model

`Gen.LocalBioFilter.__init__` / `Gen.LocalBioFilter.valid` are regenerated from the Python source by
`harness/py2lean.py`; `Dsw.FilterCfg.accepted` / `Dsw.FilterCfg.valid` are the hand-written model the property theorems
C02 / C11 / C12 are about. The double-precision products of the GC rule are part of BOTH sides: the generated code
multiplies `.rat` values with `pyMul` / `pySub` (round to nearest double, `Model/Float.lean`), the model's integer
thresholds are derived from the same bounds by `floatGcRule`.

Proof plan (`BfLib.lean` has the primitive lemmas). `valid` is four `all`-style loops (`return False` on the first
offending item) in a row; each is lifted with `seq_forLoop_all` from a body lemma, the continuations `k8 … k1` are proved
last to first, each returning the conjunction of the remaining parts of `validObserved` (`runPart`, `motifPart`,
`gcPart`). The invariant `VInv` says that `self` and `observed_dna_sequence` are unchanged.
-/
namespace Dsw.Tie
open Dsw Dsw.Py Dsw.Gen

namespace BfTie

/-! ## the model, cut into the four parts the code checks one after the other -/

def runPart (run : Option Nat) (obs : List Char) : Bool :=
  match run with
  | none => true
  | some r => "ACGT".toList.all fun ch => !isInfix (List.replicate (1 + r) ch) obs

def motifPart (motifs : Option (List (List Char))) (obs : List Char) : Bool :=
  match motifs with
  | none => true
  | some ms => ms.all fun m => !isInfix m obs && !isInfix (revComp m) obs

def gcWin (g : GcRule) (w : List Char) : Bool := !((gcCount w : Int) > g.gcHi) && !((gcCount w : Int) < g.gcLo)

def gcPart (k : Nat) (og : Option GcRule) (obs : List Char) : Bool :=
  match og with
  | none => true
  | some g =>
    if obs.length ≥ k then (windows k obs).all (gcWin g)
    else !((gcCount obs : Int) > g.gcHi) && !((atCount obs : Int) > g.atHi)

theorem validObserved_eq (c : FilterCfg) (obs : List Char) :
    validObserved c obs =
      (obs.all (fun ch => (nucIdx ch).isSome) && (runPart c.run obs && (motifPart c.motifs obs && gcPart c.k c.gc obs))) := by
  simp only [validObserved, runPart, motifPart, gcPart, Bool.and_assoc]
  rfl

/-- how the model's thresholds relate to the bounds the object holds. -/
def GcTie (k : Nat) (gc : Option (Dbl × Dbl)) (og : Option GcRule) : Prop :=
  match gc with
  | none => og = none
  | some (lo, hi) => ∃ g, og = some g ∧ 0 < lo.den ∧ 0 < hi.den ∧ floatGcRule lo hi k = some g

abbrev VEnv := Gen.LocalBioFilter.valid.Env

/-- close `VInv … e'` for an environment that differs from `e` in other fields only. -/
local macro "vinv " h:ident : tactic =>
  `(tactic| exact ⟨_, rfl, by first | rfl | exact ($h).1, by first | rfl | exact ($h).2⟩)

/-- `self` and `observed_dna_sequence` are what they were. -/
def VInv (obj : PV) (obs : List Char) (e : VEnv) : Prop :=
  e.«py_self» = obj ∧ e.observed_dna_sequence = .str obs

theorem gcCount_cast (w : List Char) : ((gcCount w : Nat) : Int) = (w.count 'C' : Int) + (w.count 'G' : Int) := by
  simp [gcCount]
theorem atCount_cast (w : List Char) : ((atCount w : Nat) : Int) = (w.count 'A' : Int) + (w.count 'T' : Int) := by
  simp [atCount]

section Valid
variable (fuel k : Nat) (run : Option Nat) (gc : Option (Dbl × Dbl)) (motifs : Option (List (List Char)))
  (obs : List Char)

/-! ### loop 1: every character is a nucleotide -/

theorem for1_body_spec (ch : Char) (e : VEnv) (hI : VInv (bfObj k run gc motifs) obs e) :
    if (nucIdx ch).isSome = true then
      ∃ e', LocalBioFilter.valid.for1_body fuel (.str [ch]) e = .ok (.norm e') ∧ VInv (bfObj k run gc motifs) obs e'
    else LocalBioFilter.valid.for1_body fuel (.str [ch]) e = .ok (.ret (.bool false)) := by
  simp only [LocalBioFilter.valid.for1_body, pyIn_ACGT, bnd_ok]
  cases (nucIdx ch).isSome with
  | true => vinv hI
  | false => simp

/-! ### loop 2: homopolymer runs -/

theorem for2_body_spec (r : Nat) (ch : Char) (e : VEnv) (hI : VInv (bfObj k (some r) gc motifs) obs e) :
    if (!isInfix (List.replicate (1 + r) ch) obs) = true then
      ∃ e', LocalBioFilter.valid.for2_body fuel (.str [ch]) e = .ok (.norm e') ∧
        VInv (bfObj k (some r) gc motifs) obs e'
    else LocalBioFilter.valid.for2_body fuel (.str [ch]) e = .ok (.ret (.bool false)) := by
  have hcast : (1 + (r : Int)) = ((1 + r : Nat) : Int) := by push_cast; rfl
  simp only [LocalBioFilter.valid.for2_body, hI.1, hI.2, getAttr_max_homopolymer_runs, optNatPV, bnd_ok, pyAdd_int,
    pyMul_str_int, hcast, replicateList_natCast_singleton, pyIn_str_str]
  cases isInfix (List.replicate (1 + r) ch) obs with
  | true => simp
  | false => vinv hI

/-! ### loop 3: motifs and their reverse complements -/

theorem k1_spec (m : List Char) (hm : ∀ ch ∈ m, MotifChar ch) (e : VEnv) (hI : VInv (bfObj k run gc motifs) obs e)
    (hs : e.special = .str m) :
    if (!isInfix (revComp m) obs) = true then
      ∃ e', LocalBioFilter.valid.k1 fuel e = .ok (.norm e') ∧ VInv (bfObj k run gc motifs) obs e'
    else LocalBioFilter.valid.k1 fuel e = .ok (.ret (.bool false)) := by
  simp only [LocalBioFilter.valid.k1, hs, hI.2, pyReplace_single, bnd_ok, map_rcChar, pyReverse_str, pyUpper_rc hm,
    pyIn_str_str]
  cases isInfix (revComp m) obs with
  | true => simp
  | false => vinv hI

theorem for3_body_spec (m : List Char) (hm : ∀ ch ∈ m, MotifChar ch) (e : VEnv)
    (hI : VInv (bfObj k run gc motifs) obs e) :
    if (!isInfix m obs && !isInfix (revComp m) obs) = true then
      ∃ e', LocalBioFilter.valid.for3_body fuel (.str m) e = .ok (.norm e') ∧ VInv (bfObj k run gc motifs) obs e'
    else LocalBioFilter.valid.for3_body fuel (.str m) e = .ok (.ret (.bool false)) := by
  simp only [LocalBioFilter.valid.for3_body, hI.2, pyIn_str_str, bnd_ok, seq_guard_ret]
  cases isInfix m obs with
  | true => simp
  | false =>
    simp only [Bool.not_false, Bool.true_and, Bool.false_eq_true, if_false]
    exact k1_spec fuel k run gc motifs obs m hm _ ⟨by first | rfl | exact hI.1, by first | rfl | exact hI.2⟩ rfl

/-! ### loop 4 and the short-string branch: the GC rule -/

theorem k4_spec (e : VEnv) : LocalBioFilter.valid.k4 fuel e = .ok (.ret (.bool true)) := rfl

variable (lo hi : Dbl) (g : GcRule)

/-- `k2`: the lower bound inside the window loop. -/
theorem k2_spec (hlo : 0 < lo.den) (hg : floatGcRule lo hi k = some g) (n : Int) (e : VEnv)
    (hself : e.«py_self» = bfObj k run (some (lo, hi)) motifs) (hn : e.gc_count = .int n) :
    LocalBioFilter.valid.k2 fuel e = if n < g.gcLo then .ok (.ret (.bool false)) else .ok (.norm e) := by
  simp only [LocalBioFilter.valid.k2, hself, hn, getAttr_gc_range, gcPV, bnd_ok, pyIndex_pair_zero,
    getAttr_observed_length, gc_lo_cmp hlo hg, decide_eq_true_eq]

theorem for4_body_spec (hlo : 0 < lo.den) (hhi : 0 < hi.den) (hg : floatGcRule lo hi k = some g) (i : Nat) (e : VEnv)
    (hI : VInv (bfObj k run (some (lo, hi)) motifs) obs e) :
    if gcWin g ((obs.drop i).take k) = true then
      ∃ e', LocalBioFilter.valid.for4_body fuel (.int (i : Int)) e = .ok (.norm e') ∧
        VInv (bfObj k run (some (lo, hi)) motifs) obs e'
    else LocalBioFilter.valid.for4_body fuel (.int (i : Int)) e = .ok (.ret (.bool false)) := by
  have hcast : ((i : Int) + (k : Int)) = ((i + k : Nat) : Int) := by push_cast; rfl
  have hsub : i + k - i = k := by omega
  simp only [LocalBioFilter.valid.for4_body, hI.1, hI.2, getAttr_observed_length, bnd_ok, pyAdd_int, hcast,
    pySliceV_str_nat, hsub, pyCount_single, getAttr_gc_range, gcPV, pyIndex_pair_one, gc_hi_cmp hhi hg,
    decide_eq_true_eq, gcWin, gcCount_cast]
  by_cases h1 : (((obs.drop i).take k).count 'C' : Int) + (((obs.drop i).take k).count 'G' : Int) > g.gcHi
  · simp [h1]
  · rw [if_neg h1, seq_norm, k2_spec fuel k run motifs lo hi g hlo hg _ _ (by rfl) (by rfl)]
    by_cases h2 : (((obs.drop i).take k).count 'C' : Int) + (((obs.drop i).take k).count 'G' : Int) < g.gcLo
    · simp [h1, h2]
    · simp only [h1, h2, decide_false, Bool.not_false, Bool.and_self, if_true, if_false]
      vinv hI

/-- `k3` (the AT count of a string shorter than the window), then `return True`. -/
theorem k3_k4_spec (hlo : 0 < lo.den) (hg : floatGcRule lo hi k = some g) (e : VEnv)
    (hI : VInv (bfObj k run (some (lo, hi)) motifs) obs e) :
    seq (LocalBioFilter.valid.k3 fuel e) (LocalBioFilter.valid.k4 fuel) =
      .ok (.ret (.bool (!decide ((atCount obs : Int) > g.atHi)))) := by
  simp only [LocalBioFilter.valid.k3, hI.1, hI.2, pyCount_single, bnd_ok, pyAdd_int, getAttr_observed_length,
    getAttr_gc_range, gcPV, pyIndex_pair_zero, at_hi_cmp hlo hg, ← atCount_cast, seq_guard_ret, k4_spec]
  cases decide ((atCount obs : Int) > g.atHi) <;> rfl

theorem k5_spec (og : Option GcRule) (hgc : GcTie k gc og) (e : VEnv) (hI : VInv (bfObj k run gc motifs) obs e) :
    LocalBioFilter.valid.k5 fuel e = .ok (.ret (.bool (gcPart k og obs))) := by
  match gc, hgc with
  | none, hgc =>
    have hog : og = none := hgc
    subst hog
    simp only [LocalBioFilter.valid.k5, hI.1, getAttr_gc_range, gcPV, bnd_ok, pyIsNone_none, Bool.not_true,
      Bool.false_eq_true, if_false, seq_norm, k4_spec, gcPart]
  | some (lo, hi), hgc =>
    obtain ⟨g, rfl, hlo, hhi, hg⟩ := hgc
    simp only [LocalBioFilter.valid.k5, hI.1, hI.2, getAttr_gc_range, gcPV, bnd_ok, pyIsNone_list, Bool.not_false,
      if_true, pyLen_str, getAttr_observed_length, pyGe_int, Int.ofNat_le, gcPart, ge_iff_le]
    by_cases hk : k ≤ obs.length
    · have hcast : ((obs.length : Int) - (k : Int) + 1) = ((obs.length + 1 - k : Nat) : Int) := by omega
      simp only [hk, decide_true, if_true, bnd_ok, pySub_int, pyAdd_int, hcast, pyRange1_nat, pyIter_list, windows,
        List.all_map]
      have := seq_forLoop_all (body := LocalBioFilter.valid.for4_body fuel) (VInv (bfObj k run (some (lo, hi)) motifs) obs)
        (fun (i : Nat) => PV.int (i : Int)) (gcWin g ∘ fun i => (obs.drop i).take k)
        (as := List.range (obs.length + 1 - k)) (k := LocalBioFilter.valid.k4 fuel) (rest := true)
        (fun i _ e he => for4_body_spec fuel k run motifs obs lo hi g hlo hhi hg i e he) hI
        (fun e' _ => k4_spec fuel e')
      rw [this, Bool.and_true]
    · simp only [hk, decide_false, Bool.false_eq_true, if_false, pyCount_single, bnd_ok, pyAdd_int, pyIndex_pair_one,
        gc_hi_cmp hhi hg, decide_eq_true_eq, ← gcCount_cast]
      by_cases h1 : (gcCount obs : Int) > g.gcHi
      · simp [h1]
      · rw [if_neg h1, seq_norm, k3_k4_spec fuel k run motifs obs lo hi g hlo hg _ (by exact ⟨rfl, rfl⟩)]
        simp [h1]

variable (og : Option GcRule)

theorem k6_spec (hgc : GcTie k gc og) (hm : ∀ ms, motifs = some ms → ∀ m ∈ ms, ∀ ch ∈ m, MotifChar ch) (e : VEnv)
    (hI : VInv (bfObj k run gc motifs) obs e) :
    LocalBioFilter.valid.k6 fuel e = .ok (.ret (.bool (motifPart motifs obs && gcPart k og obs))) := by
  match motifs, hm, hI with
  | none, _, hI =>
    simp only [LocalBioFilter.valid.k6, hI.1, getAttr_undesired_motifs, motifsPV, bnd_ok, pyIsNone_none, Bool.not_true,
      Bool.false_eq_true, if_false, seq_norm, motifPart, Bool.true_and]
    exact k5_spec fuel k run gc none obs og hgc e hI
  | some ms, hm, hI =>
    simp only [LocalBioFilter.valid.k6, hI.1, getAttr_undesired_motifs, motifsPV, bnd_ok, pyIsNone_list, Bool.not_false,
      if_true, pyIter_list, motifPart]
    exact seq_forLoop_all (VInv (bfObj k run gc (some ms)) obs) PV.str
      (fun m => !isInfix m obs && !isInfix (revComp m) obs)
      (fun m hmem e he => for3_body_spec fuel k run gc (some ms) obs m (hm ms rfl m hmem) e he) hI
      (fun e' he' => k5_spec fuel k run gc (some ms) obs og hgc e' he')

theorem k7_spec (hgc : GcTie k gc og) (hm : ∀ ms, motifs = some ms → ∀ m ∈ ms, ∀ ch ∈ m, MotifChar ch) (e : VEnv)
    (hI : VInv (bfObj k run gc motifs) obs e) :
    LocalBioFilter.valid.k7 fuel e =
      .ok (.ret (.bool (runPart run obs && (motifPart motifs obs && gcPart k og obs)))) := by
  match run, hI with
  | none, hI =>
    simp only [LocalBioFilter.valid.k7, hI.1, getAttr_max_homopolymer_runs, optNatPV, bnd_ok, pyIsNone_none,
      Bool.not_true, Bool.false_eq_true, if_false, seq_norm, runPart, Bool.true_and]
    exact k6_spec fuel k none gc motifs obs og hgc hm e hI
  | some r, hI =>
    simp only [LocalBioFilter.valid.k7, hI.1, getAttr_max_homopolymer_runs, optNatPV, bnd_ok, pyIsNone_int,
      Bool.not_false, if_true, pyIter_str, runPart]
    exact seq_forLoop_all (VInv (bfObj k (some r) gc motifs) obs) (fun c => PV.str [c])
      (fun ch => !isInfix (List.replicate (1 + r) ch) obs) (as := ['A', 'C', 'G', 'T'])
      (fun ch _ e he => for2_body_spec fuel k gc motifs obs r ch e he) hI
      (fun e' he' => k6_spec fuel k (some r) gc motifs obs og hgc hm e' he')

theorem k8_spec (hgc : GcTie k gc og) (hm : ∀ ms, motifs = some ms → ∀ m ∈ ms, ∀ ch ∈ m, MotifChar ch) (e : VEnv)
    (hI : VInv (bfObj k run gc motifs) obs e) :
    LocalBioFilter.valid.k8 fuel e =
      .ok (.ret (.bool (obs.all (fun ch => (nucIdx ch).isSome) &&
        (runPart run obs && (motifPart motifs obs && gcPart k og obs))))) := by
  simp only [LocalBioFilter.valid.k8, hI.2, pyIter_str, bnd_ok]
  exact seq_forLoop_all (VInv (bfObj k run gc motifs) obs) (fun c => PV.str [c]) (fun ch => (nucIdx ch).isSome)
    (fun ch _ e he => for1_body_spec fuel k run gc motifs obs ch e he) hI
    (fun e' he' => k7_spec fuel k run gc motifs obs og hgc hm e' he')

end Valid

/-! ## the constructor -/

abbrev IEnv := Gen.LocalBioFilter.__init__.Env

/-- the object after `super().__init__`. -/
def obj0 : PV := .dict [.str "screen_name".toList] [.str "Local".toList]

def IInv (k : Nat) (run : Option Nat) (gc : Option (Dbl × Dbl)) (motifs : Option (List (List Char))) (e : IEnv) : Prop :=
  e.«py_self» = obj0 ∧ e.observed_length = .int k ∧ e.max_homopolymer_runs = optNatPV run ∧ e.gc_range = gcPV gc ∧
    e.undesired_motifs = motifsPV motifs

theorem super_init (fuel : Nat) : DefaultBioFilter.__init__ fuel (.dict [] []) (.str ['L', 'o', 'c', 'a', 'l']) = .ok obj0 := rfl

theorem setAttr1 (a v : PV) :
    pySetAttr (.dict [.str "screen_name".toList] [a]) "observed_length" v =
      .ok (.dict [.str "screen_name".toList, .str "observed_length".toList] [a, v]) := rfl
theorem setAttr2 (a b v : PV) :
    pySetAttr (.dict [.str "screen_name".toList, .str "observed_length".toList] [a, b]) "max_homopolymer_runs" v =
      .ok (.dict [.str "screen_name".toList, .str "observed_length".toList, .str "max_homopolymer_runs".toList]
        [a, b, v]) := rfl
theorem setAttr3 (a b c v : PV) :
    pySetAttr (.dict [.str "screen_name".toList, .str "observed_length".toList, .str "max_homopolymer_runs".toList]
        [a, b, c]) "gc_range" v =
      .ok (.dict [.str "screen_name".toList, .str "observed_length".toList, .str "max_homopolymer_runs".toList,
        .str "gc_range".toList] [a, b, c, v]) := rfl
theorem setAttr4 (a b c d v : PV) :
    pySetAttr (.dict [.str "screen_name".toList, .str "observed_length".toList, .str "max_homopolymer_runs".toList,
        .str "gc_range".toList] [a, b, c, d]) "undesired_motifs" v =
      .ok (.dict [.str "screen_name".toList, .str "observed_length".toList, .str "max_homopolymer_runs".toList,
        .str "gc_range".toList, .str "undesired_motifs".toList] [a, b, c, d, v]) := rfl

/-- the constructor's check of the motif lengths. -/
def motifsOk (k : Nat) (motifs : Option (List (List Char))) : Bool :=
  match motifs with
  | none => true
  | some ms => ms.all fun m => !decide (m.length > k)

section Init
variable (fuel k : Nat) (run : Option Nat) (gc : Option (Dbl × Dbl)) (motifs : Option (List (List Char)))

theorem init_k1_spec (e : IEnv) (hI : IInv k run gc motifs e) :
    ∃ e', LocalBioFilter.__init__.k1 fuel e = .ok (.norm e') ∧ e'.«py_self» = bfObj k run gc motifs := by
  obtain ⟨h1, h2, h3, h4, h5⟩ := hI
  simp only [LocalBioFilter.__init__.k1, h1, h2, h3, h4, h5, obj0, setAttr1, setAttr2, setAttr3, setAttr4, bnd_ok]
  exact ⟨_, rfl, rfl⟩

theorem init_for1_body_spec (i : Nat) (m : List Char) (e : IEnv) (hI : IInv k run gc motifs e) :
    if (!decide (m.length > k)) = true then
      ∃ e', LocalBioFilter.__init__.for1_body fuel (.tup [.int (i : Int), .str m]) e = .ok (.norm e') ∧
        IInv k run gc motifs e'
    else LocalBioFilter.__init__.for1_body fuel (.tup [.int (i : Int), .str m]) e = .error .valueError := by
  obtain ⟨h1, h2, h3, h4, h5⟩ := hI
  simp only [LocalBioFilter.__init__.for1_body, pyUnpack_two_tup, bnd_ok, getD_cons_zero', getD_cons_one', pyLen_str, h2,
    pyGt_int, Int.ofNat_lt, gt_iff_lt]
  by_cases h : k < m.length
  · simp [h]
  · simp only [h, decide_false, Bool.not_false, if_true, Bool.false_eq_true, if_false]
    refine ⟨_, rfl, ?_, ?_, ?_, ?_, ?_⟩ <;> first | rfl | assumption

theorem init_k2_spec (e : IEnv) (hI : IInv k run gc motifs e) :
    initResult (LocalBioFilter.__init__.k2 fuel e) (·.«py_self») =
      if motifsOk k motifs = true then .ok (bfObj k run gc motifs) else .error .valueError := by
  unfold motifsOk
  match motifs, hI with
  | none, hI =>
    obtain ⟨e', he', hs⟩ := init_k1_spec fuel k run gc none e hI
    simp only [LocalBioFilter.__init__.k2, hI.2.2.2.2, motifsPV, pyIsNone_none, Bool.not_true, bnd_ok, Bool.false_eq_true,
      if_false, seq_norm, he', if_true, initResult, hs]
  | some ms, hI =>
    simp only [LocalBioFilter.__init__.k2, hI.2.2.2.2, motifsPV, pyIsNone_list, Bool.not_false, bnd_ok, if_true,
      pyEnumerate_list, pyIter_list]
    have key := forLoop_all_err_enum (body := LocalBioFilter.__init__.for1_body fuel) (IInv k run gc (some ms)) PV.str
      (fun m => !decide (m.length > k)) .valueError (as := ms) 0
      (fun i m _ e he => init_for1_body_spec fuel k run gc (some ms) i m e he) hI
    by_cases hall : (ms.all fun m => !decide (m.length > k)) = true
    · rw [if_pos hall] at key ⊢
      obtain ⟨e1, hl, h1⟩ := key
      obtain ⟨e', he', hs⟩ := init_k1_spec fuel k run gc (some ms) e1 h1
      rw [hl, seq_norm, he']
      simp only [initResult, hs]
    · rw [if_neg hall] at key ⊢
      rw [key]
      rfl

end Init

end BfTie

open BfTie

/-- the constructor: accepted configurations give the attribute object, every other one `ValueError`. -/
theorem tie_LocalBioFilter_init (fuel k : Nat) (run : Option Nat) (gc : Option (Dbl × Dbl))
    (motifs : Option (List (List Char))) :
    LocalBioFilter.__init__ fuel (.dict [] []) (.int k) (optNatPV run) (gcPV gc) (motifsPV motifs) =
      if bfAccepted k run motifs then .ok (bfObj k run gc motifs) else .error .valueError := by
  simp only [LocalBioFilter.__init__, LocalBioFilter.__init__.body, super_init, bnd_ok, bfAccepted, FilterCfg.accepted]
  match run with
  | none =>
    simp only [optNatPV, pyIsNone_none, Bool.not_true, Bool.false_eq_true, if_false, seq_norm, Bool.true_and]
    exact init_k2_spec fuel k none gc motifs _ (by exact ⟨rfl, rfl, rfl, rfl, rfl⟩)
  | some r =>
    simp only [optNatPV, pyIsNone_int, Bool.not_false, if_true, pyLt_int, Int.ofNat_lt]
    by_cases h : k < r
    · simp [h, initResult]
    · simp only [h, decide_false, bnd_ok, Bool.false_eq_true, if_false, seq_norm, Bool.not_false, Bool.true_and]
      exact init_k2_spec fuel k (some r) gc motifs _ (by exact ⟨rfl, rfl, rfl, rfl, rfl⟩)

theorem gcTie_of_bfCfg {k : Nat} {run : Option Nat} {gc : Option (Dbl × Dbl)} {motifs : Option (List (List Char))}
    {c : FilterCfg} (hc : bfCfg k run gc motifs = some c)
    (hgc : ∀ lo hi, gc = some (lo, hi) → 0 < lo.den ∧ 0 < hi.den) :
    c.k = k ∧ c.run = run ∧ c.motifs = motifs ∧ GcTie k gc c.gc := by
  match gc, hc, hgc with
  | none, hc, _ =>
    simp only [bfCfg, Option.some.injEq] at hc
    subst hc
    exact ⟨rfl, rfl, rfl, rfl⟩
  | some (lo, hi), hc, hgc =>
    simp only [bfCfg, Option.map_eq_some_iff] at hc
    obtain ⟨g, hg, rfl⟩ := hc
    exact ⟨rfl, rfl, rfl, g, rfl, (hgc lo hi rfl).1, (hgc lo hi rfl).2, hg⟩

/-- `valid`: for every filter object the constructor can build (any window, run limit, motif list over ASCII characters
without lower-case letters, GC bounds given as doubles whose products with the window are finite), every string (any
characters) and both modes, the generated code returns the model's verdict. -/
theorem tie_LocalBioFilter_valid (fuel k : Nat) (run : Option Nat) (gc : Option (Dbl × Dbl))
    (motifs : Option (List (List Char))) (c : FilterCfg) (s : List Char) (onlyLast : Bool)
    (hc : bfCfg k run gc motifs = some c)
    (hgc : ∀ lo hi, gc = some (lo, hi) → 0 < lo.den ∧ 0 < hi.den)
    (hm : ∀ ms, motifs = some ms → ∀ m ∈ ms, ∀ ch ∈ m, MotifChar ch) :
    LocalBioFilter.valid fuel (bfObj k run gc motifs) (.str s) (.bool onlyLast) = .ok (.bool (c.valid s onlyLast)) := by
  obtain ⟨hk, hrun, hmot, htie⟩ := gcTie_of_bfCfg hc hgc
  simp only [LocalBioFilter.valid, LocalBioFilter.valid.body, truthy_bool, bnd_ok, FilterCfg.valid, validObserved_eq, hk,
    hrun, hmot]
  cases onlyLast with
  | true =>
    simp only [if_true, getAttr_observed_length, bnd_ok, pyNeg_int, pySliceV, boundOr_int, boundOr_none, seq_norm]
    rw [k8_spec fuel k run gc motifs _ c.gc htie hm _ ⟨rfl, rfl⟩]
    rfl
  | false =>
    simp only [Bool.false_eq_true, if_false, seq_norm]
    rw [k8_spec fuel k run gc motifs _ c.gc htie hm _ ⟨rfl, rfl⟩]
    rfl

/-- constructor followed by a call (what `find_vertices` sees for each k-mer). -/
theorem tie_LocalBioFilter (fuel k : Nat) (run : Option Nat) (gc : Option (Dbl × Dbl))
    (motifs : Option (List (List Char))) (c : FilterCfg) (s : List Char) (onlyLast : Bool)
    (hc : bfCfg k run gc motifs = some c) (ha : c.accepted = true)
    (hgc : ∀ lo hi, gc = some (lo, hi) → 0 < lo.den ∧ 0 < hi.den)
    (hm : ∀ ms, motifs = some ms → ∀ m ∈ ms, ∀ ch ∈ m, MotifChar ch) :
    (LocalBioFilter.__init__ fuel (.dict [] []) (.int k) (optNatPV run) (gcPV gc) (motifsPV motifs)).bind
      (fun obj => LocalBioFilter.valid fuel obj (.str s) (.bool onlyLast)) = .ok (.bool (c.valid s onlyLast)) := by
  obtain ⟨hk, hrun, hmot, _⟩ := gcTie_of_bfCfg hc hgc
  have hacc : bfAccepted k run motifs = true := by
    rw [← ha]; simp only [bfAccepted, FilterCfg.accepted, hk, hrun, hmot]
  rw [tie_LocalBioFilter_init, hacc, if_pos rfl]
  exact tie_LocalBioFilter_valid fuel k run gc motifs c s onlyLast hc hgc hm

/-- the abstract base class: `valid` always raises (`NotImplementedError` is `PyErr.other`). -/
theorem tie_DefaultBioFilter_valid (fuel : Nat) (obj x : PV) : DefaultBioFilter.valid fuel obj x = .error .other := by
  rfl

end Dsw.Tie
