import DswModel.Tie.BfDefs
import DswModel.Tie.PyLemmas
/-!
# DswModel.Tie.BfLib — primitive lemmas for the tie of `dsw/biofilter.py`

Attributes of the filter object, sub-string search (`pyIn` on strings = `isInfix`), single-character `replace` / `count`,
`upper`, the reverse complement, the three float comparisons of the GC rule, and two loop rules (`all`-style loops that
`return False` / raise on the first offending item).
-/
namespace Dsw.Tie
open Dsw Dsw.Py

/-! ## attributes of the filter object -/

theorem getAttr_observed_length (k : Nat) (run : Option Nat) (gc : Option (Dbl × Dbl)) (motifs : Option (List (List Char))) :
    pyGetAttr (bfObj k run gc motifs) "observed_length" = .ok (.int k) := rfl
theorem getAttr_max_homopolymer_runs (k : Nat) (run : Option Nat) (gc : Option (Dbl × Dbl))
    (motifs : Option (List (List Char))) :
    pyGetAttr (bfObj k run gc motifs) "max_homopolymer_runs" = .ok (optNatPV run) := rfl
theorem getAttr_gc_range (k : Nat) (run : Option Nat) (gc : Option (Dbl × Dbl)) (motifs : Option (List (List Char))) :
    pyGetAttr (bfObj k run gc motifs) "gc_range" = .ok (gcPV gc) := rfl
theorem getAttr_undesired_motifs (k : Nat) (run : Option Nat) (gc : Option (Dbl × Dbl))
    (motifs : Option (List (List Char))) :
    pyGetAttr (bfObj k run gc motifs) "undesired_motifs" = .ok (motifsPV motifs) := rfl

@[simp] theorem pyIsNone_none : pyIsNone .none = true := rfl
@[simp] theorem pyIsNone_int (i : Int) : pyIsNone (.int i) = false := rfl
@[simp] theorem pyIsNone_list (l : List PV) : pyIsNone (.list l) = false := rfl

theorem pyIndex_pair_zero (a b : PV) : pyIndex (.list [a, b]) (.int 0) = .ok a := rfl
theorem pyIndex_pair_one (a b : PV) : pyIndex (.list [a, b]) (.int 1) = .ok b := rfl

/-! ## sub-string search -/

theorem findSub_isSome (p s : List Char) (i : Nat) : (findSub p s i).isSome = isInfix p s := by
  induction s generalizing i with
  | nil => cases p <;> rfl
  | cons c cs ih =>
    simp only [findSub, isInfix]
    by_cases h : p.isPrefixOf (c :: cs)
    · simp [h]
    · simp [h, ih]

theorem pyIn_str_str (p s : List Char) : pyIn (.str p) (.str s) = .ok (isInfix p s) := by
  simp only [pyIn, findSub_isSome]

/-- `nucleotide not in "ACGT"`. -/
theorem pyIn_ACGT (c : Char) : pyIn (.str [c]) (.str ['A', 'C', 'G', 'T']) = .ok (nucIdx c).isSome := by
  rw [pyIn_str_str]
  by_cases hA : c = 'A'
  · subst hA; rfl
  by_cases hC : c = 'C'
  · subst hC; rfl
  by_cases hG : c = 'G'
  · subst hG; rfl
  by_cases hT : c = 'T'
  · subst hT; rfl
  simp [isInfix, nucIdx, hA, hC, hG, hT, List.isPrefixOf]

/-! ## `replace`, `count` with a one-character pattern; `upper` -/

theorem replaceGo_single (a b : Char) (s : List Char) :
    replaceGo [a] [b] 0 s = s.map fun c => if c = a then b else c := by
  induction s with
  | nil => rfl
  | cons c cs ih =>
    by_cases h : c = a
    · subst h; simp [replaceGo, List.isPrefixOf, ih]
    · have h' : ¬ a = c := fun e => h e.symm
      simp [replaceGo, List.isPrefixOf, ih, h, h']

theorem pyReplace_single (s : List Char) (a b : Char) :
    pyReplace (.str s) (.str [a]) (.str [b]) = .ok (.str (s.map fun c => if c = a then b else c)) := by
  simp [pyReplace, replaceGo_single]

theorem countGo_single (a : Char) (s : List Char) : countGo [a] 0 s = s.count a := by
  induction s with
  | nil => rfl
  | cons c cs ih =>
    by_cases h : c = a
    · subst h; simp [countGo, List.isPrefixOf, ih]; omega
    · have h' : ¬ a = c := fun e => h e.symm
      simp [countGo, List.isPrefixOf, ih, h, h']

theorem pyCount_single (s : List Char) (a : Char) : pyCount (.str s) (.str [a]) = .ok (.int (s.count a : Nat)) := by
  simp [pyCount, countGo_single]

theorem pyUpper_ascii {s : List Char} (h : ∀ c ∈ s, c.toNat < 128) :
    pyUpper (.str s) = .ok (.str (s.map Char.toUpper)) := by
  have : s.all (fun c => decide (c.toNat < 128)) = true := by simpa using h
  simp [pyUpper, this]

/-! ## the reverse complement -/

/-- what the four `replace` calls do to one character. -/
def rcChar (c : Char) : Char :=
  let c := if c = 'A' then 't' else c
  let c := if c = 'C' then 'g' else c
  let c := if c = 'G' then 'c' else c
  if c = 'T' then 'a' else c

theorem rcChar_spec {c : Char} (h : MotifChar c) : (rcChar c).toNat < 128 ∧ (rcChar c).toUpper = complement c := by
  by_cases hA : c = 'A'
  · subst hA; decide
  by_cases hC : c = 'C'
  · subst hC; decide
  by_cases hG : c = 'G'
  · subst hG; decide
  by_cases hT : c = 'T'
  · subst hT; decide
  simp only [rcChar, complement, hA, hC, hG, hT, if_false]
  exact h

theorem map_rcChar (s : List Char) :
    (((s.map fun c => if c = 'A' then 't' else c).map fun c => if c = 'C' then 'g' else c).map
      fun c => if c = 'G' then 'c' else c).map (fun c => if c = 'T' then 'a' else c) = s.map rcChar := by
  simp only [List.map_map]; rfl

theorem pyUpper_rc {m : List Char} (hm : ∀ ch ∈ m, MotifChar ch) :
    pyUpper (.str (m.map rcChar).reverse) = .ok (.str (revComp m)) := by
  rw [pyUpper_ascii]
  · simp only [revComp, List.map_reverse, List.map_map]
    congr 3
    apply List.map_congr_left
    intro c hc
    exact (rcChar_spec (hm c hc)).2
  · intro c hc
    obtain ⟨d, hd, rfl⟩ := List.mem_map.mp (List.mem_reverse.mp hc)
    exact (rcChar_spec (hm d hd)).1

/-! ## the GC rule: the code's float comparisons are the model's integer comparisons -/

theorem roundDouble_den_pos {n : Int} {d : Nat} {x : Dbl} (h : roundDouble n d = some x) : 0 < x.den := by
  unfold roundDouble at h
  split at h
  · cases h; decide
  · simp only at h
    split at h
    · cases h
    · split at h
      · cases h; exact Nat.one_pos
      · cases h; exact Nat.two_pow_pos _

theorem asDbl?_dblPV {x : Dbl} (h : 0 < x.den) : (dblPV x).asDbl? = some x := by
  have : ¬ x.den = 0 := by omega
  simp [dblPV, PV.asDbl?, this]

theorem pyMul_dbl_nat {x fk y : Dbl} {k : Nat} (hx : 0 < x.den) (hfk : Dbl.ofInt k = some fk) (hy : x.mul fk = some y) :
    pyMul (dblPV x) (.int k) = .ok (dblPV y) := by
  have h1 : (dblPV x).asInt? = Option.none := rfl
  have h2 : (dblPV x).isRat = true := rfl
  have h3 : (PV.int k).asDbl? = some fk := hfk
  have h4 := asDbl?_dblPV hx
  have h5 : pyMul (dblPV x) (.int k) = floatOp Dbl.mul (dblPV x) (.int k) := rfl
  rw [h5, floatOp, h2, h3, h4]
  simp only [Bool.true_or, if_true, hy, ratOfDbl, dblPV]

theorem pySub_nat_dbl {fk a y : Dbl} {k : Nat} (ha : 0 < a.den) (hfk : Dbl.ofInt k = some fk) (hy : fk.sub a = some y) :
    pySub (.int k) (dblPV a) = .ok (dblPV y) := by
  have h2 : (dblPV a).isRat = true := rfl
  have h3 : (PV.int k).asDbl? = some fk := hfk
  have h4 := asDbl?_dblPV ha
  have h5 : pySub (.int k) (dblPV a) = floatOp Dbl.sub (.int k) (dblPV a) := rfl
  rw [h5, floatOp, h2, h3, h4]
  simp only [Bool.or_true, if_true, hy, ratOfDbl, dblPV]

/-- `n > x` for an int and a float. -/
theorem pyGt_int_dbl (n : Int) {x : Dbl} (hx : 0 < x.den) : pyGt (.int n) (dblPV x) = .ok (decide (n > x.floor)) := by
  have h : pyGt (.int n) (dblPV x) = .ok (decide (x.num < n * x.den)) := rfl
  rw [h]
  congr 1
  apply decide_eq_decide.mpr
  have hd : (0 : Int) < x.den := by omega
  rw [Dbl.floor, Int.fdiv_eq_ediv_of_nonneg _ (Int.natCast_nonneg _), gt_iff_lt, Int.ediv_lt_iff_lt_mul hd]

/-- `n < x` for an int and a float. -/
theorem pyLt_int_dbl (n : Int) {x : Dbl} (hx : 0 < x.den) : pyLt (.int n) (dblPV x) = .ok (decide (n < x.ceil)) := by
  have h : pyLt (.int n) (dblPV x) = .ok (decide (n * x.den < x.num)) := rfl
  rw [h]
  congr 1
  apply decide_eq_decide.mpr
  have hd : (0 : Int) < x.den := by omega
  have key : (-x.num) / (x.den : Int) < -n ↔ -x.num < -n * x.den := Int.ediv_lt_iff_lt_mul hd
  rw [Dbl.ceil, Int.fdiv_eq_ediv_of_nonneg _ (Int.natCast_nonneg _)]
  rw [Int.neg_mul] at key
  omega

theorem floatGcRule_some {lo hi : Dbl} {k : Nat} {g : GcRule} (h : floatGcRule lo hi k = some g) :
    ∃ fk a b c, Dbl.ofInt k = some fk ∧ lo.mul fk = some a ∧ hi.mul fk = some b ∧ fk.sub a = some c ∧
      g = { gcLo := a.ceil, gcHi := b.floor, atHi := c.floor } := by
  unfold floatGcRule at h
  split at h
  · cases h
  · next fk hfk =>
    split at h
    · next a b ha hb =>
      split at h
      · next c hc => exact ⟨fk, a, b, c, hfk, ha, hb, hc, (Option.some.inj h).symm⟩
      · cases h
    · cases h

theorem mul_den_pos {x y z : Dbl} (h : x.mul y = some z) : 0 < z.den := roundDouble_den_pos h
theorem sub_den_pos {x y z : Dbl} (h : x.sub y = some z) : 0 < z.den := roundDouble_den_pos h

/-- `gc_count > gc_range[1] * observed_length`. -/
theorem gc_hi_cmp {lo hi : Dbl} {k : Nat} {g : GcRule} (hhi : 0 < hi.den) (h : floatGcRule lo hi k = some g) (n : Int) :
    (bnd (pyMul (dblPV hi) (.int k)) fun t => pyGt (.int n) t) = .ok (decide (n > g.gcHi)) := by
  obtain ⟨fk, a, b, c, hfk, ha, hb, hc, rfl⟩ := floatGcRule_some h
  rw [pyMul_dbl_nat hhi hfk hb, bnd_ok, pyGt_int_dbl n (mul_den_pos hb)]

/-- `gc_count < gc_range[0] * observed_length`. -/
theorem gc_lo_cmp {lo hi : Dbl} {k : Nat} {g : GcRule} (hlo : 0 < lo.den) (h : floatGcRule lo hi k = some g) (n : Int) :
    (bnd (pyMul (dblPV lo) (.int k)) fun t => pyLt (.int n) t) = .ok (decide (n < g.gcLo)) := by
  obtain ⟨fk, a, b, c, hfk, ha, hb, hc, rfl⟩ := floatGcRule_some h
  rw [pyMul_dbl_nat hlo hfk ha, bnd_ok, pyLt_int_dbl n (mul_den_pos ha)]

/-- `at_count > observed_length - gc_range[0] * observed_length`. -/
theorem at_hi_cmp {lo hi : Dbl} {k : Nat} {g : GcRule} (hlo : 0 < lo.den) (h : floatGcRule lo hi k = some g) (n : Int) :
    (bnd (bnd (pyMul (dblPV lo) (.int k)) fun t => pySub (.int k) t) fun t => pyGt (.int n) t) =
      .ok (decide (n > g.atHi)) := by
  obtain ⟨fk, a, b, c, hfk, ha, hb, hc, rfl⟩ := floatGcRule_some h
  rw [pyMul_dbl_nat hlo hfk ha, bnd_ok, pySub_nat_dbl (mul_den_pos ha) hfk hc, bnd_ok, pyGt_int_dbl n (sub_den_pos hc)]

/-! ## loop rules: `for a in as: if not p(a): return False` / `raise` -/

section Loops
variable {ε : Type}

theorem forLoop_all_ret {α} {body : PV → ε → R (Flow ε)} (Inv : ε → Prop) (emb : α → PV) (p : α → Bool)
    {as : List α}
    (h : ∀ a ∈ as, ∀ e, Inv e →
      if p a = true then ∃ e', body (emb a) e = .ok (.norm e') ∧ Inv e' else body (emb a) e = .ok (.ret (.bool false)))
    {e : ε} (h0 : Inv e) :
    if as.all p = true then ∃ e', forLoop body (as.map emb) e = .ok (.norm e') ∧ Inv e'
    else forLoop body (as.map emb) e = .ok (.ret (.bool false)) := by
  induction as generalizing e with
  | nil => exact ⟨e, rfl, h0⟩
  | cons a r ih =>
    have ha := h a (by simp) e h0
    have ih' := fun e1 (h1 : Inv e1) => ih (fun b hb => h b (by simp [hb])) (e := e1) h1
    cases hp : p a with
    | true =>
      rw [hp, if_pos rfl] at ha
      obtain ⟨e1, hb, h1⟩ := ha
      simp only [List.all_cons, hp, Bool.true_and, List.map_cons, forLoop_cons_norm hb]
      exact ih' e1 h1
    | false =>
      rw [hp, if_neg (by simp)] at ha
      simp only [List.all_cons, hp, Bool.false_and, List.map_cons, forLoop_cons_ret ha]
      simp

/-- the loop followed by the rest of the function, which returns the bool `rest`. -/
theorem seq_forLoop_all {α} {body : PV → ε → R (Flow ε)} (Inv : ε → Prop) (emb : α → PV) (p : α → Bool)
    {as : List α} {k : ε → R (Flow ε)} {rest : Bool}
    (h : ∀ a ∈ as, ∀ e, Inv e →
      if p a = true then ∃ e', body (emb a) e = .ok (.norm e') ∧ Inv e' else body (emb a) e = .ok (.ret (.bool false)))
    {e : ε} (h0 : Inv e) (hk : ∀ e', Inv e' → k e' = .ok (.ret (.bool rest))) :
    seq (forLoop body (as.map emb) e) k = .ok (.ret (.bool (as.all p && rest))) := by
  have key := forLoop_all_ret Inv emb p h h0
  cases hp : as.all p with
  | true =>
    rw [hp, if_pos rfl] at key
    obtain ⟨e1, hl, h1⟩ := key
    rw [hl, seq_norm, hk e1 h1, Bool.true_and]
  | false =>
    rw [hp, if_neg (by simp)] at key
    rw [key, seq_ret, Bool.false_and]

/-- `for i, a in enumerate(as): if not p(a): raise err`. -/
theorem forLoop_all_err_enum {α} {body : PV → ε → R (Flow ε)} (Inv : ε → Prop) (emb : α → PV) (p : α → Bool)
    (err : PyErr) {as : List α} (n : Nat)
    (h : ∀ (i : Nat), ∀ a ∈ as, ∀ e, Inv e →
      if p a = true then ∃ e', body (.tup [.int (i : Int), emb a]) e = .ok (.norm e') ∧ Inv e'
      else body (.tup [.int (i : Int), emb a]) e = .error err)
    {e : ε} (h0 : Inv e) :
    if as.all p = true then ∃ e', forLoop body (enumFrom n (as.map emb)) e = .ok (.norm e') ∧ Inv e'
    else forLoop body (enumFrom n (as.map emb)) e = .error err := by
  induction as generalizing e n with
  | nil => exact ⟨e, rfl, h0⟩
  | cons a r ih =>
    have ha := h n a (by simp) e h0
    have ih' := fun e1 (h1 : Inv e1) => ih (n + 1) (fun i b hb => h i b (by simp [hb])) (e := e1) h1
    cases hp : p a with
    | true =>
      rw [hp, if_pos rfl] at ha
      obtain ⟨e1, hb, h1⟩ := ha
      simp only [List.all_cons, hp, Bool.true_and, List.map_cons, enumFrom_cons, forLoop_cons_norm hb]
      exact ih' e1 h1
    | false =>
      rw [hp, if_neg (by simp)] at ha
      simp only [List.all_cons, hp, Bool.false_and, List.map_cons, enumFrom_cons, forLoop_cons_error ha]
      simp

end Loops

end Dsw.Tie
