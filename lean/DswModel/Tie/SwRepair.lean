import DswModel.Tie.RepairStubs
/-!
# Translation tie — `repair_dna` (dsw/spiderweb.py)

`Dsw.Gen.repair_dna` (generated from the Python source on every run) computes the model function
`Dsw.repairDna` — the scan with its detections, the look-back calls of `path_matching`, the candidate
product, the check filter on both return paths, the sorted duplicate-free result and all four statistics —
for every well-formed accessor of order `k` (`4^k` rows), every start vertex, every ACGT strand at least one
window long, with or without a (non-empty) check, both `has_indel` settings and every heap limit.
-/
namespace Dsw.Tie
open Dsw Dsw.Py Dsw.Tie.Stub

theorem tie_repair_dna (a : Acc) (dna : List Char) (start k : Nat) (chk : Option (List Char)) (hasIndel : Bool)
    (heap fuel : Nat)
    (ha : a.WF) (hsz : a.size = 4 ^ k) (hk : 1 ≤ k) (hs : start < a.size) (hd : IsAcgt dna) (hl : k ≤ dna.length)
    (hc : ∀ c, chk = some c → c ≠ [])
    (hf : dna.length + 2 * (chk.map List.length).getD 0 + 3 ≤ fuel) :
    Gen.repair_dna fuel (cstr dna) (accPV a) (.int (start : Int)) (.int (k : Int)) (chkPV chk) (.bool hasIndel)
        (.int (heap : Int)) =
      (repairDna a dna start k chk hasIndel heap).map repResultPV := by
  sorry

end Dsw.Tie
