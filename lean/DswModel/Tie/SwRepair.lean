import DswModel.Tie.NpLemmas
import DswModel.Tie.RepairDefs
import DswModel.Tie.SwVt
import DswModel.Tie.OpDna
import DswModel.Tie.GzPath
import DswModel.Tie.SwRepairScan
import DswModel.Tie.SwRepairTail
/-!
# Translation tie — `repair_dna` (dsw/spiderweb.py)

`Dsw.Gen.repair_dna` (generated from the Python source on every run) computes the model function
`Dsw.repairDna` — the scan with its detections, the look-back calls of `path_matching`, the candidate
product, the check filter on both return paths, the sorted duplicate-free result and all four statistics —
for every well-formed accessor of order `k` (`4^k` rows), every start vertex, every ACGT strand at least one
window long, with or without a (non-empty) check, both `has_indel` settings and every heap limit.

Structure: `SwRepairLib` (loops that may raise, the new primitives, sorting), `SwRepairScan` (the `while` loop
is `scan`), `SwRepairFrag` (the three nested fragment loops are `fragFold`), `SwRepairTail` (count, fallback,
product, check filter, sorted result are `repairTail`); here the set initialisation (`k7`) and the top level.
-/
namespace Dsw.Tie
open Dsw Dsw.Py

namespace Repair

/-- `[set() for _ in range(n)]`. -/
theorem empty_sets (n : Nat) :
    (bnd (pyRange1 (.int (n : Int))) fun t => pyMap (fun _ => .ok (.set [])) t) =
      .ok (.list (List.replicate n (.set []))) := by
  rw [pyRange1_nat, bnd_ok,
    pyMap_list_map (f := fun _ => Except.ok (PV.set [])) (g := fun _ => PV.set []) (fun _ _ => rfl)]
  simp [List.map_const']

/-- glue: a simulated loop followed by a continuation that returns; the continuation may use the model outcome. -/
theorem seq_sim' {ε σ : Type} {Rel : σ → ε → Prop} {m : R σ} {r : R (Flow ε)} {k : ε → R (Flow ε)} {g : σ → RV}
    (h : Sim Rel m r) (hk : ∀ s e, m = .ok s → Rel s e → k e = retR (g s)) :
    seq r k = retR (m.bind g) := by
  cases m with
  | error err => rw [show r = .error err from h]; rfl
  | ok s =>
    obtain ⟨e', rfl, hr⟩ := h
    exact hk s e' rfl hr

/-- the set initialisation, the fragment collection and the output stage. -/
theorem k7_spec (fuel : Nat) {P : Params} (ha : P.a.WF) (hpos : 0 < P.a.size) (hk : 1 ≤ P.k)
    (hl : P.k ≤ P.dna.length) (hd : IsAcgt P.dna)
    (hfuel : ∀ c, P.chk = some c → c ≠ [] ∧ 2 * c.length + 2 ≤ fuel) {st : Scan} {e : Env}
    (hc : Const P e) (hv : ScanVars st e) (hi : SInv P st) :
    Gen.repair_dna.k7 fuel e =
      retR (((fragFold P.a P.k P.dna P.hasIndel st).bind (repairTail P.dna P.chk P.heap st)).map repResultPV) := by
  obtain ⟨hloc, hvi, hq, hsplit, hchunks, hmarkers, hdet, hflag, hvis⟩ := hv
  have hcl := hi.cnt.chunks_len
  have hml := hi.cnt.markers_len
  have hlen : (st.chunks.reverse.zip st.markers.reverse).length = st.detected := by
    simp [List.length_zip, hcl, hml]
  have hcm : ∀ cm ∈ st.chunks.reverse.zip st.markers.reverse,
      cm.2.length ≤ P.k ∧ ∀ x ∈ cm.2, -(P.a.size : Int) ≤ x ∧ x < P.a.size := by
    intro cm hcm
    have hm := List.mem_reverse.mp (List.of_mem_zip hcm).2
    refine ⟨hi.det.markers_le _ hm, fun x hx => ?_⟩
    have := hi.markers_ok _ hm x hx
    omega
  have hbind : ((fragFold P.a P.k P.dna P.hasIndel st).bind (repairTail P.dna P.chk P.heap st)).map repResultPV =
      ((st.chunks.reverse.zip st.markers.reverse).foldlM (fragStep P.a P.k P.dna P.hasIndel) ([], st.visited)).bind
        fun fv => (repairTail P.dna P.chk P.heap st fv).map repResultPV := by
    rw [fragFold_eq]
    cases (st.chunks.reverse.zip st.markers.reverse).foldlM (fragStep P.a P.k P.dna P.hasIndel) ([], st.visited) <;> rfl
  have hA : ∀ e0, OuterRel P (.list (st.splits.reverse.map .str), .int (st.detected : Int), .bool false)
        (st.chunks.reverse.zip st.markers.reverse).length 0 ([], st.visited) e0 →
      seq (forLoop (Gen.repair_dna.for2_body fuel)
          (enumFrom 0 ((st.chunks.reverse.zip st.markers.reverse).map cmPV)) e0) (Gen.repair_dna.k6 fuel) =
        retR (((fragFold P.a P.k P.dna P.hasIndel st).bind (repairTail P.dna P.chk P.heap st)).map repResultPV) := by
    intro e0 h0
    rw [hbind]
    refine seq_sim' (for2_loop fuel ha _ hcm st.visited e0 h0) ?_
    rintro fv e' hfv ⟨hc', ⟨hk1, hk2, hk3⟩, hfl, hrfs, hvis'⟩
    rw [← fragFold_eq] at hfv
    obtain ⟨fv', hfv', hacgt⟩ := fragFold_total P.a P.k P.dna P.hasIndel st hk hl hi.det hi.cnt hi.acgt
    rw [hfv] at hfv'
    injection hfv' with hfv'
    subst hfv'
    have H : TailHyp P fuel st fv :=
      ⟨hfuel, by rw [hfl, hlen, hi.splits_len], hd, hi.acgt.splits, hacgt⟩
    refine k6_spec fuel H e' hc' hk1 ?_ hk2 hvis' hk3
    rw [hrfs, Nat.sub_self]
    simp
  simp only [Gen.repair_dna.k7, hmarkers, pyLen_list, List.length_map, List.length_reverse, bnd_ok, empty_sets,
    hchunks, pyZip_lists, zipPairs_map, pyEnumerate_list, pyIter_list]
  apply hA
  obtain ⟨hdna, hacc, hk', hchk, hind, hheap, hnuc⟩ := hc
  refine ⟨⟨?_, ?_, ?_, ?_, ?_, ?_, ?_⟩, ⟨?_, ?_, ?_⟩, rfl, ?_, ?_⟩ <;>
    first | rfl | assumption | (simp only [hlen, hml, Nat.sub_zero, List.map_nil, List.nil_append])

end Repair

open Repair

theorem tie_repair_dna (a : Acc) (dna : List Char) (start k : Nat) (chk : Option (List Char)) (hasIndel : Bool)
    (heap fuel : Nat)
    (ha : a.WF) (hsz : a.size = 4 ^ k) (hk : 1 ≤ k) (hs : start < a.size) (hd : IsAcgt dna) (hl : k ≤ dna.length)
    (hc : ∀ c, chk = some c → c ≠ [])
    (hf : dna.length + 2 * (chk.map List.length).getD 0 + 3 ≤ fuel) :
    Gen.repair_dna fuel (cstr dna) (accPV a) (.int (start : Int)) (.int (k : Int)) (chkPV chk) (.bool hasIndel)
        (.int (heap : Int)) =
      (repairDna a dna start k chk hasIndel heap).map repResultPV := by
  let P : Params := ⟨a, dna, k, chk, hasIndel, heap⟩
  have hfuel : ∀ c, P.chk = some c → c ≠ [] ∧ 2 * c.length + 2 ≤ fuel := by
    intro c hcc
    have hcc' : chk = some c := hcc
    refine ⟨hc c hcc', ?_⟩
    rw [hcc'] at hf
    simp only [Option.map_some, Option.getD_some] at hf
    omega
  have hA : ∀ e0 : Env, Const P e0 → ScanVars (Scan.init dna (start : Int)) e0 →
      callResult (seq (whileLoop (Gen.repair_dna.while1_cond fuel) (Gen.repair_dna.while1_body fuel) fuel e0)
          (Gen.repair_dna.k7 fuel)) =
        (repairDna a dna start k chk hasIndel heap).map repResultPV := by
    intro e0 hc0 hv0
    obtain ⟨st', e', hscan, hloop, hc', hv', hi'⟩ :=
      scan_loop (P := P) ha hsz hk hd fuel (dna.length + 1) (Scan.init dna (start : Int)) e0 hc0 hv0
        (SInv.init P start hs) (show dna.length - 0 ≤ dna.length + 1 by omega) fuel (by omega)
    rw [hloop, seq_norm, k7_spec fuel (P := P) ha (show 0 < a.size by omega) hk hl hd hfuel hc' hv' hi', callResult_retR,
      repairDna_eq]
    have hscan' : scan a k dna (dna.length + 1) (Scan.init dna (start : Int)) = some st' := hscan
    rw [hscan']
  simp only [Gen.repair_dna, Gen.repair_dna.body, cstr, pyLen_str, bnd_ok, neg_ones]
  apply hA
  · refine ⟨?_, ?_, ?_, ?_, ?_, ?_, ?_⟩ <;> rfl
  · refine ⟨?_, ?_, ?_, ?_, ?_, ?_, ?_, ?_, ?_⟩ <;> rfl

end Dsw.Tie
