import DswModel.Tie.PyLemmas
import DswModel.Tie.SpiderwebDefs
import DswModel.Lemmas.Digit
/-!
# Translation tie — `encode`: the NumPy part

Computation lemmas for the array primitives on the embeddings `accPV`, `tblPV`, `bitsPV`, as the
generated code of `encode` uses them: the row `accessor[v]`, the live columns
`where(accessor[v] >= 0)[0]` = `Acc.live`, the entry `accessor[v][j]` = `Acc.ent`, the shuffled digit
`argsort(shuffles[v, used])[d]` = `digitToPos`.
-/
namespace Dsw.Tie
open Dsw Dsw.Py

namespace EncNp

/-- a row of an accessor / a table as a one-dimensional integer array. -/
def rowPV (r : Array Int) : PV := .arr (r.toList.map fun (x : Int) => .int x)

/-- an index array. -/
def idxPV (l : List Nat) : PV := .arr (l.map fun (j : Nat) => .int (j : Int))

theorem accPV_eq (a : Acc) : accPV a = .arr (a.toList.map rowPV) := rfl

/-! ### generic array lemmas -/

@[simp] theorem asInt?_arr (l : List PV) : (PV.arr l).asInt? = Option.none := rfl
@[simp] theorem pyLen_arr (l : List PV) : pyLen (.arr l) = .ok (.int l.length) := rfl
@[simp] theorem pyIter_arr (l : List PV) : pyIter (.arr l) = .ok l := rfl

theorem pyIndex_arr_nat {l : List PV} {i : Nat} (h : i < l.length) :
    pyIndex (.arr l) (.int i) = .ok (l.getD i .none) := by
  simp [pyIndex, pyIndexSeq, normIndex_natCast h]

theorem pyLen_idxPV (l : List Nat) : pyLen (idxPV l) = .ok (.int l.length) := by simp [idxPV]

theorem pyIndex_idxPV {l : List Nat} {i : Nat} (h : i < l.length) :
    pyIndex (idxPV l) (.int i) = .ok (.int ((l.getD i 0 : Nat) : Int)) := by
  rw [idxPV, pyIndex_arr_nat (by simpa using h)]
  simp [List.getD_eq_getElem?_getD, List.getElem?_eq_getElem h]

theorem pyIndex_idxPV_zero {l : List Nat} (h : 0 < l.length) :
    pyIndex (idxPV l) (.int 0) = .ok (.int ((l.getD 0 0 : Nat) : Int)) :=
  pyIndex_idxPV (i := 0) h

theorem pyIndex_rowPV {r : Array Int} {j : Nat} (h : j < r.size) (d : Int) :
    pyIndex (rowPV r) (.int j) = .ok (.int (r.getD j d)) := by
  rw [rowPV, pyIndex_arr_nat (by simpa using h)]
  simp [List.getD_eq_getElem?_getD, h]

theorem pyLen_bitsPV (bits : List Nat) : pyLen (bitsPV bits) = .ok (.int bits.length) := by simp [bitsPV]

theorem pyIndex_bitsPV {bits : List Nat} {i : Nat} (h : i < bits.length) :
    pyIndex (bitsPV bits) (.int i) = .ok (.int ((bits.getD i 0 : Nat) : Int)) :=
  pyIndex_idxPV h

@[simp] theorem npAdd_str (s t : List Char) : npAdd (.str s) (.str t) = .ok (.str (s ++ t)) := rfl
@[simp] theorem npAdd_int (a b : Int) : npAdd (.int a) (.int b) = .ok (.int (a + b)) := rfl
@[simp] theorem npMul_int (a b : Int) : npMul (.int a) (.int b) = .ok (.int (a * b)) := rfl

theorem pyIsNone_accPV (t : Acc) : pyIsNone (accPV t) = false := rfl
theorem pyIsNone_tblPV_none : pyIsNone (tblPV Option.none) = true := rfl
theorem pyIsNone_tblPV_some (t : Tbl) : pyIsNone (tblPV (some t)) = false := rfl

/-! ### rows -/

theorem row_nat (a : Acc) {v : Nat} (hv : v < a.size) : a.row (v : Int) = a.getD v #[] := by
  have h1 : ¬ ((v : Int) < 0) := by omega
  have h2 : (0 : Int) ≤ v ∧ (v : Int) < a.size := by omega
  simp only [Acc.row, h1, if_false, h2, and_self, if_true, Int.toNat_natCast]

theorem pyIndex_accPV (a : Acc) {v : Nat} (hv : v < a.size) :
    pyIndex (accPV a) (.int v) = .ok (rowPV (a.row (v : Int))) := by
  rw [row_nat a hv, accPV_eq, pyIndex_arr_nat (by simpa using hv)]
  simp [List.getD_eq_getElem?_getD, hv]

theorem row_size (a : Acc) (ha : a.WF) {v : Nat} (hv : v < a.size) : (a.row (v : Int)).size = 4 := by
  rw [row_nat a hv]; exact (ha v hv).1

theorem array_size_four {r : Array Int} (h : r.size = 4) : ∃ x0 x1 x2 x3, r = #[x0, x1, x2, x3] := by
  obtain ⟨l⟩ := r
  match l, h with
  | [x0, x1, x2, x3], _ => exact ⟨_, _, _, _, rfl⟩

/-- `accessor[v][j]`. -/
theorem ent_spec (a : Acc) (ha : a.WF) {v : Nat} (hv : v < a.size) {j : Nat} (hj : j < 4) :
    (bnd (pyIndex (accPV a) (.int v)) fun t => pyIndex t (.int j)) = .ok (.int (a.ent v j)) := by
  rw [pyIndex_accPV a hv, bnd_ok, pyIndex_rowPV (by rw [row_size a ha hv]; exact hj) (-1)]
  rfl

/-- a live entry of a well-formed accessor is a row index. -/
theorem ent_live (a : Acc) (ha : a.WF) {v : Nat} (hv : v < a.size) {j : Nat} (hj : j ∈ a.live v) :
    ∃ w : Nat, a.ent v j = (w : Int) ∧ w < a.size := by
  have h4 := live_lt_four a v hj
  have h0 := live_ent_nonneg a v hj
  have hw := (ha v hv).2 j h4
  have he : a.ent v j = (a.getD v #[]).getD j (-1) := by rw [Acc.ent, row_nat a hv]
  rw [← he] at hw
  refine ⟨(a.ent v j).toNat, by omega, by omega⟩

/-! ### `where(accessor[v] >= 0)[0]` -/

theorem npCmp_ge_rowPV (r : Array Int) :
    npCmp pyGe (rowPV r) (.int 0) = .ok (.arr (r.toList.map fun (x : Int) => .bool (decide (0 ≤ x)))) := by
  simp only [rowPV, npCmp, arrBroadcast]
  rw [mapM'_map (g := fun (x : Int) => PV.bool (decide (0 ≤ x)))]
  · rfl
  · intro x _; rfl

theorem live_of_row (a : Acc) (v : Int) {x0 x1 x2 x3 : Int} (h : a.row v = #[x0, x1, x2, x3]) :
    a.live v = (if 0 ≤ x0 then [0] else []) ++ (if 0 ≤ x1 then [1] else []) ++
      (if 0 ≤ x2 then [2] else []) ++ (if 0 ≤ x3 then [3] else []) := by
  have hr : List.range 4 = [0, 1, 2, 3] := by decide
  simp only [Acc.live, Acc.ent, h, hr]
  by_cases h0 : 0 ≤ x0 <;> by_cases h1 : 0 ≤ x1 <;> by_cases h2 : 0 ≤ x2 <;> by_cases h3 : 0 ≤ x3 <;>
    simp [List.filter, h0, h1, h2, h3]

/-- the first statement of both loop bodies. -/
theorem used_spec (a : Acc) (ha : a.WF) {v : Nat} (hv : v < a.size) :
    (bnd (bnd (bnd (pyIndex (accPV a) (.int v)) fun t => npCmp pyGe t (.int 0)) fun t => npWhere t)
        fun t => pyIndex t (.int 0)) = .ok (idxPV (a.live v)) := by
  obtain ⟨x0, x1, x2, x3, hr⟩ := array_size_four (row_size a ha hv)
  rw [pyIndex_accPV a hv, bnd_ok, npCmp_ge_rowPV, bnd_ok, live_of_row a v hr, hr]
  by_cases h0 : 0 ≤ x0 <;> by_cases h1 : 0 ≤ x1 <;> by_cases h2 : 0 ≤ x2 <;> by_cases h3 : 0 ≤ x3 <;>
    simp [npWhere, trueIdx, idxPV, PV.isArr, h0, h1, h2, h3]

/-! ### `argsort(shuffles[v, used])[d]` -/

theorem mapM_asInt?_ints (ks : List Int) : (ks.map PV.int).mapM PV.asInt? = some ks := by
  induction ks with
  | nil => rfl
  | cons k r ih => simp [List.mapM_cons, ih]

theorem npArgsort_ints (ks : List Int) :
    npArgsort (.arr (ks.map PV.int)) = .ok (idxPV (argsort ks)) := by
  simp only [npArgsort, mapM_asInt?_ints]; rfl

/-- the gather `shuffles[v, used]`. -/
theorem npIndex2_keys (t : Tbl) {v : Nat} (hv : v < t.size) (h4 : (Acc.row t (v : Int)).size = 4)
    {used : List Nat} (hu : ∀ j ∈ used, j < 4) :
    npIndex2 (accPV t) (.int v) (idxPV used) = .ok (.arr ((t.keys v used).map PV.int)) := by
  simp only [npIndex2, pyIndex_accPV t hv, idxPV]
  rw [mapM'_map (g := fun (j : Nat) => PV.int ((Acc.row t v).getD j 0))]
  · simp [Tbl.keys]
  · intro j hj
    exact pyIndex_rowPV (by rw [h4]; exact hu j hj) 0

/-- the shuffle step `remainder = argsort(shuffles[v, used])[remainder]` with a table. -/
theorem shuffle_spec (t : Tbl) {v : Nat} (hv : v < t.size) (h4 : (Acc.row t (v : Int)).size = 4)
    {used : List Nat} (hu : ∀ j ∈ used, j < 4) {d : Nat} (hd : d < used.length) :
    (bnd (bnd (npIndex2 (accPV t) (.int v) (idxPV used)) fun t1 => npArgsort t1) fun t2 =>
        pyIndex t2 (.int d)) = .ok (.int ((digitToPos (some t) v used d : Nat) : Int)) := by
  rw [npIndex2_keys t hv h4 hu, bnd_ok, npArgsort_ints, bnd_ok,
    pyIndex_idxPV (by rw [argsort_length, keys_length]; exact hd)]
  rfl

/-- a table the code can index at every vertex of the accessor. -/
theorem tblOK_row {tbl : Option Tbl} {a : Acc} (ht : TblOK tbl a) {t : Tbl} (h : tbl = some t) {v : Nat}
    (hv : v < a.size) : v < t.size ∧ (Acc.row t (v : Int)).size = 4 := by
  obtain ⟨h1, h2⟩ := ht t h
  have hv' : v < t.size := by omega
  refine ⟨hv', ?_⟩
  rw [row_nat t hv']
  apply h2
  simp [Array.getD, hv']

end EncNp

end Dsw.Tie
