import DswModel.Tie.SwDecodeNormal
/-!
# Translation tie — `decode` (dsw/spiderweb.py): fast mode

The loop `decode.for3_body` (with `k8`, `k7`, `k6`) writes the bits into the `zeros(L)` array; the model
`decodeFastLoop` returns the bits written from position `ml` on.  `writeBits bm ml bits` is the array
after writing `bits` from position `ml` (writes beyond the end are no-ops: they never happen, the code
raises `IndexError` first, and so does the model).
-/
namespace Dsw.Tie.DecodeTie
open Dsw Dsw.Py Dsw.Tie

/-! ## model side -/

/-- the radix dispatch of one fast-mode step: the bits written and the next message position. -/
def fastWrite (L radix d ml : Nat) : R (List Nat × Nat) :=
  if radix = 4 then
    if ml ≥ L then .error .indexError
    else .ok (if ml + 1 < L then [d / 2, d % 2] else [d / 2], ml + 2)
  else if radix = 2 then
    if ml ≥ L then .error .indexError else .ok ([d % 2], ml + 1)
  else if radix = 1 then .ok ([], ml)
  else .error .valueError

/-- add the next vertex to the outcome of the radix dispatch. -/
def liftStep (v' : Int) (r : R (List Nat × Nat)) : R (List Nat × Int × Nat) :=
  match r with
  | .error err => .error err
  | .ok (bits, ml') => .ok (bits, v', ml')

/-- one step of `decodeFastLoop`: bits written, next vertex, next message position. -/
def fastStep (a : Acc) (tbl : Option Tbl) (L : Nat) (v : Int) (c : Char) (ml : Nat) : R (List Nat × Int × Nat) :=
  match livePos a v c with
  | Option.none => .error .valueError
  | some p =>
    liftStep (a.ent v ((nucIdx c).getD 0)) (fastWrite L (a.live v).length (posToDigit tbl v (a.live v) p) ml)

theorem map_nil_append {α} (r : R (List α)) : r.map ([] ++ ·) = r := by
  cases r <;> rfl

theorem decodeFastLoop_cons (a : Acc) (tbl : Option Tbl) (L : Nat) (v : Int) (c : Char) (s : List Char) (ml : Nat) :
    decodeFastLoop a tbl L v (c :: s) ml =
      match fastStep a tbl L v c ml with
      | .error err => .error err
      | .ok (bits, v', ml') => (decodeFastLoop a tbl L v' s ml').map (bits ++ ·) := by
  unfold fastStep fastWrite liftStep
  rw [decodeFastLoop]
  cases livePos a v c with
  | none => rfl
  | some p =>
    simp only
    by_cases h4 : (a.live v).length = 4
    · simp only [h4, if_true]
      by_cases hml : ml ≥ L
      · simp only [hml, if_true]
      · simp only [hml, if_false]
    · simp only [h4, if_false]
      by_cases h2 : (a.live v).length = 2
      · simp only [h2, if_true]
        by_cases hml : ml ≥ L
        · simp only [hml, if_true]
        · simp only [hml, if_false]; rfl
      · simp only [h2, if_false]
        by_cases h1 : (a.live v).length = 1
        · simp only [h1, if_true, map_nil_append]
        · simp only [h1, if_false]

theorem fastWrite_ok {L radix d ml : Nat} {bits : List Nat} {ml' : Nat}
    (h : fastWrite L radix d ml = .ok (bits, ml')) :
    ∀ k, ml' + k ≤ max ml' L → ml + bits.length + k ≤ max ml L := by
  unfold fastWrite at h
  intro k hk
  by_cases h4 : radix = 4
  · rw [if_pos h4] at h
    by_cases hml : ml ≥ L
    · rw [if_pos hml] at h; cases h
    · rw [if_neg hml] at h
      injection h with h
      injection h with hb hm
      subst hb hm
      by_cases h1 : ml + 1 < L
      · simp only [h1, if_true, List.length_cons, List.length_nil] at hk ⊢; omega
      · simp only [h1, if_false, List.length_cons, List.length_nil] at hk ⊢; omega
  · rw [if_neg h4] at h
    by_cases h2 : radix = 2
    · rw [if_pos h2] at h
      by_cases hml : ml ≥ L
      · rw [if_pos hml] at h; cases h
      · rw [if_neg hml] at h
        injection h with h
        injection h with hb hm
        subst hb hm
        simp only [List.length_cons, List.length_nil] at hk ⊢; omega
    · rw [if_neg h2] at h
      by_cases h1 : radix = 1
      · rw [if_pos h1] at h
        injection h with h
        injection h with hb hm
        subst hb hm
        simp only [List.length_nil] at hk ⊢; omega
      · rw [if_neg h1] at h; cases h

theorem fastStep_ok {a : Acc} (ha : a.WF) {tbl : Option Tbl} {L : Nat} {v : Int} (hv : InR a v) {c : Char}
    {ml : Nat} {bits : List Nat} {v' : Int} {ml' : Nat} (h : fastStep a tbl L v c ml = .ok (bits, v', ml')) :
    InR a v' ∧ ∀ k, ml' + k ≤ max ml' L → ml + bits.length + k ≤ max ml L := by
  unfold fastStep at h
  cases hp : livePos a v c with
  | none => rw [hp] at h; cases h
  | some p =>
    rw [hp] at h
    simp only [liftStep] at h
    cases hw : fastWrite L (a.live v).length (posToDigit tbl v (a.live v) p) ml with
    | error err => rw [hw] at h; cases h
    | ok r =>
      obtain ⟨b, m⟩ := r
      rw [hw] at h
      injection h with h
      injection h with hb h
      injection h with hv' hm
      subst hb hv' hm
      obtain ⟨j, hc, hj, _, _⟩ := livePos_spec hp
      exact ⟨by rw [hc]; exact ent_inR ha hv hj, fastWrite_ok hw⟩

theorem decodeFastLoop_length {a : Acc} (ha : a.WF) (tbl : Option Tbl) (L : Nat) :
    ∀ (s : List Char) (v : Int) (ml : Nat), InR a v → ∀ bits, decodeFastLoop a tbl L v s ml = .ok bits →
      ml + bits.length ≤ max ml L := by
  intro s
  induction s with
  | nil =>
    intro v ml _ bits h
    rw [decodeFastLoop] at h
    injection h with h
    subst h
    simp only [List.length_nil]; omega
  | cons c s ih =>
    intro v ml hv bits h
    rw [decodeFastLoop_cons] at h
    cases hs : fastStep a tbl L v c ml with
    | error err => rw [hs] at h; cases h
    | ok r =>
      obtain ⟨b, v', ml'⟩ := r
      rw [hs] at h
      simp only at h
      obtain ⟨hv', hk⟩ := fastStep_ok ha hv hs
      cases hd : decodeFastLoop a tbl L v' s ml' with
      | error err => rw [hd] at h; cases h
      | ok rest =>
        rw [hd] at h
        injection h with h
        subst h
        have := hk rest.length (ih v' ml' hv' rest hd)
        simp only [List.length_append]; omega

/-- the array after writing `bits` from position `k` on. -/
def writeBits : List Nat → Nat → List Nat → List Nat
  | bm, _, [] => bm
  | bm, k, b :: bs => writeBits (bm.set k b) (k + 1) bs

@[simp] theorem length_writeBits (bm : List Nat) (k : Nat) (bits : List Nat) :
    (writeBits bm k bits).length = bm.length := by
  induction bits generalizing bm k with
  | nil => rfl
  | cons b bs ih => simp [writeBits, ih]

theorem writeBits_of_ge {bm : List Nat} {k : Nat} (h : bm.length ≤ k) (bits : List Nat) :
    writeBits bm k bits = bm := by
  induction bits generalizing k with
  | nil => rfl
  | cons b bs ih =>
    rw [writeBits, List.set_eq_of_length_le h]
    exact ih (by omega)

theorem writeBits_zeros (pre bits : List Nat) (n : Nat) (h : bits.length ≤ n) :
    writeBits (pre ++ List.replicate n 0) pre.length bits = pre ++ bits ++ List.replicate (n - bits.length) 0 := by
  induction bits generalizing pre n with
  | nil => simp [writeBits]
  | cons b bs ih =>
    cases n with
    | zero => simp at h
    | succ m =>
      have hset : (pre ++ List.replicate (m + 1) 0).set pre.length b = (pre ++ [b]) ++ List.replicate m 0 := by
        simp [List.replicate_succ]
      have := ih (pre ++ [b]) m (by simpa using h)
      rw [writeBits, hset]
      simp only [List.length_append, List.length_cons, List.length_nil] at this
      rw [this]
      simp

/-! ## the loop -/

/-- relation between the model state (vertex, message position, array) and the environment. -/
def FastRel (a : Acc) (tbl : Option Tbl) (L : Nat) (v : Int) (ml : Nat) (bm : List Nat) (e : Gen.decode.Env) : Prop :=
  e.accessor = accPV a ∧ e.vertex_index = .int v ∧ e.nucleotides = .str ['A', 'C', 'G', 'T'] ∧
    e.shuffles = tblPV tbl ∧ e.message_location = .int (ml : Int) ∧ e.binary_message = bitsPV bm ∧
    e.bit_length = .int (L : Int) ∧ bm.length = L

macro "fast_rel" : tactic =>
  `(tactic| (refine ⟨?_, ?_, ?_, ?_, ?_, ?_, ?_, ?_⟩ <;> first | rfl | assumption))

/-- what one iteration establishes: a new related state whose array, completed by any further
writes, is the old one completed by `bits` and the same further writes. -/
def FastPost (a : Acc) (tbl : Option Tbl) (L : Nat) (bm : List Nat) (ml : Nat) (bits : List Nat) (v' : Int)
    (ml' : Nat) (e' : Gen.decode.Env) : Prop :=
  ∃ bm', FastRel a tbl L v' ml' bm' e' ∧ ∀ rest, writeBits bm' ml' rest = writeBits bm ml (bits ++ rest)

theorem natCast_beq (n k : Nat) : ((n : Int) == (k : Int)) = decide (n = k) := by
  by_cases h : n = k
  · simp [h]
  · have : ¬ (n : Int) = k := by omega
    simp [h, this]

/-- the outcome of the radix dispatch `r` (model) against the outcome `x` of the code. -/
def StepOut (a : Acc) (tbl : Option Tbl) (L : Nat) (bm : List Nat) (ml : Nat) (v' : Int)
    (r : R (List Nat × Nat)) (x : R (Flow Gen.decode.Env)) : Prop :=
  match r with
  | .error err => x = .error err
  | .ok (bits, ml') => ∃ e', x = .ok (.norm e') ∧ FastPost a tbl L bm ml bits v' ml' e'

/-- `k7` (with `k6`): move to the next vertex, then the radix dispatch. -/
theorem k7_spec (fuel : Nat) {a : Acc} (ha : a.WF) {tbl : Option Tbl} (L : Nat) {v : Int} (hv : InR a v) (ml : Nat)
    (bm : List Nat) (e : Gen.decode.Env) (hr : FastRel a tbl L v ml bm e) {c : Char} {j : Nat}
    (hc : nucIdx c = some j) (radix d : Nat) (h1 : e.nucleotide = .str [c]) (h2 : e.radix = .int (radix : Int))
    (h3 : e.remainder = .int (d : Int)) :
    StepOut a tbl L bm ml (a.ent v j) (fastWrite L radix d ml) (Gen.decode.k7 fuel e) := by
  obtain ⟨hacc, hvi, hnuc, hsh, hml, hbm, hbl, hlen⟩ := hr
  have r4 : ((radix : Int) == 4) = decide (radix = 4) := natCast_beq radix 4
  have r2 : ((radix : Int) == 2) = decide (radix = 2) := natCast_beq radix 2
  have r1 : ((radix : Int) == 1) = decide (radix = 1) := natCast_beq radix 1
  have r3 : ((radix : Int) == 3) = decide (radix = 3) := natCast_beq radix 3
  have hcast1 : ((ml : Int) + 1) = ((ml + 1 : Nat) : Int) := by push_cast; rfl
  unfold StepOut fastWrite
  simp only [Gen.decode.k7, hacc, hvi, hnuc, h1, next_vertex_spec ha hv hc, bnd_ok, h2, h3,
    pyEq_def, eqb_int, r4, r2, r1, r3, hml, hbm, hbl]
  by_cases h4 : radix = 4
  · simp only [h4, decide_true, if_true, pyFloorDiv_nat_two, bnd_ok]
    by_cases hge : ml ≥ L
    · simp only [hge, if_true, pySetItem_bits_of_ge (show bm.length ≤ ml by omega), bnd_error]
    · have hlt : ml < bm.length := by omega
      simp only [hge, if_false, pySetItem_bits hlt, bnd_ok, npAdd_int, hcast1, pyLt_int, Int.ofNat_lt]
      by_cases h1L : ml + 1 < L
      · have hlt1 : ml + 1 < (bm.set ml (d / 2)).length := by simp; omega
        simp only [h1L, decide_true, if_true, pyMod_nat_two, bnd_ok, pySetItem_bits hlt1, seq_norm]
        refine ⟨_, rfl, (bm.set ml (d / 2)).set (ml + 1) (d % 2), ?_, fun rest => rfl⟩
        have : ((bm.set ml (d / 2)).set (ml + 1) (d % 2)).length = L := by simp; exact hlen
        fast_rel
      · simp only [h1L, decide_false, Bool.false_eq_true, if_false, seq_norm]
        refine ⟨_, rfl, bm.set ml (d / 2), ?_, fun rest => ?_⟩
        · have : (bm.set ml (d / 2)).length = L := by simp; exact hlen
          fast_rel
        · have hl : (bm.set ml (d / 2)).length ≤ ml + 1 := by simp; omega
          rw [List.cons_append, List.nil_append, writeBits, writeBits_of_ge hl, writeBits_of_ge (by omega)]
  · simp only [h4, decide_false, Bool.false_eq_true, if_false]
    by_cases h2r : radix = 2
    · simp only [h2r, decide_true, if_true, pyMod_nat_two, bnd_ok]
      by_cases hge : ml ≥ L
      · simp only [hge, if_true, pySetItem_bits_of_ge (show bm.length ≤ ml by omega), bnd_error]
      · have hlt : ml < bm.length := by omega
        simp only [hge, if_false, pySetItem_bits hlt, bnd_ok, npAdd_int, hcast1]
        refine ⟨_, rfl, bm.set ml (d % 2), ?_, fun rest => rfl⟩
        have : (bm.set ml (d % 2)).length = L := by simp; exact hlen
        fast_rel
    · simp only [h2r, decide_false, Bool.false_eq_true, if_false]
      by_cases h1r : radix = 1
      · simp only [h1r, decide_true, if_true]
        exact ⟨_, rfl, bm, by fast_rel, fun rest => rfl⟩
      · simp only [h1r, decide_false, Bool.false_eq_true, if_false, ite_self]

/-- `k8`: the inverse table lookup, then `k7`. -/
theorem k8_spec (fuel : Nat) {a : Acc} (ha : a.WF) {tbl : Option Tbl} (ht : TblOK tbl a) (L : Nat) {v : Int}
    (hv : InR a v) (ml : Nat) (bm : List Nat) (e : Gen.decode.Env) (hr : FastRel a tbl L v ml bm e) {c : Char}
    {j : Nat} (hc : nucIdx c = some j) {p : Nat} (hp : p < (a.live v).length)
    (h1 : e.nucleotide = .str [c]) (h2 : e.radix = .int ((a.live v).length : Int))
    (h3 : e.remainder = .int (p : Int)) (h4 : e.used_indices = idxPV (a.live v)) :
    StepOut a tbl L bm ml (a.ent v j)
      (fastWrite L (a.live v).length (posToDigit tbl v (a.live v) p) ml) (Gen.decode.k8 fuel e) := by
  have hr' := hr
  obtain ⟨hacc, hvi, hnuc, hsh, hml, hbm, hbl, hlen⟩ := hr
  cases tbl with
  | none =>
    simp only [Gen.decode.k8, hsh, tblPV_none, pyIsNone_none, Bool.not_true, bnd_ok, Bool.false_eq_true, if_false,
      seq_norm]
    exact k7_spec fuel ha L hv ml bm e hr' hc _ p h1 h2 h3
  | some t =>
    obtain ⟨hsz, hrows⟩ := ht t rfl
    have hvt := tbl_inR hsz hv
    simp only [Gen.decode.k8, hsh, tblPV_some, pyIsNone_accPV, Bool.not_false, bnd_ok, if_true, hvi, h4, h3,
      lookup_spec hvt (tbl_row_size hrows hvt) (fun j hj => live_lt_four a v hj) hp, seq_norm]
    exact k7_spec fuel ha L hv ml bm _ (by fast_rel) hc _ _ (by exact h1) (by exact h2) (by rfl)

theorem stepOut_lift {a : Acc} {tbl : Option Tbl} {L : Nat} {bm : List Nat} {ml : Nat} {v' : Int}
    {r : R (List Nat × Nat)} {x : R (Flow Gen.decode.Env)} (h : StepOut a tbl L bm ml v' r x) :
    match liftStep v' r with
    | .error err => x = .error err
    | .ok (bits, v'', ml') => ∃ e', x = .ok (.norm e') ∧ FastPost a tbl L bm ml bits v'' ml' e' := by
  unfold StepOut at h
  unfold liftStep
  cases r with
  | error err => exact h
  | ok r => obtain ⟨bits, ml'⟩ := r; exact h

theorem for3_body_spec (fuel : Nat) {a : Acc} (ha : a.WF) {tbl : Option Tbl} (ht : TblOK tbl a) (L : Nat) {v : Int}
    (hv : InR a v) (ml : Nat) (bm : List Nat) (e : Gen.decode.Env) (hr : FastRel a tbl L v ml bm e) (i : Nat)
    (c : Char) :
    match fastStep a tbl L v c ml with
    | .error err => Gen.decode.for3_body fuel (.tup [.int (i : Int), .str [c]]) e = .error err
    | .ok (bits, v', ml') => ∃ e', Gen.decode.for3_body fuel (.tup [.int (i : Int), .str [c]]) e = .ok (.norm e') ∧
        FastPost a tbl L bm ml bits v' ml' e' := by
  obtain ⟨hacc, hvi, hnuc, hsh, hml, hbm, hbl, hlen⟩ := hr
  have hu4 : ∀ j ∈ a.live v, j < 4 := fun j hj => live_lt_four a v hj
  unfold fastStep
  cases hp : livePos a v c with
  | none =>
    simp only [Gen.decode.for3_body, pyUnpack_two_tup, bnd_ok, getD_cons_zero', getD_cons_one', hacc, hvi,
      used_spec ha hv, pyLen_idxPV, hnuc, pyMap_nucs hu4, pyIn_nucs, hp, Option.isSome_none, Bool.false_eq_true,
      if_false, seq_error]
  | some p =>
    obtain ⟨j, hc, hj, _, hlt⟩ := livePos_spec hp
    simp only [Gen.decode.for3_body, pyUnpack_two_tup, bnd_ok, getD_cons_zero', getD_cons_one', hacc, hvi,
      used_spec ha hv, pyLen_idxPV, hnuc, pyMap_nucs hu4, pyIn_nucs, hp, Option.isSome_some, if_true,
      pyIndexOf_nucs hp, seq_norm, hc, Option.getD_some]
    refine stepOut_lift (k8_spec fuel ha ht L hv ml bm _ ?_ hc hlt ?_ ?_ ?_ ?_)
    · fast_rel
    all_goals rfl

theorem for3_loop (fuel : Nat) {a : Acc} (ha : a.WF) {tbl : Option Tbl} (ht : TblOK tbl a) (L : Nat) :
    ∀ (s : List Char) (n : Nat) (v : Int), InR a v → ∀ (ml : Nat) (bm : List Nat) (e : Gen.decode.Env),
      FastRel a tbl L v ml bm e →
      match decodeFastLoop a tbl L v s ml with
      | .error err =>
        forLoop (Gen.decode.for3_body fuel) (enumFrom n (s.map fun c => PV.str [c])) e = .error err
      | .ok bits => ∃ e', forLoop (Gen.decode.for3_body fuel) (enumFrom n (s.map fun c => PV.str [c])) e =
          .ok (.norm e') ∧ e'.binary_message = bitsPV (writeBits bm ml bits) := by
  intro s
  induction s with
  | nil =>
    intro n v _ ml bm e hr
    rw [decodeFastLoop]
    exact ⟨e, rfl, hr.2.2.2.2.2.1⟩
  | cons c s ih =>
    intro n v hv ml bm e hr
    rw [decodeFastLoop_cons]
    have hb := for3_body_spec fuel ha ht L hv ml bm e hr n c
    cases hs : fastStep a tbl L v c ml with
    | error err =>
      rw [hs] at hb
      exact forLoop_cons_error hb _
    | ok r =>
      obtain ⟨b, v', ml'⟩ := r
      rw [hs] at hb
      obtain ⟨e1, hb1, bm1, hr1, hw⟩ := hb
      have hv' := (fastStep_ok ha hv hs).1
      have := ih (n + 1) v' hv' ml' bm1 e1 hr1
      simp only [List.map_cons, enumFrom_cons, forLoop_cons_norm hb1]
      cases hd : decodeFastLoop a tbl L v' s ml' with
      | error err => rw [hd] at this; exact this
      | ok rest =>
        rw [hd] at this
        obtain ⟨e2, hl, hbm2⟩ := this
        exact ⟨e2, hl, by rw [hbm2, hw]⟩

end Dsw.Tie.DecodeTie
