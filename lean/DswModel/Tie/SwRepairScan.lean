import DswModel.Tie.SwRepairLib
/-!
# Translation tie — `repair_dna`: the scan loop `while location < len(dna_sequence)`

`Gen.repair_dna.while1_body` computes one `scanStep` of the model; the loop computes `scan`.
-/
namespace Dsw.Tie.Repair
open Dsw Dsw.Py Dsw.Tie

/-! ## model side: what the scan keeps true -/

/-- invariant of the scan: the current vertex is a row index, there is one more split than detections, every
entry of the queue (hence of every look-back window) is `-1` or a row index; plus the counting, shape and
alphabet invariants of `Lemmas/Repair.lean`. -/
structure SInv (P : Params) (st : Scan) : Prop where
  v0 : 0 ≤ st.v
  v1 : st.v < P.a.size
  splits_len : st.splits.length = st.detected + 1
  queue_ok : ∀ x ∈ st.queue, -1 ≤ x ∧ x < P.a.size
  markers_ok : ∀ m ∈ st.markers, ∀ x ∈ m, -1 ≤ x ∧ x < P.a.size
  cnt : ScanCount P.k P.dna st
  det : ScanDet P.k P.dna st
  acgt : ScanAcgt st

theorem SInv.init (P : Params) (start : Nat) (hs : start < P.a.size) :
    SInv P (Scan.init P.dna (start : Int)) := by
  refine ⟨by simp [Scan.init], by simp [Scan.init]; omega, by simp [Scan.init], ?_, by simp [Scan.init],
    ScanCount.init _ _ _, ScanDet.init _ _ _, ScanAcgt.init _ _⟩
  intro x hx
  simp only [Scan.init, List.mem_replicate] at hx
  omega

theorem window_length_le (dna : List Char) (k loc : Nat) :
    (pySlice dna ((loc : Int) + 1) ((loc : Int) + k + 1)).length ≤ k := by
  rw [length_pySlice]; unfold pyNorm; split <;> split <;> omega

theorem SInv.step {P : Params} (ha : P.a.WF) (hsz : P.a.size = 4 ^ P.k) (hk : 1 ≤ P.k) (hd : IsAcgt P.dna)
    {st : Scan} (h : SInv P st) (hlt : st.loc < P.dna.length) : SInv P (scanStep P.a P.k P.dna st) := by
  have hcnt := ScanCount.step P.a P.k P.dna st h.cnt hlt
  have hdet := ScanDet.step P.a P.k P.dna hk st h.det hlt
  have hacgt := ScanAcgt.step P.a P.k P.dna hd st h.acgt hlt
  obtain ⟨x, xs, hsp⟩ : ∃ x xs, st.splits = x :: xs := by
    cases hs : st.splits with
    | nil => exact absurd hs h.det.splits_ne
    | cons x xs => exact ⟨x, xs, rfl⟩
  have hlen := h.splits_len
  rw [hsp] at hlen
  rcases scanStep_cases P.a P.k P.dna st with ⟨t, ht, e⟩ | ⟨-, e⟩
  · rw [e] at hcnt hdet hacgt ⊢
    obtain ⟨hc, ht2, ht0⟩ := Acc.next_eq_some ht
    obtain ⟨j, hj⟩ := Option.isSome_iff_exists.mp hc
    have ht1 : t < P.a.size := by
      rw [ht2, hj]
      exact ha.ent_lt h.v0 h.v1 (Dsw.Tie.nucIdx_lt hj) (by rw [ht2, hj] at ht0; exact ht0)
    refine ⟨ht0, ht1, ?_, ?_, h.markers_ok, hcnt, hdet, hacgt⟩
    · simp only [Scan.advance, hsp, List.tail_cons, List.length_cons] at hlen ⊢
      exact hlen
    · intro y hy
      simp only [Scan.advance] at hy
      rcases List.mem_or_eq_of_mem_set hy with hy | rfl
      · exact h.queue_ok y hy
      · omega
  · rw [e] at hcnt hdet hacgt ⊢
    have hw := window_length_le P.dna P.k st.loc
    have hlt4 := kmerIdx_lt (pySlice P.dna ((st.loc : Int) + 1) ((st.loc : Int) + P.k + 1))
    have hpow : 4 ^ (pySlice P.dna ((st.loc : Int) + 1) ((st.loc : Int) + P.k + 1)).length ≤ 4 ^ P.k :=
      Nat.pow_le_pow_right (by omega) hw
    refine ⟨?_, ?_, ?_, h.queue_ok, ?_, hcnt, hdet, hacgt⟩
    · simp only [Scan.detect]; omega
    · simp only [Scan.detect]
      rw [hsz]
      have : kmerIdx (pySlice P.dna ((st.loc : Int) + 1) ((st.loc : Int) + P.k + 1)) < 4 ^ P.k := by omega
      exact_mod_cast this
    · simp only [Scan.detect, hsp, List.tail_cons, List.length_cons] at hlen ⊢
      omega
    · intro m hm y hy
      simp only [Scan.detect, List.mem_cons] at hm
      rcases hm with rfl | hm
      · exact h.queue_ok y (mem_of_mem_pySlice hy)
      · exact h.markers_ok m hm y hy

/-- the branch test of the scan: `nucleotide in [nucleotides[i] for i in used_indices]`. -/
theorem livePos_isSome_eq_next (a : Acc) (v : Int) (c : Char) :
    (livePos a v c).isSome = (a.next v c).isSome := by
  unfold livePos Acc.next
  cases hc : nucIdx c with
  | none => rfl
  | some j =>
    have hj := Dsw.Tie.nucIdx_lt hc
    by_cases hge : a.ent v j ≥ 0
    · have : (a.live v).contains j = true := List.contains_iff_mem.mpr ((mem_live_iff a v j).2 ⟨hj, hge⟩)
      dsimp only
      rw [this, if_pos rfl, if_pos hge]; rfl
    · have : ¬ (a.live v).contains j = true := fun hm =>
        hge ((mem_live_iff a v j).1 (List.contains_iff_mem.mp hm)).2
      dsimp only
      rw [if_neg this, if_neg hge]; rfl

/-! ## the environment during the scan -/

/-- the variables of the scan, as the environment holds them. -/
def ScanVars (st : Scan) (e : Env) : Prop :=
  e.location = .int (st.loc : Int) ∧ e.vertex_index = .int st.v ∧
    e.index_queue = .arr (st.queue.map .int) ∧
    e.split_sequences = .list (st.splits.reverse.map .str) ∧
    e.chuck_sequences = .list (st.chunks.reverse.map .str) ∧
    e.index_markers = .list (st.markers.reverse.map fun m => .arr (m.map .int)) ∧
    e.detected_count = .int (st.detected : Int) ∧ e.chuck_flag = .bool false ∧
    e.visited_times = .int (st.visited : Int)

/-- closes a `Const` goal about an environment literal: every field is `rfl` or a hypothesis. -/
macro "const_rel" : tactic =>
  `(tactic| (refine ⟨?_, ?_, ?_, ?_, ?_, ?_, ?_⟩ <;> first | rfl | assumption))

theorem cond_spec (fuel : Nat) {P : Params} {st : Scan} {e : Env} (hc : Const P e) (hv : ScanVars st e) :
    Gen.repair_dna.while1_cond fuel e = .ok (decide (st.loc < P.dna.length)) := by
  obtain ⟨hdna, -⟩ := hc
  obtain ⟨hloc, -⟩ := hv
  simp only [Gen.repair_dna.while1_cond, hdna, hloc, pyLen_str, bnd_ok, pyLt_nat]

theorem body_advance (fuel : Nat) {P : Params} (ha : P.a.WF) {st : Scan} {e : Env} (hc : Const P e)
    (hv : ScanVars st e) (hi : SInv P st) (hlt : st.loc < P.dna.length) {t : Int}
    (ht : P.a.next st.v (P.dna.getD st.loc 'A') = some t) :
    ∃ e', Gen.repair_dna.while1_body fuel e = .ok (.norm e') ∧ Const P e' ∧
      ScanVars (st.advance (P.dna.getD st.loc 'A') t) e' := by
  obtain ⟨hdna, hacc, hk, hchk, hind, hheap, hnuc⟩ := hc
  obtain ⟨hloc, hvi, hq, hsplit, hchunks, hmarkers, hdet, hflag, hvis⟩ := hv
  obtain ⟨x, xs, hsp⟩ : ∃ x xs, st.splits = x :: xs := by
    cases hs : st.splits with
    | nil => exact absurd hs hi.det.splits_ne
    | cons x xs => exact ⟨x, xs, rfl⟩
  rw [hsp] at hsplit
  simp only [List.reverse_cons, List.map_append, List.map_cons, List.map_nil] at hsplit
  obtain ⟨hcs, ht2, ht0⟩ := Acc.next_eq_some ht
  subst ht2
  obtain ⟨j, hj⟩ := Option.isSome_iff_exists.mp hcs
  have hlp : (livePos P.a st.v (P.dna.getD st.loc 'A')).isSome = true := by
    rw [livePos_isSome_eq_next, ht]; rfl
  have hql : st.loc < (st.queue.map PV.int).length := by
    rw [List.length_map, hi.det.queue_len]; exact hlt
  simp only [Gen.repair_dna.while1_body, hdna, hacc, hnuc, hloc, hvi, hq, hsplit, hvis,
    where_row_ge_zero ha hi.v0 hi.v1, bnd_ok, pyIndex_str_getD hlt,
    pyMap_nucs (fun j hj => live_lt_four P.a st.v hj), pyIn_live, hlp, if_true,
    pyIndex_list_append_singleton_neg_one, npAdd_str, pySetItem_list_append_singleton_neg_one,
    acc_index_nuc ha hi.v0 hi.v1 hj, pySetItem_ints_nat hql, npAdd_nat_one]
  refine ⟨_, rfl, by const_rel, ?_⟩
  refine ⟨rfl, rfl, ?_, ?_, hchunks, hmarkers, hdet, hflag, rfl⟩
  · simp only [Scan.advance, List.map_set]
  · simp only [Scan.advance, hsp, List.headD_cons, List.tail_cons, List.reverse_cons, List.map_append,
      List.map_cons, List.map_nil]

theorem body_detect (fuel : Nat) {P : Params} (hd : IsAcgt P.dna) {st : Scan} {e : Env} (hc : Const P e)
    (hv : ScanVars st e) (hi : SInv P st) (hlt : st.loc < P.dna.length)
    (ht : P.a.next st.v (P.dna.getD st.loc 'A') = none) (ha : P.a.WF) :
    ∃ e', Gen.repair_dna.while1_body fuel e = .ok (.norm e') ∧ Const P e' ∧
      ScanVars (st.detect P.k P.dna) e' := by
  obtain ⟨hdna, hacc, hk, hchk, hind, hheap, hnuc⟩ := hc
  obtain ⟨hloc, hvi, hq, hsplit, hchunks, hmarkers, hdet, hflag, hvis⟩ := hv
  obtain ⟨x, xs, hsp⟩ : ∃ x xs, st.splits = x :: xs := by
    cases hs : st.splits with
    | nil => exact absurd hs hi.det.splits_ne
    | cons x xs => exact ⟨x, xs, rfl⟩
  rw [hsp] at hsplit
  simp only [List.reverse_cons, List.map_append, List.map_cons, List.map_nil] at hsplit
  have hlp : (livePos P.a st.v (P.dna.getD st.loc 'A')).isSome = false := by
    rw [livePos_isSome_eq_next, ht]; rfl
  have hwin : IsAcgt (pySlice P.dna ((st.loc : Int) + 1) ((st.loc : Int) + P.k + 1)) := hd.pySlice _ _
  simp only [Gen.repair_dna.while1_body, hdna, hacc, hnuc, hloc, hvi, hq, hsplit, hdet, hk, hchunks, hmarkers,
    where_row_ge_zero ha hi.v0 hi.v1, bnd_ok, pyIndex_str_getD hlt,
    pyMap_nucs (fun j hj => live_lt_four P.a st.v hj), pyIn_live, hlp, Bool.false_eq_true, if_false,
    pyIndex_list_append_singleton_neg_one, pySetItem_list_append_singleton_neg_one,
    npAdd_int, npSub_int, pyLen_str, pySliceV_str_none_int, pySliceV_str_int, pySliceV_arr_int,
    dna_to_number_acgt fuel hwin, pyMod_nat_four, pyIndex_ACGT (Nat.mod_lt _ (by omega : 0 < 4)),
    pyAppend_list, pySlice_map]
  refine ⟨_, rfl, by const_rel, ?_⟩
  refine ⟨?_, rfl, rfl, ?_, ?_, ?_, ?_, hflag, hvis⟩
  · simp only [Scan.detect]; congr 1; try omega
  · simp only [Scan.detect, hsp, List.headD_cons, List.tail_cons, List.reverse_cons, List.map_append,
      List.map_cons, List.map_nil, kmerIdx, List.append_assoc]
  · simp only [Scan.detect, List.reverse_cons, List.map_append, List.map_cons, List.map_nil]
  · simp only [Scan.detect, List.reverse_cons, List.map_append, List.map_cons, List.map_nil]
  · simp only [Scan.detect]; congr 1

/-- one iteration of the loop is one `scanStep`. -/
theorem body_spec (fuel : Nat) {P : Params} (ha : P.a.WF) (hd : IsAcgt P.dna) {st : Scan} {e : Env}
    (hc : Const P e) (hv : ScanVars st e) (hi : SInv P st) (hlt : st.loc < P.dna.length) :
    ∃ e', Gen.repair_dna.while1_body fuel e = .ok (.norm e') ∧ Const P e' ∧
      ScanVars (scanStep P.a P.k P.dna st) e' := by
  rcases scanStep_cases P.a P.k P.dna st with ⟨t, ht, hs⟩ | ⟨ht, hs⟩
  · rw [hs]; exact body_advance fuel ha hc hv hi hlt ht
  · rw [hs]; exact body_detect fuel hd hc hv hi hlt ht ha

/-- the loop computes `scan` (whose own fuel always suffices). -/
theorem scan_loop {P : Params} (ha : P.a.WF) (hsz : P.a.size = 4 ^ P.k) (hk : 1 ≤ P.k) (hd : IsAcgt P.dna)
    (gfuel : Nat) :
    ∀ (n : Nat) (st : Scan) (e : Env), Const P e → ScanVars st e → SInv P st →
      P.dna.length - st.loc ≤ n → ∀ fuel, n < fuel →
      ∃ st' e', scan P.a P.k P.dna n st = some st' ∧
        whileLoop (Gen.repair_dna.while1_cond gfuel) (Gen.repair_dna.while1_body gfuel) fuel e = .ok (.norm e') ∧
        Const P e' ∧ ScanVars st' e' ∧ SInv P st' := by
  intro n
  induction n with
  | zero =>
    intro st e hc hv hi hn fuel hf
    obtain ⟨f, rfl⟩ : ∃ f, fuel = f + 1 := ⟨fuel - 1, by omega⟩
    have hcond := cond_spec gfuel hc hv
    have : ¬ st.loc < P.dna.length := by omega
    rw [decide_eq_false this] at hcond
    exact ⟨st, e, scan_done _ _ _ _ _ (by omega), whileLoop_false hcond f, hc, hv, hi⟩
  | succ n ih =>
    intro st e hc hv hi hn fuel hf
    obtain ⟨f, rfl⟩ : ∃ f, fuel = f + 1 := ⟨fuel - 1, by omega⟩
    have hcond := cond_spec gfuel hc hv
    by_cases hlt : st.loc < P.dna.length
    · rw [decide_eq_true hlt] at hcond
      obtain ⟨e1, hb, hc1, hv1⟩ := body_spec gfuel ha hd hc hv hi hlt
      have hi1 := hi.step ha hsz hk hd hlt
      have hloc := scanStep_loc_lt P.a P.k P.dna st
      obtain ⟨st', e', h1, h2, h3⟩ := ih _ e1 hc1 hv1 hi1 (by omega) f (by omega)
      refine ⟨st', e', ?_, ?_, h3⟩
      · rw [scan_succ _ _ _ _ _ hlt]; exact h1
      · rw [whileLoop_true_norm hcond hb]; exact h2
    · rw [decide_eq_false hlt] at hcond
      exact ⟨st, e, scan_done _ _ _ _ _ (by omega), whileLoop_false hcond f, hc, hv, hi⟩

end Dsw.Tie.Repair
