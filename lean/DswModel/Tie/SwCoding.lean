import DswModel.Tie.NpLemmas
import DswModel.Tie.BuildDefs
import DswModel.Tie.GzArith
import DswModel.Tie.GzViews
/-!
# Translation tie — `connect_coding_graph` (dsw/spiderweb.py)

`Dsw.Gen.connect_coding_graph` (generated from the Python source on every run) computes the model function
`Dsw.connectCodingGraph` for every mask (boolean or 0/1 integer array of `4^k` cells) and every threshold:
the trimming rounds with the code's own stopping rule, the arc materialisation, and for threshold 1 the
backward closure from the branching vertices and the predecessor cascade; `ValueError` exactly when the model
says so; the returned vertex description denotes the model's vertex list (`Denotes`: the index array for
threshold 1, otherwise a mask — the caller's own array when nothing was trimmed, a boolean array otherwise).
-/
namespace Dsw.Tie
open Dsw Dsw.Py

theorem tie_connect_coding_graph (k t : Nat) (m : Mask) (asInt : Bool) (fuel : Nat) (verbose : Bool)
    (hm : m.size = 4 ^ k) (hf : 4 ^ k + 2 ≤ fuel) :
    match connectCodingGraph k m t with
    | .error e => Gen.connect_coding_graph fuel (.int (k : Int)) (maskPV asInt m) (.int (t : Int)) (.bool verbose) = .error e
    | .ok (vs, a) => ∃ d, Gen.connect_coding_graph fuel (.int (k : Int)) (maskPV asInt m) (.int (t : Int)) (.bool verbose) =
        .ok (.tup [d, accPV a]) ∧ Denotes d vs (4 ^ k) t := by
  sorry

end Dsw.Tie
