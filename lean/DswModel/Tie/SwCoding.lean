import DswModel.Tie.SwCodingOne
/-!
# Translation tie — `connect_coding_graph` (dsw/spiderweb.py)

`Dsw.Gen.connect_coding_graph` (generated from the Python source on every run) computes the model function
`Dsw.connectCodingGraph` for every mask (boolean or 0/1 integer array of `4^k` cells) and every threshold:
the trimming rounds with the code's own stopping rule, the arc materialisation, and for threshold 1 the
backward closure from the branching vertices and the predecessor cascade; `ValueError` exactly when the model
says so; the returned vertex description denotes the model's vertex list (`Denotes`: the index array for
threshold 1, otherwise a mask — the caller's own array when nothing was trimmed, a boolean array otherwise).

The proof is split over `SwCodingLib` (primitives), `SwCodingTrim` (trimming rounds), `SwCodingArcs` (arc
materialisation), `SwCodingConv` (the model's loops end within their fuel), `SwCodingOne` (threshold-1 phase).
-/
namespace Dsw.Tie
open Dsw Dsw.Py

namespace Ccg
open Dsw.Trim Dsw.TrimOne

/-! ### glue -/

theorem seq_reduce {ε : Type} {m : R (Flow ε)} {k : ε → R (Flow ε)} (Q : ε → Prop)
    (h : ∃ e1, m = .ok (.norm e1) ∧ Q e1) : ∃ e1, seq m k = k e1 ∧ Q e1 := by
  obtain ⟨e1, rfl, hq⟩ := h
  exact ⟨e1, rfl, hq⟩

theorem callResult_seq_pred {ε : Type} {m : R (Flow ε)} {k : ε → R (Flow ε)} (Q : ε → Prop) (P : RV → Prop)
    (hm : ∃ e1, m = .ok (.norm e1) ∧ Q e1) (hk : ∀ e1, Q e1 → P (callResult (k e1))) :
    P (callResult (seq m k)) := by
  obtain ⟨e1, rfl, hq⟩ := hm
  exact hk e1 hq

theorem callResult_seq_error {ε : Type} {m : R (Flow ε)} {k : ε → R (Flow ε)} {err : PyErr}
    (hm : m = .error err) : callResult (seq m k) = .error err := by
  rw [hm]; rfl

/-- what the theorem says about the value of the call. -/
def Post (k t : Nat) (res : R (List Nat × Acc)) (r : RV) : Prop :=
  match res with
  | .error err => r = .error err
  | .ok (vs, a) => ∃ d, r = .ok (.tup [d, accPV a]) ∧ Denotes d vs (4 ^ k) t

/-! ### `k = 0`: the single vertex is never useless -/

theorem k0_facts {s : Mask} (hs : s.size = 4 ^ 0) (hc : 1 ≤ s.count) :
    uselessOf (inducedAccessor 0 s) = [] ∧ (obtainVertices (inducedAccessor 0 s)).isEmpty = false := by
  have hw := inducedAccessor_wfdb 0 s
  obtain ⟨v, hv, hsv⟩ := Mask.exists_of_count_pos hc
  have hv0 : v = 0 := by rw [hs] at hv; omega
  subst hv0
  have hent : ∀ j, j < 4 → (inducedAccessor 0 s).ent ((0 : Nat) : Int) j = 0 := by
    intro j hj
    rw [inducedAccessor_ent_trim 0 s 0 j (by omega) hj]
    have : (0 * 4 + j) % 4 ^ 0 = 0 := by rw [Nat.pow_zero, Nat.mod_one]
    rw [this, if_pos ⟨hsv, hsv⟩]; rfl
  have hdeg : (inducedAccessor 0 s).deg 0 = 4 := by
    rw [deg_eq]
    have : ((List.range 4).filter fun j => decide ((inducedAccessor 0 s).ent ((0 : Nat) : Int) j ≥ 0)) = List.range 4 := by
      rw [List.filter_eq_self]
      intro j hj
      rw [hent j (List.mem_range.mp hj)]; rfl
    rw [this]; rfl
  have h0 : 0 ∈ obtainVertices (inducedAccessor 0 s) := (mem_vs hw 0).2 ⟨by omega, by omega⟩
  refine ⟨?_, ?_⟩
  · unfold uselessOf
    rw [List.filter_eq_nil_iff]
    intro x hx
    have hx0 : x = 0 := by have := ((mem_vs hw x).1 hx).1; omega
    subst hx0
    have hu : (usefulOf (inducedAccessor 0 s)).getD 0 false = true := by
      apply (usefulOf_spec _).1
      rw [u0_getD, hw.1]
      exact ⟨by omega, by omega⟩
    simp [hu]
  · cases hv : obtainVertices (inducedAccessor 0 s) with
    | nil => rw [hv] at h0; cases h0
    | cons x xs => rfl

/-! ### the threshold-1 phase on the induced accessor -/

theorem t1_spec (k fuel : Nat) (hf : 4 ^ k + 2 ≤ fuel) (s : Mask) (hs : s.size = 4 ^ k) (hc : 1 ≤ s.count) (e : CEnv)
    (h : RSt k (inducedAccessor k s) e) :
    (∀ vs r, thresholdOneLoop k (4 ^ k + 1) (inducedAccessor k s) = .ok (vs, r) →
      ∃ e', whileLoop (Gen.connect_coding_graph.while5_cond fuel) (Gen.connect_coding_graph.while5_body fuel) fuel e =
        .ok (.norm e') ∧ e'.vertices = idxArrPV vs ∧ e'.accessor = accPV r) ∧
    (∀ err, thresholdOneLoop k (4 ^ k + 1) (inducedAccessor k s) = .error err →
      whileLoop (Gen.connect_coding_graph.while5_cond fuel) (Gen.connect_coding_graph.while5_body fuel) fuel e =
        .error err) := by
  by_cases hk : 1 ≤ k
  · have := liveCount_le k (inducedAccessor k s)
    exact while5_spec k fuel hk hf (4 ^ k + 1) _ fuel e (by omega) (by omega) h
  · have hk0 : k = 0 := by omega
    subst hk0
    obtain ⟨hu, hv⟩ := k0_facts hs hc
    have hb := iter_spec 0 fuel hf _ (Or.inr hu) e h
    rw [hv, hu] at hb
    simp only [Bool.false_eq_true, if_false, List.isEmpty_nil, if_true] at hb
    obtain ⟨e1, hb1, g1, g2⟩ := hb
    obtain ⟨W', rfl⟩ : ∃ W', fuel = W' + 1 := ⟨fuel - 1, by omega⟩
    rw [thresholdOneLoop_succ', hv, hu]
    simp only [Bool.false_eq_true, if_false, List.isEmpty_nil, if_true]
    refine ⟨fun vs r hr => ?_, fun err hr => (by cases hr)⟩
    cases hr
    exact ⟨e1, whileLoop_true_brk (cond := Gen.connect_coding_graph.while5_cond (W' + 1)) (e := e) rfl hb1 W', g1, g2⟩

/-! ### after the trimming rounds -/

theorem k15_reduce (k t fuel : Nat) (ai : Bool) (s : Mask) (n : Int) (hs : s.size = 4 ^ k) (hc : 1 ≤ s.count) (e : CEnv)
    (h : TrimSt k t ai s n e) :
    ∃ e1, Gen.connect_coding_graph.k15 fuel e = Gen.connect_coding_graph.k14 fuel e1 ∧
      (e1.observed_length = .int (k : Int) ∧ e1.vertices = maskPV ai s ∧ e1.threshold = .int (t : Int) ∧
        e1.accessor = accPV (inducedAccessor k s)) := by
  obtain ⟨h1, h2, h3, h4, h5⟩ := h
  have hpos : (0 : Int) < ((cnt s.toList : Nat) : Int) := by rw [← count_eq_cnt]; omega
  simp only [Gen.connect_coding_graph.k15, h3, maskPV_eq, npSum_bmask, pyLen_bmask, bnd_ok, Array.length_toList, hs,
    pyTrueDiv_nat_pos _ (four_pow_pos k), pyGt_rat_zero, hpos, decide_true, if_true, h4, GzTie.pyLen_ACGT, h1,
    pyPow_nat, pyInt_int, GzV.neg_ones_expr, pyRange1_nat, pyIter_list]
  refine seq_reduce _ ?_
  exact arcs_loop k fuel ai s hs (.int (t : Int)) _ (by first | rfl | exact h1) (by first | rfl | rw [maskPV_eq])
    (by first | rfl | exact h2) rfl

theorem denotes_mask (ai : Bool) (s : Mask) {k t : Nat} (hs : s.size = 4 ^ k) (ht : t ≠ 1) :
    Denotes (maskPV ai s) s.indices (4 ^ k) t := by
  unfold Denotes
  rw [if_neg ht]
  refine ⟨s.toList.map (cellPV ai), rfl, by simp [hs], fun i hi => ?_⟩
  have hi' : i < s.size := by rw [hs]; exact hi
  rw [Bool.eq_iff_iff, decide_eq_true_eq, Mask.mem_indices, List.getD_eq_getElem?_getD, List.getElem?_map,
    List.getElem?_eq_getElem (by simpa using hi'), Option.map_some, Option.getD_some, truthy_cellPV]
  simp [Array.getD_eq_getD_getElem?, hi']

theorem k14_spec (k t fuel : Nat) (hf : 4 ^ k + 2 ≤ fuel) (ai : Bool) (s : Mask) (hs : s.size = 4 ^ k)
    (hc : 1 ≤ s.count) (e : CEnv)
    (h : e.observed_length = .int (k : Int) ∧ e.vertices = maskPV ai s ∧ e.threshold = .int (t : Int) ∧
      e.accessor = accPV (inducedAccessor k s)) :
    Post k t (if t = 1 then thresholdOneLoop k (4 ^ k + 1) (inducedAccessor k s)
      else pure (s.indices, inducedAccessor k s)) (callResult (Gen.connect_coding_graph.k14 fuel e)) := by
  obtain ⟨h1, h2, h3, h4⟩ := h
  simp only [Gen.connect_coding_graph.k14, h3, pyEq_def, eqb_int, bnd_ok]
  by_cases ht : t = 1
  · subst ht
    rw [if_pos rfl]
    have hbeq : (((1 : Nat) : Int) == 1) = true := rfl
    simp only [hbeq, if_true]
    obtain ⟨t1, t2⟩ := t1_spec k fuel hf s hs hc e ⟨h1, h4, inducedAccessor_wfdb k s⟩
    cases hres : thresholdOneLoop k (4 ^ k + 1) (inducedAccessor k s) with
    | error err =>
      rw [t2 err hres]
      rfl
    | ok p =>
      obtain ⟨vs, r⟩ := p
      obtain ⟨e', hl, g1, g2⟩ := t1 vs r hres
      rw [hl]
      simp only [seq_norm, Gen.connect_coding_graph.k13, bnd_ok, ite_self, Gen.connect_coding_graph.k12,
        callResult_ret, g1, g2]
      exact ⟨_, rfl, by simp [Denotes]⟩
  · rw [if_neg ht]
    have hbeq : ((t : Int) == 1) = false := by
      simp only [beq_eq_false_iff_ne, ne_eq]; omega
    simp only [hbeq, Bool.false_eq_true, if_false, seq_norm, Gen.connect_coding_graph.k13, bnd_ok, ite_self,
      Gen.connect_coding_graph.k12, callResult_ret, h2, h4]
    exact ⟨_, rfl, denotes_mask ai s hs ht⟩

theorem body_spec (k t fuel : Nat) (hf : 4 ^ k + 2 ≤ fuel) (ai : Bool) (m : Mask) (hm : m.size = 4 ^ k) (e : CEnv)
    (h1 : e.observed_length = .int (k : Int)) (h2 : e.threshold = .int (t : Int)) (h3 : e.vertices = maskPV ai m) :
    Post k t (connectCodingGraph k m t) (callResult (Gen.connect_coding_graph.body fuel e)) := by
  have hst : TrimSt k t ai m 1
      ({ e with times := .int 1, nucleotides := .str ['A', 'C', 'G', 'T'] } : CEnv) := ⟨h1, h2, h3, rfl, rfl⟩
  have hw := trim_while k t fuel (4 ^ k + 1) ai m 1 fuel _ hm hst (by omega)
  simp only [Gen.connect_coding_graph.body]
  cases htl : trimLoop k t (4 ^ k + 1) m with
  | error err =>
    have herr : err = .valueError :=
      (trimLoop_error k t _ m err hm (by have := Mask.count_le_size m; omega) htl).1
    subst herr
    have hmodel : connectCodingGraph k m t = .error .valueError := by
      unfold connectCodingGraph; rw [htl]; rfl
    rw [hmodel]
    show callResult _ = _
    apply callResult_seq_error
    exact hw.2 htl
  | ok s =>
    have hmodel : connectCodingGraph k m t =
        (if t = 1 then thresholdOneLoop k (4 ^ k + 1) (inducedAccessor k s)
          else pure (s.indices, inducedAccessor k s)) := by
      unfold connectCodingGraph; rw [htl]; rfl
    rw [hmodel]
    obtain ⟨hs, _, _⟩ := trimLoop_ok_closed hm htl
    have hc := trimLoop_ok_count_pos hm htl
    refine callResult_seq_pred (fun e' => ∃ ai' n', TrimSt k t ai' s n' e') _ ?_ ?_
    · obtain ⟨e', ai', n', hl, g⟩ := hw.1 s htl
      exact ⟨e', hl, ai', n', g⟩
    · rintro e1 ⟨ai', n', g⟩
      obtain ⟨e2, hr, g2⟩ := k15_reduce k t fuel ai' s n' hs hc e1 g
      rw [hr]
      exact k14_spec k t fuel hf ai' s hs hc e2 g2

end Ccg

theorem tie_connect_coding_graph (k t : Nat) (m : Mask) (asInt : Bool) (fuel : Nat) (verbose : Bool)
    (hm : m.size = 4 ^ k) (hf : 4 ^ k + 2 ≤ fuel) :
    match connectCodingGraph k m t with
    | .error e => Gen.connect_coding_graph fuel (.int (k : Int)) (maskPV asInt m) (.int (t : Int)) (.bool verbose) = .error e
    | .ok (vs, a) => ∃ d, Gen.connect_coding_graph fuel (.int (k : Int)) (maskPV asInt m) (.int (t : Int)) (.bool verbose) =
        .ok (.tup [d, accPV a]) ∧ Denotes d vs (4 ^ k) t := by
  have h := Ccg.body_spec k t fuel hf asInt m hm
    { observed_length := .int (k : Int), vertices := maskPV asInt m, threshold := .int (t : Int),
      verbose := .bool verbose } rfl rfl rfl
  exact h

end Dsw.Tie
