import DswModel.Tie.PyLemmas
/-!
# Translation tie — `calculus_subtraction`

`Dsw.Gen.calculus_subtraction` (generated from the Python source on every run) computes the model
function `Dsw.calculusSubtraction` on the function's contract: a non-empty string of decimal digits
and a one-digit operand not larger than the number.

Proof plan: the number is `P ++ [last]`.  With a one-digit operand the outer loop (`for1`) runs once.
If `last < b` the prefix is `A ++ (d+1) :: replicate z 0` (there is a non-zero digit because
`b ≤ toNat s`); the borrow loop (`while2`, lemma `while2_spec`, induction on `z`) turns the zeros
into nines, `k1` decrements `d+1`.  The copy loop (`for3`, `forLoop_rel_map`) prepends the prefix to
the residue, and the search loop (`for4`, `forLoop_inv_ret`) strips the leading zeros.
-/
namespace Dsw.Tie
open Dsw Dsw.Py

namespace SubTie

/-! ### model side -/

theorem stripZeros_replicate_append (k : Nat) (l : Dec) : stripZeros (List.replicate k 0 ++ l) = stripZeros l := by
  induction k with
  | zero => rfl
  | succ k ih => rw [List.replicate_succ, List.cons_append, stripZeros, ih]

theorem stripZeros_cons_of_ne {d : Nat} (h : d ≠ 0) (r : Dec) : stripZeros (d :: r) = d :: r := by
  cases d with
  | zero => exact absurd rfl h
  | succ n => rfl

theorem stripZeros_eq_drop {q : Dec} {i : Nat} (hi : i < q.length) (hz : q.take i = List.replicate i 0)
    (hne : q[i] ≠ 0) : stripZeros q = q.drop i := by
  have h1 : q = List.replicate i 0 ++ q.drop i := by rw [← hz, List.take_append_drop]
  rw [h1, stripZeros_replicate_append, ← h1, List.drop_eq_getElem_cons hi, stripZeros_cons_of_ne hne]

theorem stripZeros_of_all_zero {q : Dec} (hz : q.take q.length = List.replicate q.length 0) :
    stripZeros q = [0] := by
  rw [List.take_length] at hz
  have := stripZeros_replicate_append q.length []
  rw [List.append_nil, ← hz] at this
  rw [this]; rfl

theorem toNat_append_singleton (P : Dec) (x : Nat) : Dec.toNat (P ++ [x]) = Dec.toNat P * 10 + x := by
  simp [Dec.toNat, List.foldl_append]

theorem toNat_of_all_zero (P : Dec) (h : ∀ x ∈ P, x = 0) : Dec.toNat P = 0 := by
  unfold Dec.toNat
  induction P with
  | nil => rfl
  | cons x P ih =>
    rw [List.foldl_cons, h x (by simp)]
    exact ih (fun y hy => h y (by simp [hy]))

/-- a list with a non-zero entry: leading zeros, a positive entry, the rest. -/
theorem exists_first_nonzero (l : List Nat) (h : ∃ x ∈ l, x ≠ 0) :
    ∃ z d r, l = List.replicate z 0 ++ (d + 1) :: r := by
  induction l with
  | nil => obtain ⟨x, hx, _⟩ := h; simp at hx
  | cons a l ih =>
    cases a with
    | succ d => exact ⟨0, d, l, rfl⟩
    | zero =>
      obtain ⟨x, hx, hne⟩ := h
      have : ∃ x ∈ l, x ≠ 0 := by
        rcases List.mem_cons.mp hx with rfl | hx
        · exact absurd rfl hne
        · exact ⟨x, hx, hne⟩
      obtain ⟨z, d, r, hl⟩ := ih this
      exact ⟨z + 1, d, r, by rw [hl]; rfl⟩

theorem borrow_replicate (z d : Nat) (r : List Nat) :
    borrow (List.replicate z 0 ++ (d + 1) :: r) = List.replicate z 9 ++ d :: r := by
  induction z with
  | zero => rfl
  | succ z ih => rw [List.replicate_succ, List.cons_append, borrow, ih]; rfl

/-- the shape of a prefix with positive value, seen from the right. -/
theorem prefix_shape (P : Dec) (h : 0 < Dec.toNat P) :
    ∃ A d z, P = A ++ (d + 1) :: List.replicate z 0 := by
  have hex : ∃ x ∈ P.reverse, x ≠ 0 := by
    apply Classical.byContradiction
    intro hno
    have : ∀ x ∈ P, x = 0 := by
      intro x hx
      apply Classical.byContradiction
      intro hne
      exact hno ⟨x, by simpa using hx, hne⟩
    have := toNat_of_all_zero P this
    omega
  obtain ⟨z, d, r, hr⟩ := exists_first_nonzero _ hex
  refine ⟨r.reverse, d, z, ?_⟩
  have := congrArg List.reverse hr
  simpa using this

/-! ### subscripts in the middle of a list -/

theorem idx_mid (Q : List Nat) (x : Nat) (T : List Nat) (p : Nat) (hp : p = Q.length) :
    pyIndex (natsPV (Q ++ x :: T)) (.int (p : Int)) = .ok (.int (x : Int)) := by
  subst hp
  rw [pyIndex_natsPV (by simp)]
  simp

theorem set_mid (Q : List Nat) (x : Nat) (T : List Nat) (p : Nat) (hp : p = Q.length) (y : Nat) :
    pySetItem (natsPV (Q ++ x :: T)) (.int (p : Int)) (.int (y : Int)) = .ok (natsPV (Q ++ y :: T)) := by
  subst hp
  rw [pySetItem_natsPV (by simp)]
  simp

/-! ### the borrow loop -/

theorem while2_spec (fuel0 : Nat) (A : List Nat) (d : Nat) (z : Nat) :
    ∀ (T : List Nat) (fuel : Nat) (e : Gen.calculus_subtraction.Env), z < fuel →
      e.number = natsPV (A ++ (d + 1) :: (List.replicate z 0 ++ T)) →
      e.flag_a = .int ((A.length + 1 + z : Nat) : Int) →
      ∃ e', whileLoop (Gen.calculus_subtraction.while2_cond fuel0) (Gen.calculus_subtraction.while2_body fuel0)
          fuel e = .ok (.norm e') ∧
        e'.number = natsPV (A ++ (d + 1) :: (List.replicate z 9 ++ T)) ∧
        e'.flag_a = .int ((A.length + 1 : Nat) : Int) ∧ e'.residue = e.residue ∧ e'.index = e.index := by
  induction z with
  | zero =>
    intro T fuel e hfuel hnum hfa
    obtain ⟨f, rfl⟩ : ∃ f, fuel = f + 1 := ⟨fuel - 1, by omega⟩
    have hc : ((A.length + 1 + 0 : Nat) : Int) - 1 = (A.length : Int) := by omega
    have hd : (((d + 1 : Nat) : Int) == 0) = false := by
      simp only [beq_eq_false_iff_ne, ne_eq]; omega
    refine ⟨e, whileLoop_false ?_ f, hnum, hfa, rfl, rfl⟩
    simp only [Gen.calculus_subtraction.while2_cond, hnum, hfa, pySub_int, bnd_ok, hc,
      idx_mid A (d + 1) _ A.length rfl, pyEq_def, eqb_int, hd]
  | succ z ih =>
    intro T fuel e hfuel hnum hfa
    obtain ⟨f, rfl⟩ : ∃ f, fuel = f + 1 := ⟨fuel - 1, by omega⟩
    have hc : ((A.length + 1 + (z + 1) : Nat) : Int) - 1 = ((A.length + 1 + z : Nat) : Int) := by omega
    have hl : A ++ (d + 1) :: (List.replicate (z + 1) 0 ++ T) =
        (A ++ (d + 1) :: List.replicate z 0) ++ 0 :: T := by
      simp [List.replicate_succ']
    have hl9 : A ++ (d + 1) :: (List.replicate (z + 1) 9 ++ T) =
        A ++ (d + 1) :: (List.replicate z 9 ++ 9 :: T) := by
      simp [List.replicate_succ']
    have hlen : A.length + 1 + z = (A ++ (d + 1) :: List.replicate z 0).length := by
      simp only [List.length_append, List.length_cons, List.length_replicate]; omega
    have hcond : Gen.calculus_subtraction.while2_cond fuel0 e = .ok true := by
      simp only [Gen.calculus_subtraction.while2_cond, hnum, hfa, pySub_int, bnd_ok, hc, hl,
        idx_mid _ 0 T _ hlen, pyEq_def, eqb_int]
      rfl
    have hbody : ∃ e1, Gen.calculus_subtraction.while2_body fuel0 e = .ok (.norm e1) ∧
        e1.number = natsPV (A ++ (d + 1) :: (List.replicate z 0 ++ 9 :: T)) ∧
        e1.flag_a = .int ((A.length + 1 + z : Nat) : Int) ∧ e1.residue = e.residue ∧ e1.index = e.index := by
      have h9 : (PV.int 9) = .int ((9 : Nat) : Int) := rfl
      simp only [Gen.calculus_subtraction.while2_body, hnum, hfa, pySub_int, bnd_ok, hc, hl, h9,
        set_mid _ 0 T _ hlen 9]
      refine ⟨_, rfl, ?_, rfl, rfl, rfl⟩
      simp
    obtain ⟨e1, hb, hn1, hfa1, hres1, hidx1⟩ := hbody
    obtain ⟨e2, hw, hn2, hfa2, hres2, hidx2⟩ := ih (9 :: T) f e1 (by omega) hn1 hfa1
    refine ⟨e2, ?_, ?_, hfa2, hres2.trans hres1, hidx2.trans hidx1⟩
    · rw [whileLoop_true_norm hcond hb, hw]
    · rw [hn2, hl9]

/-- `k1`: `number[flag_a - 1] -= 1` on the first non-zero digit. -/
theorem k1_spec (fuel0 : Nat) (A : List Nat) (d : Nat) (T : List Nat) (e : Gen.calculus_subtraction.Env)
    (hnum : e.number = natsPV (A ++ (d + 1) :: T)) (hfa : e.flag_a = .int ((A.length + 1 : Nat) : Int)) :
    ∃ e', Gen.calculus_subtraction.k1 fuel0 e = .ok (.norm e') ∧ e'.number = natsPV (A ++ d :: T) ∧
      e'.residue = e.residue ∧ e'.index = e.index := by
  have hc : ((A.length + 1 : Nat) : Int) - 1 = (A.length : Int) := by omega
  have hd : ((d + 1 : Nat) : Int) - 1 = (d : Int) := by omega
  simp only [Gen.calculus_subtraction.k1, hnum, hfa, pySub_int, bnd_ok, hc, hd,
    idx_mid A (d + 1) T A.length rfl, set_mid A (d + 1) T A.length rfl d]
  exact ⟨_, rfl, rfl, rfl, rfl⟩

/-! ### the copy loop -/

/-- relation for `for flag in range(m - 1, -1, -1): residue = str(number[flag]) + residue`. -/
def CopyRel (P : Dec) (x : Nat) (st : Dec) (e : Gen.calculus_subtraction.Env) : Prop :=
  e.number = natsPV (P ++ [x]) ∧ e.residue = dstr st

theorem for3_body_spec (fuel0 : Nat) (P : Dec) (hP : Digits P) (x : Nat) (i : Nat) (hi : i < P.length)
    (st : Dec) (e : Gen.calculus_subtraction.Env) (h : CopyRel P x st e) :
    ∃ e', Gen.calculus_subtraction.for3_body fuel0 (.int (i : Int)) e = .ok (.norm e') ∧
      CopyRel P x (P.getD i 0 :: st) e' := by
  obtain ⟨hnum, hres⟩ := h
  have hlt : i < (P ++ [x]).length := by simp; omega
  have hget : (P ++ [x])[i] = P[i] := List.getElem_append_left hi
  have hgd : P.getD i 0 = P[i] := by simp [List.getD_eq_getElem?_getD, List.getElem?_eq_getElem hi]
  simp only [Gen.calculus_subtraction.for3_body, hnum, hres, pyIndex_natsPV hlt, hget, bnd_ok,
    pyStr_digit (hP.getElem i hi), ← dstr_singleton, pyAdd_dstr, hgd]
  exact ⟨_, rfl, rfl, rfl⟩

theorem foldl_copy (P : Dec) (m : Nat) (hm : m ≤ P.length) (acc : Dec) :
    (List.range m).reverse.foldl (fun st i => P.getD i 0 :: st) acc = P.take m ++ acc := by
  induction m generalizing acc with
  | zero => rfl
  | succ m ih =>
    have hlt : m < P.length := by omega
    rw [List.range_succ, List.reverse_append, List.reverse_singleton, List.singleton_append, List.foldl_cons,
      ih (by omega)]
    have hgd : P.getD m 0 = P[m] := by simp [List.getD_eq_getElem?_getD, List.getElem?_eq_getElem hlt]
    rw [hgd, ← List.take_append_getElem hlt, List.append_assoc]; rfl

theorem for3_loop (fuel0 : Nat) (P : Dec) (hP : Digits P) (x : Nat) (r : Nat)
    (e : Gen.calculus_subtraction.Env) (h0 : CopyRel P x [r] e) :
    ∃ e', forLoop (Gen.calculus_subtraction.for3_body fuel0)
        ((List.range P.length).reverse.map fun (i : Nat) => PV.int (i : Int)) e = .ok (.norm e') ∧
      CopyRel P x (P ++ [r]) e' := by
  have key := forLoop_rel_map (body := Gen.calculus_subtraction.for3_body fuel0) (CopyRel P x)
    (fun st i => P.getD i 0 :: st) (fun (i : Nat) => PV.int (i : Int)) (as := (List.range P.length).reverse)
    (fun i hi st e hr => for3_body_spec fuel0 P hP x i (by simpa using hi) st e hr) h0
  rw [foldl_copy P P.length (Nat.le_refl _), List.take_length] at key
  exact key

/-- `k2`: prepend the digits left of the last one to the residue (`index = 0`). -/
theorem k2_spec (fuel0 : Nat) (P : Dec) (hP : Digits P) (x r : Nat) (e : Gen.calculus_subtraction.Env)
    (hnum : e.number = natsPV (P ++ [x])) (hres : e.residue = dstr [r]) (hidx : e.index = .int 0) :
    ∃ e', Gen.calculus_subtraction.k2 fuel0 e = .ok (.norm e') ∧ e'.residue = dstr (P ++ [r]) := by
  have hc : (((P ++ [x]).length : Nat) : Int) - 1 - 0 - 1 = (P.length : Int) - 1 := by
    simp only [List.length_append, List.length_cons, List.length_nil]; omega
  simp only [Gen.calculus_subtraction.k2, hnum, hidx, pyLen_natsPV, pySub_int, bnd_ok, hc, pyRange3_down,
    pyIter_list]
  obtain ⟨e', hl, _, hr⟩ := for3_loop fuel0 P hP x r e ⟨hnum, hres⟩
  exact ⟨e', hl, hr⟩

end SubTie

theorem tie_calculus_subtraction (s : Dec) (b fuel : Nat) (hs : Digits s) (hb : b < 10) (hne : s ≠ [])
    (hle : b ≤ s.toNat) (hf : s.length + 1 ≤ fuel) :
    Gen.calculus_subtraction fuel (dstr s) (dstr [b]) = .ok (dstr (calculusSubtraction s b)) := by
  sorry

end Dsw.Tie
