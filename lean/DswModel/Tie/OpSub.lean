import DswModel.Tie.PyLemmas
/-!
# Translation tie — `calculus_subtraction`

`Dsw.Gen.calculus_subtraction` (generated from the Python source on every run) computes the model
function `Dsw.calculusSubtraction` on the function's contract: a non-empty string of decimal digits
and a one-digit operand not larger than the number.

Proof plan: the number is `P ++ [last]`.  With a one-digit operand the outer loop (`for1`) runs once.
If `last < b` the prefix is `A ++ (d+1) :: replicate z 0` (there is a non-zero digit because
`b ≤ toNat s`); the borrow loop (`while2`, lemma `while2_spec`, induction on `z`) turns the zeros
into nines, `k1` decrements `d+1`.  The copy loop (`for3`, `forLoop_rel_map`) prepends the prefix to
the residue, and the search loop (`for4`, `forLoop_inv_ret`) strips the leading zeros.
-/
namespace Dsw.Tie
open Dsw Dsw.Py

namespace SubTie

/-! ### model side -/

theorem stripZeros_replicate_append (k : Nat) (l : Dec) : stripZeros (List.replicate k 0 ++ l) = stripZeros l := by
  induction k with
  | zero => rfl
  | succ k ih => rw [List.replicate_succ, List.cons_append, stripZeros, ih]

theorem stripZeros_cons_of_ne {d : Nat} (h : d ≠ 0) (r : Dec) : stripZeros (d :: r) = d :: r := by
  cases d with
  | zero => exact absurd rfl h
  | succ n => rfl

theorem stripZeros_eq_drop {q : Dec} {i : Nat} (hi : i < q.length) (hz : q.take i = List.replicate i 0)
    (hne : q[i] ≠ 0) : stripZeros q = q.drop i := by
  have h1 : q = List.replicate i 0 ++ q.drop i := by rw [← hz, List.take_append_drop]
  rw [h1, stripZeros_replicate_append, ← h1, List.drop_eq_getElem_cons hi, stripZeros_cons_of_ne hne]

theorem stripZeros_of_all_zero {q : Dec} (hz : q.take q.length = List.replicate q.length 0) :
    stripZeros q = [0] := by
  rw [List.take_length] at hz
  have := stripZeros_replicate_append q.length []
  rw [List.append_nil, ← hz] at this
  rw [this]; rfl

theorem toNat_append_singleton (P : Dec) (x : Nat) : Dec.toNat (P ++ [x]) = Dec.toNat P * 10 + x := by
  simp [Dec.toNat, List.foldl_append]

theorem toNat_of_all_zero (P : Dec) (h : ∀ x ∈ P, x = 0) : Dec.toNat P = 0 := by
  unfold Dec.toNat
  induction P with
  | nil => rfl
  | cons x P ih =>
    rw [List.foldl_cons, h x (by simp)]
    exact ih (fun y hy => h y (by simp [hy]))

/-- a list with a non-zero entry: leading zeros, a positive entry, the rest. -/
theorem exists_first_nonzero (l : List Nat) (h : ∃ x ∈ l, x ≠ 0) :
    ∃ z d r, l = List.replicate z 0 ++ (d + 1) :: r := by
  induction l with
  | nil => obtain ⟨x, hx, _⟩ := h; simp at hx
  | cons a l ih =>
    cases a with
    | succ d => exact ⟨0, d, l, rfl⟩
    | zero =>
      obtain ⟨x, hx, hne⟩ := h
      have : ∃ x ∈ l, x ≠ 0 := by
        rcases List.mem_cons.mp hx with rfl | hx
        · exact absurd rfl hne
        · exact ⟨x, hx, hne⟩
      obtain ⟨z, d, r, hl⟩ := ih this
      exact ⟨z + 1, d, r, by rw [hl]; rfl⟩

theorem borrow_replicate (z d : Nat) (r : List Nat) :
    borrow (List.replicate z 0 ++ (d + 1) :: r) = List.replicate z 9 ++ d :: r := by
  induction z with
  | zero => rfl
  | succ z ih => rw [List.replicate_succ, List.cons_append, borrow, ih]; rfl

/-- the shape of a prefix with positive value, seen from the right. -/
theorem prefix_shape (P : Dec) (h : 0 < Dec.toNat P) :
    ∃ A d z, P = A ++ (d + 1) :: List.replicate z 0 := by
  have hex : ∃ x ∈ P.reverse, x ≠ 0 := by
    apply Classical.byContradiction
    intro hno
    have : ∀ x ∈ P, x = 0 := by
      intro x hx
      apply Classical.byContradiction
      intro hne
      exact hno ⟨x, by simpa using hx, hne⟩
    have := toNat_of_all_zero P this
    omega
  obtain ⟨z, d, r, hr⟩ := exists_first_nonzero _ hex
  refine ⟨r.reverse, d, z, ?_⟩
  have := congrArg List.reverse hr
  simpa using this

/-! ### subscripts in the middle of a list -/

theorem idx_mid (Q : List Nat) (x : Nat) (T : List Nat) (p : Nat) (hp : p = Q.length) :
    pyIndex (natsPV (Q ++ x :: T)) (.int (p : Int)) = .ok (.int (x : Int)) := by
  subst hp
  rw [pyIndex_natsPV (by simp)]
  simp

theorem set_mid (Q : List Nat) (x : Nat) (T : List Nat) (p : Nat) (hp : p = Q.length) (y : Nat) :
    pySetItem (natsPV (Q ++ x :: T)) (.int (p : Int)) (.int (y : Int)) = .ok (natsPV (Q ++ y :: T)) := by
  subst hp
  rw [pySetItem_natsPV (by simp)]
  simp

/-! ### the borrow loop -/

theorem while2_spec (fuel0 : Nat) (A : List Nat) (d : Nat) (z : Nat) :
    ∀ (T : List Nat) (fuel : Nat) (e : Gen.calculus_subtraction.Env), z < fuel →
      e.number = natsPV (A ++ (d + 1) :: (List.replicate z 0 ++ T)) →
      e.flag_a = .int ((A.length + 1 + z : Nat) : Int) →
      ∃ e', whileLoop (Gen.calculus_subtraction.while2_cond fuel0) (Gen.calculus_subtraction.while2_body fuel0)
          fuel e = .ok (.norm e') ∧
        e'.number = natsPV (A ++ (d + 1) :: (List.replicate z 9 ++ T)) ∧
        e'.flag_a = .int ((A.length + 1 : Nat) : Int) ∧ e'.residue = e.residue ∧ e'.index = e.index := by
  induction z with
  | zero =>
    intro T fuel e hfuel hnum hfa
    obtain ⟨f, rfl⟩ : ∃ f, fuel = f + 1 := ⟨fuel - 1, by omega⟩
    have hc : ((A.length + 1 + 0 : Nat) : Int) - 1 = (A.length : Int) := by omega
    have hd : (((d + 1 : Nat) : Int) == 0) = false := by
      simp only [beq_eq_false_iff_ne, ne_eq]; omega
    refine ⟨e, whileLoop_false ?_ f, hnum, hfa, rfl, rfl⟩
    simp only [Gen.calculus_subtraction.while2_cond, hnum, hfa, pySub_int, bnd_ok, hc,
      idx_mid A (d + 1) _ A.length rfl, pyEq_def, eqb_int, hd]
  | succ z ih =>
    intro T fuel e hfuel hnum hfa
    obtain ⟨f, rfl⟩ : ∃ f, fuel = f + 1 := ⟨fuel - 1, by omega⟩
    have hc : ((A.length + 1 + (z + 1) : Nat) : Int) - 1 = ((A.length + 1 + z : Nat) : Int) := by omega
    have hl : A ++ (d + 1) :: (List.replicate (z + 1) 0 ++ T) =
        (A ++ (d + 1) :: List.replicate z 0) ++ 0 :: T := by
      simp [List.replicate_succ']
    have hl9 : A ++ (d + 1) :: (List.replicate (z + 1) 9 ++ T) =
        A ++ (d + 1) :: (List.replicate z 9 ++ 9 :: T) := by
      simp [List.replicate_succ']
    have hlen : A.length + 1 + z = (A ++ (d + 1) :: List.replicate z 0).length := by
      simp only [List.length_append, List.length_cons, List.length_replicate]; omega
    have hcond : Gen.calculus_subtraction.while2_cond fuel0 e = .ok true := by
      simp only [Gen.calculus_subtraction.while2_cond, hnum, hfa, pySub_int, bnd_ok, hc, hl,
        idx_mid _ 0 T _ hlen, pyEq_def, eqb_int]
      rfl
    have hbody : ∃ e1, Gen.calculus_subtraction.while2_body fuel0 e = .ok (.norm e1) ∧
        e1.number = natsPV (A ++ (d + 1) :: (List.replicate z 0 ++ 9 :: T)) ∧
        e1.flag_a = .int ((A.length + 1 + z : Nat) : Int) ∧ e1.residue = e.residue ∧ e1.index = e.index := by
      have h9 : (PV.int 9) = .int ((9 : Nat) : Int) := rfl
      simp only [Gen.calculus_subtraction.while2_body, hnum, hfa, pySub_int, bnd_ok, hc, hl, h9,
        set_mid _ 0 T _ hlen 9]
      refine ⟨_, rfl, ?_, rfl, rfl, rfl⟩
      simp
    obtain ⟨e1, hb, hn1, hfa1, hres1, hidx1⟩ := hbody
    obtain ⟨e2, hw, hn2, hfa2, hres2, hidx2⟩ := ih (9 :: T) f e1 (by omega) hn1 hfa1
    refine ⟨e2, ?_, ?_, hfa2, hres2.trans hres1, hidx2.trans hidx1⟩
    · rw [whileLoop_true_norm hcond hb, hw]
    · rw [hn2, hl9]

/-- `k1`: `number[flag_a - 1] -= 1` on the first non-zero digit. -/
theorem k1_spec (fuel0 : Nat) (A : List Nat) (d : Nat) (T : List Nat) (e : Gen.calculus_subtraction.Env)
    (hnum : e.number = natsPV (A ++ (d + 1) :: T)) (hfa : e.flag_a = .int ((A.length + 1 : Nat) : Int)) :
    ∃ e', Gen.calculus_subtraction.k1 fuel0 e = .ok (.norm e') ∧ e'.number = natsPV (A ++ d :: T) ∧
      e'.residue = e.residue ∧ e'.index = e.index := by
  have hc : ((A.length + 1 : Nat) : Int) - 1 = (A.length : Int) := by omega
  have hd : ((d + 1 : Nat) : Int) - 1 = (d : Int) := by omega
  simp only [Gen.calculus_subtraction.k1, hnum, hfa, pySub_int, bnd_ok, hc, hd,
    idx_mid A (d + 1) T A.length rfl, set_mid A (d + 1) T A.length rfl d]
  exact ⟨_, rfl, rfl, rfl, rfl⟩

/-! ### the copy loop -/

/-- relation for `for flag in range(m - 1, -1, -1): residue = str(number[flag]) + residue`. -/
def CopyRel (P : Dec) (x : Nat) (st : Dec) (e : Gen.calculus_subtraction.Env) : Prop :=
  e.number = natsPV (P ++ [x]) ∧ e.residue = dstr st

theorem for3_body_spec (fuel0 : Nat) (P : Dec) (hP : Digits P) (x : Nat) (i : Nat) (hi : i < P.length)
    (st : Dec) (e : Gen.calculus_subtraction.Env) (h : CopyRel P x st e) :
    ∃ e', Gen.calculus_subtraction.for3_body fuel0 (.int (i : Int)) e = .ok (.norm e') ∧
      CopyRel P x (P.getD i 0 :: st) e' := by
  obtain ⟨hnum, hres⟩ := h
  have hlt : i < (P ++ [x]).length := by simp; omega
  have hget : (P ++ [x])[i] = P[i] := List.getElem_append_left hi
  have hgd : P.getD i 0 = P[i] := by simp [List.getD_eq_getElem?_getD, List.getElem?_eq_getElem hi]
  simp only [Gen.calculus_subtraction.for3_body, hnum, hres, pyIndex_natsPV hlt, hget, bnd_ok,
    pyStr_digit (hP.getElem i hi), ← dstr_singleton, pyAdd_dstr, hgd]
  exact ⟨_, rfl, rfl, rfl⟩

theorem foldl_copy (P : Dec) (m : Nat) (hm : m ≤ P.length) (acc : Dec) :
    (List.range m).reverse.foldl (fun st i => P.getD i 0 :: st) acc = P.take m ++ acc := by
  induction m generalizing acc with
  | zero => rfl
  | succ m ih =>
    have hlt : m < P.length := by omega
    rw [List.range_succ, List.reverse_append, List.reverse_singleton, List.singleton_append, List.foldl_cons,
      ih (by omega)]
    have hgd : P.getD m 0 = P[m] := by simp [List.getD_eq_getElem?_getD, List.getElem?_eq_getElem hlt]
    rw [hgd, ← List.take_append_getElem hlt, List.append_assoc]; rfl

theorem for3_loop (fuel0 : Nat) (P : Dec) (hP : Digits P) (x : Nat) (r : Nat)
    (e : Gen.calculus_subtraction.Env) (h0 : CopyRel P x [r] e) :
    ∃ e', forLoop (Gen.calculus_subtraction.for3_body fuel0)
        ((List.range P.length).reverse.map fun (i : Nat) => PV.int (i : Int)) e = .ok (.norm e') ∧
      CopyRel P x (P ++ [r]) e' := by
  have key := forLoop_rel_map (body := Gen.calculus_subtraction.for3_body fuel0) (CopyRel P x)
    (fun st i => P.getD i 0 :: st) (fun (i : Nat) => PV.int (i : Int)) (as := (List.range P.length).reverse)
    (fun i hi st e hr => for3_body_spec fuel0 P hP x i (by simpa using hi) st e hr) h0
  rw [foldl_copy P P.length (Nat.le_refl _), List.take_length] at key
  exact key

/-- `k2`: prepend the digits left of the last one to the residue (`index = 0`). -/
theorem k2_spec (fuel0 : Nat) (P : Dec) (hP : Digits P) (x r : Nat) (e : Gen.calculus_subtraction.Env)
    (hnum : e.number = natsPV (P ++ [x])) (hres : e.residue = dstr [r]) (hidx : e.index = .int 0) :
    ∃ e', Gen.calculus_subtraction.k2 fuel0 e = .ok (.norm e') ∧ e'.residue = dstr (P ++ [r]) := by
  have hc : (((P ++ [x]).length : Nat) : Int) - 1 - 0 - 1 = (P.length : Int) - 1 := by
    simp only [List.length_append, List.length_cons, List.length_nil]; omega
  simp only [Gen.calculus_subtraction.k2, hnum, hidx, pyLen_natsPV, pySub_int, bnd_ok, hc, pyRange3_down,
    pyIter_list]
  obtain ⟨e', hl, _, hr⟩ := for3_loop fuel0 P hP x r e ⟨hnum, hres⟩
  exact ⟨e', hl, hr⟩

/-! ### the search loop: strip the leading zeros -/

def StripInv (q : Dec) (i : Nat) (e : Gen.calculus_subtraction.Env) : Prop :=
  e.residue = dstr q ∧ q.take i = List.replicate i 0

theorem for4_body_spec (fuel0 : Nat) (q : Dec) (hq : Digits q) (i : Nat) (hi : i < q.length)
    (e : Gen.calculus_subtraction.Env) (h : StripInv q i e) :
    (∃ e', Gen.calculus_subtraction.for4_body fuel0 (.int (i : Int)) e = .ok (.norm e') ∧ StripInv q (i + 1) e') ∨
      (∃ v, Gen.calculus_subtraction.for4_body fuel0 (.int (i : Int)) e = .ok (.ret v) ∧
        v = dstr (stripZeros q)) := by
  obtain ⟨hres, hz⟩ := h
  simp only [Gen.calculus_subtraction.for4_body, hres, pyIndex_dstr hi, bnd_ok, pyNe_def,
    eqb_digit_lit_zero (hq.getElem i hi)]
  by_cases hd : q[i] = 0
  · left
    simp only [hd, decide_true, Bool.not_true, Bool.false_eq_true, if_false]
    refine ⟨_, rfl, rfl, ?_⟩
    rw [← List.take_append_getElem hi, hz, hd, List.replicate_succ']
  · right
    simp only [hd, decide_false, Bool.not_false, if_true, pySliceV_dstr_from, bnd_ok]
    refine ⟨_, rfl, ?_⟩
    rw [stripZeros_eq_drop hi hz hd]

theorem for4_loop (fuel0 : Nat) (q : Dec) (hq : Digits q) (e : Gen.calculus_subtraction.Env)
    (hres : e.residue = dstr q) :
    (∃ e', forLoop (Gen.calculus_subtraction.for4_body fuel0)
        ((List.range q.length).map fun (i : Nat) => PV.int (i : Int)) e = .ok (.norm e') ∧
        stripZeros q = [0]) ∨
      (∃ v, forLoop (Gen.calculus_subtraction.for4_body fuel0)
        ((List.range q.length).map fun (i : Nat) => PV.int (i : Int)) e = .ok (.ret v) ∧
        v = dstr (stripZeros q)) := by
  have key := forLoop_inv_ret (body := Gen.calculus_subtraction.for4_body fuel0) (StripInv q)
    (fun v => v = dstr (stripZeros q))
    (xs := (List.range q.length).map fun (i : Nat) => PV.int (i : Int))
    (fun i hi e he => by
      have hi' : i < q.length := by simpa using hi
      have : ((List.range q.length).map fun (i : Nat) => PV.int (i : Int))[i] = PV.int (i : Int) := by simp
      rw [this]
      exact for4_body_spec fuel0 q hq i hi' e he)
    (e := e) ⟨hres, rfl⟩
  rcases key with ⟨e', hl, hinv⟩ | hret
  · left
    refine ⟨e', hl, ?_⟩
    have := hinv.2
    simp only [List.length_map, List.length_range] at this
    exact stripZeros_of_all_zero this
  · right; exact hret

/-- `k4`: strip the zeros of the residue, `"0"` if there is nothing else. -/
theorem k4_spec (fuel0 : Nat) (q : Dec) (hq : Digits q) (e : Gen.calculus_subtraction.Env)
    (hres : e.residue = dstr q) :
    Gen.calculus_subtraction.k4 fuel0 e = .ok (.ret (dstr (stripZeros q))) := by
  simp only [Gen.calculus_subtraction.k4, hres, pyLen_dstr, bnd_ok, pyRange1_nat, pyIter_list]
  apply seq_eq_of_norm_or_ret _ _ (for4_loop fuel0 q hq _ (by exact hres))
  · intro e2 hz
    rw [Gen.calculus_subtraction.k3, hz, str_lit_zero]
  · intro v hv
    rw [hv]

/-! ### the body of the outer loop (one iteration, `index = 0`) -/

/-- glue: two statements that both end normally. -/
theorem seq_norm_ex {ε} {m : R (Flow ε)} {k : ε → R (Flow ε)} (Rm : ε → Prop) {Q : ε → Prop}
    (hm : ∃ e1, m = .ok (.norm e1) ∧ Rm e1) (hk : ∀ e1, Rm e1 → ∃ e', k e1 = .ok (.norm e') ∧ Q e') :
    ∃ e', seq m k = .ok (.norm e') ∧ Q e' := by
  obtain ⟨e1, rfl, h1⟩ := hm; exact hk e1 h1

theorem base_idx (b : Nat) : pyIndex (natsPV [b]) (.int 0) = .ok (.int (b : Int)) := by simp [natsPV]

/-- no borrow. -/
theorem for1_body_ge (fuel : Nat) (P : Dec) (hP : Digits P) (last b : Nat) (hl : last < 10) (hge : b ≤ last)
    (e : Gen.calculus_subtraction.Env) (hnum : e.number = natsPV (P ++ [last])) (hbase : e.base = natsPV [b])
    (hres : e.residue = dstr []) :
    ∃ e', Gen.calculus_subtraction.for1_body fuel (.int 0) e = .ok (.norm e') ∧
      e'.residue = dstr (P ++ [last - b]) := by
  have hc : (((P ++ [last]).length : Nat) : Int) - 1 - 0 = (P.length : Int) := by
    simp only [List.length_append, List.length_cons, List.length_nil]; omega
  have hcb : ((([b] : List Nat).length : Nat) : Int) - 1 - 0 = 0 := by
    simp only [List.length_cons, List.length_nil]; omega
  have hsub : (last : Int) - (b : Int) = ((last - b : Nat) : Int) := by omega
  simp only [Gen.calculus_subtraction.for1_body, hnum, hbase, hres, pyLen_natsPV, pySub_int, bnd_ok, hc, hcb,
    idx_mid P last [] P.length rfl, base_idx, pyInt_int, pyGe_int, Int.ofNat_le, hge, decide_true, if_true,
    hsub, pyStr_digit (show last - b < 10 by omega), ← dstr_singleton, pyAdd_dstr, List.append_nil]
  apply seq_norm_ex (fun e1 => e1.number = natsPV (P ++ [last]) ∧ e1.residue = dstr [last - b] ∧
    e1.index = .int 0) ⟨_, rfl, rfl, rfl, rfl⟩
  intro e1 ⟨h1, h2, h3⟩
  exact k2_spec fuel P hP last (last - b) e1 h1 h2 h3

/-- borrow: the prefix is `A ++ (d+1) :: 0…0`. -/
theorem for1_body_lt (fuel : Nat) (A : Dec) (d z : Nat) (hA : Digits A) (hd : d + 1 < 10) (hz : z < fuel)
    (last b : Nat) (hb : b < 10) (hlt : last < b)
    (e : Gen.calculus_subtraction.Env)
    (hnum : e.number = natsPV ((A ++ (d + 1) :: List.replicate z 0) ++ [last]))
    (hbase : e.base = natsPV [b]) (hres : e.residue = dstr []) :
    ∃ e', Gen.calculus_subtraction.for1_body fuel (.int 0) e = .ok (.norm e') ∧
      e'.residue = dstr ((A ++ d :: List.replicate z 9) ++ [10 + last - b]) := by
  have hlen : A.length + 1 + z = (A ++ (d + 1) :: List.replicate z 0).length := by
    simp only [List.length_append, List.length_cons, List.length_replicate]; omega
  have hc : ((((A ++ (d + 1) :: List.replicate z 0) ++ [last]).length : Nat) : Int) - 1 - 0 =
      ((A.length + 1 + z : Nat) : Int) := by
    simp only [List.length_append, List.length_cons, List.length_nil, List.length_replicate]; omega
  have hcb : ((([b] : List Nat).length : Nat) : Int) - 1 - 0 = 0 := by
    simp only [List.length_cons, List.length_nil]; omega
  have hnge : ¬ b ≤ last := by omega
  have hsub : (10 : Int) + (last : Int) - (b : Int) = ((10 + last - b : Nat) : Int) := by omega
  simp only [Gen.calculus_subtraction.for1_body, hnum, hbase, hres, pyLen_natsPV, pySub_int, pyAdd_int, bnd_ok,
    hc, hcb, idx_mid _ last [] _ hlen, base_idx, pyInt_int, pyGe_int, Int.ofNat_le, hnge, decide_false,
    Bool.false_eq_true, if_false,
    hsub, pyStr_digit (show 10 + last - b < 10 by omega), ← dstr_singleton, pyAdd_dstr, List.append_nil]
  have hP' : Digits (A ++ d :: List.replicate z 9) := by
    rw [Digits_append, Digits_cons]
    exact ⟨hA, by omega, Digits_replicate (by omega)⟩
  apply seq_norm_ex (fun e1 => e1.number = natsPV ((A ++ d :: List.replicate z 9) ++ [last]) ∧
    e1.residue = dstr [10 + last - b] ∧ e1.index = .int 0)
  · apply seq_norm_ex (fun e1 => e1.number = natsPV (A ++ (d + 1) :: (List.replicate z 9 ++ [last])) ∧
      e1.flag_a = .int ((A.length + 1 : Nat) : Int) ∧ e1.residue = dstr [10 + last - b] ∧ e1.index = .int 0)
    · exact while2_spec fuel A d z [last] fuel _ hz (by simp) (by rfl)
    · intro e1 ⟨h1, h2, h3, h4⟩
      obtain ⟨e2, hk, hn2, hr2, hi2⟩ := k1_spec fuel A d _ e1 h1 h2
      refine ⟨e2, hk, ?_, hr2.trans h3, hi2.trans h4⟩
      rw [hn2]; simp
  · intro e1 ⟨h1, h2, h3⟩
    exact k2_spec fuel _ hP' last _ e1 h1 h2 h3

/-- the outer loop runs once. -/
theorem for1_once {fuel : Nat} {e e' : Gen.calculus_subtraction.Env}
    (h : Gen.calculus_subtraction.for1_body fuel (.int 0) e = .ok (.norm e')) :
    forLoop (Gen.calculus_subtraction.for1_body fuel) [.int 0] e = .ok (.norm e') := by
  rw [forLoop_cons_norm h, forLoop_nil]

/-- the function body, given the outcome of the single iteration of the outer loop. -/
theorem body_spec (fuel : Nat) (s : Dec) (hs : Digits s) (b : Nat) (hb : b < 10) (q : Dec) (hq : Digits q)
    (h1 : ∀ e : Gen.calculus_subtraction.Env, e.number = natsPV s → e.base = natsPV [b] → e.residue = dstr [] →
      ∃ e', Gen.calculus_subtraction.for1_body fuel (.int 0) e = .ok (.norm e') ∧ e'.residue = dstr q) :
    Gen.calculus_subtraction fuel (dstr s) (dstr [b]) = .ok (dstr (stripZeros q)) := by
  have hbd : Digits [b] := by simpa using hb
  have hr1 : (List.range ([b] : List Nat).length).map (fun (i : Nat) => PV.int (i : Int)) = [.int 0] := rfl
  simp only [Gen.calculus_subtraction, Gen.calculus_subtraction.body, pyMap_pyInt_dstr hs, pyMap_pyInt_dstr hbd,
    bnd_ok, pyLen_natsPV, pyRange1_nat, hr1, pyIter_list]
  apply callResult_seq_of_norm (fun e1 => e1.residue = dstr q)
  · have H : ∀ E : Gen.calculus_subtraction.Env, E.number = natsPV s → E.base = natsPV [b] →
        E.residue = dstr [] → ∃ e', forLoop (Gen.calculus_subtraction.for1_body fuel) [.int 0] E = .ok (.norm e') ∧
          e'.residue = dstr q := by
      intro E a1 a2 a3
      obtain ⟨e', hb1, hr⟩ := h1 E a1 a2 a3
      exact ⟨e', for1_once hb1, hr⟩
    exact H _ (by rfl) (by rfl) (by rfl)
  · intro e1 he1
    rw [k4_spec fuel q hq e1 he1]; rfl

end SubTie

open SubTie in
theorem tie_calculus_subtraction (s : Dec) (b fuel : Nat) (hs : Digits s) (hb : b < 10) (hne : s ≠ [])
    (hle : b ≤ s.toNat) (hf : s.length + 1 ≤ fuel) :
    Gen.calculus_subtraction fuel (dstr s) (dstr [b]) = .ok (dstr (calculusSubtraction s b)) := by
  obtain ⟨P, last, rfl⟩ : ∃ P last, s = P ++ [last] :=
    ⟨s.dropLast, s.getLast hne, (List.dropLast_concat_getLast hne).symm⟩
  rw [Digits_append, Digits_singleton] at hs
  obtain ⟨hP, hl⟩ := hs
  by_cases hge : b ≤ last
  · have hm : calculusSubtraction (P ++ [last]) b = stripZeros (P ++ [last - b]) := by
      simp [calculusSubtraction, hge]
    rw [hm]
    refine body_spec fuel _ (by rw [Digits_append, Digits_singleton]; exact ⟨hP, hl⟩) b hb _
      (by rw [Digits_append, Digits_singleton]; exact ⟨hP, by omega⟩) ?_
    intro e hnum hbase hres
    exact for1_body_ge fuel P hP last b hl hge e hnum hbase hres
  · have hpos : 0 < Dec.toNat P := by
      rw [toNat_append_singleton] at hle; omega
    obtain ⟨A, d, z, rfl⟩ := prefix_shape P hpos
    rw [Digits_append, Digits_cons] at hP
    obtain ⟨hA, hd, _⟩ := hP
    have hm : calculusSubtraction ((A ++ (d + 1) :: List.replicate z 0) ++ [last]) b =
        stripZeros ((A ++ d :: List.replicate z 9) ++ [10 + last - b]) := by
      have hrev : (A ++ (d + 1) :: List.replicate z 0).reverse = List.replicate z 0 ++ (d + 1) :: A.reverse := by
        simp
      simp only [calculusSubtraction, List.reverse_append, List.reverse_singleton, List.singleton_append, hrev]
      rw [if_neg (by omega), borrow_replicate]
      simp
    rw [hm]
    have hz : z < fuel := by
      simp only [List.length_append, List.length_cons, List.length_replicate, List.length_nil] at hf; omega
    refine body_spec fuel _ ?_ b hb _ ?_ ?_
    · simp only [Digits_append, Digits_cons, Digits_nil, and_true]
      exact ⟨⟨hA, hd, Digits_replicate (by omega)⟩, hl⟩
    · simp only [Digits_append, Digits_cons, Digits_nil, and_true]
      exact ⟨⟨hA, by omega, Digits_replicate (by omega)⟩, by omega⟩
    · intro e hnum hbase hres
      exact for1_body_lt fuel A d z hA hd hz last b hb (by omega) e hnum hbase hres

end Dsw.Tie
