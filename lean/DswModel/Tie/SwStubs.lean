import DswModel.Tie.PyLemmas
import DswModel.Tie.SpiderwebDefs
import DswModel.Tie.Corollaries
import DswModel.Tie.OpBits
import DswModel.Tie.OpDna
/-!
TEMPORARY development stub (removed before the library is finished): the statement of the `set_vt`
tie, so that the `encode` / `decode` ties can be developed while it is being proved.
-/
namespace Dsw.Tie.Stub
open Dsw Dsw.Py Dsw.Tie

theorem tie_set_vt (s : List Char) (n fuel : Nat) (hn : 1 ≤ n) (hf : 2 * n + 2 ≤ fuel) :
    Gen.set_vt fuel (cstr s) (.int (n : Int)) = (setVt s n).map cstr := by
  sorry

end Dsw.Tie.Stub
