import DswModel.Tie.BfCorollaries
import DswModel.Tie.GraphCorollaries
import DswModel.Props.C02b
/-!
# DswModel.Tie.BfPipeline — the whole write path on GENERATED code, the built-in filter included

`LocalBioFilter(k, run, [lo, hi], motifs)` → `find_vertices` → `connect_coding_graph` → `encode`, every step being the
definition `harness/py2lean.py` regenerates from the Python source. `find_vertices` is handed the filter as the table of
the answers of the GENERATED `LocalBioFilter.valid` (`genTable`); the GC thresholds are the ones the code's
double-precision expressions produce (`floatGcRule`, `Model/Float.lean`).

* `genTable_eq` — that table is the table of the model's verdicts;
* `gen_E2E_biofilter_windows` — C02, sentence 1: every window of `start k-mer ++ strand` satisfies the documented
  predicate of the configuration;
* `gen_E2E_biofilter_whole` — C02, sentence 2: for window-decidable configurations with a GC lower bound in `[0, 1]` the
  whole strand passes the whole-sequence check — the consistency of the float thresholds is no longer a hypothesis but
  the theorem `C02_float_consistent`.
-/
namespace Dsw.Tie
open Dsw Dsw.Py Dsw.Gen

/-- the built-in filter as `find_vertices` sees it: the answers of the generated `LocalBioFilter.valid(·, only_last=True)`
of the object `bfObj k run gc motifs` on the `4^k` k-mers. -/
def genTable (ffuel k : Nat) (run : Option Nat) (gc : Option (Dbl × Dbl)) (motifs : Option (List (List Char))) : PV :=
  tablePV k fun x => genValid ffuel (bfObj k run gc motifs) x true

theorem genValid_eq {k run gc motifs c} (h : BfOk k run gc motifs c) (fuel : Nat) (s : List Char) (ol : Bool) :
    genValid fuel (bfObj k run gc motifs) s ol = c.valid s ol := by
  simp only [genValid, tie_LocalBioFilter_valid fuel k run gc motifs c s ol h.cfg h.den h.chars]
  cases c.valid s ol <;> rfl

/-- the table of the generated filter's answers is the table of the model's verdicts. -/
theorem genTable_eq {k run gc motifs c} (h : BfOk k run gc motifs c) (ffuel : Nat) :
    genTable ffuel k run gc motifs = tablePV k fun x => c.valid x true := by
  unfold genTable
  congr 1
  funext x
  exact genValid_eq h ffuel x true

/-- float-derived thresholds are consistent whenever the GC lower bound is a fraction in `[0, 1]` and `k ≤ 2^53`. -/
theorem BfOk.gcConsistent {k run gc motifs c} (h : BfOk k run gc motifs c) (hk : k ≤ 2 ^ 53)
    (hlo : ∀ lo hi, gc = some (lo, hi) → 0 ≤ lo.num ∧ lo.num ≤ lo.den) : c.GcConsistent := by
  intro g hg
  have hc := h.cfg
  unfold bfCfg at hc
  cases gc with
  | none => cases hc; cases hg
  | some p =>
    obtain ⟨lo, hi⟩ := p
    simp only [Option.map_eq_some_iff] at hc
    obtain ⟨g', hg', hcfg⟩ := hc
    cases hcfg
    have hgg : g' = g := by injection hg
    subst hgg
    exact C02_float_consistent lo hi k g' (h.den lo hi rfl).1 (hlo lo hi rfl).1 (hlo lo hi rfl).2 hk hg'

/-- C02, sentence 1, on generated code with the built-in filter: every window of `start k-mer ++ strand` satisfies the
documented predicate of the configuration the constructor was given. -/
theorem gen_E2E_biofilter_windows {k run gc motifs c} (h : BfOk k run gc motifs c) (t : Nat) (m : Mask) (d : PV)
    (a : Acc) (v : Nat) (tbl : Option Tbl) (bits : List Nat) (fast : Bool) (n bfuel ffuel gfuel fuel : Nat)
    (fvb gvb vb : Bool) (r : PV)
    (hk : 1 ≤ k) (ht : 1 ≤ t) (hff : 2 * k + 2 ≤ ffuel) (hgf : 4 ^ k + 2 ≤ gfuel) (hf : 2 * n + 3 ≤ fuel)
    (hfind : Gen.find_vertices ffuel (.int (k : Int)) (genTable bfuel k run gc motifs) (.bool fvb) = .ok (maskPV false m))
    (hg : Gen.connect_coding_graph gfuel (.int (k : Int)) (maskPV false m) (.int (t : Int)) (.bool gvb) =
      .ok (.tup [d, accPV a]))
    (hv : Listed d t v) (htbl : TblOK tbl a) (hb : IsBits bits)
    (henc : Gen.encode fuel (bitsPV bits) (accPV a) (.int (v : Int)) (.bool fast) (.int (n : Int)) (tblPV tbl)
      (.bool false) (.bool vb) = .ok r) :
    ∃ (s : List Char) (ck : Option (List Char)), r = encResultPV (s, ck) ∧ isWalk a (v : Int) s = true ∧
      ∀ i, i + k ≤ (kmerOf k v ++ s).length → DocumentedValid c (((kmerOf k v ++ s).drop i).take k) := by
  rw [genTable_eq h] at hfind
  obtain ⟨s, ck, hr, hw, hwin⟩ := gen_C02_windows k t (fun x => c.valid x true) m d a v tbl bits fast n ffuel gfuel fuel
    fvb gvb vb r hk ht hff hgf hf hfind hg hv htbl hb henc
  refine ⟨s, ck, hr, hw, fun i hi => ?_⟩
  have hv := hwin i hi
  have hlen : (((kmerOf k v ++ s).drop i).take k).length = k := by
    rw [List.length_take, List.length_drop]; omega
  have hkk : c.k = k := h.k_eq.1
  rw [C12_last c _ (by rw [hkk]; exact hk), hkk, hlen, Nat.sub_self, List.drop_zero] at hv
  exact (C12_valid_all c _).1 hv

/-- C02, sentence 2, on generated code with the built-in filter and its FLOAT thresholds: for a window-decidable
configuration whose GC lower bound lies in `[0, 1]`, the whole strand — alone and prefixed with the start k-mer — passes
the whole-sequence check of the generated `valid`. -/
theorem gen_E2E_biofilter_whole {k run gc motifs c} (h : BfOk k run gc motifs c) (t : Nat) (m : Mask) (d : PV)
    (a : Acc) (v : Nat) (tbl : Option Tbl) (bits : List Nat) (fast : Bool) (n bfuel ffuel gfuel fuel vfuel : Nat)
    (fvb gvb vb : Bool) (r : PV)
    (hc : c.WindowDecidable) (hk53 : k ≤ 2 ^ 53)
    (hlo : ∀ lo hi, gc = some (lo, hi) → 0 ≤ lo.num ∧ lo.num ≤ lo.den)
    (ht : 1 ≤ t) (hff : 2 * k + 2 ≤ ffuel) (hgf : 4 ^ k + 2 ≤ gfuel) (hf : 2 * n + 3 ≤ fuel)
    (hfind : Gen.find_vertices ffuel (.int (k : Int)) (genTable bfuel k run gc motifs) (.bool fvb) = .ok (maskPV false m))
    (hg : Gen.connect_coding_graph gfuel (.int (k : Int)) (maskPV false m) (.int (t : Int)) (.bool gvb) =
      .ok (.tup [d, accPV a]))
    (hv : Listed d t v) (htbl : TblOK tbl a) (hb : IsBits bits)
    (henc : Gen.encode fuel (bitsPV bits) (accPV a) (.int (v : Int)) (.bool fast) (.int (n : Int)) (tblPV tbl)
      (.bool false) (.bool vb) = .ok r) :
    ∃ (s : List Char) (ck : Option (List Char)), r = encResultPV (s, ck) ∧
      LocalBioFilter.valid vfuel (bfObj k run gc motifs) (.str s) (.bool false) = .ok (.bool true) ∧
      LocalBioFilter.valid vfuel (bfObj k run gc motifs) (.str (kmerOf k v ++ s)) (.bool false) = .ok (.bool true) := by
  rw [genTable_eq h] at hfind
  have hkk : c.k = k := h.k_eq.1
  subst hkk
  obtain ⟨s, ck, hr, h1, h2⟩ := gen_C02_whole c t m d a v tbl bits fast n ffuel gfuel fuel fvb gvb vb r hc
    (h.gcConsistent hk53 hlo) ht hff hgf hf hfind hg hv htbl hb henc
  refine ⟨s, ck, hr, ?_, ?_⟩
  · rw [tie_LocalBioFilter_valid vfuel c.k run gc motifs c s false h.cfg h.den h.chars, h1]
  · rw [tie_LocalBioFilter_valid vfuel c.k run gc motifs c _ false h.cfg h.den h.chars, h2]

/-- C11 on generated code with the built-in filter: the mask the generated `find_vertices` returns for the (generated)
`LocalBioFilter` object marks index `i` exactly when the documented predicate of the configuration — with the thresholds
the code's float expressions produce — holds for the last window of the `i`-th k-mer; the call raises `ValueError` (and
nothing else) exactly when no k-mer is accepted. -/
theorem gen_C11_biofilter_mask {k run gc motifs c} (h : BfOk k run gc motifs c) (bfuel ffuel : Nat) (vb : Bool)
    (hff : 2 * k + 2 ≤ ffuel) :
    (∀ r, Gen.find_vertices ffuel (.int (k : Int)) (genTable bfuel k run gc motifs) (.bool vb) = .ok r →
        ∃ m : Mask, r = maskPV false m ∧ m.size = 4 ^ k ∧
          ∀ i, i < 4 ^ k → m.getD i false = c.valid (kmerOf k i) true) ∧
    (∀ e, Gen.find_vertices ffuel (.int (k : Int)) (genTable bfuel k run gc motifs) (.bool vb) = .error e →
        e = .valueError ∧ ∀ i, i < 4 ^ k → c.valid (kmerOf k i) true = false) := by
  rw [genTable_eq h]
  obtain ⟨h1, h2⟩ := gen_C11_mask k (fun x => c.valid x true) ffuel vb hff
  refine ⟨fun r hr => ?_, h2⟩
  obtain ⟨m, hm, hs, hc, -, -⟩ := h1 r hr
  exact ⟨m, hm, hs, hc⟩

end Dsw.Tie
