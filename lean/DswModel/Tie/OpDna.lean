import DswModel.Tie.ArithStubs
/-!
# Translation tie — `dna_to_number`, `number_to_dna`

The generated definitions compute the model functions `dnaToNumberStr`, `dnaToNumberInt`,
`numberToDnaStr`, `numberToDnaInt` (a character outside `ACGT` is `ValueError` on both sides).
-/
namespace Dsw.Tie
open Dsw Dsw.Py Dsw.Tie.Stub

theorem tie_dna_to_number_str (s : List Char) (fuel : Nat) (hf : 3 ≤ fuel) :
    Gen.dna_to_number fuel (cstr s) (.bool true) = (dnaToNumberStr s).map dstr := by
  sorry

theorem tie_dna_to_number_int (s : List Char) (fuel : Nat) :
    Gen.dna_to_number fuel (cstr s) (.bool false) = (dnaToNumberInt s).map fun n => PV.int (n : Int) := by
  sorry

theorem tie_number_to_dna_str (n : Dec) (L fuel : Nat) (r : List Char) (hn : Digits n)
    (h : numberToDnaStr n L = .ok r) (hf : digitsFuel n + 1 ≤ fuel) :
    Gen.number_to_dna fuel (dstr n) (.int L) = .ok (cstr r) := by
  sorry

theorem tie_number_to_dna_int (n L fuel : Nat) (hf : Nat.log2 n + 2 ≤ fuel) :
    Gen.number_to_dna fuel (.int n) (.int L) = .ok (cstr (numberToDnaInt n L)) := by
  sorry

theorem tie_number_to_dna_other (v L : PV) (fuel : Nat) (h1 : ∀ s, v ≠ .str s) (h2 : ∀ i, v ≠ .int i)
    (h3 : v ≠ .unbound) :
    Gen.number_to_dna fuel v L = .error .valueError := by
  sorry

end Dsw.Tie
