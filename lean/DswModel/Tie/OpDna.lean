import DswModel.Tie.OpAdd
import DswModel.Tie.OpMul
import DswModel.Tie.OpDiv
/-!
# Translation tie — `dna_to_number`, `number_to_dna`

The generated definitions compute the model functions `dnaToNumberStr`, `dnaToNumberInt`,
`numberToDnaStr`, `numberToDnaInt` (a character outside `ACGT` is `ValueError` on both sides).

Proof plan.  Model side first: the decimal-string arithmetic keeps `Digits` (`Digits_calculusAddition`,
`Digits_calculusMultiplication`, `calculusDivision_four`).  `dna_to_number`: the `map(nucleotides.index, …)`
is `nucValues` (`mapM_index`); both `for` loops are left folds (`forLoop_rel_map`).  `number_to_dna`: the
string `while` loop is tied to `digitsStrLoop 4` iteration by iteration (induction on the model's fuel),
the integer one to `digitsNat 4` (induction on a bound `n < 2 ^ G`); `k1` is `padDna`.
-/
namespace Dsw.Tie
open Dsw Dsw.Py

namespace DnaTie

/-! ### model side: the decimal-string arithmetic keeps `Digits` -/

theorem addStep_foldr_inv (ps : List (Nat × Nat)) (hp : ∀ p ∈ ps, p.1 < 10 ∧ p.2 < 10) :
    (ps.foldr addStep (0, [])).1 ≤ 1 ∧ Digits (ps.foldr addStep (0, [])).2 := by
  induction ps with
  | nil => exact ⟨Nat.zero_le _, Digits_nil⟩
  | cons p ps ih =>
    obtain ⟨h1, h2⟩ := ih (fun q hq => hp q (by simp [hq]))
    obtain ⟨hp1, hp2⟩ := hp p (by simp)
    simp only [List.foldr_cons, addStep, Digits_cons]
    exact ⟨by omega, by omega, h2⟩

theorem Digits_calculusAddition {s : Dec} (hs : Digits s) {b : Nat} (hb : b < 10) :
    Digits (calculusAddition s b) := by
  have hp : ∀ p ∈ s.zip (List.replicate (s.length - 1) 0 ++ [b]), p.1 < 10 ∧ p.2 < 10 := by
    intro p hp
    obtain ⟨x, y⟩ := p
    obtain ⟨hx, hy⟩ := List.of_mem_zip hp
    refine ⟨hs x hx, ?_⟩
    rcases List.mem_append.mp hy with hy | hy
    · rw [(List.mem_replicate.mp hy).2]; omega
    · rw [List.mem_singleton.mp hy]; exact hb
  obtain ⟨h1, h2⟩ := addStep_foldr_inv _ hp
  have hall : Digits ((List.foldr addStep (0, []) (s.zip (List.replicate (s.length - 1) 0 ++ [b]))).1 ::
      (List.foldr addStep (0, []) (s.zip (List.replicate (s.length - 1) 0 ++ [b]))).2) :=
    Digits_cons.mpr ⟨by omega, h2⟩
  unfold calculusAddition
  simp only
  split
  · exact hall.tail
  · exact hall

theorem mulStep_foldr_inv {b : Nat} (hb : b < 10) (s : Dec) (hs : Digits s) :
    (s.foldr (mulStep b) (0, [])).1 < 10 ∧ Digits (s.foldr (mulStep b) (0, [])).2 := by
  induction s with
  | nil => exact ⟨by show (0 : Nat) < 10; omega, Digits_nil⟩
  | cons x s ih =>
    rw [Digits_cons] at hs
    obtain ⟨h1, h2⟩ := ih hs.2
    have hx := hs.1
    have hxb : x * b ≤ 9 * 9 := Nat.mul_le_mul (by omega) (by omega)
    simp only [List.foldr_cons, mulStep, Digits_cons]
    exact ⟨by omega, by omega, h2⟩

theorem Digits_pushCarry (f r : Nat) (acc : List Nat) (h : Digits acc) : Digits (pushCarry f r acc) := by
  induction f generalizing r acc with
  | zero => exact h
  | succ f ih =>
    rw [pushCarry]
    split
    · exact ih _ _ (Digits_cons.mpr ⟨Nat.mod_lt _ (by omega), h⟩)
    · exact h

theorem Digits_calculusMultiplication {s : Dec} (hs : Digits s) {b : Nat} (hb : b < 10) :
    Digits (calculusMultiplication s b) := by
  unfold calculusMultiplication
  split
  · simp
  · split
    · exact hs
    · exact Digits_pushCarry _ _ _ (mulStep_foldr_inv hb s hs).2

theorem Digits_stripZeros {s : Dec} (hs : Digits s) : Digits (stripZeros s) := by
  induction s with
  | nil => simp [stripZeros]
  | cons d r ih =>
    cases d with
    | zero => rw [stripZeros]; exact ih (Digits_cons.mp hs).2
    | succ n => exact hs

theorem divStep_foldl_inv {b : Nat} (hb2 : 2 ≤ b) (hb : b < 10) (s : Dec) (hs : Digits s)
    (st : List Nat × Nat) (h1 : st.2 < b) (h2 : Digits st.1) :
    (s.foldl (divStep b) st).2 < b ∧ Digits (s.foldl (divStep b) st).1 := by
  induction s generalizing st with
  | nil => exact ⟨h1, h2⟩
  | cons x s ih =>
    rw [Digits_cons] at hs
    have hx := hs.1
    rw [List.foldl_cons]
    apply ih hs.2
    · simp only [divStep]
      split
      · have := Nat.mod_lt (x + st.2 * 10) (show b > 0 by omega)
        have h3 := Nat.div_add_mod (x + st.2 * 10) b
        rw [Nat.mul_comm] at h3
        show x + st.2 * 10 - (x + st.2 * 10) / b * b < b
        omega
      · show x + st.2 * 10 < b
        omega
    · simp only [divStep]
      split
      · have hq : (x + st.2 * 10) / b < 10 := by
          rw [Nat.div_lt_iff_lt_mul (by omega)]
          have : st.2 * 10 + 10 ≤ b * 10 := by omega
          omega
        exact Digits_cons.mpr ⟨hq, h2⟩
      · exact Digits_cons.mpr ⟨by omega, h2⟩

/-- `calculus_division(n, "4")` on any digit string: a digit string and a one-digit remainder below 4. -/
theorem calculusDivision_four {n : Dec} (hn : Digits n) :
    ∃ r, r < 4 ∧ (calculusDivision n 4).2 = [r] ∧ Digits (calculusDivision n 4).1 := by
  unfold calculusDivision
  simp only [show ¬ (4 = 0) by omega, show ¬ (4 = 1) by omega, if_false]
  split
  · next hg => exact ⟨n.headD 0, hg.2, rfl, by simp⟩
  · obtain ⟨h1, h2⟩ := divStep_foldl_inv (b := 4) (by omega) (by omega) n hn ([], 0) (by simp) Digits_nil
    exact ⟨_, h1, rfl, Digits_stripZeros h2.reverse⟩

theorem digitsNat_four_zero (acc : List Nat) : digitsNat 4 0 acc = acc := by
  rw [digitsNat]; simp

theorem digitsNat_four_pos {n : Nat} (hn : n ≠ 0) (acc : List Nat) :
    digitsNat 4 n acc = digitsNat 4 (n / 4) (n % 4 :: acc) := by
  rw [digitsNat]; simp [hn]

theorem nucValues_lt {s : List Char} {vs : List Nat} (h : nucValues s = .ok vs) : ∀ v ∈ vs, v < 4 := by
  induction s generalizing vs with
  | nil =>
    simp only [nucValues] at h
    injection h with h; subst h; simp
  | cons c s ih =>
    simp only [nucValues] at h
    cases hc : nucIdx c with
    | none => rw [hc] at h; cases h
    | some j =>
      rw [hc] at h
      cases hs : nucValues s with
      | error err => rw [hs] at h; cases h
      | ok ws =>
        rw [hs] at h
        injection h with h; subst h
        intro v hv
        rcases List.mem_cons.mp hv with rfl | hv
        · exact nucIdx_lt hc
        · exact ih hs v hv

/-! ### shared pieces of generated code -/

/-- `str(len(nucleotides))`. -/
theorem len_nuc_str : (bnd (pyLen (.str ['A', 'C', 'G', 'T'])) fun t => pyStr t) = .ok (dstr [4]) := rfl

/-- `len(nucleotides)`. -/
theorem len_nuc : pyLen (.str ['A', 'C', 'G', 'T']) = .ok (.int 4) := rfl

theorem pyTypeIs_dstr_str (n : Dec) : pyTypeIs (dstr n) "str" = true := rfl

/-- `map(nucleotides.index, dna_sequence)` is `nucValues`. -/
theorem mapM_index (s : List Char) :
    mapM' (fun x => pyIndexOf (.str ['A', 'C', 'G', 'T']) x) (s.map fun c => PV.str [c]) =
      (nucValues s).map fun vs => vs.map fun (n : Nat) => PV.int (n : Int) := by
  show mapM' (fun x => pyStrIndex (.str ['A', 'C', 'G', 'T']) x) (s.map fun c => PV.str [c]) = _
  induction s with
  | nil => rfl
  | cons c s ih =>
    rw [List.map_cons, mapM'_cons, pyStrIndex_ACGT, nucValues, ih]
    cases nucIdx c with
    | none => rfl
    | some j =>
      simp only [bnd_ok]
      cases nucValues s <;> rfl

/-! ### `dna_to_number` -/

/-- string path: the environment holds the decimal string `st`. -/
def StrRel (st : Dec) (e : Gen.dna_to_number.Env) : Prop :=
  e.nucleotides = .str ['A', 'C', 'G', 'T'] ∧ e.decimal_number = dstr st ∧ Digits st

theorem for1_body_spec (fuel : Nat) (hf : 3 ≤ fuel) (v : Nat) (hv : v < 10) (st : Dec)
    (e : Gen.dna_to_number.Env) (hr : StrRel st e) :
    ∃ e', Gen.dna_to_number.for1_body fuel (.int (v : Int)) e = .ok (.norm e') ∧
      StrRel (calculusAddition (calculusMultiplication st 4) v) e' := by
  obtain ⟨hnuc, hdec, hdig⟩ := hr
  have hm : Digits (calculusMultiplication st 4) := Digits_calculusMultiplication hdig (by omega)
  simp only [Gen.dna_to_number.for1_body, hnuc, hdec, len_nuc_str, bnd_ok,
    tie_calculus_multiplication st 4 fuel hdig (by omega) (by omega), pyStr_digit hv, ← dstr_singleton,
    tie_calculus_addition _ v fuel hm hv hf]
  exact ⟨_, rfl, rfl, rfl, Digits_calculusAddition hm hv⟩

theorem for1_loop (fuel : Nat) (hf : 3 ≤ fuel) (vs : List Nat) (hvs : ∀ v ∈ vs, v < 10) (st : Dec)
    (e : Gen.dna_to_number.Env) (h0 : StrRel st e) :
    ∃ e', forLoop (Gen.dna_to_number.for1_body fuel) (vs.map fun (n : Nat) => PV.int (n : Int)) e =
        .ok (.norm e') ∧
      StrRel (vs.foldl (fun n v => calculusAddition (calculusMultiplication n 4) v) st) e' :=
  forLoop_rel_map StrRel (fun n v => calculusAddition (calculusMultiplication n 4) v)
    (fun (n : Nat) => PV.int (n : Int))
    (fun a ha st e hr => for1_body_spec fuel hf a (hvs a ha) st e hr) h0

/-- integer path: the environment holds the number `st`. -/
def IntRel (st : Nat) (e : Gen.dna_to_number.Env) : Prop :=
  e.decimal_number = .int (st : Int)

theorem for2_body_spec (fuel : Nat) (v : Nat) (st : Nat) (e : Gen.dna_to_number.Env) (hr : IntRel st e) :
    ∃ e', Gen.dna_to_number.for2_body fuel (.int (v : Int)) e = .ok (.norm e') ∧ IntRel (st * 4 + v) e' := by
  have hcast : ((st : Int) * 4 + (v : Int)) = ((st * 4 + v : Nat) : Int) := by push_cast; rfl
  have hdec : e.decimal_number = .int (st : Int) := hr
  simp only [Gen.dna_to_number.for2_body, hdec, pyMul_int, pyAdd_int, bnd_ok, hcast]
  exact ⟨_, rfl, rfl⟩

theorem for2_loop (fuel : Nat) (vs : List Nat) (st : Nat) (e : Gen.dna_to_number.Env) (h0 : IntRel st e) :
    ∃ e', forLoop (Gen.dna_to_number.for2_body fuel) (vs.map fun (n : Nat) => PV.int (n : Int)) e =
        .ok (.norm e') ∧
      IntRel (vs.foldl (fun n v => n * 4 + v) st) e' :=
  forLoop_rel_map IntRel (fun n v => n * 4 + v) (fun (n : Nat) => PV.int (n : Int))
    (fun a _ st e hr => for2_body_spec fuel a st e hr) h0

/-! ### `number_to_dna` -/

/-- the list of one-letter strings `one_array` holds. -/
def nucsPV (l : List Nat) : PV := .list (l.map fun j => PV.str [nucChar j])

theorem while1_cond_spec (fuel : Nat) {n : Dec} (hn : Digits n) (e : Gen.number_to_dna.Env)
    (hdec : e.decimal_number = dstr n) :
    Gen.number_to_dna.while1_cond fuel e = .ok (!decide (n = [0])) := by
  simp only [Gen.number_to_dna.while1_cond, hdec, pyNe_def, str_lit_zero,
    eqb_dstr hn (show Digits [0] by simp)]

theorem while1_body_spec (fuel : Nat) {n : Dec} (hn : Digits n) (acc : List Nat)
    (e : Gen.number_to_dna.Env) (hdec : e.decimal_number = dstr n) (hone : e.one_array = nucsPV acc)
    (hnuc : e.nucleotides = .str ['A', 'C', 'G', 'T']) :
    ∃ e', Gen.number_to_dna.while1_body fuel e = .ok (.norm e') ∧
      e'.decimal_number = dstr (calculusDivision n 4).1 ∧
      e'.one_array = nucsPV ((calculusDivision n 4).2.toNat :: acc) ∧
      e'.nucleotides = .str ['A', 'C', 'G', 'T'] ∧ e'.dna_length = e.dna_length := by
  obtain ⟨r, hr, h2, _⟩ := calculusDivision_four hn
  have hint : pyInt (dstr [r]) = .ok (.int (r : Int)) := pyInt_digit (show r < 10 by omega)
  simp only [Gen.number_to_dna.while1_body, hnuc, hdec, hone, len_nuc_str, bnd_ok,
    tie_calculus_division n 4 fuel hn (by omega), h2, pyUnpack_two_tup, getD_cons_zero', getD_cons_one',
    hint, pyIndex_ACGT hr, nucsPV, pyInsert_list_zero]
  refine ⟨_, rfl, rfl, ?_, rfl, rfl⟩
  simp [Dec.toNat]

theorem while1_loop (fuel : Nat) : ∀ (f : Nat) (n : Dec) (acc one : List Nat) (e : Gen.number_to_dna.Env)
    (F : Nat), Digits n → e.decimal_number = dstr n → e.one_array = nucsPV acc →
    e.nucleotides = .str ['A', 'C', 'G', 'T'] → digitsStrLoop 4 f n acc = .ok one → f ≤ F →
    ∃ e', whileLoop (Gen.number_to_dna.while1_cond fuel) (Gen.number_to_dna.while1_body fuel) F e =
        .ok (.norm e') ∧
      e'.one_array = nucsPV one ∧ e'.nucleotides = .str ['A', 'C', 'G', 'T'] ∧
      e'.dna_length = e.dna_length := by
  intro f
  induction f with
  | zero =>
    intro n acc one e F _ _ _ _ h _
    simp [digitsStrLoop] at h
  | succ f ih =>
    intro n acc one e F hn hdec hone hnuc h hF
    obtain ⟨F', rfl⟩ : ∃ F', F = F' + 1 := ⟨F - 1, by omega⟩
    rw [digitsStrLoop] at h
    by_cases hz : n = [0]
    · rw [if_pos hz] at h
      injection h with h
      subst h
      refine ⟨e, whileLoop_false ?_ F', hone, hnuc, rfl⟩
      rw [while1_cond_spec fuel hn e hdec]; simp [hz]
    · rw [if_neg hz] at h
      obtain ⟨e1, hb, hdec1, hone1, hnuc1, hlen1⟩ := while1_body_spec fuel hn acc e hdec hone hnuc
      obtain ⟨_, _, _, hq⟩ := calculusDivision_four hn
      obtain ⟨e2, hl, hone2, hnuc2, hlen2⟩ := ih _ _ one e1 F' hq hdec1 hone1 hnuc1 h (by omega)
      refine ⟨e2, ?_, hone2, hnuc2, by rw [hlen2, hlen1]⟩
      rw [whileLoop_true_norm ?_ hb, hl]
      rw [while1_cond_spec fuel hn e hdec]; simp [hz]

theorem while2_cond_spec (fuel : Nat) (n : Nat) (e : Gen.number_to_dna.Env)
    (hdec : e.decimal_number = .int (n : Int)) :
    Gen.number_to_dna.while2_cond fuel e = .ok (decide (0 < n)) := by
  simp only [Gen.number_to_dna.while2_cond, hdec, pyGt_nat_zero]

theorem while2_body_spec (fuel : Nat) (n : Nat) (acc : List Nat)
    (e : Gen.number_to_dna.Env) (hdec : e.decimal_number = .int (n : Int)) (hone : e.one_array = nucsPV acc)
    (hnuc : e.nucleotides = .str ['A', 'C', 'G', 'T']) :
    ∃ e', Gen.number_to_dna.while2_body fuel e = .ok (.norm e') ∧
      e'.decimal_number = .int ((n / 4 : Nat) : Int) ∧
      e'.one_array = nucsPV (n % 4 :: acc) ∧
      e'.nucleotides = .str ['A', 'C', 'G', 'T'] ∧ e'.dna_length = e.dna_length := by
  simp only [Gen.number_to_dna.while2_body, hnuc, hdec, hone, len_nuc, bnd_ok, pyDivmod_nat_four,
    pyUnpack_two_tup, getD_cons_zero', getD_cons_one', pyIndex_ACGT (Nat.mod_lt n (show 4 > 0 by omega)),
    nucsPV, pyInsert_list_zero]
  exact ⟨_, rfl, rfl, rfl, rfl, rfl⟩

theorem while2_loop (fuel : Nat) : ∀ (G n : Nat) (acc : List Nat) (e : Gen.number_to_dna.Env),
    n < 2 ^ G → e.decimal_number = .int (n : Int) → e.one_array = nucsPV acc →
    e.nucleotides = .str ['A', 'C', 'G', 'T'] →
    ∃ e', whileLoop (Gen.number_to_dna.while2_cond fuel) (Gen.number_to_dna.while2_body fuel) (G + 1) e =
        .ok (.norm e') ∧
      e'.one_array = nucsPV (digitsNat 4 n acc) ∧ e'.nucleotides = .str ['A', 'C', 'G', 'T'] ∧
      e'.dna_length = e.dna_length := by
  intro G
  induction G with
  | zero =>
    intro n acc e hn hdec hone hnuc
    have hn0 : n = 0 := by simpa using hn
    subst hn0
    refine ⟨e, whileLoop_false ?_ 0, by rw [digitsNat_four_zero]; exact hone, hnuc, rfl⟩
    rw [while2_cond_spec fuel 0 e hdec]; rfl
  | succ G ih =>
    intro n acc e hn hdec hone hnuc
    by_cases hz : n = 0
    · subst hz
      refine ⟨e, whileLoop_false ?_ _, by rw [digitsNat_four_zero]; exact hone, hnuc, rfl⟩
      rw [while2_cond_spec fuel 0 e hdec]; rfl
    · obtain ⟨e1, hb, hdec1, hone1, hnuc1, hlen1⟩ := while2_body_spec fuel n acc e hdec hone hnuc
      have hlt : n / 4 < 2 ^ G := by
        rw [Nat.pow_succ] at hn; omega
      obtain ⟨e2, hl, hone2, hnuc2, hlen2⟩ := ih (n / 4) _ e1 hlt hdec1 hone1 hnuc1
      refine ⟨e2, ?_, by rw [digitsNat_four_pos hz]; exact hone2, hnuc2, by rw [hlen2, hlen1]⟩
      rw [whileLoop_true_norm ?_ hb, hl]
      rw [while2_cond_spec fuel n e hdec]; simp; omega

/-- `k1`: join the letters, pad on the left with `A`. -/
theorem k1_spec (fuel : Nat) (one : List Nat) (L : Nat) (e : Gen.number_to_dna.Env)
    (hone : e.one_array = nucsPV one) (hnuc : e.nucleotides = .str ['A', 'C', 'G', 'T'])
    (hlen : e.dna_length = .int (L : Int)) :
    Gen.number_to_dna.k1 fuel e = .ok (.ret (cstr (padDna one L))) := by
  simp only [Gen.number_to_dna.k1, hone, nucsPV, pyJoin_empty_chars nucChar one, bnd_ok, hnuc,
    pyIndex_str_cons_zero, pyLen_str, hlen, pySub_int, pyMul_str_int, replicateList_singleton,
    toNat_sub_natCast, pyAdd_str, List.length_map, padDna, cstr]

end DnaTie

open DnaTie

theorem tie_dna_to_number_str (s : List Char) (fuel : Nat) (hf : 3 ≤ fuel) :
    Gen.dna_to_number fuel (cstr s) (.bool true) = (dnaToNumberStr s).map dstr := by
  simp only [Gen.dna_to_number, Gen.dna_to_number.body, cstr, pyMap_str, mapM_index, dnaToNumberStr]
  cases hnv : nucValues s with
  | error err => rfl
  | ok vs =>
    simp only [R_map_ok, bnd_ok, pyList_list, truthy_bool, if_true, pyIter_list]
    have hvs : ∀ v ∈ vs, v < 10 := fun v hv => by have := nucValues_lt hnv v hv; omega
    apply callResult_seq_of_norm
      (StrRel (vs.foldl (fun n v => calculusAddition (calculusMultiplication n 4) v) [0]))
    · exact for1_loop fuel hf vs hvs [0] _ ⟨rfl, rfl, by simp⟩
    · intro e' h
      simp only [Gen.dna_to_number.k1, h.2.1, callResult_ret]

theorem tie_dna_to_number_int (s : List Char) (fuel : Nat) :
    Gen.dna_to_number fuel (cstr s) (.bool false) = (dnaToNumberInt s).map (fun (n : Nat) => PV.int (n : Int)) := by
  simp only [Gen.dna_to_number, Gen.dna_to_number.body, cstr, pyMap_str, mapM_index, dnaToNumberInt]
  cases hnv : nucValues s with
  | error err => rfl
  | ok vs =>
    simp only [R_map_ok, bnd_ok, pyList_list, truthy_bool, Bool.false_eq_true, if_false, pyIter_list]
    apply callResult_seq_of_norm (IntRel (vs.foldl (fun n v => n * 4 + v) 0))
    · exact for2_loop fuel vs 0 _ rfl
    · intro e' h
      have h' : e'.decimal_number = .int ((vs.foldl (fun n v => n * 4 + v) 0 : Nat) : Int) := h
      simp only [Gen.dna_to_number.k1, h', callResult_ret]

theorem tie_number_to_dna_str (n : Dec) (L fuel : Nat) (r : List Char) (hn : Digits n)
    (h : numberToDnaStr n L = .ok r) (hf : digitsFuel n + 1 ≤ fuel) :
    Gen.number_to_dna fuel (dstr n) (.int L) = .ok (cstr r) := by
  unfold numberToDnaStr at h
  cases hl : digitsStrLoop 4 (digitsFuel n) n [] with
  | error err => rw [hl] at h; cases h
  | ok one =>
    rw [hl] at h
    injection h with h
    subst h
    simp only [Gen.number_to_dna, Gen.number_to_dna.body, pyTypeIs_dstr_str, bnd_ok, if_true]
    apply callResult_seq_of_norm (fun e' => e'.one_array = nucsPV one ∧
      e'.nucleotides = .str ['A', 'C', 'G', 'T'] ∧ e'.dna_length = .int (L : Int))
    · exact while1_loop fuel (digitsFuel n) n [] one _ fuel hn rfl rfl rfl hl (by omega)
    · intro e' ⟨h1, h2, h3⟩
      rw [k1_spec fuel one L e' h1 h2 h3]; rfl

theorem tie_number_to_dna_int (n L fuel : Nat) (hf : Nat.log2 n + 2 ≤ fuel) :
    Gen.number_to_dna fuel (.int n) (.int L) = .ok (cstr (numberToDnaInt n L)) := by
  obtain ⟨G, rfl⟩ : ∃ G, fuel = G + 1 := ⟨fuel - 1, by omega⟩
  have hlt : n < 2 ^ G :=
    Nat.lt_of_lt_of_le (Nat.lt_log2_self (n := n)) (Nat.pow_le_pow_right (by omega) (by omega))
  simp only [Gen.number_to_dna, Gen.number_to_dna.body, pyTypeIs_int_str, pyTypeIs_int_int, bnd_ok,
    Bool.false_eq_true, if_false, if_true]
  apply callResult_seq_of_norm (fun e' => e'.one_array = nucsPV (digitsNat 4 n []) ∧
    e'.nucleotides = .str ['A', 'C', 'G', 'T'] ∧ e'.dna_length = .int (L : Int))
  · exact while2_loop (G + 1) G n [] _ hlt rfl rfl rfl
  · intro e' ⟨h1, h2, h3⟩
    rw [k1_spec (G + 1) _ L e' h1 h2 h3]; rfl

theorem tie_number_to_dna_other (v L : PV) (fuel : Nat) (h1 : ∀ s, v ≠ .str s) (h2 : ∀ i, v ≠ .int i)
    (h3 : v ≠ .unbound) :
    Gen.number_to_dna fuel v L = .error .valueError := by
  cases v with
  | str s => exact absurd rfl (h1 s)
  | int i => exact absurd rfl (h2 i)
  | list l => simp [Gen.number_to_dna, Gen.number_to_dna.body, pyTypeIs]
  | tup l => simp [Gen.number_to_dna, Gen.number_to_dna.body, pyTypeIs]
  | bool b => simp [Gen.number_to_dna, Gen.number_to_dna.body, pyTypeIs]
  | none => simp [Gen.number_to_dna, Gen.number_to_dna.body, pyTypeIs]
  | unbound => exact absurd rfl h3
  | arr l => simp [Gen.number_to_dna, Gen.number_to_dna.body, pyTypeIs]
  | set l => simp [Gen.number_to_dna, Gen.number_to_dna.body, pyTypeIs]
  | dict ks vs => simp [Gen.number_to_dna, Gen.number_to_dna.body, pyTypeIs]
  | rat n d => simp [Gen.number_to_dna, Gen.number_to_dna.body, pyTypeIs]

end Dsw.Tie
