import DswModel.Tie.NpLemmas
import DswModel.Tie.RepairDefs
import DswModel.Tie.SwVt
import DswModel.Tie.OpDna
import DswModel.Tie.GzPath
import DswModel.Lemmas.Repair
/-!
# Translation tie — `repair_dna`: shared lemmas

* loops whose body may raise, simulated against a model fold in the exception monad (`Sim`, `foldIdxM`,
  `forLoop_sim`, `seq_sim`);
* computation lemmas for the primitives of the third instalment of `Py/Value.lean` (`.set` values,
  `pySetAdd`, `pyZip`, `pySorted`, `pyProduct`, `npOnes`/`npNeg`) and a few more slices / subscripts;
* insertion sort: the sorted duplicate-free list is unique.
-/
namespace Dsw.Tie.Repair
open Dsw Dsw.Py Dsw.Tie

/-! ## loops whose body may raise -/

section Sim
variable {ε σ α : Type}

/-- the loop outcome `r` simulates the model outcome `m`: both raise the same exception, or the loop ends
normally in an environment related to the model's state. -/
def Sim (Rel : σ → ε → Prop) (m : R σ) (r : R (Flow ε)) : Prop :=
  match m with
  | .ok s => ∃ e', r = .ok (.norm e') ∧ Rel s e'
  | .error err => r = .error err

theorem Sim.ok {Rel : σ → ε → Prop} {s : σ} {r : R (Flow ε)} {e' : ε} (h : r = .ok (.norm e')) (hr : Rel s e') :
    Sim Rel (.ok s) r := ⟨e', h, hr⟩

theorem Sim.error {Rel : σ → ε → Prop} {err : PyErr} {r : R (Flow ε)} (h : r = .error err) :
    Sim Rel (.error err) r := h

/-- a left fold in the exception monad whose step sees the position. -/
def foldIdxM (step : Nat → σ → α → R σ) : Nat → List α → σ → R σ
  | _, [], s => .ok s
  | n, a :: as, s =>
    match step n s a with
    | .ok s' => foldIdxM step (n + 1) as s'
    | .error err => .error err

/-- the items of a loop over a model list, numbered from `n`. -/
def itemsFrom (item : Nat → α → PV) : Nat → List α → List PV
  | _, [] => []
  | n, a :: as => item n a :: itemsFrom item (n + 1) as

theorem itemsFrom_enum (emb : α → PV) (n : Nat) (as : List α) :
    itemsFrom (fun i a => PV.tup [.int (i : Int), emb a]) n as = enumFrom n (as.map emb) := by
  induction as generalizing n with
  | nil => rfl
  | cons a as ih => simp only [itemsFrom, List.map_cons, enumFrom_cons, ih]

theorem itemsFrom_map (emb : α → PV) (n : Nat) (as : List α) :
    itemsFrom (fun _ a => emb a) n as = as.map emb := by
  induction as generalizing n with
  | nil => rfl
  | cons a as ih => simp only [itemsFrom, List.map_cons, ih]

theorem foldIdxM_const (f : σ → α → R σ) (n : Nat) (as : List α) (s : σ) :
    foldIdxM (fun _ => f) n as s = as.foldlM f s := by
  induction as generalizing n s with
  | nil => rfl
  | cons a as ih =>
    rw [foldIdxM, List.foldlM_cons]
    cases h : f s a with
    | error err => rfl
    | ok s' => exact ih (n + 1) s'

theorem foldIdxM_zipIdx (f : σ → α × Nat → R σ) (n : Nat) (as : List α) (s : σ) :
    foldIdxM (fun i s a => f s (a, i)) n as s = (as.zipIdx n).foldlM f s := by
  induction as generalizing n s with
  | nil => rfl
  | cons a as ih =>
    rw [foldIdxM, List.zipIdx_cons, List.foldlM_cons]
    cases h : f s (a, n) with
    | error err => rfl
    | ok s' => exact ih (n + 1) s'

/-- **simulation rule**: every iteration simulates one step of the model fold. -/
theorem forLoop_sim {body : PV → ε → R (Flow ε)} (Rel : Nat → σ → ε → Prop) (step : Nat → σ → α → R σ)
    (item : Nat → α → PV) :
    ∀ (as : List α) (n : Nat) (st : σ) (e : ε),
      (∀ i a st e, a ∈ as → n ≤ i → i < n + as.length → Rel i st e →
        Sim (Rel (i + 1)) (step i st a) (body (item i a) e)) →
      Rel n st e →
      Sim (Rel (n + as.length)) (foldIdxM step n as st) (forLoop body (itemsFrom item n as) e) := by
  intro as
  induction as with
  | nil => intro n st e _ h0; exact ⟨e, rfl, h0⟩
  | cons a as ih =>
    intro n st e hstep h0
    have h := hstep n a st e List.mem_cons_self (Nat.le_refl _) (by simp) h0
    rw [foldIdxM, itemsFrom]
    cases hs : step n st a with
    | error err =>
      rw [hs] at h
      exact forLoop_cons_error h _
    | ok s' =>
      rw [hs] at h
      obtain ⟨e1, hb, h1⟩ := h
      rw [forLoop_cons_norm hb]
      have hlen : n + (a :: as).length = n + 1 + as.length := by simp only [List.length_cons]; omega
      rw [hlen]
      exact ih (n + 1) s' e1
        (fun i a' st' e' ha' hi1 hi2 hr =>
          hstep i a' st' e' (List.mem_cons_of_mem _ ha') (by omega) (by simp only [List.length_cons]; omega) hr) h1

/-- a statement list that ends by returning the value `m` (or raising). -/
def retR (m : RV) : R (Flow ε) :=
  match m with
  | .ok v => .ok (.ret v)
  | .error err => .error err

@[simp] theorem retR_ok (v : PV) : (retR (.ok v) : R (Flow ε)) = .ok (.ret v) := rfl
@[simp] theorem retR_error (err : PyErr) : (retR (.error err) : R (Flow ε)) = .error err := rfl

theorem callResult_retR (m : RV) : callResult (retR m : R (Flow ε)) = m := by
  cases m <;> rfl

/-- glue: a simulated loop followed by a continuation that returns. -/
theorem seq_sim {Rel : σ → ε → Prop} {m : R σ} {r : R (Flow ε)} {k : ε → R (Flow ε)} {g : σ → RV}
    (h : Sim Rel m r) (hk : ∀ s e, Rel s e → k e = retR (g s)) :
    seq r k = retR (m.bind g) := by
  cases m with
  | error err => rw [show r = .error err from h]; rfl
  | ok s =>
    obtain ⟨e', rfl, hr⟩ := h
    exact hk s e' hr

/-- glue: a loop known to end normally, followed by a continuation that returns. -/
theorem seq_norm_retR {Q : ε → Prop} {r : R (Flow ε)} {k : ε → R (Flow ε)} {m : RV}
    (h : ∃ e', r = .ok (.norm e') ∧ Q e') (hk : ∀ e, Q e → k e = retR m) :
    seq r k = retR m := by
  obtain ⟨e', rfl, hq⟩ := h
  exact hk e' hq

end Sim

/-! ## slices, subscripts -/

theorem pySliceV_str_int (s : List Char) (a b : Int) :
    pySliceV (.str s) (.int a) (.int b) = .ok (.str (pySlice s a b)) := rfl
theorem pySliceV_str_none_int (s : List Char) (b : Int) :
    pySliceV (.str s) .none (.int b) = .ok (.str (pySlice s 0 b)) := rfl
theorem pySliceV_arr_int (l : List PV) (a b : Int) :
    pySliceV (.arr l) (.int a) (.int b) = .ok (.arr (pySlice l a b)) := rfl

theorem pySlice_map {α β} (f : α → β) (l : List α) (a b : Int) :
    pySlice (l.map f) a b = (pySlice l a b).map f := by
  simp [pySlice, List.map_take, List.map_drop]

/-- `l[i]` for the entry right after the prefix `A`. -/
theorem pyIndex_list_mid (A B : List PV) (x : PV) :
    pyIndex (.list (A ++ x :: B)) (.int (A.length : Int)) = .ok x := by
  rw [pyIndex_list_getD (by simp)]
  simp [List.getD_eq_getElem?_getD]

/-- `l[i] = y` for the entry right after the prefix `A`. -/
theorem pySetItem_list_mid (A B : List PV) (x y : PV) :
    pySetItem (.list (A ++ x :: B)) (.int (A.length : Int)) y = .ok (.list (A ++ y :: B)) := by
  rw [pySetItem_list_nat (by simp)]
  simp

/-- `l[-1] = y` right after `l.append(x)`. -/
theorem pySetItem_list_append_singleton_neg_one (l : List PV) (x y : PV) :
    pySetItem (.list (l ++ [x])) (.int (-1)) y = .ok (.list (l ++ [y])) := by
  simp [pySetItem, pySetItemSeq, normIndex_neg_one (n := l.length + 1) (by omega)]

/-- `fragments[i]` on a tuple of strings. -/
theorem pyIndex_tup_strs {l : List (List Char)} {i : Nat} (h : i < l.length) :
    pyIndex (.tup (l.map .str)) (.int (i : Int)) = .ok (.str (l.getD i [])) := by
  rw [pyIndex_tup_nat (by simpa using h)]
  simp [List.getD_eq_getElem?_getD, h]

theorem pyIndex_list_strs {l : List (List Char)} {i : Nat} (h : i < l.length) :
    pyIndex (.list (l.map .str)) (.int (i : Int)) = .ok (.str (l.getD i [])) := by
  rw [pyIndex_list_nat (by simpa using h)]
  simp [List.getD_eq_getElem?_getD, h]

/-! ## sets -/

@[simp] theorem pyIter_set (l : List PV) : pyIter (.set l) = .ok l := rfl
@[simp] theorem pyList_set (l : List PV) : pyList (.set l) = .ok (.list l) := rfl
@[simp] theorem pyLen_set (l : List PV) : pyLen (.set l) = .ok (.int l.length) := rfl

/-- membership of a string in a list of strings. -/
theorem findIdxEq_strs (x : List Char) (l : List (List Char)) (i : Nat) :
    (findIdxEq (.str x) (l.map .str) i).isSome = l.contains x := by
  induction l generalizing i with
  | nil => rfl
  | cons y r ih =>
    rw [List.map_cons, findIdxEq_cons, eqb_str, List.contains_cons]
    by_cases h : y = x
    · subst h; simp
    · have h1 : (y == x) = false := by simpa using h
      have h2 : (x == y) = false := by simpa using fun e : x = y => h e.symm
      rw [h1, h2]
      simpa using ih (i + 1)

theorem pyIn_set_strs (x : List Char) (l : List (List Char)) :
    pyIn (.str x) (.set (l.map .str)) = .ok (l.contains x) := by
  simp only [pyIn, findIdxEq_strs]

/-- `s.add(x)` on a set of strings. -/
theorem pySetAdd_strs (l : List (List Char)) (x : List Char) :
    pySetAdd (.set (l.map .str)) (.str x) = .ok (.set ((if l.contains x then l else l ++ [x]).map .str)) := by
  simp only [pySetAdd, findIdxEq_strs]
  cases l.contains x <;> simp

/-! ## `zip`, `itertools.product` -/

theorem zipPairs_map {α β} (f : α → PV) (g : β → PV) (xs : List α) (ys : List β) :
    zipPairs (xs.map f) (ys.map g) = (xs.zip ys).map fun p => PV.tup [f p.1, g p.2] := by
  induction xs generalizing ys with
  | nil => rfl
  | cons x xs ih =>
    cases ys with
    | nil => rfl
    | cons y ys => simp only [List.map_cons, zipPairs, List.zip_cons_cons, ih]

theorem pyZip_lists (xs ys : List PV) : pyZip (.list xs) (.list ys) = .ok (.list (zipPairs xs ys)) := rfl

theorem productLists_map {α} (f : α → PV) (ls : List (List α)) :
    productLists (ls.map (·.map f)) = (product ls).map (·.map f) := by
  induction ls with
  | nil => rfl
  | cons fs rest ih =>
    simp only [List.map_cons, productLists, product, ih, List.map_flatMap, List.flatMap_map, List.map_map]
    rfl

theorem mapM_pyIter_lists (f : PV → Option (List PV)) (hf : ∀ l, f (.list l) = some l) (ls : List (List PV)) :
    (ls.map PV.list).mapM f = some ls := by
  induction ls with
  | nil => rfl
  | cons l ls ih => simp [List.mapM_cons, ih, hf]

/-- `itertools.product(*lists)` on a list of lists of strings. -/
theorem pyProduct_strs (ls : List (List (List Char))) :
    pyProduct (.list (ls.map fun fs => .list (fs.map .str))) =
      .ok (.list ((product ls).map fun frs => .tup (frs.map .str))) := by
  have h : (ls.map fun fs => PV.list (fs.map PV.str)) = (ls.map (·.map PV.str)).map PV.list := by simp
  rw [h]
  simp only [pyProduct, pyIter_list]
  rw [mapM_pyIter_lists _ (fun l => rfl)]
  simp only [productLists_map, List.map_map]
  rfl

/-! ## `-ones(n)` -/

theorem npNegList_ints (l : List Int) : npNegList (l.map .int) = .ok ((l.map fun x => -x).map .int) := by
  induction l with
  | nil => rfl
  | cons x l ih => simp [npNegList, ih]

/-- `-ones(shape=(n,), dtype=int)`. -/
theorem neg_ones (n : Nat) :
    (bnd (npOnes (.tup [.int (n : Int)])) fun t => npNeg t) = .ok (.arr ((List.replicate n (-1 : Int)).map .int)) := by
  have h : ¬ ((n : Int) < 0) := by omega
  have h1 : List.replicate n (PV.int 1) = (List.replicate n (1 : Int)).map .int := by simp
  simp only [npOnes, npFull, h, if_false, bnd_ok, Int.toNat_natCast, npNeg, h1, npNegList_ints, R_map_ok]
  simp

/-! ## insertion sort -/

theorem strLt_iff (x y : List Char) : Py.strLt x y = !strLe y x := by
  induction x generalizing y with
  | nil => cases y <;> rfl
  | cons a as ih =>
    cases y with
    | nil => rfl
    | cons b bs =>
      rw [strLt_cons_cons, strLe]
      by_cases h1 : a.toNat < b.toNat
      · have h2 : ¬ b.toNat < a.toNat := by omega
        simp [h1, h2]
      · by_cases h2 : b.toNat < a.toNat
        · have h3 : a.toNat > b.toNat := h2
          simp [h1, h2]
        · have h3 : ¬ a.toNat > b.toNat := h2
          simp only [h1, h2, if_false, ih]

theorem strLe_antisymm : ∀ x y : List Char, strLe x y = true → strLe y x = true → x = y
  | [], [], _, _ => rfl
  | [], _ :: _, _, h => by simp [strLe] at h
  | _ :: _, [], h, _ => by simp [strLe] at h
  | a :: as, b :: bs, h1, h2 => by
    simp only [strLe] at h1 h2
    by_cases c1 : a.toNat < b.toNat
    · have c2 : ¬ b.toNat < a.toNat := by omega
      simp [c1, c2] at h2
    · by_cases c2 : b.toNat < a.toNat
      · simp [c1, c2] at h1
      · simp only [c1, c2, if_false] at h1 h2
        have : a = b := Char.toNat_inj.mp (by omega)
        rw [this, strLe_antisymm as bs h1 h2]

/-- `sorted` on a list of strings is insertion by `<` from the right. -/
theorem insertSortedPV_strs (x : List Char) (l : List (List Char)) :
    insertSortedPV (.str x) (l.map .str) = .ok ((insertSorted Py.strLt x l).map .str) := by
  induction l with
  | nil => rfl
  | cons y ys ih =>
    simp only [List.map_cons, insertSortedPV, pyLt_str, insertSorted]
    cases Py.strLt x y with
    | true => rfl
    | false => simp only [ih, R_map_ok, Bool.false_eq_true, if_false, List.map_cons]

theorem sortPV_strs (l : List (List Char)) : sortPV (l.map .str) = .ok ((isort Py.strLt l).map .str) := by
  induction l with
  | nil => rfl
  | cons x xs ih =>
    simp only [List.map_cons, sortPV, ih, insertSortedPV_strs]
    rfl

theorem pySorted_list_strs (l : List (List Char)) :
    pySorted (.list (l.map .str)) = .ok (.list ((isort Py.strLt l.reverse).map .str)) := by
  simp only [pySorted, pyIter_list, ← List.map_reverse, sortPV_strs, R_map_ok]

theorem isort_strLt_pairwise (l : List (List Char)) : (isort Py.strLt l).Pairwise (fun x y => strLe x y = true) := by
  induction l with
  | nil => simp [isort]
  | cons z zs ih =>
    rw [isort_cons]
    refine pairwise_insertSorted Py.strLt _ ?_ ?_ strLe_trans z _ ih
    · intro x y h
      rw [strLt_iff] at h
      exact strLe_total y x (by simpa using h)
    · intro x y h
      rw [strLt_iff] at h
      simpa using h

theorem isort_strLe_pairwise (l : List (List Char)) : (isort strLe l).Pairwise (fun x y => strLe x y = true) := by
  induction l with
  | nil => simp [isort]
  | cons z zs ih =>
    rw [isort_cons]
    exact pairwise_insertSorted strLe _ (fun _ _ h => h) strLe_total strLe_trans z _ ih

/-- two duplicate-free lists with the same members sort to the same list, whichever of the two insertion
sorts is used. -/
theorem isort_unique {l₁ l₂ : List (List Char)} (h₁ : l₁.Nodup) (h₂ : l₂.Nodup) (hm : ∀ x, x ∈ l₁ ↔ x ∈ l₂) :
    isort Py.strLt l₁ = isort strLe l₂ := by
  apply List.Perm.eq_of_pairwise (le := fun x y => strLe x y = true)
  · intro x y _ _ hxy hyx; exact strLe_antisymm x y hxy hyx
  · exact isort_strLt_pairwise l₁
  · exact isort_strLe_pairwise l₂
  · rw [List.perm_ext_iff_of_nodup (nodup_isort _ _ h₁) (nodup_isort _ _ h₂)]
    intro x
    rw [mem_isort, mem_isort]
    exact hm x

/-- the insertion-ordered duplicate-free list a Python set of strings is modelled by. -/
def dedup (l : List (List Char)) : List (List Char) :=
  l.foldl (fun set x => if set.contains x then set else set ++ [x]) []

theorem dedup_foldl_spec (l : List (List Char)) :
    ∀ (set : List (List Char)), set.Nodup →
      (l.foldl (fun set x => if set.contains x then set else set ++ [x]) set).Nodup ∧
      ∀ x, x ∈ l.foldl (fun set x => if set.contains x then set else set ++ [x]) set ↔ x ∈ set ∨ x ∈ l := by
  induction l with
  | nil => intro set h; exact ⟨h, by simp⟩
  | cons y ys ih =>
    intro set h
    rw [List.foldl_cons]
    by_cases hc : set.contains y = true
    · rw [if_pos hc]
      obtain ⟨i1, i2⟩ := ih set h
      refine ⟨i1, fun x => ?_⟩
      rw [i2]
      have : y ∈ set := by simpa using hc
      constructor
      · rintro (h1 | h1)
        · exact Or.inl h1
        · exact Or.inr (List.mem_cons_of_mem _ h1)
      · rintro (h1 | h1)
        · exact Or.inl h1
        · rcases List.mem_cons.mp h1 with rfl | h1
          · exact Or.inl this
          · exact Or.inr h1
    · rw [if_neg hc]
      have hy : y ∉ set := by simpa using hc
      obtain ⟨i1, i2⟩ := ih (set ++ [y]) (by
        rw [List.nodup_append]
        refine ⟨h, by simp, ?_⟩
        intro a ha b hb
        simp only [List.mem_singleton] at hb
        subst hb
        intro e; subst e; exact hy ha)
      refine ⟨i1, fun x => ?_⟩
      rw [i2]
      simp only [List.mem_append, List.mem_cons, List.not_mem_nil, or_false]
      constructor
      · rintro ((h1 | h1) | h1)
        · exact Or.inl h1
        · exact Or.inr (Or.inl h1)
        · exact Or.inr (Or.inr h1)
      · rintro (h1 | h1 | h1)
        · exact Or.inl (Or.inl h1)
        · exact Or.inl (Or.inr h1)
        · exact Or.inr h1

theorem nodup_dedup (l : List (List Char)) : (dedup l).Nodup :=
  (dedup_foldl_spec l [] List.nodup_nil).1

theorem mem_dedup (l : List (List Char)) (x : List Char) : x ∈ dedup l ↔ x ∈ l := by
  rw [dedup, (dedup_foldl_spec l [] List.nodup_nil).2]; simp

/-- `sorted(list(set))` for the set built by adding the kept candidates in order. -/
theorem sorted_dedup (kept : List (List Char)) :
    isort Py.strLt (dedup kept).reverse = isort strLe kept.eraseDups := by
  apply isort_unique
  · exact (List.reverse_perm _).nodup_iff.mpr (nodup_dedup kept)
  · exact nodup_eraseDups _ _ (Nat.le_refl _)
  · intro x
    rw [List.mem_reverse, mem_dedup, List.mem_eraseDups]

/-! ## the parameters of `repair_dna` and the part of the environment that never changes -/

abbrev Env := Gen.repair_dna.Env

/-- the arguments of one call of `repair_dna`. -/
structure Params where
  a : Acc
  dna : List Char
  k : Nat
  chk : Option (List Char)
  hasIndel : Bool
  heap : Nat

/-- the arguments and the constant `nucleotides`, as the environment holds them. -/
def Const (P : Params) (e : Env) : Prop :=
  e.dna_sequence = .str P.dna ∧ e.accessor = accPV P.a ∧ e.observed_length = .int (P.k : Int) ∧
    e.vt_check = chkPV P.chk ∧ e.has_indel = .bool P.hasIndel ∧ e.heap_size = .int (P.heap : Int) ∧
    e.nucleotides = .str ['A', 'C', 'G', 'T']

/-- `dna_to_number(s, is_string=False)` on an ACGT string. -/
theorem dna_to_number_acgt (fuel : Nat) {s : List Char} (hs : IsAcgt s) :
    Gen.dna_to_number fuel (.str s) (.bool false) = .ok (.int ((kmerIdx s : Nat) : Int)) := by
  have := tie_dna_to_number_int s fuel
  rw [dnaToNumberInt_acgt s hs] at this
  exact this

/-- the tie of `path_matching` (the only place it is referred to), on the arguments as `repair_dna` spells them. -/
theorem path_matching_spec (fuel : Nat) {a : Acc} (ha : a.WF) (chunk : List Char) {prev : Int}
    (hp : -(a.size : Int) ≤ prev ∧ prev < a.size) (occ : Nat) (hasIndel : Bool) :
    Gen.path_matching fuel (.str chunk) (accPV a) (.int prev) (.int (occ : Int)) (.bool hasIndel) .none =
      (pathMatching a chunk prev occ hasIndel).map pmResultPV :=
  tie_path_matching a chunk prev occ hasIndel fuel ha hp

/-- `set_vt(s, len(check))` compared with the check: the model's `vtMatches`. -/
theorem set_vt_check (fuel : Nat) (s c : List Char) (hc : c ≠ []) (hf : 2 * c.length + 2 ≤ fuel) :
    (bnd (Gen.set_vt fuel (.str s) (.int (c.length : Int))) fun t => pyEq (.str c) t) =
      vtMatches s (some c) := by
  have hlen : 1 ≤ c.length := by
    cases c with
    | nil => exact absurd rfl hc
    | cons x xs => simp
  have := tie_set_vt s c.length fuel hlen hf
  simp only [cstr] at this
  rw [this, vtMatches]
  cases setVt s c.length with
  | error err => rfl
  | ok r =>
    simp only [R_map_ok, bnd_ok, pyEq_def]
    congr 1
    exact Bool.beq_comm

/-- what the fragment loops leave alone and the output stage reads. -/
def Keep (K : PV × PV × PV) (e : Env) : Prop :=
  e.split_sequences = K.1 ∧ e.detected_count = K.2.1 ∧ e.chuck_flag = K.2.2

end Dsw.Tie.Repair
