import DswModel.Tie.SwCodingArcs
import DswModel.Tie.SwCodingConv
/-!
# Translation tie — `connect_coding_graph`: the threshold-1 phase
(backward closure from the branching vertices, removal of the useless vertices with the predecessor cascade)
-/
namespace Dsw.Tie.Ccg
open Dsw Dsw.Py Dsw.Tie Dsw.Trim Dsw.TrimOne

theorem toList_eq_range_map {α} (a : Array α) (d : α) : a.toList = (List.range a.size).map fun v => a.getD v d := by
  apply List.ext_getElem
  · simp
  · intro i h1 h2
    have : i < a.size := by simpa using h1
    simp [Array.getD, this]

theorem cnt_map {α} (p : α → Bool) (l : List α) : cnt (l.map p) = (l.filter p).length := by
  induction l with
  | nil => rfl
  | cons x xs ih =>
    rw [List.map_cons, cnt_cons, ih, List.filter_cons]
    cases p x <;> simp <;> omega

theorem deg_eq_cnt {a : Acc} (ha : a.WF) {v : Nat} (hv : v < a.size) :
    a.deg v = cnt ((a.getD v #[]).toList.map fun x => decide (0 ≤ x)) := by
  have h := ha.row_toList (v := (v : Int)) (by omega) (by omega)
  rw [row_natCast hv] at h
  rw [h, Acc.deg, live_eq_filter_row]
  generalize a.ent v 0 = e0
  generalize a.ent v 1 = e1
  generalize a.ent v 2 = e2
  generalize a.ent v 3 = e3
  by_cases h0 : 0 ≤ e0 <;> by_cases h1 : 0 ≤ e1 <;> by_cases h2 : 0 ≤ e2 <;> by_cases h3 : 0 ≤ e3 <;>
    simp [cnt, List.range, List.range.loop, h0, h1, h2, h3]

/-- `accessor >= 0` on the two-dimensional accessor. -/
theorem npCmp_ge_mat (rows : List (List Int)) :
    npCmp pyGe (GzV.mat rows) (.int 0) =
      .ok (.arr ((rows.map fun r => r.map fun x => decide (0 ≤ x)).map fun r => .arr (r.map .bool))) := by
  rw [GzV.mat, npCmp, arrBroadcast_map_int
    (g := fun r : List Int => PV.arr ((r.map fun x => decide (0 ≤ x)).map PV.bool))]
  · simp [List.map_map, Function.comp_def]
  · intro r
    show arrBroadcast (liftCmp pyGe) (.arr (r.map .int)) (.int 0) = _
    rw [arrBroadcast_map_int (g := fun x : Int => PV.bool (decide (0 ≤ x)))]
    · simp [List.map_map, Function.comp_def]
    · intro x; rfl

/-- the branching vertices. -/
def u0 (a : Acc) : Array Bool := (Array.range a.size).map fun v => decide (a.deg v > 1)

theorem useful0_expr {a : Acc} (ha : a.WF) :
    (bnd (bnd (npCmp pyGe (accPV a) (.int 0)) fun t => npSumAxis1 t) fun t => npCmp pyGt t (.int 1)) =
      .ok (bmask false (u0 a).toList) := by
  rw [GzV.accPV_eq_mat, npCmp_ge_mat, bnd_ok, GzV.npSumAxis1_bools, bnd_ok, npCmp_pyGt_ints_int, bmask_false]
  congr 2
  simp only [u0, Array.toList_map, Array.toList_range, List.map_map]
  rw [toList_eq_range_map a #[], List.map_map]
  apply List.map_congr_left
  intro v hv
  have hv' : v < a.size := List.mem_range.mp hv
  simp only [Function.comp, cntI_eq_cnt, deg_eq_cnt ha hv']
  congr 1
  simp
  omega

/-! ### pairs, rows -/

def pairPV (p : Nat × Nat) : PV := .tup [.int (p.1 : Int), .int (p.2 : Int)]
def pairsPV (ps : List (Nat × Nat)) : PV := .list (ps.map pairPV)

/-- `accessor[u] = -1` fills the row. -/
theorem pySetItem_accPV_row {a : Acc} {u : Nat} (hu : u < a.size) (hrow : (a.getD u #[]).size = 4) :
    pySetItem (accPV a) (.int (u : Int)) (.int (-1)) = .ok (accPV (a.setIfInBounds u (Array.replicate 4 (-1)))) := by
  have hu' : u < (a.toList.map fun r => PV.arr (r.toList.map fun (x : Int) => PV.int x)).length := by simpa using hu
  have hg : (a.toList.map fun r => PV.arr (r.toList.map fun (x : Int) => PV.int x)).getD u .none =
      .arr ((a.getD u #[]).toList.map fun (x : Int) => PV.int x) := by
    simp [List.getD_eq_getElem?_getD, Array.getD_eq_getD_getElem?, hu]
  simp only [pySetItem, accPV, asInt?_int, normIndex_natCast hu', hg, Array.toList_setIfInBounds, List.map_set]
  congr 3
  have hlen : (a.getD u #[]).toList.length = 4 := by simpa using hrow
  generalize (a.getD u #[]).toList = r at hlen
  match r, hlen with
  | [_, _, _, _], _ => rfl

/-- the live entries of a row as an index array. -/
theorem live_entries_expr {a : Acc} (ha : a.WF) {v : Nat} (hv : v < a.size) :
    (bnd (npCmp pyGe (rowPV (a.row (v : Int))) (.int 0)) fun t => npMaskIndex (rowPV (a.row (v : Int))) t) =
      .ok (idxArrPV (a.liveEntries (v : Int))) := by
  rw [rowPV, npCmp_pyGe_ints_int, bnd_ok]
  simp only [npMaskIndex, GzV.maskSelect_map PV.int (fun x => decide ((0 : Int) ≤ x)) _, R_map_ok,
    GzV.liveEntries_eq ha (v := (v : Int)) (by omega) (by omega), idxArrPV]

/-! ### the backward closure (`while True` … `break` on `useful`) -/

def UIn (k : Nat) (a : Acc) (vs : List Nat) (u ex : Array Bool) (e : CEnv) : Prop :=
  e.observed_length = .int (k : Int) ∧ e.accessor = accPV a ∧ e.vertices = idxArrPV vs ∧
    e.useful = bmask false u.toList ∧ e.expanded = bmask false ex.toList ∧ ex.size = a.size

theorem for7_spec (k fuel : Nat) {a : Acc} (ha : a.WF) (vs : List Nat) (u : Array Bool) (hu : u.size = a.size)
    (v : Nat) (hv : v < a.size) (ex : Array Bool) (e : CEnv) (h : UIn k a vs u ex e) :
    ∃ e', Gen.connect_coding_graph.for7_body fuel (.int (v : Int)) e = .ok (.norm e') ∧
      UIn k a vs u (ustep a u ex v) e' := by
  obtain ⟨h1, h2, h3, h4, h5, h6⟩ := h
  have hvu : v < u.toList.length := by rw [Array.length_toList, hu]; exact hv
  have hvex : v < ex.toList.length := by rw [Array.length_toList, h6]; exact hv
  simp only [Gen.connect_coding_graph.for7_body, h4, pyIndex_bmask false hvu, bnd_ok, truthy_cellPV, getD_toList]
  by_cases huv : u.getD v false = true
  · have hst : ustep a u ex v = ex := by unfold ustep; rw [if_pos huv]
    simp only [huv, Bool.not_true, Bool.false_eq_true, if_false, hst]
    exact ⟨_, rfl, by first | rfl | exact h1, by first | rfl | exact h2, by first | rfl | exact h3,
      by first | rfl | exact h4, by first | rfl | exact h5, h6⟩
  · have huv' : u.getD v false = false := by simpa using huv
    have hst : ustep a u ex v = ex.setIfInBounds v ((a.liveEntries (v : Int)).any fun w => u.getD w false) := by
      unfold ustep; rw [if_neg huv]
    have hws : ∀ w ∈ a.liveEntries (v : Int), w < u.toList.length := by
      intro w hw
      rw [Array.length_toList, hu]
      exact GzV.liveEntries_lt ha hv hw
    have hb : decide ((0 : Int) < ((cnt ((a.liveEntries (v : Int)).map fun w => u.toList.getD w false) : Nat) : Int)) =
        (a.liveEntries (v : Int)).any fun w => u.getD w false := by
      rw [Bool.eq_iff_iff]
      simp only [decide_eq_true_eq, Int.natCast_pos, cnt_pos_iff_any, List.any_map, getD_toList]
      rfl
    simp only [huv', Bool.not_false, if_true, h2, pyIndex_accPV_nat hv, bnd_ok, live_entries_expr ha hv,
      pyIndex_bmask_arr false hws, npSum_bmask, npCmp_int_int, pyGt_int, R_map_ok, hb, h5, pySetItem_bmask hvex,
      hst]
    refine ⟨_, rfl, by first | rfl | exact h1, by first | rfl | exact h2, by first | rfl | exact h3,
      by first | rfl | exact h4, ?_, ?_⟩
    · show bmask false _ = _
      rw [toList_setIfInBounds]
    · rw [Array.size_setIfInBounds]; exact h6

def USt (k : Nat) (a : Acc) (vs : List Nat) (u : Array Bool) (e : CEnv) : Prop :=
  e.observed_length = .int (k : Int) ∧ e.accessor = accPV a ∧ e.vertices = idxArrPV vs ∧
    e.useful = bmask false u.toList ∧ u.size = a.size

theorem while6_body_spec (k fuel : Nat) {a : Acc} (ha : a.WF) (vs : List Nat) (hvs : ∀ v ∈ vs, v < a.size)
    (u : Array Bool) (e : CEnv) (h : USt k a vs u e) :
    if Mask.count (usefulStep a vs u) = Mask.count u then
      ∃ e', Gen.connect_coding_graph.while6_body fuel e = .ok (.brk e') ∧ USt k a vs u e'
    else ∃ e', Gen.connect_coding_graph.while6_body fuel e = .ok (.norm e') ∧ USt k a vs (usefulStep a vs u) e' := by
  obtain ⟨h1, h2, h3, h4, h5⟩ := h
  have hloop : ∃ e1, (bnd (pyIter ({ e with expanded := e.useful } : CEnv).vertices) fun items =>
      forLoop (Gen.connect_coding_graph.for7_body fuel) items { e with expanded := e.useful }) = .ok (.norm e1) ∧
      UIn k a vs u (usefulStep a vs u) e1 := by
    show ∃ e1, (bnd (pyIter e.vertices) fun items => _) = _ ∧ _
    rw [h3, idxArrPV, pyIter_arr, bnd_ok, usefulStep_eq]
    exact forLoop_rel_map (UIn k a vs u) (ustep a u) (fun (n : Nat) => PV.int (n : Int))
      (fun v hv st e he => for7_spec k fuel ha vs u h5 v (hvs v hv) st e he)
      ⟨h1, h2, rfl, h4, h4, h5⟩
  obtain ⟨e1, hl, g1, g2, g3, g4, g5, g6⟩ := hloop
  simp only [Gen.connect_coding_graph.while6_body]
  rw [hl, seq_norm]
  simp only [Gen.connect_coding_graph.k8, g5, g4, npSum_bmask, bnd_ok, pyEq_def, eqb_int, ← count_eq_cnt]
  by_cases hc : Mask.count (usefulStep a vs u) = Mask.count u
  · have hc' : (((Mask.count (usefulStep a vs u) : Nat) : Int) == ((Mask.count u : Nat) : Int)) = true := by
      rw [hc]; simp
    rw [if_pos hc]
    simp only [hc', if_true, seq_brk]
    exact ⟨_, rfl, g1, g2, g3, g4, h5⟩
  · have hc' : (((Mask.count (usefulStep a vs u) : Nat) : Int) == ((Mask.count u : Nat) : Int)) = false := by
      simp only [beq_eq_false_iff_ne, ne_eq]; omega
    rw [if_neg hc]
    simp only [hc', Bool.false_eq_true, if_false, seq_norm, Gen.connect_coding_graph.k7]
    exact ⟨_, rfl, by first | rfl | exact g1, by first | rfl | exact g2, by first | rfl | exact g3,
      by first | rfl | exact g5, by rw [usefulStep_size]; exact h5⟩

theorem while6_spec (k fuel : Nat) {a : Acc} (ha : a.WF) (vs : List Nat) (hvs : ∀ v ∈ vs, v < a.size) :
    ∀ (f : Nat) (u : Array Bool) (W : Nat) (e : CEnv), u.size < f + Mask.count u → f ≤ W → USt k a vs u e →
      ∃ e', whileLoop (Gen.connect_coding_graph.while6_cond fuel) (Gen.connect_coding_graph.while6_body fuel) W e =
          .ok (.norm e') ∧ USt k a vs (usefulLoop a vs f u) e' := by
  intro f
  induction f with
  | zero =>
    intro u W e h _ _
    have := Mask.count_le_size u
    omega
  | succ f ih =>
    intro u W e hm hW hst
    obtain ⟨W', rfl⟩ : ∃ W', W = W' + 1 := ⟨W - 1, by omega⟩
    have hb := while6_body_spec k fuel ha vs hvs u e hst
    rw [usefulLoop]
    by_cases hc : Mask.count (usefulStep a vs u) = Mask.count u
    · rw [if_pos hc] at hb
      obtain ⟨e1, hb1, g⟩ := hb
      simp only [hc, if_true]
      exact ⟨e1, whileLoop_true_brk (cond := Gen.connect_coding_graph.while6_cond fuel) (e := e) rfl hb1 W', g⟩
    · rw [if_neg hc] at hb
      obtain ⟨e1, hb1, g⟩ := hb
      simp only [hc, if_false]
      rw [whileLoop_true_norm (cond := Gen.connect_coding_graph.while6_cond fuel) (e := e) rfl hb1 W']
      have hle := usefulStep_le a vs u
      have hsz := usefulStep_size a vs u
      have hcl := Mask.count_le_of_le hsz.symm hle
      exact ih _ W' e1 (by rw [hsz]; omega) (by omega) g

/-! ### the predecessor cascade (`while len(pairs) > 0`) -/

def CIn (k : Nat) (st : Acc × List (Nat × Nat)) (e : CEnv) : Prop :=
  e.observed_length = .int (k : Int) ∧ e.accessor = accPV st.1 ∧ WFdB k st.1 ∧ e.new_pairs = pairsPV st.2

theorem formers_pairs (fuel : Nat) {k : Nat} (hk : 1 ≤ k) (f : Nat) :
    (bnd (Gen.obtain_formers fuel (.int (f : Int)) (.int (k : Int))) fun t =>
        pyMap (fun it_i => .ok (.tup [it_i, .int (f : Int)])) t) =
      .ok (pairsPV ((obtainFormers k f).map fun i => (i, f))) := by
  rw [tie_obtain_formers k f fuel hk, bnd_ok, natsPV_def,
    pyMap_list_map (f := fun it_i => .ok (.tup [it_i, .int (f : Int)])) (emb := fun n : Nat => PV.int (n : Int))
      (g := fun i : Nat => PV.tup [.int (i : Int), .int (f : Int)]) (fun _ _ => rfl)]
  simp [pairsPV, pairPV, List.map_map, Function.comp_def]

theorem for10_spec (k fuel : Nat) (hk : 1 ≤ k) (p : Nat × Nat) (hp : p.1 < 4 ^ k) (st : Acc × List (Nat × Nat))
    (e : CEnv) (h : CIn k st e) :
    ∃ e', Gen.connect_coding_graph.for10_body fuel (pairPV p) e = .ok (.norm e') ∧ CIn k (cstep k st p) e' := by
  obtain ⟨h1, h2, h3, h4⟩ := h
  have ha := wf_of_wfdb h3
  have hsz : st.1.size = 4 ^ k := h3.1
  have hv : p.1 < st.1.size := by rw [hsz]; exact hp
  have hj : p.2 % 4 < (st.1.getD p.1 #[]).size := by rw [(h3.2 p.1 hp).1]; omega
  have h3' : WFdB k (st.1.setEnt p.1 (p.2 % 4) (-1)) := wfdb_setEnt k _ _ _ _ h3 (Or.inl rfl)
  have ha' := wf_of_wfdb h3'
  have hv' : p.1 < (st.1.setEnt p.1 (p.2 % 4) (-1)).size := by rw [h3'.1]; exact hp
  have hprev := where_row_ge_zero ha (v := (p.1 : Int)) (by omega) (by omega)
  have hcur := where_row_ge_zero ha' (v := (p.1 : Int)) (by omega) (by omega)
  have hset := GzV.npSetItem2_accPV hv hj (-1)
  have hlen : ∀ b : Acc, ((List.map (fun (j : Nat) => PV.int (j : Int)) (b.live (p.1 : Int))).length : Int) =
      ((b.deg p.1 : Nat) : Int) := by
    intro b; simp [Acc.deg]
  simp only [Gen.connect_coding_graph.for10_body, pairPV, pyUnpack_two_tup, bnd_ok, List.getD_cons_zero,
    List.getD_cons_succ, h2, hprev, pyLen_arr, hlen, pyMod_nat_four, hset, hcur, pyGt_int, pyEq_def, eqb_int,
    GzV.ite_ok_and]
  have hb : (decide ((((st.1.setEnt p.1 (p.2 % 4) (-1)).deg p.1 : Nat) : Int) < ((st.1.deg p.1 : Nat) : Int)) &&
      ((((st.1.setEnt p.1 (p.2 % 4) (-1)).deg p.1 : Nat) : Int) == 0)) =
      decide (st.1.deg p.1 > (st.1.setEnt p.1 (p.2 % 4) (-1)).deg p.1 ∧
        (st.1.setEnt p.1 (p.2 % 4) (-1)).deg p.1 = 0) := by
    rw [Bool.eq_iff_iff]
    simp only [Bool.and_eq_true, decide_eq_true_eq, beq_iff_eq]
    omega
  rw [hb]
  unfold cstep
  simp only
  by_cases hcond : st.1.deg p.1 > (st.1.setEnt p.1 (p.2 % 4) (-1)).deg p.1 ∧
      (st.1.setEnt p.1 (p.2 % 4) (-1)).deg p.1 = 0
  · have hd := decide_eq_true hcond
    rw [if_pos hcond]
    simp only [hd, if_true, h1, formers_pairs fuel hk, h4, pairsPV, npAdd_list, bnd_ok]
    exact ⟨_, rfl, by first | rfl | exact h1, rfl, h3', by simp [pairsPV]⟩
  · have hd := decide_eq_false hcond
    rw [if_neg hcond]
    simp only [hd, Bool.false_eq_true, if_false]
    exact ⟨_, rfl, by first | rfl | exact h1, rfl, h3', by first | rfl | exact h4⟩

def CSt (k : Nat) (pairs : List (Nat × Nat)) (a : Acc) (e : CEnv) : Prop :=
  e.observed_length = .int (k : Int) ∧ e.accessor = accPV a ∧ WFdB k a ∧ e.pairs = pairsPV pairs

theorem while9_cond_spec (fuel k : Nat) (pairs : List (Nat × Nat)) (a : Acc) (e : CEnv) (h : CSt k pairs a e) :
    Gen.connect_coding_graph.while9_cond fuel e = .ok (!pairs.isEmpty) := by
  obtain ⟨_, _, _, h4⟩ := h
  simp only [Gen.connect_coding_graph.while9_cond, h4, pairsPV, pyLen_list, bnd_ok, pyGt_int, List.length_map]
  cases pairs <;> simp

theorem while9_body_spec (k fuel : Nat) (hk : 1 ≤ k) (pairs : List (Nat × Nat)) (hp : PairsOK k pairs) (a : Acc)
    (e : CEnv) (h : CSt k pairs a e) :
    ∃ e', Gen.connect_coding_graph.while9_body fuel e = .ok (.norm e') ∧
      CSt k (pairs.foldl (cstep k) (a, [])).2 (pairs.foldl (cstep k) (a, [])).1 e' := by
  obtain ⟨h1, h2, h3, h4⟩ := h
  simp only [Gen.connect_coding_graph.while9_body, h4, pairsPV, pyIter_list, bnd_ok]
  refine GzV.seq_exists (CIn k (pairs.foldl (cstep k) (a, []))) _ ?_ ?_
  · exact forLoop_rel_map (CIn k) (cstep k) pairPV (fun p hpm st e he => for10_spec k fuel hk p (hp p hpm) st e he)
      ⟨by first | rfl | exact h1, by first | rfl | exact h2, h3, rfl⟩
  · intro e1 g
    simp only [Gen.connect_coding_graph.k9]
    exact ⟨_, rfl, g.1, g.2.1, g.2.2.1, g.2.2.2⟩

theorem while9_spec (k fuel : Nat) (hk : 1 ≤ k) :
    ∀ (f : Nat) (pairs : List (Nat × Nat)) (a : Acc) (W : Nat) (e : CEnv), PairsOK k pairs →
      (pairs ≠ [] → liveCount k a < f) → f + 1 ≤ W → CSt k pairs a e →
      ∃ e', whileLoop (Gen.connect_coding_graph.while9_cond fuel) (Gen.connect_coding_graph.while9_body fuel) W e =
          .ok (.norm e') ∧ e'.observed_length = .int (k : Int) ∧ e'.accessor = accPV (cascade k f pairs a) := by
  intro f
  induction f with
  | zero =>
    intro pairs a W e _ hm hW hst
    obtain ⟨W', rfl⟩ : ∃ W', W = W' + 1 := ⟨W - 1, by omega⟩
    have : pairs = [] := by
      apply Classical.byContradiction
      intro hne; have := hm hne; omega
    subst this
    exact ⟨e, whileLoop_false (while9_cond_spec fuel k [] a e hst) W', hst.1, hst.2.1⟩
  | succ f ih =>
    intro pairs a W e hp hm hW hst
    obtain ⟨W', rfl⟩ : ∃ W', W = W' + 1 := ⟨W - 1, by omega⟩
    rw [cascade_succ]
    cases pairs with
    | nil => exact ⟨e, whileLoop_false (while9_cond_spec fuel k [] a e hst) W', hst.1, hst.2.1⟩
    | cons p ps =>
      simp only [List.isEmpty_cons, Bool.false_eq_true, if_false]
      obtain ⟨e1, hb, g⟩ := while9_body_spec k fuel hk (p :: ps) hp a e hst
      obtain ⟨c1, _, c3, c4⟩ := cfold_facts hk (p :: ps) a [] hst.2.2.1 hp (PairsOK_nil k)
      have hlt := hm (by simp)
      rw [whileLoop_true_norm (while9_cond_spec fuel k (p :: ps) a e hst) hb W']
      refine ih _ _ W' e1 c3 ?_ (by omega) g
      intro hne
      rcases c4 with c4 | c4
      · exact absurd c4 hne
      · omega

/-! ### removing the useless vertices -/

def RSt (k : Nat) (a : Acc) (e : CEnv) : Prop :=
  e.observed_length = .int (k : Int) ∧ e.accessor = accPV a ∧ WFdB k a

theorem for8_spec (k fuel : Nat) (hk : 1 ≤ k) (hf : 4 ^ k + 2 ≤ fuel) (u : Nat) (hu : u < 4 ^ k) (a : Acc) (e : CEnv)
    (h : RSt k a e) :
    ∃ e', Gen.connect_coding_graph.for8_body fuel (.int (u : Int)) e = .ok (.norm e') ∧
      RSt k (removeVertex k a u) e' := by
  obtain ⟨h1, h2, h3⟩ := h
  have hus : u < a.size := by rw [h3.1]; exact hu
  obtain ⟨c1, _, _⟩ := clearRow_facts h3 hu
  simp only [Gen.connect_coding_graph.for8_body, h2, pySetItem_accPV_row hus (h3.2 u hu).1, bnd_ok, h1,
    formers_pairs fuel hk]
  have hlc := liveCount_le k (a.setIfInBounds u (Array.replicate 4 (-1)))
  refine post_mono (fun e' => e'.observed_length = .int (k : Int) ∧ e'.accessor = accPV (removeVertex k a u)) _ ?_
    (fun e1 g => ⟨g.1, g.2, wfdb_removeVertex k a u h3⟩)
  exact while9_spec k fuel hk (a.size + 1) _ _ fuel _ (PairsOK_formers hk hu)
    (fun _ => by rw [h3.1]; omega) (by rw [h3.1]; omega) ⟨by first | rfl | exact h1, rfl, c1, rfl⟩

theorem for8_loop (k fuel : Nat) (hk : 1 ≤ k) (hf : 4 ^ k + 2 ≤ fuel) :
    ∀ (us : List Nat) (a : Acc) (e : CEnv), (∀ u ∈ us, u < 4 ^ k) → RSt k a e →
      ∃ e', forLoop (Gen.connect_coding_graph.for8_body fuel) (us.map fun (n : Nat) => PV.int (n : Int)) e =
        .ok (.norm e') ∧ RSt k (us.foldl (removeVertex k) a) e' := by
  intro us a e hus h
  exact forLoop_rel_map (RSt k) (removeVertex k) (fun (n : Nat) => PV.int (n : Int))
    (fun u hu st e he => for8_spec k fuel hk hf u (hus u hu) st e he) h

/-! ### one round of the threshold-1 phase -/

/-- the useless vertices of a round. -/
def uselessOf (a : Acc) : List Nat := (obtainVertices a).filter fun v => !(usefulOf a).getD v false

theorem k10_spec (k fuel : Nat) (hf : 4 ^ k + 2 ≤ fuel) (a : Acc) (hw : WFdB k a) (hk : 1 ≤ k ∨ uselessOf a = [])
    (e : CEnv) (h : USt k a (obtainVertices a) (usefulOf a) e) :
    if (uselessOf a).isEmpty then
      ∃ e', Gen.connect_coding_graph.k10 fuel e = .ok (.brk e') ∧ e'.vertices = idxArrPV (obtainVertices a) ∧
        e'.accessor = accPV a
    else ∃ e', Gen.connect_coding_graph.k10 fuel e = .ok (.norm e') ∧
      RSt k ((uselessOf a).foldl (removeVertex k) a) e' := by
  obtain ⟨h1, h2, h3, h4, h5⟩ := h
  have hflt : pyFilter (fun it_vertex_index =>
        bnd (bnd (pyIndex e.useful it_vertex_index) fun tmp57 => .ok (PV.truthy tmp57)) fun c => .ok (!c))
      e.vertices = .ok (.list ((uselessOf a).map fun (n : Nat) => PV.int (n : Int))) := by
    rw [h3, idxArrPV, pyFilter_arr, filterM'_map (g := fun v => !(usefulOf a).getD v false)]
    · rfl
    · intro v hv
      have hvu : v < (usefulOf a).toList.length := by
        rw [Array.length_toList, h5]; exact GzV.mem_obtainVertices hv
      rw [h4, pyIndex_bmask false hvu]
      simp only [bnd_ok, truthy_cellPV, getD_toList]
  simp only [Gen.connect_coding_graph.k10, hflt, bnd_ok,
    pyMap_list_map (f := fun it_vertex_index => .ok it_vertex_index) (emb := fun n : Nat => PV.int (n : Int))
      (g := fun n : Nat => PV.int (n : Int)) (fun _ _ => rfl), pyLen_list, List.length_map, pyGt_int, pyIter_list]
  by_cases hul : (uselessOf a).isEmpty = true
  · rw [if_pos hul]
    have hnil : uselessOf a = [] := List.isEmpty_iff.mp hul
    simp only [hnil, List.length_nil, Int.natCast_zero, Int.lt_irrefl, decide_false, Bool.false_eq_true, if_false]
    exact ⟨_, rfl, by first | rfl | exact h3, by first | rfl | exact h2⟩
  · rw [if_neg hul]
    have hne : uselessOf a ≠ [] := fun hh => hul (by rw [hh]; rfl)
    have hk' : 1 ≤ k := by
      rcases hk with hk | hk
      · exact hk
      · exact absurd hk hne
    have hpos : (0 : Int) < ((uselessOf a).length : Int) := by
      have := List.length_pos_iff.mpr hne
      omega
    simp only [hpos, decide_true, if_true]
    refine for8_loop k fuel hk' hf (uselessOf a) a _ ?_ ⟨by first | rfl | exact h1, by first | rfl | exact h2, hw⟩
    intro u hu
    have := GzV.mem_obtainVertices (List.mem_filter.mp hu).1
    rwa [hw.1] at this

theorem iter_spec (k fuel : Nat) (hf : 4 ^ k + 2 ≤ fuel) (a : Acc) (hk : 1 ≤ k ∨ uselessOf a = []) (e : CEnv)
    (h : RSt k a e) :
    if (obtainVertices a).isEmpty then Gen.connect_coding_graph.while5_body fuel e = .error .valueError
    else if (uselessOf a).isEmpty then
      ∃ e', Gen.connect_coding_graph.while5_body fuel e = .ok (.brk e') ∧
        e'.vertices = idxArrPV (obtainVertices a) ∧ e'.accessor = accPV a
    else ∃ e', Gen.connect_coding_graph.while5_body fuel e = .ok (.norm e') ∧
      RSt k ((uselessOf a).foldl (removeVertex k) a) e' := by
  obtain ⟨h1, h2, h3⟩ := h
  have ha := wf_of_wfdb h3
  simp only [Gen.connect_coding_graph.while5_body, h2, GzV.obtain_vertices_tie, bnd_ok, idxArrPV, pyLen_arr,
    List.length_map, pyEq_def, eqb_int]
  by_cases hvs : (obtainVertices a).isEmpty = true
  · rw [if_pos hvs]
    have hnil : obtainVertices a = [] := List.isEmpty_iff.mp hvs
    simp [hnil]
  · rw [if_neg hvs]
    have hne : obtainVertices a ≠ [] := fun hh => hvs (by rw [hh]; rfl)
    have hlen : (((obtainVertices a).length : Int) == 0) = false := by
      have := List.length_pos_iff.mpr hne
      simp only [beq_eq_false_iff_ne, ne_eq]; omega
    simp only [hlen, Bool.false_eq_true, if_false, seq_norm, Gen.connect_coding_graph.k11, useful0_expr ha, bnd_ok]
    refine GzV.seq_pred (USt k a (obtainVertices a) (usefulOf a))
      (fun r => if (uselessOf a).isEmpty then
          ∃ e', r = .ok (.brk e') ∧ e'.vertices = idxArrPV (obtainVertices a) ∧ e'.accessor = accPV a
        else ∃ e', r = .ok (.norm e') ∧ RSt k ((uselessOf a).foldl (removeVertex k) a) e') ?_
      (fun e1 g => k10_spec k fuel hf a h3 hk e1 g)
    exact while6_spec k fuel ha (obtainVertices a) (fun v hv => GzV.mem_obtainVertices hv) (a.size + 1)
      (u0 a) fuel _ (by simp [u0]; omega) (by rw [h3.1]; omega)
      ⟨by first | rfl | exact h1, by first | rfl | exact h2, rfl, rfl, by simp [u0]⟩

/-! ### the loop of the threshold-1 phase -/

theorem thresholdOneLoop_succ' (k f : Nat) (a : Acc) :
    thresholdOneLoop k (f + 1) a =
      if (obtainVertices a).isEmpty then .error .valueError else
      if (uselessOf a).isEmpty then .ok (obtainVertices a, a)
      else thresholdOneLoop k f ((uselessOf a).foldl (removeVertex k) a) := rfl

theorem while5_spec (k fuel : Nat) (hk : 1 ≤ k) (hf : 4 ^ k + 2 ≤ fuel) :
    ∀ (f : Nat) (a : Acc) (W : Nat) (e : CEnv), liveCount k a < f → f ≤ W → RSt k a e →
      (∀ vs r, thresholdOneLoop k f a = .ok (vs, r) →
        ∃ e', whileLoop (Gen.connect_coding_graph.while5_cond fuel) (Gen.connect_coding_graph.while5_body fuel) W e =
          .ok (.norm e') ∧ e'.vertices = idxArrPV vs ∧ e'.accessor = accPV r) ∧
      (∀ err, thresholdOneLoop k f a = .error err →
        whileLoop (Gen.connect_coding_graph.while5_cond fuel) (Gen.connect_coding_graph.while5_body fuel) W e =
          .error err) := by
  intro f
  induction f with
  | zero => intro a W e h _ _; omega
  | succ f ih =>
    intro a W e hm hW hst
    obtain ⟨W', rfl⟩ : ∃ W', W = W' + 1 := ⟨W - 1, by omega⟩
    have hb := iter_spec k fuel hf a (Or.inl hk) e hst
    rw [thresholdOneLoop_succ']
    by_cases hvs : (obtainVertices a).isEmpty = true
    · rw [if_pos hvs] at hb
      rw [if_pos hvs]
      refine ⟨fun vs r h => (by cases h), fun err h => ?_⟩
      cases h
      exact whileLoop_true_error (cond := Gen.connect_coding_graph.while5_cond fuel) (e := e) rfl hb W'
    · rw [if_neg hvs] at hb
      rw [if_neg hvs]
      by_cases hul : (uselessOf a).isEmpty = true
      · rw [if_pos hul] at hb
        rw [if_pos hul]
        obtain ⟨e1, hb1, g1, g2⟩ := hb
        refine ⟨fun vs r h => ?_, fun err h => (by cases h)⟩
        cases h
        exact ⟨e1, whileLoop_true_brk (cond := Gen.connect_coding_graph.while5_cond fuel) (e := e) rfl hb1 W', g1, g2⟩
      · rw [if_neg hul] at hb
        rw [if_neg hul]
        obtain ⟨e1, hb1, g⟩ := hb
        rw [whileLoop_true_norm (cond := Gen.connect_coding_graph.while5_cond fuel) (e := e) rfl hb1 W']
        have hw := hst.2.2
        have hlt : liveCount k ((uselessOf a).foldl (removeVertex k) a) < liveCount k a := by
          cases hus : uselessOf a with
          | nil => rw [hus] at hul; exact absurd rfl hul
          | cons u us =>
            have hall : ∀ x ∈ u :: us, x < 4 ^ k ∧ 0 < a.deg x := by
              intro x hx
              rw [← hus] at hx
              exact (mem_vs hw x).1 (List.mem_filter.mp hx).1
            exact removeAll_liveCount_lt hk u us a hw (fun x hx => (hall x hx).1) (hall u (by simp)).2
        exact ih _ W' e1 (by omega) (by omega) g

end Dsw.Tie.Ccg
