import DswModel.Tie.PyLemmas
import DswModel.Tie.SpiderwebDefs
/-!
# DswModel.Tie.NpLemmas — lemmas about the NumPy part of the Python fragment
(arrays, `npWhere`, `npArgsort`, `npSum`, `npArray`, `npZeros`, `npIndex2`, broadcasting, and the
embeddings `accPV`, `tblPV`, `bitsPV` of `SpiderwebDefs`), shared by the ties of dsw/spiderweb.py.

* §1 arrays as sequences: `pyIter`, `pyLen`, `pyIndex`, slices, `pySetItem` on `.arr`;
* §2 integer arrays: `mapM asInt?`, `npSum`, `npArgsort`, `npArray`, `npZeros`, `bitsPV`;
* §3 broadcasting: `arrZip`, `npSub`/`npAdd`/`npMul`, `npCmp` (scalars, array–array, array–scalar);
* §4 `trueIdx` / `npWhere` (recursive form, `List.filter` form, first match = `List.idxOf`);
* §5 accessors and tables: `rowPV`, `accPV`, `Acc.row`/`Acc.ent`/`Acc.live` under `Acc.WF`, `npIndex2`,
  `Tbl.keys`, the idiom `where(accessor[v] >= 0)[0]`;
* §6 `None` tests, nucleotide columns (`pyIn`/`pyIndexOf` on lists of one-letter strings, `livePos`),
  `pyPow`.

Conventions as in `PyLemmas`: `@[simp]` lemmas compute on constructor-headed arguments; lemmas with
side conditions are for `rw` / `simp only [lemma h]`.  A list of integers is embedded as
`l.map PV.int`, a list of naturals as `l.map fun (n : Nat) => PV.int (n : Int)` (the form `natsPV` and
`bitsPV` use); `map_natCast_int` converts.
-/
namespace Dsw.Tie
open Dsw Dsw.Py

/-! ## §1 arrays as sequences -/

@[simp] theorem asInt?_arr (l : List PV) : (PV.arr l).asInt? = Option.none := rfl
@[simp] theorem truthy_arr (l : List PV) : (PV.arr l).truthy = !l.isEmpty := rfl
@[simp] theorem getVar_arr (l : List PV) : getVar (.arr l) = .ok (.arr l) := rfl
@[simp] theorem eqb_arr (a b : List PV) : PV.eqb (.arr a) (.arr b) = PV.eqbList a b := by simp [PV.eqb]

@[simp] theorem pyIter_arr (l : List PV) : pyIter (.arr l) = .ok l := rfl
@[simp] theorem pyList_arr (l : List PV) : pyList (.arr l) = .ok (.list l) := rfl
@[simp] theorem pyLen_arr (l : List PV) : pyLen (.arr l) = .ok (.int l.length) := rfl
@[simp] theorem pyMap_arr (f : PV → RV) (l : List PV) : pyMap f (.arr l) = (mapM' f l).map .list := rfl
@[simp] theorem pyEnumerate_arr (l : List PV) : pyEnumerate (.arr l) = .ok (.list (enumFrom 0 l)) := rfl
@[simp] theorem pyReverse_arr (l : List PV) : pyReverse (.arr l) = .ok (.arr l.reverse) := rfl
theorem pyUnpack_arr {n : Nat} {l : List PV} (h : l.length = n) : pyUnpack n (.arr l) = .ok l := by
  simp [pyUnpack, h]
theorem pyMap_arr_eq {f : PV → RV} {g : PV → PV} {l : List PV} (h : ∀ x ∈ l, f x = .ok (g x)) :
    pyMap f (.arr l) = .ok (.list (l.map g)) := by simp [mapM'_eq_map h]
theorem pyMap_arr_map {α} {f : PV → RV} {emb : α → PV} {g : α → PV} {l : List α}
    (h : ∀ a ∈ l, f (emb a) = .ok (g a)) : pyMap f (.arr (l.map emb)) = .ok (.list (l.map g)) := by
  simp [mapM'_map h]

/-! ### subscripts -/

theorem pyIndex_arr_nat {l : List PV} {i : Nat} (h : i < l.length) :
    pyIndex (.arr l) (.int i) = .ok l[i] := by
  simp [pyIndex, normIndex_natCast h, List.getD_eq_getElem?_getD, List.getElem?_eq_getElem h]
theorem pyIndex_arr_getD {l : List PV} {i : Nat} (h : i < l.length) :
    pyIndex (.arr l) (.int i) = .ok (l.getD i .none) := by
  simp [pyIndex, normIndex_natCast h]
/-- index given as a non-negative `Int`. -/
theorem pyIndex_arr_int {l : List PV} {i : Int} (h0 : 0 ≤ i) (h : i < l.length) :
    pyIndex (.arr l) (.int i) = .ok (l.getD i.toNat .none) := by
  simp [pyIndex, normIndex_of_nonneg h0 h]
theorem pyIndex_arr_of_ge {l : List PV} {i : Int} (h : (l.length : Int) ≤ i) :
    pyIndex (.arr l) (.int i) = .error .indexError := by
  simp [pyIndex, normIndex_of_ge h]
/-- a negative index `-k`, `1 ≤ k ≤ len`. -/
theorem pyIndex_arr_neg {l : List PV} {k : Nat} (h0 : 0 < k) (h : k ≤ l.length) :
    pyIndex (.arr l) (.int (-(k : Int))) = .ok (l.getD (l.length - k) .none) := by
  simp [pyIndex, normIndex_neg h0 h]
@[simp] theorem pyIndex_arr_cons_zero (x : PV) (xs : List PV) : pyIndex (.arr (x :: xs)) (.int 0) = .ok x :=
  pyIndex_arr_nat (l := x :: xs) (i := 0) (by simp)
@[simp] theorem pyIndex_arr_nil (i : Int) : pyIndex (.arr []) (.int i) = .error .indexError := by
  simp [pyIndex, normIndex_nil]
/-- a non-integer subscript. -/
@[simp] theorem pyIndex_arr_arr (l js : List PV) : pyIndex (.arr l) (.arr js) = .error .typeError := rfl
/-- `arr[i]` is decided by `normIndex` alone. -/
theorem pyIndex_arr_eq (l : List PV) (i : Int) :
    pyIndex (.arr l) (.int i) = match normIndex l.length i with
                                | some j => .ok (l.getD j .none)
                                | Option.none => .error .indexError := rfl

/-- `normIndex` in closed form. -/
theorem normIndex_eq (n : Nat) (i : Int) :
    normIndex n i = if -(n : Int) ≤ i ∧ i < n then some (if i < 0 then i + n else i).toNat else Option.none := by
  unfold normIndex
  by_cases hi : i < 0
  · by_cases h : -(n : Int) ≤ i
    · have h1 : 0 ≤ i + n ∧ i + n < n := by omega
      have h2 : -(n : Int) ≤ i ∧ i < n := by omega
      simp only [hi, if_true, h1, h2, and_self]
    · have h1 : ¬ (0 ≤ i + n ∧ i + n < n) := by omega
      have h2 : ¬ (-(n : Int) ≤ i ∧ i < n) := by omega
      simp only [hi, if_true, h1, h2, if_false]
  · by_cases h : i < n
    · have h1 : 0 ≤ i ∧ i < n := by omega
      have h2 : -(n : Int) ≤ i ∧ i < n := by omega
      simp only [hi, if_false, h1, h2, and_self, if_true]
    · have h1 : ¬ (0 ≤ i ∧ i < n) := by omega
      have h2 : ¬ (-(n : Int) ≤ i ∧ i < n) := by omega
      simp only [hi, if_false, h1, h2]

/-! ### slices -/

@[simp] theorem pySliceV_arr_from (l : List PV) (a : Nat) :
    pySliceV (.arr l) (.int a) .none = .ok (.arr (l.drop a)) := by
  simp [pySliceV, pySlice_from]
@[simp] theorem pySliceV_arr_to (l : List PV) (b : Nat) :
    pySliceV (.arr l) .none (.int b) = .ok (.arr (l.take b)) := by
  simp [pySliceV, pySlice_to]
@[simp] theorem pySliceV_arr_nat (l : List PV) (a b : Nat) :
    pySliceV (.arr l) (.int a) (.int b) = .ok (.arr ((l.drop a).take (b - a))) := by
  simp [pySliceV, pySlice_nat]
/-- `x[1:]` with the literal `1`. -/
@[simp] theorem pySliceV_arr_from_one (l : List PV) :
    pySliceV (.arr l) (.int 1) .none = .ok (.arr l.tail) := by
  simpa using pySliceV_arr_from l 1
@[simp] theorem pySliceV_arr_from_zero (l : List PV) :
    pySliceV (.arr l) (.int 0) .none = .ok (.arr l) := by
  simpa using pySliceV_arr_from l 0
/-- `l[:-1]`. -/
theorem pySlice_to_neg_one {α} (l : List α) : pySlice l 0 (-1) = l.dropLast := by
  have h : pyNorm l.length (-1) = l.length - 1 := pyNorm_neg (n := l.length) (k := 1) (by omega)
  simp only [pySlice, pyNorm_zero, h, List.drop_zero, Nat.sub_zero, List.dropLast_eq_take]
/-- `x[:-1]` with the literal `-1`. -/
@[simp] theorem pySliceV_arr_to_neg_one (l : List PV) :
    pySliceV (.arr l) .none (.int (-1)) = .ok (.arr l.dropLast) := by
  simp [pySliceV, pySlice_to_neg_one]
@[simp] theorem pySliceV_list_to_neg_one (l : List PV) :
    pySliceV (.list l) .none (.int (-1)) = .ok (.list l.dropLast) := by
  simp [pySliceV, pySlice_to_neg_one]
@[simp] theorem pySliceV_str_to_neg_one (s : List Char) :
    pySliceV (.str s) .none (.int (-1)) = .ok (.str s.dropLast) := by
  simp [pySliceV, pySlice_to_neg_one]

/-! ### item assignment (integer arrays) -/

theorem pySetItem_arr_nat {l : List PV} {i : Nat} (h : i < l.length) (x : Int) :
    pySetItem (.arr l) (.int i) (.int x) = .ok (.arr (l.set i (.int x))) := by
  simp [pySetItem, normIndex_natCast h]
theorem pySetItem_arr_int {l : List PV} {i : Int} (h0 : 0 ≤ i) (h : i < l.length) (x : Int) :
    pySetItem (.arr l) (.int i) (.int x) = .ok (.arr (l.set i.toNat (.int x))) := by
  simp [pySetItem, normIndex_of_nonneg h0 h]
/-- assignment past the end (`IndexError`), whatever the value. -/
theorem pySetItem_arr_of_ge {l : List PV} {i : Int} (h : (l.length : Int) ≤ i) (x : PV) :
    pySetItem (.arr l) (.int i) x = .error .indexError := by
  simp only [pySetItem, asInt?_int, normIndex_of_ge h]

end Dsw.Tie
