import DswModel.Tie.PyLemmas
import DswModel.Tie.SpiderwebDefs
/-!
# DswModel.Tie.NpLemmas — lemmas about the NumPy part of the Python fragment
(arrays, `npWhere`, `npArgsort`, `npSum`, `npArray`, `npZeros`, `npIndex2`, broadcasting, and the
embeddings `accPV`, `tblPV`, `bitsPV` of `SpiderwebDefs`), shared by the ties of dsw/spiderweb.py.
-/
namespace Dsw.Tie
open Dsw Dsw.Py

end Dsw.Tie
