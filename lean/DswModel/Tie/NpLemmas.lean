import DswModel.Tie.PyLemmas
import DswModel.Tie.SpiderwebDefs
import DswModel.Lemmas.Digit
/-!
# DswModel.Tie.NpLemmas — lemmas about the NumPy part of the Python fragment
(arrays, `npWhere`, `npArgsort`, `npSum`, `npArray`, `npZeros`, `npIndex2`, broadcasting, and the
embeddings `accPV`, `tblPV`, `bitsPV` of `SpiderwebDefs`), shared by the ties of dsw/spiderweb.py.

* §1 arrays as sequences: `pyIter`, `pyLen`, `pyIndex`, slices, `pySetItem` on `.arr`;
* §2 integer arrays: `mapM asInt?`, `npSum`, `npArgsort`, `npArray`, `npZeros`, `bitsPV`;
* §3 broadcasting: `arrZip`, `npSub`/`npAdd`/`npMul`, `npCmp` (scalars, array–array, array–scalar);
* §4 `trueIdx` / `npWhere` (recursive form, `List.filter` form, first match = `List.idxOf`);
* §5 accessors and tables: `rowPV`, `accPV`, `Acc.row`/`Acc.ent`/`Acc.live` under `Acc.WF`, `npIndex2`,
  `Tbl.keys`, the idiom `where(accessor[v] >= 0)[0]`;
* §6 `None` tests, nucleotide columns (`pyIn`/`pyIndexOf` on lists of one-letter strings, `livePos`),
  `pyPow`.

Imports `Lemmas/Digit` (core Lean only) for the facts about `Acc.live`, `argsort`, `Tbl.keys`
(`mem_live_iff`, `live_lt_four`, `argsort_length`, `mem_argsort`, `keys_length`, …).

Conventions as in `PyLemmas`: `@[simp]` lemmas compute on constructor-headed arguments; lemmas with
side conditions are for `rw` / `simp only [lemma h]`.  A list of integers is embedded as
`l.map PV.int`, a list of naturals as `l.map fun (n : Nat) => PV.int (n : Int)` (the form `natsPV` and
`bitsPV` use); `map_natCast_int` converts.
-/
namespace Dsw.Tie
open Dsw Dsw.Py

/-! ## §1 arrays as sequences -/

@[simp] theorem asInt?_arr (l : List PV) : (PV.arr l).asInt? = Option.none := rfl
@[simp] theorem truthy_arr (l : List PV) : (PV.arr l).truthy = !l.isEmpty := rfl
@[simp] theorem getVar_arr (l : List PV) : getVar (.arr l) = .ok (.arr l) := rfl
@[simp] theorem eqb_arr (a b : List PV) : PV.eqb (.arr a) (.arr b) = PV.eqbList a b := by simp [PV.eqb]

@[simp] theorem pyIter_arr (l : List PV) : pyIter (.arr l) = .ok l := rfl
@[simp] theorem pyList_arr (l : List PV) : pyList (.arr l) = .ok (.list l) := rfl
@[simp] theorem pyLen_arr (l : List PV) : pyLen (.arr l) = .ok (.int l.length) := rfl
@[simp] theorem pyMap_arr (f : PV → RV) (l : List PV) : pyMap f (.arr l) = (mapM' f l).map .list := rfl
@[simp] theorem pyEnumerate_arr (l : List PV) : pyEnumerate (.arr l) = .ok (.list (enumFrom 0 l)) := rfl
@[simp] theorem pyReverse_arr (l : List PV) : pyReverse (.arr l) = .ok (.arr l.reverse) := rfl
theorem pyUnpack_arr {n : Nat} {l : List PV} (h : l.length = n) : pyUnpack n (.arr l) = .ok l := by
  simp [pyUnpack, h]
theorem pyMap_arr_eq {f : PV → RV} {g : PV → PV} {l : List PV} (h : ∀ x ∈ l, f x = .ok (g x)) :
    pyMap f (.arr l) = .ok (.list (l.map g)) := by simp [mapM'_eq_map h]
theorem pyMap_arr_map {α} {f : PV → RV} {emb : α → PV} {g : α → PV} {l : List α}
    (h : ∀ a ∈ l, f (emb a) = .ok (g a)) : pyMap f (.arr (l.map emb)) = .ok (.list (l.map g)) := by
  simp [mapM'_map h]

/-! ### subscripts -/

theorem pyIndex_arr_nat {l : List PV} {i : Nat} (h : i < l.length) :
    pyIndex (.arr l) (.int i) = .ok l[i] := by
  simp [pyIndex, pyIndexSeq, normIndex_natCast h, List.getD_eq_getElem?_getD, List.getElem?_eq_getElem h]
theorem pyIndex_arr_getD {l : List PV} {i : Nat} (h : i < l.length) :
    pyIndex (.arr l) (.int i) = .ok (l.getD i .none) := by
  simp [pyIndex, pyIndexSeq, normIndex_natCast h]
/-- index given as a non-negative `Int`. -/
theorem pyIndex_arr_int {l : List PV} {i : Int} (h0 : 0 ≤ i) (h : i < l.length) :
    pyIndex (.arr l) (.int i) = .ok (l.getD i.toNat .none) := by
  simp [pyIndex, pyIndexSeq, normIndex_of_nonneg h0 h]
theorem pyIndex_arr_of_ge {l : List PV} {i : Int} (h : (l.length : Int) ≤ i) :
    pyIndex (.arr l) (.int i) = .error .indexError := by
  simp [pyIndex, pyIndexSeq, normIndex_of_ge h]
/-- a negative index `-k`, `1 ≤ k ≤ len`. -/
theorem pyIndex_arr_neg {l : List PV} {k : Nat} (h0 : 0 < k) (h : k ≤ l.length) :
    pyIndex (.arr l) (.int (-(k : Int))) = .ok (l.getD (l.length - k) .none) := by
  simp [pyIndex, pyIndexSeq, normIndex_neg h0 h]
@[simp] theorem pyIndex_arr_cons_zero (x : PV) (xs : List PV) : pyIndex (.arr (x :: xs)) (.int 0) = .ok x :=
  pyIndex_arr_nat (l := x :: xs) (i := 0) (by simp)
@[simp] theorem pyIndex_arr_nil (i : Int) : pyIndex (.arr []) (.int i) = .error .indexError := by
  simp [pyIndex, pyIndexSeq, normIndex_nil]
/-- an array subscript gathers (`a[[i, j, …]]`). -/
theorem pyIndex_arr_arr (l js : List PV) :
    pyIndex (.arr l) (.arr js) = (mapM' (fun k => pyIndexSeq (.arr l) k) js).map .arr := rfl
/-- `arr[i]` is decided by `normIndex` alone. -/
theorem pyIndex_arr_eq (l : List PV) (i : Int) :
    pyIndex (.arr l) (.int i) = match normIndex l.length i with
                                | some j => .ok (l.getD j .none)
                                | Option.none => .error .indexError := rfl

/-- `normIndex` in closed form. -/
theorem normIndex_eq (n : Nat) (i : Int) :
    normIndex n i = if -(n : Int) ≤ i ∧ i < n then some (if i < 0 then i + n else i).toNat else Option.none := by
  unfold normIndex
  by_cases hi : i < 0
  · by_cases h : -(n : Int) ≤ i
    · have h1 : 0 ≤ i + n ∧ i + n < n := by omega
      have h2 : -(n : Int) ≤ i ∧ i < n := by omega
      simp only [hi, if_true, h1, h2, and_self]
    · have h1 : ¬ (0 ≤ i + n ∧ i + n < n) := by omega
      have h2 : ¬ (-(n : Int) ≤ i ∧ i < n) := by omega
      simp only [hi, if_true, h1, h2, if_false]
  · by_cases h : i < n
    · have h1 : 0 ≤ i ∧ i < n := by omega
      have h2 : -(n : Int) ≤ i ∧ i < n := by omega
      simp only [hi, if_false, h1, h2, and_self, if_true]
    · have h1 : ¬ (0 ≤ i ∧ i < n) := by omega
      have h2 : ¬ (-(n : Int) ≤ i ∧ i < n) := by omega
      simp only [hi, if_false, h1, h2]

/-! ### slices -/

@[simp] theorem pySliceV_arr_from (l : List PV) (a : Nat) :
    pySliceV (.arr l) (.int a) .none = .ok (.arr (l.drop a)) := by
  simp [pySliceV, pySlice_from]
@[simp] theorem pySliceV_arr_to (l : List PV) (b : Nat) :
    pySliceV (.arr l) .none (.int b) = .ok (.arr (l.take b)) := by
  simp [pySliceV, pySlice_to]
@[simp] theorem pySliceV_arr_nat (l : List PV) (a b : Nat) :
    pySliceV (.arr l) (.int a) (.int b) = .ok (.arr ((l.drop a).take (b - a))) := by
  simp [pySliceV, pySlice_nat]
/-- `x[1:]` with the literal `1`. -/
@[simp] theorem pySliceV_arr_from_one (l : List PV) :
    pySliceV (.arr l) (.int 1) .none = .ok (.arr l.tail) := by
  simpa using pySliceV_arr_from l 1
@[simp] theorem pySliceV_arr_from_zero (l : List PV) :
    pySliceV (.arr l) (.int 0) .none = .ok (.arr l) := by
  simpa using pySliceV_arr_from l 0
/-- `l[:-1]`. -/
theorem pySlice_to_neg_one {α} (l : List α) : pySlice l 0 (-1) = l.dropLast := by
  have h : pyNorm l.length (-1) = l.length - 1 := pyNorm_neg (n := l.length) (k := 1) (by omega)
  simp only [pySlice, pyNorm_zero, h, List.drop_zero, Nat.sub_zero, List.dropLast_eq_take]
/-- `x[:-1]` with the literal `-1`. -/
@[simp] theorem pySliceV_arr_to_neg_one (l : List PV) :
    pySliceV (.arr l) .none (.int (-1)) = .ok (.arr l.dropLast) := by
  simp [pySliceV, pySlice_to_neg_one]
@[simp] theorem pySliceV_list_to_neg_one (l : List PV) :
    pySliceV (.list l) .none (.int (-1)) = .ok (.list l.dropLast) := by
  simp [pySliceV, pySlice_to_neg_one]
@[simp] theorem pySliceV_str_to_neg_one (s : List Char) :
    pySliceV (.str s) .none (.int (-1)) = .ok (.str s.dropLast) := by
  simp [pySliceV, pySlice_to_neg_one]

/-! ### item assignment (integer arrays) -/

/-- `a[i] = x` where the item now at `i` is an integer (a row of a two-dimensional array would be
filled, a boolean item would stay boolean: `pySetItem`). -/
theorem pySetItem_arr_nat {l : List PV} {i : Nat} {k : Int} (hk : l[i]? = some (.int k)) (x : Int) :
    pySetItem (.arr l) (.int i) (.int x) = .ok (.arr (l.set i (.int x))) := by
  have h : i < l.length := (List.getElem?_eq_some_iff.mp hk).1
  simp [pySetItem, pySetItemSeq, normIndex_natCast h, List.getD_eq_getElem?_getD, hk]
theorem pySetItem_arr_int {l : List PV} {i : Int} {k : Int} (h0 : 0 ≤ i) (hk : l[i.toNat]? = some (.int k))
    (x : Int) :
    pySetItem (.arr l) (.int i) (.int x) = .ok (.arr (l.set i.toNat (.int x))) := by
  have := pySetItem_arr_nat hk x
  rwa [Int.toNat_of_nonneg h0] at this
/-- on an array of integers. -/
theorem pySetItem_ints_nat {l : List Int} {i : Nat} (h : i < (l.map PV.int).length) (x : Int) :
    pySetItem (.arr (l.map .int)) (.int i) (.int x) = .ok (.arr ((l.map .int).set i (.int x))) :=
  pySetItem_arr_nat (k := l[i]'(by simpa using h)) (by simp [List.getElem?_eq_getElem (by simpa using h : i < l.length)]) x
/-- assignment past the end (`IndexError`), whatever the value. -/
theorem pySetItem_arr_of_ge {l : List PV} {i : Int} (h : (l.length : Int) ≤ i) (x : PV) :
    pySetItem (.arr l) (.int i) x = .error .indexError := by
  cases hx : x.asInt? with
  | none => simp only [pySetItem, pySetItemSeq, asInt?_int, hx, normIndex_of_ge h]
  | some n => simp only [pySetItem, asInt?_int, hx, normIndex_of_ge h]

/-! ## §2 integer arrays -/

/-- the two spellings of an embedded list of naturals. -/
theorem map_natCast_int (l : List Nat) :
    (l.map fun (n : Nat) => (n : Int)).map PV.int = l.map fun (n : Nat) => PV.int (n : Int) := by
  simp

theorem getD_map_int (l : List Int) (i : Nat) (d : Int) : (l.map PV.int).getD i .none =
    if i < l.length then .int (l.getD i d) else .none := by
  by_cases h : i < l.length
  · simp [h, List.getD_eq_getElem?_getD]
  · simp [h, List.getD_eq_getElem?_getD]
theorem getD_map_nat (l : List Nat) (i : Nat) (d : Nat) :
    (l.map fun (n : Nat) => PV.int (n : Int)).getD i .none =
      if i < l.length then .int ((l.getD i d : Nat) : Int) else .none := by
  by_cases h : i < l.length
  · simp [h, List.getD_eq_getElem?_getD]
  · simp [h, List.getD_eq_getElem?_getD]

theorem pyIndex_ints_nat {l : List Int} {i : Nat} (h : i < l.length) :
    pyIndex (.arr (l.map .int)) (.int i) = .ok (.int (l.getD i 0)) := by
  rw [pyIndex_arr_getD (by simpa using h), getD_map_int l i 0, if_pos h]
theorem pyIndex_ints_int {l : List Int} {i : Int} (h0 : 0 ≤ i) (h : i < l.length) :
    pyIndex (.arr (l.map .int)) (.int i) = .ok (.int (l.getD i.toNat 0)) := by
  rw [pyIndex_arr_int h0 (by simpa using h), getD_map_int l _ 0, if_pos (by omega)]
theorem pyIndex_nats_nat {l : List Nat} {i : Nat} (h : i < l.length) :
    pyIndex (.arr (l.map fun (n : Nat) => .int (n : Int))) (.int i) = .ok (.int ((l.getD i 0 : Nat) : Int)) := by
  rw [pyIndex_arr_getD (by simpa using h), getD_map_nat l i 0, if_pos h]
theorem pyIndex_nats_int {l : List Nat} {i : Int} (h0 : 0 ≤ i) (h : i < l.length) :
    pyIndex (.arr (l.map fun (n : Nat) => .int (n : Int))) (.int i) =
      .ok (.int ((l.getD i.toNat 0 : Nat) : Int)) := by
  rw [pyIndex_arr_int h0 (by simpa using h), getD_map_nat l _ 0, if_pos (by omega)]

/-- `used_indices[0]` with the literal `0`. -/
theorem pyIndex_nats_zero {l : List Nat} (h : 0 < l.length) :
    pyIndex (.arr (l.map fun (n : Nat) => .int (n : Int))) (.int 0) = .ok (.int ((l.getD 0 0 : Nat) : Int)) :=
  pyIndex_nats_nat (i := 0) h
theorem pyIndex_nats_of_ge {l : List Nat} {i : Int} (h : (l.length : Int) ≤ i) :
    pyIndex (.arr (l.map fun (n : Nat) => .int (n : Int))) (.int i) = .error .indexError :=
  pyIndex_arr_of_ge (by simpa using h)

/-! ### `mapM asInt?` (the guard of `npSum` / `npArgsort`) -/

theorem mapM_asInt?_cons (x : PV) (xs : List PV) :
    (x :: xs).mapM PV.asInt? = (x.asInt?).bind fun k => (xs.mapM PV.asInt?).bind fun ks => some (k :: ks) := by
  simp [List.mapM_cons]
theorem mapM_asInt?_ints (l : List Int) : (l.map PV.int).mapM PV.asInt? = some l := by
  induction l with
  | nil => rfl
  | cons x xs ih => simp [List.mapM_cons, ih]
theorem mapM_asInt?_nats (l : List Nat) :
    (l.map fun (n : Nat) => PV.int (n : Int)).mapM PV.asInt? = some (l.map fun (n : Nat) => (n : Int)) := by
  rw [← map_natCast_int, mapM_asInt?_ints]
theorem mapM_asInt?_bools (l : List Bool) :
    (l.map PV.bool).mapM PV.asInt? = some (l.map fun b => if b then 1 else 0) := by
  induction l with
  | nil => rfl
  | cons x xs ih => simp [List.mapM_cons, ih]

/-! ### `npSum` -/

theorem foldl_add_shift (l : List Int) (a : Int) : l.foldl (· + ·) a = a + l.foldl (· + ·) 0 := by
  induction l generalizing a with
  | nil => simp
  | cons x xs ih => rw [List.foldl_cons, List.foldl_cons, ih (a + x), ih (0 + x)]; omega
theorem foldl_add_shift_nat (l : List Nat) (a : Nat) : l.foldl (· + ·) a = a + l.foldl (· + ·) 0 := by
  induction l generalizing a with
  | nil => simp
  | cons x xs ih => rw [List.foldl_cons, List.foldl_cons, ih (a + x), ih (0 + x)]; omega
theorem foldl_add_natCast (l : List Nat) (a : Nat) :
    (l.map fun (n : Nat) => (n : Int)).foldl (· + ·) (a : Int) = ((l.foldl (· + ·) a : Nat) : Int) := by
  induction l generalizing a with
  | nil => rfl
  | cons x xs ih =>
    rw [List.map_cons, List.foldl_cons, List.foldl_cons, ← ih (a + x)]; push_cast; rfl

theorem npSum_ints (l : List Int) : npSum (.arr (l.map .int)) = .ok (.int (l.foldl (· + ·) 0)) := by
  simp only [npSum, mapM_asInt?_ints]
theorem npSum_nats (l : List Nat) :
    npSum (.arr (l.map fun (n : Nat) => .int (n : Int))) = .ok (.int ((l.foldl (· + ·) 0 : Nat) : Int)) := by
  simp only [npSum, mapM_asInt?_nats]
  exact congrArg (fun z => Except.ok (PV.int z)) (foldl_add_natCast l 0)
theorem npSum_list_nats (l : List Nat) : npSum (natsPV l) = .ok (.int ((l.foldl (· + ·) 0 : Nat) : Int)) := by
  simp only [npSum, natsPV, mapM_asInt?_nats]
  exact congrArg (fun z => Except.ok (PV.int z)) (foldl_add_natCast l 0)
@[simp] theorem npSum_arr_nil : npSum (.arr []) = .ok (.int 0) := rfl
/-- one more integer in front (for inductions over an array built item by item, e.g. `trueIdx`). -/
theorem npSum_arr_cons_int {l : List PV} {s : Int} (i : Int) (h : npSum (.arr l) = .ok (.int s)) :
    npSum (.arr (.int i :: l)) = .ok (.int (i + s)) := by
  simp only [npSum] at h ⊢
  cases hl : l.mapM PV.asInt? with
  | none => rw [hl] at h; cases h
  | some ks =>
    rw [hl] at h
    injection h with h; injection h with h
    simp only [List.mapM_cons, asInt?_int, hl]
    show Except.ok (PV.int ((i :: ks).foldl (· + ·) 0)) = _
    rw [List.foldl_cons, foldl_add_shift, h]; simp

/-! ### `npArgsort` -/

theorem npArgsort_ints (ks : List Int) :
    npArgsort (.arr (ks.map .int)) = .ok (.arr ((Dsw.argsort ks).map fun (i : Nat) => .int (i : Int))) := by
  simp only [npArgsort, mapM_asInt?_ints]

/-! ### `npArray`, `npZeros` -/

theorem mapM'_npArrayItem_ints (l : List Int) : mapM' npArrayItem (l.map .int) = .ok (l.map .int) :=
  (mapM'_map (emb := PV.int) (g := PV.int) (fun _ _ => rfl))
/-- `numpy.array([ints])`. -/
theorem npArray_list_ints (l : List Int) : npArray (.list (l.map .int)) = .ok (.arr (l.map .int)) := by
  simp only [npArray, mapM'_npArrayItem_ints, R_map_ok]
theorem npArray_list_nats (l : List Nat) :
    npArray (.list (l.map fun (n : Nat) => .int (n : Int))) = .ok (.arr (l.map fun (n : Nat) => .int (n : Int))) := by
  rw [← map_natCast_int, npArray_list_ints]
/-- `numpy.array(bits)` for a Python list of bits. -/
theorem npArray_natsPV (l : List Nat) : npArray (natsPV l) = .ok (bitsPV l) := npArray_list_nats l
@[simp] theorem npArray_arr (l : List PV) : npArray (.arr l) = .ok (.arr l) := rfl
/-- `numpy.array([[ints], …])`. -/
theorem npArray_list_lists (ls : List (List Int)) :
    npArray (.list (ls.map fun l => .list (l.map .int))) = .ok (.arr (ls.map fun l => .arr (l.map .int))) := by
  simp only [npArray]
  rw [mapM'_map (f := npArrayItem) (emb := fun (l : List Int) => PV.list (l.map .int))
    (g := fun (l : List Int) => PV.arr (l.map .int)) (fun _ _ => rfl)]; rfl

theorem npZeros_tup_nat (n : Nat) :
    npZeros (.tup [.int (n : Int)]) = .ok (.arr (List.replicate n (.int 0))) := by
  have : ¬ ((n : Int) < 0) := by omega
  simp [npZeros, this]
theorem npZeros_nat (n : Nat) : npZeros (.int (n : Int)) = .ok (.arr (List.replicate n (.int 0))) := by
  have : ¬ ((n : Int) < 0) := by omega
  simp [npZeros, this]
/-- `numpy.zeros(shape=(L,), dtype=int)` as a bit array. -/
theorem npZeros_bitsPV (n : Nat) : npZeros (.tup [.int (n : Int)]) = .ok (bitsPV (List.replicate n 0)) := by
  rw [npZeros_tup_nat]; simp [bitsPV]

/-! ### `bitsPV` -/

theorem bitsPV_def (bits : List Nat) : bitsPV bits = .arr (bits.map fun (b : Nat) => .int (b : Int)) := rfl
@[simp] theorem pyLen_bitsPV (bits : List Nat) : pyLen (bitsPV bits) = .ok (.int bits.length) := by
  simp [bitsPV]
@[simp] theorem pyIter_bitsPV (bits : List Nat) :
    pyIter (bitsPV bits) = .ok (bits.map fun (b : Nat) => .int (b : Int)) := rfl
theorem pyIndex_bitsPV {bits : List Nat} {i : Nat} (h : i < bits.length) :
    pyIndex (bitsPV bits) (.int i) = .ok (.int ((bits.getD i 0 : Nat) : Int)) := pyIndex_nats_nat h
theorem pyIndex_bitsPV_int {bits : List Nat} {i : Int} (h0 : 0 ≤ i) (h : i < bits.length) :
    pyIndex (bitsPV bits) (.int i) = .ok (.int ((bits.getD i.toNat 0 : Nat) : Int)) := pyIndex_nats_int h0 h
theorem pyIndex_bitsPV_of_ge {bits : List Nat} {i : Int} (h : (bits.length : Int) ≤ i) :
    pyIndex (bitsPV bits) (.int i) = .error .indexError := pyIndex_arr_of_ge (by simpa using h)
theorem pySetItem_bitsPV {bits : List Nat} {i : Nat} (h : i < bits.length) (b : Nat) :
    pySetItem (bitsPV bits) (.int i) (.int b) = .ok (bitsPV (bits.set i b)) := by
  rw [bitsPV, pySetItem_arr_nat (k := (bits.getD i 0 : Nat)) (by simp [h, List.getD_eq_getElem?_getD])]; simp [bitsPV]
theorem pySetItem_bitsPV_int {bits : List Nat} {i : Int} (h0 : 0 ≤ i) (h : i < bits.length) (b : Nat) :
    pySetItem (bitsPV bits) (.int i) (.int b) = .ok (bitsPV (bits.set i.toNat b)) := by
  have h' : i.toNat < bits.length := by omega
  rw [bitsPV, pySetItem_arr_int (k := (bits.getD i.toNat 0 : Nat)) h0 (by simp [h', List.getD_eq_getElem?_getD])]
  simp [bitsPV]
theorem pySetItem_bitsPV_of_ge {bits : List Nat} {i : Int} (h : (bits.length : Int) ≤ i) (x : PV) :
    pySetItem (bitsPV bits) (.int i) x = .error .indexError := pySetItem_arr_of_ge (by simpa using h) x

/-! ## §3 broadcasting: `arrZip`, `npSub` / `npAdd` / `npMul`, `npCmp` -/

@[simp] theorem arrZip_nil (f : PV → PV → RV) : arrZip f [] [] = .ok [] := rfl
theorem arrZip_cons (f : PV → PV → RV) (x y : PV) (xs ys : List PV) :
    arrZip f (x :: xs) (y :: ys) = bnd (f x y) fun z => bnd (arrZip f xs ys) fun zs => .ok (z :: zs) := by
  simp only [arrZip, bnd]
  cases f x y with
  | error e => rfl
  | ok z => cases arrZip f xs ys <;> rfl
@[simp] theorem arrZip_nil_cons (f : PV → PV → RV) (y : PV) (ys : List PV) :
    arrZip f [] (y :: ys) = .error .valueError := rfl
@[simp] theorem arrZip_cons_nil (f : PV → PV → RV) (x : PV) (xs : List PV) :
    arrZip f (x :: xs) [] = .error .valueError := rfl
/-- elementwise operation on two embedded lists of the same length. -/
theorem arrZip_map {α β} {f : PV → PV → RV} {ea : α → PV} {eb : β → PV} {g : α → β → PV}
    (h : ∀ a b, f (ea a) (eb b) = .ok (g a b)) {xs : List α} {ys : List β} (hl : xs.length = ys.length) :
    arrZip f (xs.map ea) (ys.map eb) = .ok (List.zipWith g xs ys) := by
  induction xs generalizing ys with
  | nil => cases ys with
    | nil => rfl
    | cons y ys => simp at hl
  | cons x xs ih => cases ys with
    | nil => simp at hl
    | cons y ys =>
      rw [List.map_cons, List.map_cons, arrZip_cons, h x y, ih (by simpa using hl)]; rfl
/-- shapes that do not broadcast: `ValueError` (when no elementwise operation fails first). -/
theorem arrZip_map_length_ne {α β} {f : PV → PV → RV} {ea : α → PV} {eb : β → PV} {g : α → β → PV}
    (h : ∀ a b, f (ea a) (eb b) = .ok (g a b)) {xs : List α} {ys : List β} (hl : xs.length ≠ ys.length) :
    arrZip f (xs.map ea) (ys.map eb) = .error .valueError := by
  induction xs generalizing ys with
  | nil => cases ys with
    | nil => exact absurd rfl hl
    | cons y ys => rfl
  | cons x xs ih => cases ys with
    | nil => rfl
    | cons y ys =>
      rw [List.map_cons, List.map_cons, arrZip_cons, h x y, ih (by simpa using hl)]; rfl

@[simp] theorem arrBroadcast_arr_arr (f : PV → PV → RV) (xs ys : List PV) :
    arrBroadcast f (.arr xs) (.arr ys) = (arrZip f xs ys).map .arr := rfl
@[simp] theorem arrBroadcast_arr_int (f : PV → PV → RV) (xs : List PV) (b : Int) :
    arrBroadcast f (.arr xs) (.int b) = (mapM' (fun x => f x (.int b)) xs).map .arr := rfl
@[simp] theorem arrBroadcast_int_arr (f : PV → PV → RV) (a : Int) (ys : List PV) :
    arrBroadcast f (.int a) (.arr ys) = (mapM' (fun y => f (.int a) y) ys).map .arr := rfl
@[simp] theorem arrBroadcast_int_int (f : PV → PV → RV) (a b : Int) :
    arrBroadcast f (.int a) (.int b) = f (.int a) (.int b) := rfl

/-- array ∘ array, same length. -/
theorem arrBroadcast_map_map {α β} {f : PV → PV → RV} {ea : α → PV} {eb : β → PV} {g : α → β → PV}
    (h : ∀ a b, f (ea a) (eb b) = .ok (g a b)) {xs : List α} {ys : List β} (hl : xs.length = ys.length) :
    arrBroadcast f (.arr (xs.map ea)) (.arr (ys.map eb)) = .ok (.arr (List.zipWith g xs ys)) := by
  rw [arrBroadcast_arr_arr, arrZip_map h hl]; rfl
/-- array ∘ integer scalar. -/
theorem arrBroadcast_map_int {α} {f : PV → PV → RV} {ea : α → PV} {b : Int} {g : α → PV}
    (h : ∀ a, f (ea a) (.int b) = .ok (g a)) (xs : List α) :
    arrBroadcast f (.arr (xs.map ea)) (.int b) = .ok (.arr (xs.map g)) := by
  rw [arrBroadcast_arr_int, mapM'_map (fun a _ => h a)]; rfl
/-- integer scalar ∘ array. -/
theorem arrBroadcast_int_map {β} {f : PV → PV → RV} {eb : β → PV} {a : Int} {g : β → PV}
    (h : ∀ b, f (.int a) (eb b) = .ok (g b)) (ys : List β) :
    arrBroadcast f (.int a) (.arr (ys.map eb)) = .ok (.arr (ys.map g)) := by
  rw [arrBroadcast_int_arr, mapM'_map (fun b _ => h b)]; rfl

/-! ### scalars -/

@[simp] theorem npSub_int (a b : Int) : npSub (.int a) (.int b) = .ok (.int (a - b)) := rfl
@[simp] theorem npAdd_int (a b : Int) : npAdd (.int a) (.int b) = .ok (.int (a + b)) := rfl
@[simp] theorem npMul_int (a b : Int) : npMul (.int a) (.int b) = .ok (.int (a * b)) := rfl
/-- `dna_sequence + nucleotide`. -/
@[simp] theorem npAdd_str (s t : List Char) : npAdd (.str s) (.str t) = .ok (.str (s ++ t)) := rfl
@[simp] theorem npAdd_list (s t : List PV) : npAdd (.list s) (.list t) = .ok (.list (s ++ t)) := rfl
theorem npSub_nat {a b : Nat} (h : b ≤ a) : npSub (.int a) (.int b) = .ok (.int ((a - b : Nat) : Int)) := by
  simp; omega
/-- `n - 1` with the literal `1`. -/
theorem npSub_nat_one {a : Nat} (h : 1 ≤ a) : npSub (.int a) (.int 1) = .ok (.int ((a - 1 : Nat) : Int)) :=
  npSub_nat (b := 1) h
theorem npAdd_nat (a b : Nat) : npAdd (.int a) (.int b) = .ok (.int ((a + b : Nat) : Int)) := by simp
theorem npMul_nat (a b : Nat) : npMul (.int a) (.int b) = .ok (.int ((a * b : Nat) : Int)) := by simp
/-- the literals of the generated code (`location + 1`, `location + 2`, `bit * 2`). -/
theorem npAdd_nat_one (a : Nat) : npAdd (.int a) (.int 1) = .ok (.int ((a + 1 : Nat) : Int)) := npAdd_nat a 1
theorem npAdd_nat_two (a : Nat) : npAdd (.int a) (.int 2) = .ok (.int ((a + 2 : Nat) : Int)) := npAdd_nat a 2
theorem npMul_nat_two (a : Nat) : npMul (.int a) (.int 2) = .ok (.int ((a * 2 : Nat) : Int)) := npMul_nat a 2

/-! ### integer arrays -/

theorem npSub_ints_ints {xs ys : List Int} (hl : xs.length = ys.length) :
    npSub (.arr (xs.map .int)) (.arr (ys.map .int)) = .ok (.arr ((List.zipWith (· - ·) xs ys).map .int)) := by
  rw [npSub, arrBroadcast_map_map (g := fun a b => PV.int (a - b)) (fun _ _ => rfl) hl, List.map_zipWith]
theorem npAdd_ints_ints {xs ys : List Int} (hl : xs.length = ys.length) :
    npAdd (.arr (xs.map .int)) (.arr (ys.map .int)) = .ok (.arr ((List.zipWith (· + ·) xs ys).map .int)) := by
  rw [npAdd, arrBroadcast_map_map (g := fun a b => PV.int (a + b)) (fun _ _ => rfl) hl, List.map_zipWith]
theorem npMul_ints_ints {xs ys : List Int} (hl : xs.length = ys.length) :
    npMul (.arr (xs.map .int)) (.arr (ys.map .int)) = .ok (.arr ((List.zipWith (· * ·) xs ys).map .int)) := by
  rw [npMul, arrBroadcast_map_map (g := fun a b => PV.int (a * b)) (fun _ _ => rfl) hl, List.map_zipWith]
/-- the same on embedded naturals (the difference is an integer). -/
theorem npSub_nats_nats {xs ys : List Nat} (hl : xs.length = ys.length) :
    npSub (.arr (xs.map fun (n : Nat) => .int (n : Int))) (.arr (ys.map fun (n : Nat) => .int (n : Int))) =
      .ok (.arr ((List.zipWith (fun (a b : Nat) => (a : Int) - (b : Int)) xs ys).map .int)) := by
  rw [npSub, arrBroadcast_map_map (g := fun (a b : Nat) => PV.int ((a : Int) - (b : Int))) (fun _ _ => rfl) hl,
    List.map_zipWith]
theorem npSub_ints_int (xs : List Int) (b : Int) :
    npSub (.arr (xs.map .int)) (.int b) = .ok (.arr ((xs.map (· - b)).map .int)) := by
  rw [npSub, arrBroadcast_map_int (g := fun a => PV.int (a - b)) (fun _ => rfl), List.map_map]; rfl
theorem npAdd_ints_int (xs : List Int) (b : Int) :
    npAdd (.arr (xs.map .int)) (.int b) = .ok (.arr ((xs.map (· + b)).map .int)) := by
  rw [npAdd, arrBroadcast_map_int (g := fun a => PV.int (a + b)) (fun _ => rfl), List.map_map]; rfl
theorem npMul_ints_int (xs : List Int) (b : Int) :
    npMul (.arr (xs.map .int)) (.int b) = .ok (.arr ((xs.map (· * b)).map .int)) := by
  rw [npMul, arrBroadcast_map_int (g := fun a => PV.int (a * b)) (fun _ => rfl), List.map_map]; rfl

/-! ### comparisons -/

@[simp] theorem liftCmp_def (c : PV → PV → R Bool) (a b : PV) : liftCmp c a b = (c a b).map .bool := rfl
/-- on an integer / boolean item of an array `cmpItem` is `liftCmp` (only a row broadcasts once more). -/
@[simp] theorem cmpItem_int (c : PV → PV → R Bool) (a : Int) (y : PV) :
    cmpItem c (.int a) y = liftCmp c (.int a) y := rfl
@[simp] theorem cmpItem_bool (c : PV → PV → R Bool) (a : Bool) (y : PV) :
    cmpItem c (.bool a) y = liftCmp c (.bool a) y := rfl
@[simp] theorem cmpItem_str (c : PV → PV → R Bool) (a : List Char) (y : PV) :
    cmpItem c (.str a) y = liftCmp c (.str a) y := rfl
/-- on scalars `npCmp` is the Python comparison (as a `bool` value). -/
@[simp] theorem npCmp_int_int (c : PV → PV → R Bool) (a b : Int) :
    npCmp c (.int a) (.int b) = (c (.int a) (.int b)).map .bool := rfl
@[simp] theorem npCmp_str_str (c : PV → PV → R Bool) (s t : List Char) :
    npCmp c (.str s) (.str t) = (c (.str s) (.str t)).map .bool := rfl
theorem npCmp_pyGt_nat (a b : Nat) : npCmp pyGt (.int a) (.int b) = .ok (.bool (decide (b < a))) := by simp
/-- `radix > 1` with the literal `1`. -/
theorem npCmp_pyGt_nat_one (a : Nat) : npCmp pyGt (.int a) (.int 1) = .ok (.bool (decide (1 < a))) :=
  npCmp_pyGt_nat a 1

/-- an integer array against an integer: an array of bools. -/
theorem npCmp_ints_int {c : PV → PV → R Bool} {b : Int} {p : Int → Bool}
    (h : ∀ x, c (.int x) (.int b) = .ok (p x)) (xs : List Int) :
    npCmp c (.arr (xs.map .int)) (.int b) = .ok (.arr (xs.map fun x => .bool (p x))) := by
  rw [npCmp, arrBroadcast_map_int (g := fun x => PV.bool (p x))]
  intro x; rw [cmpItem_int, liftCmp_def, h]; rfl
theorem npCmp_nats_int {c : PV → PV → R Bool} {b : Int} {p : Nat → Bool}
    (h : ∀ x : Nat, c (.int x) (.int b) = .ok (p x)) (xs : List Nat) :
    npCmp c (.arr (xs.map fun (n : Nat) => .int (n : Int))) (.int b) = .ok (.arr (xs.map fun x => .bool (p x))) := by
  rw [npCmp, arrBroadcast_map_int (g := fun x => PV.bool (p x))]
  intro x; rw [cmpItem_int, liftCmp_def, h]; rfl
theorem npCmp_pyGe_ints_int (xs : List Int) (b : Int) :
    npCmp pyGe (.arr (xs.map .int)) (.int b) = .ok (.arr (xs.map fun x => .bool (decide (b ≤ x)))) :=
  npCmp_ints_int (fun _ => rfl) xs
theorem npCmp_pyGt_ints_int (xs : List Int) (b : Int) :
    npCmp pyGt (.arr (xs.map .int)) (.int b) = .ok (.arr (xs.map fun x => .bool (decide (b < x)))) :=
  npCmp_ints_int (fun _ => rfl) xs
theorem npCmp_pyLe_ints_int (xs : List Int) (b : Int) :
    npCmp pyLe (.arr (xs.map .int)) (.int b) = .ok (.arr (xs.map fun x => .bool (decide (x ≤ b)))) :=
  npCmp_ints_int (fun _ => rfl) xs
theorem npCmp_pyLt_ints_int (xs : List Int) (b : Int) :
    npCmp pyLt (.arr (xs.map .int)) (.int b) = .ok (.arr (xs.map fun x => .bool (decide (x < b)))) :=
  npCmp_ints_int (fun _ => rfl) xs
theorem npCmp_pyEq_ints_int (xs : List Int) (b : Int) :
    npCmp pyEq (.arr (xs.map .int)) (.int b) = .ok (.arr (xs.map fun x => .bool (x == b))) :=
  npCmp_ints_int (fun x => by simp) xs
theorem natCast_beq (x b : Nat) : ((x : Int) == (b : Int)) = (x == b) := by
  rw [Bool.eq_iff_iff]; simp only [beq_iff_eq]; omega
/-- `argsort(...) == position` on embedded naturals. -/
theorem npCmp_pyEq_nats_nat (xs : List Nat) (b : Nat) :
    npCmp pyEq (.arr (xs.map fun (n : Nat) => .int (n : Int))) (.int b) =
      .ok (.arr (xs.map fun x => .bool (x == b))) :=
  npCmp_nats_int (fun x => by rw [pyEq_def, eqb_int, natCast_beq]) xs

/-! ## §4 `trueIdx` / `npWhere` -/

@[simp] theorem trueIdx_nil (i : Nat) : trueIdx [] i = [] := rfl
theorem trueIdx_cons (x : PV) (xs : List PV) (i : Nat) :
    trueIdx (x :: xs) i = if x.truthy then .int i :: trueIdx xs (i + 1) else trueIdx xs (i + 1) := rfl
@[simp] theorem trueIdx_cons_bool (b : Bool) (xs : List PV) (i : Nat) :
    trueIdx (.bool b :: xs) i = if b then .int i :: trueIdx xs (i + 1) else trueIdx xs (i + 1) := rfl

/-- `where` of a one-dimensional array (no item is a row). -/
@[simp] theorem npWhere_arr {l : List PV} (h : l.any PV.isArr = false) :
    npWhere (.arr l) = .ok (.tup [.arr (trueIdx l 0)]) := by
  simp only [npWhere, h, Bool.false_eq_true, if_false]
/-- … of an array of bools computed from a list (the shape every comparison produces). -/
@[simp] theorem npWhere_arr_map_bool {α} (p : α → Bool) (l : List α) :
    npWhere (.arr (l.map fun x => .bool (p x))) = .ok (.tup [.arr (trueIdx (l.map fun x => .bool (p x)) 0)]) :=
  npWhere_arr (any_isArr_map_bool p l)
@[simp] theorem npWhere_arr_map_bool' (l : List Bool) :
    npWhere (.arr (l.map .bool)) = .ok (.tup [.arr (trueIdx (l.map .bool) 0)]) :=
  npWhere_arr (any_isArr_map_bool' l)
/-- `where(cond)[0]`. -/
theorem npWhere_zero {l : List PV} (h : l.any PV.isArr = false) :
    (bnd (npWhere (.arr l)) fun t => pyIndex t (.int 0)) = .ok (.arr (trueIdx l 0)) := by
  rw [npWhere_arr h]; rfl

/-- the indices of the truthy entries, as a filter of the positions. -/
theorem trueIdx_eq_filter_range {l : List PV} (q : Nat → Bool)
    (hq : ∀ (j : Nat) (h : j < l.length), l[j].truthy = q j) (i : Nat) :
    trueIdx l i = ((List.range l.length).filter q).map fun (j : Nat) => PV.int ((i + j : Nat) : Int) := by
  induction l generalizing q i with
  | nil => rfl
  | cons x xs ih =>
    have h0 : x.truthy = q 0 := hq 0 (by simp)
    have ih' := ih (fun j => q (j + 1)) (fun j h => hq (j + 1) (by simpa using h)) (i + 1)
    rw [trueIdx_cons, ih', h0, List.length_cons, List.range_succ_eq_map, List.filter_cons, List.filter_map]
    have hm : (List.map (fun (j : Nat) => PV.int ((i + 1 + j : Nat) : Int))
          (List.filter (fun j => q (j + 1)) (List.range xs.length))) =
        List.map (fun (j : Nat) => PV.int ((i + j : Nat) : Int))
          (List.map Nat.succ (List.filter (q ∘ Nat.succ) (List.range xs.length))) := by
      rw [List.map_map]
      apply List.map_congr_left
      intro j _
      simp only [Function.comp, Nat.succ_eq_add_one]
      congr 2; omega
    rw [hm]
    cases q 0 <;> simp
/-- an array of bools computed from a list. -/
theorem trueIdx_map_bool {α} (p : α → Bool) (l : List α) (d : α) (i : Nat) :
    trueIdx (l.map fun x => .bool (p x)) i =
      ((List.range l.length).filter fun j => p (l.getD j d)).map fun (j : Nat) => PV.int ((i + j : Nat) : Int) := by
  have := trueIdx_eq_filter_range (l := l.map fun x => PV.bool (p x)) (fun j => p (l.getD j d))
    (fun j h => by
      have h' : j < l.length := by simpa using h
      simp [List.getD_eq_getElem?_getD, List.getElem?_eq_getElem h']) i
  simpa using this
/-- `where(bools)[0]` as an array of naturals. -/
theorem npWhere_map_bool {α} (p : α → Bool) (l : List α) (d : α) :
    (bnd (npWhere (.arr (l.map fun x => .bool (p x)))) fun t => pyIndex t (.int 0)) =
      .ok (.arr (((List.range l.length).filter fun j => p (l.getD j d)).map fun (j : Nat) => PV.int (j : Int))) := by
  rw [npWhere_zero (any_isArr_map_bool p l), trueIdx_map_bool p l d 0]; simp

/-- `where(arr == p)[0]` starts with the first position of `p`. -/
theorem trueIdx_beq_of_mem {l : List Nat} {p : Nat} (h : p ∈ l) (i : Nat) :
    ∃ rest, trueIdx (l.map fun x => .bool (x == p)) i = .int ((i + l.idxOf p : Nat) : Int) :: rest := by
  induction l generalizing i with
  | nil => simp at h
  | cons x xs ih =>
    by_cases hx : x = p
    · subst hx
      exact ⟨trueIdx (xs.map fun y => .bool (y == x)) (i + 1), by simp⟩
    · have hm : p ∈ xs := by
        rcases List.mem_cons.mp h with h | h
        · exact absurd h.symm hx
        · exact h
      obtain ⟨rest, hr⟩ := ih hm (i + 1)
      refine ⟨rest, ?_⟩
      have hb : (x == p) = false := by simpa using hx
      rw [List.map_cons, trueIdx_cons_bool, hb, hr, list_idxOf_cons_ne _ hx]
      simp only [Bool.false_eq_true, if_false]
      congr 3; omega
theorem trueIdx_beq_of_not_mem {l : List Nat} {p : Nat} (h : p ∉ l) (i : Nat) :
    trueIdx (l.map fun x => .bool (x == p)) i = [] := by
  induction l generalizing i with
  | nil => rfl
  | cons x xs ih =>
    have hx : x ≠ p := fun e => h (by simp [e])
    have hb : (x == p) = false := by simpa using hx
    rw [List.map_cons, trueIdx_cons_bool, hb, ih (fun hm => h (by simp [hm]))]; rfl
/-- the idiom `where(arr == p)[0][0]`: the first position of `p`. -/
theorem where_eq_first {l : List Nat} {p : Nat} (h : p ∈ l) :
    (bnd (bnd (bnd (npCmp pyEq (.arr (l.map fun (n : Nat) => .int (n : Int))) (.int p)) fun t => npWhere t)
        fun t => pyIndex t (.int 0)) fun t => pyIndex t (.int 0)) = .ok (.int ((l.idxOf p : Nat) : Int)) := by
  obtain ⟨rest, hr⟩ := trueIdx_beq_of_mem h 0
  rw [npCmp_pyEq_nats_nat]
  simp only [bnd_ok, npWhere_arr_map_bool, pyIndex_tup_cons_zero, hr, pyIndex_arr_cons_zero, Nat.zero_add]
/-- … `IndexError` when `p` does not occur. -/
theorem where_eq_first_of_not_mem {l : List Nat} {p : Nat} (h : p ∉ l) :
    (bnd (bnd (bnd (npCmp pyEq (.arr (l.map fun (n : Nat) => .int (n : Int))) (.int p)) fun t => npWhere t)
        fun t => pyIndex t (.int 0)) fun t => pyIndex t (.int 0)) = .error .indexError := by
  rw [npCmp_pyEq_nats_nat]
  simp only [bnd_ok, npWhere_arr_map_bool, pyIndex_tup_cons_zero, trueIdx_beq_of_not_mem h 0, pyIndex_arr_nil]

/-! ## §5 accessors and shuffle tables -/

/-- a row of an accessor / of a shuffle table as the one-dimensional integer array the code sees. -/
def rowPV (r : Array Int) : PV := .arr (r.toList.map .int)

theorem accPV_eq (a : Acc) : accPV a = .arr (a.toList.map rowPV) := rfl
theorem tblPV_some (t : Tbl) : tblPV (some t) = accPV t := rfl
@[simp] theorem tblPV_none : tblPV Option.none = .none := rfl
@[simp] theorem pyLen_accPV (a : Acc) : pyLen (accPV a) = .ok (.int a.size) := by simp [accPV]
@[simp] theorem pyLen_rowPV (r : Array Int) : pyLen (rowPV r) = .ok (.int r.size) := by simp [rowPV]

/-! ### rows -/

/-- `accessor[v]` for a row index given as a non-negative integer. -/
theorem row_of_nonneg {a : Acc} {v : Int} (h0 : 0 ≤ v) (hv : v < a.size) : a.row v = a.getD v.toNat #[] := by
  have h1 : ¬ (v < 0) := by omega
  simp only [Acc.row, h1, if_false, h0, hv, and_self, if_true]
theorem row_natCast {a : Acc} {v : Nat} (hv : v < a.size) : a.row (v : Int) = a.getD v #[] := by
  rw [row_of_nonneg (by omega) (by omega)]; rfl
theorem row_mem_toList {a : Acc} {v : Int} (h0 : 0 ≤ v) (hv : v < a.size) : a.row v ∈ a.toList := by
  have h : v.toNat < a.size := by omega
  rw [row_of_nonneg h0 hv, Array.getD_eq_getD_getElem?, Array.getElem?_eq_getElem h, Option.getD_some]
  exact Array.mem_toList_iff.mpr (Array.getElem_mem h)

/-- `accessor[v]` for any integer `v` (negative indices wrap once, as in `Acc.row`). -/
theorem pyIndex_accPV (a : Acc) (v : Int) :
    pyIndex (accPV a) (.int v) =
      if -(a.size : Int) ≤ v ∧ v < a.size then .ok (rowPV (a.row v)) else .error .indexError := by
  rw [accPV_eq, pyIndex_arr_eq, normIndex_eq, List.length_map, Array.length_toList]
  by_cases h : -(a.size : Int) ≤ v ∧ v < a.size
  · rw [if_pos h, if_pos h]
    have hj : (if v < 0 then v + a.size else v).toNat < a.size := by split <;> omega
    have hr : a.row v = a.getD (if v < 0 then v + a.size else v).toNat #[] := by
      have h2 : 0 ≤ (if v < 0 then v + (a.size : Int) else v) ∧ (if v < 0 then v + (a.size : Int) else v) < a.size := by
        split <;> omega
      simp only [Acc.row, h2, and_self, if_true]
    simp only [hr, List.getD_eq_getElem?_getD, List.getElem?_map, Array.getElem?_toList,
      Array.getD_eq_getD_getElem?, Array.getElem?_eq_getElem hj, Option.map_some, Option.getD_some]
  · rw [if_neg h, if_neg h]
theorem pyIndex_accPV_of_nonneg {a : Acc} {v : Int} (h0 : 0 ≤ v) (hv : v < a.size) :
    pyIndex (accPV a) (.int v) = .ok (rowPV (a.row v)) := by
  rw [pyIndex_accPV, if_pos (by omega)]
theorem pyIndex_accPV_nat {a : Acc} {v : Nat} (hv : v < a.size) :
    pyIndex (accPV a) (.int v) = .ok (rowPV (a.row v)) :=
  pyIndex_accPV_of_nonneg (by omega) (by omega)
theorem pyIndex_accPV_of_ge {a : Acc} {v : Int} (hv : (a.size : Int) ≤ v) :
    pyIndex (accPV a) (.int v) = .error .indexError := by
  rw [pyIndex_accPV, if_neg (by omega)]

/-! ### entries -/

theorem getD_toList_map_int (r : Array Int) (j : Nat) (d : Int) :
    (r.toList.map PV.int).getD j .none = if j < r.size then .int (r.getD j d) else .none := by
  rw [getD_map_int r.toList j d, Array.length_toList]
  by_cases h : j < r.size
  · simp [h, List.getD_eq_getElem?_getD, Array.getD_eq_getD_getElem?]
  · simp [h]
/-- `row[j]`. The default `d` is free: `-1` gives `Acc.ent`, `0` the keys of `Tbl.keys`. -/
theorem pyIndex_rowPV {r : Array Int} {j : Nat} (h : j < r.size) (d : Int) :
    pyIndex (rowPV r) (.int j) = .ok (.int (r.getD j d)) := by
  rw [rowPV, pyIndex_arr_getD (by simpa using h), getD_toList_map_int r j d, if_pos h]
theorem pyIndex_rowPV_int {r : Array Int} {j : Int} (h0 : 0 ≤ j) (h : j < r.size) (d : Int) :
    pyIndex (rowPV r) (.int j) = .ok (.int (r.getD j.toNat d)) := by
  have := pyIndex_rowPV (r := r) (j := j.toNat) (by omega) d
  rwa [Int.toNat_of_nonneg h0] at this
theorem pyIndex_rowPV_of_ge {r : Array Int} {j : Int} (h : (r.size : Int) ≤ j) :
    pyIndex (rowPV r) (.int j) = .error .indexError :=
  pyIndex_arr_of_ge (by simpa using h)
/-- `accessor[v][j]` is `Acc.ent`. -/
theorem pyIndex_row_ent {a : Acc} {v : Int} {j : Nat} (h : j < (a.row v).size) :
    pyIndex (rowPV (a.row v)) (.int j) = .ok (.int (a.ent v j)) := pyIndex_rowPV h (-1)

/-! ### well-formed accessors -/

theorem _root_.Dsw.Acc.WF.row_size {a : Acc} (ha : a.WF) {v : Int} (h0 : 0 ≤ v) (hv : v < a.size) :
    (a.row v).size = 4 := by
  rw [row_of_nonneg h0 hv]; exact (ha v.toNat (by omega)).1
/-- an entry is `-1` or a row index. -/
theorem _root_.Dsw.Acc.WF.ent_cases {a : Acc} (ha : a.WF) {v : Int} (h0 : 0 ≤ v) (hv : v < a.size) {j : Nat}
    (hj : j < 4) : a.ent v j = -1 ∨ (0 ≤ a.ent v j ∧ a.ent v j < a.size) := by
  rw [Acc.ent, row_of_nonneg h0 hv]; exact (ha v.toNat (by omega)).2 j hj
/-- the successor through a live column is a row index again (the loop invariant of the walks). -/
theorem _root_.Dsw.Acc.WF.ent_of_live {a : Acc} (ha : a.WF) {v : Int} (h0 : 0 ≤ v) (hv : v < a.size) {j : Nat}
    (hj : j ∈ a.live v) : 0 ≤ a.ent v j ∧ a.ent v j < a.size := by
  obtain ⟨h4, hge⟩ := (mem_live_iff a v j).1 hj
  rcases ha.ent_cases h0 hv h4 with h | h
  · omega
  · exact h
/-- a non-negative entry is a row index. -/
theorem _root_.Dsw.Acc.WF.ent_lt {a : Acc} (ha : a.WF) {v : Int} (h0 : 0 ≤ v) (hv : v < a.size) {j : Nat}
    (hj : j < 4) (hge : 0 ≤ a.ent v j) : a.ent v j < a.size := by
  rcases ha.ent_cases h0 hv hj with h | h
  · omega
  · exact h.2
/-- the row of a well-formed accessor, spelled out. -/
theorem _root_.Dsw.Acc.WF.row_toList {a : Acc} (ha : a.WF) {v : Int} (h0 : 0 ≤ v) (hv : v < a.size) :
    (a.row v).toList = [a.ent v 0, a.ent v 1, a.ent v 2, a.ent v 3] := by
  have hs := ha.row_size h0 hv
  apply List.ext_getElem (by simpa using hs)
  intro j h1 h2
  have hj : j < (a.row v).size := by simpa using h1
  have : j = 0 ∨ j = 1 ∨ j = 2 ∨ j = 3 := by omega
  rcases this with rfl | rfl | rfl | rfl <;> simp [Acc.ent, Array.getD_eq_getD_getElem?, hj]
theorem _root_.Dsw.Acc.WF.rowPV_eq {a : Acc} (ha : a.WF) {v : Int} (h0 : 0 ≤ v) (hv : v < a.size) :
    rowPV (a.row v) = .arr [.int (a.ent v 0), .int (a.ent v 1), .int (a.ent v 2), .int (a.ent v 3)] := by
  rw [rowPV, ha.row_toList h0 hv]; rfl

/-- the live columns as the array `used_indices`. -/
theorem live_eq_filter_row (a : Acc) (v : Int) :
    a.live v = (List.range 4).filter fun j => decide (0 ≤ [a.ent v 0, a.ent v 1, a.ent v 2, a.ent v 3].getD j 0) := by
  unfold Acc.live
  apply List.filter_congr
  intro j hj
  have : j = 0 ∨ j = 1 ∨ j = 2 ∨ j = 3 := by have := List.mem_range.mp hj; omega
  rcases this with rfl | rfl | rfl | rfl <;> rfl

/-- the idiom `where(accessor[v] >= 0)[0]`: the live columns `Acc.live a v`. -/
theorem where_row_ge_zero {a : Acc} (ha : a.WF) {v : Int} (h0 : 0 ≤ v) (hv : v < a.size) :
    (bnd (bnd (bnd (pyIndex (accPV a) (.int v)) fun t => npCmp pyGe t (.int 0)) fun t => npWhere t)
        fun t => pyIndex t (.int 0)) = .ok (.arr ((a.live v).map fun (j : Nat) => .int (j : Int))) := by
  rw [pyIndex_accPV_of_nonneg h0 hv, bnd_ok, rowPV, ha.row_toList h0 hv, npCmp_pyGe_ints_int, bnd_ok,
    npWhere_map_bool (fun x => decide ((0 : Int) ≤ x)) _ 0, live_eq_filter_row]
  rfl
/-- the idiom `accessor[v][j]`. -/
theorem acc_index_index {a : Acc} (ha : a.WF) {v : Int} (h0 : 0 ≤ v) (hv : v < a.size) {j : Nat} (hj : j < 4) :
    (bnd (pyIndex (accPV a) (.int v)) fun t => pyIndex t (.int j)) = .ok (.int (a.ent v j)) := by
  rw [pyIndex_accPV_of_nonneg h0 hv, bnd_ok, pyIndex_row_ent (by rw [ha.row_size h0 hv]; exact hj)]
/-- `a[v, j]` with an integer column. -/
theorem npIndex2_accPV_int {a : Acc} {v : Int} (h0 : 0 ≤ v) (hv : v < a.size) {j : Nat}
    (hj : j < (a.row v).size) : npIndex2 (accPV a) (.int v) (.int j) = .ok (.int (a.ent v j)) := by
  simp only [npIndex2, pyIndex_accPV_of_nonneg h0 hv, pyIndex_row_ent hj]

/-! ### shuffle tables -/

/-- `shuffles[v, used_indices]` (gather): the keys `Tbl.keys`. -/
theorem npIndex2_accPV_arr {t : Tbl} {v : Int} (h0 : 0 ≤ v) (hv : v < t.size) {used : List Nat}
    (hu : ∀ j ∈ used, j < (Acc.row t v).size) :
    npIndex2 (accPV t) (.int v) (.arr (used.map fun (j : Nat) => .int (j : Int))) =
      .ok (.arr ((t.keys v used).map .int)) := by
  simp only [npIndex2, pyIndex_accPV_of_nonneg h0 hv]
  rw [mapM'_map (g := fun j => PV.int ((Acc.row t v).getD j 0)) (fun j hj => pyIndex_rowPV (hu j hj) 0)]
  simp [Tbl.keys]
theorem _root_.Dsw.Tie.TblOK.lt_size {t : Tbl} {a : Acc} (ht : TblOK (some t) a) {v : Int} (hv : v < a.size) :
    v < t.size := by
  have := (ht t rfl).1; omega
theorem _root_.Dsw.Tie.TblOK.row_size {t : Tbl} {a : Acc} (ht : TblOK (some t) a) {v : Int} (h0 : 0 ≤ v)
    (hv : v < a.size) : (Acc.row t v).size = 4 :=
  (ht t rfl).2 _ (row_mem_toList h0 (ht.lt_size hv))
theorem TblOK_none (a : Acc) : TblOK Option.none a := fun _ h => by cases h

/-- `shuffles[v, used_indices]` under `TblOK`. -/
theorem shuffles_gather {t : Tbl} {a : Acc} (ht : TblOK (some t) a) {v : Int} (h0 : 0 ≤ v) (hv : v < a.size)
    {used : List Nat} (hu : ∀ j ∈ used, j < 4) :
    npIndex2 (tblPV (some t)) (.int v) (.arr (used.map fun (j : Nat) => .int (j : Int))) =
      .ok (.arr ((t.keys v used).map .int)) :=
  npIndex2_accPV_arr h0 (ht.lt_size hv) (fun j hj => by rw [ht.row_size h0 hv]; exact hu j hj)
/-- the idiom `argsort(shuffles[v, used_indices])`. -/
theorem shuffles_argsort {t : Tbl} {a : Acc} (ht : TblOK (some t) a) {v : Int} (h0 : 0 ≤ v) (hv : v < a.size)
    {used : List Nat} (hu : ∀ j ∈ used, j < 4) :
    (bnd (npIndex2 (tblPV (some t)) (.int v) (.arr (used.map fun (j : Nat) => .int (j : Int)))) fun k => npArgsort k) =
      .ok (.arr ((argsort (t.keys v used)).map fun (i : Nat) => .int (i : Int))) := by
  rw [shuffles_gather ht h0 hv hu, bnd_ok, npArgsort_ints]
/-- the idiom `argsort(shuffles[v, used_indices])[d]`: `digitToPos`. -/
theorem shuffles_digitToPos {t : Tbl} {a : Acc} (ht : TblOK (some t) a) {v : Int} (h0 : 0 ≤ v) (hv : v < a.size)
    {used : List Nat} (hu : ∀ j ∈ used, j < 4) {d : Nat} (hd : d < used.length) :
    (bnd (bnd (npIndex2 (tblPV (some t)) (.int v) (.arr (used.map fun (j : Nat) => .int (j : Int))))
        fun k => npArgsort k) fun k => pyIndex k (.int d)) =
      .ok (.int ((digitToPos (some t) v used d : Nat) : Int)) := by
  rw [shuffles_argsort ht h0 hv hu, bnd_ok,
    pyIndex_nats_nat (by rw [argsort_length, keys_length]; exact hd)]
  rfl
/-- the idiom `where(argsort(shuffles[v, used_indices]) == p)[0][0]`: `posToDigit`. -/
theorem shuffles_posToDigit {t : Tbl} {a : Acc} (ht : TblOK (some t) a) {v : Int} (h0 : 0 ≤ v) (hv : v < a.size)
    {used : List Nat} (hu : ∀ j ∈ used, j < 4) {p : Nat} (hp : p < used.length) :
    (bnd (bnd (bnd (bnd (bnd (npIndex2 (tblPV (some t)) (.int v) (.arr (used.map fun (j : Nat) => .int (j : Int))))
        fun k => npArgsort k) fun k => npCmp pyEq k (.int p)) fun k => npWhere k) fun k => pyIndex k (.int 0))
        fun k => pyIndex k (.int 0)) =
      .ok (.int ((posToDigit (some t) v used p : Nat) : Int)) := by
  rw [shuffles_argsort ht h0 hv hu, bnd_ok,
    where_eq_first ((mem_argsort _ _).2 (by rw [keys_length]; exact hp))]
  rfl

/-! ## §6 `None` tests, nucleotide columns, powers -/

/-! ### `x is None` -/

@[simp] theorem pyIsNone_none : pyIsNone .none = true := rfl
@[simp] theorem pyIsNone_int (i : Int) : pyIsNone (.int i) = false := rfl
@[simp] theorem pyIsNone_str (s : List Char) : pyIsNone (.str s) = false := rfl
@[simp] theorem pyIsNone_list (l : List PV) : pyIsNone (.list l) = false := rfl
@[simp] theorem pyIsNone_tup (l : List PV) : pyIsNone (.tup l) = false := rfl
@[simp] theorem pyIsNone_bool (b : Bool) : pyIsNone (.bool b) = false := rfl
@[simp] theorem pyIsNone_arr (l : List PV) : pyIsNone (.arr l) = false := rfl
@[simp] theorem pyIsNone_accPV (a : Acc) : pyIsNone (accPV a) = false := rfl
@[simp] theorem pyIsNone_bitsPV (l : List Nat) : pyIsNone (bitsPV l) = false := rfl
/-- `shuffles is not None`. -/
theorem pyIsNone_tblPV (tbl : Option Tbl) : pyIsNone (tblPV tbl) = tbl.isNone := by cases tbl <;> rfl
/-- `vt_check is not None`. -/
theorem pyIsNone_chkPV (chk : Option (List Char)) : pyIsNone (chkPV chk) = chk.isNone := by cases chk <;> rfl
@[simp] theorem chkPV_none : chkPV Option.none = .none := rfl
@[simp] theorem chkPV_some (c : List Char) : chkPV (some c) = .str c := rfl

/-! ### nucleotide columns -/

/-- `==` on one-character strings. -/
theorem eqb_char_str (c d : Char) : PV.eqb (.str [c]) (.str [d]) = decide (c = d) := by
  by_cases h : c = d <;> simp [h]
theorem nucIdx_nucChar {j : Nat} (h : j < 4) : nucIdx (nucChar j) = some j := by
  have : j = 0 ∨ j = 1 ∨ j = 2 ∨ j = 3 := by omega
  rcases this with rfl | rfl | rfl | rfl <;> rfl
theorem nucChar_inj {i j : Nat} (hi : i < 4) (hj : j < 4) : nucChar i = nucChar j ↔ i = j := by
  constructor
  · intro h
    have := congrArg nucIdx h
    rw [nucIdx_nucChar hi, nucIdx_nucChar hj] at this
    exact Option.some.inj this
  · intro h; rw [h]
/-- a letter outside `ACGT` is no `nucChar`. -/
theorem nucChar_ne_of_nucIdx_none {c : Char} (h : nucIdx c = Option.none) {j : Nat} (hj : j < 4) :
    nucChar j ≠ c := by
  intro he; rw [← he, nucIdx_nucChar hj] at h; cases h

@[simp] theorem pyIndexOf_str (s : List Char) (x : PV) : pyIndexOf (.str s) x = pyStrIndex (.str s) x := rfl
/-- `nucleotides.index(c)`. -/
theorem pyIndexOf_ACGT (c : Char) :
    pyIndexOf (.str ['A', 'C', 'G', 'T']) (.str [c]) =
      match nucIdx c with
      | some j => .ok (.int j)
      | Option.none => .error .valueError := pyStrIndex_ACGT c
theorem pyIndexOf_ACGT_of_some {c : Char} {j : Nat} (h : nucIdx c = some j) :
    pyIndexOf (.str ['A', 'C', 'G', 'T']) (.str [c]) = .ok (.int j) := pyStrIndex_ACGT_of_some h
theorem pyIndexOf_ACGT_of_none {c : Char} (h : nucIdx c = Option.none) :
    pyIndexOf (.str ['A', 'C', 'G', 'T']) (.str [c]) = .error .valueError := pyStrIndex_ACGT_of_none h
/-- `nucleotides[j]` for a column given as an integer entry. -/
theorem pyIndex_ACGT_int {j : Int} (h0 : 0 ≤ j) (h : j < 4) :
    pyIndex (.str ['A', 'C', 'G', 'T']) (.int j) = .ok (.str [nucChar j.toNat]) := by
  have := pyIndex_ACGT (j := j.toNat) (by omega)
  rwa [Int.toNat_of_nonneg h0] at this

/-- `[nucleotides[i] for i in used_indices]`. -/
theorem pyMap_nucs {used : List Nat} (hu : ∀ j ∈ used, j < 4) :
    pyMap (fun it => pyIndex (.str ['A', 'C', 'G', 'T']) it) (.arr (used.map fun (j : Nat) => .int (j : Int))) =
      .ok (.list (used.map fun j => .str [nucChar j])) :=
  pyMap_arr_map (fun j hj => pyIndex_ACGT (hu j hj))

@[simp] theorem findIdxEq_nil (x : PV) (i : Nat) : findIdxEq x [] i = Option.none := rfl
theorem findIdxEq_cons (x y : PV) (ys : List PV) (i : Nat) :
    findIdxEq x (y :: ys) i = if PV.eqb y x then some i else findIdxEq x ys (i + 1) := rfl
/-- first position of a letter in a list of one-letter strings. -/
theorem findIdxEq_chars (c : Char) (cs : List Char) (i : Nat) :
    findIdxEq (.str [c]) (cs.map fun d => .str [d]) i = if c ∈ cs then some (i + cs.idxOf c) else Option.none := by
  induction cs generalizing i with
  | nil => rfl
  | cons d r ih =>
    rw [List.map_cons, findIdxEq_cons, eqb_char_str, ih]
    by_cases hd : d = c
    · subst hd; simp
    · have hne : ¬ c = d := fun e => hd e.symm
      have hb : (d == c) = false := by simpa using hd
      simp only [hd, decide_false, Bool.false_eq_true, if_false, List.mem_cons, hne, false_or,
        List.idxOf_cons, hb, cond_false]
      split
      · congr 1; omega
      · rfl
/-- `x in letters` for a list of one-letter strings. -/
theorem pyIn_chars (c : Char) (cs : List Char) :
    pyIn (.str [c]) (.list (cs.map fun d => .str [d])) = .ok (decide (c ∈ cs)) := by
  simp only [pyIn, findIdxEq_chars]
  by_cases h : c ∈ cs <;> simp [h]
theorem pyIndexOf_chars_of_mem {c : Char} {cs : List Char} (h : c ∈ cs) :
    pyIndexOf (.list (cs.map fun d => .str [d])) (.str [c]) = .ok (.int ((cs.idxOf c : Nat) : Int)) := by
  simp only [pyIndexOf, findIdxEq_chars, h, if_true, Nat.zero_add]
theorem pyIndexOf_chars_of_not_mem {c : Char} {cs : List Char} (h : c ∉ cs) :
    pyIndexOf (.list (cs.map fun d => .str [d])) (.str [c]) = .error .valueError := by
  simp only [pyIndexOf, findIdxEq_chars, h, if_false]

/-- first position of the letter `c` among the letters of the columns `used` (all below 4):
the computation inside `livePos`. -/
theorem findIdxEq_nucs (c : Char) {used : List Nat} (hu : ∀ j ∈ used, j < 4) (i : Nat) :
    findIdxEq (.str [c]) (used.map fun j => .str [nucChar j]) i =
      match nucIdx c with
      | Option.none => Option.none
      | some j => if used.contains j then some (i + used.idxOf j) else Option.none := by
  induction used generalizing i with
  | nil => cases nucIdx c <;> rfl
  | cons u r ih =>
    have hu4 : u < 4 := hu u (by simp)
    have ih' := ih (fun j hj => hu j (by simp [hj])) (i + 1)
    rw [List.map_cons, findIdxEq_cons, eqb_char_str, ih']
    cases hc : nucIdx c with
    | none =>
      have := nucChar_ne_of_nucIdx_none hc hu4
      simp [this]
    | some j =>
      have hj4 := nucIdx_lt hc
      have hcj : nucChar j = c := nucChar_nucIdx hc
      by_cases huj : u = j
      · subst huj; simp [hcj]
      · have hne : ¬ nucChar u = c := fun e => huj ((nucChar_inj hu4 hj4).1 (e.trans hcj.symm))
        have hb : (u == j) = false := by simpa using huj
        simp only [hne, decide_false, Bool.false_eq_true, if_false, List.contains_cons, hb, Bool.false_or,
          List.idxOf_cons, cond_false, BEq.comm (a := j) (b := u)]
        split
        · congr 1; omega
        · rfl
/-- `nucleotide in used_nucleotides` / `used_nucleotides.index(nucleotide)` are `livePos`. -/
theorem findIdxEq_live (a : Acc) (v : Int) (c : Char) :
    findIdxEq (.str [c]) ((a.live v).map fun j => .str [nucChar j]) 0 = livePos a v c := by
  rw [findIdxEq_nucs c (fun j hj => live_lt_four a v hj) 0, livePos]
  cases nucIdx c with
  | none => rfl
  | some j => simp
theorem pyIn_live (a : Acc) (v : Int) (c : Char) :
    pyIn (.str [c]) (.list ((a.live v).map fun j => .str [nucChar j])) = .ok (livePos a v c).isSome := by
  simp only [pyIn, findIdxEq_live]
theorem pyIndexOf_live (a : Acc) (v : Int) (c : Char) :
    pyIndexOf (.list ((a.live v).map fun j => .str [nucChar j])) (.str [c]) =
      match livePos a v c with
      | some p => .ok (.int (p : Int))
      | Option.none => .error .valueError := by
  simp only [pyIndexOf, findIdxEq_live]
  cases livePos a v c <;> rfl
theorem pyIndexOf_live_of_some {a : Acc} {v : Int} {c : Char} {p : Nat} (h : livePos a v c = some p) :
    pyIndexOf (.list ((a.live v).map fun j => .str [nucChar j])) (.str [c]) = .ok (.int (p : Int)) := by
  rw [pyIndexOf_live, h]
/-- what `livePos` says about the letter. -/
theorem livePos_some {a : Acc} {v : Int} {c : Char} {p : Nat} (h : livePos a v c = some p) :
    ∃ j, nucIdx c = some j ∧ j ∈ a.live v ∧ p = (a.live v).idxOf j ∧ p < (a.live v).length := by
  unfold livePos at h
  cases hc : nucIdx c with
  | none => rw [hc] at h; cases h
  | some j =>
    rw [hc] at h
    by_cases hm : (a.live v).contains j = true
    · simp only [hm, if_true, Option.some.injEq] at h
      have hmem : j ∈ a.live v := by simpa using hm
      exact ⟨j, rfl, hmem, h.symm, h ▸ List.idxOf_lt_length_of_mem hmem⟩
    · simp only [hm, Bool.false_eq_true, if_false] at h; cases h
/-- the idiom `accessor[v][nucleotides.index(c)]`: follow the arc labelled `c`. -/
theorem acc_index_nuc {a : Acc} (ha : a.WF) {v : Int} (h0 : 0 ≤ v) (hv : v < a.size) {c : Char} {j : Nat}
    (hc : nucIdx c = some j) :
    (bnd (pyIndex (accPV a) (.int v)) fun r => bnd (pyIndexOf (.str ['A', 'C', 'G', 'T']) (.str [c])) fun k =>
        pyIndex r k) = .ok (.int (a.ent v ((nucIdx c).getD 0))) := by
  rw [pyIndex_accPV_of_nonneg h0 hv, bnd_ok, pyIndexOf_ACGT_of_some hc, bnd_ok,
    pyIndex_row_ent (by rw [ha.row_size h0 hv]; exact nucIdx_lt hc), hc]
  rfl

/-! ### comparisons of a natural with the literals of the generated code -/

theorem eqb_nat_lit_one (n : Nat) : PV.eqb (.int n) (.int 1) = decide (n = 1) := by
  rw [eqb_int, Bool.eq_iff_iff]; simp only [beq_iff_eq, decide_eq_true_eq]; omega
theorem eqb_nat_lit_two (n : Nat) : PV.eqb (.int n) (.int 2) = decide (n = 2) := by
  rw [eqb_int, Bool.eq_iff_iff]; simp only [beq_iff_eq, decide_eq_true_eq]; omega
theorem eqb_nat_lit_three (n : Nat) : PV.eqb (.int n) (.int 3) = decide (n = 3) := by
  rw [eqb_int, Bool.eq_iff_iff]; simp only [beq_iff_eq, decide_eq_true_eq]; omega
theorem eqb_nat_lit_four (n : Nat) : PV.eqb (.int n) (.int 4) = decide (n = 4) := by
  rw [eqb_int, Bool.eq_iff_iff]; simp only [beq_iff_eq, decide_eq_true_eq]; omega
theorem eqb_nat_nat (n k : Nat) : PV.eqb (.int n) (.int k) = decide (n = k) := by
  rw [eqb_int, Bool.eq_iff_iff]; simp only [beq_iff_eq, decide_eq_true_eq]; omega
/-- `len(used_indices) > 1`. -/
theorem pyGt_nat_one (n : Nat) : pyGt (.int n) (.int 1) = .ok (decide (1 < n)) := by
  simpa using pyGt_nat n 1
/-- `vt_length > 0` is `pyGt_nat_zero` of `PyLemmas`. -/
theorem pyGt_nat_zero' (n : Nat) : pyGt (.int n) (.int 0) = .ok (decide (0 < n)) := pyGt_nat_zero n

/-! ### `pyPow`, `% 4` -/

theorem pyPow_int_nat (a : Int) (b : Nat) : pyPow (.int a) (.int b) = .ok (.int (a ^ b)) := by
  have : ¬ ((b : Int) < 0) := by omega
  simp [pyPow, this]
/-- `a ** b` on naturals. -/
theorem pyPow_nat (a b : Nat) : pyPow (.int a) (.int b) = .ok (.int ((a ^ b : Nat) : Int)) := by
  rw [pyPow_int_nat]; push_cast; rfl
/-- `len(nucleotides) ** m`. -/
theorem pyPow_four_nat (b : Nat) : pyPow (.int 4) (.int b) = .ok (.int ((4 ^ b : Nat) : Int)) :=
  pyPow_nat 4 b
theorem pyPow_neg {a b : Int} (h : b < 0) : pyPow (.int a) (.int b) = .error .other := by
  simp [pyPow, h]
/-- `x % len(nucleotides)`. -/
theorem pyMod_nat_four (a : Nat) : pyMod (.int a) (.int 4) = .ok (.int ((a % 4 : Nat) : Int)) :=
  pyMod_nat (a := a) (b := 4) (by omega)

end Dsw.Tie
