import DswModel.Tie.SwCodingLib
/-!
# Translation tie — `connect_coding_graph`: the fuel-bounded loops of the model end within their fuel

Facts about the MODEL only (no generated code): one wave of the predecessor cascade never adds arcs and, when it
schedules new pairs, kills a vertex; removing a vertex that has arcs kills it.  These give the measures that the
ties of the `while` loops of the threshold-1 phase run on.
-/
namespace Dsw.Tie.Ccg
open Dsw Dsw.Trim Dsw.TrimOne

/-- the formers of the pairs are vertex indices. -/
def PairsOK (k : Nat) (pairs : List (Nat × Nat)) : Prop := ∀ p ∈ pairs, p.1 < 4 ^ k

theorem PairsOK_nil (k : Nat) : PairsOK k [] := fun _ h => by cases h

theorem PairsOK_formers {k : Nat} (hk : 1 ≤ k) {u : Nat} (hu : u < 4 ^ k) :
    PairsOK k ((obtainFormers k u).map fun i => (i, u)) := by
  intro p hp
  obtain ⟨i, hi, rfl⟩ := List.mem_map.1 hp
  exact formers_lt hk hu i hi

theorem PairsOK_append {k : Nat} {p q : List (Nat × Nat)} (hp : PairsOK k p) (hq : PairsOK k q) :
    PairsOK k (p ++ q) := by
  intro x hx
  rcases List.mem_append.1 hx with h | h
  · exact hp x h
  · exact hq x h

/-- one step of a wave. -/
theorem cstep_facts {k : Nat} (hk : 1 ≤ k) {a : Acc} (h : WFdB k a) {fl : Nat × Nat} (hf : fl.1 < 4 ^ k)
    {new : List (Nat × Nat)} (hnew : PairsOK k new) :
    WFdB k (cstep k (a, new) fl).1 ∧ ArcLe (cstep k (a, new) fl).1 a ∧ PairsOK k (cstep k (a, new) fl).2 ∧
      ((cstep k (a, new) fl).2 = new ∨ liveCount k (cstep k (a, new) fl).1 < liveCount k a) := by
  obtain ⟨f, l⟩ := fl
  simp only at hf
  have hc : l % 4 < 4 := by omega
  have hent : ∀ x i : Nat, (a.setEnt f (l % 4) (-1)).ent (x : Int) i =
      if x = f ∧ i = l % 4 then -1 else a.ent (x : Int) i := ent_clear h hf hc
  have hle : ArcLe (a.setEnt f (l % 4) (-1)) a := by
    intro x i hx
    rw [hent] at hx
    split at hx
    · omega
    · exact hx
  have hwf : WFdB k (a.setEnt f (l % 4) (-1)) := wfdb_setEnt k _ _ _ _ h (Or.inl rfl)
  unfold cstep
  simp only
  by_cases hcond : a.deg f > (a.setEnt f (l % 4) (-1)).deg f ∧ (a.setEnt f (l % 4) (-1)).deg f = 0
  · rw [if_pos hcond]
    exact ⟨hwf, hle, PairsOK_append hnew (PairsOK_formers hk hf),
      Or.inr (hle.liveCount_lt k hf (by omega) hcond.2)⟩
  · rw [if_neg hcond]
    exact ⟨hwf, hle, hnew, Or.inl rfl⟩

/-- one wave. -/
theorem cfold_facts {k : Nat} (hk : 1 ≤ k) :
    ∀ (pairs : List (Nat × Nat)) (a : Acc) (new : List (Nat × Nat)), WFdB k a → PairsOK k pairs → PairsOK k new →
      WFdB k (pairs.foldl (cstep k) (a, new)).1 ∧ ArcLe (pairs.foldl (cstep k) (a, new)).1 a ∧
      PairsOK k (pairs.foldl (cstep k) (a, new)).2 ∧
      ((pairs.foldl (cstep k) (a, new)).2 = new ∨
        liveCount k (pairs.foldl (cstep k) (a, new)).1 < liveCount k a) := by
  intro pairs
  induction pairs with
  | nil => intro a new h _ hn; exact ⟨h, ArcLe.refl a, hn, Or.inl rfl⟩
  | cons fl rest ih =>
    intro a new h hp hn
    obtain ⟨h1, h2, h3, h4⟩ := cstep_facts hk h (hp fl (by simp)) hn
    rw [List.foldl_cons]
    have e : cstep k (a, new) fl = ((cstep k (a, new) fl).1, (cstep k (a, new) fl).2) := rfl
    rw [e]
    obtain ⟨i1, i2, i3, i4⟩ := ih _ _ h1 (fun p hp' => hp p (by simp [hp'])) h3
    refine ⟨i1, i2.trans h2, i3, ?_⟩
    have hmono := i2.liveCount_le k
    rcases i4 with i4 | i4
    · rcases h4 with h4 | h4
      · left; rw [i4, h4]
      · right; omega
    · right
      have := h2.liveCount_le k
      omega

/-- the cascade never adds an arc. -/
theorem cascade_arcLe {k : Nat} (hk : 1 ≤ k) :
    ∀ (f : Nat) (pairs : List (Nat × Nat)) (a : Acc), WFdB k a → PairsOK k pairs →
      ArcLe (cascade k f pairs a) a := by
  intro f
  induction f with
  | zero => intro pairs a _ _; exact ArcLe.refl a
  | succ f ih =>
    intro pairs a h hp
    rw [cascade_succ]
    cases pairs with
    | nil => exact ArcLe.refl a
    | cons p ps =>
      simp only [List.isEmpty_cons, Bool.false_eq_true, if_false]
      obtain ⟨h1, h2, h3, _⟩ := cfold_facts hk (p :: ps) a [] h hp (PairsOK_nil k)
      exact (ih _ _ h1 h3).trans h2

theorem clearRow_facts {k : Nat} {a : Acc} (h : WFdB k a) {u : Nat} (hu : u < 4 ^ k) :
    WFdB k (a.setIfInBounds u (Array.replicate 4 (-1))) ∧
    ArcLe (a.setIfInBounds u (Array.replicate 4 (-1))) a ∧
    Acc.deg (a.setIfInBounds u (Array.replicate 4 (-1))) u = 0 := by
  have hus : u < a.size := by rw [h.1]; exact hu
  have hent : ∀ x i : Nat, Acc.ent (a.setIfInBounds u (Array.replicate 4 (-1))) (x : Int) i =
      if x = u then -1 else a.ent (x : Int) i := ent_clearRow hus
  refine ⟨wfdb_setIfInBounds_row k a u _ h (rowOK_replicate k u), ?_, ?_⟩
  · intro x i hx
    rw [hent] at hx
    split at hx
    · omega
    · exact hx
  · rw [deg_eq_zero_iff]
    intro j _
    rw [hent, if_pos rfl]; omega

theorem removeVertex_eq (k : Nat) (a : Acc) (u : Nat) :
    removeVertex k a u = cascade k (a.size + 1) ((obtainFormers k u).map fun i => (i, u))
      (a.setIfInBounds u (Array.replicate 4 (-1))) := rfl

/-- removing a vertex never adds an arc and leaves the vertex without arcs. -/
theorem removeVertex_facts {k : Nat} (hk : 1 ≤ k) {a : Acc} (h : WFdB k a) {u : Nat} (hu : u < 4 ^ k) :
    ArcLe (removeVertex k a u) a ∧ (removeVertex k a u).deg u = 0 := by
  obtain ⟨c1, c2, c3⟩ := clearRow_facts h hu
  have := cascade_arcLe hk (a.size + 1) _ _ c1 (PairsOK_formers hk hu)
  rw [removeVertex_eq]
  exact ⟨this.trans c2, this.deg_zero c3⟩

theorem removeAll_arcLe {k : Nat} (hk : 1 ≤ k) : ∀ (us : List Nat) (a : Acc), WFdB k a → (∀ u ∈ us, u < 4 ^ k) →
    ArcLe (us.foldl (removeVertex k) a) a := by
  intro us
  induction us with
  | nil => intro a _ _; exact ArcLe.refl a
  | cons u us ih =>
    intro a h hus
    rw [List.foldl_cons]
    exact (ih _ (wfdb_removeVertex k a u h) (fun x hx => hus x (by simp [hx]))).trans
      (removeVertex_facts hk h (hus u (by simp))).1

/-- removing a non-empty list of vertices whose first one has arcs kills a vertex. -/
theorem removeAll_liveCount_lt {k : Nat} (hk : 1 ≤ k) (u : Nat) (us : List Nat) (a : Acc) (h : WFdB k a)
    (hus : ∀ x ∈ u :: us, x < 4 ^ k) (hu : 0 < a.deg u) :
    liveCount k ((u :: us).foldl (removeVertex k) a) < liveCount k a := by
  obtain ⟨r1, r2⟩ := removeVertex_facts hk h (hus u (by simp))
  have i2 := removeAll_arcLe hk us _ (wfdb_removeVertex k a u h) (fun x hx => hus x (by simp [hx]))
  rw [List.foldl_cons]
  have := i2.liveCount_le k
  have := r1.liveCount_lt k (hus u (by simp)) hu r2
  omega

end Dsw.Tie.Ccg
