import DswModel.Model.Spiderweb
import DswModel.Gen.Spiderweb
import DswModel.Tie.OperationDefs
/-!
# DswModel.Tie.SpiderwebDefs — how the model-level arguments of `set_vt` / `encode` / `decode` are
embedded as the Python values the code receives
-/
namespace Dsw.Tie
open Dsw Dsw.Py

/-- an accessor (or a shuffle table) as the two-dimensional NumPy integer array the code indexes. -/
def accPV (a : Acc) : PV := .arr (a.toList.map fun r => .arr (r.toList.map fun (x : Int) => .int x))

/-- `shuffles=None` or a table. -/
def tblPV : Option Tbl → PV
  | Option.none => .none
  | some t => accPV t

/-- a bit message as a one-dimensional NumPy integer array. -/
def bitsPV (bits : List Nat) : PV := .arr (bits.map fun (b : Nat) => .int (b : Int))

/-- `vt_check=None` or a string. -/
def chkPV : Option (List Char) → PV
  | Option.none => .none
  | some c => .str c

/-- the value `encode(..., need_path=False)` returns: the strand, or the pair (strand, check). -/
def encResultPV : List Char × Option (List Char) → PV
  | (s, Option.none) => .str s
  | (s, some c) => .tup [.str s, .str c]

/-- a table the code can index wherever it indexes the accessor: at least as many rows, four entries each. -/
def TblOK (tbl : Option Tbl) (a : Acc) : Prop :=
  ∀ t, tbl = some t → a.size ≤ t.size ∧ ∀ r ∈ t.toList, r.size = 4

end Dsw.Tie
