import DswModel.Tie.OpAdd
import DswModel.Tie.OpSub
import DswModel.Tie.OpMul
import DswModel.Tie.OpDiv
import DswModel.Tie.OpBits
import DswModel.Tie.OpDna
import DswModel.Props.C15
import DswModel.Props.C16
/-!
# C15 and C16 stated about the generated definitions

`DswModel/Props/C15.lean` and `DswModel/Props/C16.lean` prove the two properties about the
hand-written model; the `Tie/Op*.lean` files prove that every definition generated from
`dsw/operation.py` computes the model function on its contract.  Here the two are composed: every
theorem below speaks about `Gen.*` only, i.e. about what the Python source computes as translated.

Conventions: `dstr s` is the Python `str` of the digit list `s`, `natsPV m` the Python list of
ints, `cstr d` the Python `str` of the characters `d`; `dstr (Dec.ofNat n)` is `str(n)`
(`pyStr_nat_eq_dstr_ofNat`).  Every generated function takes a `fuel : Nat` bounding its `while`
loops; each theorem gives an explicit bound that suffices.
-/
namespace Dsw.Tie
open Dsw Dsw.Py

/-! ## helper lemmas -/

theorem Digits_of_canonical {s : Dec} (hs : s.Canonical) : Digits s := hs.digits

theorem digitChar_eq_nat_digitChar {d : Nat} (h : d < 10) : digitChar d = Nat.digitChar d := by
  revert d; decide

/-- `dstr (Dec.ofNat n)` is the string `str(n)` of the Python embedding. -/
theorem dstr_ofNat (n : Nat) : dstr (Dec.ofNat n) = .str (natDigits n) := by
  induction n using Nat.strongRecOn with
  | _ n ih =>
    by_cases h : n < 10
    · rw [Dec.ofNat_lt n h, natDigits_digit h]; rfl
    · have h10 : 10 ≤ n := by omega
      have hi := ih (n / 10) (by omega)
      rw [dstr_def] at hi ⊢
      injection hi with hi
      rw [Dec.ofNat_ge n h10, List.map_append, hi]
      simp only [natDigits, List.map_cons, List.map_nil]
      rw [Nat.toDigits_of_base_le (by omega) h10,
        digitChar_eq_nat_digitChar (Nat.mod_lt n (by omega))]

/-- `str(n) = dstr (Dec.ofNat n)`. -/
theorem pyStr_nat_eq_dstr_ofNat (n : Nat) : pyStr (.int (n : Int)) = .ok (dstr (Dec.ofNat n)) := by
  rw [pyStr_nat, dstr_ofNat]

/-- `int(s) = s.toNat` for a canonical decimal string. -/
theorem pyInt_dstr_canonical {s : Dec} (hs : s.Canonical) : pyInt (dstr s) = .ok (.int (s.toNat : Int)) :=
  pyInt_dstr hs.digits hs.ne_nil

/-- a canonical string that has a given value is the rendering of that value. -/
theorem eq_ofNat_of_canonical {t : Dec} {n : Nat} (ht : t.Canonical) (hv : t.toNat = n) :
    t = Dec.ofNat n := by
  obtain ⟨h1, h2⟩ := C15_ofNat n
  exact C15_canonical_unique t _ ht h1 (by rw [hv, h2])

theorem valB_succ_le (base : Nat) (m : List Nat) (hm : ∀ d ∈ m, d < base) (n0 : Nat) :
    valB base m n0 + 1 ≤ base ^ m.length * (n0 + 1) := by
  induction m generalizing n0 with
  | nil => simp [valB]
  | cons d m ih =>
    have hd := hm d (by simp)
    have h := ih (fun q hq => hm q (by simp [hq])) (n0 * base + d)
    simp only [valB, List.foldl_cons, List.length_cons] at h ⊢
    refine Nat.le_trans h ?_
    rw [Nat.pow_succ, Nat.mul_assoc]
    apply Nat.mul_le_mul_left
    rw [Nat.mul_add, Nat.mul_comm base n0]
    omega

theorem valB_lt (base : Nat) (m : List Nat) (hm : ∀ d ∈ m, d < base) :
    valB base m 0 < base ^ m.length := by
  have := valB_succ_le base m hm 0
  omega

/-- a canonical decimal string of a number below `10 ^ L` has at most `L + 1` symbols. -/
theorem canonical_length_le {s : Dec} (hs : s.Canonical) {L : Nat} (h : s.toNat < 10 ^ L) :
    s.length ≤ L + 1 := by
  by_cases h2 : 2 ≤ s.length
  · have hl := hs.lower h2
    have : s.length - 1 < L := by
      apply Classical.byContradiction
      intro hc
      have : 10 ^ L ≤ 10 ^ (s.length - 1) := Nat.pow_le_pow_right (by omega) (by omega)
      omega
    omega
  · omega

theorem two_pow_le_ten_pow (L : Nat) : 2 ^ L ≤ 10 ^ L := Nat.pow_le_pow_left (by omega) L
theorem four_pow_le_ten_pow (L : Nat) : 4 ^ L ≤ 10 ^ L := Nat.pow_le_pow_left (by omega) L

/-- the fuel `digitsFuel s + 1` the string loops need, for a canonical `s` below `10 ^ L`. -/
theorem digitsFuel_le {s : Dec} (hs : s.Canonical) {L : Nat} (h : s.toNat < 10 ^ L) :
    digitsFuel s + 1 ≤ 4 * L + 6 := by
  have := canonical_length_le hs h
  unfold digitsFuel
  omega

theorem log2_le_of_lt {n k : Nat} (h : n < 2 ^ k) : Nat.log2 n ≤ k := by
  by_cases hn : n = 0
  · subst hn; simp
  · exact Nat.le_of_lt ((Nat.log2_lt hn).mpr h)

theorem isBits_le_one {m : List Nat} (hm : IsBits m) : ∀ x ∈ m, x ≤ 1 :=
  fun x hx => by have := hm x hx; omega

/-! ## C15 — string big-number arithmetic equals integer arithmetic -/

/-- `calculus_addition(s, b)` returns `str(int(s) + b)`: the result is canonical and has the exact
value (the statement of `C15_add`, about the generated code). -/
theorem gen_C15_add (s : Dec) (b fuel : Nat) (hs : s.Canonical) (hb : b < 10) (hf : 3 ≤ fuel) :
    ∃ t : Dec, Gen.calculus_addition fuel (dstr s) (dstr [b]) = .ok (dstr t) ∧
      t.Canonical ∧ t.toNat = s.toNat + b := by
  obtain ⟨h1, h2⟩ := C15_add s b hs hb
  exact ⟨_, tie_calculus_addition s b fuel hs.digits hb hf, h1, h2⟩

/-- the same with the result named: the canonical rendering of the exact sum. -/
theorem gen_C15_add_ofNat (s : Dec) (b fuel : Nat) (hs : s.Canonical) (hb : b < 10) (hf : 3 ≤ fuel) :
    Gen.calculus_addition fuel (dstr s) (dstr [b]) = .ok (dstr (Dec.ofNat (s.toNat + b))) := by
  obtain ⟨t, h, hc, hv⟩ := gen_C15_add s b fuel hs hb hf
  rw [h, eq_ofNat_of_canonical hc hv]

/-- … and entirely inside the Python embedding: `calculus_addition(s, b) == str(int(s) + int(b))`. -/
theorem gen_C15_add_py (s : Dec) (b fuel : Nat) (hs : s.Canonical) (hb : b < 10) (hf : 3 ≤ fuel) :
    Gen.calculus_addition fuel (dstr s) (dstr [b]) =
      bnd (pyInt (dstr s)) fun x => bnd (pyInt (dstr [b])) fun y => bnd (pyAdd x y) pyStr := by
  have hc : ((s.toNat : Int) + (b : Int)) = ((s.toNat + b : Nat) : Int) := by push_cast; rfl
  rw [gen_C15_add_ofNat s b fuel hs hb hf, pyInt_dstr_canonical hs, dstr_singleton, pyInt_digit hb]
  simp only [bnd_ok, pyAdd_int, hc, pyStr_nat_eq_dstr_ofNat]

example : Gen.calculus_addition 3 (.str ['9', '9', '9']) (.str ['2']) = .ok (.str ['1', '0', '0', '1']) :=
  gen_C15_add_ofNat [9, 9, 9] 2 3 (by decide) (by decide) (by decide)
/-- a carry chain through fifty nines. -/
example : Gen.calculus_addition 3 (dstr (List.replicate 50 9)) (dstr [2]) =
    .ok (dstr (Dec.ofNat (Dec.toNat (List.replicate 50 9) + 2))) :=
  gen_C15_add_ofNat (List.replicate 50 9) 2 3 (by decide) (by decide) (by decide)
example : Gen.calculus_addition 3 (dstr [9, 9, 9]) (dstr [2]) =
    bnd (pyInt (dstr [9, 9, 9])) fun x => bnd (pyInt (dstr [2])) fun y => bnd (pyAdd x y) pyStr :=
  gen_C15_add_py [9, 9, 9] 2 3 (by decide) (by decide) (by decide)

theorem gen_C15_mul (s : Dec) (b fuel : Nat) (hs : s.Canonical) (hb : b < 10) (hf : 2 ≤ fuel) :
    ∃ t : Dec, Gen.calculus_multiplication fuel (dstr s) (dstr [b]) = .ok (dstr t) ∧
      t.Canonical ∧ t.toNat = s.toNat * b := by
  obtain ⟨h1, h2⟩ := C15_mul s b hs hb
  exact ⟨_, tie_calculus_multiplication s b fuel hs.digits hb hf, h1, h2⟩

theorem gen_C15_mul_ofNat (s : Dec) (b fuel : Nat) (hs : s.Canonical) (hb : b < 10) (hf : 2 ≤ fuel) :
    Gen.calculus_multiplication fuel (dstr s) (dstr [b]) = .ok (dstr (Dec.ofNat (s.toNat * b))) := by
  obtain ⟨t, h, hc, hv⟩ := gen_C15_mul s b fuel hs hb hf
  rw [h, eq_ofNat_of_canonical hc hv]

example : Gen.calculus_multiplication 2 (.str ['9', '9', '9']) (.str ['7']) = .ok (.str ['6', '9', '9', '3']) :=
  gen_C15_mul_ofNat [9, 9, 9] 7 2 (by decide) (by decide) (by decide)

/-- `calculus_division(s, b)` for `1 ≤ b ≤ 9` returns `(str(int(s) // b), str(int(s) % b))`; any
fuel will do (the function has no `while` loop). -/
theorem gen_C15_div (s : Dec) (b fuel : Nat) (hs : s.Canonical) (hb : b < 10) (hb1 : 1 ≤ b) :
    ∃ q r : Dec, Gen.calculus_division fuel (dstr s) (dstr [b]) = .ok (.tup [dstr q, dstr r]) ∧
      q.Canonical ∧ q.toNat = s.toNat / b ∧ r.Canonical ∧ r.toNat = s.toNat % b := by
  obtain ⟨h1, h2, h3, h4⟩ := C15_div s b hs hb hb1
  exact ⟨_, _, tie_calculus_division s b fuel hs.digits hb, h1, h2, h3, h4⟩

theorem gen_C15_div_ofNat (s : Dec) (b fuel : Nat) (hs : s.Canonical) (hb : b < 10) (hb1 : 1 ≤ b) :
    Gen.calculus_division fuel (dstr s) (dstr [b]) =
      .ok (.tup [dstr (Dec.ofNat (s.toNat / b)), dstr (Dec.ofNat (s.toNat % b))]) := by
  obtain ⟨q, r, h, hq, hqv, hr, hrv⟩ := gen_C15_div s b fuel hs hb hb1
  rw [h, eq_ofNat_of_canonical hq hqv, eq_ofNat_of_canonical hr hrv]

/-- the documented special case: division by `"0"` returns `("0", "0")` (no exception). -/
theorem gen_C15_div_zero (s : Dec) (fuel : Nat) (hs : Digits s) :
    Gen.calculus_division fuel (dstr s) (dstr [0]) = .ok (.tup [dstr [0], dstr [0]]) := by
  rw [tie_calculus_division s 0 fuel hs (by omega), (C15_special s).2.2.2]

example : Gen.calculus_division 0 (.str ['1', '0', '0', '0']) (.str ['7']) =
    .ok (.tup [.str ['1', '4', '2'], .str ['6']]) :=
  gen_C15_div_ofNat [1, 0, 0, 0] 7 0 (by decide) (by decide) (by decide)
example : Gen.calculus_division 0 (.str ['1', '0', '0', '0']) (.str ['0']) = .ok (.tup [.str ['0'], .str ['0']]) :=
  gen_C15_div_zero [1, 0, 0, 0] 0 (by decide)

/-- `calculus_subtraction(s, b)` returns `str(int(s) - b)` whenever the result is not negative. -/
theorem gen_C15_sub (s : Dec) (b fuel : Nat) (hs : s.Canonical) (hb : b < 10) (h : b ≤ s.toNat)
    (hf : s.length + 1 ≤ fuel) :
    ∃ t : Dec, Gen.calculus_subtraction fuel (dstr s) (dstr [b]) = .ok (dstr t) ∧
      t.Canonical ∧ t.toNat = s.toNat - b := by
  obtain ⟨h1, h2⟩ := C15_sub s b hs hb h
  exact ⟨_, tie_calculus_subtraction s b fuel hs.digits hb hs.ne_nil h hf, h1, h2⟩

theorem gen_C15_sub_ofNat (s : Dec) (b fuel : Nat) (hs : s.Canonical) (hb : b < 10) (h : b ≤ s.toNat)
    (hf : s.length + 1 ≤ fuel) :
    Gen.calculus_subtraction fuel (dstr s) (dstr [b]) = .ok (dstr (Dec.ofNat (s.toNat - b))) := by
  obtain ⟨t, h, hc, hv⟩ := gen_C15_sub s b fuel hs hb h hf
  rw [h, eq_ofNat_of_canonical hc hv]

example : Gen.calculus_subtraction 5 (.str ['1', '0', '0', '1']) (.str ['2']) = .ok (.str ['9', '9', '9']) :=
  gen_C15_sub_ofNat [1, 0, 0, 1] 2 5 (by decide) (by decide) (by decide) (by decide)

/-- the documented special cases (`C15_special`): division by one, multiplication by zero and by one
return the operand / `"0"` themselves, division by zero returns `("0", "0")`. -/
theorem gen_C15_special (s : Dec) (fuel : Nat) (hs : Digits s) (hf : 2 ≤ fuel) :
    Gen.calculus_division fuel (dstr s) (dstr [1]) = .ok (.tup [dstr s, dstr [0]]) ∧
    Gen.calculus_multiplication fuel (dstr s) (dstr [0]) = .ok (dstr [0]) ∧
    Gen.calculus_multiplication fuel (dstr s) (dstr [1]) = .ok (dstr s) ∧
    Gen.calculus_division fuel (dstr s) (dstr [0]) = .ok (.tup [dstr [0], dstr [0]]) := by
  obtain ⟨h1, h2, h3, h4⟩ := C15_special s
  refine ⟨?_, ?_, ?_, ?_⟩
  · rw [tie_calculus_division s 1 fuel hs (by omega), h1]
  · rw [tie_calculus_multiplication s 0 fuel hs (by omega) hf, h2]
  · rw [tie_calculus_multiplication s 1 fuel hs (by omega) hf, h3]
  · rw [tie_calculus_division s 0 fuel hs (by omega), h4]

example : Gen.calculus_multiplication 2 (.str ['0', '4', '2']) (.str ['1']) = .ok (.str ['0', '4', '2']) :=
  (gen_C15_special [0, 4, 2] 2 (by decide) (by decide)).2.2.1

/-- the full statement of C15 about the generated definitions. -/
def gen_C15_statement : Prop :=
  ∀ (s : Dec) (b fuel : Nat), s.Canonical → b < 10 → s.length + 2 ≤ fuel →
    Gen.calculus_addition fuel (dstr s) (dstr [b]) = .ok (dstr (Dec.ofNat (s.toNat + b))) ∧
    Gen.calculus_multiplication fuel (dstr s) (dstr [b]) = .ok (dstr (Dec.ofNat (s.toNat * b))) ∧
    (1 ≤ b → Gen.calculus_division fuel (dstr s) (dstr [b]) =
      .ok (.tup [dstr (Dec.ofNat (s.toNat / b)), dstr (Dec.ofNat (s.toNat % b))])) ∧
    (b ≤ s.toNat →
      Gen.calculus_subtraction fuel (dstr s) (dstr [b]) = .ok (dstr (Dec.ofNat (s.toNat - b))))

theorem gen_C15_holds : gen_C15_statement := by
  intro s b fuel hs hb hf
  have := hs.length_pos
  exact ⟨gen_C15_add_ofNat s b fuel hs hb (by omega), gen_C15_mul_ofNat s b fuel hs hb (by omega),
    fun h1 => gen_C15_div_ofNat s b fuel hs hb h1, fun h => gen_C15_sub_ofNat s b fuel hs hb h (by omega)⟩

example : Gen.calculus_subtraction 6 (.str ['1', '0', '0', '0']) (.str ['1']) = .ok (.str ['9', '9', '9']) :=
  (gen_C15_holds [1, 0, 0, 0] 1 6 (by decide) (by decide) (by decide)).2.2.2 (by decide)

/-! ## C16 — bit / number / DNA conversions are exact inverses -/

/-- `bit_to_number` then `number_to_bit` with the original length returns the bits, on the string
path and on the integer path; `verbose` has no influence. -/
theorem gen_C16_bits_roundtrip (m : List Nat) (hm : IsBits m) (v : Bool) (fuel : Nat)
    (hf : 4 * m.length + 6 ≤ fuel) :
    (∃ x, Gen.bit_to_number fuel (natsPV m) (.bool true) (.bool v) = .ok x ∧
      Gen.number_to_bit fuel x (.int (m.length : Int)) = .ok (natsPV m)) ∧
    (∃ x, Gen.bit_to_number fuel (natsPV m) (.bool false) (.bool v) = .ok x ∧
      Gen.number_to_bit fuel x (.int (m.length : Int)) = .ok (natsPV m)) := by
  obtain ⟨r1, r2⟩ := C16_bits_roundtrip m hm
  obtain ⟨hc, hv⟩ := C16_bits_paths_agree m hm
  have hlt : bitToNumberInt m < 2 ^ m.length := valB_lt 2 m hm
  refine ⟨⟨_, tie_bit_to_number_str m fuel v (isBits_le_one hm) (by omega), ?_⟩,
    ⟨_, tie_bit_to_number_int m fuel v, ?_⟩⟩
  · have hfu := digitsFuel_le hc (L := m.length)
      (by rw [hv]; exact Nat.lt_of_lt_of_le hlt (two_pow_le_ten_pow _))
    exact tie_number_to_bit_str _ m.length fuel m hc.digits r1 (by omega)
  · have := log2_le_of_lt hlt
    rw [tie_number_to_bit_int _ m.length fuel (by omega), r2]

example : ∃ x, Gen.bit_to_number 26 (natsPV [0, 0, 1, 0, 1]) (.bool true) (.bool false) = .ok x ∧
    Gen.number_to_bit 26 x (.int 5) = .ok (natsPV [0, 0, 1, 0, 1]) :=
  (gen_C16_bits_roundtrip [0, 0, 1, 0, 1] (by unfold IsBits; decide) false 26 (by decide)).1

/-- the string-typed and the integer-typed path return the same number, the string one as its
canonical decimal string. -/
theorem gen_C16_bits_paths_agree (m : List Nat) (hm : IsBits m) (v : Bool) (fuel : Nat) (hf : 3 ≤ fuel) :
    ∃ (s : Dec) (n : Nat), Gen.bit_to_number fuel (natsPV m) (.bool true) (.bool v) = .ok (dstr s) ∧
      Gen.bit_to_number fuel (natsPV m) (.bool false) (.bool v) = .ok (.int (n : Int)) ∧
      s.Canonical ∧ s.toNat = n := by
  obtain ⟨hc, hv⟩ := C16_bits_paths_agree m hm
  exact ⟨_, _, tie_bit_to_number_str m fuel v (isBits_le_one hm) hf, tie_bit_to_number_int m fuel v, hc, hv⟩

/-- the same inside the Python embedding: the string path returns `str` of what the integer path
returns. -/
theorem gen_C16_bits_paths_agree_py (m : List Nat) (hm : IsBits m) (v : Bool) (fuel : Nat) (hf : 3 ≤ fuel) :
    Gen.bit_to_number fuel (natsPV m) (.bool true) (.bool v) =
      bnd (Gen.bit_to_number fuel (natsPV m) (.bool false) (.bool v)) pyStr := by
  obtain ⟨s, n, h1, h2, hc, hv⟩ := gen_C16_bits_paths_agree m hm v fuel hf
  rw [h1, h2, bnd_ok, pyStr_nat_eq_dstr_ofNat, eq_ofNat_of_canonical hc hv]

example : Gen.bit_to_number 3 (natsPV [1, 0, 1, 1, 0, 1]) (.bool true) (.bool true) =
    bnd (Gen.bit_to_number 3 (natsPV [1, 0, 1, 1, 0, 1]) (.bool false) (.bool true)) pyStr :=
  gen_C16_bits_paths_agree_py [1, 0, 1, 1, 0, 1] (by unfold IsBits; decide) true 3 (by decide)
example : ∃ (s : Dec) (n : Nat),
    Gen.bit_to_number 3 (natsPV [1, 0, 1, 1, 0, 1]) (.bool true) (.bool true) = .ok (dstr s) ∧
    Gen.bit_to_number 3 (natsPV [1, 0, 1, 1, 0, 1]) (.bool false) (.bool true) = .ok (.int (n : Int)) ∧
    s.Canonical ∧ s.toNat = n :=
  gen_C16_bits_paths_agree [1, 0, 1, 1, 0, 1] (by unfold IsBits; decide) true 3 (by decide)

/-- `dna_to_number` then `number_to_dna` with the original length returns the DNA string, on the
string path and on the integer path. -/
theorem gen_C16_dna_roundtrip (d : List Char) (hd : IsDna d) (fuel : Nat) (hf : 4 * d.length + 6 ≤ fuel) :
    (∃ x, Gen.dna_to_number fuel (cstr d) (.bool true) = .ok x ∧
      Gen.number_to_dna fuel x (.int (d.length : Int)) = .ok (cstr d)) ∧
    (∃ x, Gen.dna_to_number fuel (cstr d) (.bool false) = .ok x ∧
      Gen.number_to_dna fuel x (.int (d.length : Int)) = .ok (cstr d)) := by
  obtain ⟨⟨s, r1, r2⟩, ⟨n, r3, r4⟩⟩ := C16_dna_roundtrip d hd
  obtain ⟨s', n', p1, p2, hc, hv⟩ := C16_dna_paths_agree d hd
  rw [r1] at p1; rw [r3] at p2
  injection p1 with p1; injection p2 with p2
  subst p1; subst p2
  have hlt : n < 4 ^ d.length := by
    have h := dnaToNumberInt_ok d hd
    rw [r3] at h
    injection h with h
    rw [h, ← nucVals_length d]
    exact valB_lt 4 (nucVals d) (nucVals_lt d)
  refine ⟨⟨dstr s, ?_, ?_⟩, ⟨.int (n : Int), ?_, ?_⟩⟩
  · rw [tie_dna_to_number_str d fuel (by omega), r1]; rfl
  · have hfu := digitsFuel_le hc (L := d.length)
      (by rw [hv]; exact Nat.lt_of_lt_of_le hlt (four_pow_le_ten_pow _))
    exact tie_number_to_dna_str s d.length fuel d hc.digits r2 (by omega)
  · rw [tie_dna_to_number_int d fuel, r3]; rfl
  · have h2 : n < 2 ^ (2 * d.length) := by rw [Nat.pow_mul]; exact hlt
    have := log2_le_of_lt h2
    rw [tie_number_to_dna_int n d.length fuel (by omega), r4]

example : ∃ x, Gen.dna_to_number 26 (cstr ['A', 'A', 'C', 'G', 'T']) (.bool true) = .ok x ∧
    Gen.number_to_dna 26 x (.int 5) = .ok (cstr ['A', 'A', 'C', 'G', 'T']) :=
  (gen_C16_dna_roundtrip ['A', 'A', 'C', 'G', 'T'] (by unfold IsDna; decide) 26 (by decide)).1

theorem gen_C16_dna_paths_agree (d : List Char) (hd : IsDna d) (fuel : Nat) (hf : 3 ≤ fuel) :
    ∃ (s : Dec) (n : Nat), Gen.dna_to_number fuel (cstr d) (.bool true) = .ok (dstr s) ∧
      Gen.dna_to_number fuel (cstr d) (.bool false) = .ok (.int (n : Int)) ∧
      s.Canonical ∧ s.toNat = n := by
  obtain ⟨s, n, p1, p2, hc, hv⟩ := C16_dna_paths_agree d hd
  refine ⟨s, n, ?_, ?_, hc, hv⟩
  · rw [tie_dna_to_number_str d fuel hf, p1]; rfl
  · rw [tie_dna_to_number_int d fuel, p2]; rfl

theorem gen_C16_dna_paths_agree_py (d : List Char) (hd : IsDna d) (fuel : Nat) (hf : 3 ≤ fuel) :
    Gen.dna_to_number fuel (cstr d) (.bool true) =
      bnd (Gen.dna_to_number fuel (cstr d) (.bool false)) pyStr := by
  obtain ⟨s, n, h1, h2, hc, hv⟩ := gen_C16_dna_paths_agree d hd fuel hf
  rw [h1, h2, bnd_ok, pyStr_nat_eq_dstr_ofNat, eq_ofNat_of_canonical hc hv]

example : Gen.dna_to_number 3 (cstr ['G', 'A', 'T', 'T', 'A', 'C', 'A']) (.bool true) =
    bnd (Gen.dna_to_number 3 (cstr ['G', 'A', 'T', 'T', 'A', 'C', 'A']) (.bool false)) pyStr :=
  gen_C16_dna_paths_agree_py ['G', 'A', 'T', 'T', 'A', 'C', 'A'] (by unfold IsDna; decide) 3 (by decide)
example : ∃ (s : Dec) (n : Nat),
    Gen.dna_to_number 3 (cstr ['G', 'A', 'T', 'T', 'A', 'C', 'A']) (.bool true) = .ok (dstr s) ∧
    Gen.dna_to_number 3 (cstr ['G', 'A', 'T', 'T', 'A', 'C', 'A']) (.bool false) = .ok (.int (n : Int)) ∧
    s.Canonical ∧ s.toNat = n :=
  gen_C16_dna_paths_agree ['G', 'A', 'T', 'T', 'A', 'C', 'A'] (by unfold IsDna; decide) 3 (by decide)

/-- a foreign character is a `ValueError` on both paths (for every fuel ≥ 3 on the string path and
every fuel on the integer path: the error is raised before any loop starts). -/
theorem gen_C16_dna_foreign (d : List Char) (hd : ¬ IsDna d) (fuel : Nat) (hf : 3 ≤ fuel) :
    Gen.dna_to_number fuel (cstr d) (.bool true) = .error .valueError ∧
    Gen.dna_to_number fuel (cstr d) (.bool false) = .error .valueError := by
  obtain ⟨h1, h2⟩ := C16_dna_foreign d hd
  constructor
  · rw [tie_dna_to_number_str d fuel hf, h1]; rfl
  · rw [tie_dna_to_number_int d fuel, h2]; rfl

example : Gen.dna_to_number 3 (cstr ['A', 'C', 'N', 'T']) (.bool true) = .error .valueError ∧
    Gen.dna_to_number 3 (cstr ['A', 'C', 'N', 'T']) (.bool false) = .error .valueError :=
  gen_C16_dna_foreign ['A', 'C', 'N', 'T'] (by unfold IsDna; decide) 3 (by decide)

/-- every number below `2 ^ L`: `number_to_bit(n, L)` has length `L`, consists of bits, converts back
to `n`, is the shortest rendering left-padded with `0`, and the string path agrees. -/
theorem gen_C16_number_bits (n L fuel : Nat) (h : n < 2 ^ L) (hf : 4 * L + 6 ≤ fuel) :
    ∃ r : List Nat, Gen.number_to_bit fuel (.int (n : Int)) (.int (L : Int)) = .ok (natsPV r) ∧
      r.length = L ∧ IsBits r ∧
      (∀ v : Bool, Gen.bit_to_number fuel (natsPV r) (.bool false) (.bool v) = .ok (.int (n : Int))) ∧
      (∃ z, r = List.replicate z 0 ++ digitsNat 2 n []) ∧
      (∀ s : Dec, s.Canonical → s.toNat = n →
        Gen.number_to_bit fuel (dstr s) (.int (L : Int)) = .ok (natsPV r)) := by
  obtain ⟨h1, h2, h3, h4, h5⟩ := C16_number_bits n L h
  have hl := log2_le_of_lt h
  refine ⟨_, tie_number_to_bit_int n L fuel (by omega), h1, h2, ?_, h4, ?_⟩
  · intro v; rw [tie_bit_to_number_int _ fuel v, h3]
  · intro s hs hv
    have hfu := digitsFuel_le hs (L := L)
      (by rw [hv]; exact Nat.lt_of_lt_of_le h (two_pow_le_ten_pow _))
    exact tie_number_to_bit_str s L fuel _ hs.digits (h5 s hs hv) (by omega)

example : ∃ r : List Nat, Gen.number_to_bit 38 (.int 200) (.int 8) = .ok (natsPV r) ∧ r.length = 8 :=
  let ⟨r, h1, h2, _⟩ := gen_C16_number_bits 200 8 38 (by decide) (by decide)
  ⟨r, h1, h2⟩

/-- every number below `4 ^ L`: `number_to_dna(n, L)` has length `L`, is a DNA string, converts back
to `n`, is the shortest rendering left-padded with `A`, and the string path agrees. -/
theorem gen_C16_number_dna (n L fuel : Nat) (h : n < 4 ^ L) (hf : 4 * L + 6 ≤ fuel) :
    ∃ r : List Char, Gen.number_to_dna fuel (.int (n : Int)) (.int (L : Int)) = .ok (cstr r) ∧
      r.length = L ∧ IsDna r ∧
      Gen.dna_to_number fuel (cstr r) (.bool false) = .ok (.int (n : Int)) ∧
      (∃ z, r = List.replicate z 'A' ++ (digitsNat 4 n []).map nucChar) ∧
      (∀ s : Dec, s.Canonical → s.toNat = n →
        Gen.number_to_dna fuel (dstr s) (.int (L : Int)) = .ok (cstr r)) := by
  obtain ⟨h1, h2, h3, h4, h5⟩ := C16_number_dna n L h
  have h2' : n < 2 ^ (2 * L) := by rw [Nat.pow_mul]; exact h
  have hl := log2_le_of_lt h2'
  refine ⟨_, tie_number_to_dna_int n L fuel (by omega), h1, h2, ?_, h4, ?_⟩
  · rw [tie_dna_to_number_int _ fuel, h3]; rfl
  · intro s hs hv
    have hfu := digitsFuel_le hs (L := L)
      (by rw [hv]; exact Nat.lt_of_lt_of_le h (four_pow_le_ten_pow _))
    exact tie_number_to_dna_str s L fuel _ hs.digits (h5 s hs hv) (by omega)

example : ∃ r : List Char, Gen.number_to_dna 30 (.int 200) (.int 6) = .ok (cstr r) ∧ r.length = 6 :=
  let ⟨r, h1, h2, _⟩ := gen_C16_number_dna 200 6 30 (by decide) (by decide)
  ⟨r, h1, h2⟩

/-- the `while` loops over decimal strings never run out of fuel (`C16_fuel`): for every canonical
decimal string and every fuel ≥ `digitsFuel s + 1 = 4 * len(s) + 2` both conversions return, and
return what the integer path computes for `int(s)`. -/
theorem gen_C16_fuel (s : Dec) (hs : s.Canonical) (L fuel : Nat) (hf : digitsFuel s + 1 ≤ fuel) :
    Gen.number_to_bit fuel (dstr s) (.int (L : Int)) = .ok (natsPV (numberToBitInt s.toNat L)) ∧
    Gen.number_to_dna fuel (dstr s) (.int (L : Int)) = .ok (cstr (numberToDnaInt s.toNat L)) :=
  ⟨tie_number_to_bit_str s L fuel _ hs.digits (numberToBitStr_eq s hs L) hf,
    tie_number_to_dna_str s L fuel _ hs.digits (numberToDnaStr_eq s hs L) hf⟩

example : Gen.number_to_bit 14 (.str ['2', '0', '0']) (.int 8) = .ok (natsPV (numberToBitInt 200 8)) :=
  (gen_C16_fuel [2, 0, 0] (by decide) 8 14 (by decide)).1

/-- the string path and the integer path of `number_to_bit` / `number_to_dna` agree on every canonical
decimal string. -/
theorem gen_C16_number_paths_agree (s : Dec) (hs : s.Canonical) (L fuel : Nat)
    (hf : digitsFuel s + 1 ≤ fuel) :
    Gen.number_to_bit fuel (dstr s) (.int (L : Int)) =
      Gen.number_to_bit fuel (.int (s.toNat : Int)) (.int (L : Int)) ∧
    Gen.number_to_dna fuel (dstr s) (.int (L : Int)) =
      Gen.number_to_dna fuel (.int (s.toNat : Int)) (.int (L : Int)) := by
  obtain ⟨h1, h2⟩ := gen_C16_fuel s hs L fuel hf
  have hl : Nat.log2 s.toNat + 2 ≤ fuel := by
    have := log2_le_of_lt (toNat_lt_two_pow s hs.digits)
    unfold digitsFuel at hf
    omega
  rw [h1, h2, tie_number_to_bit_int _ L fuel hl, tie_number_to_dna_int _ L fuel hl]
  exact ⟨rfl, rfl⟩

example : Gen.number_to_bit 14 (.str ['2', '0', '0']) (.int 8) = Gen.number_to_bit 14 (.int 200) (.int 8) :=
  (gen_C16_number_paths_agree [2, 0, 0] (by decide) 8 14 (by decide)).1

end Dsw.Tie
