import DswModel.Tie.OperationDefs
/-!
# DswModel.Tie.PyLemmas — reasoning library for the Python embedding `DswModel.Py.Value`

Reusable lemmas for the *translation tie* proofs (`Tie/Op*.lean`):

* §1 control flow: `bnd`, `seq`, `callResult`, `Flow.loopStep`, `getVar`;
* §2 computation lemmas (`@[simp]`) for every primitive on constructor-headed arguments;
* §3 subscripts, slices, list updates;
* §4 iteration: `pyIter`, `pyList`, `mapM'`, `pyMap`, `joinStrs`, `pyJoin`, ranges, `enumerate`;
* §5 decimal digits: `digitChar`, `natDigits`, `pyInt`/`pyStr` on digits, `dstr`, `natsPV`;
* §6 nucleotides: `pyStrIndex "ACGT"`;
* §7 loop principles for `forLoop` and `whileLoop`.

Core Lean only.  Convention: the `@[simp]` lemmas evaluate straight-line generated code once the
arguments are constructor-headed (`.int _`, `.str _`, `.list _`, …); everything with side
conditions that `simp` cannot discharge by itself is *not* a simp lemma and is meant for `rw`.
-/
namespace Dsw.Tie
open Dsw Dsw.Py

/-! ## §1 control flow -/

section Control
variable {ε : Type}

@[simp] theorem seq_error (err : PyErr) (k : ε → R (Flow ε)) : seq (.error err) k = .error err := rfl
@[simp] theorem seq_norm (e : ε) (k : ε → R (Flow ε)) : seq (.ok (.norm e)) k = k e := rfl
@[simp] theorem seq_brk (e : ε) (k : ε → R (Flow ε)) : seq (.ok (.brk e)) k = .ok (.brk e) := rfl
@[simp] theorem seq_cnt (e : ε) (k : ε → R (Flow ε)) : seq (.ok (.cnt e)) k = .ok (.cnt e) := rfl
@[simp] theorem seq_ret (v : PV) (k : ε → R (Flow ε)) : seq (.ok (.ret v)) k = .ok (.ret v) := rfl

/-- `seq` commutes with `if` on the statement side (the generated code puts an `if` inside `seq`). -/
theorem seq_ite (c : Bool) (a b : R (Flow ε)) (k : ε → R (Flow ε)) :
    seq (if c then a else b) k = if c then seq a k else seq b k := by cases c <;> rfl

theorem bnd_ite {α β} (c : Bool) (a b : R α) (k : α → R β) :
    bnd (if c then a else b) k = if c then bnd a k else bnd b k := by cases c <;> rfl

theorem bnd_assoc {α β γ} (m : R α) (f : α → R β) (g : β → R γ) :
    bnd (bnd m f) g = bnd m fun a => bnd (f a) g := by cases m <;> rfl

/-- inversion: a `bnd` that succeeds. -/
theorem bnd_eq_ok {α β} {m : R α} {k : α → R β} {b : β} :
    bnd m k = .ok b ↔ ∃ a, m = .ok a ∧ k a = .ok b := by
  cases m with
  | ok a => simp
  | error e => simp [bnd]

/-- a `seq (stmt) (k fuel)` step, `stmt` known to end normally: continue with the named
continuation (then `rw [k_spec]`). -/
theorem seq_of_norm {m : R (Flow ε)} {e' : ε} (hm : m = .ok (.norm e')) (k : ε → R (Flow ε)) :
    seq m k = k e' := by rw [hm]; rfl
/-- … `stmt` known to `return`. -/
theorem seq_of_ret {m : R (Flow ε)} {v : PV} (hm : m = .ok (.ret v)) (k : ε → R (Flow ε)) :
    seq m k = .ok (.ret v) := by rw [hm]; rfl
theorem seq_of_error {m : R (Flow ε)} {err : PyErr} (hm : m = .error err) (k : ε → R (Flow ε)) :
    seq m k = .error err := by rw [hm]; rfl
/-- `if c: return v` followed by the rest (the guard statements at the top of a function). -/
theorem seq_guard_ret (c : Bool) (v : PV) (e : ε) (k : ε → R (Flow ε)) :
    seq (if c then .ok (.ret v) else .ok (.norm e)) k = if c then .ok (.ret v) else k e := by
  cases c <;> rfl

/-- continuation-passing glue: a statement `m` known to end normally in some state satisfying `Q`
(typically a loop, via `forLoop_rel` / `whileLoop_rel`), followed by `k`.  Use with `apply`: the
environment the loop starts from is picked up from the goal by unification. -/
theorem seq_eq_of_norm {m : R (Flow ε)} {k : ε → R (Flow ε)} {r : R (Flow ε)} (Q : ε → Prop)
    (hm : ∃ e', m = .ok (.norm e') ∧ Q e') (hk : ∀ e', Q e' → k e' = r) : seq m k = r := by
  obtain ⟨e', rfl, hq⟩ := hm; exact hk e' hq
/-- the same when `m` may also `return` a value satisfying `Post` (a loop with an early `return`,
via `forLoop_inv_ret`). -/
theorem seq_eq_of_norm_or_ret {m : R (Flow ε)} {k : ε → R (Flow ε)} {r : R (Flow ε)} (Q : ε → Prop)
    (Post : PV → Prop)
    (hm : (∃ e', m = .ok (.norm e') ∧ Q e') ∨ (∃ v, m = .ok (.ret v) ∧ Post v))
    (hk : ∀ e', Q e' → k e' = r) (hr : ∀ v, Post v → .ok (.ret v) = r) : seq m k = r := by
  rcases hm with ⟨e', rfl, hq⟩ | ⟨v, rfl, hp⟩
  · exact hk e' hq
  · exact hr v hp
/-- the same two rules under `callResult` (a loop in the function's top-level statement list). -/
theorem callResult_seq_of_norm {m : R (Flow ε)} {k : ε → R (Flow ε)} {r : RV} (Q : ε → Prop)
    (hm : ∃ e', m = .ok (.norm e') ∧ Q e') (hk : ∀ e', Q e' → callResult (k e') = r) :
    callResult (seq m k) = r := by
  obtain ⟨e', rfl, hq⟩ := hm; exact hk e' hq
theorem callResult_seq_of_norm_or_ret {m : R (Flow ε)} {k : ε → R (Flow ε)} {r : RV} (Q : ε → Prop)
    (Post : PV → Prop)
    (hm : (∃ e', m = .ok (.norm e') ∧ Q e') ∨ (∃ v, m = .ok (.ret v) ∧ Post v))
    (hk : ∀ e', Q e' → callResult (k e') = r) (hr : ∀ v, Post v → .ok v = r) :
    callResult (seq m k) = r := by
  rcases hm with ⟨e', rfl, hq⟩ | ⟨v, rfl, hp⟩
  · exact hk e' hq
  · exact hr v hp

@[simp] theorem callResult_error (err : PyErr) : callResult (.error err : R (Flow ε)) = .error err := rfl
@[simp] theorem callResult_ret (v : PV) : callResult (.ok (.ret v) : R (Flow ε)) = .ok v := rfl
@[simp] theorem callResult_norm (e : ε) : callResult (.ok (.norm e)) = .ok .none := rfl
@[simp] theorem callResult_brk (e : ε) : callResult (.ok (.brk e)) = .ok .none := rfl
@[simp] theorem callResult_cnt (e : ε) : callResult (.ok (.cnt e)) = .ok .none := rfl

@[simp] theorem loopStep_norm (e : ε) : (Flow.norm e).loopStep = .again e := rfl
@[simp] theorem loopStep_cnt (e : ε) : (Flow.cnt e).loopStep = .again e := rfl
@[simp] theorem loopStep_brk (e : ε) : (Flow.brk e).loopStep = .stop e := rfl
@[simp] theorem loopStep_ret (v : PV) : (Flow.ret v : Flow ε).loopStep = .out v := rfl

end Control

@[simp] theorem getVar_int (i : Int) : getVar (.int i) = .ok (.int i) := rfl
@[simp] theorem getVar_str (s : List Char) : getVar (.str s) = .ok (.str s) := rfl
@[simp] theorem getVar_list (l : List PV) : getVar (.list l) = .ok (.list l) := rfl
@[simp] theorem getVar_tup (l : List PV) : getVar (.tup l) = .ok (.tup l) := rfl
@[simp] theorem getVar_bool (b : Bool) : getVar (.bool b) = .ok (.bool b) := rfl
@[simp] theorem getVar_none : getVar .none = .ok .none := rfl
@[simp] theorem getVar_unbound : getVar .unbound = .error .other := rfl
theorem getVar_of_ne {v : PV} (h : v ≠ .unbound) : getVar v = .ok v := by
  cases v <;> first | rfl | exact absurd rfl h

@[simp] theorem R_map_ok {α β} (f : α → β) (a : α) : (Except.ok a : R α).map f = .ok (f a) := rfl
@[simp] theorem R_map_error {α β} (f : α → β) (e : PyErr) : (Except.error e : R α).map f = .error e := rfl

/-! ## §2 equality, truthiness, ordering, arithmetic on constructor-headed arguments -/

@[simp] theorem asInt?_int (i : Int) : (PV.int i).asInt? = some i := rfl
@[simp] theorem asInt?_bool (b : Bool) : (PV.bool b).asInt? = some (if b then 1 else 0) := rfl
@[simp] theorem asInt?_str (s : List Char) : (PV.str s).asInt? = Option.none := rfl
@[simp] theorem asInt?_list (l : List PV) : (PV.list l).asInt? = Option.none := rfl
@[simp] theorem asInt?_tup (l : List PV) : (PV.tup l).asInt? = Option.none := rfl
@[simp] theorem asInt?_none : PV.none.asInt? = Option.none := rfl
@[simp] theorem asInt?_unbound : PV.unbound.asInt? = Option.none := rfl

@[simp] theorem eqb_int (a b : Int) : PV.eqb (.int a) (.int b) = (a == b) := by simp [PV.eqb]
@[simp] theorem eqb_str (a b : List Char) : PV.eqb (.str a) (.str b) = (a == b) := by simp [PV.eqb]
@[simp] theorem eqb_bool (a b : Bool) : PV.eqb (.bool a) (.bool b) = (a == b) := by simp [PV.eqb]
@[simp] theorem eqb_list (a b : List PV) : PV.eqb (.list a) (.list b) = PV.eqbList a b := by simp [PV.eqb]
@[simp] theorem eqb_tup (a b : List PV) : PV.eqb (.tup a) (.tup b) = PV.eqbList a b := by simp [PV.eqb]
@[simp] theorem eqb_none : PV.eqb .none .none = true := by simp [PV.eqb]
@[simp] theorem eqb_int_str (a : Int) (b : List Char) : PV.eqb (.int a) (.str b) = false := by simp [PV.eqb]
@[simp] theorem eqb_str_int (a : List Char) (b : Int) : PV.eqb (.str a) (.int b) = false := by simp [PV.eqb]
@[simp] theorem eqbList_nil : PV.eqbList [] [] = true := by simp [PV.eqbList]
@[simp] theorem eqbList_cons (x y : PV) (xs ys : List PV) :
    PV.eqbList (x :: xs) (y :: ys) = (PV.eqb x y && PV.eqbList xs ys) := by simp [PV.eqbList]
@[simp] theorem eqbList_nil_cons (y : PV) (ys : List PV) : PV.eqbList [] (y :: ys) = false := by
  simp [PV.eqbList]
@[simp] theorem eqbList_cons_nil (x : PV) (xs : List PV) : PV.eqbList (x :: xs) [] = false := by
  simp [PV.eqbList]

/-- `==` on lists of ints is list equality. -/
theorem eqbList_ints (a b : List Int) : PV.eqbList (a.map .int) (b.map .int) = (a == b) := by
  induction a generalizing b with
  | nil => cases b <;> simp
  | cons x xs ih => cases b with
    | nil => simp
    | cons y ys => simp [ih]

/-- `==` on lists of one-character strings (what iterating a `str` gives). -/
theorem eqbList_strs (a b : List (List Char)) : PV.eqbList (a.map .str) (b.map .str) = (a == b) := by
  induction a generalizing b with
  | nil => cases b <;> simp
  | cons x xs ih => cases b with
    | nil => simp
    | cons y ys => simp [ih]

@[simp] theorem truthy_int (i : Int) : (PV.int i).truthy = (i != 0) := rfl
@[simp] theorem truthy_str (s : List Char) : (PV.str s).truthy = !s.isEmpty := rfl
@[simp] theorem truthy_list (l : List PV) : (PV.list l).truthy = !l.isEmpty := rfl
@[simp] theorem truthy_tup (l : List PV) : (PV.tup l).truthy = !l.isEmpty := rfl
@[simp] theorem truthy_bool (b : Bool) : (PV.bool b).truthy = b := rfl
@[simp] theorem truthy_none : PV.none.truthy = false := rfl
@[simp] theorem truthy_unbound : PV.unbound.truthy = false := rfl

@[simp] theorem pyEq_def (a b : PV) : pyEq a b = .ok (PV.eqb a b) := rfl
@[simp] theorem pyNe_def (a b : PV) : pyNe a b = .ok (!PV.eqb a b) := rfl

@[simp] theorem pyLt_int (a b : Int) : pyLt (.int a) (.int b) = .ok (decide (a < b)) := rfl
@[simp] theorem pyLe_int (a b : Int) : pyLe (.int a) (.int b) = .ok (decide (a ≤ b)) := rfl
@[simp] theorem pyGt_int (a b : Int) : pyGt (.int a) (.int b) = .ok (decide (b < a)) := rfl
@[simp] theorem pyGe_int (a b : Int) : pyGe (.int a) (.int b) = .ok (decide (b ≤ a)) := rfl
@[simp] theorem pyLt_str (s t : List Char) : pyLt (.str s) (.str t) = .ok (strLt s t) := rfl
@[simp] theorem pyLe_str (s t : List Char) : pyLe (.str s) (.str t) = .ok (!strLt t s) := rfl
@[simp] theorem pyGt_str (s t : List Char) : pyGt (.str s) (.str t) = .ok (strLt t s) := rfl
@[simp] theorem pyGe_str (s t : List Char) : pyGe (.str s) (.str t) = .ok (!strLt s t) := rfl
@[simp] theorem pyLt_int_str (a : Int) (t : List Char) : pyLt (.int a) (.str t) = .error .typeError := rfl
@[simp] theorem pyLt_str_int (s : List Char) (b : Int) : pyLt (.str s) (.int b) = .error .typeError := rfl
@[simp] theorem pyLe_int_str (a : Int) (t : List Char) : pyLe (.int a) (.str t) = .error .typeError := rfl
@[simp] theorem pyLe_str_int (s : List Char) (b : Int) : pyLe (.str s) (.int b) = .error .typeError := rfl

/-- ℕ-cast forms of the comparisons (the ties state everything over `ℕ`). -/
theorem pyLt_nat (a b : Nat) : pyLt (.int a) (.int b) = .ok (decide (a < b)) := by simp
theorem pyLe_nat (a b : Nat) : pyLe (.int a) (.int b) = .ok (decide (a ≤ b)) := by simp
theorem pyGt_nat (a b : Nat) : pyGt (.int a) (.int b) = .ok (decide (b < a)) := by simp
theorem pyGe_nat (a b : Nat) : pyGe (.int a) (.int b) = .ok (decide (b ≤ a)) := by simp

@[simp] theorem strLt_nil_nil : strLt [] [] = false := rfl
@[simp] theorem strLt_nil_cons (b : Char) (bs : List Char) : strLt [] (b :: bs) = true := rfl
@[simp] theorem strLt_cons_nil (a : Char) (as : List Char) : strLt (a :: as) [] = false := rfl
theorem strLt_cons_cons (a b : Char) (as bs : List Char) :
    strLt (a :: as) (b :: bs) =
      if a.toNat < b.toNat then true else if a.toNat > b.toNat then false else strLt as bs := rfl
/-- one-character strings compare by code point. -/
@[simp] theorem strLt_singleton (a b : Char) : strLt [a] [b] = decide (a.toNat < b.toNat) := by
  simp [strLt_cons_cons]
theorem strLt_irrefl (s : List Char) : strLt s s = false := by
  induction s with
  | nil => rfl
  | cons a as ih => simp [strLt_cons_cons, ih]

@[simp] theorem pyAdd_int (a b : Int) : pyAdd (.int a) (.int b) = .ok (.int (a + b)) := rfl
@[simp] theorem pyAdd_str (s t : List Char) : pyAdd (.str s) (.str t) = .ok (.str (s ++ t)) := rfl
@[simp] theorem pyAdd_list (s t : List PV) : pyAdd (.list s) (.list t) = .ok (.list (s ++ t)) := rfl
@[simp] theorem pyAdd_tup (s t : List PV) : pyAdd (.tup s) (.tup t) = .ok (.tup (s ++ t)) := rfl
@[simp] theorem pyAdd_int_str (a : Int) (t : List Char) : pyAdd (.int a) (.str t) = .error .typeError := rfl
@[simp] theorem pyAdd_str_int (s : List Char) (b : Int) : pyAdd (.str s) (.int b) = .error .typeError := rfl
@[simp] theorem pySub_int (a b : Int) : pySub (.int a) (.int b) = .ok (.int (a - b)) := rfl
@[simp] theorem pyNeg_int (a : Int) : pyNeg (.int a) = .ok (.int (-a)) := rfl
@[simp] theorem pyMul_int (a b : Int) : pyMul (.int a) (.int b) = .ok (.int (a * b)) := rfl
@[simp] theorem pyMul_str_int (s : List Char) (n : Int) :
    pyMul (.str s) (.int n) = .ok (.str (replicateList n s)) := rfl
@[simp] theorem pyMul_list_int (l : List PV) (n : Int) :
    pyMul (.list l) (.int n) = .ok (.list (replicateList n l)) := rfl
@[simp] theorem pyMul_int_str (n : Int) (s : List Char) :
    pyMul (.int n) (.str s) = .ok (.str (replicateList n s)) := rfl
@[simp] theorem pyMul_int_list (n : Int) (l : List PV) :
    pyMul (.int n) (.list l) = .ok (.list (replicateList n l)) := rfl

theorem pyAdd_nat (a b : Nat) : pyAdd (.int a) (.int b) = .ok (.int ((a + b : Nat) : Int)) := by simp
theorem pyMul_nat (a b : Nat) : pyMul (.int a) (.int b) = .ok (.int ((a * b : Nat) : Int)) := by simp
/-- `a - b` over `ℕ` when it does not go negative. -/
theorem pySub_nat {a b : Nat} (h : b ≤ a) : pySub (.int a) (.int b) = .ok (.int ((a - b : Nat) : Int)) := by
  simp; omega

/-- `[x] * n` — sequence repetition of a one-element sequence. -/
theorem replicateList_singleton {α} (n : Int) (x : α) : replicateList n [x] = List.replicate n.toNat x := by
  unfold replicateList
  induction n.toNat with
  | zero => rfl
  | succ k ih => simp [List.replicate_succ, ih]
@[simp] theorem replicateList_natCast_singleton {α} (n : Nat) (x : α) :
    replicateList (n : Int) [x] = List.replicate n x := by simp [replicateList_singleton]
theorem replicateList_of_nonpos {α} {n : Int} (h : n ≤ 0) (l : List α) : replicateList n l = [] := by
  have : n.toNat = 0 := by omega
  simp [replicateList, this]
/-- `a - b` as a repeat count: truncated subtraction. -/
theorem toNat_sub_natCast (a b : Nat) : ((a : Int) - (b : Int)).toNat = a - b := by omega

@[simp] theorem pyFloorDiv_int {a b : Int} (h : b ≠ 0) :
    pyFloorDiv (.int a) (.int b) = .ok (.int (Int.fdiv a b)) := by simp [pyFloorDiv, h]
@[simp] theorem pyMod_int {a b : Int} (h : b ≠ 0) :
    pyMod (.int a) (.int b) = .ok (.int (Int.fmod a b)) := by simp [pyMod, h]
@[simp] theorem pyDivmod_int {a b : Int} (h : b ≠ 0) :
    pyDivmod (.int a) (.int b) = .ok (.tup [.int (Int.fdiv a b), .int (Int.fmod a b)]) := by
  simp [pyDivmod, h]
@[simp] theorem pyFloorDiv_zero (a : Int) : pyFloorDiv (.int a) (.int 0) = .error .other := by
  simp [pyFloorDiv]
@[simp] theorem pyMod_zero (a : Int) : pyMod (.int a) (.int 0) = .error .other := by simp [pyMod]
@[simp] theorem pyDivmod_zero (a : Int) : pyDivmod (.int a) (.int 0) = .error .other := by simp [pyDivmod]

theorem fdiv_natCast (a b : Nat) : Int.fdiv (a : Int) (b : Int) = ((a / b : Nat) : Int) := by
  rw [Int.fdiv_eq_ediv_of_nonneg _ (Int.natCast_nonneg b)]; rfl
theorem fmod_natCast (a b : Nat) : Int.fmod (a : Int) (b : Int) = ((a % b : Nat) : Int) := by
  rw [Int.fmod_eq_emod_of_nonneg _ (Int.natCast_nonneg b)]; rfl

theorem pyFloorDiv_nat {a b : Nat} (h : b ≠ 0) :
    pyFloorDiv (.int a) (.int b) = .ok (.int ((a / b : Nat) : Int)) := by
  rw [pyFloorDiv_int (by omega), fdiv_natCast]
theorem pyMod_nat {a b : Nat} (h : b ≠ 0) :
    pyMod (.int a) (.int b) = .ok (.int ((a % b : Nat) : Int)) := by
  rw [pyMod_int (by omega), fmod_natCast]
theorem pyDivmod_nat {a b : Nat} (h : b ≠ 0) :
    pyDivmod (.int a) (.int b) = .ok (.tup [.int ((a / b : Nat) : Int), .int ((a % b : Nat) : Int)]) := by
  rw [pyDivmod_int (by omega), fdiv_natCast, fmod_natCast]

/-- the same with the literals the generated code contains (`x // 10`, `x % 10`, `divmod(x, 2)`):
`PV.int 10` is not syntactically `PV.int ((10 : ℕ) : ℤ)`, so `rw [pyMod_nat]` would not fire. -/
theorem pyFloorDiv_nat_ten (a : Nat) : pyFloorDiv (.int a) (.int 10) = .ok (.int ((a / 10 : Nat) : Int)) :=
  pyFloorDiv_nat (a := a) (b := 10) (by omega)
theorem pyMod_nat_ten (a : Nat) : pyMod (.int a) (.int 10) = .ok (.int ((a % 10 : Nat) : Int)) :=
  pyMod_nat (a := a) (b := 10) (by omega)
theorem pyDivmod_nat_ten (a : Nat) :
    pyDivmod (.int a) (.int 10) = .ok (.tup [.int ((a / 10 : Nat) : Int), .int ((a % 10 : Nat) : Int)]) :=
  pyDivmod_nat (a := a) (b := 10) (by omega)
theorem pyFloorDiv_nat_two (a : Nat) : pyFloorDiv (.int a) (.int 2) = .ok (.int ((a / 2 : Nat) : Int)) :=
  pyFloorDiv_nat (a := a) (b := 2) (by omega)
theorem pyMod_nat_two (a : Nat) : pyMod (.int a) (.int 2) = .ok (.int ((a % 2 : Nat) : Int)) :=
  pyMod_nat (a := a) (b := 2) (by omega)
theorem pyDivmod_nat_two (a : Nat) :
    pyDivmod (.int a) (.int 2) = .ok (.tup [.int ((a / 2 : Nat) : Int), .int ((a % 2 : Nat) : Int)]) :=
  pyDivmod_nat (a := a) (b := 2) (by omega)
theorem pyDivmod_nat_four (a : Nat) :
    pyDivmod (.int a) (.int 4) = .ok (.tup [.int ((a / 4 : Nat) : Int), .int ((a % 4 : Nat) : Int)]) :=
  pyDivmod_nat (a := a) (b := 4) (by omega)
/-- comparison with the literal `0` (`while x > 0`). -/
theorem pyGt_nat_zero (a : Nat) : pyGt (.int a) (.int 0) = .ok (decide (0 < a)) := by simp
/-- comparison with the literal `10` (`if x < 10`, `if x >= 10`). -/
theorem pyLt_nat_ten (a : Nat) : pyLt (.int a) (.int 10) = .ok (decide (a < 10)) := by
  simpa using pyLt_nat a 10
theorem pyGe_nat_ten (a : Nat) : pyGe (.int a) (.int 10) = .ok (decide (10 ≤ a)) := by
  simpa using pyGe_nat a 10

@[simp] theorem pyTypeIs_str_str (s : List Char) : pyTypeIs (.str s) "str" = true := rfl
@[simp] theorem pyTypeIs_int_int (i : Int) : pyTypeIs (.int i) "int" = true := rfl
@[simp] theorem pyTypeIs_int_str (i : Int) : pyTypeIs (.int i) "str" = false := by
  simp [pyTypeIs]
@[simp] theorem pyTypeIs_str_int (s : List Char) : pyTypeIs (.str s) "int" = false := by
  simp [pyTypeIs]
@[simp] theorem pyTypeIs_list_list (l : List PV) : pyTypeIs (.list l) "list" = true := rfl

/-! ## §3 lengths, subscripts, slices, list updates -/

@[simp] theorem pyLen_list (l : List PV) : pyLen (.list l) = .ok (.int l.length) := rfl
@[simp] theorem pyLen_tup (l : List PV) : pyLen (.tup l) = .ok (.int l.length) := rfl
@[simp] theorem pyLen_str (s : List Char) : pyLen (.str s) = .ok (.int s.length) := rfl

theorem normIndex_natCast {n i : Nat} (h : i < n) : normIndex n (i : Int) = some i := by
  have h1 : ¬ ((i : Int) < 0) := by omega
  simp [normIndex, h1, h]
theorem normIndex_zero {n : Nat} (h : 0 < n) : normIndex n 0 = some 0 := normIndex_natCast h
/-- a negative index `-k` with `1 ≤ k ≤ n` counts from the end. -/
theorem normIndex_neg {n k : Nat} (h0 : 0 < k) (h : k ≤ n) : normIndex n (-(k : Int)) = some (n - k) := by
  have h1 : (-(k : Int) < 0) := by omega
  have h2 : 0 ≤ -(k : Int) + n ∧ -(k : Int) + n < n := by omega
  simp only [normIndex, h1, h2, if_true, and_self]
  congr 1; omega
theorem normIndex_neg_one {n : Nat} (h : 0 < n) : normIndex n (-1) = some (n - 1) :=
  normIndex_neg (k := 1) (by omega) h
/-- `seq[len(seq) - 1 - i]`-style indices: any non-negative `Int` below `n`. -/
theorem normIndex_of_nonneg {n : Nat} {i : Int} (h0 : 0 ≤ i) (h : i < n) : normIndex n i = some i.toNat := by
  have h1 : ¬ (i < 0) := by omega
  simp [normIndex, h1, h0, h]
theorem normIndex_of_ge {n : Nat} {i : Int} (h : (n : Int) ≤ i) : normIndex n i = Option.none := by
  have h1 : ¬ (i < 0) := by omega
  have h2 : ¬ (i < n) := by omega
  simp [normIndex, h1, h2]
theorem normIndex_nil (i : Int) : normIndex 0 i = Option.none := by
  simp only [normIndex]; split <;> simp <;> omega

theorem pyIndex_list_nat {l : List PV} {i : Nat} (h : i < l.length) :
    pyIndex (.list l) (.int i) = .ok l[i] := by
  simp [pyIndex, pyIndexSeq, normIndex_natCast h, List.getD_eq_getElem?_getD, List.getElem?_eq_getElem h]
theorem pyIndex_list_getD {l : List PV} {i : Nat} (h : i < l.length) :
    pyIndex (.list l) (.int i) = .ok (l.getD i .none) := by
  simp [pyIndex, pyIndexSeq, normIndex_natCast h]
theorem pyIndex_tup_nat {l : List PV} {i : Nat} (h : i < l.length) :
    pyIndex (.tup l) (.int i) = .ok l[i] := by
  simp [pyIndex, pyIndexSeq, normIndex_natCast h, List.getD_eq_getElem?_getD, List.getElem?_eq_getElem h]
theorem pyIndex_str_nat {s : List Char} {i : Nat} (h : i < s.length) :
    pyIndex (.str s) (.int i) = .ok (.str [s[i]]) := by
  simp [pyIndex, pyIndexSeq, normIndex_natCast h, List.getD_eq_getElem?_getD, List.getElem?_eq_getElem h]
theorem pyIndex_str_getD {s : List Char} {i : Nat} (h : i < s.length) :
    pyIndex (.str s) (.int i) = .ok (.str [s.getD i 'A']) := by
  simp [pyIndex, pyIndexSeq, normIndex_natCast h]
/-- index given as a non-negative `Int` (e.g. the result of `len(x) - 1 - i`). -/
theorem pyIndex_list_int {l : List PV} {i : Int} (h0 : 0 ≤ i) (h : i < l.length) :
    pyIndex (.list l) (.int i) = .ok (l.getD i.toNat .none) := by
  simp [pyIndex, pyIndexSeq, normIndex_of_nonneg h0 h]
theorem pyIndex_str_int {s : List Char} {i : Int} (h0 : 0 ≤ i) (h : i < s.length) :
    pyIndex (.str s) (.int i) = .ok (.str [s.getD i.toNat 'A']) := by
  simp [pyIndex, pyIndexSeq, normIndex_of_nonneg h0 h]
theorem pyIndex_list_of_ge {l : List PV} {i : Int} (h : (l.length : Int) ≤ i) :
    pyIndex (.list l) (.int i) = .error .indexError := by
  simp [pyIndex, pyIndexSeq, normIndex_of_ge h]
theorem pyIndex_str_of_ge {s : List Char} {i : Int} (h : (s.length : Int) ≤ i) :
    pyIndex (.str s) (.int i) = .error .indexError := by
  simp [pyIndex, pyIndexSeq, normIndex_of_ge h]

@[simp] theorem pyIndex_list_cons_zero (x : PV) (xs : List PV) :
    pyIndex (.list (x :: xs)) (.int 0) = .ok x :=
  pyIndex_list_nat (l := x :: xs) (i := 0) (by simp)
@[simp] theorem pyIndex_tup_cons_zero (x : PV) (xs : List PV) :
    pyIndex (.tup (x :: xs)) (.int 0) = .ok x :=
  pyIndex_tup_nat (l := x :: xs) (i := 0) (by simp)
@[simp] theorem pyIndex_str_cons_zero (c : Char) (cs : List Char) :
    pyIndex (.str (c :: cs)) (.int 0) = .ok (.str [c]) :=
  pyIndex_str_nat (s := c :: cs) (i := 0) (by simp)
@[simp] theorem pyIndex_list_nil (i : Int) : pyIndex (.list []) (.int i) = .error .indexError := by
  simp [pyIndex, pyIndexSeq, normIndex_nil]
@[simp] theorem pyIndex_str_nil (i : Int) : pyIndex (.str []) (.int i) = .error .indexError := by
  simp [pyIndex, pyIndexSeq, normIndex_nil]

/-- `l[-1]` right after `l.append(x)`. -/
@[simp] theorem pyIndex_list_append_singleton_neg_one (l : List PV) (x : PV) :
    pyIndex (.list (l ++ [x])) (.int (-1)) = .ok x := by
  simp [pyIndex, pyIndexSeq, normIndex_neg_one (n := l.length + 1) (by omega)]
theorem pyIndex_list_neg_one {l : List PV} (h : l ≠ []) :
    pyIndex (.list l) (.int (-1)) = .ok (l.getLast h) := by
  have hl : 0 < l.length := List.length_pos_iff.mpr h
  simp [pyIndex, pyIndexSeq, normIndex_neg_one hl, List.getD_eq_getElem?_getD, List.getLast_eq_getElem,
    List.getElem?_eq_getElem (show l.length - 1 < l.length by omega)]
theorem pyIndex_str_neg_one {s : List Char} (h : s ≠ []) :
    pyIndex (.str s) (.int (-1)) = .ok (.str [s.getLast h]) := by
  have hl : 0 < s.length := List.length_pos_iff.mpr h
  simp [pyIndex, pyIndexSeq, normIndex_neg_one hl, List.getD_eq_getElem?_getD, List.getLast_eq_getElem,
    List.getElem?_eq_getElem (show s.length - 1 < s.length by omega)]

/-! ### slices -/

@[simp] theorem boundOr_none (d : Int) : boundOr .none d = .ok d := rfl
@[simp] theorem boundOr_int (i d : Int) : boundOr (.int i) d = .ok i := rfl

@[simp] theorem pyNorm_natCast (n a : Nat) : pyNorm n (a : Int) = min a n := by
  simp only [pyNorm]; rw [if_neg (by omega)]; rfl
@[simp] theorem pyNorm_zero (n : Nat) : pyNorm n 0 = 0 := by simpa using pyNorm_natCast n 0
@[simp] theorem pyNorm_one (n : Nat) : pyNorm n 1 = min 1 n := pyNorm_natCast n 1
theorem pyNorm_neg {n k : Nat} (h : 0 < k) : pyNorm n (-(k : Int)) = n - k := by
  simp only [pyNorm]; rw [if_pos (by omega)]; omega

/-- `l[a:b]` for non-negative bounds. -/
theorem pySlice_nat {α} (l : List α) (a b : Nat) : pySlice l (a : Int) (b : Int) = (l.drop a).take (b - a) := by
  simp only [pySlice, pyNorm_natCast]
  by_cases ha : a ≤ l.length
  · rw [Nat.min_eq_left ha]
    by_cases hb : b ≤ l.length
    · rw [Nat.min_eq_left hb]
    · rw [Nat.min_eq_right (by omega), List.take_of_length_le (by simp), List.take_of_length_le (by simp; omega)]
  · have h1 : min a l.length = l.length := by omega
    rw [h1, List.drop_of_length_le (Nat.le_refl _), List.drop_of_length_le (by omega)]; simp
/-- `l[a:]`. -/
theorem pySlice_from {α} (l : List α) (a : Nat) : pySlice l (a : Int) (l.length : Int) = l.drop a := by
  rw [pySlice_nat, List.take_of_length_le (by simp)]
/-- `l[:b]`. -/
theorem pySlice_to {α} (l : List α) (b : Nat) : pySlice l 0 (b : Int) = l.take b := by
  simpa using pySlice_nat l 0 b

@[simp] theorem pySliceV_list_from (l : List PV) (a : Nat) :
    pySliceV (.list l) (.int a) .none = .ok (.list (l.drop a)) := by
  simp [pySliceV, pySlice_from]
@[simp] theorem pySliceV_str_from (s : List Char) (a : Nat) :
    pySliceV (.str s) (.int a) .none = .ok (.str (s.drop a)) := by
  simp [pySliceV, pySlice_from]
@[simp] theorem pySliceV_list_to (l : List PV) (b : Nat) :
    pySliceV (.list l) .none (.int b) = .ok (.list (l.take b)) := by
  simp [pySliceV, pySlice_to]
@[simp] theorem pySliceV_str_to (s : List Char) (b : Nat) :
    pySliceV (.str s) .none (.int b) = .ok (.str (s.take b)) := by
  simp [pySliceV, pySlice_to]
@[simp] theorem pySliceV_list_nat (l : List PV) (a b : Nat) :
    pySliceV (.list l) (.int a) (.int b) = .ok (.list ((l.drop a).take (b - a))) := by
  simp [pySliceV, pySlice_nat]
@[simp] theorem pySliceV_str_nat (s : List Char) (a b : Nat) :
    pySliceV (.str s) (.int a) (.int b) = .ok (.str ((s.drop a).take (b - a))) := by
  simp [pySliceV, pySlice_nat]
/-- `x[1:]` with the literal `1`. -/
@[simp] theorem pySliceV_list_from_one (l : List PV) :
    pySliceV (.list l) (.int 1) .none = .ok (.list l.tail) := by
  simpa using pySliceV_list_from l 1
@[simp] theorem pySliceV_str_from_one (s : List Char) :
    pySliceV (.str s) (.int 1) .none = .ok (.str s.tail) := by
  simpa using pySliceV_str_from s 1
@[simp] theorem pySliceV_list_from_zero (l : List PV) :
    pySliceV (.list l) (.int 0) .none = .ok (.list l) := by
  simpa using pySliceV_list_from l 0
@[simp] theorem pySliceV_str_from_zero (s : List Char) :
    pySliceV (.str s) (.int 0) .none = .ok (.str s) := by
  simpa using pySliceV_str_from s 0

@[simp] theorem pyReverse_list (l : List PV) : pyReverse (.list l) = .ok (.list l.reverse) := rfl
@[simp] theorem pyReverse_tup (l : List PV) : pyReverse (.tup l) = .ok (.tup l.reverse) := rfl
@[simp] theorem pyReverse_str (s : List Char) : pyReverse (.str s) = .ok (.str s.reverse) := rfl

/-! ### list updates -/

theorem pySetItem_list_nat {l : List PV} {i : Nat} (h : i < l.length) (x : PV) :
    pySetItem (.list l) (.int i) x = .ok (.list (l.set i x)) := by
  simp [pySetItem, pySetItemSeq, normIndex_natCast h]
theorem pySetItem_list_int {l : List PV} {i : Int} (h0 : 0 ≤ i) (h : i < l.length) (x : PV) :
    pySetItem (.list l) (.int i) x = .ok (.list (l.set i.toNat x)) := by
  simp [pySetItem, pySetItemSeq, normIndex_of_nonneg h0 h]
@[simp] theorem pySetItem_list_cons_zero (y : PV) (l : List PV) (x : PV) :
    pySetItem (.list (y :: l)) (.int 0) x = .ok (.list (x :: l)) :=
  pySetItem_list_nat (l := y :: l) (i := 0) (by simp) x

@[simp] theorem pyInsert_list_zero (l : List PV) (x : PV) :
    pyInsert (.list l) (.int 0) x = .ok (.list (x :: l)) := by
  simp [pyInsert]
theorem pyInsert_list_nat (l : List PV) (i : Nat) (x : PV) :
    pyInsert (.list l) (.int i) x = .ok (.list (l.take i ++ x :: l.drop i)) := by
  simp only [pyInsert, asInt?_int, pyNorm_natCast]
  by_cases h : i ≤ l.length
  · rw [Nat.min_eq_left h]
  · rw [Nat.min_eq_right (by omega), List.take_of_length_le (Nat.le_refl _), List.drop_of_length_le (Nat.le_refl _),
      List.take_of_length_le (by omega), List.drop_of_length_le (by omega)]

@[simp] theorem pyAppend_list (l : List PV) (x : PV) : pyAppend (.list l) x = .ok (.list (l ++ [x])) := rfl

/-! ### tuple unpacking -/

theorem pyUnpack_tup {n : Nat} {l : List PV} (h : l.length = n) : pyUnpack n (.tup l) = .ok l := by
  simp [pyUnpack, pyIter, h]
theorem pyUnpack_list {n : Nat} {l : List PV} (h : l.length = n) : pyUnpack n (.list l) = .ok l := by
  simp [pyUnpack, pyIter, h]
@[simp] theorem pyUnpack_two_tup (a b : PV) : pyUnpack 2 (.tup [a, b]) = .ok [a, b] := rfl
@[simp] theorem pyUnpack_two_list (a b : PV) : pyUnpack 2 (.list [a, b]) = .ok [a, b] := rfl
@[simp] theorem pyUnpack_three_tup (a b c : PV) : pyUnpack 3 (.tup [a, b, c]) = .ok [a, b, c] := rfl
/-- the generated code reads the components with `List.getD`. -/
@[simp] theorem getD_cons_zero' {α} (x : α) (xs : List α) (d : α) : (x :: xs).getD 0 d = x := rfl
@[simp] theorem getD_cons_one' {α} (x y : α) (xs : List α) (d : α) : (x :: y :: xs).getD 1 d = y := rfl

/-! ### `zfill` -/

/-- `s.zfill(n)` for a string that does not start with a sign. -/
theorem pyZfill_of_no_sign {cs : List Char} (h : ∀ c ∈ cs.head?, c ≠ '-' ∧ c ≠ '+') (n : Int) :
    pyZfill (.str cs) (.int n) = .ok (.str (List.replicate (n.toNat - cs.length) '0' ++ cs)) := by
  cases cs with
  | nil => rfl
  | cons c r =>
    have hc := h c (by simp)
    unfold pyZfill
    split
    · next h1 _ => simp at h1; exact absurd h1.1 hc.1
    · next h1 _ => simp at h1; exact absurd h1.1 hc.2
    · next h1 h2 => simp at h1 h2; subst h1 h2; rfl
    · next hne => exact absurd rfl (hne _ _ rfl)

/-! ## §4 iteration: `pyIter`, `list()`, `map`, `join`, `range`, `enumerate` -/

@[simp] theorem pyIter_list (l : List PV) : pyIter (.list l) = .ok l := rfl
@[simp] theorem pyIter_tup (l : List PV) : pyIter (.tup l) = .ok l := rfl
@[simp] theorem pyIter_str (s : List Char) : pyIter (.str s) = .ok (s.map fun c => .str [c]) := rfl
@[simp] theorem pyIter_int (i : Int) : pyIter (.int i) = .error .typeError := rfl
@[simp] theorem pyList_list (l : List PV) : pyList (.list l) = .ok (.list l) := rfl
@[simp] theorem pyList_tup (l : List PV) : pyList (.tup l) = .ok (.list l) := rfl
@[simp] theorem pyList_str (s : List Char) : pyList (.str s) = .ok (.list (s.map fun c => .str [c])) := rfl

@[simp] theorem mapM'_nil (f : PV → RV) : mapM' f [] = .ok [] := rfl
theorem mapM'_cons (f : PV → RV) (x : PV) (xs : List PV) :
    mapM' f (x :: xs) = bnd (f x) fun y => bnd (mapM' f xs) fun ys => .ok (y :: ys) := by
  simp only [mapM', bnd]
  cases f x with
  | error e => rfl
  | ok y => cases mapM' f xs <;> rfl
/-- a comprehension whose function succeeds on every item. -/
theorem mapM'_eq_map {f : PV → RV} {g : PV → PV} {l : List PV} (h : ∀ x ∈ l, f x = .ok (g x)) :
    mapM' f l = .ok (l.map g) := by
  induction l with
  | nil => rfl
  | cons x xs ih =>
    rw [mapM'_cons, h x (by simp), ih (fun y hy => h y (by simp [hy]))]; rfl
/-- the same over an embedded list `l.map emb`. -/
theorem mapM'_map {α} {f : PV → RV} {emb : α → PV} {g : α → PV} {l : List α}
    (h : ∀ a ∈ l, f (emb a) = .ok (g a)) : mapM' f (l.map emb) = .ok (l.map g) := by
  induction l with
  | nil => rfl
  | cons x xs ih =>
    rw [List.map_cons, mapM'_cons, h x (by simp), ih (fun y hy => h y (by simp [hy]))]; rfl
/-- the first failing item decides. -/
theorem mapM'_error {f : PV → RV} {g : PV → PV} {l r : List PV} {x : PV} {err : PyErr}
    (h : ∀ y ∈ l, f y = .ok (g y)) (hx : f x = .error err) : mapM' f (l ++ x :: r) = .error err := by
  induction l with
  | nil => simp [mapM'_cons, hx]
  | cons y ys ih =>
    rw [List.cons_append, mapM'_cons, h y (by simp), ih (fun z hz => h z (by simp [hz]))]; rfl

@[simp] theorem pyMap_list (f : PV → RV) (l : List PV) : pyMap f (.list l) = (mapM' f l).map .list := rfl
@[simp] theorem pyMap_tup (f : PV → RV) (l : List PV) : pyMap f (.tup l) = (mapM' f l).map .list := rfl
@[simp] theorem pyMap_str (f : PV → RV) (s : List Char) :
    pyMap f (.str s) = (mapM' f (s.map fun c => .str [c])).map .list := rfl
theorem pyMap_list_eq {f : PV → RV} {g : PV → PV} {l : List PV} (h : ∀ x ∈ l, f x = .ok (g x)) :
    pyMap f (.list l) = .ok (.list (l.map g)) := by simp [mapM'_eq_map h]
theorem pyMap_list_map {α} {f : PV → RV} {emb : α → PV} {g : α → PV} {l : List α}
    (h : ∀ a ∈ l, f (emb a) = .ok (g a)) : pyMap f (.list (l.map emb)) = .ok (.list (l.map g)) := by
  simp [mapM'_map h]
theorem pyMap_str_eq {f : PV → RV} {g : Char → PV} {s : List Char} (h : ∀ c ∈ s, f (.str [c]) = .ok (g c)) :
    pyMap f (.str s) = .ok (.list (s.map g)) := by
  simp [mapM'_map (emb := fun c => PV.str [c]) h]

/-- `"".join(items)` on strings. -/
theorem joinStrs_nil_sep (l : List (List Char)) : joinStrs [] (l.map .str) = .ok l.flatten := by
  induction l with
  | nil => rfl
  | cons s r ih =>
    cases r with
    | nil => simp [joinStrs]
    | cons t r' =>
      rw [List.map_cons, List.map_cons, joinStrs]
      · rw [← List.map_cons, ih]; simp
      · intro h; cases h
theorem joinStrs_sep (sep : List Char) (l : List (List Char)) :
    joinStrs sep (l.map .str) = .ok (sep.intercalate l) := by
  induction l with
  | nil => rfl
  | cons s r ih =>
    cases r with
    | nil => simp [joinStrs, List.intercalate]
    | cons t r' =>
      rw [List.map_cons, List.map_cons, joinStrs]
      · rw [← List.map_cons, ih]; simp [List.intercalate, List.intersperse]
      · intro h; cases h
@[simp] theorem pyJoin_list_strs (sep : List Char) (l : List (List Char)) :
    pyJoin (.str sep) (.list (l.map .str)) = .ok (.str (sep.intercalate l)) := by
  simp [pyJoin, joinStrs_sep]
theorem pyJoin_empty_list_strs (l : List (List Char)) :
    pyJoin (.str []) (.list (l.map .str)) = .ok (.str l.flatten) := by
  simp [pyJoin, joinStrs_nil_sep]
/-- `"".join` of one-character strings `[g a | a ∈ l]`. -/
theorem pyJoin_empty_chars {α} (g : α → Char) (l : List α) :
    pyJoin (.str []) (.list (l.map fun a => .str [g a])) = .ok (.str (l.map g)) := by
  have h : (l.map fun a => PV.str [g a]) = (l.map fun a => [g a]).map PV.str := by simp
  rw [h, pyJoin_empty_list_strs]
  congr 2
  induction l with
  | nil => rfl
  | cons a r ih => simp [ih]
theorem pyJoin_non_str {sep : List Char} {l r : List PV} {x : PV} (hl : ∀ y ∈ l, ∃ s, y = .str s)
    (hx : ∀ s, x ≠ .str s) : pyJoin (.str sep) (.list (l ++ x :: r)) = .error .typeError := by
  have : joinStrs sep (l ++ x :: r) = .error .typeError := by
    induction l with
    | nil =>
      cases x <;> first | rfl | exact absurd rfl (hx _)
    | cons y ys ih =>
      obtain ⟨s, rfl⟩ := hl y (by simp)
      have ih' := ih (fun z hz => hl z (by simp [hz]))
      cases hys : ys ++ x :: r with
      | nil => simp at hys
      | cons z zs =>
        rw [List.cons_append, hys, joinStrs]
        · rw [← hys, ih']; rfl
        · intro h; cases h
  simp [pyJoin, this]

/-! ### ranges -/

theorem rangeList_step_one (a b : Int) :
    rangeList a b 1 = (List.range (b - a).toNat).map fun (i : Nat) => a + (i : Int) := by
  simp [rangeList]
/-- `range(n)`. -/
theorem rangeList_zero_natCast (n : Nat) : rangeList 0 (n : Int) 1 = (List.range n).map fun (i : Nat) => (i : Int) := by
  simp [rangeList]
/-- `range(a, b)` over `ℕ`. -/
theorem rangeList_natCast (a b : Nat) :
    rangeList (a : Int) (b : Int) 1 = (List.range' a (b - a)).map fun (i : Nat) => (i : Int) := by
  rw [rangeList_step_one, List.range'_eq_map_range, List.map_map]
  have : ((b : Int) - (a : Int)).toNat = b - a := by omega
  rw [this]; apply List.map_congr_left; intro i _; simp
theorem rangeList_step_neg_one (a b : Int) :
    rangeList a b (-1) = (List.range (a - b).toNat).map fun (i : Nat) => a - (i : Int) := by
  simp [rangeList]
  intro i _; omega
theorem map_sub_range_eq_reverse (n : Nat) : (List.range n).map (fun i => n - 1 - i) = (List.range n).reverse := by
  apply List.ext_getElem (by simp)
  intro i h1 h2
  simp at h1
  simp
/-- `range(n - 1, -1, -1)`: the indices `n-1, …, 0`. -/
theorem rangeList_down (n : Nat) :
    rangeList ((n : Int) - 1) (-1) (-1) = (List.range n).reverse.map fun (i : Nat) => (i : Int) := by
  rw [rangeList_step_neg_one, ← map_sub_range_eq_reverse, List.map_map]
  have : ((n : Int) - 1 - (-1)).toNat = n := by omega
  rw [this]; apply List.map_congr_left; intro i hi
  have := List.mem_range.mp hi
  simp only [Function.comp]; omega
/-- `range(m, -1, -1)` for a natural `m`: the indices `m, …, 0`. -/
theorem rangeList_down' (m : Nat) :
    rangeList (m : Int) (-1) (-1) = (List.range (m + 1)).reverse.map fun (i : Nat) => (i : Int) := by
  have := rangeList_down (m + 1)
  simpa using this

@[simp] theorem pyRange3_int (a b s : Int) (h : s ≠ 0) :
    pyRange3 (.int a) (.int b) (.int s) = .ok (.list ((rangeList a b s).map .int)) := by
  simp [pyRange3, h]
@[simp] theorem pyRange2_int (a b : Int) :
    pyRange2 (.int a) (.int b) = .ok (.list ((rangeList a b 1).map .int)) := by
  simp [pyRange2, pyRange3]
@[simp] theorem pyRange1_int (b : Int) :
    pyRange1 (.int b) = .ok (.list ((rangeList 0 b 1).map .int)) := by
  simp [pyRange1, pyRange3]
/-- `range(n)` over `ℕ`, as a Python list. -/
theorem pyRange1_nat (n : Nat) :
    pyRange1 (.int n) = .ok (.list ((List.range n).map fun (i : Nat) => .int (i : Int))) := by
  simp [rangeList_zero_natCast]
theorem pyRange2_nat (a b : Nat) :
    pyRange2 (.int a) (.int b) = .ok (.list ((List.range' a (b - a)).map fun (i : Nat) => .int (i : Int))) := by
  simp [rangeList_natCast]
/-- `range(n - 1, -1, -1)` over `ℕ`, as a Python list. -/
theorem pyRange3_down (n : Nat) :
    pyRange3 (.int ((n : Int) - 1)) (.int (-1)) (.int (-1)) =
      .ok (.list ((List.range n).reverse.map fun (i : Nat) => .int (i : Int))) := by
  simp [rangeList_down]

/-! ### `enumerate` -/

@[simp] theorem enumFrom_nil (n : Nat) : enumFrom n [] = [] := rfl
@[simp] theorem enumFrom_cons (n : Nat) (x : PV) (xs : List PV) :
    enumFrom n (x :: xs) = .tup [.int n, x] :: enumFrom (n + 1) xs := rfl
@[simp] theorem length_enumFrom (n : Nat) (l : List PV) : (enumFrom n l).length = l.length := by
  induction l generalizing n with
  | nil => rfl
  | cons x xs ih => simp [ih]
theorem enumFrom_append (n : Nat) (l r : List PV) :
    enumFrom n (l ++ r) = enumFrom n l ++ enumFrom (n + l.length) r := by
  induction l generalizing n with
  | nil => rfl
  | cons x xs ih => simp [ih]; congr 1; omega
theorem getElem_enumFrom (n : Nat) (l : List PV) (i : Nat) (h : i < (enumFrom n l).length) :
    (enumFrom n l)[i] = .tup [.int ((n + i : Nat) : Int), l[i]'(by simpa using h)] := by
  induction l generalizing n i with
  | nil => simp at h
  | cons x xs ih =>
    cases i with
    | zero => simp
    | succ j =>
      simp only [enumFrom_cons, List.getElem_cons_succ]
      rw [ih]; congr 4; omega
/-- `enumerate` as a map over `zipIdx`. -/
theorem enumFrom_eq_map_zipIdx (n : Nat) (l : List PV) :
    enumFrom n l = (l.zipIdx n).map fun p => .tup [.int (p.2 : Int), p.1] := by
  induction l generalizing n with
  | nil => rfl
  | cons x xs ih => simp [ih]
@[simp] theorem pyEnumerate_list (l : List PV) : pyEnumerate (.list l) = .ok (.list (enumFrom 0 l)) := rfl
@[simp] theorem pyEnumerate_str (s : List Char) :
    pyEnumerate (.str s) = .ok (.list (enumFrom 0 (s.map fun c => .str [c]))) := rfl

/-! ## §5 decimal digits -/

/-- case analysis on a decimal digit (use as `obtain rfl|rfl|… := digit_cases h`). -/
theorem digit_cases {d : Nat} (h : d < 10) :
    d = 0 ∨ d = 1 ∨ d = 2 ∨ d = 3 ∨ d = 4 ∨ d = 5 ∨ d = 6 ∨ d = 7 ∨ d = 8 ∨ d = 9 := by omega

theorem toNat_digitChar {d : Nat} (h : d < 10) : (digitChar d).toNat = 48 + d := by
  revert d; decide
theorem digitChar_inj {a b : Nat} (ha : a < 10) (hb : b < 10) : digitChar a = digitChar b ↔ a = b := by
  constructor
  · intro h
    have := congrArg Char.toNat h
    rw [toNat_digitChar ha, toNat_digitChar hb] at this; omega
  · intro h; rw [h]
theorem digitChar_ne_minus {d : Nat} (h : d < 10) : digitChar d ≠ '-' := by
  intro he; have := congrArg Char.toNat he; rw [toNat_digitChar h] at this; revert this; decide +revert
theorem digitChar_ne_plus {d : Nat} (h : d < 10) : digitChar d ≠ '+' := by
  intro he; have := congrArg Char.toNat he; rw [toNat_digitChar h] at this; revert this; decide +revert
@[simp] theorem digitChar_zero : digitChar 0 = '0' := by decide
@[simp] theorem digitChar_one : digitChar 1 = '1' := by decide
@[simp] theorem digitChar_two : digitChar 2 = '2' := by decide
@[simp] theorem digitChar_four : digitChar 4 = '4' := by decide
theorem natDigits_digit {d : Nat} (h : d < 10) : natDigits d = [digitChar d] := by
  revert d; decide
theorem charDigit?_digitChar {d : Nat} (h : d < 10) : charDigit? (digitChar d) = some d := by
  revert d; decide

/-- one-character digit strings compare like the digits. -/
theorem strLt_digit {a b : Nat} (ha : a < 10) (hb : b < 10) :
    strLt [digitChar a] [digitChar b] = decide (a < b) := by
  rw [strLt_singleton, toNat_digitChar ha, toNat_digitChar hb]; simp
theorem beq_digit {a b : Nat} (ha : a < 10) (hb : b < 10) :
    ([digitChar a] == [digitChar b]) = decide (a = b) := by
  by_cases h : a = b
  · simp [h]
  · simp [h, digitChar_inj ha hb]
theorem pyLt_digit {a b : Nat} (ha : a < 10) (hb : b < 10) :
    pyLt (.str [digitChar a]) (.str [digitChar b]) = .ok (decide (a < b)) := by
  rw [pyLt_str, strLt_digit ha hb]
theorem eqb_digit {a b : Nat} (ha : a < 10) (hb : b < 10) :
    PV.eqb (.str [digitChar a]) (.str [digitChar b]) = decide (a = b) := by
  rw [eqb_str, beq_digit ha hb]

/-- `str(n)` for a natural number. -/
@[simp] theorem pyStr_nat (n : Nat) : pyStr (.int n) = .ok (.str (natDigits n)) := by
  have : ¬ ((n : Int) < 0) := by omega
  simp [pyStr, this]
theorem pyStr_digit {d : Nat} (h : d < 10) : pyStr (.int d) = .ok (.str [digitChar d]) := by
  rw [pyStr_nat, natDigits_digit h]
@[simp] theorem pyStr_str (s : List Char) : pyStr (.str s) = .ok (.str s) := rfl
@[simp] theorem pyStr_zero : pyStr (.int 0) = .ok (.str ['0']) := pyStr_digit (d := 0) (by omega)

@[simp] theorem pyInt_int (i : Int) : pyInt (.int i) = .ok (.int i) := rfl
@[simp] theorem pyInt_bool (b : Bool) : pyInt (.bool b) = .ok (.int (if b then 1 else 0)) := rfl
/-- `int(s)` for a string that does not start with a sign. -/
theorem pyInt_of_no_sign {cs : List Char} (h : ∀ c ∈ cs.head?, c ≠ '-' ∧ c ≠ '+') :
    pyInt (.str cs) = match parseNat? cs with
                      | some n => .ok (.int n)
                      | Option.none => .error .valueError := by
  cases cs with
  | nil => rfl
  | cons c r =>
    have hc := h c (by simp)
    unfold pyInt
    split
    · next h1 => simp at h1
    · next h1 => simp at h1
    · next h1 => simp at h1; exact absurd h1.1 hc.1
    · next h1 => simp at h1; exact absurd h1.1 hc.2
    · next h1 => simp at h1; subst h1; rfl
    · next h1 => simp at h1
    · next _ _ _ _ hne _ => exact (hne _ rfl).elim

theorem parseNat?_foldl (f : Option Nat → Char → Option Nat)
    (hf : ∀ a d, d < 10 → f (some a) (digitChar d) = some (a * 10 + d))
    {s : Dec} (hs : ∀ d ∈ s, d < 10) (a : Nat) :
    (s.map digitChar).foldl f (some a) = some (s.foldl (fun n d => n * 10 + d) a) := by
  induction s generalizing a with
  | nil => rfl
  | cons d r ih =>
    simp only [List.map_cons, List.foldl_cons, hf a d (hs d (by simp))]
    exact ih (fun x hx => hs x (by simp [hx])) _
theorem parseNat?_digits {s : Dec} (hs : ∀ d ∈ s, d < 10) (hne : s ≠ []) :
    parseNat? (s.map digitChar) = some (Dec.toNat s) := by
  cases s with
  | nil => exact absurd rfl hne
  | cons d r =>
    exact parseNat?_foldl _ (fun a d hd => by simp [charDigit?_digitChar hd]) hs 0
theorem pyInt_digit {d : Nat} (h : d < 10) : pyInt (.str [digitChar d]) = .ok (.int d) := by
  obtain rfl|rfl|rfl|rfl|rfl|rfl|rfl|rfl|rfl|rfl := digit_cases h <;> rfl

/-! ### `Digits`, `dstr`, `natsPV` -/

@[simp] theorem Digits_nil : Digits [] := by simp [Digits]
@[simp] theorem Digits_cons {d : Nat} {s : Dec} : Digits (d :: s) ↔ d < 10 ∧ Digits s := by simp [Digits]
@[simp] theorem Digits_append {s t : Dec} : Digits (s ++ t) ↔ Digits s ∧ Digits t := by
  simp only [Digits, List.mem_append]
  exact ⟨fun h => ⟨fun d hd => h d (Or.inl hd), fun d hd => h d (Or.inr hd)⟩,
         fun h d hd => hd.elim (h.1 d) (h.2 d)⟩
theorem Digits_singleton {d : Nat} : Digits [d] ↔ d < 10 := by simp
theorem Digits.reverse {s : Dec} (h : Digits s) : Digits s.reverse := fun d hd => h d (by simpa using hd)
theorem Digits.drop {s : Dec} (h : Digits s) (n : Nat) : Digits (s.drop n) :=
  fun d hd => h d (List.mem_of_mem_drop hd)
theorem Digits.take {s : Dec} (h : Digits s) (n : Nat) : Digits (s.take n) :=
  fun d hd => h d (List.mem_of_mem_take hd)
theorem Digits.tail {s : Dec} (h : Digits s) : Digits s.tail :=
  fun d hd => h d (List.mem_of_mem_tail hd)
theorem Digits.getElem {s : Dec} (h : Digits s) (i : Nat) (hi : i < s.length) : s[i] < 10 :=
  h _ (List.getElem_mem hi)
theorem Digits_replicate {n d : Nat} (h : d < 10) : Digits (List.replicate n d) := by
  intro x hx; rw [(List.mem_replicate.mp hx).2]; exact h

@[simp] theorem dstr_nil : dstr [] = .str [] := rfl
theorem dstr_cons (d : Nat) (s : Dec) : dstr (d :: s) = .str (digitChar d :: s.map digitChar) := rfl
theorem dstr_singleton (d : Nat) : dstr [d] = .str [digitChar d] := rfl
theorem dstr_def (s : Dec) : dstr s = .str (s.map digitChar) := rfl
@[simp] theorem natsPV_nil : natsPV [] = .list [] := rfl
theorem natsPV_def (l : List Nat) : natsPV l = .list (l.map fun (n : Nat) => .int (n : Int)) := rfl
theorem natsPV_cons (d : Nat) (l : List Nat) :
    natsPV (d :: l) = .list (.int d :: l.map fun (n : Nat) => .int (n : Int)) := rfl
theorem natsPV_append_singleton (l : List Nat) (d : Nat) :
    PV.list ((l.map fun (n : Nat) => PV.int (n : Int)) ++ [.int d]) = natsPV (l ++ [d]) := by
  simp [natsPV]
/-- character literals of the generated code (`.str ['0']`, …) as digits; rewrite with these
(left to right) to bring a literal into the `digitChar` / `dstr` form the digit lemmas expect. -/
theorem char_lit_zero : '0' = digitChar 0 := by decide
theorem char_lit_one : '1' = digitChar 1 := by decide
theorem char_lit_two : '2' = digitChar 2 := by decide
theorem char_lit_four : '4' = digitChar 4 := by decide
theorem str_lit_zero : PV.str ['0'] = dstr [0] := by rw [char_lit_zero]; rfl
theorem str_lit_one : PV.str ['1'] = dstr [1] := by rw [char_lit_one]; rfl
theorem str_lit_two : PV.str ['2'] = dstr [2] := by rw [char_lit_two]; rfl
theorem str_lit_four : PV.str ['4'] = dstr [4] := by rw [char_lit_four]; rfl
theorem str_lit_empty : PV.str [] = dstr [] := rfl
/-- `x == "0"` / `x == "1"` for a one-digit string (the special-case tests of the arithmetic). -/
theorem eqb_digit_lit_zero {a : Nat} (ha : a < 10) : PV.eqb (.str [digitChar a]) (.str ['0']) = decide (a = 0) := by
  rw [char_lit_zero, eqb_digit ha (by omega)]
theorem eqb_digit_lit_one {a : Nat} (ha : a < 10) : PV.eqb (.str [digitChar a]) (.str ['1']) = decide (a = 1) := by
  rw [char_lit_one, eqb_digit ha (by omega)]

theorem map_digitChar_inj {s t : Dec} (hs : Digits s) (ht : Digits t) :
    s.map digitChar = t.map digitChar ↔ s = t := by
  constructor
  · intro h
    induction s generalizing t with
    | nil => cases t with
      | nil => rfl
      | cons _ _ => simp at h
    | cons a r ih => cases t with
      | nil => simp at h
      | cons b r' =>
        simp only [List.map_cons, List.cons.injEq] at h
        rw [Digits_cons] at hs ht
        rw [(digitChar_inj hs.1 ht.1).mp h.1, ih hs.2 ht.2 h.2]
  · intro h; rw [h]
theorem dstr_inj {s t : Dec} (hs : Digits s) (ht : Digits t) : dstr s = dstr t ↔ s = t := by
  simp only [dstr, PV.str.injEq]; exact map_digitChar_inj hs ht
/-- `==` on decimal strings is equality of the digit lists. -/
theorem eqb_dstr {s t : Dec} (hs : Digits s) (ht : Digits t) : PV.eqb (dstr s) (dstr t) = decide (s = t) := by
  simp only [dstr, eqb_str]
  by_cases h : s = t
  · simp [h]
  · simp [h, map_digitChar_inj hs ht]

@[simp] theorem pyLen_dstr (s : Dec) : pyLen (dstr s) = .ok (.int s.length) := by simp [dstr]
@[simp] theorem pyLen_natsPV (l : List Nat) : pyLen (natsPV l) = .ok (.int l.length) := by simp [natsPV]
@[simp] theorem pyIter_natsPV (l : List Nat) : pyIter (natsPV l) = .ok (l.map fun (n : Nat) => .int (n : Int)) := rfl
@[simp] theorem pyList_natsPV (l : List Nat) : pyList (natsPV l) = .ok (natsPV l) := rfl
theorem pyIter_dstr (s : Dec) : pyIter (dstr s) = .ok (s.map fun d => .str [digitChar d]) := by
  simp [dstr]
theorem pyList_dstr (s : Dec) : pyList (dstr s) = .ok (.list (s.map fun d => .str [digitChar d])) := by
  simp [dstr]

theorem pyIndex_dstr {s : Dec} {i : Nat} (h : i < s.length) :
    pyIndex (dstr s) (.int i) = .ok (.str [digitChar s[i]]) := by
  rw [dstr, pyIndex_str_nat (by simpa using h)]; simp
theorem pyIndex_natsPV {l : List Nat} {i : Nat} (h : i < l.length) :
    pyIndex (natsPV l) (.int i) = .ok (.int (l[i] : Nat)) := by
  rw [natsPV, pyIndex_list_nat (by simpa using h)]; simp
/-- `l[-1]` right after `l.append(d)`. -/
@[simp] theorem pyIndex_natsPV_append_neg_one (l : List Nat) (d : Nat) :
    pyIndex (natsPV (l ++ [d])) (.int (-1)) = .ok (.int (d : Int)) := by
  simp [natsPV]
@[simp] theorem pyEnumerate_natsPV (l : List Nat) :
    pyEnumerate (natsPV l) = .ok (.list (enumFrom 0 (l.map fun (n : Nat) => .int (n : Int)))) := rfl
theorem pyEnumerate_dstr (s : Dec) :
    pyEnumerate (dstr s) = .ok (.list (enumFrom 0 (s.map fun d => .str [digitChar d]))) := by
  simp [dstr, Function.comp_def]
/-- indices computed in `ℤ` (`len(x) - 1 - i`, `i + 1`, …). -/
theorem pyIndex_natsPV_int {l : List Nat} {i : Int} (h0 : 0 ≤ i) (h : i < l.length) :
    pyIndex (natsPV l) (.int i) = .ok (.int ((l.getD i.toNat 0 : Nat) : Int)) := by
  have hi : i.toNat < l.length := by omega
  rw [natsPV, pyIndex_list_int h0 (by simpa using h)]
  simp [List.getD_eq_getElem?_getD, List.getElem?_eq_getElem hi]
theorem pyIndex_dstr_int {s : Dec} {i : Int} (h0 : 0 ≤ i) (h : i < s.length) :
    pyIndex (dstr s) (.int i) = .ok (.str [digitChar (s.getD i.toNat 0)]) := by
  have hi : i.toNat < s.length := by omega
  rw [dstr, pyIndex_str_int h0 (by simpa using h)]
  simp [List.getD_eq_getElem?_getD, List.getElem?_eq_getElem hi]
theorem pySetItem_natsPV_int {l : List Nat} {i : Int} (h0 : 0 ≤ i) (h : i < l.length) (d : Nat) :
    pySetItem (natsPV l) (.int i) (.int d) = .ok (natsPV (l.set i.toNat d)) := by
  rw [natsPV, pySetItem_list_int h0 (by simpa using h)]; simp [natsPV]
@[simp] theorem pyIndex_dstr_cons_zero (d : Nat) (s : Dec) :
    pyIndex (dstr (d :: s)) (.int 0) = .ok (.str [digitChar d]) := by simp [dstr]
@[simp] theorem pySliceV_dstr_from (s : Dec) (a : Nat) :
    pySliceV (dstr s) (.int a) .none = .ok (dstr (s.drop a)) := by simp [dstr]
@[simp] theorem pySliceV_dstr_to (s : Dec) (b : Nat) :
    pySliceV (dstr s) .none (.int b) = .ok (dstr (s.take b)) := by simp [dstr]
@[simp] theorem pySliceV_dstr_from_one (s : Dec) :
    pySliceV (dstr s) (.int 1) .none = .ok (dstr s.tail) := by simp [dstr]
@[simp] theorem pySliceV_natsPV_to (l : List Nat) (b : Nat) :
    pySliceV (natsPV l) .none (.int b) = .ok (natsPV (l.take b)) := by simp [natsPV]
theorem pySetItem_natsPV {l : List Nat} {i : Nat} (h : i < l.length) (d : Nat) :
    pySetItem (natsPV l) (.int i) (.int d) = .ok (natsPV (l.set i d)) := by
  rw [natsPV, pySetItem_list_nat (by simpa using h)]; simp [natsPV]
@[simp] theorem pyInsert_natsPV_zero (l : List Nat) (d : Nat) :
    pyInsert (natsPV l) (.int 0) (.int d) = .ok (natsPV (d :: l)) := by simp [natsPV]
@[simp] theorem pyAppend_natsPV (l : List Nat) (d : Nat) :
    pyAppend (natsPV l) (.int d) = .ok (natsPV (l ++ [d])) := by simp [natsPV]
@[simp] theorem pyAdd_dstr (s t : Dec) : pyAdd (dstr s) (dstr t) = .ok (dstr (s ++ t)) := by simp [dstr]

/-- `int(s)` for a non-empty string of digits. -/
theorem pyInt_dstr {s : Dec} (hs : Digits s) (hne : s ≠ []) : pyInt (dstr s) = .ok (.int (Dec.toNat s)) := by
  rw [dstr, pyInt_of_no_sign, parseNat?_digits hs hne]
  intro c hc
  cases s with
  | nil => exact absurd rfl hne
  | cons d r =>
    simp at hc; subst hc
    exact ⟨digitChar_ne_minus (hs d (by simp)), digitChar_ne_plus (hs d (by simp))⟩
/-- `list(map(int, s))` / `[int(c) for c in s]`. -/
theorem pyMap_pyInt_dstr {s : Dec} (hs : Digits s) : pyMap (fun it => pyInt it) (dstr s) = .ok (natsPV s) := by
  rw [dstr, pyMap_str_eq (g := fun c => .int (c.toNat - 48 : Nat))]
  · simp only [natsPV, List.map_map]
    congr 2
    apply List.map_congr_left
    intro d hd
    simp [toNat_digitChar (hs d hd)]
  · intro c hc
    obtain ⟨d, hd, rfl⟩ := List.mem_map.mp hc
    rw [pyInt_digit (hs d hd), toNat_digitChar (hs d hd)]; simp
/-- `map(str, digits)`. -/
theorem pyMap_pyStr_natsPV {l : List Nat} (hl : Digits l) :
    pyMap pyStr (natsPV l) = .ok (.list (l.map fun d => .str [digitChar d])) := by
  rw [natsPV, pyMap_list_map (g := fun d => PV.str [digitChar d])]
  intro d hd; exact pyStr_digit (hl d hd)
/-- `"".join(...)` of one-digit strings. -/
theorem pyJoin_digit_strs (l : List Nat) :
    pyJoin (.str []) (.list (l.map fun d => .str [digitChar d])) = .ok (dstr l) :=
  pyJoin_empty_chars digitChar l
/-- `"".join(list(map(str, digits)))`, the way the generated code spells it. -/
theorem join_map_str_natsPV {l : List Nat} (hl : Digits l) :
    (bnd (bnd (pyMap pyStr (natsPV l)) fun t => pyList t) fun t => pyJoin (.str []) t) = .ok (dstr l) := by
  rw [pyMap_pyStr_natsPV hl]
  simp only [bnd_ok, pyList_list]
  exact pyJoin_digit_strs l
/-- `s.zfill(n)` on a decimal string. -/
theorem pyZfill_dstr {s : Dec} (hs : Digits s) (n : Nat) :
    pyZfill (dstr s) (.int n) = .ok (dstr (List.replicate (n - s.length) 0 ++ s)) := by
  rw [dstr, pyZfill_of_no_sign]
  · simp [dstr]
  · intro c hc
    cases s with
    | nil => simp at hc
    | cons d r =>
      simp at hc; subst hc
      exact ⟨digitChar_ne_minus (hs d (by simp)), digitChar_ne_plus (hs d (by simp))⟩

/-! ## §6 nucleotides -/

/-- `"ACGT".index(c)` for a one-character `c`. -/
theorem pyStrIndex_ACGT (c : Char) :
    pyStrIndex (.str ['A', 'C', 'G', 'T']) (.str [c]) =
      match nucIdx c with
      | some j => .ok (.int j)
      | Option.none => .error .valueError := by
  by_cases hA : c = 'A'
  · subst hA; rfl
  by_cases hC : c = 'C'
  · subst hC; rfl
  by_cases hG : c = 'G'
  · subst hG; rfl
  by_cases hT : c = 'T'
  · subst hT; rfl
  simp [pyStrIndex, findSub, nucIdx, hA, hC, hG, hT, List.isPrefixOf]
theorem pyStrIndex_ACGT_of_some {c : Char} {j : Nat} (h : nucIdx c = some j) :
    pyStrIndex (.str ['A', 'C', 'G', 'T']) (.str [c]) = .ok (.int j) := by
  rw [pyStrIndex_ACGT, h]
theorem pyStrIndex_ACGT_of_none {c : Char} (h : nucIdx c = Option.none) :
    pyStrIndex (.str ['A', 'C', 'G', 'T']) (.str [c]) = .error .valueError := by
  rw [pyStrIndex_ACGT, h]
/-- `"ACGT"[j]`. -/
theorem pyIndex_ACGT {j : Nat} (h : j < 4) :
    pyIndex (.str ['A', 'C', 'G', 'T']) (.int j) = .ok (.str [nucChar j]) := by
  have : j = 0 ∨ j = 1 ∨ j = 2 ∨ j = 3 := by omega
  obtain rfl|rfl|rfl|rfl := this <;> rfl
theorem nucIdx_lt {c : Char} {j : Nat} (h : nucIdx c = some j) : j < 4 := by
  unfold nucIdx at h
  repeat' split at h
  all_goals first | (injection h with h; omega) | cases h
theorem nucChar_nucIdx {c : Char} {j : Nat} (h : nucIdx c = some j) : nucChar j = c := by
  unfold nucIdx at h
  repeat' split at h
  all_goals first | (injection h with h; subst h; simp [nucChar, *]) | cases h

/-! ## §7 loop principles -/

section Loops
variable {ε : Type}

/-! ### `for` -/

@[simp] theorem forLoop_nil (body : PV → ε → R (Flow ε)) (e : ε) : forLoop body [] e = .ok (.norm e) := rfl
theorem forLoop_cons (body : PV → ε → R (Flow ε)) (x : PV) (xs : List PV) (e : ε) :
    forLoop body (x :: xs) e =
      match body x e with
      | .error err => .error err
      | .ok f =>
        match f.loopStep with
        | .again e' => forLoop body xs e'
        | .stop e' => .ok (.norm e')
        | .out v => .ok (.ret v) := rfl
theorem forLoop_cons_norm {body : PV → ε → R (Flow ε)} {x : PV} {e e' : ε} (h : body x e = .ok (.norm e'))
    (xs : List PV) : forLoop body (x :: xs) e = forLoop body xs e' := by rw [forLoop_cons, h]; rfl
theorem forLoop_cons_cnt {body : PV → ε → R (Flow ε)} {x : PV} {e e' : ε} (h : body x e = .ok (.cnt e'))
    (xs : List PV) : forLoop body (x :: xs) e = forLoop body xs e' := by rw [forLoop_cons, h]; rfl
theorem forLoop_cons_brk {body : PV → ε → R (Flow ε)} {x : PV} {e e' : ε} (h : body x e = .ok (.brk e'))
    (xs : List PV) : forLoop body (x :: xs) e = .ok (.norm e') := by rw [forLoop_cons, h]; rfl
theorem forLoop_cons_ret {body : PV → ε → R (Flow ε)} {x : PV} {e : ε} {v : PV} (h : body x e = .ok (.ret v))
    (xs : List PV) : forLoop body (x :: xs) e = .ok (.ret v) := by rw [forLoop_cons, h]; rfl
theorem forLoop_cons_error {body : PV → ε → R (Flow ε)} {x : PV} {e : ε} {err : PyErr}
    (h : body x e = .error err) (xs : List PV) : forLoop body (x :: xs) e = .error err := by
  rw [forLoop_cons, h]

/-- a loop whose body always falls through is a left fold. -/
theorem forLoop_foldl {body : PV → ε → R (Flow ε)} {step : PV → ε → ε} {xs : List PV}
    (h : ∀ x ∈ xs, ∀ e, body x e = .ok (.norm (step x e))) (e : ε) :
    forLoop body xs e = .ok (.norm (xs.foldl (fun e x => step x e) e)) := by
  induction xs generalizing e with
  | nil => rfl
  | cons x xs ih =>
    rw [forLoop_cons_norm (h x (by simp) e), ih (fun y hy => h y (by simp [hy]))]; rfl

/-- **abstract-state rule**: `Rel st e` ties the environment to a model state `st`; if every
iteration falls through and maps `st` to `step st x`, the loop ends normally in a state related to
the left fold.  (`Rel` may carry any side invariant on `st`.) -/
theorem forLoop_rel {σ} {body : PV → ε → R (Flow ε)} (Rel : σ → ε → Prop) (step : σ → PV → σ)
    {xs : List PV}
    (h : ∀ x ∈ xs, ∀ st e, Rel st e → ∃ e', body x e = .ok (.norm e') ∧ Rel (step st x) e')
    {st : σ} {e : ε} (h0 : Rel st e) :
    ∃ e', forLoop body xs e = .ok (.norm e') ∧ Rel (xs.foldl step st) e' := by
  induction xs generalizing st e with
  | nil => exact ⟨e, rfl, h0⟩
  | cons x xs ih =>
    obtain ⟨e1, hb, h1⟩ := h x (by simp) st e h0
    obtain ⟨e2, hl, h2⟩ := ih (fun y hy => h y (by simp [hy])) h1
    exact ⟨e2, by rw [forLoop_cons_norm hb, hl], h2⟩

/-- the same over an embedded list of model items `as.map emb` (e.g. `natsPV`, the characters of
a string, a `range`). -/
theorem forLoop_rel_map {σ α} {body : PV → ε → R (Flow ε)} (Rel : σ → ε → Prop) (step : σ → α → σ)
    (emb : α → PV) {as : List α}
    (h : ∀ a ∈ as, ∀ st e, Rel st e → ∃ e', body (emb a) e = .ok (.norm e') ∧ Rel (step st a) e')
    {st : σ} {e : ε} (h0 : Rel st e) :
    ∃ e', forLoop body (as.map emb) e = .ok (.norm e') ∧ Rel (as.foldl step st) e' := by
  induction as generalizing st e with
  | nil => exact ⟨e, rfl, h0⟩
  | cons x xs ih =>
    obtain ⟨e1, hb, h1⟩ := h x (by simp) st e h0
    obtain ⟨e2, hl, h2⟩ := ih (fun y hy => h y (by simp [hy])) h1
    exact ⟨e2, by rw [List.map_cons, forLoop_cons_norm hb, hl], h2⟩

/-- the same for `for i, x in enumerate(as)`: the items are `(i, emb x)` pairs; the model step may
ignore the position. -/
theorem forLoop_rel_enum {σ α} {body : PV → ε → R (Flow ε)} (Rel : σ → ε → Prop) (step : σ → α → σ)
    (emb : α → PV) {as : List α} (n : Nat)
    (h : ∀ (i : Nat), ∀ a ∈ as, ∀ st e, Rel st e →
      ∃ e', body (.tup [.int (i : Int), emb a]) e = .ok (.norm e') ∧ Rel (step st a) e')
    {st : σ} {e : ε} (h0 : Rel st e) :
    ∃ e', forLoop body (enumFrom n (as.map emb)) e = .ok (.norm e') ∧ Rel (as.foldl step st) e' := by
  induction as generalizing st e n with
  | nil => exact ⟨e, rfl, h0⟩
  | cons x xs ih =>
    obtain ⟨e1, hb, h1⟩ := h n x (by simp) st e h0
    obtain ⟨e2, hl, h2⟩ := ih (n + 1) (fun i y hy => h i y (by simp [hy])) h1
    exact ⟨e2, by rw [List.map_cons, enumFrom_cons, forLoop_cons_norm hb, hl], h2⟩

/-- **indexed invariant rule**: `Inv i e` holds before the iteration on `xs[i]`. -/
theorem forLoop_inv {body : PV → ε → R (Flow ε)} (Inv : Nat → ε → Prop) {xs : List PV}
    (h : ∀ (i : Nat) (hi : i < xs.length) (e : ε), Inv i e →
      ∃ e', body xs[i] e = .ok (.norm e') ∧ Inv (i + 1) e')
    {e : ε} (h0 : Inv 0 e) :
    ∃ e', forLoop body xs e = .ok (.norm e') ∧ Inv xs.length e' := by
  induction xs generalizing e Inv with
  | nil => exact ⟨e, rfl, h0⟩
  | cons x xs ih =>
    obtain ⟨e1, hb, h1⟩ := h 0 (by simp) e h0
    obtain ⟨e2, hl, h2⟩ := ih (fun i => Inv (i + 1))
      (fun i hi e he => h (i + 1) (by simpa using hi) e he) h1
    exact ⟨e2, by rw [forLoop_cons_norm (by simpa using hb), hl], h2⟩

/-- **indexed invariant rule with early `return`**: every iteration either falls through keeping
the invariant, or returns a value satisfying `Post`; the loop then either ends normally with
`Inv xs.length`, or returns such a value. -/
theorem forLoop_inv_ret {body : PV → ε → R (Flow ε)} (Inv : Nat → ε → Prop) (Post : PV → Prop)
    {xs : List PV}
    (h : ∀ (i : Nat) (hi : i < xs.length) (e : ε), Inv i e →
      (∃ e', body xs[i] e = .ok (.norm e') ∧ Inv (i + 1) e') ∨ (∃ v, body xs[i] e = .ok (.ret v) ∧ Post v))
    {e : ε} (h0 : Inv 0 e) :
    (∃ e', forLoop body xs e = .ok (.norm e') ∧ Inv xs.length e') ∨
      (∃ v, forLoop body xs e = .ok (.ret v) ∧ Post v) := by
  induction xs generalizing e Inv with
  | nil => exact Or.inl ⟨e, rfl, h0⟩
  | cons x xs ih =>
    rcases h 0 (by simp) e h0 with ⟨e1, hb, h1⟩ | ⟨v, hb, hv⟩
    · have hb' : body x e = .ok (.norm e1) := by simpa using hb
      rw [forLoop_cons_norm hb']
      exact ih (fun i => Inv (i + 1)) (fun i hi e he => h (i + 1) (by simpa using hi) e he) h1
    · have hb' : body x e = .ok (.ret v) := by simpa using hb
      exact Or.inr ⟨v, forLoop_cons_ret hb' xs, hv⟩

/-- search loop: the body falls through (leaving the relevant part of the environment alone, as
captured by `Inv`) on the first `k` items and returns on item `k`. -/
theorem forLoop_ret_at {body : PV → ε → R (Flow ε)} (Inv : ε → Prop) {xs : List PV} {k : Nat}
    (hk : k < xs.length) {v : PV}
    (hpre : ∀ (i : Nat) (hi : i < xs.length), i < k → ∀ e, Inv e → ∃ e', body xs[i] e = .ok (.norm e') ∧ Inv e')
    (hat : ∀ e, Inv e → body xs[k] e = .ok (.ret v))
    {e : ε} (h0 : Inv e) : forLoop body xs e = .ok (.ret v) := by
  induction xs generalizing e k with
  | nil => simp at hk
  | cons x xs ih =>
    cases k with
    | zero => exact forLoop_cons_ret (by simpa using hat e h0) xs
    | succ k =>
      obtain ⟨e1, hb, h1⟩ := hpre 0 (by simp) (by omega) e h0
      rw [forLoop_cons_norm (by simpa using hb)]
      exact ih (k := k) (by simpa using hk)
        (fun i hi hik e he => hpre (i + 1) (by simpa using hi) (by omega) e he)
        (fun e he => by simpa using hat e he) h1

/-! ### `while` -/

@[simp] theorem whileLoop_zero (cond : ε → R Bool) (body : ε → R (Flow ε)) (e : ε) :
    whileLoop cond body 0 e = .error .outOfFuel := rfl
theorem whileLoop_succ (cond : ε → R Bool) (body : ε → R (Flow ε)) (fuel : Nat) (e : ε) :
    whileLoop cond body (fuel + 1) e =
      match cond e with
      | .error err => .error err
      | .ok false => .ok (.norm e)
      | .ok true =>
        match body e with
        | .error err => .error err
        | .ok f =>
          match f.loopStep with
          | .again e' => whileLoop cond body fuel e'
          | .stop e' => .ok (.norm e')
          | .out v => .ok (.ret v) := rfl
theorem whileLoop_cond_error {cond : ε → R Bool} {body : ε → R (Flow ε)} {e : ε} {err : PyErr}
    (hc : cond e = .error err) (fuel : Nat) : whileLoop cond body (fuel + 1) e = .error err := by
  rw [whileLoop_succ, hc]
/-- the condition is false: the loop is over. -/
theorem whileLoop_false {cond : ε → R Bool} {body : ε → R (Flow ε)} {e : ε}
    (hc : cond e = .ok false) (fuel : Nat) : whileLoop cond body (fuel + 1) e = .ok (.norm e) := by
  rw [whileLoop_succ, hc]
/-- one iteration that falls through. -/
theorem whileLoop_true_norm {cond : ε → R Bool} {body : ε → R (Flow ε)} {e e' : ε}
    (hc : cond e = .ok true) (hb : body e = .ok (.norm e')) (fuel : Nat) :
    whileLoop cond body (fuel + 1) e = whileLoop cond body fuel e' := by
  rw [whileLoop_succ, hc]; simp only [hb, loopStep_norm]
theorem whileLoop_true_cnt {cond : ε → R Bool} {body : ε → R (Flow ε)} {e e' : ε}
    (hc : cond e = .ok true) (hb : body e = .ok (.cnt e')) (fuel : Nat) :
    whileLoop cond body (fuel + 1) e = whileLoop cond body fuel e' := by
  rw [whileLoop_succ, hc]; simp only [hb, loopStep_cnt]
theorem whileLoop_true_brk {cond : ε → R Bool} {body : ε → R (Flow ε)} {e e' : ε}
    (hc : cond e = .ok true) (hb : body e = .ok (.brk e')) (fuel : Nat) :
    whileLoop cond body (fuel + 1) e = .ok (.norm e') := by
  rw [whileLoop_succ, hc]; simp only [hb, loopStep_brk]
theorem whileLoop_true_ret {cond : ε → R Bool} {body : ε → R (Flow ε)} {e : ε} {v : PV}
    (hc : cond e = .ok true) (hb : body e = .ok (.ret v)) (fuel : Nat) :
    whileLoop cond body (fuel + 1) e = .ok (.ret v) := by
  rw [whileLoop_succ, hc]; simp only [hb, loopStep_ret]
theorem whileLoop_true_error {cond : ε → R Bool} {body : ε → R (Flow ε)} {e : ε} {err : PyErr}
    (hc : cond e = .ok true) (hb : body e = .error err) (fuel : Nat) :
    whileLoop cond body (fuel + 1) e = .error err := by
  rw [whileLoop_succ, hc]; simp only [hb]

/-- the model-side counterpart of a `while` loop: iterate `step` while `c` holds, at most `fuel`
times. -/
def whileIter {σ} (c : σ → Bool) (step : σ → σ) : Nat → σ → σ
  | 0, st => st
  | fuel + 1, st => if c st then whileIter c step fuel (step st) else st

@[simp] theorem whileIter_zero {σ} (c : σ → Bool) (step : σ → σ) (st : σ) : whileIter c step 0 st = st := rfl
theorem whileIter_succ {σ} (c : σ → Bool) (step : σ → σ) (fuel : Nat) (st : σ) :
    whileIter c step (fuel + 1) st = if c st then whileIter c step fuel (step st) else st := rfl
theorem whileIter_of_false {σ} {c : σ → Bool} {step : σ → σ} {st : σ} (h : c st = false) (fuel : Nat) :
    whileIter c step fuel st = st := by
  cases fuel with
  | zero => rfl
  | succ f => simp [whileIter_succ, h]

/-- **abstract-state rule with a measure**: `Rel st e` ties the environment to a model state; the
condition evaluates to `c st`; an iteration falls through, maps `st` to `step st` and decreases
`μ`.  With fuel above the measure the loop ends normally in a state related to the iterated model
state, in which the condition is false. -/
theorem whileLoop_rel {σ} {cond : ε → R Bool} {body : ε → R (Flow ε)} (Rel : σ → ε → Prop)
    (c : σ → Bool) (step : σ → σ) (μ : σ → Nat)
    (hcond : ∀ st e, Rel st e → cond e = .ok (c st))
    (hbody : ∀ st e, Rel st e → c st = true →
      ∃ e', body e = .ok (.norm e') ∧ Rel (step st) e' ∧ μ (step st) < μ st) :
    ∀ (fuel : Nat) (st : σ) (e : ε), Rel st e → μ st < fuel →
      ∃ e', whileLoop cond body fuel e = .ok (.norm e') ∧ Rel (whileIter c step fuel st) e' ∧
        c (whileIter c step fuel st) = false := by
  intro fuel
  induction fuel with
  | zero => intro st e _ h; omega
  | succ f ih =>
    intro st e hr hμ
    cases hc : c st with
    | false =>
      refine ⟨e, whileLoop_false (by rw [hcond st e hr, hc]) f, ?_, ?_⟩
      · rw [whileIter_of_false hc]; exact hr
      · rw [whileIter_of_false hc]; exact hc
    | true =>
      obtain ⟨e1, hb, hr1, hlt⟩ := hbody st e hr hc
      obtain ⟨e2, hl, hr2, hc2⟩ := ih (step st) e1 hr1 (by omega)
      refine ⟨e2, ?_, ?_, ?_⟩
      · rw [whileLoop_true_norm (by rw [hcond st e hr, hc]) hb, hl]
      · rw [whileIter_succ, hc]; exact hr2
      · rw [whileIter_succ, hc]; exact hc2

/-- **invariant rule with a measure** (no model state): every iteration falls through, keeps `Inv`
and decreases `μ`; with fuel above the measure the loop ends normally with `Inv` and a false
condition. -/
theorem whileLoop_inv {cond : ε → R Bool} {body : ε → R (Flow ε)} (Inv : ε → Prop) (μ : ε → Nat)
    (hcond : ∀ e, Inv e → ∃ b, cond e = .ok b)
    (hbody : ∀ e, Inv e → cond e = .ok true → ∃ e', body e = .ok (.norm e') ∧ Inv e' ∧ μ e' < μ e) :
    ∀ (fuel : Nat) (e : ε), Inv e → μ e < fuel →
      ∃ e', whileLoop cond body fuel e = .ok (.norm e') ∧ Inv e' ∧ cond e' = .ok false := by
  intro fuel
  induction fuel with
  | zero => intro e _ h; omega
  | succ f ih =>
    intro e hi hμ
    obtain ⟨b, hb⟩ := hcond e hi
    cases b with
    | false => exact ⟨e, whileLoop_false hb f, hi, hb⟩
    | true =>
      obtain ⟨e1, hbd, hi1, hlt⟩ := hbody e hi hb
      obtain ⟨e2, hl, hi2, hc2⟩ := ih e1 hi1 (by omega)
      exact ⟨e2, by rw [whileLoop_true_norm hb hbd, hl], hi2, hc2⟩

/-- fuel-exact version (no measure): as long as the model iteration `whileIter` has not run out of
fuel — i.e. the condition is false in its final state — the loop mirrors it. -/
theorem whileLoop_rel_fuel {σ} {cond : ε → R Bool} {body : ε → R (Flow ε)} (Rel : σ → ε → Prop)
    (c : σ → Bool) (step : σ → σ)
    (hcond : ∀ st e, Rel st e → cond e = .ok (c st))
    (hbody : ∀ st e, Rel st e → c st = true → ∃ e', body e = .ok (.norm e') ∧ Rel (step st) e') :
    ∀ (fuel : Nat) (st : σ) (e : ε), Rel st e → c (whileIter c step fuel st) = false →
      ∃ e', whileLoop cond body (fuel + 1) e = .ok (.norm e') ∧ Rel (whileIter c step fuel st) e' := by
  intro fuel
  induction fuel with
  | zero =>
    intro st e hr hc
    exact ⟨e, whileLoop_false (by rw [hcond st e hr]; simpa using hc) 0, hr⟩
  | succ f ih =>
    intro st e hr hfin
    cases hc : c st with
    | false =>
      refine ⟨e, whileLoop_false (by rw [hcond st e hr, hc]) _, ?_⟩
      rw [whileIter_of_false hc]; exact hr
    | true =>
      obtain ⟨e1, hb, hr1⟩ := hbody st e hr hc
      rw [whileIter_succ, hc] at hfin
      obtain ⟨e2, hl, hr2⟩ := ih (step st) e1 hr1 (by simpa using hfin)
      refine ⟨e2, ?_, ?_⟩
      · rw [whileLoop_true_norm (by rw [hcond st e hr, hc]) hb, hl]
      · rw [whileIter_succ, hc]; exact hr2

end Loops

/-! ## one-dimensional arrays: no item is itself an array (side condition of `npWhere`) -/

/-- no item of an array of bools computed from a list is itself an array (a row). -/
@[simp] theorem any_isArr_map_bool {α} (p : α → Bool) (l : List α) :
    (l.map fun x => PV.bool (p x)).any PV.isArr = false := by
  induction l with
  | nil => rfl
  | cons x xs ih => rw [List.map_cons, List.any_cons, ih]; rfl
@[simp] theorem any_isArr_map_bool' (l : List Bool) : (l.map PV.bool).any PV.isArr = false :=
  any_isArr_map_bool (fun b => b) l
/-- … nor of an array of integers. -/
@[simp] theorem any_isArr_map_int {α} (f : α → Int) (l : List α) :
    (l.map fun x => PV.int (f x)).any PV.isArr = false := by
  induction l with
  | nil => rfl
  | cons x xs ih => rw [List.map_cons, List.any_cons, ih]; rfl
@[simp] theorem any_isArr_map_int' (l : List Int) : (l.map PV.int).any PV.isArr = false :=
  any_isArr_map_int (fun b => b) l
@[simp] theorem any_isArr_nil : ([] : List PV).any PV.isArr = false := rfl
@[simp] theorem any_isArr_cons_bool (b : Bool) (l : List PV) :
    (PV.bool b :: l).any PV.isArr = l.any PV.isArr := by rw [List.any_cons]; rfl
@[simp] theorem any_isArr_cons_int (n : Int) (l : List PV) :
    (PV.int n :: l).any PV.isArr = l.any PV.isArr := by rw [List.any_cons]; rfl

end Dsw.Tie
