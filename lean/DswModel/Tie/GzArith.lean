import DswModel.Tie.NpLemmas
import DswModel.Gen.Graphized
/-!
# Translation tie — `obtain_latters`, `obtain_formers`, `get_complete_accessor` (dsw/graphized.py)

The generated definitions compute the model functions `obtainLatters`, `obtainFormers`,
`getCompleteAccessor` (the successor / predecessor arithmetic of the de Bruijn graph and the complete
accessor) for every vertex index and every observed length (`obtain_formers`: `k ≥ 1`, since `4 ** (k-1)`
is a float for `k = 0`).
-/
namespace Dsw.Tie
open Dsw Dsw.Py

namespace GzTie

/-- `len(nucleotides)` for the literal `"ACGT"`. -/
theorem pyLen_ACGT : pyLen (.str ['A', 'C', 'G', 'T']) = .ok (.int ((4 : Nat) : Int)) := rfl

/-! ### `obtain_latters` -/

def LatRel (k v : Nat) (st : List Nat) (e : Gen.obtain_latters.Env) : Prop :=
  e.current = .int (v : Int) ∧ e.observed_length = .int (k : Int) ∧
    e.nucleotides = .str ['A', 'C', 'G', 'T'] ∧ e.latters = natsPV st

theorem latters_body (k v fuel : Nat) (j : Nat) (st : List Nat) (e : Gen.obtain_latters.Env)
    (h : LatRel k v st e) :
    ∃ e', Gen.obtain_latters.for1_body fuel (.int (j : Int)) e = .ok (.norm e') ∧
      LatRel k v (st ++ [(v * 4 + j) % 4 ^ k]) e' := by
  obtain ⟨h1, h2, h3, h4⟩ := h
  have hpos : 4 ^ k ≠ 0 := Nat.pos_iff_ne_zero.mp (Nat.pow_pos (by omega))
  simp only [Gen.obtain_latters.for1_body, h1, h2, h3, h4, pyLen_ACGT, bnd_ok, npMul_nat, npAdd_nat,
    pyPow_nat, pyMod_nat hpos, pyInt_int, pyAppend_natsPV]
  exact ⟨_, rfl, rfl, rfl, rfl, rfl⟩

/-! ### `obtain_formers` -/

def ForRel (k v : Nat) (st : List Nat) (e : Gen.obtain_formers.Env) : Prop :=
  e.current = .int (v : Int) ∧ e.observed_length = .int (k : Int) ∧
    e.nucleotides = .str ['A', 'C', 'G', 'T'] ∧ e.formers = natsPV st

theorem formers_body (k v fuel : Nat) (hk : 1 ≤ k) (j : Nat) (st : List Nat) (e : Gen.obtain_formers.Env)
    (h : ForRel k v st e) :
    ∃ e', Gen.obtain_formers.for1_body fuel (.int (j : Int)) e = .ok (.norm e') ∧
      ForRel k v (st ++ [v / 4 + j * 4 ^ (k - 1)]) e' := by
  obtain ⟨h1, h2, h3, h4⟩ := h
  simp only [Gen.obtain_formers.for1_body, h1, h2, h3, h4, pyLen_ACGT, bnd_ok, npMul_nat, npAdd_nat,
    pyPow_nat, pyFloorDiv_nat (a := v) (b := 4) (by omega), npSub_nat_one hk, pyInt_int, pyAppend_natsPV]
  exact ⟨_, rfl, rfl, rfl, rfl, rfl⟩

end GzTie

open GzTie

theorem tie_obtain_latters (k v fuel : Nat) :
    Gen.obtain_latters fuel (.int (v : Int)) (.int (k : Int)) = .ok (natsPV (obtainLatters k v)) := by
  simp only [Gen.obtain_latters, Gen.obtain_latters.body, pyLen_ACGT, bnd_ok, pyRange1_nat, pyIter_list]
  apply callResult_seq_of_norm (LatRel k v (obtainLatters k v))
  · show ∃ e', _ = Except.ok (Flow.norm e') ∧
      LatRel k v ((List.range 4).foldl (fun st j => st ++ [(v * 4 + j) % 4 ^ k]) []) e'
    exact forLoop_rel_map (LatRel k v) _ (fun (i : Nat) => PV.int (i : Int))
      (fun j _ st e h => latters_body k v fuel j st e h) ⟨rfl, rfl, rfl, rfl⟩
  · intro e' h
    simp only [Gen.obtain_latters.k1, h.2.2.2, callResult_ret]

theorem tie_obtain_formers (k v fuel : Nat) (hk : 1 ≤ k) :
    Gen.obtain_formers fuel (.int (v : Int)) (.int (k : Int)) = .ok (natsPV (obtainFormers k v)) := by
  simp only [Gen.obtain_formers, Gen.obtain_formers.body, pyLen_ACGT, bnd_ok, pyRange1_nat, pyIter_list]
  apply callResult_seq_of_norm (ForRel k v (obtainFormers k v))
  · show ∃ e', _ = Except.ok (Flow.norm e') ∧
      ForRel k v ((List.range 4).foldl (fun st j => st ++ [v / 4 + j * 4 ^ (k - 1)]) []) e'
    exact forLoop_rel_map (ForRel k v) _ (fun (i : Nat) => PV.int (i : Int))
      (fun j _ st e h => formers_body k v fuel hk j st e h) ⟨rfl, rfl, rfl, rfl⟩
  · intro e' h
    simp only [Gen.obtain_formers.k1, h.2.2.2, callResult_ret]

namespace GzTie

/-! ### `get_complete_accessor` -/

/-- the row `[-1, -1, -1, -1]` of `-ones((n, 4))`. -/
def negRow : PV := .arr (List.replicate 4 (.int (-1)))

/-- the row of vertex `v` in the complete accessor. -/
def latRow (k v : Nat) : PV := .arr ((obtainLatters k v).map fun (n : Nat) => .int (n : Int))

/-- the accessor after `i` iterations of the outer loop. -/
def rowsAt (k n i : Nat) : List PV := (List.range n).map fun v => if v < i then latRow k v else negRow

theorem npOnes_nat_four (n : Nat) :
    npOnes (.tup [.int (n : Int), .int 4]) =
      .ok (.arr (List.replicate n (.arr (List.replicate 4 (.int 1))))) := by
  have h : ¬ ((n : Int) < 0 ∨ (4 : Int) < 0) := by omega
  simp only [npOnes, npFull, h, if_false, Int.toNat_natCast]
  rfl

theorem npNegList_ones (n : Nat) :
    npNegList (List.replicate n (.arr (List.replicate 4 (.int 1)))) = .ok (List.replicate n negRow) := by
  induction n with
  | zero => rfl
  | succ n ih =>
    rw [List.replicate_succ, npNegList, ih]
    rfl

theorem npNeg_ones (n : Nat) :
    npNeg (.arr (List.replicate n (.arr (List.replicate 4 (.int 1))))) = .ok (.arr (rowsAt k n 0)) := by
  have h : rowsAt k n 0 = List.replicate n negRow := by
    simp [rowsAt, List.map_const']
  rw [h, npNeg, npNegList_ones]
  rfl

theorem npSetItem2_nat {rows r : List PV} {v j : Nat} {k : Int} (hr : rows[v]? = some (.arr r))
    (hj : r[j]? = some (.int k)) (x : Int) :
    npSetItem2 (.arr rows) (.int (v : Int)) (.int (j : Int)) (.int x) =
      .ok (.arr (rows.set v (.arr (r.set j (.int x))))) := by
  have hv : v < rows.length := by
    rcases Nat.lt_or_ge v rows.length with h | h
    · exact h
    · rw [List.getElem?_eq_none h] at hr; cases hr
  have hg : rows.getD v .none = .arr r := by
    rw [List.getD_eq_getElem?_getD, hr]; rfl
  simp only [npSetItem2, asInt?_int, normIndex_natCast hv, hg, pySetItem_arr_nat hj]

theorem set_self_of_getElem? {α} {l : List α} {i : Nat} {x : α} (h : l[i]? = some x) : l.set i x = l := by
  obtain ⟨hlt, hx⟩ := List.getElem?_eq_some_iff.mp h
  subst hx
  exact List.set_getElem_self hlt

/-- a loop over `range(n)` with an indexed invariant. -/
theorem forLoop_range_inv {ε} {body : PV → ε → R (Flow ε)} (Inv : Nat → ε → Prop) (n : Nat)
    (h : ∀ i, i < n → ∀ e, Inv i e → ∃ e', body (.int (i : Int)) e = .ok (.norm e') ∧ Inv (i + 1) e')
    {e : ε} (h0 : Inv 0 e) :
    ∃ e', forLoop body ((List.range n).map fun (i : Nat) => PV.int (i : Int)) e = .ok (.norm e') ∧
      Inv n e' := by
  have := forLoop_inv (body := body) Inv (xs := (List.range n).map fun (i : Nat) => PV.int (i : Int))
    (fun i hi e he => by
      have hi' : i < n := by simpa using hi
      simp only [List.getElem_map, List.getElem_range]
      exact h i hi' e he) h0
  simpa using this

/-- a statement that ends normally, followed by a continuation that ends normally. -/
theorem seq_exists_of_norm {ε} {m : R (Flow ε)} {k : ε → R (Flow ε)} (Q P : ε → Prop)
    (hm : ∃ e1, m = .ok (.norm e1) ∧ Q e1) (hk : ∀ e1, Q e1 → ∃ e', k e1 = .ok (.norm e') ∧ P e') :
    ∃ e', seq m k = .ok (.norm e') ∧ P e' := by
  obtain ⟨e1, rfl, hq⟩ := hm
  exact hk e1 hq

/-- the inner loop `for position, latter in enumerate(latters): accessor[v][position] = latter`
overwrites the tail `suf` of row `v`. -/
theorem setrow_loop (fuel v : Nat) (xs : List Nat) (ol : PV) :
    ∀ (n : Nat) (pre suf rows : List PV) (e : Gen.get_complete_accessor.Env),
      n = pre.length → e.accessor = .arr rows → e.vertex_index = .int (v : Int) →
      rows[v]? = some (.arr (pre ++ suf)) → suf.length = xs.length →
      (∀ y ∈ suf, ∃ m : Int, y = .int m) → e.observed_length = ol →
      ∃ e', forLoop (Gen.get_complete_accessor.for2_body fuel)
          (enumFrom n (xs.map fun (x : Nat) => PV.int (x : Int))) e = .ok (.norm e') ∧
        e'.accessor = .arr (rows.set v (.arr (pre ++ xs.map fun (x : Nat) => PV.int (x : Int)))) ∧
        e'.observed_length = ol := by
  induction xs with
  | nil =>
    intro n pre suf rows e _ ha _ hr hs _ ho
    have : suf = [] := List.eq_nil_of_length_eq_zero hs
    subst this
    exact ⟨e, rfl, by rw [ha, List.map_nil, set_self_of_getElem? hr], ho⟩
  | cons x xs ih =>
    intro n pre suf rows e hn ha hv hr hs hi ho
    cases suf with
    | nil => cases hs
    | cons s suf =>
      obtain ⟨m, rfl⟩ := hi s (by simp)
      have hj : (pre ++ PV.int m :: suf)[n]? = some (.int m) := by subst hn; simp
      have hset : (pre ++ PV.int m :: suf).set n (.int (x : Int)) = (pre ++ [.int (x : Int)]) ++ suf := by
        subst hn; simp
      obtain ⟨e1, hb, ha1, hv1, ho1⟩ : ∃ e1,
          Gen.get_complete_accessor.for2_body fuel (.tup [.int (n : Int), .int (x : Int)]) e =
            .ok (.norm e1) ∧
          e1.accessor = .arr (rows.set v (.arr ((pre ++ [.int (x : Int)]) ++ suf))) ∧
          e1.vertex_index = .int (v : Int) ∧ e1.observed_length = ol := by
        simp only [Gen.get_complete_accessor.for2_body, pyUnpack_two_tup, bnd_ok, ha, hv,
          List.getD_cons_zero, List.getD_cons_succ, npSetItem2_nat hr hj, hset]
        exact ⟨_, rfl, rfl, by first | rfl | exact hv, ho⟩
      obtain ⟨e', hl, ha', ho'⟩ := ih (n + 1) (pre ++ [.int (x : Int)]) suf
        (rows.set v (.arr ((pre ++ [.int (x : Int)]) ++ suf))) e1 (by simp [hn]) ha1 hv1
        (by
          have hvl : v < rows.length := by
            rcases Nat.lt_or_ge v rows.length with h | h
            · exact h
            · rw [List.getElem?_eq_none h] at hr; cases hr
          rw [List.getElem?_set_self hvl])
        (by simpa using hs) (fun y hy => hi y (by simp [hy])) ho1
      refine ⟨e', ?_, ?_, ho'⟩
      · rw [List.map_cons, enumFrom_cons, forLoop_cons_norm hb, hl]
      · rw [ha', List.set_set, List.map_cons, List.append_assoc]; rfl

theorem rowsAt_getElem? {k n i v : Nat} (h : v < n) :
    (rowsAt k n i)[v]? = some (if v < i then latRow k v else negRow) := by
  simp [rowsAt, h]

theorem rowsAt_set (k n i : Nat) : (rowsAt k n i).set i (latRow k i) = rowsAt k n (i + 1) := by
  apply List.ext_getElem?
  intro j
  rw [List.getElem?_set]
  by_cases hj : j < n
  · rw [rowsAt_getElem? hj, rowsAt_getElem? hj]
    by_cases hij : i = j
    · subst hij; simp [rowsAt, hj]
    · have h1 : (j < i + 1) = (j < i) := by apply propext; omega
      simp only [hij, if_false, h1]
  · have h1 : (rowsAt k n i)[j]? = Option.none := List.getElem?_eq_none (by simp [rowsAt]; omega)
    have h2 : (rowsAt k n (i + 1))[j]? = Option.none := List.getElem?_eq_none (by simp [rowsAt]; omega)
    rw [h1, h2]
    have hlen : (rowsAt k n i).length = n := by simp [rowsAt]
    split
    · next hij =>
      split
      · next hlt => rw [hlen] at hlt; omega
      · rfl
    · rfl

theorem rowsAt_full (k : Nat) : PV.arr (rowsAt k (4 ^ k) (4 ^ k)) = accPV (getCompleteAccessor k) := by
  simp only [accPV, getCompleteAccessor, rowsAt, PV.arr.injEq]
  simp only [Array.toList_map, Array.toList_range, List.map_map]
  apply List.map_congr_left
  intro v hv
  have : v < 4 ^ k := List.mem_range.mp hv
  simp [this, latRow]

/-- the inner loop on the state reached after `i` iterations of the outer loop. -/
theorem setrow_rowsAt (k n fuel i : Nat) (hi : i < n) (e : Gen.get_complete_accessor.Env)
    (h2 : e.accessor = .arr (rowsAt k n i)) (hv : e.vertex_index = .int (i : Int))
    (h1 : e.observed_length = .int (k : Int)) :
    ∃ e1, forLoop (Gen.get_complete_accessor.for2_body fuel)
        (enumFrom 0 ((obtainLatters k i).map fun (x : Nat) => PV.int (x : Int))) e = .ok (.norm e1) ∧
      e1.accessor = .arr (rowsAt k n (i + 1)) ∧ e1.observed_length = .int (k : Int) := by
  obtain ⟨e', hl, ha', ho'⟩ := setrow_loop fuel i (obtainLatters k i) (.int (k : Int)) 0 []
    (List.replicate 4 (.int (-1))) (rowsAt k n i) e rfl h2 hv
    (by rw [rowsAt_getElem? hi]; simp [negRow]) (by simp [obtainLatters])
    (fun y hy => ⟨-1, (List.mem_replicate.mp hy).2⟩) h1
  refine ⟨e', hl, ?_, ho'⟩
  rw [ha', List.nil_append]
  exact congrArg PV.arr (rowsAt_set k n i)

def AccInv (k n i : Nat) (e : Gen.get_complete_accessor.Env) : Prop :=
  e.observed_length = .int (k : Int) ∧ e.accessor = .arr (rowsAt k n i)

theorem accessor_body (k n fuel i : Nat) (hi : i < n) (e : Gen.get_complete_accessor.Env)
    (h : AccInv k n i e) :
    ∃ e', Gen.get_complete_accessor.for1_body fuel (.int (i : Int)) e = .ok (.norm e') ∧
      AccInv k n (i + 1) e' := by
  obtain ⟨h1, h2⟩ := h
  simp only [Gen.get_complete_accessor.for1_body, h1, tie_obtain_latters, bnd_ok, pyEnumerate_natsPV,
    pyIter_list]
  apply seq_exists_of_norm (fun e1 => e1.accessor = .arr (rowsAt k n (i + 1)) ∧
    e1.observed_length = .int (k : Int))
  · exact setrow_rowsAt k n fuel i hi _ (by exact h2) (by rfl) (by first | rfl | exact h1)
  · intro e1 h
    exact ⟨e1, by simp only [Gen.get_complete_accessor.k1, bnd_ok, ite_self], h.2, h.1⟩

end GzTie

theorem tie_get_complete_accessor (k fuel : Nat) (verbose : Bool) :
    Gen.get_complete_accessor fuel (.int (k : Int)) (.bool verbose) = .ok (accPV (getCompleteAccessor k)) := by
  simp only [Gen.get_complete_accessor, Gen.get_complete_accessor.body, pyPow_four_nat, bnd_ok, pyInt_int,
    npOnes_nat_four, npNeg_ones (k := k), pyRange1_nat, pyIter_list]
  apply callResult_seq_of_norm (AccInv k (4 ^ k) (4 ^ k))
  · exact forLoop_range_inv (AccInv k (4 ^ k)) _
      (fun i hi e he => accessor_body k (4 ^ k) fuel i hi e he) ⟨rfl, rfl⟩
  · intro e' h
    simp only [Gen.get_complete_accessor.k2, h.2, callResult_ret, rowsAt_full]

end Dsw.Tie
