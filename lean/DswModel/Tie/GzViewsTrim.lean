import DswModel.Tie.GzViewsLib
import DswModel.Lemmas.UselessSpec
/-!
# Translation tie — `remove_useless`, `latter_map_to_accessor` (dsw/graphized.py)
-/
namespace Dsw.Tie.GzV
open Dsw Dsw.Py Dsw.Tie

abbrev REnv := Gen.remove_useless.Env

/-- glue: a statement that ends normally, then a continuation whose outcome satisfies `P`. -/
theorem seq_pred {ε} {m : R (Flow ε)} {k : ε → R (Flow ε)} (Q : ε → Prop) (P : R (Flow ε) → Prop)
    (hm : ∃ e1, m = .ok (.norm e1) ∧ Q e1) (hk : ∀ e1, Q e1 → P (k e1)) : P (seq m k) := by
  obtain ⟨e1, rfl, hq⟩ := hm
  exact hk e1 hq

/-! ### the model round, prefix by prefix -/

def keepF (rm sv : List Nat) (w : Nat) : Bool := !rm.contains w && sv.contains w

def bmap (rm sv : List Nat) (pre : LMap) : LMap :=
  (pre.filter fun p => !rm.contains p.1).map fun p => (p.1, p.2.filter (keepF rm sv))

def bflag (rm sv : List Nat) (pre : LMap) : Bool :=
  (pre.filter fun p => !rm.contains p.1).any fun p => p.2.any fun w => !keepF rm sv w

theorem round_eq (m : LMap) (t : Nat) :
    removeUselessRound m t =
      (bmap (UselessSpec.rem m t) (UselessSpec.sav m t) m, bflag (UselessSpec.rem m t) (UselessSpec.sav m t) m) :=
  rfl

theorem bmap_nil (rm sv : List Nat) : bmap rm sv [] = [] := rfl
theorem bflag_nil (rm sv : List Nat) : bflag rm sv [] = false := rfl

theorem bmap_append_keep {rm sv : List Nat} (pre : LMap) {p : Nat × List Nat} (h : rm.contains p.1 = false) :
    bmap rm sv (pre ++ [p]) = bmap rm sv pre ++ [(p.1, p.2.filter (keepF rm sv))] := by
  simp only [bmap, List.filter_append, List.filter_cons, List.filter_nil, h, Bool.not_false, ↓reduceIte,
    List.map_append, List.map_cons, List.map_nil]

theorem bflag_append_keep {rm sv : List Nat} (pre : LMap) {p : Nat × List Nat} (h : rm.contains p.1 = false) :
    bflag rm sv (pre ++ [p]) = (bflag rm sv pre || p.2.any fun w => !keepF rm sv w) := by
  simp only [bflag, List.filter_append, List.filter_cons, List.filter_nil, h, Bool.not_false, ↓reduceIte,
    List.any_append, List.any_cons, List.any_nil, Bool.or_false]

theorem bmap_append_drop {rm sv : List Nat} (pre : LMap) {p : Nat × List Nat} (h : rm.contains p.1 = true) :
    bmap rm sv (pre ++ [p]) = bmap rm sv pre := by
  simp only [bmap, List.filter_append, List.filter_cons, List.filter_nil, h, Bool.not_true, Bool.false_eq_true,
    ↓reduceIte, List.append_nil]

theorem bflag_append_drop {rm sv : List Nat} (pre : LMap) {p : Nat × List Nat} (h : rm.contains p.1 = true) :
    bflag rm sv (pre ++ [p]) = bflag rm sv pre := by
  simp only [bflag, List.filter_append, List.filter_cons, List.filter_nil, h, Bool.not_true, Bool.false_eq_true,
    ↓reduceIte, List.append_nil]

theorem keys_bmap_sub {rm sv : List Nat} {pre : LMap} {v : Nat} (h : v ∈ (bmap rm sv pre).map (·.1)) :
    v ∈ pre.map (·.1) := by
  simp only [bmap, List.map_map, List.mem_map, List.mem_filter, Function.comp] at h ⊢
  obtain ⟨p, ⟨hp, _⟩, rfl⟩ := h
  exact ⟨p, hp, rfl⟩

/-! ### the classification loop (`for2`) -/

def clsStep (t : Nat) (st : List Nat × List Nat) (p : Nat × List Nat) : List Nat × List Nat :=
  if p.2.length < t then (st.1 ++ [p.1], st.2) else (st.1, st.2 ++ [p.1])

theorem cls_foldl (t : Nat) (m : LMap) (st : List Nat × List Nat) :
    m.foldl (clsStep t) st = (st.1 ++ UselessSpec.rem m t, st.2 ++ UselessSpec.sav m t) := by
  induction m generalizing st with
  | nil => simp [UselessSpec.rem, UselessSpec.sav]
  | cons p m ih =>
    rw [List.foldl_cons, ih]
    by_cases h : p.2.length < t
    · simp [clsStep, UselessSpec.rem, UselessSpec.sav, h]
    · have h' : t ≤ p.2.length := by omega
      simp [clsStep, UselessSpec.rem, UselessSpec.sav, h, h']

def ClsRel (t : Nat) (L V Rn : PV) (st : List Nat × List Nat) (e : REnv) : Prop :=
  e.threshold = .int (t : Int) ∧ e.remove_vertices = natsPV st.1 ∧ e.saved_vertices = natsPV st.2 ∧
    e.latter_map = L ∧ e.verbose = V ∧ e.round_number = Rn

theorem for2_spec (t : Nat) (L V Rn : PV) (fuel i : Nat) (p : Nat × List Nat) (st : List Nat × List Nat) (e : REnv)
    (h : ClsRel t L V Rn st e) :
    ∃ e', Gen.remove_useless.for2_body fuel (.tup [.int (i : Int), itemPV p]) e = .ok (.norm e') ∧
      ClsRel t L V Rn (clsStep t st p) e' := by
  obtain ⟨h1, h2, h3, h4, h5, h6⟩ := h
  simp only [Gen.remove_useless.for2_body, itemPV, pyUnpack_two_tup, bnd_ok, List.getD_cons_zero,
    List.getD_cons_succ, pyLen_natsPV, h1, pyLt_nat, clsStep]
  by_cases hlt : p.2.length < t
  · simp only [hlt, decide_true, ↓reduceIte, h2, pyAppend_natsPV, bnd_ok, seq_norm, Gen.remove_useless.k1,
      ite_self]
    exact ⟨_, rfl, by first | rfl | exact h1, rfl, by first | rfl | exact h3, h4, h5, h6⟩
  · simp only [hlt, decide_false, Bool.false_eq_true, ↓reduceIte, h3, pyAppend_natsPV, bnd_ok, seq_norm,
      Gen.remove_useless.k1, ite_self]
    exact ⟨_, rfl, by first | rfl | exact h1, by first | rfl | exact h2, rfl, h4, h5, h6⟩

/-! ### the filtering loop (`for4`) -/

def fltStep (rm sv : List Nat) (st : List Nat × Bool) (w : Nat) : List Nat × Bool :=
  if keepF rm sv w then (st.1 ++ [w], st.2) else (st.1, true)

theorem flt_foldl (rm sv : List Nat) (l : List Nat) (st : List Nat × Bool) :
    l.foldl (fltStep rm sv) st = (st.1 ++ l.filter (keepF rm sv), st.2 || l.any fun w => !keepF rm sv w) := by
  induction l generalizing st with
  | nil => simp
  | cons w l ih =>
    rw [List.foldl_cons, ih]
    cases h : keepF rm sv w <;> simp [fltStep, h]

def FltRel (rm sv : List Nat) (L T V Rn NL FV : PV) (st : List Nat × Bool) (e : REnv) : Prop :=
  e.remove_vertices = natsPV rm ∧ e.saved_vertices = natsPV sv ∧
    e.available_latter_vertices = natsPV st.1 ∧ e.remove_flag = .bool st.2 ∧
    e.latter_map = L ∧ e.threshold = T ∧ e.verbose = V ∧ e.round_number = Rn ∧
    e.new_latter_map = NL ∧ e.former_vertex = FV

theorem for4_spec (rm sv : List Nat) (L T V Rn NL FV : PV) (fuel w : Nat) (st : List Nat × Bool) (e : REnv)
    (h : FltRel rm sv L T V Rn NL FV st e) :
    ∃ e', Gen.remove_useless.for4_body fuel (.int (w : Int)) e = .ok (.norm e') ∧
      FltRel rm sv L T V Rn NL FV (fltStep rm sv st w) e' := by
  obtain ⟨h1, h2, h3, h4, h5, h6, h7, h8, h9, h10⟩ := h
  simp only [Gen.remove_useless.for4_body, h1, h2, pyIn_natsPV, bnd_ok, ite_ok_and, fltStep, keepF]
  rcases Bool.eq_false_or_eq_true (!rm.contains w && sv.contains w) with hk | hk
  · simp only [hk, ↓reduceIte, h3, pyAppend_natsPV, bnd_ok]
    exact ⟨_, rfl, by first | rfl | exact h1, by first | rfl | exact h2, rfl, h4, h5, h6, h7, h8, h9, h10⟩
  · simp only [hk, Bool.false_eq_true, ↓reduceIte]
    exact ⟨_, rfl, by first | rfl | exact h1, by first | rfl | exact h2, h3, rfl, h5, h6, h7, h8, h9, h10⟩

/-! ### the rebuilding loop (`for3`) -/

def RebRel (rm sv : List Nat) (L T V Rn : PV) (pre : LMap) (e : REnv) : Prop :=
  e.remove_vertices = natsPV rm ∧ e.saved_vertices = natsPV sv ∧
    e.new_latter_map = lmapPV (bmap rm sv pre) ∧ e.remove_flag = .bool (bflag rm sv pre) ∧
    e.latter_map = L ∧ e.threshold = T ∧ e.verbose = V ∧ e.round_number = Rn

theorem for3_spec (rm sv : List Nat) (L T V Rn : PV) (fuel i : Nat) (pre : LMap) (p : Nat × List Nat)
    (hnot : p.1 ∉ pre.map (·.1)) (e : REnv) (h : RebRel rm sv L T V Rn pre e) :
    ∃ e', Gen.remove_useless.for3_body fuel (.tup [.int (i : Int), itemPV p]) e = .ok (.norm e') ∧
      RebRel rm sv L T V Rn (pre ++ [p]) e' := by
  obtain ⟨h1, h2, h3, h4, h5, h6, h7, h8⟩ := h
  simp only [Gen.remove_useless.for3_body, itemPV, pyUnpack_two_tup, bnd_ok, List.getD_cons_zero,
    List.getD_cons_succ, h1, pyIn_natsPV]
  cases hc : rm.contains p.1
  · simp only [Bool.not_false, ↓reduceIte, pyIter_natsPV, bnd_ok]
    have hnot' : p.1 ∉ (bmap rm sv pre).map (·.1) := fun hm => hnot (keys_bmap_sub hm)
    refine seq_exists (RebRel rm sv L T V Rn (pre ++ [p])) _ ?_ ?_
    · refine seq_exists (FltRel rm sv L T V Rn (lmapPV (bmap rm sv pre)) (.int (p.1 : Int))
        (p.2.foldl (fltStep rm sv) ([], bflag rm sv pre))) _ ?_ ?_
      · exact forLoop_rel_map (FltRel rm sv L T V Rn (lmapPV (bmap rm sv pre)) (.int (p.1 : Int))) (fltStep rm sv)
          (fun (n : Nat) => PV.int (n : Int)) (fun w _ st e he => for4_spec rm sv _ _ _ _ _ _ fuel w st e he)
          ⟨by first | rfl | exact h1, by exact h2, rfl, by exact h4, by exact h5, by exact h6, by exact h7,
            by exact h8, by exact h3, rfl⟩
      · intro e1 g
        rw [flt_foldl] at g
        obtain ⟨g1, g2, g3, g4, g5, g6, g7, g8, g9, g10⟩ := g
        simp only [Gen.remove_useless.k2, g9, g10, g3, List.nil_append, pySetItem_lmapPV_new hnot', bnd_ok]
        refine ⟨_, rfl, g1, g2, ?_, ?_, g5, g6, g7, g8⟩
        · rw [bmap_append_keep pre hc]
        · rw [bflag_append_keep pre hc]; exact g4
    · intro e1 g
      simp only [Gen.remove_useless.k3, bnd_ok, ite_self]
      exact ⟨_, rfl, g⟩
  · simp only [Bool.not_true, Bool.false_eq_true, ↓reduceIte, seq_norm, Gen.remove_useless.k3, bnd_ok, ite_self]
    refine ⟨_, rfl, by first | rfl | exact h1, by exact h2, ?_, ?_, by exact h5, by exact h6, by exact h7,
      by exact h8⟩
    · rw [bmap_append_drop pre hc]; exact h3
    · rw [bflag_append_drop pre hc]; exact h4

/-! ### one round -/

def RU (m : LMap) (t : Nat) (V : PV) (rn : Int) (e : REnv) : Prop :=
  e.latter_map = lmapPV m ∧ e.threshold = .int (t : Int) ∧ e.verbose = V ∧ e.round_number = .int rn

/-- the outcome of one round: `break` when nothing was removed. -/
def RoundPost (m : LMap) (t : Nat) (V : PV) (rn : Int) (r : R (Flow REnv)) : Prop :=
  ∃ e', r = .ok (if (removeUselessRound m t).2 then .norm e' else .brk e') ∧
    RU (removeUselessRound m t).1 t V (rn + 1) e'

theorem k4_spec (m : LMap) (t : Nat) (V : PV) (rn : Int) (fuel : Nat) (e : REnv)
    (h : RebRel (UselessSpec.rem m t) (UselessSpec.sav m t) (lmapPV m) (.int (t : Int)) V (.int rn) m e) :
    RoundPost m t V rn (Gen.remove_useless.k4 fuel e) := by
  obtain ⟨h1, h2, h3, h4, h5, h6, h7, h8⟩ := h
  simp only [RoundPost, round_eq, Gen.remove_useless.k4, h8, npAdd_int, bnd_ok, h4, truthy_bool]
  rcases Bool.eq_false_or_eq_true (bflag (UselessSpec.rem m t) (UselessSpec.sav m t) m) with hfl | hfl
  · simp only [hfl, Bool.not_true, Bool.false_eq_true, ↓reduceIte]
    exact ⟨_, rfl, by exact h3, by exact h6, by exact h7, rfl⟩
  · simp only [hfl, Bool.not_false, Bool.false_eq_true, ↓reduceIte]
    exact ⟨_, rfl, by exact h3, by exact h6, by exact h7, rfl⟩

theorem k5_spec (m : LMap) (hm : LMap.KeysNodup m) (t : Nat) (V : PV) (rn : Int) (fuel : Nat) (e : REnv)
    (h : RU m t V rn e) (hr : e.remove_vertices = natsPV (UselessSpec.rem m t))
    (hs : e.saved_vertices = natsPV (UselessSpec.sav m t)) :
    RoundPost m t V rn (Gen.remove_useless.k5 fuel e) := by
  obtain ⟨h1, h2, h3, h4⟩ := h
  simp only [Gen.remove_useless.k5, h1, pyDictItems_lmapPV, bnd_ok, pyEnumerate_list, pyIter_list]
  refine seq_pred (RebRel (UselessSpec.rem m t) (UselessSpec.sav m t) (lmapPV m) (.int (t : Int)) V (.int rn) m)
    _ ?_ (fun e1 g => k4_spec m t V rn fuel e1 g)
  refine forLoop_enum_prefix (RebRel (UselessSpec.rem m t) (UselessSpec.sav m t) (lmapPV m) (.int (t : Int)) V
    (.int rn)) itemPV m (fun i pre x suf has e he => ?_)
    ⟨by exact hr, by exact hs, rfl, rfl, by first | rfl | exact h1, by exact h2, by exact h3, by exact h4⟩
  have hnd : (m.map (·.1)).Nodup := hm
  rw [has, List.map_append, List.map_cons] at hnd
  have hnot : x.1 ∉ pre.map (·.1) := fun hmem =>
    (List.nodup_append.mp hnd).2.2 x.1 hmem x.1 List.mem_cons_self rfl
  exact for3_spec _ _ _ _ _ _ fuel i pre x hnot e he

theorem k7_spec (m : LMap) (hm : LMap.KeysNodup m) (t : Nat) (V : PV) (rn : Int) (fuel : Nat) (e : REnv)
    (h : RU m t V rn e) : RoundPost m t V rn (Gen.remove_useless.k7 fuel e) := by
  obtain ⟨h1, h2, h3, h4⟩ := h
  simp only [Gen.remove_useless.k7, h1, pyLen_lmapPV, pyDictItems_lmapPV, bnd_ok, pyEnumerate_list, pyIter_list]
  refine seq_pred (ClsRel t (lmapPV m) V (.int rn) (m.foldl (clsStep t) ([], []))) _ ?_ ?_
  · exact forLoop_rel_enum (ClsRel t (lmapPV m) V (.int rn)) (clsStep t) itemPV 0
      (fun i p _ st e he => for2_spec t _ _ _ fuel i p st e he)
      ⟨by exact h2, rfl, rfl, by first | rfl | exact h1, by exact h3, by exact h4⟩
  · intro e1 g
    rw [cls_foldl, List.nil_append, List.nil_append] at g
    obtain ⟨g1, g2, g3, g4, g5, g6⟩ := g
    simp only [Gen.remove_useless.k6, bnd_ok, ite_self, seq_norm]
    exact k5_spec m hm t V rn fuel e1 ⟨g4, g1, g5, g6⟩ g2 g3

theorem round_spec (m : LMap) (hm : LMap.KeysNodup m) (t : Nat) (V : PV) (rn : Int) (fuel : Nat) (e : REnv)
    (h : RU m t V rn e) : RoundPost m t V rn (Gen.remove_useless.while1_body fuel e) := by
  simp only [Gen.remove_useless.while1_body, bnd_ok, ite_self, seq_norm]
  exact k7_spec m hm t V rn fuel e h

/-! ### the loop -/

theorem while_spec (t : Nat) (V : PV) (fuel : Nat) :
    ∀ (f : Nat) (m r : LMap) (rn : Int) (W : Nat) (e : REnv), LMap.KeysNodup m → RU m t V rn e →
      removeUselessLoop t f m = .ok r → f ≤ W →
      ∃ e', whileLoop (Gen.remove_useless.while1_cond fuel) (Gen.remove_useless.while1_body fuel) W e =
          .ok (.norm e') ∧ e'.latter_map = lmapPV r := by
  intro f
  induction f with
  | zero => intro m r rn W e _ _ h _; cases h
  | succ f ih =>
    intro m r rn W e hm hru h hW
    obtain ⟨W', rfl⟩ : ∃ W', W = W' + 1 := ⟨W - 1, by omega⟩
    obtain ⟨e1, hb, hr1⟩ := round_spec m hm t V rn fuel e hru
    simp only [removeUselessLoop] at h
    cases hfl : (removeUselessRound m t).2
    · rw [hfl] at h hb
      simp only [Bool.false_eq_true, ↓reduceIte, Except.ok.injEq] at h hb
      refine ⟨e1, whileLoop_true_brk (cond := Gen.remove_useless.while1_cond fuel) (e := e) rfl hb W', ?_⟩
      rw [← h]; exact hr1.1
    · rw [hfl] at h hb
      simp only [↓reduceIte] at h hb
      rw [whileLoop_true_norm (cond := Gen.remove_useless.while1_cond fuel) (e := e) rfl hb W']
      exact ih _ r (rn + 1) W' e1 (UselessSpec.round_nodup t hm) hr1 h (by omega)

theorem remove_useless_tie (m r : LMap) (t fuel : Nat) (V : PV) (hm : LMap.KeysNodup m)
    (h : removeUseless m t = .ok r) (hf : m.arcs + 2 ≤ fuel) :
    Gen.remove_useless fuel (lmapPV m) (.int (t : Int)) V = .ok (lmapPV r) := by
  simp only [Gen.remove_useless, Gen.remove_useless.body, bnd_ok, ite_self, seq_norm, Gen.remove_useless.k9]
  apply callResult_seq_of_norm (fun e => e.latter_map = lmapPV r)
  · exact while_spec t V fuel (m.arcs + 1) m r 1 fuel _ hm ⟨rfl, rfl, rfl, rfl⟩ h (by omega)
  · intro e' h
    simp only [Gen.remove_useless.k8, h, callResult_ret]

/-! ### `latter_map_to_accessor` -/

abbrev AEnv := Gen.latter_map_to_accessor.Env

/-- the model's fill. -/
def fillAcc (m : LMap) (k : Nat) : Acc :=
  m.foldl (fun acc p => p.2.foldl (fun acc w => acc.setEnt p.1 (w % 4) w) acc)
    (Array.replicate (4 ^ k) (Array.replicate 4 (-1)))

def FillA (k : Nat) (acc : Acc) (e : AEnv) : Prop :=
  e.accessor = accPV acc ∧ Shape (4 ^ k) acc ∧ e.nucleotides = .str ['A', 'C', 'G', 'T']

def FillIn (k v : Nat) (acc : Acc) (e : AEnv) : Prop := FillA k acc e ∧ e.former_vertex = .int (v : Int)

theorem lma_for2_spec (k fuel v : Nat) (hv : v < 4 ^ k) (w : Nat) (acc : Acc) (e : AEnv) (h : FillIn k v acc e) :
    ∃ e', Gen.latter_map_to_accessor.for2_body fuel (.int (w : Int)) e = .ok (.norm e') ∧
      FillIn k v (acc.setEnt v (w % 4) (w : Int)) e' := by
  obtain ⟨⟨h1, h2, h3⟩, h4⟩ := h
  have hv' : v < acc.size := by rw [h2.1]; exact hv
  have hj : w % 4 < (acc.getD v #[]).size := by rw [h2.2 v hv]; omega
  simp only [Gen.latter_map_to_accessor.for2_body, h3, GzTie.pyLen_ACGT, bnd_ok,
    pyMod_nat (a := w) (b := 4) (by omega), h1, h4, npSetItem2_accPV hv' hj]
  exact ⟨_, rfl, ⟨rfl, h2.setEnt _ _ _, by first | rfl | exact h3⟩, by first | rfl | exact h4⟩

theorem lma_for1_spec (k fuel i : Nat) (p : Nat × List Nat) (hp : p.1 < 4 ^ k) (acc : Acc) (e : AEnv)
    (h : FillA k acc e) :
    ∃ e', Gen.latter_map_to_accessor.for1_body fuel (.tup [.int (i : Int), itemPV p]) e = .ok (.norm e') ∧
      FillA k (p.2.foldl (fun acc w => acc.setEnt p.1 (w % 4) w) acc) e' := by
  obtain ⟨h1, h2, h3⟩ := h
  simp only [Gen.latter_map_to_accessor.for1_body, itemPV, pyUnpack_two_tup, bnd_ok, List.getD_cons_zero,
    List.getD_cons_succ, pyIter_natsPV]
  refine seq_exists (FillIn k p.1 (p.2.foldl (fun acc w => acc.setEnt p.1 (w % 4) w) acc)) _ ?_ ?_
  · exact forLoop_rel_map (FillIn k p.1) (fun acc (w : Nat) => acc.setEnt p.1 (w % 4) (w : Int))
      (fun (n : Nat) => PV.int (n : Int)) (fun w _ st e he => lma_for2_spec k fuel p.1 hp w st e he)
      ⟨⟨by exact h1, h2, by exact h3⟩, rfl⟩
  · intro e1 g
    simp only [Gen.latter_map_to_accessor.k1, bnd_ok, ite_self]
    exact ⟨_, rfl, g.1⟩

theorem lma_k2_spec (k fuel : Nat) (m : LMap) (hk : ∀ p ∈ m, p.1 < 4 ^ k) (e : AEnv)
    (hl : e.latter_map = lmapPV m) (ha : e.accessor = accPV (Array.replicate (4 ^ k) (Array.replicate 4 (-1))))
    (hn : e.nucleotides = .str ['A', 'C', 'G', 'T']) :
    ∃ e', Gen.latter_map_to_accessor.k2 fuel e = .ok (.norm e') ∧ FillA k (fillAcc m k) e' := by
  simp only [Gen.latter_map_to_accessor.k2, hl, pyDictItems_lmapPV, pyLen_list, bnd_ok, pyEnumerate_list,
    pyIter_list]
  unfold fillAcc
  refine forLoop_rel_enum (FillA k) (fun acc p => p.2.foldl (fun acc w => acc.setEnt p.1 (w % 4) w) acc) itemPV 0
    (fun i p hp st e he => lma_for1_spec k fuel i p (hk p hp) st e he) ?_
  exact ⟨ha, Shape_init _, hn⟩

theorem lma_k4_spec (k fuel : Nat) (m : LMap) (hk : ∀ p ∈ m, p.1 < 4 ^ k) (e : AEnv)
    (hl : e.latter_map = lmapPV m) (ho : e.observed_length = .int (k : Int))
    (hn : e.nucleotides = .str ['A', 'C', 'G', 'T']) :
    Gen.latter_map_to_accessor.k4 fuel e = .ok (.ret (accPV (fillAcc m k))) := by
  simp only [Gen.latter_map_to_accessor.k4, hn, GzTie.pyLen_ACGT, bnd_ok, ho, pyPow_nat, neg_ones_expr, hl,
    pyLen_lmapPV, pyGt_nat_zero]
  by_cases h0 : 0 < m.length
  · simp only [h0, decide_true, ↓reduceIte, ite_self, seq_norm]
    apply seq_eq_of_norm (FillA k (fillAcc m k))
    · exact lma_k2_spec k fuel m hk _ (by first | rfl | exact hl) rfl (by first | rfl | exact hn)
    · intro e' g
      simp only [Gen.latter_map_to_accessor.k3, g.1]
  · have hm : m = [] := List.eq_nil_of_length_eq_zero (by omega)
    subst hm
    simp only [List.length_nil, Nat.lt_irrefl, decide_false, Bool.false_eq_true, ↓reduceIte, seq_norm,
      Gen.latter_map_to_accessor.k3]
    rfl

theorem lma_model (m : LMap) (k : Nat) (hk : ∀ p ∈ m, p.1 < 4 ^ k) :
    (if m.any (fun p => decide (p.1 ≥ 4 ^ k)) then (Except.error PyErr.indexError : R Acc)
      else pure (fillAcc m k)) = .ok (fillAcc m k) := by
  have : m.any (fun p => decide (p.1 ≥ 4 ^ k)) = false := by
    rw [List.any_eq_false]
    intro p hp
    have := hk p hp
    simp only [ge_iff_le, decide_eq_true_eq]; omega
  rw [this]; rfl

theorem lma_plain_tie (m : LMap) (k fuel : Nat) (V : PV) (hk : ∀ p ∈ m, p.1 < 4 ^ k) :
    Gen.latter_map_to_accessor fuel (lmapPV m) (.int (k : Int)) .none V =
      (latterMapToAccessor m k Option.none).map accPV := by
  have hmod : latterMapToAccessor m k Option.none = .ok (fillAcc m k) := lma_model m k hk
  rw [hmod]
  simp only [Gen.latter_map_to_accessor, Gen.latter_map_to_accessor.body, pyIsNone_none, Bool.not_true, bnd_ok,
    Bool.false_eq_true, ↓reduceIte, seq_norm]
  rw [lma_k4_spec k fuel m hk _ rfl rfl rfl]
  rfl

theorem lma_trim_tie (m : LMap) (k t fuel : Nat) (V : PV) (hm : LMap.KeysNodup m)
    (hk : ∀ p ∈ m, p.1 < 4 ^ k) (hf : m.arcs + 2 ≤ fuel) :
    Gen.latter_map_to_accessor fuel (lmapPV m) (.int (k : Int)) (.int (t : Int)) V =
      (latterMapToAccessor m k (some t)).map accPV := by
  obtain ⟨r, hr, hsub, _, _⟩ := UselessSpec.removeUseless_spec m t hm
  have hkr : ∀ p ∈ r, p.1 < 4 ^ k := by
    intro p hp
    have h1 : p.1 ∈ m.map (·.1) := hsub.1.subset (List.mem_map_of_mem hp)
    obtain ⟨q, hq, hqp⟩ := List.mem_map.mp h1
    rw [← hqp]; exact hk q hq
  have hmod : latterMapToAccessor m k (some t) = .ok (fillAcc r k) := by
    simp only [latterMapToAccessor, hr]
    exact lma_model r k hkr
  rw [hmod]
  simp only [Gen.latter_map_to_accessor, Gen.latter_map_to_accessor.body, pyIsNone_int, Bool.not_false, bnd_ok,
    ↓reduceIte, remove_useless_tie m r t fuel V hm hr hf, seq_norm]
  rw [lma_k4_spec k fuel r hkr _ rfl rfl rfl]
  rfl

end Dsw.Tie.GzV
