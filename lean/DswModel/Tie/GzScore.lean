import DswModel.Tie.GzViews
import DswModel.Tie.GzScoreLib
/-!
# Translation tie — `calculate_intersection_score` (dsw/graphized.py)

`Dsw.Gen.calculate_intersection_score` (generated from the Python source on every run) computes the model
function `Dsw.calculateIntersectionScore`: for every vertex of the latter map, the pairwise union sizes of the
leaf sets of its successors (substitution), optionally the unions with the leaf sets two steps on (insertion)
and with the vertex's own leaf set (deletion), accumulated into the `4^k × 4` score table.

The lemmas on `union1d`, `combinations`, the score table and `enumerate` are in `GzScoreLib`.
-/
namespace Dsw.Tie
open Dsw Dsw.Py

namespace GzS

abbrev SEnv := Gen.calculate_intersection_score.Env

/-! ### the model, step by step -/

/-- one pair of successors (substitution). -/
def pstep (cur : Nat) (lat : List Nat) (mb : List (List Nat)) (sc : Array (Array Nat)) (ij : Nat × Nat) :
    Array (Array Nat) :=
  let s := unionCount (mb.getD ij.1 []) (mb.getD ij.2 [])
  addScore (addScore sc cur (lat.getD ij.1 0 % 4) s) cur (lat.getD ij.2 0 % 4) s

/-- one vertex two steps on (insertion). -/
def wstep (m : LMap) (k cur : Nat) (mb : List (List Nat)) (fi : Nat × Nat) (sc : Array (Array Nat)) (w : Nat) :
    Array (Array Nat) :=
  addScore sc cur (fi.1 % 4) (unionCount (mb.getD fi.2 []) (leafMap m (k - 1) [w]))

/-- one successor (insertion). -/
def istep (m : LMap) (k cur : Nat) (mb : List (List Nat)) (sc : Array (Array Nat)) (fi : Nat × Nat) :
    Array (Array Nat) :=
  match m.get? fi.1 with
  | Option.none => sc
  | some ls => ls.foldl (wstep m k cur mb fi) sc

/-- one successor (deletion). -/
def dstep (cur : Nat) (mb : List (List Nat)) (db : List Nat) (sc : Array (Array Nat)) (fi : Nat × Nat) :
    Array (Array Nat) :=
  addScore sc cur (fi.1 % 4) (unionCount (mb.getD fi.2 []) db)

def delPart (m : LMap) (k : Nat) (del : Bool) (cur : Nat) (lat : List Nat) (mb : List (List Nat))
    (sc : Array (Array Nat)) : Array (Array Nat) :=
  if del then lat.zipIdx.foldl (dstep cur mb (leafMap m (k - 1) [cur])) sc else sc

def insPart (m : LMap) (k : Nat) (ins : Bool) (cur : Nat) (lat : List Nat) (mb : List (List Nat))
    (sc : Array (Array Nat)) : Array (Array Nat) :=
  if ins then lat.zipIdx.foldl (istep m k cur mb) sc else sc

/-- one vertex of the latter map. -/
def vstep (m : LMap) (k : Nat) (ins del : Bool) (sc : Array (Array Nat)) (p : Nat × List Nat) :
    Array (Array Nat) :=
  let mb := p.2.map fun w => leafMap m (k - 1) [w]
  delPart m k del p.1 p.2 mb (insPart m k ins p.1 p.2 mb ((pairsBelow mb.length).foldl (pstep p.1 p.2 mb) sc))

theorem calc_eq (m : LMap) (k : Nat) (ins del : Bool) :
    calculateIntersectionScore m k ins del =
      m.foldl (vstep m k ins del) (Array.replicate (4 ^ k) (Array.replicate 4 0)) := rfl

/-! ### the relations -/

/-- what the loop over the vertices keeps: the arguments, the constants, the score table. -/
def Outer (m : LMap) (k : Nat) (ins del : Bool) (sc : Array (Array Nat)) (e : SEnv) : Prop :=
  e.latter_map = lmapPV m ∧ e.depth = .int ((k : Int) - 1) ∧ e.nucleotides = .str ['A', 'C', 'G', 'T'] ∧
    e.has_insertion = .bool ins ∧ e.has_deletion = .bool del ∧ e.scores = scoresPV sc ∧ ShapeS (4 ^ k) sc

/-- … and, inside one vertex, the vertex and the leaf sets of its successors. -/
def St (m : LMap) (k : Nat) (ins del : Bool) (cur : Nat) (mb : List (List Nat)) (sc : Array (Array Nat))
    (e : SEnv) : Prop :=
  Outer m k ins del sc e ∧ e.current_index = .int (cur : Int) ∧ e.mutate_branches = .list (mb.map idxArrPV)

theorem mod4 (x : Nat) : x % 4 < 4 := Nat.mod_lt x (by decide)

/-- a field of the new environment: untouched (the hypothesis) or just rewritten to its value (`rfl`). -/
local macro "fld " h:term : tactic => `(tactic| first | rfl | exact $h)

theorem exists_weaken {ε} {r : R (Flow ε)} {P Q : ε → Prop} (hPQ : ∀ e, P e → Q e)
    (h : ∃ e', r = .ok (.norm e') ∧ P e') : ∃ e', r = .ok (.norm e') ∧ Q e' := by
  obtain ⟨e', h1, h2⟩ := h
  exact ⟨e', h1, hPQ e' h2⟩

theorem foldl_append_map {α β} (f : α → β) (l : List α) (init : List β) :
    l.foldl (fun acc x => acc ++ [f x]) init = init ++ l.map f := by
  induction l generalizing init with
  | nil => simp
  | cons x xs ih => rw [List.foldl_cons, ih, List.map_cons, List.append_assoc]; rfl

/-! ### `mutate_branches.append(obtain_leaf_vertices(…))` (`for2`) -/

theorem for2_spec (m : LMap) (k : Nat) (ins del : Bool) (cur fuel w : Nat) (mb : List (List Nat))
    (sc : Array (Array Nat)) (e : SEnv) (h : St m k ins del cur mb sc e) :
    ∃ e', Gen.calculate_intersection_score.for2_body fuel (.int (w : Int)) e = .ok (.norm e') ∧
      St m k ins del cur (mb ++ [leafMap m (k - 1) [w]]) sc e' := by
  obtain ⟨⟨h1, h2, h3, h4, h5, h6, h7⟩, h8, h9⟩ := h
  simp only [Gen.calculate_intersection_score.for2_body, h1, h2, leaf_call, bnd_ok, h9, pyAppend_list]
  refine ⟨_, rfl, ⟨by fld h1, by fld h2, by fld h3, by fld h4, by fld h5, by fld h6, h7⟩, by fld h8, ?_⟩
  simp only [List.map_append, List.map_cons, List.map_nil]

/-! ### the pairs of successors (`for3`) -/

theorem for3_spec {m : LMap} {k : Nat} (ins del : Bool) {cur : Nat} {lat : List Nat} {mb : List (List Nat)}
    (hget : LMap.get? m cur = some lat) (hcur : cur < 4 ^ k) (hlen : mb.length = lat.length) (fuel : Nat)
    (ij : Nat × Nat) (hij : ij.1 < mb.length ∧ ij.2 < mb.length) (sc : Array (Array Nat)) (e : SEnv)
    (h : St m k ins del cur mb sc e) :
    ∃ e', Gen.calculate_intersection_score.for3_body fuel (pairPV ij) e = .ok (.norm e') ∧
      St m k ins del cur mb (pstep cur lat mb sc ij) e' := by
  obtain ⟨⟨h1, h2, h3, h4, h5, h6, h7⟩, h8, h9⟩ := h
  have e1 := GzV.pyIndex_lmapPV hget
  have e2 := pyIndex_natsPV_getD (l := lat) (i := ij.1) (by omega)
  have e3 := pyIndex_natsPV_getD (l := lat) (i := ij.2) (by omega)
  have h7' := h7.addScore cur (lat.getD ij.1 0 % 4) (unionCount (mb.getD ij.1 []) (mb.getD ij.2 []))
  have h7'' := h7'.addScore cur (lat.getD ij.2 0 % 4) (unionCount (mb.getD ij.1 []) (mb.getD ij.2 []))
  simp only [Gen.calculate_intersection_score.for3_body, pairPV, pyUnpack_two_tup, bnd_ok, List.getD_cons_zero,
    List.getD_cons_succ, h9, pyIndex_branches hij.1, pyIndex_branches hij.2, union_len, h1, h8, e1, e2, e3, h3,
    pyLen_ACGT4, pyMod_nat_four, h6, npIndex2_scoresPV h7 hcur (mod4 _), npAdd_nat,
    npSetItem2_scoresPV h7 hcur (mod4 _), npIndex2_scoresPV h7' hcur (mod4 _),
    npSetItem2_scoresPV h7' hcur (mod4 _)]
  exact ⟨_, rfl, ⟨by fld h1, by fld h2, by fld h3, by fld h4, by fld h5, rfl, h7''⟩, by fld h8, by fld h9⟩

/-! ### insertion (`for5`, `for4`) -/

theorem for5_spec {m : LMap} {k : Nat} (ins del : Bool) {cur : Nat} {lat : List Nat} {mb : List (List Nat)}
    (hget : LMap.get? m cur = some lat) (hcur : cur < 4 ^ k) (hlen : mb.length = lat.length) (fuel : Nat)
    (fi : Nat × Nat) (hfi : fi.2 < lat.length ∧ lat.getD fi.2 0 = fi.1) (w : Nat) (sc : Array (Array Nat))
    (e : SEnv) (h : St m k ins del cur mb sc e ∧ e.index = .int (fi.2 : Int)) :
    ∃ e', Gen.calculate_intersection_score.for5_body fuel (.int (w : Int)) e = .ok (.norm e') ∧
      (St m k ins del cur mb (wstep m k cur mb fi sc w) e' ∧ e'.index = .int (fi.2 : Int)) := by
  obtain ⟨⟨⟨h1, h2, h3, h4, h5, h6, h7⟩, h8, h9⟩, h10⟩ := h
  have e1 := GzV.pyIndex_lmapPV hget
  have e2 := pyIndex_natsPV_getD (l := lat) (i := fi.2) hfi.1
  rw [hfi.2] at e2
  have h7' := h7.addScore cur (fi.1 % 4) (unionCount (mb.getD fi.2 []) (leafMap m (k - 1) [w]))
  simp only [Gen.calculate_intersection_score.for5_body, h1, h2, leaf_call, bnd_ok, h9, h10,
    pyIndex_branches (mb := mb) (i := fi.2) (by omega), union_len, h8, e1, e2, h3, pyLen_ACGT4, pyMod_nat_four, h6,
    npIndex2_scoresPV h7 hcur (mod4 _), npAdd_nat, npSetItem2_scoresPV h7 hcur (mod4 _)]
  exact ⟨_, rfl, ⟨⟨by fld h1, by fld h2, by fld h3, by fld h4, by fld h5, rfl, h7'⟩, by fld h8, by fld h9⟩,
    by fld h10⟩

theorem for4_spec {m : LMap} {k : Nat} (ins del : Bool) {cur : Nat} {lat : List Nat} {mb : List (List Nat)}
    (hget : LMap.get? m cur = some lat) (hcur : cur < 4 ^ k) (hlen : mb.length = lat.length) (fuel : Nat)
    (fi : Nat × Nat) (hfi : fi ∈ lat.zipIdx) (sc : Array (Array Nat)) (e : SEnv)
    (h : St m k ins del cur mb sc e) :
    ∃ e', Gen.calculate_intersection_score.for4_body fuel (.tup [.int (fi.2 : Int), .int (fi.1 : Int)]) e =
        .ok (.norm e') ∧ St m k ins del cur mb (istep m k cur mb sc fi) e' := by
  have h' := h
  obtain ⟨⟨h1, h2, h3, h4, h5, h6, h7⟩, h8, h9⟩ := h
  simp only [Gen.calculate_intersection_score.for4_body, pyUnpack_two_tup, bnd_ok, List.getD_cons_zero,
    List.getD_cons_succ, h1, GzV.pyIn_lmapPV, istep]
  cases hg : LMap.get? m fi.1 with
  | none =>
    simp only [Option.isSome_none, Bool.false_eq_true, ↓reduceIte]
    exact ⟨_, rfl, ⟨by fld h1, by fld h2, by fld h3, by fld h4, by fld h5, by fld h6, h7⟩, by fld h8, by fld h9⟩
  | some ls =>
    simp only [Option.isSome_some, ↓reduceIte, GzV.pyIndex_lmapPV hg, bnd_ok, pyIter_natsPV]
    refine exists_weaken (P := fun e => St m k ins del cur mb (ls.foldl (wstep m k cur mb fi) sc) e ∧
      e.index = .int (fi.2 : Int)) (fun e h => h.1) ?_
    exact forLoop_rel_map
      (fun sc (e : SEnv) => St m k ins del cur mb sc e ∧ e.index = .int (fi.2 : Int)) (wstep m k cur mb fi)
      (fun (n : Nat) => PV.int (n : Int))
      (fun w _ st e he => for5_spec ins del hget hcur hlen fuel fi (mem_zipIdx' hfi) w st e he)
      ⟨⟨⟨by fld h1, by fld h2, by fld h3, by fld h4, by fld h5, by fld h6, h7⟩, by fld h8, by fld h9⟩, rfl⟩

/-! ### deletion (`for6`) -/

theorem for6_spec {m : LMap} {k : Nat} (ins del : Bool) {cur : Nat} {lat : List Nat} {mb : List (List Nat)}
    (hget : LMap.get? m cur = some lat) (hcur : cur < 4 ^ k) (hlen : mb.length = lat.length) (fuel : Nat)
    (db : List Nat) (fi : Nat × Nat) (hfi : fi ∈ lat.zipIdx) (sc : Array (Array Nat)) (e : SEnv)
    (h : St m k ins del cur mb sc e ∧ e.delete_branch = .list [idxArrPV db]) :
    ∃ e', Gen.calculate_intersection_score.for6_body fuel (.int (fi.2 : Int)) e = .ok (.norm e') ∧
      (St m k ins del cur mb (dstep cur mb db sc fi) e' ∧ e'.delete_branch = .list [idxArrPV db]) := by
  obtain ⟨⟨⟨h1, h2, h3, h4, h5, h6, h7⟩, h8, h9⟩, h10⟩ := h
  obtain ⟨hf1, hf2⟩ := mem_zipIdx' hfi
  have e1 := GzV.pyIndex_lmapPV hget
  have e2 := pyIndex_natsPV_getD (l := lat) (i := fi.2) hf1
  rw [hf2] at e2
  have h7' := h7.addScore cur (fi.1 % 4) (unionCount (mb.getD fi.2 []) db)
  simp only [Gen.calculate_intersection_score.for6_body, h1, bnd_ok, h9, h10,
    pyIndex_branches (mb := mb) (i := fi.2) (by omega), union_len_list, h8, e1, e2, h3, pyLen_ACGT4,
    pyMod_nat_four, h6, npIndex2_scoresPV h7 hcur (mod4 _), npAdd_nat, npSetItem2_scoresPV h7 hcur (mod4 _)]
  exact ⟨_, rfl, ⟨⟨by fld h1, by fld h2, by fld h3, by fld h4, by fld h5, rfl, h7'⟩, by fld h8, by fld h9⟩,
    by fld h10⟩

/-! ### the rest of one vertex (`k3`, `k4`, `k5`) -/

theorem k2_spec (fuel : Nat) (e : SEnv) : Gen.calculate_intersection_score.k2 fuel e = .ok (.norm e) := by
  simp only [Gen.calculate_intersection_score.k2, bnd_ok, ite_self]

theorem k3_spec {m : LMap} {k : Nat} (ins del : Bool) {cur : Nat} {lat : List Nat} {mb : List (List Nat)}
    (hget : LMap.get? m cur = some lat) (hcur : cur < 4 ^ k) (hlen : mb.length = lat.length) (fuel : Nat)
    (sc : Array (Array Nat)) (e : SEnv) (h : St m k ins del cur mb sc e) :
    ∃ e', Gen.calculate_intersection_score.k3 fuel e = .ok (.norm e') ∧
      Outer m k ins del (delPart m k del cur lat mb sc) e' := by
  have h' := h
  obtain ⟨⟨h1, h2, h3, h4, h5, h6, h7⟩, h8, h9⟩ := h
  simp only [Gen.calculate_intersection_score.k3, h5, truthy_bool, bnd_ok, delPart]
  cases del with
  | false =>
    simp only [Bool.false_eq_true, ↓reduceIte, seq_norm, k2_spec]
    exact ⟨_, rfl, h1, h2, h3, h4, h5, h6, h7⟩
  | true =>
    simp only [↓reduceIte, h1, h2, h8, leaf_call, bnd_ok, h9, pyLen_list, List.length_map, hlen, pyRange1_nat,
      pyIter_list, range_eq_zipIdx]
    refine GzV.seq_exists (Outer m k ins true (lat.zipIdx.foldl (dstep cur mb (leafMap m (k - 1) [cur])) sc)) _ ?_
      (fun e1 g => ⟨e1, k2_spec fuel e1, g⟩)
    refine GzV.seq_exists (fun e => St m k ins true cur mb
        (lat.zipIdx.foldl (dstep cur mb (leafMap m (k - 1) [cur])) sc) e ∧
        e.delete_branch = .list [idxArrPV (leafMap m (k - 1) [cur])]) _ ?_ ?_
    · exact forLoop_rel_map
        (fun sc (e : SEnv) => St m k ins true cur mb sc e ∧
          e.delete_branch = .list [idxArrPV (leafMap m (k - 1) [cur])])
        (dstep cur mb (leafMap m (k - 1) [cur])) (fun (fi : Nat × Nat) => PV.int (fi.2 : Int))
        (fun fi hfi st e he => for6_spec ins true hget hcur hlen fuel _ fi hfi st e he)
        ⟨⟨⟨by fld h1, by fld h2, by fld h3, by fld h4, by fld h5, by fld h6, h7⟩, by fld h8, by fld h9⟩, rfl⟩
    · intro e1 g
      obtain ⟨⟨g1, _, _⟩, _⟩ := g
      exact ⟨_, rfl, g1⟩

theorem k4_spec {m : LMap} {k : Nat} (ins del : Bool) {cur : Nat} {lat : List Nat} {mb : List (List Nat)}
    (hget : LMap.get? m cur = some lat) (hcur : cur < 4 ^ k) (hlen : mb.length = lat.length) (fuel : Nat)
    (sc : Array (Array Nat)) (e : SEnv) (h : St m k ins del cur mb sc e) :
    ∃ e', Gen.calculate_intersection_score.k4 fuel e = .ok (.norm e') ∧
      Outer m k ins del (delPart m k del cur lat mb (insPart m k ins cur lat mb sc)) e' := by
  have h' := h
  obtain ⟨⟨h1, h2, h3, h4, h5, h6, h7⟩, h8, h9⟩ := h
  simp only [Gen.calculate_intersection_score.k4, h4, truthy_bool, bnd_ok, insPart]
  cases ins with
  | false =>
    simp only [Bool.false_eq_true, ↓reduceIte, seq_norm]
    exact k3_spec false del hget hcur hlen fuel sc e h'
  | true =>
    simp only [↓reduceIte, h1, h8, GzV.pyIndex_lmapPV hget, bnd_ok, pyEnumerate_natsPV, pyIter_list, enumFrom_nats]
    refine GzV.seq_exists (St m k true del cur mb (lat.zipIdx.foldl (istep m k cur mb) sc)) _ ?_
      (fun e1 g => k3_spec true del hget hcur hlen fuel _ e1 g)
    exact forLoop_rel_map (St m k true del cur mb) (istep m k cur mb)
      (fun (fi : Nat × Nat) => PV.tup [.int (fi.2 : Int), .int (fi.1 : Int)])
      (fun fi hfi st e he => for4_spec true del hget hcur hlen fuel fi hfi st e he) h'

theorem k5_spec {m : LMap} {k : Nat} (ins del : Bool) {cur : Nat} {lat : List Nat} {mb : List (List Nat)}
    (hget : LMap.get? m cur = some lat) (hcur : cur < 4 ^ k) (hlen : mb.length = lat.length) (fuel : Nat)
    (sc : Array (Array Nat)) (e : SEnv) (h : St m k ins del cur mb sc e) :
    ∃ e', Gen.calculate_intersection_score.k5 fuel e = .ok (.norm e') ∧
      Outer m k ins del (delPart m k del cur lat mb (insPart m k ins cur lat mb
        ((pairsBelow mb.length).foldl (pstep cur lat mb) sc))) e' := by
  have h' := h
  obtain ⟨⟨h1, h2, h3, h4, h5, h6, h7⟩, h8, h9⟩ := h
  simp only [Gen.calculate_intersection_score.k5, h9, pyLen_list, List.length_map, bnd_ok]
  rw [combinations_range]
  simp only [bnd_ok, pyIter_list]
  refine GzV.seq_exists (St m k ins del cur mb ((pairsBelow mb.length).foldl (pstep cur lat mb) sc)) _ ?_
    (fun e1 g => k4_spec ins del hget hcur hlen fuel _ e1 g)
  exact forLoop_rel_map (St m k ins del cur mb) (pstep cur lat mb) pairPV
    (fun ij hij st e he => for3_spec ins del hget hcur hlen fuel ij (mem_pairsBelow hij) st e he) h'

/-! ### one vertex (`for1`) -/

theorem for1_spec {m : LMap} {k : Nat} (ins del : Bool) (hm : LMap.KeysNodup m) (hk : ∀ p ∈ m, p.1 < 4 ^ k)
    (fuel i : Nat) (p : Nat × List Nat) (hp : p ∈ m) (sc : Array (Array Nat)) (e : SEnv)
    (h : Outer m k ins del sc e) :
    ∃ e', Gen.calculate_intersection_score.for1_body fuel (.tup [.int (i : Int), .int (p.1 : Int)]) e =
        .ok (.norm e') ∧ Outer m k ins del (vstep m k ins del sc p) e' := by
  have hget := get?_of_mem hm hp
  obtain ⟨h1, h2, h3, h4, h5, h6, h7⟩ := h
  simp only [Gen.calculate_intersection_score.for1_body, pyUnpack_two_tup, bnd_ok, List.getD_cons_zero,
    List.getD_cons_succ, h1, GzV.pyIndex_lmapPV hget, pyIter_natsPV, vstep]
  have hconv : p.2.foldl (fun mb (w : Nat) => mb ++ [leafMap m (k - 1) [w]]) [] =
      p.2.map fun w => leafMap m (k - 1) [w] := by
    rw [foldl_append_map (fun w => leafMap m (k - 1) [w]), List.nil_append]
  refine GzV.seq_exists
    (St m k ins del p.1 (p.2.foldl (fun mb (w : Nat) => mb ++ [leafMap m (k - 1) [w]]) []) sc) _ ?_
    (fun e1 g => k5_spec ins del hget (hk p hp) (by simp) fuel sc e1 (hconv ▸ g))
  exact forLoop_rel_map (fun mb (e : SEnv) => St m k ins del p.1 mb sc e)
    (fun mb (w : Nat) => mb ++ [leafMap m (k - 1) [w]]) (fun (n : Nat) => PV.int (n : Int))
    (fun w _ st e he => for2_spec m k ins del p.1 fuel w st sc e he)
    ⟨⟨by fld h1, by fld h2, by fld h3, by fld h4, by fld h5, by fld h6, h7⟩, rfl, rfl⟩

end GzS

open GzS in
theorem tie_calculate_intersection_score (m : LMap) (k fuel : Nat) (ins del verbose : Bool)
    (hm : LMap.KeysNodup m) (hk : ∀ p ∈ m, p.1 < 4 ^ k) :
    Gen.calculate_intersection_score fuel (lmapPV m) (.int (k : Int)) (.bool ins) (.bool del) (.bool verbose) =
      .ok (scoresPV (calculateIntersectionScore m k ins del)) := by
  rw [calc_eq]
  simp only [Gen.calculate_intersection_score, Gen.calculate_intersection_score.body, keys_expr, bnd_ok,
    npSub_int, pyLen_ACGT4, pyPow_four_nat, npZeros2_scores, pyEnumerate_list, pyIter_list]
  apply callResult_seq_of_norm (Outer m k ins del
    (m.foldl (vstep m k ins del) (Array.replicate (4 ^ k) (Array.replicate 4 0))))
  · exact forLoop_rel_enum (Outer m k ins del) (vstep m k ins del) (fun p => PV.int (p.1 : Int)) 0
      (fun i p hp st e he => for1_spec ins del hm hk fuel i p hp st e he)
      ⟨rfl, rfl, rfl, rfl, rfl, rfl, ShapeS_init _⟩
  · intro e' h
    simp only [Gen.calculate_intersection_score.k6, h.2.2.2.2.2.1, callResult_ret]

end Dsw.Tie
