import DswModel.Tie.GzViews
/-!
# Translation tie — `calculate_intersection_score` (dsw/graphized.py)

`Dsw.Gen.calculate_intersection_score` (generated from the Python source on every run) computes the model
function `Dsw.calculateIntersectionScore`: for every vertex of the latter map, the pairwise union sizes of the
leaf sets of its successors (substitution), optionally the unions with the leaf sets two steps on (insertion)
and with the vertex's own leaf set (deletion), accumulated into the `4^k × 4` score table.
-/
namespace Dsw.Tie
open Dsw Dsw.Py

theorem tie_calculate_intersection_score (m : LMap) (k fuel : Nat) (ins del verbose : Bool)
    (hm : LMap.KeysNodup m) (hk : ∀ p ∈ m, p.1 < 4 ^ k) :
    Gen.calculate_intersection_score fuel (lmapPV m) (.int (k : Int)) (.bool ins) (.bool del) (.bool verbose) =
      .ok (scoresPV (calculateIntersectionScore m k ins del)) := by
  sorry

end Dsw.Tie
