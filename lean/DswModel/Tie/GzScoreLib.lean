import DswModel.Tie.GzViews
/-!
# DswModel.Tie.GzScoreLib — lemmas for `calculate_intersection_score` (dsw/graphized.py)

* `numpy.union1d` (`npUnion1d` / `flattenInts` / `insertInt`): only its `len` is used — the number of distinct
  values, the model's `unionCount`;
* `itertools.combinations(range(n), 2)` (`pyCombinations2` / `pairsOf`) as the model's `pairsBelow n`;
* the score table (`scoresPV`): `zeros`, `scores[v, j]`, `scores[v, j] = old + s` (the model's `addScore`);
* `enumerate(l)` and `range(len(l))` as maps over `l.zipIdx`; look-ups in the latter map; the leaf-set call.
-/
namespace Dsw.Tie.GzS
open Dsw Dsw.Py Dsw.Tie

/-! ## `numpy.union1d` -/

theorem nodup_eraseDups_aux (n : Nat) : ∀ l : List Nat, l.length ≤ n → l.eraseDups.Nodup := by
  induction n with
  | zero =>
    intro l hl
    have : l = [] := List.length_eq_zero_iff.mp (by omega)
    subst this; simp
  | succ n ih =>
    intro l hl
    cases l with
    | nil => simp
    | cons a as =>
      rw [List.eraseDups_cons, List.nodup_cons]
      refine ⟨?_, ih _ ?_⟩
      · rw [List.mem_eraseDups, List.mem_filter]
        simp
      · have := List.length_filter_le (fun b => !b == a) as
        simp only [List.length_cons] at hl
        omega

theorem nodup_eraseDups (l : List Nat) : l.eraseDups.Nodup := nodup_eraseDups_aux l.length l (Nat.le_refl _)

theorem mem_insertInt (z x : Int) (l : List Int) : z ∈ insertInt x l ↔ z = x ∨ z ∈ l := by
  induction l with
  | nil => simp [insertInt]
  | cons y ys ih =>
    unfold insertInt
    by_cases h1 : x < y
    · simp [h1]
    · by_cases h2 : x = y
      · subst h2; simp
      · simp only [h1, h2, if_false, List.mem_cons, ih]
        constructor
        · rintro (h | h | h) <;> simp [h]
        · rintro (h | h | h) <;> simp [h]

theorem sorted_insertInt (x : Int) (l : List Int) (h : l.Pairwise (· < ·)) : (insertInt x l).Pairwise (· < ·) := by
  induction l with
  | nil => simp [insertInt]
  | cons y ys ih =>
    unfold insertInt
    rw [List.pairwise_cons] at h
    by_cases h1 : x < y
    · simp only [h1, if_true, List.pairwise_cons]
      refine ⟨?_, h⟩
      intro z hz
      rcases List.mem_cons.mp hz with rfl | hz
      · exact h1
      · have := h.1 z hz; omega
    · by_cases h2 : x = y
      · subst h2
        simp only [Int.lt_irrefl, if_false, if_true, List.pairwise_cons]; exact h
      · simp only [h1, h2, if_false, List.pairwise_cons]
        refine ⟨?_, ih h.2⟩
        intro z hz
        rcases (mem_insertInt z x ys).mp hz with rfl | hz
        · omega
        · exact h.1 z hz

def unionInts (l : List Int) : List Int := l.foldl (fun acc x => insertInt x acc) []

theorem foldl_insertInt_spec (l acc : List Int) (h : acc.Pairwise (· < ·)) :
    (l.foldl (fun acc x => insertInt x acc) acc).Pairwise (· < ·) ∧
      ∀ z, z ∈ l.foldl (fun acc x => insertInt x acc) acc ↔ z ∈ acc ∨ z ∈ l := by
  induction l generalizing acc with
  | nil => simp [h]
  | cons x xs ih =>
    rw [List.foldl_cons]
    obtain ⟨h1, h2⟩ := ih (insertInt x acc) (sorted_insertInt x acc h)
    refine ⟨h1, fun z => ?_⟩
    rw [h2, mem_insertInt, List.mem_cons]
    constructor
    · rintro ((h | h) | h) <;> simp [h]
    · rintro (h | h | h) <;> simp [h]

theorem nodup_of_sorted {l : List Int} (h : l.Pairwise (· < ·)) : l.Nodup := by
  rw [List.nodup_iff_pairwise_ne]
  exact h.imp (fun hab => by omega)

/-- the number of values `union1d` returns. -/
theorem union_length (l : List Nat) :
    ((l.map fun (n : Nat) => (n : Int)).foldl (fun acc x => insertInt x acc) []).length = l.eraseDups.length := by
  obtain ⟨h1, h2⟩ := foldl_insertInt_spec (l.map fun (n : Nat) => (n : Int)) [] List.Pairwise.nil
  have hn : (l.eraseDups.map fun (n : Nat) => (n : Int)).Nodup := by
    rw [List.nodup_iff_pairwise_ne]
    have := List.nodup_iff_pairwise_ne.mp (nodup_eraseDups l)
    exact List.Pairwise.map _ (fun a b hab => by omega) this
  have hp := (List.perm_ext_iff_of_nodup (nodup_of_sorted h1) hn).mpr (fun z => by
    rw [h2]
    simp [List.mem_eraseDups])
  rw [hp.length_eq, List.length_map]

theorem mapM_single (f : PV → Option (List Int)) (hf : ∀ n : Int, f (.int n) = some [n]) (l : List Nat) :
    (l.map fun (n : Nat) => PV.int (n : Int)).mapM f = some (l.map fun (n : Nat) => [(n : Int)]) := by
  induction l with
  | nil => rfl
  | cons x xs ih => simp [List.mapM_cons, ih, hf]

theorem flatten_singletons (l : List Nat) :
    (l.map fun (n : Nat) => [(n : Int)]).flatten = l.map fun (n : Nat) => (n : Int) := by
  induction l with
  | nil => rfl
  | cons x xs ih => simp [ih]

theorem flattenInts_idxArrPV (l : List Nat) : flattenInts (idxArrPV l) = some (l.map fun (n : Nat) => (n : Int)) := by
  simp only [flattenInts, idxArrPV]
  rw [mapM_single _ (fun n => rfl), Option.map_some, flatten_singletons]

theorem flattenInts_list_idxArrPV (l : List Nat) :
    flattenInts (.list [idxArrPV l]) = some (l.map fun (n : Nat) => (n : Int)) := by
  simp only [flattenInts, idxArrPV]
  rw [List.mapM_cons]
  simp only [mapM_asInt?_nats]
  simp

/-- `len(union1d(x, y))` on two index arrays. -/
theorem union_len (x y : List Nat) :
    (bnd (npUnion1d (idxArrPV x) (idxArrPV y)) fun t => pyLen t) = .ok (.int ((unionCount x y : Nat) : Int)) := by
  simp only [npUnion1d, flattenInts_idxArrPV, bnd_ok, pyLen_arr, List.length_map, ← List.map_append, union_length,
    unionCount]

/-- `len(union1d(x, [y]))`: the second operand is a list holding one array. -/
theorem union_len_list (x y : List Nat) :
    (bnd (npUnion1d (idxArrPV x) (.list [idxArrPV y])) fun t => pyLen t) =
      .ok (.int ((unionCount x y : Nat) : Int)) := by
  simp only [npUnion1d, flattenInts_idxArrPV, flattenInts_list_idxArrPV, bnd_ok, pyLen_arr, List.length_map,
    ← List.map_append, union_length, unionCount]

/-! ## `itertools.combinations(range(n), 2)` -/

def pairPV (ij : Nat × Nat) : PV := .tup [.int (ij.1 : Int), .int (ij.2 : Int)]

def pairsFrom (a n : Nat) : List (Nat × Nat) :=
  (List.range' a n).flatMap fun i => ((List.range' a n).filter (i < ·)).map fun j => (i, j)

theorem flatMap_congr' {α β} {l : List α} {f g : α → List β} (h : ∀ x ∈ l, f x = g x) :
    l.flatMap f = l.flatMap g := by
  induction l with
  | nil => rfl
  | cons x xs ih =>
    rw [List.flatMap_cons, List.flatMap_cons, h x List.mem_cons_self, ih fun y hy => h y (List.mem_cons_of_mem _ hy)]

theorem pairsFrom_succ (a n : Nat) :
    pairsFrom a (n + 1) = ((List.range' (a + 1) n).map fun j => (a, j)) ++ pairsFrom (a + 1) n := by
  unfold pairsFrom
  rw [List.range'_succ, List.flatMap_cons]
  congr 1
  · congr 1
    rw [List.filter_cons]
    simp only [Nat.lt_irrefl, decide_false, Bool.false_eq_true, if_false]
    rw [List.filter_eq_self]
    intro j hj
    have := List.mem_range'_1.mp hj
    simp; omega
  · apply flatMap_congr'
    intro i hi
    have := List.mem_range'_1.mp hi
    rw [List.filter_cons]
    have h : ¬ i < a := by omega
    simp only [h, decide_false, Bool.false_eq_true, if_false]

theorem pairsOf_range' (a n : Nat) :
    pairsOf ((List.range' a n).map fun (i : Nat) => PV.int (i : Int)) = (pairsFrom a n).map pairPV := by
  induction n generalizing a with
  | zero => rfl
  | succ n ih =>
    rw [pairsFrom_succ, List.range'_succ, List.map_cons, pairsOf, ih, List.map_append, List.map_map, List.map_map]
    rfl

theorem pairsBelow_eq (n : Nat) : pairsBelow n = pairsFrom 0 n := by
  unfold pairsBelow pairsFrom
  rw [List.range_eq_range']

/-- `combinations(range(n), 2)`. -/
theorem combinations_range (n : Nat) :
    (bnd (pyRange1 (.int (n : Int))) fun t => pyCombinations2 t) = .ok (.list ((pairsBelow n).map pairPV)) := by
  rw [pyRange1_nat, bnd_ok, pyCombinations2, pyIter_list]
  simp only [List.range_eq_range', pairsOf_range', pairsBelow_eq]

theorem mem_pairsBelow {n : Nat} {ij : Nat × Nat} (h : ij ∈ pairsBelow n) : ij.1 < n ∧ ij.2 < n := by
  unfold pairsBelow at h
  simp only [List.mem_flatMap, List.mem_map, List.mem_filter, List.mem_range] at h
  obtain ⟨i, hi, j, ⟨hj, _⟩, rfl⟩ := h
  exact ⟨hi, hj⟩

/-! ## the score table -/

/-- `n` rows of four entries. -/
def ShapeS (n : Nat) (sc : Array (Array Nat)) : Prop := sc.size = n ∧ ∀ i, i < n → (sc.getD i #[]).size = 4

theorem ShapeS_init (n : Nat) : ShapeS n (Array.replicate n (Array.replicate 4 0)) := by
  refine ⟨by simp, fun i hi => ?_⟩
  simp [Array.getD_eq_getD_getElem?, hi]

theorem ShapeS.addScore {n : Nat} {sc : Array (Array Nat)} (h : ShapeS n sc) (v j s : Nat) :
    ShapeS n (addScore sc v j s) := by
  refine ⟨by simp [Dsw.addScore, h.1], fun i hi => ?_⟩
  have hi' : i < sc.size := by rw [h.1]; exact hi
  have := h.2 i hi
  unfold Dsw.addScore
  by_cases hiv : v = i
  · subst hiv
    simpa [Array.getD_eq_getD_getElem?, hi', Array.getElem?_setIfInBounds] using this
  · simpa [Array.getD_eq_getD_getElem?, hi', Array.getElem?_setIfInBounds, hiv] using this

theorem pyLen_ACGT4 : pyLen (.str ['A', 'C', 'G', 'T']) = .ok (.int 4) := rfl

theorem scores_row {sc : Array (Array Nat)} {v : Nat} (hv : v < sc.size) :
    (sc.toList.map fun r => PV.arr (r.toList.map fun (x : Nat) => PV.int (x : Int)))[v]? =
      some (.arr ((sc.getD v #[]).toList.map fun (x : Nat) => PV.int (x : Int))) := by
  simp [Array.getD_eq_getD_getElem?, hv]

/-- `scores[v, j]`. -/
theorem npIndex2_scoresPV {n : Nat} {sc : Array (Array Nat)} (h : ShapeS n sc) {v j : Nat} (hv : v < n) (hj : j < 4) :
    npIndex2 (scoresPV sc) (.int (v : Int)) (.int (j : Int)) =
      .ok (.int (((sc.getD v #[]).getD j 0 : Nat) : Int)) := by
  have hv' : v < sc.size := by rw [h.1]; exact hv
  have hj' : j < (sc.getD v #[]).size := by rw [h.2 v hv]; exact hj
  have hr := scores_row hv'
  have hlen : v < (sc.toList.map fun r => PV.arr (r.toList.map fun (x : Nat) => PV.int (x : Int))).length := by
    simpa using hv'
  have hg : (sc.toList.map fun r => PV.arr (r.toList.map fun (x : Nat) => PV.int (x : Int))).getD v .none =
      .arr ((sc.getD v #[]).toList.map fun (x : Nat) => PV.int (x : Int)) := by
    rw [List.getD_eq_getElem?_getD, hr]; rfl
  simp only [npIndex2, scoresPV, pyIndex_arr_getD hlen, hg]
  rw [pyIndex_nats_nat (by simpa using hj')]
  simp [Array.getD_eq_getD_getElem?, List.getD_eq_getElem?_getD]

/-- `scores[v, j] = old + s`. -/
theorem npSetItem2_scoresPV {n : Nat} {sc : Array (Array Nat)} (h : ShapeS n sc) {v j : Nat} (hv : v < n)
    (hj : j < 4) (s : Nat) :
    npSetItem2 (scoresPV sc) (.int (v : Int)) (.int (j : Int)) (.int (((sc.getD v #[]).getD j 0 + s : Nat) : Int)) =
      .ok (scoresPV (addScore sc v j s)) := by
  have hv' : v < sc.size := by rw [h.1]; exact hv
  have hj' : j < (sc.getD v #[]).size := by rw [h.2 v hv]; exact hj
  have hk : ((sc.getD v #[]).toList.map fun (x : Nat) => PV.int (x : Int))[j]? =
      some (.int (((sc.getD v #[])[j]'hj' : Nat) : Int)) := by
    rw [List.getElem?_map, Array.getElem?_toList, Array.getElem?_eq_getElem hj']; rfl
  rw [scoresPV, GzTie.npSetItem2_nat (scores_row hv') hk]
  simp only [scoresPV, Dsw.addScore, Array.toList_setIfInBounds, List.map_set]

/-- `numpy.zeros((4 ** k, 4))`. -/
theorem npZeros2_scores (n : Nat) :
    npZeros2 (.int (n : Int)) (.int 4) = .ok (scoresPV (Array.replicate n (Array.replicate 4 0))) := by
  have h : ¬ ((n : Int) < 0 ∨ (4 : Int) < 0) := by omega
  simp only [npZeros2, asInt?_int, h, if_false, scoresPV]
  simp

/-! ## the latter map -/

theorem get?_of_mem {m : LMap} (hm : LMap.KeysNodup m) {p : Nat × List Nat} (hp : p ∈ m) :
    LMap.get? m p.1 = some p.2 := by
  induction m with
  | nil => cases hp
  | cons q m ih =>
    have hnd : ((q :: m).map (·.1)).Nodup := hm
    rw [List.map_cons, List.nodup_cons] at hnd
    rw [GzV.get?_cons]
    rcases List.mem_cons.mp hp with rfl | hp'
    · simp
    · have hne : ¬ q.1 = p.1 := fun e => hnd.1 (by rw [e]; exact List.mem_map_of_mem hp')
      have hb : (q.1 == p.1) = false := by simpa using hne
      rw [hb]
      simp only [Bool.false_eq_true, if_false]
      exact ih hnd.2 hp'

/-- `list(latter_map.keys())`. -/
theorem keys_expr (m : LMap) :
    (bnd (pyDictKeys (lmapPV m)) fun t => pyList t) = .ok (.list (m.map fun p => PV.int (p.1 : Int))) := rfl

/-! ## `enumerate` and `range(len(…))` as maps over `zipIdx` -/

theorem enumFrom_nats (l : List Nat) :
    enumFrom 0 (l.map fun (n : Nat) => PV.int (n : Int)) =
      l.zipIdx.map fun fi => PV.tup [.int (fi.2 : Int), .int (fi.1 : Int)] := by
  rw [enumFrom_eq_map_zipIdx, List.zipIdx_map, List.map_map]
  rfl

theorem range_eq_zipIdx (l : List Nat) :
    ((List.range l.length).map fun (i : Nat) => PV.int (i : Int)) = l.zipIdx.map fun fi => PV.int (fi.2 : Int) := by
  rw [List.range_eq_range', ← List.zipIdx_map_snd 0 l, List.map_map]
  rfl

theorem mem_zipIdx' {l : List Nat} {fi : Nat × Nat} (h : fi ∈ l.zipIdx) :
    fi.2 < l.length ∧ l.getD fi.2 0 = fi.1 := by
  obtain ⟨_, h2, h3⟩ := List.mem_zipIdx (x := fi.1) (i := fi.2) h
  have h2' : fi.2 < l.length := by omega
  refine ⟨h2', ?_⟩
  rw [h3]
  simp [List.getD_eq_getElem?_getD, h2']

/-- `latter_map[current_index][index]`. -/
theorem pyIndex_natsPV_getD {l : List Nat} {i : Nat} (h : i < l.length) :
    pyIndex (natsPV l) (.int (i : Int)) = .ok (.int ((l.getD i 0 : Nat) : Int)) := by
  rw [pyIndex_natsPV h]
  simp [List.getD_eq_getElem?_getD, h]

/-- `mutate_branches[index]`. -/
theorem pyIndex_branches {mb : List (List Nat)} {i : Nat} (h : i < mb.length) :
    pyIndex (.list (mb.map idxArrPV)) (.int (i : Int)) = .ok (idxArrPV (mb.getD i [])) := by
  rw [pyIndex_list_nat (by simpa using h)]
  simp [List.getD_eq_getElem?_getD, h]

/-! ## the leaf sets (`depth = k - 1`, which is `-1` for `k = 0`: `range(-1)` is empty) -/

theorem leaf_call (m : LMap) (v k fuel : Nat) :
    Gen.obtain_leaf_vertices fuel (.int (v : Int)) (.int ((k : Int) - 1)) .none (lmapPV m) =
      .ok (idxArrPV (leafMap m (k - 1) [v])) := by
  cases k with
  | zero =>
    simp only [Gen.obtain_leaf_vertices, Gen.obtain_leaf_vertices.body, Gen.obtain_leaf_vertices.k4,
      GzV.pyIsNone_lmapPV, pyIsNone_none, Bool.not_false, Bool.not_true, bnd_ok, ↓reduceIte, Bool.false_eq_true,
      seq_norm]
    rfl
  | succ k =>
    have h : ((k + 1 : Nat) : Int) - 1 = (k : Int) := by omega
    rw [h]
    exact GzV.leaf_map_tie m v k fuel

end Dsw.Tie.GzS
