import DswModel.Tie.PyLemmas
/-!
TEMPORARY development stubs (removed before the library is finished): the statements of the three
arithmetic ties, so that the conversion ties can be developed while the arithmetic ties are being proved.
-/
namespace Dsw.Tie.Stub
open Dsw Dsw.Py Dsw.Tie

theorem tie_calculus_addition (s : Dec) (b fuel : Nat) (hs : Digits s) (hb : b < 10) (hf : 3 ≤ fuel) :
    Gen.calculus_addition fuel (dstr s) (dstr [b]) = .ok (dstr (calculusAddition s b)) := by
  sorry

theorem tie_calculus_multiplication (s : Dec) (b fuel : Nat) (hs : Digits s) (hb : b < 10) (hf : 2 ≤ fuel) :
    Gen.calculus_multiplication fuel (dstr s) (dstr [b]) = .ok (dstr (calculusMultiplication s b)) := by
  sorry

theorem tie_calculus_division (s : Dec) (b fuel : Nat) (hs : Digits s) (hb : b < 10) :
    Gen.calculus_division fuel (dstr s) (dstr [b]) =
      .ok (.tup [dstr (calculusDivision s b).1, dstr (calculusDivision s b).2]) := by
  sorry

end Dsw.Tie.Stub
