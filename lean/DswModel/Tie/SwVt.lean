import DswModel.Tie.NpLemmas
import DswModel.Tie.OpDna
/-!
# Translation tie — `set_vt` (dsw/spiderweb.py)

`Dsw.Gen.set_vt` (generated from the Python source on every run) computes the model function
`Dsw.setVt` for every string (a character outside `ACGT` is `ValueError` on both sides) and every
check length `n ≥ 1`.

Proof plan.  `set_vt` is straight-line code.  `array([nucleotides.index(c) for c in dna])` is
`nucValues` (`DnaTie.mapM_index`); `values[1:] - values[:-1] > 0` is the array of bools `ascBools`;
the sum of its `where` indices is `ascentSum` (`npSum_ascBools`, induction on the values with the
index offset generalised); the rest is integer arithmetic on naturals and the tie of
`number_to_dna` (`tie_number_to_dna_int`, whose fuel is `log2 value + 2 ≤ 2 * n`).
-/
namespace Dsw.Tie
open Dsw Dsw.Py

namespace VtTie

/-- `values[1:] - values[:-1] > 0` as an array of bools. -/
def ascBools (vals : List Nat) : List PV :=
  (List.zipWith (fun (a b : Nat) => (a : Int) - (b : Int)) vals.tail vals.dropLast).map
    fun x => PV.bool (decide (0 < x))

theorem ascBools_cons_cons (x y : Nat) (r : List Nat) :
    ascBools (x :: y :: r) = .bool (decide (x < y)) :: ascBools (y :: r) := by
  have h : decide ((0 : Int) < (y : Int) - (x : Int)) = decide (x < y) := decide_eq_decide.mpr (by omega)
  simp only [ascBools, List.tail_cons, List.dropLast_cons_cons, List.zipWith_cons_cons, List.map_cons, h]

/-- `sum(where(values[1:] - values[:-1] > 0)[0])`, the positions counted from `i`. -/
theorem npSum_ascBools (vals : List Nat) (i : Nat) :
    npSum (.arr (trueIdx (ascBools vals) i)) = .ok (.int ((ascentSum vals i : Nat) : Int)) := by
  induction vals generalizing i with
  | nil => rfl
  | cons x t ih =>
    cases t with
    | nil => rfl
    | cons y r =>
      rw [ascBools_cons_cons, trueIdx_cons_bool, ascentSum]
      by_cases hxy : x < y
      · simp only [hxy, decide_true, if_true]
        rw [npSum_arr_cons_int _ (ih (i + 1))]; push_cast; rfl
      · simp only [hxy, decide_false, Bool.false_eq_true, if_false, Nat.zero_add]
        exact ih (i + 1)

/-- a value below `4 ^ m` fits the fuel of `number_to_dna`. -/
theorem log2_lt_of_lt_four_pow {v m : Nat} (h : v < 4 ^ m) : Nat.log2 v + 2 ≤ 2 * m + 2 := by
  by_cases hv : v = 0
  · subst hv; simp [Nat.log2_zero]
  · have h4 : 4 ^ m = 2 ^ (2 * m) := by rw [Nat.pow_mul]
    have := (Nat.log2_lt hv).mpr (h4 ▸ h)
    omega

end VtTie

open VtTie DnaTie

theorem tie_set_vt (s : List Char) (n fuel : Nat) (hn : 1 ≤ n) (hf : 2 * n + 2 ≤ fuel) :
    Gen.set_vt fuel (cstr s) (.int (n : Int)) = (setVt s n).map cstr := by
  simp only [Gen.set_vt, Gen.set_vt.body, cstr, pyMap_str, mapM_index, setVt]
  cases hnv : nucValues s with
  | error err => rfl
  | ok vals =>
    have hlen : vals.tail.length = vals.dropLast.length := by simp
    simp only [R_map_ok, bnd_ok, npArray_list_nats, pySliceV_arr_from_one, pySliceV_arr_to_neg_one,
      ← List.map_tail, ← List.map_dropLast, npSub_nats_nats hlen, npCmp_pyGt_ints_int, npWhere_arr_map_bool,
      pyIndex_tup_cons_zero]
    have hasc := npSum_ascBools vals 0
    simp only [ascBools] at hasc
    have hpos : 0 < 4 ^ (n - 1) := Nat.pow_pos (by omega)
    have hfuel : Nat.log2 (ascentSum vals 0 % 4 ^ (n - 1)) + 2 ≤ fuel := by
      have := log2_lt_of_lt_four_pow (Nat.mod_lt (ascentSum vals 0) hpos)
      omega
    have hflag : vals.foldl (· + ·) 0 % 4 < 4 := Nat.mod_lt _ (by omega)
    simp only [hasc, bnd_ok, pyInt_int, len_nuc, npSub_nat_one hn, pyPow_four_nat,
      pyMod_nat (a := ascentSum vals 0) (b := 4 ^ (n - 1)) (by omega), npSum_nats, pyMod_nat_four,
      pyIndex_ACGT hflag, tie_number_to_dna_int _ _ fuel hfuel, cstr, npAdd_str, callResult_ret,
      List.singleton_append]

end Dsw.Tie
