import DswModel.Tie.NpLemmas
import DswModel.Tie.OpDna
/-!
# Translation tie — `set_vt` (dsw/spiderweb.py)

`Dsw.Gen.set_vt` (generated from the Python source on every run) computes the model function
`Dsw.setVt` for every string (a character outside `ACGT` is `ValueError` on both sides) and every
check length `n ≥ 1`.
-/
namespace Dsw.Tie
open Dsw Dsw.Py

theorem tie_set_vt (s : List Char) (n fuel : Nat) (hn : 1 ≤ n) (hf : 2 * n + 2 ≤ fuel) :
    Gen.set_vt fuel (cstr s) (.int (n : Int)) = (setVt s n).map cstr := by
  sorry

end Dsw.Tie
