import DswModel.Tie.PyLemmas
/-!
# Translation tie — `calculus_multiplication`

`Dsw.Gen.calculus_multiplication` (generated from the Python source on every run) computes the model
function `Dsw.calculusMultiplication` for every string of decimal digits and every one-digit operand.

Proof plan: the right-to-left digit loop (`for1`, over `range(len(number))[::-1]`) overwrites
`number[index]`; with the already-processed suffix `post` and the untouched prefix `pre` the list is
`pre ++ x :: post`, and one iteration is `mulStep b x (r, post)`, so the loop is `List.foldr (mulStep b)`
(`for1_loop`, by induction on the reversed prefix).  The carry loop (`while2`) runs at most once since
the carry is at most 8 (`foldr_mulStep_bound`); it is unrolled with `whileLoop_true_norm` /
`whileLoop_false` against `pushCarry 2`.  One `k<N>_spec` per continuation, last to first.
-/
namespace Dsw.Tie
open Dsw Dsw.Py

namespace MulTie

/-! ### model side -/

/-- the carry stays below 9 and the produced digits are digits. -/
theorem foldr_mulStep_bound {b : Nat} (hb : b < 10) (s : Dec) (hs : Digits s) (r : Nat) (post : List Nat)
    (hr : r < 9) (hp : Digits post) :
    (s.foldr (mulStep b) (r, post)).1 < 9 ∧ Digits (s.foldr (mulStep b) (r, post)).2 := by
  induction s with
  | nil => exact ⟨hr, hp⟩
  | cons x s ih =>
    rw [Digits_cons] at hs
    obtain ⟨h1, h2⟩ := ih hs.2
    have hxb : x * b ≤ 9 * 9 := Nat.mul_le_mul (by omega) (by omega)
    simp only [List.foldr_cons, mulStep, Digits_cons]
    refine ⟨by omega, by omega, h2⟩

theorem pushCarry_two_zero (acc : List Nat) : pushCarry 2 0 acc = acc := by
  simp [pushCarry]

theorem pushCarry_two_digit {r : Nat} (h0 : 0 < r) (hr : r < 10) (acc : List Nat) :
    pushCarry 2 r acc = r % 10 :: acc := by
  have : r / 10 = 0 := by omega
  simp [pushCarry, h0, this]

/-! ### loop 1: multiply the digits, right to left -/

/-- one iteration at position `pre.length` of `pre ++ x :: post`, carry `r`. -/
theorem for1_body_spec (fuel b : Nat) (hb : b < 10) (pre post : List Nat) (x r : Nat)
    (e : Gen.calculus_multiplication.Env) (hbase : e.base = dstr [b])
    (hnum : e.number = natsPV (pre ++ x :: post)) (hrem : e.remainder = .int (r : Int)) :
    ∃ e', Gen.calculus_multiplication.for1_body fuel (.int (pre.length : Int)) e = .ok (.norm e') ∧
      e'.base = dstr [b] ∧ e'.number = natsPV (pre ++ ((x * b + r) % 10) :: post) ∧
      e'.remainder = .int (((x * b + r) / 10 : Nat) : Int) := by
  have hlen : pre.length < (pre ++ x :: post).length := by simp
  have hget : (pre ++ x :: post)[pre.length] = x := by simp
  have hset : ∀ d, (pre ++ x :: post).set pre.length d = pre ++ d :: post := by intro d; simp
  have hcur : ((x : Int) * (b : Int) + (r : Int)) = ((x * b + r : Nat) : Int) := by push_cast; rfl
  simp only [Gen.calculus_multiplication.for1_body, hbase, hnum, hrem, dstr_singleton, pyIndex_natsPV hlen,
    hget, pyInt_digit hb, bnd_ok, pyMul_int, pyAdd_int, hcur, pyGe_nat_ten]
  by_cases hge : 10 ≤ x * b + r
  · simp only [hge, decide_true, if_true, pyMod_nat_ten, bnd_ok, pySetItem_natsPV hlen, hset,
      pyFloorDiv_nat_ten]
    exact ⟨_, rfl, rfl, rfl, rfl⟩
  · simp only [hge, decide_false, Bool.false_eq_true, if_false, bnd_ok, pySetItem_natsPV hlen, hset]
    refine ⟨_, rfl, rfl, ?_, ?_⟩
    · rw [Nat.mod_eq_of_lt (by omega)]
    · rw [Nat.div_eq_of_lt (by omega)]; rfl

/-- the loop over `range(len)[::-1]`; `rp` is the not yet processed prefix, reversed. -/
theorem for1_loop (fuel b : Nat) (hb : b < 10) (rp : List Nat) :
    ∀ (post : List Nat) (r : Nat) (e : Gen.calculus_multiplication.Env), e.base = dstr [b] →
      e.number = natsPV (rp.reverse ++ post) → e.remainder = .int (r : Int) →
      ∃ e', forLoop (Gen.calculus_multiplication.for1_body fuel)
          ((List.range rp.length).map fun (i : Nat) => PV.int (i : Int)).reverse e = .ok (.norm e') ∧
        e'.number = natsPV (rp.reverse.foldr (mulStep b) (r, post)).2 ∧
        e'.remainder = .int ((rp.reverse.foldr (mulStep b) (r, post)).1 : Int) := by
  induction rp with
  | nil =>
    intro post r e _ hnum hrem
    exact ⟨e, rfl, by simpa using hnum, hrem⟩
  | cons x rp ih =>
    intro post r e hbase hnum hrem
    have hnum' : e.number = natsPV (rp.reverse ++ x :: post) := by
      rw [hnum, List.reverse_cons, List.append_assoc]; rfl
    obtain ⟨e1, hb1, hbase1, hnum1, hrem1⟩ := for1_body_spec fuel b hb rp.reverse post x r e hbase hnum' hrem
    rw [List.length_reverse] at hb1
    obtain ⟨e2, hl, hnum2, hrem2⟩ := ih _ _ e1 hbase1 hnum1 hrem1
    have hfold : (x :: rp).reverse.foldr (mulStep b) (r, post) =
        rp.reverse.foldr (mulStep b) ((x * b + r) / 10, (x * b + r) % 10 :: post) := by
      rw [List.reverse_cons, List.foldr_append]; rfl
    refine ⟨e2, ?_, ?_, ?_⟩
    · rw [List.length_cons, List.range_succ, List.map_append, List.reverse_append, List.map_singleton,
        List.reverse_singleton, List.singleton_append, forLoop_cons_norm hb1, hl]
    · rw [hfold]; exact hnum2
    · rw [hfold]; exact hrem2

/-! ### loop 2: push the last carry -/

theorem while2_cond_spec (fuel : Nat) (e : Gen.calculus_multiplication.Env) (r : Nat)
    (hrem : e.remainder = .int (r : Int)) :
    Gen.calculus_multiplication.while2_cond fuel e = .ok (decide (0 < r)) := by
  simp only [Gen.calculus_multiplication.while2_cond, hrem, pyGt_nat_zero]

theorem while2_body_spec (fuel : Nat) (e : Gen.calculus_multiplication.Env) (r : Nat) (acc : List Nat)
    (hnum : e.number = natsPV acc) (hrem : e.remainder = .int (r : Int)) :
    ∃ e', Gen.calculus_multiplication.while2_body fuel e = .ok (.norm e') ∧
      e'.number = natsPV (r % 10 :: acc) ∧ e'.remainder = .int ((r / 10 : Nat) : Int) := by
  simp only [Gen.calculus_multiplication.while2_body, hnum, hrem, pyMod_nat_ten, bnd_ok, pyInsert_natsPV_zero,
    pyFloorDiv_nat_ten]
  exact ⟨_, rfl, rfl, rfl⟩

/-! ### the continuations, last to first -/

/-- `k1`: `"".join(map(str, number))`. -/
theorem k1_spec (fuel : Nat) (e : Gen.calculus_multiplication.Env) (l : List Nat) (hl : Digits l)
    (hnum : e.number = natsPV l) :
    Gen.calculus_multiplication.k1 fuel e = .ok (.ret (dstr l)) := by
  simp only [Gen.calculus_multiplication.k1, hnum, join_map_str_natsPV hl, bnd_ok]

/-- `k2`: the carry loop (at most one iteration), then `k1`. -/
theorem k2_spec (fuel : Nat) (hf : 2 ≤ fuel) (e : Gen.calculus_multiplication.Env) (r : Nat) (acc : List Nat)
    (hr : r < 10) (hacc : Digits acc) (hnum : e.number = natsPV acc) (hrem : e.remainder = .int (r : Int)) :
    Gen.calculus_multiplication.k2 fuel e = .ok (.ret (dstr (pushCarry 2 r acc))) := by
  obtain ⟨f, rfl⟩ : ∃ f, fuel = f + 1 + 1 := ⟨fuel - 2, by omega⟩
  rw [Gen.calculus_multiplication.k2]
  by_cases h0 : 0 < r
  · have hc : Gen.calculus_multiplication.while2_cond (f + 1 + 1) e = .ok true := by
      rw [while2_cond_spec _ e r hrem, decide_eq_true h0]
    obtain ⟨e1, hb1, hnum1, hrem1⟩ := while2_body_spec (f + 1 + 1) e r acc hnum hrem
    have hc1 : Gen.calculus_multiplication.while2_cond (f + 1 + 1) e1 = .ok false := by
      rw [while2_cond_spec _ e1 _ hrem1, decide_eq_false (by omega)]
    rw [whileLoop_true_norm hc hb1, whileLoop_false hc1, seq_norm, pushCarry_two_digit h0 hr]
    exact k1_spec _ e1 _ (Digits_cons.mpr ⟨by omega, hacc⟩) hnum1
  · have hr0 : r = 0 := by omega
    subst hr0
    have hc : Gen.calculus_multiplication.while2_cond (f + 1 + 1) e = .ok false := by
      rw [while2_cond_spec _ e 0 hrem, decide_eq_false h0]
    rw [whileLoop_false hc, seq_norm, pushCarry_two_zero]
    exact k1_spec _ e _ hacc hnum

/-- `k3`: the general path — digits to ints, the digit loop, then `k2`. -/
theorem k3_spec (fuel b : Nat) (hf : 2 ≤ fuel) (hb : b < 10) (s : Dec) (hs : Digits s)
    (e : Gen.calculus_multiplication.Env) (hnum : e.number = dstr s) (hbase : e.base = dstr [b]) :
    Gen.calculus_multiplication.k3 fuel e =
      .ok (.ret (dstr (pushCarry 2 (s.foldr (mulStep b) (0, [])).1 (s.foldr (mulStep b) (0, [])).2))) := by
  simp only [Gen.calculus_multiplication.k3, hnum, pyMap_pyInt_dstr hs, bnd_ok, pyLen_natsPV, pyRange1_nat,
    pyReverse_list, pyIter_list]
  obtain ⟨hlt, hdig⟩ := foldr_mulStep_bound hb s hs 0 [] (by omega) Digits_nil
  have key := for1_loop fuel b hb s.reverse [] 0
  rw [List.reverse_reverse, List.length_reverse] at key
  apply seq_eq_of_norm (fun e' => e'.number = natsPV (s.foldr (mulStep b) (0, [])).2 ∧
    e'.remainder = .int ((s.foldr (mulStep b) (0, [])).1 : Int))
  · exact key _ (by exact hbase) (by rw [List.append_nil]) (by rfl)
  · intro e1 ⟨hnum1, hrem1⟩
    exact k2_spec fuel hf e1 _ _ (by omega) hdig hnum1 hrem1

/-- `k4`: the `base == "1"` special case, then `k3`. -/
theorem k4_spec (fuel b : Nat) (hf : 2 ≤ fuel) (hb0 : b ≠ 0) (hb : b < 10) (s : Dec) (hs : Digits s)
    (e : Gen.calculus_multiplication.Env) (hnum : e.number = dstr s) (hbase : e.base = dstr [b]) :
    Gen.calculus_multiplication.k4 fuel e = .ok (.ret (dstr (calculusMultiplication s b))) := by
  simp only [Gen.calculus_multiplication.k4, hnum, hbase, dstr_singleton, pyEq_def, eqb_digit_lit_one hb, bnd_ok,
    seq_guard_ret]
  by_cases h1 : b = 1
  · subst h1
    simp only [decide_true, if_true, calculusMultiplication]
    rfl
  · have hcm : calculusMultiplication s b =
        pushCarry 2 (s.foldr (mulStep b) (0, [])).1 (s.foldr (mulStep b) (0, [])).2 := by
      simp only [calculusMultiplication, hb0, h1, if_false]
    simp only [h1, decide_false, Bool.false_eq_true, if_false, hcm]
    exact k3_spec fuel b hf hb s hs e hnum (by rw [hbase])

/-- the function body: the `base == "0"` special case, then `k4`. -/
theorem body_spec (fuel b : Nat) (hf : 2 ≤ fuel) (hb : b < 10) (s : Dec) (hs : Digits s)
    (e : Gen.calculus_multiplication.Env) (hnum : e.number = dstr s) (hbase : e.base = dstr [b]) :
    Gen.calculus_multiplication.body fuel e = .ok (.ret (dstr (calculusMultiplication s b))) := by
  simp only [Gen.calculus_multiplication.body, hbase, dstr_singleton, pyEq_def, eqb_digit_lit_zero hb, bnd_ok,
    seq_guard_ret]
  by_cases h0 : b = 0
  · subst h0
    simp only [decide_true, if_true, calculusMultiplication, str_lit_zero]
  · simp only [h0, decide_false, Bool.false_eq_true, if_false]
    exact k4_spec fuel b hf h0 hb s hs e hnum (by rw [hbase])

end MulTie

open MulTie in
theorem tie_calculus_multiplication (s : Dec) (b fuel : Nat) (hs : Digits s) (hb : b < 10) (hf : 2 ≤ fuel) :
    Gen.calculus_multiplication fuel (dstr s) (dstr [b]) = .ok (dstr (calculusMultiplication s b)) := by
  rw [Gen.calculus_multiplication, body_spec fuel b hf hb s hs _ rfl rfl]; rfl

end Dsw.Tie
