import DswModel.Tie.NpLemmas
import DswModel.Tie.BuildDefs
import DswModel.Tie.OpDna
import DswModel.Lemmas.Vt
/-!
# Translation tie — `find_vertices` (dsw/spiderweb.py)

`Dsw.Gen.find_vertices` (generated from the Python source on every run) computes the model function
`Dsw.findVertices` for EVERY filter: the filter object is represented by the table of its answers on the `4^k`
k-mers (`tablePV`), which are the only strings the function asks about; the mask cell `i` is the filter's verdict
on the `i`-th k-mer, and `ValueError` is raised exactly when no k-mer is accepted.
-/
namespace Dsw.Tie.FindV
open Dsw Dsw.Py Dsw.Tie

/-! ### the primitives that are new here -/

/-- fuel for `number_to_dna` on an index below `4^k`. -/
theorem log2_fuel {v k : Nat} (h : v < 4 ^ k) : Nat.log2 v + 2 ≤ 2 * k + 2 := by
  by_cases hv : v = 0
  · subst hv; simp [Nat.log2_zero]
  · have h4 : 4 ^ k = 2 ^ (2 * k) := by rw [Nat.pow_mul]
    have := (Nat.log2_lt hv).mpr (h4 ▸ h)
    omega

/-- the k-mers are pairwise distinct. -/
theorem kmer_beq (k i j : Nat) : (numberToDnaInt j k == numberToDnaInt i k) = decide (j = i) := by
  by_cases h : j = i
  · subst h; simp
  · have hne : numberToDnaInt j k ≠ numberToDnaInt i k := fun he =>
      h (by rw [← kmerIdx_numberToDnaInt j k, ← kmerIdx_numberToDnaInt i k, he])
    simp [h, hne]

/-- looking a k-mer up in the key column of the table. -/
theorem findIdxEq_kmers (k i : Nat) : ∀ (n s : Nat), s ≤ i → i < s + n →
    findIdxEq (.str (numberToDnaInt i k)) ((List.range' s n).map fun j => PV.str (numberToDnaInt j k)) s = some i
  | 0, s, h1, h2 => by omega
  | n + 1, s, h1, h2 => by
    rw [List.range'_succ, List.map_cons, findIdxEq_cons, eqb_str, kmer_beq]
    by_cases h : s = i
    · subst h; simp
    · have : decide (s = i) = false := by simp [h]
      rw [this]
      simp only [Bool.false_eq_true, if_false]
      exact findIdxEq_kmers k i n (s + 1) (by omega) (by omega)

/-- `bio_filter.valid(kmer_i)`. -/
theorem pyCallMethod_table (k : Nat) (P : List Char → Bool) (name : String) {i : Nat} (hi : i < 4 ^ k) :
    pyCallMethod (tablePV k P) name [.str (numberToDnaInt i k)] = .ok (.bool (P (numberToDnaInt i k))) := by
  have hfind := findIdxEq_kmers k i (4 ^ k) 0 (Nat.zero_le _) (by omega)
  rw [← List.range_eq_range'] at hfind
  simp only [pyCallMethod, tablePV, hfind]
  congr 1
  rw [List.getD_eq_getElem?_getD, List.getElem?_map, List.getElem?_range hi]
  rfl

/-- `numpy.zeros(shape=(n,), dtype=bool)`. -/
theorem npZerosBool_tup_nat (n : Nat) :
    npZerosBool (.tup [.int (n : Int)]) = .ok (.arr (List.replicate n (.bool false))) := by
  have h : ¬ ((n : Int) < 0) := by omega
  simp only [npZerosBool, npFullBool, h, if_false, Int.toNat_natCast]

/-- `a[i] = b` on a boolean array. -/
theorem pySetItem_boolArr {l : List PV} {i : Nat} (hi : i < l.length) {c : Bool} (hc : l.getD i .none = .bool c)
    (b : Bool) : pySetItem (.arr l) (.int (i : Int)) (.bool b) = .ok (.arr (l.set i (.bool b))) := by
  simp only [pySetItem, asInt?_int, asInt?_bool, normIndex_natCast hi, hc]
  cases b <;> rfl

/-- `numpy.sum` of a boolean array counts the `True` cells. -/
theorem foldl_bools (l : List Bool) :
    (l.map fun b => if b then (1 : Int) else 0).foldl (· + ·) 0 = ((l.filter id).length : Int) := by
  induction l with
  | nil => rfl
  | cons x xs ih =>
    rw [List.map_cons, List.foldl_cons, foldl_add_shift, ih]
    cases x <;> simp <;> omega

theorem npSum_bools (l : List Bool) : npSum (.arr (l.map .bool)) = .ok (.int ((l.filter id).length : Int)) := by
  simp only [npSum, mapM_asInt?_bools, foldl_bools]

/-- `sum(vertices) / len(vertices)` with a positive length. -/
theorem pyTrueDiv_nat_pos (c : Int) {n : Nat} (hn : 0 < n) :
    pyTrueDiv (.int c) (.int (n : Int)) = .ok (.rat c n) := by
  have h0 : ¬ ((n : Int) = 0) := by omega
  have h1 : ((n : Int) > 0) := by omega
  simp only [pyTrueDiv, asInt?_int, h0, h1, if_false, if_true]

/-- `valid_rate == 0`. -/
theorem eqb_rat_zero (c : Nat) (n : Int) : PV.eqb (.rat (c : Int) n) (.int 0) = decide (c = 0) := by
  simp only [PV.eqb, Int.zero_mul]
  by_cases h : c = 0
  · subst h; rfl
  · simp [h]

/-! ### the loop -/

/-- the mask after `i` iterations: the first `i` cells are the verdicts, the others still `False`. -/
def cells (k : Nat) (P : List Char → Bool) (i : Nat) : List PV :=
  (List.range (4 ^ k)).map fun j => PV.bool (decide (j < i) && P (numberToDnaInt j k))

theorem cells_length (k : Nat) (P : List Char → Bool) (i : Nat) : (cells k P i).length = 4 ^ k := by
  simp [cells]

theorem cells_zero (k : Nat) (P : List Char → Bool) : cells k P 0 = List.replicate (4 ^ k) (.bool false) := by
  apply List.ext_getElem
  · simp [cells]
  · intro n h1 h2
    simp [cells]

theorem cells_getD (k : Nat) (P : List Char → Bool) {i : Nat} (hi : i < 4 ^ k) :
    (cells k P i).getD i .none = .bool false := by
  rw [List.getD_eq_getElem?_getD, cells, List.getElem?_map, List.getElem?_range hi]
  simp

theorem cells_set (k : Nat) (P : List Char → Bool) (i : Nat) :
    (cells k P i).set i (.bool (P (numberToDnaInt i k))) = cells k P (i + 1) := by
  apply List.ext_getElem
  · simp [cells]
  · intro n h1 h2
    have hn : n < 4 ^ k := by simpa [cells] using h2
    simp only [cells, List.getElem_set, List.getElem_map, List.getElem_range]
    by_cases h : i = n
    · subst h; simp
    · have e1 : decide (n < i + 1) = decide (n < i) := by
        apply decide_eq_decide.mpr; omega
      simp only [h, if_false, e1]

theorem cells_full (k : Nat) (P : List Char → Bool) :
    cells k P (4 ^ k) = ((List.range (4 ^ k)).map fun j => P (numberToDnaInt j k)).map .bool := by
  rw [List.map_map]
  apply List.map_congr_left
  intro j hj
  have : j < 4 ^ k := List.mem_range.mp hj
  simp [this]

/-- the loop invariant. -/
def Inv (k : Nat) (P : List Char → Bool) (verbose : Bool) (i : Nat) (e : Gen.find_vertices.Env) : Prop :=
  e.observed_length = .int (k : Int) ∧ e.bio_filter = tablePV k P ∧ e.verbose = .bool verbose ∧
    e.vertices = .arr (cells k P i)

theorem for1_body_spec (k : Nat) (P : List Char → Bool) (verbose : Bool) (fuel : Nat) (hf : 2 * k + 2 ≤ fuel)
    (i : Nat) (hi : i < 4 ^ k) (e : Gen.find_vertices.Env) (h : Inv k P verbose i e) :
    ∃ e', Gen.find_vertices.for1_body fuel (.int (i : Int)) e = .ok (.norm e') ∧ Inv k P verbose (i + 1) e' := by
  obtain ⟨hk, hb, hv, hvert⟩ := h
  have hfuel : Nat.log2 i + 2 ≤ fuel := Nat.le_trans (log2_fuel hi) hf
  have hset := pySetItem_boolArr (l := cells k P i) (i := i) (by rw [cells_length]; exact hi) (cells_getD k P hi)
    (P (numberToDnaInt i k))
  simp only [Gen.find_vertices.for1_body, hk, hb, hv, hvert, tie_number_to_dna_int i k fuel hfuel, cstr, bnd_ok,
    pyCallMethod_table k P _ hi, hset, cells_set k P i, ite_self]
  exact ⟨_, rfl, rfl, rfl, rfl, rfl⟩

theorem forLoop_range {ε} {body : PV → ε → R (Flow ε)} (I : Nat → ε → Prop) (n : Nat)
    (h : ∀ i, i < n → ∀ e, I i e → ∃ e', body (.int (i : Int)) e = .ok (.norm e') ∧ I (i + 1) e')
    {e : ε} (h0 : I 0 e) :
    ∃ e', forLoop body ((List.range n).map fun (i : Nat) => PV.int (i : Int)) e = .ok (.norm e') ∧ I n e' := by
  have := forLoop_inv (body := body) I (xs := (List.range n).map fun (i : Nat) => PV.int (i : Int))
    (fun i hi e he => by
      have hi' : i < n := by simpa using hi
      simp only [List.getElem_map, List.getElem_range]
      exact h i hi' e he) h0
  simpa using this

/-! ### the continuations, last to first -/

/-- the result: the model's mask, or `ValueError` when it is empty. -/
theorem result_eq (k : Nat) (P : List Char → Bool) :
    (findVertices k P).map (maskPV false) =
      if ((List.range (4 ^ k)).map fun j => P (numberToDnaInt j k)).filter id = [] then .error .valueError
      else .ok (.arr (cells k P (4 ^ k))) := by
  have htl : (Array.map (fun i => P (numberToDnaInt i k)) (Array.range (4 ^ k))).toList =
      (List.range (4 ^ k)).map fun j => P (numberToDnaInt j k) := by
    rw [Array.toList_map, Array.toList_range]
  simp only [findVertices, Mask.count, htl, List.length_eq_zero_iff]
  split
  · rfl
  · simp only [R_map_ok, maskPV, htl, cells_full, Bool.false_eq_true, if_false]

theorem k3_spec (k : Nat) (P : List Char → Bool) (verbose : Bool) (fuel : Nat) (e : Gen.find_vertices.Env)
    (h : Inv k P verbose (4 ^ k) e) :
    callResult (Gen.find_vertices.k3 fuel e) = (findVertices k P).map (maskPV false) := by
  obtain ⟨_, _, hv, hvert⟩ := h
  have hpos : 0 < 4 ^ k := Nat.pow_pos (by omega)
  have hlen : pyLen (.arr (cells k P (4 ^ k))) = .ok (.int ((4 ^ k : Nat) : Int)) := by
    simp only [pyLen, cells_length]
  rw [result_eq]
  simp only [Gen.find_vertices.k3, hvert, hlen, bnd_ok]
  simp only [cells_full, npSum_bools, bnd_ok, pyTrueDiv_nat_pos _ hpos, pyEq_def, eqb_rat_zero,
    List.length_eq_zero_iff]
  by_cases hc : ((List.range (4 ^ k)).map fun j => P (numberToDnaInt j k)).filter id = []
  · simp only [hc, decide_true, if_true, seq_error, callResult_error]
  · simp only [hc, decide_false, if_false, Bool.false_eq_true, seq_norm, Gen.find_vertices.k2,
      Gen.find_vertices.k1, bnd_ok, ite_self, callResult_ret]

theorem k4_spec (k : Nat) (P : List Char → Bool) (verbose : Bool) (fuel : Nat) (hf : 2 * k + 2 ≤ fuel)
    (e : Gen.find_vertices.Env) (h : Inv k P verbose 0 e) :
    callResult (Gen.find_vertices.k4 fuel e) = (findVertices k P).map (maskPV false) := by
  have hlen : pyLen e.vertices = .ok (.int ((4 ^ k : Nat) : Int)) := by
    rw [h.2.2.2]; simp only [pyLen, cells_length]
  simp only [Gen.find_vertices.k4, hlen, bnd_ok, pyRange1_nat, pyIter_list]
  apply callResult_seq_of_norm (Inv k P verbose (4 ^ k))
  · exact forLoop_range (Inv k P verbose) (4 ^ k) (fun i hi e he => for1_body_spec k P verbose fuel hf i hi e he) h
  · intro e' he'
    exact k3_spec k P verbose fuel e' he'

end Dsw.Tie.FindV

namespace Dsw.Tie
open Dsw Dsw.Py

theorem tie_find_vertices (k : Nat) (P : List Char → Bool) (fuel : Nat) (verbose : Bool) (hf : 2 * k + 2 ≤ fuel) :
    Gen.find_vertices fuel (.int (k : Int)) (tablePV k P) (.bool verbose) = (findVertices k P).map (maskPV false) := by
  simp only [Gen.find_vertices, Gen.find_vertices.body, DnaTie.len_nuc, bnd_ok, pyPow_four_nat, pyInt_int,
    FindV.npZerosBool_tup_nat, ite_self]
  apply callResult_seq_of_norm (FindV.Inv k P verbose 0)
  · exact ⟨_, rfl, rfl, rfl, rfl, by rw [FindV.cells_zero]⟩
  · intro e' he'
    exact FindV.k4_spec k P verbose fuel hf e' he'

end Dsw.Tie
