import DswModel.Tie.SwRepairFrag
/-!
# Translation tie — `repair_dna`: the output stage

The candidate count (`for5`), the fallback return (`k5`), the loop over `itertools.product` (`for6`) with the
re-assembly loop (`for7`), the check filter (`k2`) and the sorted result (`k3`): model `repairTail`.
-/
namespace Dsw.Tie.Repair
open Dsw Dsw.Py Dsw.Tie

/-! ## model side -/

/-- the check filter as a total function (it cannot raise on ACGT candidates). -/
def vtB (chk : Option (List Char)) (c : List Char) : Bool :=
  match vtMatches c chk with
  | .ok b => b
  | .error _ => false

theorem vtMatches_eq_vtB {c : List Char} (h : IsAcgt c) (chk : Option (List Char)) :
    vtMatches c chk = .ok (vtB chk c) := by
  obtain ⟨b, hb⟩ := vtMatches_ok h chk
  simp only [vtB, hb]

theorem mapM_eq_map {α β} {f : α → R β} {g : α → β} : ∀ {l : List α}, (∀ x ∈ l, f x = .ok (g x)) →
    l.mapM f = .ok (l.map g)
  | [], _ => rfl
  | x :: xs, h => by
    rw [List.mapM_cons, h x List.mem_cons_self, mapM_eq_map (fun y hy => h y (List.mem_cons_of_mem _ hy))]
    rfl

/-- one candidate of the product loop: the result set and the flag. -/
def resStep (chk : Option (List Char)) (splits : List (List Char)) (s : List (List Char) × Bool)
    (frs : List (List Char)) : List (List Char) × Bool :=
  if vtB chk (candOf splits frs) then
    (if s.1.contains (candOf splits frs) then s.1 else s.1 ++ [candOf splits frs], s.2)
  else (s.1, true)

theorem resFold (chk : Option (List Char)) (splits : List (List Char)) :
    ∀ (l : List (List (List Char))) (s : List (List Char) × Bool),
      l.foldl (resStep chk splits) s =
        (((l.map (candOf splits)).filter (vtB chk)).foldl
            (fun set x => if set.contains x then set else set ++ [x]) s.1,
          s.2 || (l.map (candOf splits)).any (fun c => !vtB chk c))
  | [], s => by simp
  | frs :: l, s => by
    rw [List.foldl_cons, resFold chk splits l]
    unfold resStep
    cases h : vtB chk (candOf splits frs) with
    | true => simp [h]
    | false => simp [h]

/-- the product branch of `repairTail`, computed by the fold of the loop. -/
theorem repairTail_product (dna : List Char) (chk : Option (List Char)) (heap : Nat) (st : Scan)
    (fv : List (List (List Char)) × Nat) (hg : ¬ (fragCount fv.1 = 0 ∨ fragCount fv.1 > heap))
    (hc : ∀ frs ∈ product fv.1, IsAcgt (candOf st.splits.reverse frs)) :
    repairTail dna chk heap st fv =
      .ok (isort Py.strLt ((product fv.1).foldl (resStep chk st.splits.reverse) ([], false)).1.reverse,
        ⟨st.detected, ((product fv.1).foldl (resStep chk st.splits.reverse) ([], false)).2, fragCount fv.1,
          fv.2⟩) := by
  unfold repairTail
  rw [if_neg hg, mapM_eq_map (g := fun c => (c, vtB chk c)) (by
    intro c hcm
    obtain ⟨frs, hfrs, rfl⟩ := List.mem_map.mp hcm
    rw [vtMatches_eq_vtB (hc frs hfrs)]; rfl)]
  rw [resFold]
  simp only [Except.bind, pure, Except.pure, List.filter_map, List.map_map, List.any_map, Bool.false_or]
  congr 2
  exact (sorted_dedup _).symm

/-- the re-assembly loop runs over positions; the model zips. -/
theorem range_foldl_zip : ∀ (frs splits : List (List Char)) (s : List Char), frs.length ≤ splits.length →
    (List.range frs.length).foldl (fun s i => s ++ (splits.getD i [] ++ frs.getD i [])) s =
      (splits.zip frs).foldl (fun s (p : List Char × List Char) => s ++ p.1 ++ p.2) s
  | [], splits, s, _ => by simp
  | _ :: _, [], _, h => by simp at h
  | f :: frs, sp :: splits, s, h => by
    rw [List.length_cons, List.range_succ_eq_map, List.foldl_cons, List.foldl_map, List.zip_cons_cons,
      List.foldl_cons]
    simp only [List.getD_cons_zero, Nat.succ_eq_add_one, List.getD_cons_succ]
    rw [range_foldl_zip frs splits _ (by simpa using h), List.append_assoc]

/-! ## the environment of the output stage -/

/-- the environment of the output stage: `s` is the result set (in insertion order) and the flag. -/
def TailRel (P : Params) (splits : List (List Char)) (fss : List (List (List Char))) (det cnt vis : Nat)
    (s : List (List Char) × Bool) (e : Env) : Prop :=
  Const P e ∧ e.split_sequences = .list (splits.map .str) ∧ e.repaired_fragment_set = .list (fss.map donePV) ∧
    e.detected_count = .int (det : Int) ∧ e.count = .int (cnt : Int) ∧ e.visited_times = .int (vis : Int) ∧
    e.repaired_results = .set (s.1.map .str) ∧ e.chuck_flag = .bool s.2

/-- closes a `TailRel` goal about an environment literal. -/
macro "tail_rel" : tactic =>
  `(tactic| (refine ⟨⟨?_, ?_, ?_, ?_, ?_, ?_, ?_⟩, ?_, ?_, ?_, ?_, ?_, ?_, ?_⟩ <;> first | rfl | assumption))

/-- the same when `simp` has rewritten unchanged fields of the literal with the case hypotheses. -/
macro "tail_rel2" : tactic =>
  `(tactic| (refine ⟨⟨?_, ?_, ?_, ?_, ?_, ?_, ?_⟩, ?_, ?_, ?_, ?_, ?_, ?_, ?_⟩ <;>
      first | rfl | assumption | (simp only [*, chkPV_none, chkPV_some, List.map_append, List.map_cons, List.map_nil])))

section
variable {P : Params} {splits : List (List Char)} {fss : List (List (List Char))} {det cnt vis : Nat}

/-! ## the candidate count -/

theorem for5_spec (fuel : Nat) (fs : List (List Char)) {s : List (List Char) × Bool} (c : Nat) (e : Env)
    (h : TailRel P splits fss det c vis s e) :
    ∃ e', Gen.repair_dna.for5_body fuel (donePV fs) e = .ok (.norm e') ∧
      TailRel P splits fss det (c * fs.length) vis s e' := by
  obtain ⟨⟨hdna, hacc, hk, hchk, hind, hheap, hnuc⟩, hsp, hrfs, hdet, hcnt, hvis, hres, hflag⟩ := h
  simp only [Gen.repair_dna.for5_body, donePV, pyLen_list, List.length_map, bnd_ok, hcnt, npMul_nat]
  refine ⟨_, rfl, ?_⟩
  tail_rel

theorem for5_loop (fuel : Nat) (l : List (List (List Char))) {s : List (List Char) × Bool} (c : Nat) (e : Env)
    (h : TailRel P splits fss det c vis s e) :
    ∃ e', forLoop (Gen.repair_dna.for5_body fuel) (l.map donePV) e = .ok (.norm e') ∧
      TailRel P splits fss det (l.foldl (fun c f => c * f.length) c) vis s e' :=
  forLoop_rel_map (fun c e => TailRel P splits fss det c vis s e) (fun c f => c * f.length) donePV
    (fun fs _ c e hr => for5_spec fuel fs c e hr) h

/-! ## one candidate -/

/-- the environment inside the re-assembly of one candidate. -/
def AsmRel (P : Params) (splits : List (List Char)) (fss : List (List (List Char))) (det cnt vis : Nat)
    (s : List (List Char) × Bool) (frs : List (List Char)) (body : List Char) (e : Env) : Prop :=
  TailRel P splits fss det cnt vis s e ∧ e.fragments = .tup (frs.map .str) ∧
    e.repaired_dna_sequence = .str body

theorem for7_spec (fuel : Nat) {s : List (List Char) × Bool} {frs : List (List Char)} {i : Nat}
    (hi1 : i < splits.length) (hi2 : i < frs.length) (body : List Char) (e : Env)
    (h : AsmRel P splits fss det cnt vis s frs body e) :
    ∃ e', Gen.repair_dna.for7_body fuel (.int (i : Int)) e = .ok (.norm e') ∧
      AsmRel P splits fss det cnt vis s frs (body ++ (splits.getD i [] ++ frs.getD i [])) e' := by
  obtain ⟨⟨⟨hdna, hacc, hk, hchk, hind, hheap, hnuc⟩, hsp, hrfs, hdet, hcnt, hvis, hres, hflag⟩, hfr, hbody⟩ := h
  simp only [Gen.repair_dna.for7_body, hsp, hfr, hbody, pyIndex_list_strs hi1, pyIndex_tup_strs hi2, bnd_ok,
    npAdd_str]
  refine ⟨_, rfl, ?_, rfl, rfl⟩
  tail_rel

theorem for7_loop (fuel : Nat) {s : List (List Char) × Bool} {frs : List (List Char)}
    (hl : frs.length < splits.length) (e : Env) (h : AsmRel P splits fss det cnt vis s frs [] e) :
    ∃ e', forLoop (Gen.repair_dna.for7_body fuel) ((List.range frs.length).map fun (i : Nat) => PV.int (i : Int)) e =
        .ok (.norm e') ∧
      AsmRel P splits fss det cnt vis s frs
        ((splits.zip frs).foldl (fun s (p : List Char × List Char) => s ++ p.1 ++ p.2) []) e' := by
  rw [← range_foldl_zip frs splits [] (by omega)]
  exact forLoop_rel_map (fun body e => AsmRel P splits fss det cnt vis s frs body e)
    (fun body i => body ++ (splits.getD i [] ++ frs.getD i [])) (fun (i : Nat) => PV.int (i : Int))
    (fun i hi body e hr => for7_spec fuel (by have := List.mem_range.mp hi; omega) (List.mem_range.mp hi) body e hr) h

/-- the check filter and the result set. -/
theorem k2_spec (fuel : Nat) (hfuel : ∀ c, P.chk = some c → c ≠ [] ∧ 2 * c.length + 2 ≤ fuel)
    {s : List (List Char) × Bool} {frs : List (List Char)} (init : List (List Char)) (last : List Char)
    (hs : splits = init ++ [last]) (body : List Char) (hacgt : IsAcgt (body ++ last)) (e : Env)
    (h : AsmRel P splits fss det cnt vis s frs body e) :
    ∃ e', Gen.repair_dna.k2 fuel e = .ok (.norm e') ∧
      TailRel P splits fss det cnt vis
        (if vtB P.chk (body ++ last) then (if s.1.contains (body ++ last) then s.1 else s.1 ++ [body ++ last], s.2)
          else (s.1, true)) e' := by
  obtain ⟨⟨⟨hdna, hacc, hk, hchk, hind, hheap, hnuc⟩, hsp, hrfs, hdet, hcnt, hvis, hres, hflag⟩, hfr, hbody⟩ := h
  have hsp' : e.split_sequences = .list (init.map .str ++ [.str last]) := by
    rw [hsp, hs, List.map_append]; rfl
  have hvt := vtMatches_eq_vtB hacgt P.chk
  cases hc : P.chk with
  | none =>
    rw [hc] at hchk hvt
    have hb : vtB none (body ++ last) = true := rfl
    simp only [Gen.repair_dna.k2, hsp', hbody, hchk, pyIndex_list_append_singleton_neg_one, npAdd_str, bnd_ok,
      chkPV_none, pyIsNone_none, Bool.not_true, Bool.false_eq_true, if_false, hres, pySetAdd_strs, hb, if_true]
    refine ⟨_, rfl, ?_⟩
    tail_rel2
  | some c =>
    rw [hc] at hchk hvt
    obtain ⟨hne, hfc⟩ := hfuel c hc
    simp only [Gen.repair_dna.k2, hsp', hbody, hchk, pyIndex_list_append_singleton_neg_one, npAdd_str, bnd_ok,
      chkPV_some, pyIsNone_str, Bool.not_false, if_true, pyLen_str, set_vt_check fuel _ c hne hfc, hvt]
    cases hb : vtB (some c) (body ++ last) with
    | true =>
      simp only [if_true, hres, pySetAdd_strs, bnd_ok]
      refine ⟨_, rfl, ?_⟩
      tail_rel2
    | false =>
      simp only [Bool.false_eq_true, if_false]
      refine ⟨_, rfl, ?_⟩
      tail_rel2

theorem for6_spec (fuel : Nat) (hfuel : ∀ c, P.chk = some c → c ≠ [] ∧ 2 * c.length + 2 ≤ fuel)
    (frs : List (List Char)) (hl : frs.length + 1 = splits.length) (hacgt : IsAcgt (candOf splits frs))
    (s : List (List Char) × Bool) (e : Env) (h : TailRel P splits fss det cnt vis s e) :
    ∃ e', Gen.repair_dna.for6_body fuel (.tup (frs.map .str)) e = .ok (.norm e') ∧
      TailRel P splits fss det cnt vis (resStep P.chk splits s frs) e' := by
  obtain ⟨init, last, hs⟩ : ∃ init last, splits = init ++ [last] := by
    have hne : splits ≠ [] := by intro h0; rw [h0] at hl; simp at hl
    exact ⟨splits.dropLast, splits.getLast hne, (List.dropLast_concat_getLast hne).symm⟩
  have hlast : splits.getLastD [] = last := by rw [hs]; simp
  have hA : ∀ e0, AsmRel P splits fss det cnt vis s frs [] e0 →
      ∃ e', seq (forLoop (Gen.repair_dna.for7_body fuel)
          ((List.range frs.length).map fun (i : Nat) => PV.int (i : Int)) e0) (Gen.repair_dna.k2 fuel) =
            .ok (.norm e') ∧
        TailRel P splits fss det cnt vis (resStep P.chk splits s frs) e' := fun e0 h0 => by
    obtain ⟨e1, he1, hr1⟩ := for7_loop fuel (by omega) e0 h0
    rw [he1, seq_norm]
    unfold resStep candOf
    rw [hlast]
    unfold candOf at hacgt
    rw [hlast] at hacgt
    exact k2_spec fuel hfuel init last hs _ hacgt e1 hr1
  obtain ⟨⟨hdna, hacc, hk, hchk, hind, hheap, hnuc⟩, hsp, hrfs, hdet, hcnt, hvis, hres, hflag⟩ := h
  have hlen : ((splits.map PV.str).length : Int) - 1 = ((frs.length : Nat) : Int) := by
    rw [List.length_map]; omega
  simp only [Gen.repair_dna.for6_body, hsp, pyLen_list, bnd_ok, npSub_int, hlen, pyRange1_nat, pyIter_list]
  apply hA
  refine ⟨?_, rfl, rfl⟩
  tail_rel

/-! ## the sorted result -/

theorem k3_spec (fuel : Nat) {s : List (List Char) × Bool} (e : Env) (h : TailRel P splits fss det cnt vis s e) :
    Gen.repair_dna.k3 fuel e =
      .ok (.ret (repResultPV (isort Py.strLt s.1.reverse, ⟨det, s.2, cnt, vis⟩))) := by
  obtain ⟨-, hsp, hrfs, hdet, hcnt, hvis, hres, hflag⟩ := h
  simp only [Gen.repair_dna.k3, hres, pyList_set, bnd_ok, pySorted_list_strs, hdet, hflag, hcnt, hvis]
  rfl

theorem pyProduct_done (ls : List (List (List Char))) :
    pyProduct (.list (ls.map donePV)) = .ok (.list ((product ls).map fun frs => .tup (frs.map .str))) :=
  pyProduct_strs ls

end

/-- the hypotheses of the output stage. -/
structure TailHyp (P : Params) (fuel : Nat) (st : Scan) (fv : List (List (List Char)) × Nat) : Prop where
  fuel : ∀ c, P.chk = some c → c ≠ [] ∧ 2 * c.length + 2 ≤ fuel
  len : fv.1.length + 1 = st.splits.length
  dna : IsAcgt P.dna
  splits : ∀ sp ∈ st.splits, IsAcgt sp
  frags : ∀ fs ∈ fv.1, ∀ f ∈ fs, IsAcgt f

theorem TailHyp.cand {P : Params} {fuel : Nat} {st : Scan} {fv : List (List (List Char)) × Nat}
    (H : TailHyp P fuel st fv) {frs : List (List Char)} (hfrs : frs ∈ product fv.1) :
    frs.length + 1 = st.splits.reverse.length ∧ IsAcgt (candOf st.splits.reverse frs) := by
  refine ⟨by rw [(product_mem_zip _ _ hfrs).1, List.length_reverse]; exact H.len, ?_⟩
  exact candOf_acgt (fun sp h => H.splits sp (List.mem_reverse.mp h)) (fun f hf => by
    obtain ⟨fs, h1, h2⟩ := product_mem _ _ hfrs f hf
    exact H.frags fs h1 f h2)

/-- the loop over the product, then the sorted result. -/
theorem k4_spec (fuel : Nat) {P : Params} {st : Scan} {fv : List (List (List Char)) × Nat}
    (H : TailHyp P fuel st fv) (hg : ¬ (fragCount fv.1 = 0 ∨ fragCount fv.1 > P.heap)) (e : Env)
    (h : TailRel P st.splits.reverse fv.1 st.detected (fragCount fv.1) fv.2 ([], false) e) :
    Gen.repair_dna.k4 fuel e = retR ((repairTail P.dna P.chk P.heap st fv).map repResultPV) := by
  have hrfs := h.2.2.1
  simp only [Gen.repair_dna.k4, hrfs, pyProduct_done, bnd_ok, pyIter_list]
  refine seq_norm_retR (Q := TailRel P st.splits.reverse fv.1 st.detected (fragCount fv.1) fv.2
      ((product fv.1).foldl (resStep P.chk st.splits.reverse) ([], false)))
    (forLoop_rel_map (fun s e => TailRel P st.splits.reverse fv.1 st.detected (fragCount fv.1) fv.2 s e)
      (resStep P.chk st.splits.reverse) (fun frs => PV.tup (frs.map .str))
      (fun frs hfrs s e hr => for6_spec fuel H.fuel frs (H.cand hfrs).1 (H.cand hfrs).2 s e hr) h) ?_
  intro e' he'
  rw [k3_spec fuel e' he', repairTail_product P.dna P.chk P.heap st fv hg (fun frs hfrs => (H.cand hfrs).2)]
  rfl

/-- `count == 0 or count > heap_size`. -/
theorem guard_eq (count heap : Nat) :
    (bnd (pyEq (.int (count : Int)) (.int 0)) fun c => if c then .ok true else pyGt (.int (count : Int)) (.int (heap : Int))) =
      .ok (decide (count = 0 ∨ count > heap)) := by
  simp only [pyEq_def, bnd_ok, eqb_int, pyGt_nat]
  by_cases h0 : count = 0
  · subst h0; simp
  · have : ((count : Int) == 0) = false := by simpa using h0
    simp [this, h0]

/-- the fallback return, or the product loop. -/
theorem k5_spec (fuel : Nat) {P : Params} {st : Scan} {fv : List (List (List Char)) × Nat}
    (H : TailHyp P fuel st fv) (e : Env)
    (h : TailRel P st.splits.reverse fv.1 st.detected (fragCount fv.1) fv.2 ([], false) e) :
    Gen.repair_dna.k5 fuel e = retR ((repairTail P.dna P.chk P.heap st fv).map repResultPV) := by
  obtain ⟨⟨hdna, hacc, hk, hchk, hind, hheap, hnuc⟩, hsp, hrfs, hdet, hcnt, hvis, hres, hflag⟩ := id h
  by_cases hg : fragCount fv.1 = 0 ∨ fragCount fv.1 > P.heap
  · unfold repairTail
    rw [if_pos hg]
    cases hc : P.chk with
    | none =>
      rw [hc] at hchk
      simp only [Gen.repair_dna.k5, hcnt, hheap, guard_eq, hg, decide_true, bnd_ok, if_true, hchk, chkPV_none,
        pyIsNone_none, Bool.not_true, Bool.false_eq_true, if_false, seq_ret, hdna, hvis]
      rfl
    | some c =>
      rw [hc] at hchk
      obtain ⟨hne, hfc⟩ := H.fuel c hc
      simp only [Gen.repair_dna.k5, hcnt, hheap, guard_eq, hg, decide_true, bnd_ok, if_true, hchk, chkPV_some,
        pyIsNone_str, Bool.not_false, hdna, pyLen_str, set_vt_check fuel _ c hne hfc, hvis]
      cases hv : vtMatches P.dna (some c) with
      | error err => rfl
      | ok b => cases b <;> rfl
  · simp only [Gen.repair_dna.k5, hcnt, hheap, guard_eq, hg, decide_false, bnd_ok, Bool.false_eq_true, if_false,
      seq_norm]
    exact k4_spec fuel H hg e h

/-- the candidate count, then the rest. -/
theorem k6_spec (fuel : Nat) {P : Params} {st : Scan} {fv : List (List (List Char)) × Nat}
    (H : TailHyp P fuel st fv) (e : Env) (hc : Const P e)
    (hsp : e.split_sequences = .list (st.splits.reverse.map .str))
    (hrfs : e.repaired_fragment_set = .list (fv.1.map donePV)) (hdet : e.detected_count = .int (st.detected : Int))
    (hvis : e.visited_times = .int (fv.2 : Int)) (hflag : e.chuck_flag = .bool false) :
    Gen.repair_dna.k6 fuel e = retR ((repairTail P.dna P.chk P.heap st fv).map repResultPV) := by
  obtain ⟨hdna, hacc, hk, hchk, hind, hheap, hnuc⟩ := hc
  have hA : ∀ e0, TailRel P st.splits.reverse fv.1 st.detected 1 fv.2 ([], false) e0 →
      seq (forLoop (Gen.repair_dna.for5_body fuel) (fv.1.map donePV) e0) (Gen.repair_dna.k5 fuel) =
        retR ((repairTail P.dna P.chk P.heap st fv).map repResultPV) := fun e0 h0 =>
    seq_norm_retR (for5_loop fuel fv.1 1 e0 h0) (fun e' he' => k5_spec fuel H e' he')
  simp only [Gen.repair_dna.k6, hrfs, pyIter_list, bnd_ok]
  apply hA
  tail_rel

end Dsw.Tie.Repair
